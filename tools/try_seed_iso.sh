#!/bin/bash
# usage: SEEDNAME=<name> tools/try_seed_iso.sh <PROP> <worktree> [extra check ids...]
# like try_seed.sh, but isolated: the checks run from a copy of /verif (/tmp/verif_iso) against a scratch checkout
# (/tmp/seedrepo) with the change applied, so that /repo, /verif/coq/gen and /verif/evidence are left alone.
PROP=$1; WT=$2; shift 2; CHECKS="$PROP $@"
NAME=${SEEDNAME:-$PROP}
OUT=/verif/seeded/$NAME
ISO=/tmp/verif_iso
SR=/tmp/seedrepo
mkdir -p $OUT
cp $WT/_seed/demo.py $WT/_seed/meta.json $OUT/ 2>/dev/null
git -C $WT diff > $OUT/patch.diff
echo "== suite with the change"
SUITE=$(cd $WT && INFOCF_LOGLEVEL=ERROR /venv/bin/python -m pytest -q -p no:cacheprovider --timeout=900 --continue-on-collection-errors 2>&1 | tail -1)
echo "$SUITE"
(cd $WT && REPO=$WT INFOCF_LOGLEVEL=ERROR PYTHONPATH=$WT PYTHONHASHSEED=0 timeout 900 /venv/bin/python $OUT/demo.py >/tmp/demo_with_$NAME.log 2>&1); DW=$?
(cd /repo && REPO=/repo INFOCF_LOGLEVEL=ERROR PYTHONPATH=/repo PYTHONHASHSEED=0 timeout 900 /venv/bin/python $OUT/demo.py >/tmp/demo_without_$NAME.log 2>&1); DO=$?
echo "demo with=$DW without=$DO"
# the copy follows the committed state of /verif (not the working tree, which may be mid-edit); build outputs are kept
rm -rf /tmp/verif_export && mkdir -p /tmp/verif_export && git -C /verif archive HEAD | tar -x -C /tmp/verif_export
mkdir -p $ISO && rsync -a --checksum /tmp/verif_export/ $ISO/ && rm -rf /tmp/verif_export
git -C $SR checkout -- . ; git -C $SR apply $OUT/patch.diff || { echo "PATCH DOES NOT APPLY"; exit 3; }
RES=""
for c in $CHECKS; do
  L=$(cd $ISO && VERIF_REPO=$SR ./check $c --tier quick 2>&1 | grep -E "^VIOLATION|^C[0-9]+:" )
  R=$(echo "$L" | grep -c "^VIOLATION"); NF=$(echo "$L" | grep -c "no-failing-input-found")
  echo "check $c: $R violation line(s), $NF without input; $(echo "$L" | tail -1)"
  RES="$RES $c:$R/$NF"
done
git -C $SR checkout -- .
rm -f /tmp/demo_with_$NAME.log /tmp/demo_without_$NAME.log
echo "SUMMARY name=$NAME suite='$SUITE' demo_with=$DW demo_without=$DO checks=$RES"
