#!/bin/bash
# usage: tools/multi_seed_pass.sh "<VERIF_SEED values>" : every quick check on the current /repo under several seeds (false-alarm hunt)
for S in ${1:-"1 2 3"}; do
  for i in 01 02 03 04 05 06 07 08 09 10 11 12 13 14 15 16 17 18 19 20; do
    L=$(cd /verif && VERIF_SEED=$S ./check C$i --tier quick 2>&1 | grep -v "^KNOWN" | tail -1)
    echo "seed=$S $L"
  done
done
