#!/bin/bash
# usage: tools/thorough_pass.sh : every thorough check on the current /repo, one after the other
for i in 01 02 03 04 05 06 07 08 09 10 11 12 13 14 15 16 17 18 19 20; do
  ( cd /verif && ./check C$i --tier thorough 2>&1 | grep -v "^KNOWN" | tail -3 )
done
