#!/bin/bash
# usage: tools/apply_seed.sh <seed-name> <check ids...>  : applies seeded/<name>/patch.diff to /repo, runs the quick checks, restores /repo
NAME=$1; shift
git -C /repo apply /verif/seeded/$NAME/patch.diff || { echo "PATCH DOES NOT APPLY"; exit 3; }
for c in "$@"; do
  R=$(cd /verif && ./check $c --tier quick 2>&1 | grep -c "^VIOLATION")
  echo "seed $NAME: check $c -> $R violation line(s)"
done
git -C /repo checkout -- .
git -C /repo status --short
