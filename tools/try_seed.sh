#!/bin/bash
# usage: tools/try_seed.sh <PROP> <worktree> [extra check ids...]
# confirms a seeded change (suite passes with it, demo fails with it and passes without), stores it under seeded/<name>/,
# then applies it to /repo, runs the named checks (quick tier) and restores /repo.
PROP=$1; WT=$2; shift 2; CHECKS="$PROP $@"
NAME=${SEEDNAME:-$PROP}
OUT=/verif/seeded/$NAME
mkdir -p $OUT
cp $WT/_seed/patch.diff $WT/_seed/demo.py $OUT/ 2>/dev/null
git -C $WT diff > $OUT/patch.diff
echo "== suite with the change"
SUITE=$(cd $WT && INFOCF_LOGLEVEL=ERROR /venv/bin/python -m pytest -q -p no:cacheprovider --timeout=900 --continue-on-collection-errors 2>&1 | tail -1)
echo "$SUITE"
echo "== demo with the change (expect non-zero)"
(cd $WT && REPO=$WT INFOCF_LOGLEVEL=ERROR PYTHONPATH=$WT PYTHONHASHSEED=0 timeout 600 /venv/bin/python $OUT/demo.py >/tmp/demo_with.log 2>&1); DW=$?
echo "exit $DW"; tail -2 /tmp/demo_with.log
echo "== demo on the unchanged /repo (expect 0)"
(cd /repo && REPO=/repo INFOCF_LOGLEVEL=ERROR PYTHONPATH=/repo PYTHONHASHSEED=0 timeout 600 /venv/bin/python $OUT/demo.py >/tmp/demo_without.log 2>&1); DO=$?
echo "exit $DO"; tail -2 /tmp/demo_without.log
if [ -n "$NOAPPLY" ]; then echo "SUMMARY name=$NAME suite='$SUITE' demo_with=$DW demo_without=$DO"; exit 0; fi
echo "== checks with the change applied to /repo"
git -C /repo apply $OUT/patch.diff || { echo "PATCH DOES NOT APPLY"; exit 3; }
RES=""
for c in $CHECKS; do
  R=$(cd /verif && ./check $c --tier quick 2>&1 | grep -c "^VIOLATION")
  echo "check $c: $R violation line(s)"
  RES="$RES $c:$R"
done
git -C /repo checkout -- .
git -C /repo status --short
echo "SUMMARY name=$NAME suite='$SUITE' demo_with=$DW demo_without=$DO checks=$RES"
