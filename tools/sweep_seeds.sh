#!/bin/bash
# usage: tools/sweep_seeds.sh "<VERIF_SEED values>" [seed names...] : every stored seeded change against its own property's quick check
SEEDS=${1:-"1 2 3"}; shift
NAMES=${@:-$(ls /verif/seeded)}
for N in $NAMES; do
  git -C /repo apply /verif/seeded/$N/patch.diff || { echo "$N PATCH DOES NOT APPLY"; continue; }
  for S in $SEEDS; do
    R=$(cd /verif && VERIF_SEED=$S ./check $N --tier quick 2>&1 | grep -c "^VIOLATION")
    echo "seed $N VERIF_SEED=$S -> $R violation line(s)"
  done
  git -C /repo checkout -- .
done
git -C /repo status --short
