#!/bin/bash
# usage: [SEEDREPO=<scratch checkout>] tools/sweep_seeds.sh "<VERIF_SEED values>" [seed names...]
# every stored seeded change against its own property's quick check, applied to $SEEDREPO (default /repo) and undone afterwards
R=${SEEDREPO:-/repo}
SEEDS=${1:-"1 2 3"}; shift
NAMES=${@:-$(ls /verif/seeded)}
for N in $NAMES; do
  P=${N:0:3}
  git -C $R apply /verif/seeded/$N/patch.diff || { echo "$N PATCH DOES NOT APPLY"; continue; }
  for S in $SEEDS; do
    C=$(cd /verif && VERIF_REPO=$R VERIF_SEED=$S ./check $P --tier quick 2>&1 | grep -c "^VIOLATION")
    echo "seed $N VERIF_SEED=$S -> $C violation line(s)"
  done
  git -C $R checkout -- .
done
git -C $R status --short
