#!/usr/bin/env python3
"""Which generated source files (coq/gen/Src*.v) does each property file depend on (transitively)?"""
import os, re, sys
COQ = os.path.join(os.path.dirname(os.path.dirname(os.path.abspath(__file__))), "coq")
deps = {}
for line in open(os.path.join(COQ, ".Makefile.d")):
    if ":" not in line:
        continue
    lhs, rhs = line.split(":", 1)
    tgt = [t for t in lhs.split() if t.endswith(".vo")]
    if not tgt:
        continue
    deps[tgt[0]] = [d for d in rhs.split() if d.endswith(".vo")]
def closure(t, seen=None):
    seen = seen if seen is not None else set()
    for d in deps.get(t, []):
        if d not in seen:
            seen.add(d)
            closure(d, seen)
    return seen
def gen_deps(prop):
    return sorted(os.path.basename(d)[:-3] for d in closure("props/%s.vo" % prop) if d.startswith("gen/"))
if __name__ == "__main__":
    for i in range(1, 21):
        p = "C%02d" % i
        print(p, " ".join(gen_deps(p)))
