#!/bin/bash
# Build the Coq development (full .vo build), the extraction and the OCaml driver.  Incremental.
set -e
cd "$(dirname "$0")/coq"
# the source-derived part of the model (coq/gen/Src*.v) is regenerated from /repo's working tree on every build
/venv/bin/python ../harness/translate.py "${VERIF_REPO:-/repo}" > translate.log 2>&1 || { cat translate.log; echo "TRANSLATOR CRASHED"; exit 2; }
[ -f Makefile ] && [ Makefile -nt _CoqProject ] || coq_makefile -f _CoqProject -o Makefile >/dev/null
timeout 3000 make -j16 > build.log 2>&1 || { tail -30 build.log; echo "COQ BUILD FAILED"; exit 2; }
cd extract
if [ ! -f infocf_model ] || [ -n "$(find ../theories -name '*.vo' -newer infocf_model 2>/dev/null | head -1)" ] || [ Extract.v -nt infocf_model ] || [ driver.ml -nt infocf_model ]; then
  timeout 600 coqc -Q ../theories InfOCF Extract.v > extract.log 2>&1 || { tail -30 extract.log; echo "EXTRACTION FAILED"; exit 2; }
  ocamlfind ocamlopt -O3 -w -a model.mli model.ml driver.ml -o infocf_model > ocaml.log 2>&1 || { tail -30 ocaml.log; echo "OCAML BUILD FAILED"; exit 2; }
fi
echo "build ok"
