From InfOCF Require Import Core Tol Form Model Crev PyLib PyInt TieCrev.
From InfOCFGen Require Import SrcC SrcCrev SrcCrevFix.
From Coq Require Import ZArith.
(* The recorded finding of C19, at source level: translate_to_csp GENERATED from inference/c_revision.py with a dictionary of
   fixed gamma- values (gen/SrcCrevFix.v).  The fixed value replaces the symbol only in the fixed conditional's own acceptance
   constraint; in the other conditionals' candidate sums gamma-_i stays a free symbol.  Witness: all-zero prior over a, b,
   the contradictory pair (a|b):1, (!a|b):2, gamma+ = 0, gamma-_1 fixed to 1.  The generated constraints are solvable
   (with the free symbol gamma-_1 = -1), c_revision therefore returns gamma-_1 = 1 (patched), gamma-_2 = 0 - and the ranking
   revised with these parameters accepts neither conditional. *)
Definition fx_pr : prior := [([false;false],0);([false;true],0);([true;false],0);([true;true],0)].
Definition fx_c1 := {| ckey := 1; ccons := FVar 0; cante := FVar 1 |}.
Definition fx_c2 := {| ckey := 2; ccons := FNot (FVar 0); cante := FVar 1 |}.
Definition fx_sg (s:sym) : Z :=
  match s with SGm 1%Z => (-1)%Z | SMv (SIdx 2%Z) => (-1)%Z | _ => 0%Z end.
Definition fx_gm (k:nat) : nat := if k =? 1 then 1 else 0.       (* the fixed value for index 1, the solver's value for index 2 *)

Theorem fixed_values_refuted : exists csp,
  py_translate_to_csp_fixed 2 (zcomp (fst (compile_alt [fx_c1; fx_c2] fx_pr)), zcomp (snd (compile_alt [fx_c1; fx_c2] fx_pr))) true tt [(1, 1)]%Z = Return csp /\
  csp_sat fx_sg csp = true /\ fx_sg (SGm 2) = 0%Z /\
  forallb (accepts_star [fx_c1; fx_c2] fx_pr (fun _ => 0) fx_gm) [fx_c1; fx_c2] = false.
Proof. eexists. split; [vm_compute; reflexivity|]. split; [vm_compute; reflexivity|]. split; vm_compute; reflexivity. Qed.
