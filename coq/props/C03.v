(* C03 - System W = preferred-structure definition (both back-ends share the recursion over minimal
   correction sets; that each back-end's enumeration returns those sets is C15 / the correspondence check). *)
From InfOCF Require Import Core Tol SysW Form Model Spec ThmOps ThmTop.
From InfOCFProps Require Import Ex.

Theorem C03_system_w_is_preferred_structure : forall n D q P, D <> [] -> part_strict n D = Some P ->
  infer n SysW false D q = Ans (w_spec (worlds n) P q).
Proof. exact infer_w_strict. Qed.
Print Assumptions C03_system_w_is_preferred_structure.

(* the boolean w_spec is the statement "forall w' |= A!B exists w |= AB, w <_w w'" *)
Theorem C03_w_spec_meaning : forall Wl q P, w_spec Wl P q = true <->
  (forall w', In w' Wl -> fal q w' = true -> exists w, In w Wl /\ ver q w = true /\ wless world (layers P) w w' = true).
Proof. intros Wl q P. rewrite w_spec_iff. unfold SysW.spec. split.
  - intros H w' Hw' Hf. destruct (H w' Hw' eq_refl Hf) as [w [? [_ [? ?]]]]. eauto.
  - intros H w' Hw' _ Hf. destruct (H w' Hw' Hf) as [w [? [? ?]]]. exists w. unfold top. auto. Qed.
Print Assumptions C03_w_spec_meaning.

Example birds_w : map (infer 4 SysW false birds) [q_fp; q_nfp; q_wp] = [Ans false; Ans true; Ans true].
Proof. vm_compute. reflexivity. Qed.
