(* C03 - System W = preferred-structure definition (both back-ends share the recursion over minimal
   correction sets; that each back-end's enumeration returns those sets is C15 / the correspondence check). *)
From InfOCF Require Import Core Tol SysW Form Model Spec ThmOps ThmTop.
From InfOCFProps Require Import Ex.
From InfOCF Require Import PyLib TieSolver TieMax TieLayer TieW TieWTop.
From InfOCFGen Require Import SrcW SrcWZ3.
From InfOCF Require Import TieZ3 TieWZ3.
From Coq Require Import ZArith.

Theorem C03_system_w_is_preferred_structure : forall n D q P, D <> [] -> part_strict n D = Some P ->
  infer n SysW false D q = Ans (w_spec (worlds n) P q).
Proof. exact infer_w_strict. Qed.
Print Assumptions C03_system_w_is_preferred_structure.

(* the boolean w_spec is the statement "forall w' |= A!B exists w |= AB, w <_w w'" *)
Theorem C03_w_spec_meaning : forall Wl q P, w_spec Wl P q = true <->
  (forall w', In w' Wl -> fal q w' = true -> exists w, In w Wl /\ ver q w = true /\ wless world (layers P) w w' = true).
Proof. intros Wl q P. rewrite w_spec_iff. unfold SysW.spec. split.
  - intros H w' Hw' Hf. destruct (H w' Hw' eq_refl Hf) as [w [? [_ [? ?]]]]. eauto.
  - intros H w' Hw' _ Hf. destruct (H w' Hw' Hf) as [w [? [? ?]]]. exists w. unfold top. auto. Qed.
Print Assumptions C03_w_spec_meaning.

(* SOURCE TIE.  py_SystemW_inference (with py_SystemW_rec_inference and py_w_any_subset_of_all) is GENERATED on every
   run from /repo's system_w.py (coq/gen/SrcW.v).  CNFs and the MaxSAT enumeration enter by their contracts (PyLib.scnf,
   PyLib.mcs - what C15 establishes).  For every base with distinct keys, every layering of it, every query and either
   mode the generated function returns the model's answer ... *)
Theorem C03_source_code_is_model : forall n q D, NoDup (map kz D) ->
  forall (lay:cond -> nat) m, (forall c, In c D -> lay c < m) -> 0 < m ->
  forall nf fd : dict Z scnf, dict_keys nf = map kz D ->
  (forall c, In c D -> exists cn, zdict_find nf (kz c) = Some cn /\ forall w, scnf_holds cn w = negb (fal c w)) ->
  (forall c, In c D -> exists cn, zdict_find fd (kz c) = Some cn /\ forall w, scnf_holds cn w = fal c w) ->
  forall bb, (forall c, In c D -> zdict_find (bb_conditionals bb) (kz c) = Some c) ->
  forall weakly vq0 fq0 u1 u2,
  py_SystemW_inference n (S m) (Pk D lay m) nf fd vq0 fq0 bb u1 q weakly u2
  = Return (if weakly then w_ext n (acP (Pc D lay m)) q else w_strict n (acP (Pc D lay m)) q).
Proof. exact tie_w_inference. Qed.
Print Assumptions C03_source_code_is_model.
(* ... and, on the partition of a strongly consistent base (which is such a layering) and the dictionaries as
   preprocessing fills them, the preferred-structure definition *)
Theorem C03_source_code_is_preferred_structure : forall n D, NoDup (map kz D) -> forall q P vq0 fq0, D <> [] -> part_strict n D = Some P ->
  exists lay m b, P = acP (Pc D lay m) /\
    py_SystemW_inference n (S m) (Pk D lay m) (nf_of D) (fd_of D) vq0 fq0 (bb_of D) tt q false tt = Return b /\
    (trivial n q || b) = w_spec (worlds n) P q.
Proof. exact src_w_strict_spec. Qed.
Print Assumptions C03_source_code_is_preferred_structure.

(* SOURCE TIE, the alternative back-end.  py_SystemWZ3_inference, _rec_inference and get_all_xi_i are GENERATED on every run
   from /repo's system_w_z3.py (coq/gen/SrcWZ3.v; Conditional_z3's methods from conditional_z3.py).  z3's Optimize is
   modelled by PyLib.zopt (check() decides the hard assertions, model() returns a best model).  For every partition whose
   layers have distinct keys the generated function returns the model's answer; the enumeration loop returns exactly the
   inclusion-minimal falsification sets within one round per world, and every call restores the optimiser (push/pop). *)
Theorem C03_source_z3_backend_is_model : forall n q Pc, (forall L, In L Pc -> NoDup (map ckz L)) -> forall weakly u, Pc <> [] ->
  py_SystemWZ3_inference n (S (length Pc + length (worlds n) + 1)) Pc q weakly u
  = Return (if weakly then w_ext n (acP Pc) q else w_strict n (acP Pc) q).
Proof. exact tie_wz3_inference. Qed.
Print Assumptions C03_source_z3_backend_is_model.
Theorem C03_source_z3_enumeration_is_minimal_family : forall n part, NoDup (map ckz part) -> forall opt, o_soft opt = [] ->
  forall fuel, length (worlds n) < fuel -> exists R opt',
  py_SystemWZ3_get_all_xi_i n fuel opt part = Return (R, opt') /\ o_pop opt' = o_pop opt /\
  (forall xi, In xi R <-> exists x, In x (minimal (Core.fam world (worlds n) (gH opt) (gF part) (top world))) /\ xi = gsel part x).
Proof. exact gax_spec. Qed.
Print Assumptions C03_source_z3_enumeration_is_minimal_family.

Example birds_w : map (infer 4 SysW false birds) [q_fp; q_nfp; q_wp] = [Ans false; Ans true; Ans true].
Proof. vm_compute. reflexivity. Qed.
