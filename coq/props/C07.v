(* C07 - extended semantics: vacuity clauses, then the strict definition over feasible worlds and finite layers. *)
From InfOCF Require Import Core Tol Form Model Spec Exec ThmOps ThmTop ThmPExt.
From InfOCF Require Import ThmPCoin.
From InfOCFProps Require Import Ex.
From InfOCF Require Import PyLib TieSolver TieCons TieInf TieZ TieP.
From InfOCFGen Require Import SrcCond SrcCons SrcInf SrcZ SrcP.
From Coq Require Import ZArith.
From InfOCF Require Import PyLib TieMax TieLayer TieW TieWTop.
From InfOCFGen Require Import SrcW.
From Coq Require Import ZArith.
From InfOCF Require Import PyLib TieSolver TieMax TieLayer TieLex TieLexTop.
From InfOCFGen Require Import SrcLex SrcWZ3 SrcLexZ3.
From InfOCF Require Import TieZ3 TieWZ3 TieLexZ3.
From Coq Require Import ZArith.

(* extended p-entailment (Pinf: extended partition of D + (not B|A), then "no world spares the last layer and satisfies A"):
   the dictionary keys of the base are distinct *)
Theorem C07_p_entailment_extended : forall n D q P, D <> [] -> NoDup (map ckey D) -> part_ext n D = Some P ->
  infer n SysP true D q = Ans (ext_spec (worlds n) P q (p_def (fresh D))).
Proof. exact infer_p_ext. Qed.
Print Assumptions C07_p_entailment_extended.
Theorem C07_system_z_extended : forall n D q P, D <> [] -> part_ext n D = Some P ->
  infer n SysZ true D q = Ans (ext_spec (worlds n) P q z_spec).
Proof. exact infer_z_ext. Qed.
Print Assumptions C07_system_z_extended.
Theorem C07_system_w_extended : forall n D q P, D <> [] -> part_ext n D = Some P ->
  infer n SysW true D q = Ans (ext_spec (worlds n) P q w_spec).
Proof. exact infer_w_ext. Qed.
Print Assumptions C07_system_w_extended.
Theorem C07_lex_inf_extended : forall n D q P, D <> [] -> part_ext n D = Some P ->
  infer n SysLex true D q = Ans (ext_spec (worlds n) P q lex_spec).
Proof. exact infer_lex_ext. Qed.
Print Assumptions C07_lex_inf_extended.

(* total: a Boolean for every operator on every non-empty weakly consistent base, also without finite layers *)
Theorem C07_total : forall n s D q P, D <> [] -> part_ext n D = Some P -> exists b, infer n s true D q = Ans b.
Proof. exact ext_total. Qed.
Print Assumptions C07_total.

(* on strongly consistent bases the extended answers are the strict ones *)
Theorem C07_coincide_z : forall n D q P, D <> [] -> part_strict n D = Some P -> infer n SysZ true D q = infer n SysZ false D q.
Proof. exact ext_strict_coincide_z. Qed.
Print Assumptions C07_coincide_z.
Theorem C07_coincide_p : forall n D q P, D <> [] -> NoDup (map ckey D) -> part_strict n D = Some P ->
  infer n SysP true D q = infer n SysP false D q.
Proof. exact ext_strict_coincide_p. Qed.
Print Assumptions C07_coincide_p.
Example birds_p_coincide : map (infer 4 SysP true birds) [q_fp; q_nfp; q_wp] = map (infer 4 SysP false birds) [q_fp; q_nfp; q_wp]
  /\ map (infer 4 SysP false birds) [q_fp; q_nfp; q_wp] = [Ans false; Ans true; Ans false].
Proof. vm_compute. split; reflexivity. Qed.
Theorem C07_coincide_w : forall n D q P, D <> [] -> part_strict n D = Some P -> infer n SysW true D q = infer n SysW false D q.
Proof. exact ext_strict_coincide_w. Qed.
Print Assumptions C07_coincide_w.
Theorem C07_coincide_lex : forall n D q P, D <> [] -> part_strict n D = Some P -> infer n SysLex true D q = infer n SysLex false D q.
Proof. exact ext_strict_coincide_lex. Qed.
Print Assumptions C07_coincide_lex.

(* SOURCE TIE (extended mode).  The functions GENERATED on every run from /repo's consistency_sat.py, inference.py,
   system_z.py and p_entailment.py answer with the extended definitions. *)
Theorem C07_source_system_z_extended : forall n (d:dict Z cond) q u Pc st, dict_values d <> [] ->
  py_consistency n (S (length d)) (Build_pybase d) u true = Return (PVal Pc, st) ->
  py_general_inference n (py_SystemZ_inference n (S (length Pc)) Pc u) true q tt tt
  = Return (ext_spec (worlds n) (acP Pc) q z_spec).
Proof. exact src_z_ext_spec. Qed.
Print Assumptions C07_source_system_z_extended.
Theorem C07_source_p_entailment_extended : forall n (d:dict Z cond) q u Pc st, dict_values d <> [] -> NoDup (map ckey (dict_values d)) ->
  py_consistency n (S (length d)) (Build_pybase d) u true = Return (PVal Pc, st) ->
  py_general_inference n (py_PEntailment_inference n (S (S (length d))) (Build_pybase d) u) true q tt tt
  = Return (ext_spec (worlds n) (acP Pc) q (p_def (fresh (dict_values d)))).
Proof. exact src_p_ext_spec. Qed.
Print Assumptions C07_source_p_entailment_extended.

Theorem C07_source_system_w_extended : forall n D, NoDup (map kz D) -> forall q P vq0 fq0, D <> [] -> part_ext n D = Some P ->
  exists lay m b, P = acP (Pc D lay m) /\
    py_SystemW_inference n (S m) (Pk D lay m) (nf_of D) (fd_of D) vq0 fq0 (bb_of D) tt q true tt = Return b /\
    (trivial n q || b) = ext_spec (worlds n) P q w_spec.
Proof. exact src_w_ext_spec. Qed.
Print Assumptions C07_source_system_w_extended.

Theorem C07_source_lex_inf_extended : forall n D, NoDup (map kz D) -> forall q P vq0 fq0, D <> [] -> part_ext n D = Some P ->
  exists lay m b, P = acP (Pc D lay m) /\
    py_LexInf_inference n (S m) (Pk D lay m) (nf_of D) (fd_of D) vq0 fq0 (bb_of D) tt q true tt = Return b /\
    (trivial n q || b) = ext_spec (worlds n) P q lex_spec.
Proof. exact src_lex_ext_spec. Qed.
Print Assumptions C07_source_lex_inf_extended.

(* the alternative (z3) back-ends in extended mode *)
Theorem C07_source_system_w_z3_extended : forall n q Pc, (forall L, In L Pc -> NoDup (map ckz L)) -> forall u, Pc <> [] ->
  py_SystemWZ3_inference n (S (length Pc + length (worlds n) + 1)) Pc q true u = Return (w_ext n (acP Pc) q).
Proof. exact (fun n q Pc Hk u Hne => tie_wz3_inference n q Pc Hk true u Hne). Qed.
Print Assumptions C07_source_system_w_z3_extended.
Theorem C07_source_lex_inf_z3_extended : forall n q Pc, (forall L, In L Pc -> NoDup (map ckz L)) -> forall u, Pc <> [] ->
  py_LexInfZ3_inference n (S (length Pc + length (worlds n) + 1)) Pc q true u = Return (lex_ext n (acP Pc) q).
Proof. exact (fun n q Pc Hk u Hne => tie_lexz3_inference n q Pc Hk true u Hne). Qed.
Print Assumptions C07_source_lex_inf_z3_extended.

Example weak_birds : part_strict 4 birds_weak = None
  /\ map (fun s => map (infer 4 s true birds_weak) [q_fp; q_nfp; q_wp]) [SysP; SysZ; SysW; SysLex]
     = [[Ans false; Ans true; Ans false]; [Ans false; Ans true; Ans false]; [Ans false; Ans true; Ans false]; [Ans false; Ans true; Ans false]]
  /\ infer 1 SysW true [mk 1 FBot (v 0)] (mk 1 (v 0) FTop) = Ans false.
Proof. vm_compute. repeat split. Qed.
