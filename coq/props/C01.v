(* C01 - p-entailment (strict mode).  Property theorems only. *)
From InfOCF Require Import Core Tol PEnt Form Model Spec Exec ThmP ThmTop.
From InfOCFProps Require Import Ex.
From InfOCF Require Import PyLib TieSolver TieCons TieInf TieP.
From InfOCFGen Require Import SrcCond SrcCons SrcInf SrcP.
From Coq Require Import ZArith.
From Coq Require Import Permutation.

(* the answer is True exactly when the query is trivial or D + (not B|A) has no tolerance partition *)
Theorem C01_no_tolerance_partition : forall n D q P, D <> [] -> part_strict n D = Some P ->
  (infer n SysP false D q = Ans true <->
   (trivial n q = true \/ ~ exists P', is_tp world (worlds n) P' /\ Permutation (concat P') (map ac (D ++ [negq (fresh D) q])))).
Proof. exact infer_p_strict_tolerance. Qed.
Print Assumptions C01_no_tolerance_partition.

(* ... i.e. exactly when (B|A) is accepted by every ranking model of D *)
Theorem C01_all_ranking_models : forall n D q P, D <> [] -> part_strict n D = Some P -> trivial n q = false ->
  (infer n SysP false D q = Ans true <->
   forall kappa, model world (worlds n) kappa (map ac D) -> accepts world (worlds n) kappa (ac q)).
Proof. exact infer_p_strict_rankings. Qed.
Print Assumptions C01_all_ranking_models.

(* queries with unsatisfiable A or unsatisfiable A-and-not-B are answered True (every operator, both modes) *)
Theorem C01_trivial_queries : forall n s weakly D q P, D <> [] -> consistency n weakly D = Some P -> trivial n q = true ->
  infer n s weakly D q = Ans true.
Proof. exact infer_trivial. Qed.
Print Assumptions C01_trivial_queries.

(* the executable definition the correspondence check prints as "spec" is the model's answer *)
Theorem C01_executable_definition : forall n D q P, D <> [] -> part_strict n D = Some P ->
  infer n SysP false D q = Ans (p_def (fresh D) (worlds n) P q).
Proof. exact infer_p_def_strict. Qed.
Print Assumptions C01_executable_definition.

(* SOURCE TIE.  The functions GENERATED on every run from /repo's consistency_sat.py, inference.py and
   p_entailment.py (coq/gen/Src*.v), run as the manager runs them, answer True exactly when every ranking model of
   the base accepts the query (non-trivial query), for every signature size, dictionary of conditionals and query;
   the translated `while True` loop of the consistency test terminates within |D|+2 rounds. *)
Theorem C01_source_code_is_all_ranking_models : forall n (d:dict Z cond) q u Pc st, dict_values d <> [] -> trivial n q = false ->
  py_consistency n (S (length d)) (Build_pybase d) u false = Return (PVal Pc, st) ->
  exists b, py_general_inference n (py_PEntailment_inference n (S (S (length d))) (Build_pybase d) u) false q tt tt = Return b /\
    (b = true <-> forall kappa, model world (worlds n) kappa (map ac (dict_values d)) -> accepts world (worlds n) kappa (ac q)).
Proof. exact src_p_strict_rankings. Qed.
Print Assumptions C01_source_code_is_all_ranking_models.
Theorem C01_source_code_is_model : forall n (d:dict Z cond) q weakly u1 u2,
  py_PEntailment_inference n (S (S (length d))) (Build_pybase d) u1 q weakly u2
  = Return (if weakly then p_ext n (dict_values d) q else p_strict n (dict_values d) q).
Proof. exact tie_p_inference. Qed.
Print Assumptions C01_source_code_is_model.
Theorem C01_source_trivial_queries : forall n impl weakly q u1 u2 b, impl q weakly u2 = Return b ->
  py_general_inference n impl weakly q u1 u2 = Return (trivial n q || b).
Proof. exact tie_general_inference. Qed.
Print Assumptions C01_source_trivial_queries.

Example birds_p : map (infer 4 SysP false birds) [q_fp; q_nfp; q_wp] = [Ans false; Ans true; Ans false]
  /\ trivial 4 q_wp = false /\ part_strict 4 birds <> None.
Proof. vm_compute. repeat split; discriminate. Qed.
