From InfOCF Require Import Core Tol Form Model.
(* shared concrete bases for the non-vacuity examples *)
Definition v i := FVar i.
Definition mk k b a := {| ckey := k; ccons := b; cante := a |}.
(* atoms: 0=b(ird) 1=p(enguin) 2=f(lies) 3=w(ings) 4=e *)
Definition birds := [ mk 1 (v 2) (v 0); mk 2 (FNot (v 2)) (v 1); mk 3 (v 0) (v 1); mk 4 (v 3) (v 0) ].
Definition birds5 := birds ++ [ mk 5 (v 4) (v 2) ].
Definition q_fp := mk 1 (v 2) (v 1).          (* (f|p)  *)
Definition q_nfp := mk 2 (FNot (v 2)) (v 1).  (* (!f|p) *)
Definition q_wp := mk 3 (v 3) (v 1).          (* (w|p): the drowning problem *)
Definition birds_weak := birds ++ [ mk 5 FBot (FAnd (v 3) (v 1)) ].   (* infinity layer {5}: no winged penguins *)
