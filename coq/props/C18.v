(* C18 - laws of the ranking-function operations, for every table (any signature length, any rank values). *)
From InfOCF Require Import Core Form Model Ocf ThmOcf.
From Coq Require Import Sorted.
From InfOCF Require Import PyLib TieOcf TieTpo TieMarg.
From InfOCFGen Require Import SrcOcf SrcOcfCustom SrcTpo.
From Coq Require Import ZArith.

(* the rank of a formula is the least rank of its models ... *)
Theorem C18_formula_rank_least : forall t phi m, prank t phi = Some m <->
  (exists w, In (w, Some m) t /\ phi w = true) /\ (forall w r, In (w, Some r) t -> phi w = true -> m <= r).
Proof. exact prank_some. Qed.
Print Assumptions C18_formula_rank_least.
(* ... and undefined iff it has none (frank t f is prank t (eval . f) by definition) *)
Theorem C18_formula_rank_undefined : forall t phi, prank t phi = None <-> forall w r, In (w, Some r) t -> phi w = false.
Proof. exact prank_none. Qed.
Print Assumptions C18_formula_rank_undefined.
Theorem C18_frank_is_prank : forall t f, frank t f = prank t (fun w => eval w f).
Proof. exact frank_is_prank. Qed.

Theorem C18_acceptance : forall t c, accept t c = true <->
  exists v, frank t (FAnd (cante c) (ccons c)) = Some v /\
            (frank t (FAnd (cante c) (FNot (ccons c))) = None \/ exists m, frank t (FAnd (cante c) (FNot (ccons c))) = Some m /\ v < m).
Proof. exact accept_iff. Qed.
Print Assumptions C18_acceptance.

(* marginalisation: every property of the remaining atoms keeps its rank; each remaining world gets the least rank of its extensions *)
Theorem C18_marginalize_preserves_ranks : forall drop t phi, prank (marginalize drop t) phi = prank t (fun w => phi (del drop w)).
Proof. exact marginalize_preserves_ranks. Qed.
Print Assumptions C18_marginalize_preserves_ranks.
Theorem C18_marginalize_world_min : forall drop t u, prank (marginalize drop t) (beq u) = prank t (fun w => beq u (del drop w)).
Proof. exact marginalize_world_min. Qed.
Theorem C18_marginalize_one_entry_per_world : forall drop t, keys_distinct (marginalize drop t).
Proof. exact marginalize_distinct. Qed.
Print Assumptions C18_marginalize_one_entry_per_world.

Theorem C18_conditionalisation_exact : forall t f w r, In (w, r) (conditionalize t f) <-> In (w, r) t /\ eval w f = true.
Proof. exact conditionalize_exact. Qed.
Print Assumptions C18_conditionalisation_exact.

(* layered total preorder: layer i is the class of the i-th smallest rank; ranks strictly increase along the layers *)
Theorem C18_tpo_layers : forall t i w, In w (nth i (ranks2tpo t) []) <-> (i < length (rank_values t) /\ In (w, Some (nth i (rank_values t) 0)) t).
Proof. exact ranks2tpo_layers. Qed.
Theorem C18_tpo_ascending : forall t, StronglySorted lt (rank_values t) /\ length (ranks2tpo t) = length (rank_values t).
Proof. exact ranks2tpo_ascending. Qed.
Print Assumptions C18_tpo_layers. Print Assumptions C18_tpo_ascending.
(* back: numbering the layers by their ranks returns exactly the ranks; any strictly increasing numbering preserves the order *)
Theorem C18_tpo_roundtrip_exact : forall t w v, In (w, v) (tpo2ranks (ranks2tpo t) (fun i => nth i (rank_values t) 0)) <-> In (w, Some v) t.
Proof. exact tpo_roundtrip_exact. Qed.
Print Assumptions C18_tpo_roundtrip_exact.
Theorem C18_tpo_roundtrip_order : forall t fn, (forall i j, i < j -> fn i < fn j) ->
  forall w1 v1 r1 w2 v2 r2, In (w1, Some r1) t -> In (w2, Some r2) t -> keys_distinct t ->
  In (w1, v1) (tpo2ranks (ranks2tpo t) fn) -> In (w2, v2) (tpo2ranks (ranks2tpo t) fn) -> (r1 < r2 <-> v1 < v2).
Proof. exact tpo_roundtrip_order. Qed.
Print Assumptions C18_tpo_roundtrip_order.

Definition t2 : table := [([false;false], Some 0); ([false;true], Some 3); ([true;false], Some 1); ([true;true], Some 3)].

(* SOURCE TIE.  formula_rank, conditional_acceptance, the conditionalisation helpers and CustomPreOCF.rank_world are GENERATED on
   every run from /repo's preocf.py (coq/gen/SrcOcf.v, SrcOcfCustom.v).  For every signature size and every total ranking
   table over distinct worlds of the signature they return the model's values (frank, accept, conditionalize), to which the
   laws above apply. *)
Theorem C18_source_formula_rank_is_model : forall n (t:table), NoDup (map fst t) -> (forall p, In p t -> In (fst p) (worlds n)) ->
  (forall p, In p t -> snd p <> None) -> forall f,
  py_PreOCF_formula_rank n (fun w => py_CustomPreOCF_rank_world n (zt t) w false) (zt t) f = Return (option_map Z.of_nat (frank t f)).
Proof. exact tie_formula_rank. Qed.
Print Assumptions C18_source_formula_rank_is_model.
Theorem C18_source_acceptance_is_model : forall n (t:table), NoDup (map fst t) -> (forall p, In p t -> In (fst p) (worlds n)) ->
  (forall p, In p t -> snd p <> None) -> forall c,
  py_PreOCF_conditional_acceptance n (fun w => py_CustomPreOCF_rank_world n (zt t) w false) (zt t) c = Return (accept t c).
Proof. exact tie_conditional_acceptance. Qed.
Print Assumptions C18_source_acceptance_is_model.
Theorem C18_source_conditionalisation_is_model : forall n (t:table), NoDup (map fst t) -> (forall p, In p t -> In (fst p) (worlds n)) -> forall f,
  py_PreOCF_conditionalize_existing_ranks n (zt t) f
  = Return (map (fun p => (fst p, option_map Z.of_nat (snd p))) (conditionalize t f)).
Proof. exact tie_conditionalize_existing. Qed.
Print Assumptions C18_source_conditionalisation_is_model.

(* ranks2tpo, tpo2ranks and is_ocf are GENERATED too (coq/gen/SrcTpo.v).  For every table with distinct worlds ranks2tpo returns the
   model's layers - the rank classes in ascending order of rank, each in table order (unranked worlds in none) - so the laws
   C18_tpo_* above hold of what the code returns; tpo2ranks gives every world of a total preorder with pairwise distinct worlds
   the rank its layer's index is mapped to, in layer order; is_ocf holds exactly when every world has a non-negative rank. *)
Theorem C18_source_ranks2tpo_is_model : forall n (t:table), NoDup (map fst t) -> py_ranks2tpo n (zt_of t) = Return (ranks2tpo t).
Proof. exact tie_ranks2tpo. Qed.
Print Assumptions C18_source_ranks2tpo_is_model.
Theorem C18_source_tpo2ranks_is_model : forall n rf fn, (forall i, rf (Z.of_nat i) = Return (Z.of_nat (fn i))) ->
  forall tpo, NoDup (concat tpo) -> py_tpo2ranks n tpo rf = Return (ztab (tpo2ranks tpo fn)).
Proof. exact tie_tpo2ranks. Qed.
Print Assumptions C18_source_tpo2ranks_is_model.
Theorem C18_source_is_ocf_exact : forall n (d:wdict (option BinNums.Z)), NoDup (map fst d) -> py_PreOCF_is_ocf n d = Return (forallb nonneg d).
Proof. exact tie_is_ocf. Qed.
Print Assumptions C18_source_is_ocf_exact.
(* marginalize: over the signature a_0..a_(n-1), for every table of distinct worlds of length n and every list of atoms to eliminate,
   the generated function returns the model's table (one entry per reduced world, least rank of the worlds it stands for) and the
   signature without the eliminated atoms - so C18_marginalize_* above hold of what the code returns *)
Theorem C18_source_marginalize_is_model : forall n (t:table), NoDup (map fst t) -> (forall p, In p t -> length (fst p) = n) -> forall drop,
  py_PreOCF_marginalize n (zt_of t) (sig n) (marg drop)
  = Return (zt_of (marginalize drop t), map Z.of_nat (filter (keepnat drop) (seq 0 n))).
Proof. exact tie_marginalize. Qed.
Print Assumptions C18_source_marginalize_is_model.
Example marginalize_source_example :
  py_PreOCF_marginalize 2 (zt_of t2) (sig 2) (marg [0]) = Return ([([false], Some 0%Z); ([true], Some 3%Z)], [1%Z])
  /\ py_PreOCF_marginalize 2 (zt_of t2) (sig 2) (marg [1;0]) = Return ([([], Some 0%Z)], []).
Proof. vm_compute. split; reflexivity. Qed.

Example tpo_source_example : py_ranks2tpo 2 (zt_of t2) = Return [[[false;false]]; [[true;false]]; [[false;true];[true;true]]]
  /\ py_tpo2ranks 2 [[[false;false]]; [[true;false]]] (fun i => Return (2 * i)%Z) = Return [([false;false], Some 0%Z); ([true;false], Some 2%Z)]
  /\ py_PreOCF_is_ocf 2 (zt_of t2) = Return true /\ py_PreOCF_is_ocf 2 [([true], Some (-1)%Z)] = Return false.
Proof. vm_compute. repeat split. Qed.

Example ocf_example : frank t2 (FVar 1) = Some 3 /\ frank t2 (FAnd (FVar 0) (FNot (FVar 0))) = None
  /\ marginalize [0] t2 = [([false], Some 0); ([true], Some 3)]
  /\ ranks2tpo t2 = [[[false;false]]; [[true;false]]; [[false;true];[true;true]]]
  /\ accept t2 {| ckey := 1; ccons := FNot (FVar 1); cante := FVar 0 |} = true.
Proof. vm_compute. repeat split. Qed.
