(* C06 - consistency verdicts, tolerance partitions, diagnostics, refusal.  Property theorems only. *)
From InfOCF Require Import Core Tol TolExt Form Model Diag Thm06.
From InfOCF Require Import PyLib TieSolver TieCons PyStr TieDiag.
From InfOCFGen Require Import SrcCond SrcCons SrcDiag.
Local Open Scope list_scope.
Notation length := List.length.
Notation concat := List.concat.
From Coq Require Import ZArith.
From Coq Require Import Permutation.

(* strict mode: "inconsistent" is reported exactly when no tolerance partition exists *)
Theorem C06_inconsistent_iff_no_partition : forall n D,
  part_strict n D = None <-> ~ exists P, is_tp world (worlds n) P /\ Permutation (concat P) (map ac D).
Proof. exact strict_exact. Qed.
Print Assumptions C06_inconsistent_iff_no_partition.

(* ... otherwise the returned partition is the maximal tolerance partition (every layer = all remaining
   conditionals tolerated by the remaining ones), and it is unique *)
Theorem C06_partition_maximal_unique : forall n D P, part_strict n D = Some P ->
  is_mtp world (worlds n) P /\ Permutation (concat P) (map ac D) /\
  forall P', is_mtp world (worlds n) P' -> seteq world (concat P') (concat P) ->
     length P' = length P /\ forall i, seteq world (nth i P' []) (nth i P []).
Proof. exact strict_partition. Qed.
Print Assumptions C06_partition_maximal_unique.

(* the key-based variant (its own loop with dictionary look-ups) returns the same partition *)
Theorem C06_variants_agree : forall n weakly D, NoDup (map ckey D) ->
  consistency_idx n weakly D = consistency_indices n weakly D.
Proof. exact variants_agree. Qed.
Print Assumptions C06_variants_agree.

(* extended mode: finite maximal layers, then the layer of never-tolerated conditionals, which some world spares *)
Theorem C06_extended_partition : forall n D R, part_ext n D = Some R ->
  exists P Cinf, R = P ++ [Cinf] /\ is_mtp_rel world (worlds n) Cinf P /\ Permutation (concat P ++ Cinf) (map ac D)
    /\ (forall c, In c Cinf -> tolerated world (worlds n) Cinf c = false)
    /\ (exists w, In w (worlds n) /\ nofals world Cinf w = true).
Proof. exact ext_partition. Qed.
Print Assumptions C06_extended_partition.

(* ... and the base is rejected only if every world falsifies a member of a never-tolerated sub-base *)
Theorem C06_extended_rejection : forall n D, part_ext n D = None ->
  exists C, C <> [] /\ (forall c, In c C -> In c (map ac D)) /\ (forall c, In c C -> tolerated world (worlds n) C c = false)
    /\ existsb (nofals world C) (worlds n) = false.
Proof. exact ext_reject. Qed.
Print Assumptions C06_extended_rejection.

Theorem C06_strict_iff_empty_infinity_layer : forall n D,
  (exists P, part_strict n D = Some P) <-> (exists R, part_ext n D = Some R /\ last R [] = []).
Proof. exact strict_iff_empty_infinity. Qed.
Print Assumptions C06_strict_iff_empty_infinity_layer.

Theorem C06_diagnostics_flags : forall n ext uf facts D d, diagnostics n ext uf facts D = Some d ->
  (uf = true -> f_consistent d = Some (facts_sat n facts)) /\
  bb_consistent d = Some (is_some (part_strict n D)) /\
  (ext = true -> bb_w_consistent d = Some (is_some (part_ext n D))) /\
  (uf = true -> c_consistent d = Some (is_some (consistency n ext (augment D facts)))) /\
  (uf = true -> ext = true -> forall Pc Pb, part_ext n (augment D facts) = Some Pc -> part_ext n D = Some Pb ->
      c_infinity_increase d = Some (last_size Pb <? last_size Pc)).
Proof. exact diag_flags. Qed.
Print Assumptions C06_diagnostics_flags.

Theorem C06_refusal : forall n s weakly D q, infer n s weakly D q = Refuse <-> D = [] \/ consistency n weakly D = None.
Proof. exact refusal. Qed.
Print Assumptions C06_refusal.

(* non-vacuity: the birds base has the two-layer partition {1,4},{2,3}; with (Bottom|a,!a) added in extended mode
   the infinity layer is {5}; a contradictory pair is inconsistent *)
Definition v i := FVar i.
Definition birds := [ {|ckey:=1; ccons:=v 2; cante:=v 0|}; {|ckey:=2; ccons:=FNot (v 2); cante:=v 1|};
                      {|ckey:=3; ccons:=v 0; cante:=v 1|}; {|ckey:=4; ccons:=v 3; cante:=v 0|} ].
(* SOURCE TIE.  py_consistency is GENERATED on every run from /repo's consistency_sat.py (coq/gen/SrcCons.v):
   for every signature size, dictionary of conditionals and mode it returns, within |D|+1 rounds of its
   `while True` loop, exactly the model's verdict and partition (read through `ac`); a base it rejects is one
   the model refuses, and conversely. *)
Theorem C06_source_code_is_model : forall n weakly (d:dict Z cond) u, exists r stats,
  py_consistency n (S (length d)) (Build_pybase d) u weakly = Return (r, stats) /\
  pres_map (map (map ac)) r = res_of (consistency n weakly (dict_values d)).
Proof. exact tie_consistency. Qed.
Print Assumptions C06_source_code_is_model.
(* the key-based variant consistency_indices (also generated) returns the keys of the model's partition, and the two
   generated variants agree on every base with distinct keys *)
Theorem C06_source_key_variant_is_model : forall n D, NoDup (map kzc D) -> forall weakly u, exists r stats,
  py_consistency_indices n (S (length D)) (Build_pybase (dict_of D)) u weakly = Return (r, stats) /\
  r = res_of (option_map (map (map (fun a => Z.of_nat (key world a)))) (consistency n weakly D)).
Proof. exact tie_consistency_indices. Qed.
Print Assumptions C06_source_key_variant_is_model.
Theorem C06_source_variants_agree : forall n D weakly u, NoDup (map kzc D) -> exists r1 st1 r2 st2,
  py_consistency n (S (length D)) (Build_pybase (dict_of D)) u weakly = Return (r1, st1) /\
  py_consistency_indices n (S (length D)) (Build_pybase (dict_of D)) u weakly = Return (r2, st2) /\
  pres_map (map (map kzc)) r1 = r2.
Proof. exact src_variants_agree. Qed.
Print Assumptions C06_source_variants_agree.
Theorem C06_source_refusal : forall n s weakly (d:dict Z cond) q u, dict_values d <> [] ->
  exists r st, py_consistency n (S (length d)) (Build_pybase d) u weakly = Return (r, st) /\
    (is_pfalse r = true <-> infer n s weakly (dict_values d) q = Refuse).
Proof. exact e2e_refusal. Qed.
Print Assumptions C06_source_refusal.

(* consistency_diagnostics is GENERATED too (with facts_jointly_satisfiable, build_fact_conditionals, augment_belief_base_with_facts,
   _last_layer_size, and consistency() from consistency_sat.py; the variable validation of a fact is a parameter assumed to pass).
   For every base, both switches and every list of facts: the call raises exactly when the model refuses (uses_facts with no fact),
   and otherwise the returned dictionary holds under its five long keys - and again under the five short aliases - exactly the
   model's flags, to which C06_diagnostics_flags above applies. *)
Theorem C06_source_diagnostics_are_model : forall n validate, (forall s f, validate s f = Return tt) -> forall D ext uf facts,
  match diagnostics n ext uf facts D with
  | None => py_consistency_diagnostics n (S (List.length D + List.length facts)) validate (bbl D) ext uf facts tt tt "warn" = Raise
  | Some d => exists dg, py_consistency_diagnostics n (S (List.length D + List.length facts)) validate (bbl D) ext uf facts tt tt "warn" = Return dg /\ flags_of dg d
  end.
Proof. exact tie_diagnostics. Qed.
Print Assumptions C06_source_diagnostics_are_model.
Example diagnostics_source_example :
  py_consistency_diagnostics 4 8 (fun _ _ => Return tt) (bbl birds) true true [FVar 1; FNot (FVar 2)] tt tt "warn"
  = Return [("facts_consistent", true); ("belief_base_weakly_consistent", true); ("belief_base_consistent", true); ("combination_consistent", false);
            ("f_consistent", true); ("bb_consistent", true); ("bb_w_consistent", true); ("c_consistent", false)]%string
  /\ (exists dg, py_consistency_diagnostics 4 6 (fun _ _ => Return tt) (bbl birds) true true [FNot (FVar 1)] tt tt "warn" = Return dg
       /\ sdict_find dg "combination_infinity_increase" = Some true /\ sdict_find dg "c_consistent" = Some true).
Proof. split; [vm_compute; reflexivity|]. eexists. split; [vm_compute; reflexivity|]. split; reflexivity. Qed.

Example birds_partition : consistency_indices 4 false birds = Some [[1;4];[2;3]]
  /\ consistency_idx 4 true (birds ++ [{|ckey:=5; ccons:=FBot; cante:=FAnd (v 3) (v 1)|}]) = Some [[1;4];[2;3];[5]]
  /\ consistency_indices 1 false [{|ckey:=1; ccons:=v 0; cante:=FTop|}; {|ckey:=2; ccons:=FNot (v 0); cante:=FTop|}] = None.
Proof. vm_compute. repeat split. Qed.
