(* C04 - lexicographic inference = comparison of least falsification-count vectors. *)
From InfOCF Require Import Core Tol Lex Form Model Spec ThmOps ThmTop.
From InfOCFProps Require Import Ex.
From InfOCF Require Import PyLib TieSolver TieMax TieLayer TieLex TieLexTop.
From InfOCFGen Require Import SrcLex SrcLexZ3.
From InfOCF Require Import TieZ3 TieLexZ3.
From Coq Require Import ZArith.

Theorem C04_lex_inf_is_lexicographic_definition : forall n D q P, D <> [] -> part_strict n D = Some P ->
  infer n SysLex false D q = Ans (lex_spec (worlds n) P q).
Proof. exact infer_lex_strict. Qed.
Print Assumptions C04_lex_inf_is_lexicographic_definition.

(* lexminl really is the lexicographically least vector of a list of equal-length vectors *)
Theorem C04_lexminl_is_least : forall l m k, (forall x, In x l -> length x = k) -> lexminl l = Some m ->
  In m l /\ forall x, In x l -> lexlt x m = false.
Proof. exact lexminl_spec. Qed.
Print Assumptions C04_lexminl_is_least.

(* a base where a layer has several minimum-cardinality correction sets with different continuations *)
Definition X := FAnd (FAnd (v 0) (v 2)) (FAnd (FNot (v 3)) (v 4)).
Definition Y := FAnd (FNot (v 0)) (FNot (v 2)).
Definition Z := FAnd (FAnd (v 0) (v 2)) (FAnd (v 3) (FNot (v 4))).
Definition q_tie := mk 1 (FOr X Y) (FAnd (v 1) (FOr (FOr X Y) Z)).
(* SOURCE TIE.  py_LexInf_inference (with py_LexInf_rec_inference) is GENERATED on every run from /repo's lex_inf.py
   (coq/gen/SrcLex.v).  CNFs and the MaxSAT enumeration enter by their contracts (PyLib.scnf, PyLib.mcs - what C15
   establishes).  For every base with distinct keys, every layering of it, every query and either mode the generated
   function returns the model's answer (strict mode: behind the quick checks the source repeats) ... *)
Theorem C04_source_code_is_model : forall n q D, NoDup (map kz D) ->
  forall (lay:cond -> nat) m, (forall c, In c D -> lay c < m) -> 0 < m ->
  forall nf fd : dict BinNums.Z scnf, dict_keys nf = map kz D ->
  (forall c, In c D -> exists cn, zdict_find nf (kz c) = Some cn /\ forall w, scnf_holds cn w = negb (fal c w)) ->
  (forall c, In c D -> exists cn, zdict_find fd (kz c) = Some cn /\ forall w, scnf_holds cn w = fal c w) ->
  forall bb, (forall c, In c D -> zdict_find (bb_conditionals bb) (kz c) = Some c) ->
  forall weakly vq0 fq0 u1 u2,
  py_LexInf_inference n (S m) (Pk D lay m) nf fd vq0 fq0 bb u1 q weakly u2
  = Return (if weakly then lex_ext n (acP (Pc D lay m)) q else trivial n q || lex_strict n (acP (Pc D lay m)) q).
Proof. exact tie_lex_inference. Qed.
Print Assumptions C04_source_code_is_model.
(* ... and, on the partition of a strongly consistent base (which is such a layering) and the dictionaries as
   preprocessing fills them, the lexicographic definition *)
Theorem C04_source_code_is_lexicographic_definition : forall n D, NoDup (map kz D) -> forall q P vq0 fq0, D <> [] -> part_strict n D = Some P ->
  exists lay m b, P = acP (Pc D lay m) /\
    py_LexInf_inference n (S m) (Pk D lay m) (nf_of D) (fd_of D) vq0 fq0 (bb_of D) tt q false tt = Return b /\
    (trivial n q || b) = lex_spec (worlds n) P q.
Proof. exact src_lex_strict_spec. Qed.
Print Assumptions C04_source_code_is_lexicographic_definition.

(* SOURCE TIE, the alternative back-end.  py_LexInfZ3_inference, _rec_inference and get_all_xi_i are GENERATED on every run from
   /repo's lex_inf_z3.py (coq/gen/SrcLexZ3.v); z3's Optimize is modelled by PyLib.zopt.  For every partition whose layers
   have distinct keys the generated function returns the model's answer and hands both optimisers back unchanged. *)
Theorem C04_source_z3_backend_is_model : forall n q Pc, (forall L, In L Pc -> NoDup (map ckz L)) -> forall weakly u, Pc <> [] ->
  py_LexInfZ3_inference n (S (length Pc + length (worlds n) + 1)) Pc q weakly u
  = Return (if weakly then lex_ext n (acP Pc) q else lex_strict n (acP Pc) q).
Proof. exact tie_lexz3_inference. Qed.
Print Assumptions C04_source_z3_backend_is_model.
Theorem C04_source_z3_recursion_restores_the_optimisers : forall n q Pc, (forall L, In L Pc -> NoDup (map ckz L)) ->
  forall k fuel ov of (Hv Hf:pred world), k < length Pc -> k + length (worlds n) + 1 < fuel ->
  o_soft ov = [] -> o_soft of = [] -> (forall w, o_holds ov w = Hv w) -> (forall w, o_holds of w = Hf w) ->
  py_LexInfZ3_rec_inference n fuel Pc ov of (Z.of_nat k) q
  = Return (lex_rec world (worlds n) (ver q) (fal q) (rev (map layer_of (firstn (S k) (acP Pc)))) Hv Hf, (ov, of)).
Proof. exact rec_tie_lexz3. Qed.
Print Assumptions C04_source_z3_recursion_restores_the_optimisers.

Example lex_tie : infer 5 SysLex false birds5 q_tie = Ans true /\ infer 5 SysW false birds5 q_tie = Ans false
  /\ map (infer 4 SysLex false birds) [q_fp; q_nfp; q_wp] = [Ans false; Ans true; Ans true].
Proof. vm_compute. repeat split. Qed.
