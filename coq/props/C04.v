(* C04 - lexicographic inference = comparison of least falsification-count vectors. *)
From InfOCF Require Import Core Tol Lex Form Model Spec ThmOps ThmTop.
From InfOCFProps Require Import Ex.

Theorem C04_lex_inf_is_lexicographic_definition : forall n D q P, D <> [] -> part_strict n D = Some P ->
  infer n SysLex false D q = Ans (lex_spec (worlds n) P q).
Proof. exact infer_lex_strict. Qed.
Print Assumptions C04_lex_inf_is_lexicographic_definition.

(* lexminl really is the lexicographically least vector of a list of equal-length vectors *)
Theorem C04_lexminl_is_least : forall l m k, (forall x, In x l -> length x = k) -> lexminl l = Some m ->
  In m l /\ forall x, In x l -> lexlt x m = false.
Proof. exact lexminl_spec. Qed.
Print Assumptions C04_lexminl_is_least.

(* a base where a layer has several minimum-cardinality correction sets with different continuations *)
Definition X := FAnd (FAnd (v 0) (v 2)) (FAnd (FNot (v 3)) (v 4)).
Definition Y := FAnd (FNot (v 0)) (FNot (v 2)).
Definition Z := FAnd (FAnd (v 0) (v 2)) (FAnd (v 3) (FNot (v 4))).
Definition q_tie := mk 1 (FOr X Y) (FAnd (v 1) (FOr (FOr X Y) Z)).
Example lex_tie : infer 5 SysLex false birds5 q_tie = Ans true /\ infer 5 SysW false birds5 q_tie = Ans false
  /\ map (infer 4 SysLex false birds) [q_fp; q_nfp; q_wp] = [Ans false; Ans true; Ans true].
Proof. vm_compute. repeat split. Qed.
