(* C10 - the parser yields exactly the documented meaning, or rejects. *)
From InfOCF Require Import Core Tol Form Parse Lexer ThmParse ThmLexRT.
From InfOCF Require Import PyLib PyStr PyTree TieVisit.
From InfOCFGen Require Import SrcVisit.
Local Open Scope list_scope.
Notation length := List.length.
Notation concat := List.concat.

(* the precedence-climbing parser (the shape of ANTLR's generated rule for the left-recursive `formula`) accepts a
   token list with result f exactly when the list derives f in the documented grammar: negation binds tighter than
   ',' , ',' tighter than ';', both left associative, parentheses override, Top/Bottom are the constants *)
Theorem C10_formula_parser_is_documented_grammar : forall ts f, parse_formula ts = Some f <-> Gdisj ts f.
Proof. exact parse_iff. Qed.
Print Assumptions C10_formula_parser_is_documented_grammar.
Theorem C10_grammar_unambiguous : forall ts f g, Gdisj ts f -> Gdisj ts g -> f = g.
Proof. exact grammar_deterministic. Qed.
Print Assumptions C10_grammar_unambiguous.
(* whole input: a formula text is accepted only if all of its tokens form one derivation *)
Theorem C10_formula_text_entirely_well_formed : forall cs f nm, parse_formula_str cs = Some (f, nm) ->
  exists ts, lexer cs = Some ts /\ Gdisj (map (ftok_of (names_of ts)) ts) f.
Proof. exact formula_text_accepted. Qed.
Print Assumptions C10_formula_text_entirely_well_formed.
(* a parsed base: keys 1..n in file order; signature as declared (no duplicates, no Top / Bottom) *)
Theorem C10_keys_1_to_n : forall ts p, parse_file_toks ts = Some p -> map key_of (pf_conds p) = seq 1 (length (pf_conds p)).
Proof. exact parsed_keys. Qed.
Print Assumptions C10_keys_1_to_n.
Theorem C10_signature_checked : forall ts p, parse_file_toks ts = Some p ->
  has_dup (pf_sig p) = false /\ existsb (eqlist nm_top) (pf_sig p) = false /\ existsb (eqlist nm_bottom) (pf_sig p) = false.
Proof. exact parsed_signature. Qed.
Print Assumptions C10_signature_checked.

(* "a, !b; (c,Top)" = Or (And a (Not b)) (And c Top);  "a b" is rejected *)
Definition s1 := [97;44;32;33;98;59;32;40;99;44;84;111;112;41].
(* text representations: the concatenated token images of any part of the lexer's output that the formula grammar accepts lex
   back to exactly those tokens, hence parse to the same formula again; the same for the whole text "(" B "|" A ")" *)
Theorem C10_lexer_identifiers_well_formed : forall fuel cs ts, lex fuel cs = Some ts -> forallb tok_ok ts = true.
Proof. exact lex_tok_ok. Qed.
Print Assumptions C10_lexer_identifiers_well_formed.
Theorem C10_accepted_tokens_never_adjacent_atoms : forall ts f, Gdisj ts f -> noadj ts = true /\ existsb is_other ts = false.
Proof. exact (proj2 (proj2 grammar_shape)). Qed.
Print Assumptions C10_accepted_tokens_never_adjacent_atoms.
Theorem C10_text_representation_reparses : forall cs before part after tbl f, lexer cs = Some (before ++ part ++ after) ->
  Gdisj (map (ftok_of tbl) part) f ->
  lexer (flat_map image part) = Some part /\ parse_formula (map (ftok_of tbl) part) = Some f.
Proof. exact part_text_roundtrip. Qed.
Print Assumptions C10_text_representation_reparses.
Theorem C10_conditional_text_relexes : forall bt at_, wf bt = true -> wf at_ = true ->
  lexer (cond_text bt at_) = Some (LLP :: bt ++ LBar :: at_ ++ [LRP]).
Proof. exact cond_text_roundtrip. Qed.
Print Assumptions C10_conditional_text_relexes.

Example parse_example : option_map fst (parse_formula_str s1) = Some (FOr (FAnd (FVar 0) (FNot (FVar 1))) (FAnd (FVar 2) FTop))
  /\ parse_formula_str [97;32;98] = None.
Proof. vm_compute. split; reflexivity. Qed.

(* SOURCE TIE.  The formula methods of the parse-tree visitor are GENERATED on every run from /repo's parser/myVisitor.py (coq/gen/SrcVisit.v;
   the bookkeeping list sigcheck is left out).  Under ANTLR's dispatch - the labelled alternative of a node selects the method - every
   parse tree of the formula rule is mapped to the formula it denotes: #Or to a disjunction, #And to a conjunction, #Negation to a
   negation, #Paren to its content, #Var to the constants for Top / Bottom and to the atom of that name otherwise.  Which tree ANTLR
   builds for a text (precedence, rejection of ill-formed text) is the part of C10 carried by the model's parser above and its
   correspondence check. *)
Theorem C10_source_visitor_denotes : forall n idx t fuel, depth t < fuel -> visit n idx fuel t = Return (denote idx t).
Proof. exact tie_visit. Qed.
Print Assumptions C10_source_visitor_denotes.
Example visitor_source_example :
  visit 0 (fun s => if String.eqb s "a" then 0 else 1) 5 (POr (PAnd (PVar "a") (PNeg (PVar "b"))) (PParen (PVar "Bottom")))
  = Return (FOr (FAnd (FVar 0) (FNot (FVar 1))) FBot).
Proof. vm_compute. reflexivity. Qed.
