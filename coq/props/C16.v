(* C16 - the System Z ranking object. *)
From InfOCF Require Import Core Tol SysZ Kz Form Model Spec Diag Ocf ThmZocf ThmZocfExt ThmZocfFacts.
From InfOCFProps Require Import Ex.
From InfOCF Require Import PyLib TieSolver TieZocf.
From InfOCFGen Require Import SrcZocf.
From Coq Require Import ZArith.

(* the object's recursion from the top layer computes the Z-rank of C02 *)
Theorem C16_rank_is_kz : forall P w, zrank_of P w = kz world P w.
Proof. exact zrank_of_is_kz. Qed.
Print Assumptions C16_rank_is_kz.
(* extended mode: top rank = #finite layers + 1, exactly on the worlds falsifying the infinity layer; finite ranks stay below it *)
Theorem C16_rank_extended : forall fin Cinf0 w, zrank_of (fin ++ [Cinf0]) w = if nofals world Cinf0 w then kz world fin w else S (length fin).
Proof. exact zrank_of_ext. Qed.
Theorem C16_finite_ranks_below_top : forall fin w, kz world fin w <= length fin.
Proof. exact finite_ranks_below_top. Qed.
Theorem C16_top_rank_exactly_infeasible : forall fin Cinf0 w, zrank_of (fin ++ [Cinf0]) w = S (length fin) <-> nofals world Cinf0 w = false.
Proof. exact top_rank_iff_infeasible. Qed.
Print Assumptions C16_top_rank_exactly_infeasible.
Print Assumptions C16_rank_extended. Print Assumptions C16_finite_ranks_below_top.

(* whichever worlds are ranked first, lazily, forced or all at once: for every operation sequence every output is the
   specification value and every cached value is the Z-rank *)
Theorem C16_lazy_cache_invariant : forall n P ops c, cache_ok n P c ->
  map snd (zrun n P c ops) = map (zspec_out n P) ops /\ Forall (fun s => cache_ok n P (fst s)) (zrun n P c ops).
Proof. exact zrun_outputs. Qed.
Print Assumptions C16_lazy_cache_invariant.
Theorem C16_empty_cache_ok : forall n P, cache_ok n P (cache0 n).
Proof. exact cache0_ok. Qed.

(* formula ranks of the object are least Z-ranks of models; acceptance = the System Z definition when A is satisfiable *)
Theorem C16_object_formula_rank : forall n P f, minl (map (zr n P) (sat_indices n f)) = rk world (worlds n) (zrank_of P) (fun w => eval w f).
Proof. exact object_frank. Qed.
Print Assumptions C16_object_formula_rank.
Theorem C16_acceptance_is_system_z : forall n P q, existsb (ante q) (worlds n) = true ->
  (match minl (map (zr n P) (sat_indices n (FAnd (cante q) (ccons q)))),
         minl (map (zr n P) (sat_indices n (FAnd (cante q) (FNot (ccons q))))) with
   | None, _ => false | Some _, None => true | Some a, Some b => a <? b end) = z_spec (worlds n) P q.
Proof. exact object_accept_is_z. Qed.
Print Assumptions C16_acceptance_is_system_z.

(* extended mode: for a query whose antecedent has a feasible model, acceptance by the object (least ranks over ALL worlds, the
   infeasible ones at the top rank) is the extended System Z answer; and every conditional outside the infinity layer is accepted *)
Theorem C16_acceptance_extended : forall n fin0 Cinf0 q, existsb (ante q) (Wf (worlds n) (fin0 ++ [Cinf0])) = true ->
  (match minl (map (zr n (fin0 ++ [Cinf0])) (sat_indices n (FAnd (cante q) (ccons q)))),
         minl (map (zr n (fin0 ++ [Cinf0])) (sat_indices n (FAnd (cante q) (FNot (ccons q))))) with
   | None, _ => false | Some _, None => true | Some a, Some b => a <? b end) = ext_spec (worlds n) (fin0 ++ [Cinf0]) q z_spec.
Proof. exact object_accept_ext_indices. Qed.
Print Assumptions C16_acceptance_extended.
Theorem C16_accepts_finite_layers : forall n fin0 Cinf0 D c, part_ext n D = Some (fin0 ++ [Cinf0]) -> In (ac c) (concat fin0) ->
  obj_accept n fin0 Cinf0 c = true.
Proof. exact object_accepts_finite_layers. Qed.
Print Assumptions C16_accepts_finite_layers.

(* strict mode: the object of a strongly consistent base (empty infinity layer) accepts every conditional of the base *)
Theorem C16_accepts_strict_base : forall n D P c, part_strict n D = Some P -> In c D -> obj_accept n P [] c = true.
Proof. exact object_accepts_strict_base. Qed.
Print Assumptions C16_accepts_strict_base.

(* SOURCE TIE.  py_SystemZPreOCF_z_part2ocf (with _rec_z_rank) is GENERATED on every run from /repo's preocf.py
   (coq/gen/SrcZocf.v): for every signature size, non-empty partition and world of the signature it returns the
   Z-rank kz of the world, the descending recursion terminating within one round per layer. *)
Theorem C16_source_rank_is_kz : forall n w, In w (worlds n) -> forall Pc, Pc <> [] ->
  py_SystemZPreOCF_z_part2ocf n (S (length Pc)) Pc w = Return (Z.of_nat (kz world (acP Pc) w)).
Proof. exact tie_z_part2ocf_kz. Qed.
Print Assumptions C16_source_rank_is_kz.

(* SystemZPreOCF.rank_world is GENERATED too (the attribute self.ranks it writes is passed in and returned).  Whatever part of the table
   is filled in (each entry absent or the Z-rank), and whether or not recomputation is forced: the answer is the Z-rank of the world,
   the table keeps its worlds, stays correct, holds the rank of the asked world afterwards and is unchanged elsewhere - so ANY
   sequence of rank_world calls on an object returns Z-ranks (induction over the calls with this invariant). *)
Theorem C16_source_rank_world_lazy : forall n Pc (rk:wdict (option BinNums.Z)) w force, Pc <> [] -> ztable_ok n Pc rk -> In w (map fst rk) ->
  exists rk', py_SystemZPreOCF_rank_world n (S (length Pc)) Pc w force rk = Return (Z.of_nat (kz world (acP Pc) w), rk') /\
    map fst rk' = map fst rk /\ ztable_ok n Pc rk' /\ wdict_find rk' w = Some (Some (Z.of_nat (kz world (acP Pc) w))) /\
    (forall w2, w2 <> w -> wdict_find rk' w2 = wdict_find rk w2).
Proof. exact tie_zocf_rank_world. Qed.
Print Assumptions C16_source_rank_world_lazy.

(* facts: the object is built from the base augmented by (Bottom | not phi), in extended mode by default; every world
   violating a fact receives the top rank, one above all finite ranks *)
Theorem C16_fact_violating_worlds_get_top_rank : forall n D facts R w phi,
  zocf_partition n None facts D = Some R -> In phi facts -> eval w phi = false ->
  exists fin Cinf0, R = fin ++ [Cinf0] /\ zrank_of R w = S (length fin) /\ (forall u, kz world fin u <= length fin).
Proof. exact zocf_fact_violation_top_rank. Qed.
Print Assumptions C16_fact_violating_worlds_get_top_rank.
(* ... the worlds below the top rank satisfy every fact, and an unsatisfiable fact list is refused (None = the error) *)
Theorem C16_worlds_below_top_satisfy_facts : forall n D facts fin Cinf0 w,
  part_ext n (augment D facts) = Some (fin ++ [Cinf0]) -> zrank_of (fin ++ [Cinf0]) w <= length fin -> forallb (eval w) facts = true.
Proof. exact finite_rank_satisfies_facts. Qed.
Theorem C16_unsatisfiable_facts_refused : forall n D facts, facts <> [] -> facts_sat n facts = false -> zocf_partition n None facts D = None.
Proof. exact zocf_unsat_facts_refused. Qed.
Print Assumptions C16_worlds_below_top_satisfy_facts. Print Assumptions C16_unsatisfiable_facts_refused.
(* with facts: for a query whose antecedent has a feasible model, acceptance by the object = the extended System Z
   operator's answer on the augmented base *)
Theorem C16_facts_acceptance_is_system_z_on_augmented_base : forall n D facts fin Cinf0 q,
  facts <> [] -> zocf_partition n None facts D = Some (fin ++ [Cinf0]) ->
  existsb (ante q) (Wf (worlds n) (fin ++ [Cinf0])) = true ->
  infer n SysZ true (augment D facts) q = Ans (obj_accept n fin Cinf0 q).
Proof. exact zocf_facts_acceptance_is_operator. Qed.
Print Assumptions C16_facts_acceptance_is_system_z_on_augmented_base.
Example birds_facts_refused : zocf_partition 4 None [v 1; FNot (v 1)] birds = None. Proof. vm_compute. reflexivity. Qed.
Example birds_fact_top : (match zocf_partition 4 None [FNot (v 1)] birds with
   Some P => (length P, map (zrank_of P) (filter (fun w => eval w (v 1)) (worlds 4))) | None => (0, []) end) = (2, [2;2;2;2;2;2;2;2]).
Proof. vm_compute. reflexivity. Qed.

Example birds_object : (match zocf_partition 4 None [] birds with Some P => map snd (zrun 4 P (cache0 4) [ORank 5; OFrank (v 1); OAccept q_wp]) | None => [] end)
   = [VNat 2; VOpt (Some 1); VBool false]
  /\ (match zocf_partition 4 None [FNot (v 1)] birds with Some P => map snd (zrun 4 P (cache0 4) [ORank 5; ORank 0]) | None => [] end) = [VNat 2; VNat 0].
Proof. vm_compute. repeat split. Qed.
