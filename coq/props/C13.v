(* C13 - answers are independent of batching, history and parallel evaluation. *)
From InfOCF Require Import Core Tol Form Model Manager ThmManager.
From InfOCFProps Require Import Ex.
From Coq Require Import Permutation.
From InfOCF Require Import PyLib PyStr TieDisp TieInf.
From InfOCFGen Require Import SrcDisp SrcInf.
Local Open Scope list_scope.
Notation length := List.length.
Notation concat := List.concat.

(* for every history of inference() calls on one manager - sequential batches and parallel batches with ANY completion
   order of the workers, repeated and duplicate query texts, arbitrary keys (distinct within a parallel batch) - every
   returned table has exactly one row per submitted query, in submission order, with that query's own key and text,
   and the answer the operator gives to that query asked alone on a fresh manager *)
Theorem C13_history_batching_schedule_independence : forall n s weakly D cs, Forall good_call cs ->
  Forall2 (fun c res => match res with
     | None => True
     | Some t => map (fun r => (fst (fst r), snd (fst r))) t = batch_of c /\
                 forall r, In r t -> Ans (snd r) = infer n s weakly D (snd (fst r)) end) cs (run_calls n s weakly D st0 cs).
Proof. intros n s weakly D cs Hg. apply history_independence; auto. apply inv0. Qed.
Print Assumptions C13_history_batching_schedule_independence.

(* the shared result map of a parallel call does not depend on the order in which the workers finish *)
Theorem C13_schedule_independence : forall n s weakly D st batch order, NoDup (map fst batch) -> Permutation batch order ->
  forall k, sh_get (writes n s weakly D st order) k = sh_get (writes n s weakly D st batch) k.
Proof. exact schedule_independence. Qed.
Print Assumptions C13_schedule_independence.

Theorem C13_rows_shape : forall batch d, map (fun r => (fst (fst r), snd (fst r))) (table_of batch d) = batch.
Proof. exact rows_shape. Qed.
Print Assumptions C13_rows_shape.

(* a refused call (empty / inconsistent base) leaves the state untouched: later calls behave the same (run_calls keeps st) *)
Example birds_history :
  run_calls 4 SysW false birds st0 [CSeq [(7, q_fp); (3, q_wp); (9, q_fp)]; CPar [(1, q_wp); (2, q_nfp)] [(2, q_nfp); (1, q_wp)]; CSeq [(5, q_wp)]]
  = [Some [(7, q_fp, false); (3, q_wp, true); (9, q_fp, false)]; Some [(1, q_wp, true); (2, q_nfp, true)]; Some [(5, q_wp, true)]].
Proof. vm_compute. reflexivity. Qed.

(* SOURCE TIE.  create_inference_instance is GENERATED on every run from /repo's inference_manager.py (coq/gen/SrcDisp.v).  Which operator class
   answers the queries of a manager is a function of the two configured names alone - the inference system and, for System W and
   lexicographic inference, whether the partial-MaxSAT back-end is "z3" - so every call on a manager, whatever its batch, position or
   history, is answered by the same class (whose _inference is tied to the model in C01-C05, C11); an unknown system name raises. *)
Theorem C13_source_dispatch_is_a_function_of_the_names : forall n sys pm smt bb,
  py_create_inference_instance n sys pm smt bb tt = match dispatch sys pm with Some c => Return c | None => Raise end.
Proof. exact tie_dispatch. Qed.
Print Assumptions C13_source_dispatch_is_a_function_of_the_names.
Theorem C13_source_dispatch_table :
  dispatch "p-entailment" "rc2" = Some OpPEntailment /\ dispatch "system-z" "rc2" = Some OpSystemZ /\
  dispatch "system-w" "rc2" = Some OpSystemW /\ dispatch "system-w" "rc2-g3" = Some OpSystemW /\ dispatch "system-w" "z3" = Some OpSystemWZ3 /\
  dispatch "lex_inf" "rc2" = Some OpLexInf /\ dispatch "lex_inf" "z3" = Some OpLexInfZ3 /\ dispatch "c-inference" "rc2" = Some OpCInference /\
  dispatch "system-p" "rc2" = None.
Proof. exact dispatch_table. Qed.
Print Assumptions C13_source_dispatch_table.

(* SOURCE: Inference.general_inference, through which single_inference and every parallel worker answer a query, as translated from
   /repo's inference/inference.py. Its parameters are the query, the weak flag of the manager and the operator body; it receives no
   other entry of the manager's state and hands none back (the translator refuses any other use of epistemic_state), and its answer is
   the trivial-query short cut or else the operator body's answer for this very query - nothing an earlier query left behind. *)
Theorem C13_source_general_inference_reads_only_its_query : forall n impl weakly q b, impl q weakly tt = Return b ->
  py_general_inference n impl weakly q tt tt = Return (trivial n q || b).
Proof. intros n impl weakly q b. exact (tie_general_inference n impl weakly q tt tt b). Qed.
Print Assumptions C13_source_general_inference_reads_only_its_query.
