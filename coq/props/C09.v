(* C09 - direct inference, System P, rational monotony, (Bottom|A) only for unsatisfiable A. *)
From InfOCF Require Import Core Tol PEnt Form Model Spec Pref Pref2 ThmPost CModel ThmPostInt.
From InfOCFProps Require Import Ex.
From InfOCF Require Import PyLib TieCons TieAnsP TieAnsZ TieAnsW TieAnsLex TieRel09.
From Coq Require Import ZArith.

(* REF, LLE, RW, SCL, AND, OR, CM, CUT, BOTTOM for every strict partial order on a finite world list *)
Theorem C09_systemP_of_strict_order : forall Wl lt, (forall w, lt w w = false) ->
  (forall a b c, lt a b = true -> lt b c = true -> lt a c = true) -> sysP_holds Wl (pinf Wl lt).
Proof. exact sysP_of_order. Qed.
Print Assumptions C09_systemP_of_strict_order.
Theorem C09_RM_of_modular_order : forall Wl lt, (forall w, lt w w = false) ->
  (forall a b c, lt a b = true -> lt b c = true -> lt a c = true) ->
  (forall a b c, lt a b = true -> lt a c = true \/ lt c b = true) -> RM_holds (pinf Wl lt).
Proof. exact RM_of_modular. Qed.
Print Assumptions C09_RM_of_modular_order.

(* the three definitions are such relations, for every world list (feasible worlds in extended mode) and partition *)
Theorem C09_system_z_systemP : forall Wl P, sysP_holds Wl (fun A B => z_spec Wl P (mkq B A) = true).
Proof. exact z_sysP. Qed.
Print Assumptions C09_system_z_systemP.
Theorem C09_system_z_RM : forall Wl P, RM_holds (fun A B => z_spec Wl P (mkq B A) = true).
Proof. exact z_RM. Qed.
Print Assumptions C09_system_z_RM.
Theorem C09_system_w_systemP : forall Wl P, sysP_holds Wl (fun A B => w_spec Wl P (mkq B A) = true).
Proof. exact w_sysP. Qed.
Print Assumptions C09_system_w_systemP.
Theorem C09_lex_systemP : forall Wl P, sysP_holds Wl (fun A B => lex_spec Wl P (mkq B A) = true).
Proof. exact lex_sysP. Qed.
Print Assumptions C09_lex_systemP.
Theorem C09_lex_RM : forall Wl P, RM_holds (fun A B => lex_spec Wl P (mkq B A) = true).
Proof. exact lex_RM. Qed.
Print Assumptions C09_lex_RM.

(* direct inference for System Z (W and lex follow by C08) *)
Theorem C09_direct_inference_z : forall Wl P c, is_tp world Wl P -> In (ac c) (concat P) -> z_spec Wl P c = true.
Proof. exact direct_z. Qed.
Print Assumptions C09_direct_inference_z.

(* p-entailment: the answers are the intersection of the preferential relations of all ranking models of D (not empty:
   the Z-ranking is one), hence satisfy System P including BOTTOM; every ranking model accepts every conditional of D *)
Theorem C09_p_entailment_is_intersection : forall n D P A B, D <> [] -> part_strict n D = Some P ->
  (Model.infer n SysP false D (mkq B A) = Ans true <-> p_rel (worlds n) (map ac D) A B).
Proof. exact p_answers_are_all_models. Qed.
Print Assumptions C09_p_entailment_is_intersection.
Theorem C09_p_entailment_systemP : forall n D P, D <> [] -> part_strict n D = Some P ->
  sysP_holds (worlds n) (fun A B => Model.infer n SysP false D (mkq B A) = Ans true).
Proof. exact p_entailment_sysP. Qed.
Print Assumptions C09_p_entailment_systemP.
Theorem C09_direct_inference_p : forall n D c, In c D -> forall k, model world (worlds n) k (map ac D) -> accepts world (worlds n) k (ac c).
Proof. exact p_direct. Qed.
Print Assumptions C09_direct_inference_p.
(* c-inference: intersection over all c-representations of D (not empty for a strongly consistent base: C17) *)
Theorem C09_c_inference_systemP : forall n D P, part_strict n D = Some P -> selffulfilling n D = false ->
  sysP_holds (worlds n) (fun A B => (forall w, In w (worlds n) -> eval w A = false) \/ c_infer_prop n D (mkq B A)).
Proof. exact c_inference_sysP_strict. Qed.
Print Assumptions C09_c_inference_systemP.
Theorem C09_direct_inference_c : forall n D c, In c D -> c_spec_prop n D c.
Proof. exact c_direct. Qed.
Print Assumptions C09_direct_inference_c.

Example birds_direct : forallb (fun c => match Model.infer 4 SysZ false birds c with Ans b => b | Refuse => false end) birds = true
  /\ Model.infer 4 SysW false birds (mk 9 FBot (v 1)) = Ans false.
Proof. vm_compute. split; reflexivity. Qed.

(* SOURCE TIE.  On a strongly consistent base with distinct keys, the relation "the code GENERATED from /repo's sources on this
   run answers True to (B|A)" (src_* of TieAns*.v) satisfies System P for p-entailment, System Z, System W and lexicographic
   inference, and rational monotony for System Z and lexicographic inference. *)
Theorem C09_source_system_z_systemP : forall n D, D <> [] -> forall P, part_strict n D = Some P ->
  sysP_holds (worlds n) (fun A B => src_z n D false (mkq B A) true).
Proof. exact src_z_sysP. Qed.
Theorem C09_source_system_z_RM : forall n D, D <> [] -> forall P, part_strict n D = Some P ->
  RM_holds (fun A B => src_z n D false (mkq B A) true).
Proof. exact src_z_RM. Qed.
Theorem C09_source_system_w_systemP : forall n D, NoDup (map kzc D) -> D <> [] -> forall P, part_strict n D = Some P ->
  sysP_holds (worlds n) (fun A B => src_w n D false (mkq B A) true).
Proof. exact src_w_sysP. Qed.
Theorem C09_source_lex_systemP : forall n D, NoDup (map kzc D) -> D <> [] -> forall P, part_strict n D = Some P ->
  sysP_holds (worlds n) (fun A B => src_lex n D false (mkq B A) true).
Proof. exact src_lex_sysP. Qed.
Theorem C09_source_lex_RM : forall n D, NoDup (map kzc D) -> D <> [] -> forall P, part_strict n D = Some P ->
  RM_holds (fun A B => src_lex n D false (mkq B A) true).
Proof. exact src_lex_RM. Qed.
Theorem C09_source_p_entailment_systemP : forall n D, D <> [] -> forall P, part_strict n D = Some P ->
  sysP_holds (worlds n) (fun A B => src_p n D false (mkq B A) true).
Proof. exact src_p_sysP. Qed.
Print Assumptions C09_source_system_z_systemP. Print Assumptions C09_source_system_z_RM. Print Assumptions C09_source_system_w_systemP.
Print Assumptions C09_source_lex_systemP. Print Assumptions C09_source_lex_RM. Print Assumptions C09_source_p_entailment_systemP.
