(* C05 - c-inference = skeptical inference over all c-representations. *)
From InfOCF Require Import Core Tol CInf PEnt Form Model CModel ThmC ThmPostInt.
From InfOCFProps Require Import Ex.
From InfOCF Require Import PyLib PyInt TieMax TieC TieCBase TieCInf TieCComp TieCPipe.
From InfOCFGen Require Import SrcC.
From Coq Require Import ZArith.

(* the compiled constraint system (minimal correction sets, minima encodings, no constraint for an unfalsifiable
   conditional) holds for eta exactly when kappa_eta accepts every conditional of D *)
Theorem C05_csp_is_c_representation : forall n D eta, length eta = length D -> csp_b n D eta = crep_b n D eta.
Proof. exact csp_iff_crep. Qed.
Print Assumptions C05_csp_is_c_representation.

(* the query constraint GE(min v, min f), with the three short cuts, is "kappa_eta does not accept the query" *)
Theorem C05_query_constraint : forall n D eta q, qcon_b n D eta q = negb (qacc_b n D eta q).
Proof. exact qcon_is_not_accept. Qed.
Print Assumptions C05_query_constraint.

(* hence "the CSP has no solution" is skeptical inference over all c-representations *)
Theorem C05_c_inference_is_skeptical : forall n D q, selffulfilling n D = false -> (c_infer_prop n D q <-> c_spec_prop n D q).
Proof. exact c_correct. Qed.
Print Assumptions C05_c_inference_is_skeptical.

(* the early "return False" for a base none of whose conditionals can be falsified agrees with the definition *)
Theorem C05_self_fulfilling_base : forall n D q eta, selffulfilling n D = true ->
  (exists w, In w (worlds n) /\ fal q w = true) -> qacc_b n D eta q = false.
Proof. exact self_rejects. Qed.
Print Assumptions C05_self_fulfilling_base.

(* inclusion p <= c (C08) *)
Theorem C05_p_entailment_sub_c_inference : forall n D q, (exists w, In w (worlds n) /\ fal q w = true) ->
  p_strict n D q = true -> c_spec_prop n D q.
Proof. exact p_sub_c. Qed.
Print Assumptions C05_p_entailment_sub_c_inference.

(* birds: impacts (1,2,2,1) form a c-representation that rejects (f|p); (w|p) has no counter-representation with impacts <= 3 *)
(* the constraint system of a strongly consistent base is satisfiable: a c-representation exists (impacts B^(Z-rank of the
   verification), B = 1 + number of conditionals), so "no solution with the query constraint" is never vacuous *)
Theorem C05_csp_satisfiable : forall n D P, part_strict n D = Some P -> exists eta, length eta = length D /\ csp_b n D eta = true.
Proof. exact strict_csp_satisfiable. Qed.
Print Assumptions C05_csp_satisfiable.


(* SOURCE TIE.  compile_and_encode_query (with makeSummation, freshVars, minima_encoding) is GENERATED on every run from /repo's
   c_inference.py (coq/gen/SrcC.v); integer constraints are PyInt terms, minimal_correction_subsets enters by its contract.
   For every base with distinct keys, impact vector and query: the constraints the generated function returns have a
   solution in the auxiliary minimum variables exactly when the model's query constraint holds (all four emptiness
   cases included). *)
Theorem C05_source_query_constraint : forall n D, NoDup (map kz D) -> forall eta, length eta = length D -> forall q, exists csp,
  py_CInference_compile_and_encode_query n (nf_of D) q tt = Return (csp, tt) /\
  forall sg, eta_assignment D eta sg ->
    ((exists a b, csp_sat (with_aux sg a b) csp = true) <-> qcon_b n D eta q = true).
Proof. exact tie_query_constraint. Qed.
Print Assumptions C05_source_query_constraint.

(* ... translate() / encoding(): run on dictionaries vMin / fMin holding, per conditional, the key sets of the model's minimal
   correction patterns, the generated base CSP is solvable with impacts eta exactly when kappa_eta is a c-representation of
   the base (on a base each of whose conditionals is verifiable, as on every consistent base); and the generated query
   constraints exactly when kappa_eta does not accept the query.  Together: "base CSP + query constraints unsolvable" is
   "every c-representation accepts the query". *)
Theorem C05_source_base_csp_is_c_representation : forall n D, NoDup (map kz D) -> forall eta, length eta = length D ->
  (forall i, i < length D -> vMin n D i <> []) -> exists csp,
  py_CInference_translate n (bb_of D) (vM n D) (fM n D) = Return csp /\
  forall sg, eta_assignment D eta sg ->
    ((exists sg', (forall k, sg' (SEta k) = sg (SEta k)) /\ csp_sat sg' csp = true) <-> crep_b n D eta = true).
Proof. exact src_csp_is_c_representation. Qed.
Print Assumptions C05_source_base_csp_is_c_representation.
Theorem C05_source_query_constraint_is_non_acceptance : forall n D, NoDup (map kz D) -> forall eta, length eta = length D -> forall q, exists csp,
  py_CInference_compile_and_encode_query n (nf_of D) q tt = Return (csp, tt) /\
  forall sg, eta_assignment D eta sg ->
    ((exists a b, csp_sat (with_aux sg a b) csp = true) <-> qacc_b n D eta q = false).
Proof. exact src_query_is_not_accept. Qed.
Print Assumptions C05_source_query_constraint_is_non_acceptance.

(* ... and CInference._inference itself (the self-fulfilling test, the solver loaded with the base CSP that the generated
   translate() returned plus the generated query constraints, the final `not satcheck`): with an SMT solver that decides
   solvability of the integer constraints, the generated function answers True exactly when the model's c-inference holds,
   hence - on a base that is not self-fulfilling - exactly when EVERY c-representation accepts the query. *)
Theorem C05_source_inference_is_model : forall n D, NoDup (map kz D) -> (forall i, i < length D -> vMin n D i <> []) ->
  forall isolve, (forall l, exists b, isolve l = Return b /\ (b = true <-> exists sg, csp_sat sg l = true)) ->
  forall q weakly, exists base,
  py_CInference_translate n (bb_of D) (vM n D) (fM n D) = Return base /\
  exists b, py_CInference_inference n isolve (bb_of D) tt base (nf_of D) q weakly tt = Return b /\ (b = true <-> c_infer_prop n D q).
Proof. exact tie_c_inference. Qed.
Print Assumptions C05_source_inference_is_model.
Theorem C05_source_inference_is_skeptical : forall n D, NoDup (map kz D) -> (forall i, i < length D -> vMin n D i <> []) ->
  forall isolve, (forall l, exists b, isolve l = Return b /\ (b = true <-> exists sg, csp_sat sg l = true)) ->
  forall q weakly, exists base,
  py_CInference_translate n (bb_of D) (vM n D) (fM n D) = Return base /\
  exists b, py_CInference_inference n isolve (bb_of D) tt base (nf_of D) q weakly tt = Return b /\
            (selffulfilling n D = true -> b = false) /\
            (selffulfilling n D = false -> (b = true <-> c_spec_prop n D q)).
Proof. exact src_c_inference_skeptical. Qed.
Print Assumptions C05_source_inference_is_skeptical.

(* ... and compile_constraint: from the CNF dictionaries of the preprocessing (by their contract) and empty tables it fills vMin /
   fMin with exactly the dictionaries the two theorems above start from (minimal_correction_subsets by its contract, ignore=[i]) *)
Theorem C05_source_compile_constraint_fills_minima : forall n D, NoDup (map kz D) ->
  py_CInference_compile_constraint n (nf_of D) (vd_of D) (fd_of D) tt [] [] = Return (tt, (vM n D, fM n D)).
Proof. exact tie_compile_constraint. Qed.
Print Assumptions C05_source_compile_constraint_fills_minima.
(* the whole chain as CInference runs it *)
Theorem C05_source_pipeline_is_skeptical : forall n D, NoDup (map kz D) -> (forall i, i < length D -> vMin n D i <> []) ->
  forall isolve, (forall l, exists b, isolve l = Return b /\ (b = true <-> exists sg, csp_sat sg l = true)) ->
  forall q weakly, exists vm fm base b,
    py_CInference_compile_constraint n (nf_of D) (vd_of D) (fd_of D) tt [] [] = Return (tt, (vm, fm)) /\
    py_CInference_translate n (bb_of D) vm fm = Return base /\
    py_CInference_inference n isolve (bb_of D) tt base (nf_of D) q weakly tt = Return b /\
    (selffulfilling n D = true -> b = false) /\
    (selffulfilling n D = false -> (b = true <-> c_spec_prop n D q)).
Proof. exact src_c_pipeline. Qed.
Print Assumptions C05_source_pipeline_is_skeptical.

(* on a strongly consistent base the verifiability premise holds by itself *)
Theorem C05_source_pipeline_on_consistent_bases : forall n D P, NoDup (map kz D) -> part_strict n D = Some P ->
  forall isolve, (forall l, exists b, isolve l = Return b /\ (b = true <-> exists sg, csp_sat sg l = true)) ->
  forall q weakly, exists vm fm base b,
    py_CInference_compile_constraint n (nf_of D) (vd_of D) (fd_of D) tt [] [] = Return (tt, (vm, fm)) /\
    py_CInference_translate n (bb_of D) vm fm = Return base /\
    py_CInference_inference n isolve (bb_of D) tt base (nf_of D) q weakly tt = Return b /\
    (selffulfilling n D = true -> b = false) /\
    (selffulfilling n D = false -> (b = true <-> c_spec_prop n D q)).
Proof. exact src_c_pipeline_consistent. Qed.
Print Assumptions C05_source_pipeline_on_consistent_bases.

Example birds_c : check_counter 4 birds [1;2;2;1] q_fp = true /\ search_counter 4 birds 3 q_wp = None
  /\ selffulfilling 4 birds = false.
Proof. vm_compute. repeat split. Qed.
(* the premises about the base are satisfiable: the birds base has distinct keys and every conditional has a verifying pattern
   (the solver oracle is a parameter: its assumed behaviour is recorded in the trusted base, DESIGN.md section 4) *)
Example birds_source_premises : NoDup (map kz birds) /\ (forall i, i < length birds -> vMin 4 birds i <> []).
Proof. split.
  - vm_compute. repeat constructor; simpl; intuition discriminate.
  - intros i Hi. assert (H: forallb (fun i => negb (is_nil (vMin 4 birds i))) (seq 0 (length birds)) = true) by (vm_compute; reflexivity).
    eapply forallb_forall in H; [|apply in_seq; split; [apply Nat.le_0_l|exact Hi]]. intros E. rewrite E in H. discriminate. Qed.
