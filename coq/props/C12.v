(* C12 - answers depend only on meaning, not on presentation. *)
From InfOCF Require Import Core Tol Form Model Spec ThmInv.
From InfOCFProps Require Import Ex.

(* conditionals listed in the same order with pairwise equal verification and falsification sets - whatever their
   integer keys and however their antecedents / consequents are written - and a query with the same verification and
   falsification sets give the same answer (or the same refusal): every operator, both modes *)
Theorem C12_keys_and_equivalent_formulas : forall n s weakly D D' q q', Forall2 ceq D D' -> ceq q q' ->
  infer n s weakly D q = infer n s weakly D' q'.
Proof. exact presentation_invariance. Qed.
Print Assumptions C12_keys_and_equivalent_formulas.

(* the same for the partitions themselves (layer by layer) *)
Theorem C12_partition_invariance : forall n weakly D D', Forall2 ceq D D' ->
  orel (consistency n weakly D) (consistency n weakly D').
Proof. exact consistency_cong. Qed.
Print Assumptions C12_partition_invariance.

(* on the definitions, for every world list *)
Theorem C12_definitions_invariant : forall Wl P P' q q', peq P P' -> ceq q q' ->
  z_spec Wl P q = z_spec Wl P' q' /\ w_spec Wl P q = w_spec Wl P' q' /\ lex_spec Wl P q = lex_spec Wl P' q'.
Proof. intros. repeat split; [apply z_spec_cong|apply w_spec_cong|apply lex_spec_cong]; auto. Qed.
Print Assumptions C12_definitions_invariant.

(* birds with keys 0,17,3,40 and De Morgan / double-negation rewrites: same answers *)
Definition birds' := [ mk 0 (FNot (FNot (v 2))) (FAnd (v 0) FTop); mk 17 (FNot (v 2)) (FOr (v 1) FBot);
                       mk 3 (v 0) (FNot (FOr (FNot (v 1)) (FNot (v 1)))); mk 40 (v 3) (v 0) ].
Example birds_represented : forallb (fun s => forallb (fun q => match infer 4 s false birds q, infer 4 s false birds' q with
    | Ans a, Ans b => Bool.eqb a b | _, _ => false end) [q_fp; q_nfp; q_wp]) [SysP; SysZ; SysW; SysLex] = true.
Proof. vm_compute. reflexivity. Qed.
