(* C12 - answers depend only on meaning, not on presentation. *)
From InfOCF Require Import Core Tol Form Model Spec ThmInv ThmPerm ThmSim ThmSimInst.
From Coq Require Import Permutation.
From InfOCFProps Require Import Ex.
From InfOCF Require Import PyLib TieCons TieAnsP TieAnsW TieAnsLex TieRel12.
From Coq Require Import ZArith.

(* conditionals listed in the same order with pairwise equal verification and falsification sets - whatever their
   integer keys and however their antecedents / consequents are written - and a query with the same verification and
   falsification sets give the same answer (or the same refusal): every operator, both modes *)
Theorem C12_keys_and_equivalent_formulas : forall n s weakly D D' q q', Forall2 ceq D D' -> ceq q q' ->
  infer n s weakly D q = infer n s weakly D' q'.
Proof. exact presentation_invariance. Qed.
Print Assumptions C12_keys_and_equivalent_formulas.

(* listing the conditionals in a different order *)
Theorem C12_order_of_the_base : forall n s weakly D D' q, Permutation D D' -> infer n s weakly D q = infer n s weakly D' q.
Proof. exact order_invariance. Qed.
Print Assumptions C12_order_of_the_base.

(* renaming the atoms consistently by a permutation rho of the signature positions (this is also re-ordering the signature) *)
Theorem C12_renaming_of_atoms : forall n rho rho', (forall i, i < n -> rho i < n) -> (forall i, i < n -> rho' (rho i) = i) ->
  forall s weakly D q, forallb (cbounded n) D = true -> cbounded n q = true ->
  infer n s weakly (map (rencond rho) D) (rencond rho q) = infer n s weakly D q.
Proof. exact renaming_invariance. Qed.
Print Assumptions C12_renaming_of_atoms.

(* extending the signature by k atoms that neither the base nor the query mentions *)
Theorem C12_unused_atoms : forall n k s weakly D q, forallb (cbounded n) D = true -> cbounded n q = true ->
  infer (n + k) s weakly D q = infer n s weakly D q.
Proof. exact signature_extension. Qed.
Print Assumptions C12_unused_atoms.

(* the general principle behind the last two: a map phi from one world list onto another under which every conditional is
   verified / falsified at w exactly as its counterpart at phi w *)
Theorem C12_simulation : forall n1 n2 phi, (forall w, In w (worlds n1) -> In (phi w) (worlds n2)) ->
  (forall u, In u (worlds n2) -> exists w, In w (worlds n1) /\ phi w = u) ->
  forall s weakly D1 D2 q1 q2, Forall2 (qrel phi) D1 D2 -> qrel phi q1 q2 -> infer n1 s weakly D1 q1 = infer n2 s weakly D2 q2.
Proof. exact simulation_invariance. Qed.
Print Assumptions C12_simulation.

(* the same for the partitions themselves (layer by layer) *)
Theorem C12_partition_invariance : forall n weakly D D', Forall2 ceq D D' ->
  orel (consistency n weakly D) (consistency n weakly D').
Proof. exact consistency_cong. Qed.
Print Assumptions C12_partition_invariance.

(* on the definitions, for every world list *)
Theorem C12_definitions_invariant : forall Wl P P' q q', peq P P' -> ceq q q' ->
  z_spec Wl P q = z_spec Wl P' q' /\ w_spec Wl P q = w_spec Wl P' q' /\ lex_spec Wl P q = lex_spec Wl P' q'.
Proof. intros. repeat split; [apply z_spec_cong|apply w_spec_cong|apply lex_spec_cong]; auto. Qed.
Print Assumptions C12_definitions_invariant.

(* birds with keys 0,17,3,40 and De Morgan / double-negation rewrites: same answers *)
Definition birds' := [ mk 0 (FNot (FNot (v 2))) (FAnd (v 0) FTop); mk 17 (FNot (v 2)) (FOr (v 1) FBot);
                       mk 3 (v 0) (FNot (FOr (FNot (v 1)) (FNot (v 1)))); mk 40 (v 3) (v 0) ].
Example birds_represented : forallb (fun s => forallb (fun q => match infer 4 s false birds q, infer 4 s false birds' q with
    | Ans a, Ans b => Bool.eqb a b | _, _ => false end) [q_fp; q_nfp; q_wp]) [SysP; SysZ; SysW; SysLex] = true.
Proof. vm_compute. reflexivity. Qed.

(* SOURCE TIE.  The answers of the GENERATED code (src_p / src_w / src_lex, see C08) do not depend on the keys, on which of
   several equivalent formulas stand in base and query, or on the order in which the base lists its conditionals. *)
Theorem C12_source_presentation_p : forall n D D', D <> [] -> D' <> [] -> forall weakly q q' b b', Forall2 ceq D D' -> ceq q q' ->
  src_p n D weakly q b -> src_p n D' weakly q' b' -> b = b'.
Proof. exact src_presentation_p. Qed.
Theorem C12_source_presentation_w : forall n D D', NoDup (map kzc D) -> NoDup (map kzc D') -> D <> [] -> D' <> [] ->
  forall weakly q q' b b', Forall2 ceq D D' -> ceq q q' -> src_w n D weakly q b -> src_w n D' weakly q' b' -> b = b'.
Proof. exact src_presentation_w. Qed.
Theorem C12_source_presentation_lex : forall n D D', NoDup (map kzc D) -> NoDup (map kzc D') -> D <> [] -> D' <> [] ->
  forall weakly q q' b b', Forall2 ceq D D' -> ceq q q' -> src_lex n D weakly q b -> src_lex n D' weakly q' b' -> b = b'.
Proof. exact src_presentation_lex. Qed.
Theorem C12_source_order_w : forall n D D', NoDup (map kzc D) -> NoDup (map kzc D') -> D <> [] -> D' <> [] ->
  forall weakly q b b', Permutation D D' -> src_w n D weakly q b -> src_w n D' weakly q b' -> b = b'.
Proof. exact src_order_w. Qed.
Theorem C12_source_order_lex : forall n D D', NoDup (map kzc D) -> NoDup (map kzc D') -> D <> [] -> D' <> [] ->
  forall weakly q b b', Permutation D D' -> src_lex n D weakly q b -> src_lex n D' weakly q b' -> b = b'.
Proof. exact src_order_lex. Qed.
Print Assumptions C12_source_presentation_p. Print Assumptions C12_source_presentation_w. Print Assumptions C12_source_presentation_lex.
Print Assumptions C12_source_order_w. Print Assumptions C12_source_order_lex.
