(* C11 - answers do not depend on the solver back-end.
   The model has no back-end parameter: every back-end is an instance of the same MaxSAT-oracle contract, and
   (i) the enumeration of correction sets is exact for ANY oracle meeting that contract, (ii) the recursions over
   those sets equal the definitions.  So any two back-ends that meet the contract return the definition's answer.
   Whether z3 Optimize / RC2 with a given SAT engine meet the contract is checked per call (C15) and per answer here. *)
From InfOCF Require Import Core Tol Form Model Spec Mcs Cnf ThmCnf ThmTop.

Theorem C11_enumeration_independent_of_oracle : forall (asg:Type) (M:list asg) (V:asg->bv) (k:nat), (forall m, length (V m) = k) ->
  forall pick1 pick2,
  (forall bl m, pick1 bl = Some m -> In m M /\ notblocked bl (V m) = true) ->
  (forall bl, pick1 bl = None -> forall m, In m M -> notblocked bl (V m) = false) ->
  (forall bl m, pick2 bl = Some m -> In m M /\ notblocked bl (V m) = true) ->
  (forall bl, pick2 bl = None -> forall m, In m M -> notblocked bl (V m) = false) ->
  forall r1 r2, loop asg V pick1 (S (length M)) [] = Some r1 -> loop asg V pick2 (S (length M)) [] = Some r2 ->
  forall x, In x (minimal r1) <-> In x (minimal r2).
Proof. intros asg M V k Hk p1 p2 A1 B1 A2 B2 r1 r2 H1 H2 x.
  rewrite (loop_correct asg M V k Hk p1 A1 B1 r1 H1 x). symmetry. apply (loop_correct asg M V k Hk p2 A2 B2 r2 H2 x). Qed.
Print Assumptions C11_enumeration_independent_of_oracle.

(* the answers are functions of the base's meaning only (strict / extended) *)
Theorem C11_system_w_answer : forall n D q P, D <> [] -> part_strict n D = Some P -> infer n SysW false D q = Ans (w_spec (worlds n) P q).
Proof. exact infer_w_strict. Qed.
Theorem C11_lex_answer : forall n D q P, D <> [] -> part_strict n D = Some P -> infer n SysLex false D q = Ans (lex_spec (worlds n) P q).
Proof. exact infer_lex_strict. Qed.
Theorem C11_system_w_answer_ext : forall n D q P, D <> [] -> part_ext n D = Some P -> infer n SysW true D q = Ans (ext_spec (worlds n) P q w_spec).
Proof. exact infer_w_ext. Qed.
Theorem C11_lex_answer_ext : forall n D q P, D <> [] -> part_ext n D = Some P -> infer n SysLex true D q = Ans (ext_spec (worlds n) P q lex_spec).
Proof. exact infer_lex_ext. Qed.
Print Assumptions C11_system_w_answer. Print Assumptions C11_lex_answer. Print Assumptions C11_system_w_answer_ext. Print Assumptions C11_lex_answer_ext.
