(* C11 - answers do not depend on the solver back-end.
   The model has no back-end parameter: every back-end is an instance of the same MaxSAT-oracle contract, and
   (i) the enumeration of correction sets is exact for ANY oracle meeting that contract, (ii) the recursions over
   those sets equal the definitions.  So any two back-ends that meet the contract return the definition's answer.
   Whether z3 Optimize / RC2 with a given SAT engine meet the contract is checked per call (C15) and per answer here. *)
From InfOCF Require Import Core Tol Form Model Spec Mcs Cnf ThmCnf ThmTop.
From InfOCF Require Import PyLib TieSolver TieMax TieBackends.
From InfOCFGen Require Import SrcW SrcLex SrcWZ3 SrcLexZ3.
From Coq Require Import ZArith.

Theorem C11_enumeration_independent_of_oracle : forall (asg:Type) (M:list asg) (V:asg->bv) (k:nat), (forall m, length (V m) = k) ->
  forall pick1 pick2,
  (forall bl m, pick1 bl = Some m -> In m M /\ notblocked bl (V m) = true) ->
  (forall bl, pick1 bl = None -> forall m, In m M -> notblocked bl (V m) = false) ->
  (forall bl m, pick2 bl = Some m -> In m M /\ notblocked bl (V m) = true) ->
  (forall bl, pick2 bl = None -> forall m, In m M -> notblocked bl (V m) = false) ->
  forall r1 r2, loop asg V pick1 (S (length M)) [] = Some r1 -> loop asg V pick2 (S (length M)) [] = Some r2 ->
  forall x, In x (minimal r1) <-> In x (minimal r2).
Proof. intros asg M V k Hk p1 p2 A1 B1 A2 B2 r1 r2 H1 H2 x.
  rewrite (loop_correct asg M V k Hk p1 A1 B1 r1 H1 x). symmetry. apply (loop_correct asg M V k Hk p2 A2 B2 r2 H2 x). Qed.
Print Assumptions C11_enumeration_independent_of_oracle.

(* the answers are functions of the base's meaning only (strict / extended) *)
Theorem C11_system_w_answer : forall n D q P, D <> [] -> part_strict n D = Some P -> infer n SysW false D q = Ans (w_spec (worlds n) P q).
Proof. exact infer_w_strict. Qed.
Theorem C11_lex_answer : forall n D q P, D <> [] -> part_strict n D = Some P -> infer n SysLex false D q = Ans (lex_spec (worlds n) P q).
Proof. exact infer_lex_strict. Qed.
Theorem C11_system_w_answer_ext : forall n D q P, D <> [] -> part_ext n D = Some P -> infer n SysW true D q = Ans (ext_spec (worlds n) P q w_spec).
Proof. exact infer_w_ext. Qed.
Theorem C11_lex_answer_ext : forall n D q P, D <> [] -> part_ext n D = Some P -> infer n SysLex true D q = Ans (ext_spec (worlds n) P q lex_spec).
Proof. exact infer_lex_ext. Qed.
Print Assumptions C11_system_w_answer. Print Assumptions C11_lex_answer. Print Assumptions C11_system_w_answer_ext. Print Assumptions C11_lex_answer_ext.

(* SOURCE TIE.  Both back-ends of System W and of lexicographic inference are GENERATED from /repo's sources on every run
   (system_w.py / system_w_z3.py, lex_inf.py / lex_inf_z3.py).  For every base with distinct keys, every layering of it,
   every query and either mode the two generated back-ends return the same answer. *)
Theorem C11_source_backends_agree_system_w : forall n q D, NoDup (map kz D) ->
  forall (lay:cond -> nat) m, (forall c, In c D -> lay c < m) -> 0 < m ->
  forall nf fd : dict BinNums.Z scnf, dict_keys nf = map kz D ->
  (forall c, In c D -> exists cn, zdict_find nf (kz c) = Some cn /\ forall w, scnf_holds cn w = negb (fal c w)) ->
  (forall c, In c D -> exists cn, zdict_find fd (kz c) = Some cn /\ forall w, scnf_holds cn w = fal c w) ->
  forall bb, (forall c, In c D -> zdict_find (bb_conditionals bb) (kz c) = Some c) ->
  forall weakly vq0 fq0 u1 u2 u3,
  py_SystemW_inference n (S m) (Pk D lay m) nf fd vq0 fq0 bb u1 q weakly u2
  = py_SystemWZ3_inference n (S (length (Pc D lay m) + length (worlds n) + 1)) (Pc D lay m) q weakly u3.
Proof. exact src_backends_agree_w. Qed.
Print Assumptions C11_source_backends_agree_system_w.
Theorem C11_source_backends_agree_lex_inf : forall n q D, NoDup (map kz D) ->
  forall (lay:cond -> nat) m, (forall c, In c D -> lay c < m) -> 0 < m ->
  forall nf fd : dict BinNums.Z scnf, dict_keys nf = map kz D ->
  (forall c, In c D -> exists cn, zdict_find nf (kz c) = Some cn /\ forall w, scnf_holds cn w = negb (fal c w)) ->
  (forall c, In c D -> exists cn, zdict_find fd (kz c) = Some cn /\ forall w, scnf_holds cn w = fal c w) ->
  forall bb, (forall c, In c D -> zdict_find (bb_conditionals bb) (kz c) = Some c) ->
  forall weakly vq0 fq0 u1 u2 u3, exists b1 b2,
  py_LexInf_inference n (S m) (Pk D lay m) nf fd vq0 fq0 bb u1 q weakly u2 = Return b1 /\
  py_LexInfZ3_inference n (S (length (Pc D lay m) + length (worlds n) + 1)) (Pc D lay m) q weakly u3 = Return b2 /\
  trivial n q || b1 = trivial n q || b2.
Proof. exact src_backends_agree_lex. Qed.
Print Assumptions C11_source_backends_agree_lex_inf.
