(* C19 - c-revision: compilations agree; the constraint system characterises acceptance by the revised ranking. *)
From InfOCF Require Import Core Tol Form Model Crev ThmCrev ThmCrevInc PyLib PyInt TieCrev TieCrevCsp TieCrevFast TieCrevM.
From InfOCFGen Require Import SrcOcfCustom SrcCrev SrcCrevM.
From Coq Require Import ZArith.

(* the literal bit-mask path of the fast / incremental compilation classifies worlds like the general path *)
Theorem C19_mask_path_is_evaluation : forall c w, classify_fast c w = classify c w.
Proof. exact classify_fast_ok. Qed.
Print Assumptions C19_mask_path_is_evaluation.
(* reference and fast compilation are equal, triple by triple, for every prior and every list of conditionals with distinct indices *)
Theorem C19_fast_equals_reference : forall cs pr, NoDup (map ckey cs) -> compile_fast cs pr = compile_alt cs pr.
Proof. exact compile_fast_alt. Qed.
Print Assumptions C19_fast_equals_reference.
(* for EVERY parameter assignment (gamma+, gamma- : index -> nat): the compiled constraint of a conditional holds iff the revised
   ranking k*(w) = k(w) + sum gamma+ (verified) + sum gamma- (falsified) accepts it; an unfalsifiable conditional puts no constraint *)
Theorem C19_constraint_is_acceptance : forall cs pr gp gm c, NoDup (map ckey cs) -> In c cs ->
  constraint gp gm (ckey c) (triples_alt cs pr c true) (triples_alt cs pr c false) = accepts_star cs pr gp gm c.
Proof. exact constraint_iff_accepts_star. Qed.
Print Assumptions C19_constraint_is_acceptance.
(* hence parameters solve the CSP iff the revised ranking accepts every revision conditional: c-revision can return parameters
   exactly when such parameters exist, and whatever it returns (from a solution of the CSP) is accepted *)
Theorem C19_csp_solutions_are_exactly_the_accepting_parameters : forall cs pr gp gm, NoDup (map ckey cs) ->
  csp_holds gp gm (compile_alt cs pr) = forallb (accepts_star cs pr gp gm) cs.
Proof. exact csp_iff_all_accepted. Qed.
Print Assumptions C19_csp_solutions_are_exactly_the_accepting_parameters.
(* the incremental model (per-world accepted / rejected index sets, updated on add and remove): after ANY sequence of
   additions and removals the registered indices are distinct, its compilation is the fresh reference compilation of the
   conditionals it currently holds (index lists compared sorted), and the two constraint systems have the same solutions *)
Theorem C19_incremental_equals_fresh : forall pr ops, let m := fold_left (cm_step pr) ops (cm_empty pr) in
  norm_c (fst (cm_compile pr m)) = norm_c (fst (compile_alt (reg m) pr)) /\ norm_c (snd (cm_compile pr m)) = norm_c (snd (compile_alt (reg m) pr)).
Proof. exact incremental_equals_fresh. Qed.
Print Assumptions C19_incremental_equals_fresh.
Theorem C19_incremental_same_solutions : forall pr ops gp gm, let m := fold_left (cm_step pr) ops (cm_empty pr) in
  csp_holds gp gm (cm_compile pr m) = csp_holds gp gm (compile_alt (reg m) pr).
Proof. exact incremental_same_solutions. Qed.
Print Assumptions C19_incremental_same_solutions.
Theorem C19_incremental_indices_distinct : forall pr ops, NoDup (map ckey (reg (fold_left (cm_step pr) ops (cm_empty pr)))).
Proof. exact incremental_registry_distinct. Qed.
Print Assumptions C19_incremental_indices_distinct.

(* ---- tied to the source: compile_alt GENERATED from inference/c_revision.py ---- *)
(* for every signature size, every prior over worlds of the signature, any rank_world that looks the prior up, and every list of
   revision conditionals with distinct indices, the generated compile_alt returns the reference compilation of the model:
   per conditional, in list order, the triples of the worlds verifying / falsifying it, in the order of the prior *)
Theorem C19_source_compile_alt_is_reference : forall n rank_world pr,
  (forall p, In p pr -> In (fst p) (worlds n)) ->
  (forall p, In p pr -> rank_world (fst p) = Return (Z.of_nat (snd p))) ->
  forall cs, NoDup (map ckey cs) ->
  py_compile_alt n rank_world (zprior pr) cs = Return (zcomp (fst (compile_alt cs pr)), zcomp (snd (compile_alt cs pr))).
Proof. exact tie_compile_alt. Qed.
Print Assumptions C19_source_compile_alt_is_reference.
(* with the ranking function a CustomPreOCF: rank_world is the lookup generated from inference/preocf.py *)
Theorem C19_source_compile_alt_custom : forall n pr, NoDup (map fst pr) -> (forall p, In p pr -> In (fst p) (worlds n)) ->
  forall cs, NoDup (map ckey cs) ->
  py_compile_alt n (fun w => py_CustomPreOCF_rank_world n (zprior pr) w false) (zprior pr) cs
  = Return (zcomp (fst (compile_alt cs pr)), zcomp (snd (compile_alt cs pr))).
Proof. exact tie_compile_alt_custom. Qed.
Print Assumptions C19_source_compile_alt_custom.
(* hence the constraint system over what the generated code compiles has exactly the accepting parameters as solutions *)
Theorem C19_source_compilation_characterises_acceptance : forall n pr cs, NoDup (map fst pr) -> (forall p, In p pr -> In (fst p) (worlds n)) ->
  NoDup (map ckey cs) ->
  exists comp, py_compile_alt n (fun w => py_CustomPreOCF_rank_world n (zprior pr) w false) (zprior pr) cs = Return (zcomp (fst comp), zcomp (snd comp))
    /\ forall gp gm, csp_holds gp gm comp = forallb (accepts_star cs pr gp gm) cs.
Proof. exact src_compilation_acceptance. Qed.
Print Assumptions C19_source_compilation_characterises_acceptance.

(* translate_to_csp (with symbolize_minima_expression and encoding; freshVars / minima_encoding from c_inference.py) is GENERATED too.
   For every prior, every list of revision conditionals with distinct indices, both gamma modes and no fixed values: the constraints
   it builds from the reference compilation have a solution with parameters gamma+ / gamma- (in the auxiliary minimum variables)
   exactly when the revised ranking k*(w) = k(w) + sum gamma+ (verified) + sum gamma- (falsified) accepts every revision conditional;
   non-negativity of the parameters is part of the constraints. *)
Theorem C19_source_csp_solutions_are_the_accepting_parameters : forall n cs, NoDup (map ckey cs) -> forall pr gpz gp gm,
  (gpz = true -> forall k, gp k = 0) -> exists csp,
  py_translate_to_csp n (zcomp (fst (compile_alt cs pr)), zcomp (snd (compile_alt cs pr))) gpz tt tt = Return csp /\
  forall sg, gamma_assignment gp gm sg ->
    ((exists sg', (forall z, sg' (SGp z) = sg (SGp z) /\ sg' (SGm z) = sg (SGm z)) /\ csp_sat sg' csp = true)
     <-> forallb (accepts_star cs pr gp gm) cs = true).
Proof. exact tie_crev_chain. Qed.
Print Assumptions C19_source_csp_solutions_are_the_accepting_parameters.

(* compile_alt_fast - the compilation c_revision() actually runs - is GENERATED too, with _extract_cond_masks and _literal_info
   (pysmt node inspection; `try ... except KeyError`).  Over the signature a_0..a_(n-1), for every prior over worlds of the signature
   and every list of conditionals with distinct indices whose literal conditionals mention atoms of the signature, it returns the
   model's fast compilation, which C19_fast_equals_reference identifies with the reference compilation ... *)
Theorem C19_source_compile_alt_fast_is_model : forall n rank_world pr,
  (forall p, In p pr -> In (fst p) (worlds n)) -> (forall p, In p pr -> rank_world (fst p) = Return (Z.of_nat (snd p))) ->
  forall cs, NoDup (map ckey cs) -> (forall c a av b bv, In c cs -> mask_of c = Some (a, av, b, bv) -> a < n /\ b < n) ->
  py_compile_alt_fast n rank_world (zprior pr, sig_n n) cs = Return (zcomp (fst (compile_fast cs pr)), zcomp (snd (compile_fast cs pr))).
Proof. exact tie_compile_alt_fast. Qed.
Print Assumptions C19_source_compile_alt_fast_is_model.
(* ... and the chain c_revision() runs (compile_alt_fast, then translate_to_csp) yields constraints whose solutions are exactly the
   parameters whose revised ranking accepts every revision conditional *)
Theorem C19_source_revision_chain : forall n rank_world pr,
  (forall p, In p pr -> In (fst p) (worlds n)) -> (forall p, In p pr -> rank_world (fst p) = Return (Z.of_nat (snd p))) ->
  forall cs, NoDup (map ckey cs) -> (forall c a av b bv, In c cs -> mask_of c = Some (a, av, b, bv) -> a < n /\ b < n) ->
  forall gpz gp gm, (gpz = true -> forall k, gp k = 0) -> exists comp csp,
  py_compile_alt_fast n rank_world (zprior pr, sig_n n) cs = Return comp /\
  py_translate_to_csp n comp gpz tt tt = Return csp /\
  forall s, gamma_assignment gp gm s ->
    ((exists s', (forall z, s' (SGp z) = s (SGp z) /\ s' (SGm z) = s (SGm z)) /\ csp_sat s' csp = true)
     <-> forallb (accepts_star cs pr gp gm) cs = true).
Proof. exact src_fast_chain. Qed.
Print Assumptions C19_source_revision_chain.

(* The incremental model is GENERATED too (inference/c_revision_model.py: add_conditional, remove_conditional, to_compilation with
   _extract_cond_masks; the attributes they write are passed in and returned).  After ANY sequence of additions and removals (a
   refused addition raises before anything is written) the object's state - registry, masks, per-world accepted / rejected index
   sets - is exactly the representation of the model state Crev.cm_step reaches, the invariant cinv holds of it ... *)
Theorem C19_source_incremental_state : forall n pr, NoDup (map fst pr) -> (forall p, In p pr -> In (fst p) (worlds n)) ->
  forall rf ops, Forall (op_ok n) ops ->
  fold_left (py_cm_step n pr rf) ops (state_of pr (cm_empty pr)) = state_of pr (fold_left (cm_step pr) ops (cm_empty pr)) /\
  cinv pr (fold_left (cm_step pr) ops (cm_empty pr)).
Proof. exact src_incremental_run. Qed.
Print Assumptions C19_source_incremental_state.
(* ... and to_compilation on that state returns the model's compilation of it, which C19_incremental_equals_fresh identifies (index
   lists compared sorted) with the reference compilation of the conditionals currently registered *)
Theorem C19_source_incremental_compilation : forall n pr, NoDup (map fst pr) -> (forall p, In p pr -> In (fst p) (worlds n)) ->
  forall rf ops rank_world, Forall (op_ok n) ops -> (forall p, In p pr -> rank_world (fst p) = Return (Z.of_nat (snd p))) ->
  let m := fold_left (cm_step pr) ops (cm_empty pr) in
  let '(cd, _, wa, wr) := fold_left (py_cm_step n pr rf) ops (state_of pr (cm_empty pr)) in
  exists cache', py_CRevisionModel_to_compilation n rank_world cd (map fst pr) wa wr rf []
                 = Return (zcomp (fst (cm_compile pr m)), zcomp (snd (cm_compile pr m)), cache').
Proof. exact src_incremental_compile. Qed.
Print Assumptions C19_source_incremental_compilation.

Definition pr2 : prior := [([false;false],0);([false;true],1);([true;false],0);([true;true],1)].
Definition c1 := {| ckey := 4; ccons := FVar 1; cante := FVar 0 |}.
Definition c2 := {| ckey := 9; ccons := FNot (FVar 1); cante := FTop |}.
Example crev_example : compile_fast [c1;c2] pr2 = compile_alt [c1;c2] pr2
  /\ csp_holds (fun _ => 0) (fun k => if k =? 4 then 3 else 0) (compile_alt [c1;c2] pr2) = true
  /\ csp_holds (fun _ => 0) (fun k => if k =? 4 then 1 else 2) (compile_alt [c1] pr2) = false
  /\ csp_holds (fun _ => 0) (fun k => if k =? 4 then 2 else 0) (compile_alt [c1] pr2) = true.
Proof. vm_compute. repeat split. Qed.
(* the premises of the source theorems are satisfiable, and the generated code runs to the model's value on a concrete input *)
Example crev_source_example : NoDup (map fst pr2) /\ (forall p, In p pr2 -> In (fst p) (worlds 2)) /\ NoDup (map ckey [c1;c2])
  /\ py_compile_alt 2 (fun w => py_CustomPreOCF_rank_world 2 (zprior pr2) w false) (zprior pr2) [c1;c2]
     = Return (zcomp (fst (compile_alt [c1;c2] pr2)), zcomp (snd (compile_alt [c1;c2] pr2)))
  /\ fst (compile_alt [c1;c2] pr2) = [(4, [(1, [], [9])]); (9, [(0, [], []); (0, [], [4])])]
  /\ (exists csp, py_translate_to_csp 2 (zcomp (fst (compile_alt [c1;c2] pr2)), zcomp (snd (compile_alt [c1;c2] pr2))) false tt tt = Return csp /\ length csp = 16).
Proof. split; [repeat constructor; simpl; intuition discriminate|]. split; [intros p Hp; simpl in Hp; simpl; intuition (subst; simpl; auto)|].
  split; [repeat constructor; simpl; intuition discriminate|]. split; [vm_compute; reflexivity|]. split; [vm_compute; reflexivity|].
  eexists. split; vm_compute; reflexivity. Qed.
Example crev_fast_source_example :
  py_compile_alt_fast 2 (fun w => py_CustomPreOCF_rank_world 2 (zprior pr2) w false) (zprior pr2, sig_n 2) [c1;c2]
  = Return (zcomp (fst (compile_fast [c1;c2] pr2)), zcomp (snd (compile_fast [c1;c2] pr2)))
  /\ mask_of c1 = Some (0, true, 1, true) /\ mask_of c2 = None.
Proof. vm_compute. repeat split. Qed.
Example crev_incremental_source_example :
  let S := fold_left (py_cm_step 2 pr2 (zprior pr2, sig_n 2)) [CAdd c1; CAdd c2; CRemove 4; CAdd c1] (state_of pr2 (cm_empty pr2)) in
  S = state_of pr2 (fold_left (cm_step pr2) [CAdd c1; CAdd c2; CRemove 4; CAdd c1] (cm_empty pr2))
  /\ map fst (fst (fst (fst S))) = [9; 4]%Z.
Proof. vm_compute. split; reflexivity. Qed.
