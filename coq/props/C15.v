(* C15 - CNF encodings (verified checker) and exact enumeration of minimal correction subsets. *)
From InfOCF Require Import Core Form Mcs Clause Cnf ThmCnf ThmRS ThmBlock.
From InfOCF Require Import PyLib TieOpt TieOptV TieOptX.
From InfOCFGen Require Import SrcOpt.
From Coq Require Import ZArith.

(* (a) the checker evaluated on every CNF the implementation produces is sound and complete for faithfulness:
   for every complete assignment w of the atoms, the clause set is satisfiable together with w iff w satisfies
   the intended formula (A&B, A&!B, !A|B) *)
Theorem C15_checker_sound : forall nv amap f c, check_faithful nv amap f c = true -> faithful nv amap f c.
Proof. exact check_faithful_sound. Qed.
Print Assumptions C15_checker_sound.
Theorem C15_checker_complete : forall nv amap f c, faithful nv amap f c -> check_faithful nv amap f c = true.
Proof. exact check_faithful_complete. Qed.
Print Assumptions C15_checker_complete.

(* (b) level 1: for ANY oracle that returns a not-yet-blocked model of the hard clauses, or None when every model
   is blocked (optimality is not needed), the loop terminates within |models|+1 rounds and the inclusion-minimal
   members of its result are exactly the inclusion-minimal violated sets of the models *)
Theorem C15_loop_exact_for_any_oracle : forall (asg:Type) (M:list asg) (V:asg->bv) (k:nat), (forall m, length (V m) = k) ->
  forall pick, (forall bl m, pick bl = Some m -> In m M /\ notblocked bl (V m) = true) ->
  (forall bl, pick bl = None -> forall m, In m M -> notblocked bl (V m) = false) ->
  forall res, loop asg V pick (S (length M)) [] = Some res -> forall x, In x (minimal res) <-> In x (minimal (fam asg M V)).
Proof. exact loop_correct. Qed.
Print Assumptions C15_loop_exact_for_any_oracle.
Theorem C15_loop_total : forall (asg:Type) (M:list asg) (V:asg->bv) pick,
  (forall bl m, pick bl = Some m -> In m M /\ notblocked bl (V m) = true) -> loop asg V pick (S (length M)) [] <> None.
Proof. exact loop_total. Qed.
Print Assumptions C15_loop_total.

(* the clause-level reference family printed by the correspondence check is what the loop computes *)
Theorem C15_reference_family_is_loop_result : forall nv hard g res, mcs_loop nv hard g = Some res ->
  forall x, In x (minimal res) <-> In x (mcs_clause nv hard g).
Proof. exact mcs_loop_correct. Qed.
Print Assumptions C15_reference_family_is_loop_result.
Theorem C15_nothing_iff_hard_unsat : forall nv hard g, mcs_clause nv hard g = [] <-> models nv hard = [].
Proof. exact mcs_empty_iff. Qed.
Print Assumptions C15_nothing_iff_hard_unsat.

(* remove_supersets (stable sort by cardinality, keep what has no kept subset) = the inclusion-minimal members, each once;
   so the list the enumeration returns has exactly the members of the reference family *)
Theorem C15_remove_supersets_is_minimal : forall l x, In x (remove_supersets l) <-> In x (minimal l).
Proof. exact remove_supersets_minimal. Qed.
Print Assumptions C15_remove_supersets_is_minimal.
Theorem C15_each_set_once : forall l, NoDup (remove_supersets l).
Proof. exact remove_supersets_each_once. Qed.
Print Assumptions C15_each_set_once.
Theorem C15_enumeration_returns_reference_family : forall nv hard g res, mcs_loop nv hard g = Some res ->
  forall x, In x (remove_supersets res) <-> In x (mcs_clause nv hard g).
Proof. intros nv hard g res H x. rewrite remove_supersets_minimal. apply mcs_loop_correct; auto. Qed.
Print Assumptions C15_enumeration_returns_reference_family.

(* (b) level 2: get_violated_conditional (cost guard + early exit) returns exactly the violated keys whenever the
   reported cost is at least the number of violated scanned clauses *)
Theorem C15_get_violated_exact : forall m cost ig nf, Clause.nv m (Clause.flat ig nf) <= cost ->
  forall k, In k (Clause.get_violated m cost ig nf) <-> exists cl, In (k, cl) (Clause.flat ig nf) /\ Clause.csat m cl = false.
Proof. exact violated_exact. Qed.
Print Assumptions C15_get_violated_exact.

(* the blocking constraint of exclude_violated (clauses (c \/ ~h_i), one clause (h_1 \/ ... \/ h_k); helper variables fresh and
   pairwise distinct): an assignment of the original variables extends to a model of it iff it satisfies the clause set of at
   least one blocked conditional, i.e. iff its violation pattern is not a superset of the blocked set *)
Theorem C15_blocking_constraint : forall nv0 sel, (forall hc, In hc sel -> nv0 <= fst hc) -> NoDup (map fst sel) ->
  (forall hc, In hc sel -> vars_lt nv0 (snd hc)) -> forall a,
  (exists a', agree nv0 a a' /\ cnfsat a' (exclude sel) = true) <-> (exists hc, In hc sel /\ cnfsat a (snd hc) = true).
Proof. exact exclude_semantics. Qed.
Print Assumptions C15_blocking_constraint.
Theorem C15_blocked_is_superset : forall (g:groups) b a, length b = length g ->
  (exists kc, In kc (selected b g) /\ cnfsat a (snd kc) = true) <-> sub b (viol g a) = false.
Proof. exact blocked_iff_superset. Qed.
Print Assumptions C15_blocked_is_superset.


(* SOURCE TIE.  remove_supersets is GENERATED on every run from /repo's optimizer.py (coq/gen/SrcOpt.v; sorted(key=len) is a
   stable sort by length).  For every list of sets of keys it returns exactly the inclusion-minimal members: each result is
   a member, each member has a subset among the results, no result has a member strictly below it. *)
Theorem C15_source_remove_supersets_is_minimal : forall input : list (list BinNums.Z), (forall x, In x input -> NoDup x) -> exists res,
  py_remove_supersets 0 input = Return res /\
  (forall y, In y res -> In y input) /\
  (forall x, In x input -> exists y, In y res /\ zsubset y x = true) /\
  (forall y x, In y res -> In x input -> zsubset x y = true -> zsubset y x = true).
Proof. exact tie_remove_supersets. Qed.
Print Assumptions C15_source_remove_supersets_is_minimal.

(* get_violated_conditional is GENERATED too.  Whenever the cost handed over is at least the number of violated clauses among
   the scanned (non-ignored) ones - it is exactly that number where the soft clauses are the scanned ones - the early exit
   `counter == cost` never truncates: the returned set holds exactly the indices of the non-ignored conditionals having a
   clause without a literal of the model. *)
Theorem C15_source_get_violated_exact : forall n (nf:dict BinNums.Z (list (list BinNums.Z))) m cost ig,
  (Z.of_nat (nvz m (flatz ig nf)) <= cost)%Z -> exists res,
  py_get_violated_conditional n nf m cost ig = Return res /\
  forall k, In k res <-> exists cl, In (k, cl) (flatz ig nf) /\ csatz m cl = false.
Proof. exact tie_get_violated. Qed.
Print Assumptions C15_source_get_violated_exact.
(* exclude_violated is GENERATED too (the IDPool's id() is a parameter: whatever id it hands out for an index).  For blocked indices
   k_1..k_m (distinct) whose helper ids are h_i and whose clause sets are c_i, the generated function returns, literal by literal, the
   model's blocking constraint exclude [(h_1,c_1);...] - to which C15_blocking_constraint above applies when the h_i are fresh and distinct. *)
Theorem C15_source_exclude_violated_is_model : forall n pid (nf:dict BinNums.Z (list (list BinNums.Z))) (ksel:list (BinNums.Z * (nat * cnf))),
  (forall k h c, In (k, (h, c)) ksel -> pid k = Return (Z.of_nat h) /\ zdict_find nf k = Some (zcnf c)) ->
  NoDup (map fst ksel) ->
  py_exclude_violated n pid nf tt (map fst ksel) = Return (zcnf (exclude (map snd ksel))).
Proof. exact src_exclude_is_model. Qed.
Print Assumptions C15_source_exclude_violated_is_model.
Example exclude_source_example :
  py_exclude_violated 0 (fun k => Return (k + 100)%Z) [(5, [[1;2];[-3]]); (9, [[-1]])]%Z tt [9;5]%Z
  = Return [[-1;-109]; [1;2;-105]; [-3;-105]; [109;105]]%Z.
Proof. vm_compute. reflexivity. Qed.

Example get_violated_source_example :
  py_get_violated_conditional 0 [(5, [[1;2];[-3]]); (7, [[3]]); (9, [[-1]])]%Z [1;-2;3]%Z 2%Z [7]%Z = Return [5;9]%Z
  /\ nvz [1;-2;3]%Z (flatz [7]%Z [(5, [[1;2];[-3]]); (7, [[3]]); (9, [[-1]])]%Z) = 2.
Proof. vm_compute. split; reflexivity. Qed.

Example faithful_example : check_faithful 3 [0;1] (FAnd (FVar 0) (FVar 1)) [[(true,0)];[(true,1)]] = true
  /\ check_faithful 3 [0;1] (FOr (FVar 0) (FVar 1)) [[(true,0)]] = false
  /\ mcs_clause 3 [[(true,0);(true,1)]] [(5,[[(false,0)]]);(7,[[(false,1)];[(true,2)]])] = [[false;true];[true;false]].
Proof. vm_compute. repeat split. Qed.
