(* C17 - the c-representation ranking function is a (Pareto-)minimal model of the base. *)
From InfOCF Require Import Core Tol CInf Form Model CModel ThmC ThmPareto ThmPostInt ThmParetoEx.
From InfOCFProps Require Import Ex.
From InfOCF Require Import PyLib TieCrep TieLazy.
From InfOCFGen Require Import SrcCrep.
From Coq Require Import ZArith.

(* an impact vector solves the compiled CSP iff the ranking "sum of the impacts of the falsified conditionals" accepts every
   conditional of the base (C05); so whatever vector the optimiser returns from the CSP yields a c-representation *)
Theorem C17_csp_solution_is_c_representation : forall n D eta, length eta = length D -> csp_b n D eta = crep_b n D eta.
Proof. exact csp_iff_crep. Qed.
Print Assumptions C17_csp_solution_is_c_representation.
(* every query c-inference infers is accepted by every c-representation, in particular by the constructed one (definition of
   skeptical inference, C05_c_inference_is_skeptical); here: acceptance is evaluated by qacc_b on the object's vector *)
Theorem C17_inferred_queries_are_accepted : forall n D q eta, c_spec_prop n D q -> length eta = length D -> crep_b n D eta = true -> qacc_b n D eta q = true.
Proof. intros n D q eta H Hl Hc. exact (H eta Hl Hc). Qed.
Print Assumptions C17_inferred_queries_are_accepted.
(* the checker evaluated on the implementation's impact vector (and on every vector of an enumerated front) is sound:
   a vector that passes is a c-representation and no c-representation lies componentwise below it *)
Theorem C17_pareto_checker_sound : forall n D eta, pareto_check n D eta = true ->
  length eta = length D /\ crep_b n D eta = true /\ forall e', le_vec e' eta -> crep_b n D e' = true -> e' = eta.
Proof. exact pareto_check_sound. Qed.
Print Assumptions C17_pareto_checker_sound.

(* construction succeeds: every strongly consistent base has a c-representation; below every c-representation lies a
   Pareto-minimal one; hence a Pareto-minimal c-representation exists *)
Theorem C17_c_representation_exists : forall n D P, part_strict n D = Some P -> exists eta, length eta = length D /\ crep_b n D eta = true.
Proof. exact strict_has_crep. Qed.
Print Assumptions C17_c_representation_exists.
Theorem C17_minimal_below_every_c_representation : forall n D s eta, list_sum eta <= s -> length eta = length D -> crep_b n D eta = true ->
  exists e, le_vec e eta /\ pareto_check n D e = true.
Proof. exact pareto_below. Qed.
Print Assumptions C17_minimal_below_every_c_representation.
Theorem C17_pareto_minimal_exists : forall n D P, part_strict n D = Some P -> exists e, pareto_check n D e = true.
Proof. exact pareto_minimal_exists. Qed.
Print Assumptions C17_pareto_minimal_exists.


(* SOURCE TIE.  RandomMinCRepPreOCF.c_vec2ocf is GENERATED on every run from /repo's preocf.py (coq/gen/SrcCrep.v): for every
   signature size, base, impact vector of the base's length and world of the signature it returns kappa_eta(w), the sum of
   the impacts of the conditionals the world falsifies - the ranking the theorems above speak about. *)
Theorem C17_source_rank_is_sum_of_impacts : forall n w, In w (worlds n) -> forall D (d:dict BinNums.Z cond) eta,
  dict_values d = D -> length eta = length D ->
  py_RandomMinCRepPreOCF_c_vec2ocf n d (map Z.of_nat eta) w = Return (Z.of_nat (ckappa D eta w)).
Proof. exact tie_c_vec2ocf. Qed.
Print Assumptions C17_source_rank_is_sum_of_impacts.

(* RandomMinCRepPreOCF.rank_world is GENERATED too (the attribute self.ranks it writes is passed in and returned): whatever part of the
   table is filled in and whether or not recomputation is forced, the answer is kappa_eta of the world, the table keeps its worlds, stays
   correct, holds the rank of the asked world afterwards and is unchanged elsewhere *)
Theorem C17_source_rank_world_lazy : forall n D (d:dict BinNums.Z cond) eta (rk:wdict (option BinNums.Z)) w force, dict_values d = D -> length eta = length D ->
  table_ok (fun w => In w (worlds n)) (fun w => Z.of_nat (ckappa D eta w)) rk -> In w (map fst rk) ->
  exists rk', py_RandomMinCRepPreOCF_rank_world n d (map Z.of_nat eta) w force rk = Return (Z.of_nat (ckappa D eta w), rk') /\
    map fst rk' = map fst rk /\ table_ok (fun w => In w (worlds n)) (fun w => Z.of_nat (ckappa D eta w)) rk' /\
    wdict_find rk' w = Some (Some (Z.of_nat (ckappa D eta w))) /\ (forall w2, w2 <> w -> wdict_find rk' w2 = wdict_find rk w2).
Proof. exact tie_crep_rank_world. Qed.
Print Assumptions C17_source_rank_world_lazy.

Example birds_minimal : pareto_check 4 birds [1;2;2;1] = true /\ pareto_check 4 birds [1;2;2;2] = false
  /\ front_missing 4 birds 3 [[1;2;2;1]] = [].
Proof. vm_compute. repeat split. Qed.
