(* C08 - inclusions p <= Z <= W <= lex (both modes).  (p <= c <= W: see the c-inference development.) *)
From InfOCF Require Import Core Tol Form Model Spec Exec CModel ThmIncl ThmPExt ThmCW.
From InfOCFProps Require Import Ex.
From InfOCF Require Import PyLib TieCons TieAnsP TieAnsZ TieAnsW TieAnsLex TieRel08.
From Coq Require Import ZArith.

(* on the definitions, for every world list (any signature size, feasible worlds included) and partition *)
Theorem C08_z_sub_w_definition : forall Wl q P, z_spec Wl P q = true -> w_spec Wl P q = true.
Proof. exact z_sub_w_spec. Qed.
Print Assumptions C08_z_sub_w_definition.
Theorem C08_w_sub_lex_definition : forall Wl q P, w_spec Wl P q = true -> lex_spec Wl P q = true.
Proof. exact w_sub_lex_spec. Qed.
Print Assumptions C08_w_sub_lex_definition.
Theorem C08_p_sub_z_definition : forall Wl q k P, is_tp world Wl P -> p_def k Wl P q = true -> z_spec Wl P q = true.
Proof. exact p_sub_z_spec. Qed.
Print Assumptions C08_p_sub_z_definition.

(* on the model's answers, strict mode *)
Theorem C08_chain_strict : forall n D P q, D <> [] -> part_strict n D = Some P ->
  (infer n SysP false D q = Ans true -> infer n SysZ false D q = Ans true) /\
  (infer n SysZ false D q = Ans true -> infer n SysW false D q = Ans true) /\
  (infer n SysW false D q = Ans true -> infer n SysLex false D q = Ans true).
Proof. exact strict_chain. Qed.
Print Assumptions C08_chain_strict.

(* extended mode (p-entailment through its definition over feasible worlds and finite layers) *)
Theorem C08_chain_extended : forall n D P q, D <> [] -> part_ext n D = Some P ->
  (ext_spec (worlds n) P q (p_def (fresh D)) = true -> infer n SysZ true D q = Ans true) /\
  (infer n SysZ true D q = Ans true -> infer n SysW true D q = Ans true) /\
  (infer n SysW true D q = Ans true -> infer n SysLex true D q = Ans true).
Proof. exact ext_chain. Qed.
Print Assumptions C08_chain_extended.

Theorem C08_p_sub_z_extended : forall n D P q, D <> [] -> NoDup (map ckey D) -> part_ext n D = Some P ->
  infer n SysP true D q = Ans true -> infer n SysZ true D q = Ans true.
Proof. exact ext_chain_full. Qed.
Print Assumptions C08_p_sub_z_extended.

(* the inclusions are strict on the birds base: (w|p) separates Z from W *)
(* c <= W at formula level (strict mode, distinct indices): from a falsifying world of the query that no verifying world
   dominates, impacts are built that form a c-representation of D not accepting the query *)
Theorem C08_c_sub_w_definition : forall n D P q, part_strict n D = Some P -> NoDup (map ckey D) -> c_spec_prop n D q -> w_spec (worlds n) P q = true.
Proof. exact c_sub_w. Qed.
Print Assumptions C08_c_sub_w_definition.
Theorem C08_c_sub_w : forall n D P q, D <> [] -> part_strict n D = Some P -> NoDup (map ckey D) -> c_infer_prop n D q ->
  Model.infer n SysW false D q = Ans true.
Proof. exact c_sub_w_answers. Qed.
Print Assumptions C08_c_sub_w.

Example birds_separates : infer 4 SysZ false birds q_wp = Ans false /\ infer 4 SysW false birds q_wp = Ans true
  /\ infer 4 SysP false birds q_nfp = Ans true /\ infer 4 SysLex false birds q_nfp = Ans true.
Proof. vm_compute. repeat split. Qed.

(* SOURCE TIE.  src_p / src_z / src_w / src_lex b: "the functions GENERATED from /repo's sources on this run - the consistency
   test on the base, then the quick checks of general_inference around the operator body on the partition that test
   returned - answer b" (TieAns*.v; each such answer is the model's `infer`, and on every base the model accepts there is
   one).  The inclusion chain holds of those answers, in both modes. *)
Theorem C08_source_chain_strict : forall n D, NoDup (map kzc D) -> D <> [] -> forall q bp bz bw bl,
  src_p n D false q bp -> src_z n D false q bz -> src_w n D false q bw -> src_lex n D false q bl ->
  (bp = true -> bz = true) /\ (bz = true -> bw = true) /\ (bw = true -> bl = true).
Proof. exact src_chain_strict. Qed.
Print Assumptions C08_source_chain_strict.
Theorem C08_source_chain_extended : forall n D, NoDup (map kzc D) -> D <> [] -> forall q bp bz bw bl,
  src_p n D true q bp -> src_z n D true q bz -> src_w n D true q bw -> src_lex n D true q bl ->
  (bp = true -> bz = true) /\ (bz = true -> bw = true) /\ (bw = true -> bl = true).
Proof. exact src_chain_extended. Qed.
Print Assumptions C08_source_chain_extended.
Theorem C08_source_answers_exist : forall n D, NoDup (map kzc D) -> D <> [] -> forall weakly q P, consistency n weakly D = Some P ->
  (exists b, src_p n D weakly q b) /\ (exists b, src_z n D weakly q b) /\ (exists b, src_w n D weakly q b) /\ (exists b, src_lex n D weakly q b).
Proof. intros n D Hnd HD weakly q P HP. repeat split;
  [exact (src_p_exists n D HD weakly q P HP)|exact (src_z_exists n D HD weakly q P HP)|exact (src_w_exists n D Hnd HD weakly q P HP)|exact (src_lex_exists n D Hnd HD weakly q P HP)]. Qed.
Print Assumptions C08_source_answers_exist.
