(* C02 - System Z = rank comparison under the Z-ranking.  Property theorems only. *)
From InfOCF Require Import Core Tol Form Model Spec ThmOps ThmTop.
From InfOCFProps Require Import Ex.
From InfOCF Require Import PyLib TieSolver TieCons TieInf TieZ.
From InfOCFGen Require Import SrcCond SrcCons SrcInf SrcZ.
From Coq Require Import ZArith.

Theorem C02_system_z_is_rank_comparison : forall n D q P, D <> [] -> part_strict n D = Some P ->
  infer n SysZ false D q = Ans (z_spec (worlds n) P q).
Proof. exact infer_z_strict. Qed.
Print Assumptions C02_system_z_is_rank_comparison.

(* the recursion's rank (highest falsified layer, counted from the top of the descending list) is kz *)
Theorem C02_kz_is_layer_rank : forall P w, Kz.kz world P w = SysZ.zrank world (layers P) w.
Proof. exact kz_zrank. Qed.
Print Assumptions C02_kz_is_layer_rank.

(* SOURCE TIE.  py_consistency, py_general_inference and py_SystemZ_inference are GENERATED on every run from
   /repo's consistency_sat.py, inference.py and system_z.py (coq/gen/Src*.v).  Run as the manager runs them - the
   consistency test, then the quick checks around the operator body on the partition it returned - they answer
   with the rank comparison, for every signature size, dictionary of conditionals and query. *)
Theorem C02_source_code_is_rank_comparison : forall n (d:dict Z cond) q u Pc st, dict_values d <> [] ->
  py_consistency n (S (length d)) (Build_pybase d) u false = Return (PVal Pc, st) ->
  py_general_inference n (py_SystemZ_inference n (S (length Pc)) Pc u) false q tt tt
  = Return (z_spec (worlds n) (acP Pc) q).
Proof. exact src_z_strict_spec. Qed.
Print Assumptions C02_source_code_is_rank_comparison.
Theorem C02_source_code_is_model : forall n q Pc weakly u1 u2, Pc <> [] ->
  py_SystemZ_inference n (S (length Pc)) Pc u1 q weakly u2
  = Return (if weakly then z_ext n (acP Pc) q else z_strict n (acP Pc) q).
Proof. exact tie_z_inference. Qed.
Print Assumptions C02_source_code_is_model.

Example birds_z : map (infer 4 SysZ false birds) [q_fp; q_nfp; q_wp] = [Ans false; Ans true; Ans false]
  /\ (exists P, part_strict 4 birds = Some P /\ length P = 2).
Proof. split; [vm_compute; reflexivity|]. eexists. split; [vm_compute; reflexivity|reflexivity]. Qed.
