(* C02 - System Z = rank comparison under the Z-ranking.  Property theorems only. *)
From InfOCF Require Import Core Tol Form Model Spec ThmOps ThmTop.
From InfOCFProps Require Import Ex.

Theorem C02_system_z_is_rank_comparison : forall n D q P, D <> [] -> part_strict n D = Some P ->
  infer n SysZ false D q = Ans (z_spec (worlds n) P q).
Proof. exact infer_z_strict. Qed.
Print Assumptions C02_system_z_is_rank_comparison.

(* the recursion's rank (highest falsified layer, counted from the top of the descending list) is kz *)
Theorem C02_kz_is_layer_rank : forall P w, Kz.kz world P w = SysZ.zrank world (layers P) w.
Proof. exact kz_zrank. Qed.
Print Assumptions C02_kz_is_layer_rank.

Example birds_z : map (infer 4 SysZ false birds) [q_fp; q_nfp; q_wp] = [Ans false; Ans true; Ans false]
  /\ (exists P, part_strict 4 birds = Some P /\ length P = 2).
Proof. split; [vm_compute; reflexivity|]. eexists. split; [vm_compute; reflexivity|reflexivity]. Qed.
