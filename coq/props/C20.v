(* C20 - persistence (the part that is logic; byte formats, fresh interpreters and file-system faults are exercised by the
   correspondence check only). *)
From InfOCF Require Import Core Tol Form Model Ocf ThmZocf Persist ThmPersist PyLib TieImp.
From InfOCFGen Require Import SrcImp.
From Coq Require Import ZArith.

Theorem C20_failed_or_successful_save_leaves_object_unchanged : forall o f, fst (save_ocf o f) = o.
Proof. exact save_preserves_state. Qed.
Print Assumptions C20_failed_or_successful_save_leaves_object_unchanged.
Theorem C20_loaded_state_is_saved_state : forall o w, snd (save_ocf o NoFault) = Some w -> pcache (load_ocf w) = pcache o /\ pmeta (load_ocf w) = pmeta o.
Proof. exact save_load_state. Qed.
Print Assumptions C20_loaded_state_is_saved_state.
Theorem C20_load_format_is_save_format : forall s f, load_fmt (save_metadata_fmt s f) s = save_metadata_fmt s f /\ load_fmt (export_impacts_fmt s f) s = export_impacts_fmt s f.
Proof. exact dispatch_roundtrip. Qed.
Print Assumptions C20_load_format_is_save_format.
(* any two objects whose caches hold only correct ranks - e.g. the original and its reloaded copy, in any partial-computation
   state - answer every sequence of lazy / forced / bulk rank computations, formula ranks and acceptance tests identically *)
Theorem C20_continued_computation_coincides : forall n P c1 c2 ops, cache_ok n P c1 -> cache_ok n P c2 ->
  map snd (zrun n P c1 ops) = map snd (zrun n P c2 ops).
Proof. exact reload_behaviour. Qed.
Print Assumptions C20_continued_computation_coincides.

(* SOURCE TIE.  save_impacts / load_impacts are GENERATED on every run from /repo's preocf.py (coq/gen/SrcImp.v; the save_meta calls, which
   only touch the metadata dictionary, are left out).  load_impacts accepts exactly the vectors of the right length without a
   negative entry and then holds the list handed over; what save_impacts returns from one object loads into another with the same
   conditionals as the same vector. *)
Theorem C20_source_load_impacts_exact : forall n (d:dict BinNums.Z cond) imp old,
  py_load_impacts n d imp old = if impacts_ok d imp then Return (tt, imp) else Raise.
Proof. exact tie_load_impacts. Qed.
Print Assumptions C20_source_load_impacts_exact.
Theorem C20_source_impacts_round_trip : forall n (d:dict BinNums.Z cond) imp old, impacts_ok d imp = true ->
  exists saved, py_save_impacts n imp = Return saved /\ py_load_impacts n d saved old = Return (tt, imp).
Proof. exact impacts_round_trip. Qed.
Print Assumptions C20_source_impacts_round_trip.

Example save_fault_example : fst (save_ocf {| handles := Some 7; pcache := [Some 1; None]; pmeta := 3 |} DumpFails) = {| handles := Some 7; pcache := [Some 1; None]; pmeta := 3 |}
  /\ snd (save_ocf {| handles := Some 7; pcache := [Some 1; None]; pmeta := 3 |} NoFault) = Some {| handles := None; pcache := [Some 1; None]; pmeta := 3 |}.
Proof. split; reflexivity. Qed.
