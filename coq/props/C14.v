(* C14 - time budgets never produce an unflagged wrong answer. *)
From InfOCF Require Import Core SysW Lex Budget ThmBudget.
From Coq Require Import ZArith.

(* for every expiry schedule (every point at which the deadline can be observed as expired or the solver can answer
   'unknown') the recursion over correction sets either aborts with TimeoutError or returns the unbudgeted answer *)
Theorem C14_system_w_abort_or_same_answer : forall world W AB AnB ls H, safe (w_rec_m world W AB AnB ls H) (w_rec world W AB AnB ls H).
Proof. exact w_rec_safe. Qed.
Print Assumptions C14_system_w_abort_or_same_answer.
Theorem C14_lex_abort_or_same_answer : forall world W AB AnB ls Hv Hf, safe (lex_rec_m world W AB AnB ls Hv Hf) (lex_rec world W AB AnB ls Hv Hf).
Proof. exact lex_rec_safe. Qed.
Print Assumptions C14_lex_abort_or_same_answer.
(* hence every row is flagged (answer False) or carries the unbudgeted answer *)
Theorem C14_row_flagged_or_correct : forall (m:M bool) v, safe m v -> forall s, row_of (m s 0) = (false, true) \/ row_of (m s 0) = (v, false).
Proof. exact row_safe. Qed.
Print Assumptions C14_row_flagged_or_correct.
Theorem C14_flag_only_on_real_expiry : forall (m:M bool) v, safe m v -> forall s, (forall k, s k = false) -> row_of (m s 0) = (v, false).
Proof. exact no_expiry_no_change. Qed.
Print Assumptions C14_flag_only_on_real_expiry.
Theorem C14_budget_arithmetic : forall total pre inf pretime, (0 < total -> 0 <= pre -> 0 <= inf -> 0 <= pretime ->
  0 <= pre_budget total pre <= total /\ inf_budget total inf pretime <= total)%Z.
Proof. exact budget_arith. Qed.
Print Assumptions C14_budget_arithmetic.
Theorem C14_nonpositive_budget_safe : forall now timeout, (timeout <= 0)%Z ->
  deadline_of now timeout = None \/ expired (deadline_of now timeout) now = true.
Proof. exact nonpositive_budget_is_safe. Qed.
Print Assumptions C14_nonpositive_budget_safe.

(* expiry at the third observation aborts; a schedule that never expires returns the value after 4 observations *)
Example abort_example : mcs_m [[true;false];[false;true]] (fun t => Nat.eqb t 2) 0 = None
  /\ mcs_m [[true;false];[false;true]] (fun _ => false) 0 = Some ([[true;false];[false;true]], 3).
Proof. vm_compute. split; reflexivity. Qed.
