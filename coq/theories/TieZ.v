From InfOCF Require Import Core Tol SysZ Form Model Spec Exec ThmOps ThmTop PyLib TieLib TieSolver TieCons TieInf.
From InfOCFGen Require Import SrcCond SrcCons SrcInf SrcZ.
From Coq Require Import ZArith.
(* TIE: the functions GENERATED from inference/system_z.py (gen/SrcZ.v) equal the hand-written model of
   System Z (Model.z_strict / z_ext), for every signature size, partition, query and mode. *)

Section TieZ.
Variable n : nat.
Notation W := (worlds n).
Variable q : cond.
Notation acP := (acP).
Notation cnt0_nofals := (cnt0_nofals).
Notation layer_asserted := (layer_asserted n).
Notation inf_asserted := (inf_asserted n).
Notation inf_asserted_push := (inf_asserted_push n).

Lemma rec_tie : forall k fuel Pc s acc, k < length Pc -> k < fuel ->
  (forall w, s_holds s w = acc w) ->
  py_SystemZ_rec_inference n fuel Pc s (Z.of_nat k) q
  = Return (z_rec world W (ver q) (fal q) (rev (map layer_of (firstn (S k) (acP Pc)))) acc).
Proof.
  induction k as [|k IH]; intros fuel Pc s acc Hk Hf Hs; (destruct fuel as [|fuel]; [lia|]);
  cbn [py_SystemZ_rec_inference].
  - rewrite (py_index_nat Pc 0 []) by exact Hk. cbn [cbind].
    set (part := nth 0 Pc []).
    assert (Ef: firstn 1 (acP Pc) = [map ac part]).
    { unfold part, acP. destruct Pc; [simpl in Hk; lia|reflexivity]. }
    rewrite Ef. cbn [map rev app z_rec].
    set (s' := fold_left _ part s).
    assert (Hs': forall w, s_holds s' w = nofal world acc (layer_of (map ac part)) w).
    { intros w. unfold s', nofal. rewrite layer_asserted, Hs, cnt0_nofals. apply andb_comm. }
    rewrite (s_solve_ext n _ (fun w => nofal world acc (layer_of (map ac part)) w && ver q w)).
    2:{ intros w. rewrite s_holds_add, s_holds_push, Hs'; apply andb_comm. }
    rewrite !s_pop_add_push.
    rewrite (s_solve_ext n _ (fun w => nofal world acc (layer_of (map ac part)) w && fal q w))
      by (intros w; rewrite s_holds_add, s_holds_push, Hs'; apply andb_comm).
    destruct (existsb (fun w => nofal world acc (layer_of (map ac part)) w && ver q w) W); cbn [negb cbind]; [|reflexivity].
    destruct (existsb (fun w => nofal world acc (layer_of (map ac part)) w && fal q w) W); cbn [cbind]; reflexivity.
  - rewrite (py_index_nat Pc (S k) []) by exact Hk. cbn [cbind].
    set (part := nth (S k) Pc []).
    assert (Ef: firstn (S (S k)) (acP Pc) = firstn (S k) (acP Pc) ++ [map ac part]).
    { unfold part, acP. rewrite (firstn_S_nth (S k) _ []) by (rewrite map_length; exact Hk).
      f_equal. f_equal. rewrite <- (map_nth (map ac)). reflexivity. }
    rewrite Ef. rewrite map_app, rev_app_distr. cbn [map rev app].
    set (rest := rev (map layer_of (firstn (S k) (acP Pc)))).
    assert (Hrest: rest <> []).
    { unfold rest, acP. destruct Pc; [simpl in Hk; lia|]. cbn [map firstn rev]. intros E. apply app_eq_nil in E as [_ E]. discriminate. }
    cbn [z_rec].
    set (s' := fold_left _ part s).
    assert (Hs': forall w, s_holds s' w = nofal world acc (layer_of (map ac part)) w).
    { intros w. unfold s', nofal. rewrite layer_asserted, Hs, cnt0_nofals. apply andb_comm. }
    rewrite (s_solve_ext n _ (fun w => nofal world acc (layer_of (map ac part)) w && ver q w))
      by (intros w; rewrite s_holds_add, s_holds_push, Hs'; apply andb_comm).
    rewrite !s_pop_add_push.
    rewrite (s_solve_ext n _ (fun w => nofal world acc (layer_of (map ac part)) w && fal q w))
      by (intros w; rewrite s_holds_add, s_holds_push, Hs'; apply andb_comm).
    destruct (existsb (fun w => nofal world acc (layer_of (map ac part)) w && ver q w) W); cbn [negb cbind]; [|reflexivity].
    destruct (existsb (fun w => nofal world acc (layer_of (map ac part)) w && fal q w) W); cbn [cbind]; [|reflexivity].
    replace (Z.of_nat (S k) =? 0)%Z with false by (symmetry; apply Z.eqb_neq; lia). cbn [cbind].
    replace (Z.of_nat (S k) - 1)%Z with (Z.of_nat k) by lia.
    rewrite (IH fuel Pc s' (nofal world acc (layer_of (map ac part)))) by (try lia; exact Hs').
    cbn [call cbind]. fold rest. clearbody rest. destruct rest; [congruence|reflexivity].
Qed.

(* SystemZ._inference: for every non-empty partition, query and mode the generated function returns the model's answer *)
Theorem tie_z_inference Pc weakly u1 u2 : Pc <> [] ->
  py_SystemZ_inference n (S (length Pc)) Pc u1 q weakly u2
  = Return (if weakly then z_ext n (acP Pc) q else z_strict n (acP Pc) q).
Proof. intros Hne. unfold py_SystemZ_inference.
  assert (Hlen: 1 <= length Pc) by (destruct Pc; [congruence|simpl; lia]).
  replace (negb (is_nil Pc)) with true by (destruct Pc; [congruence|reflexivity]).
  cbn [py_assert cbind]. destruct weakly; cbn [negb].
  - (* extended mode *)
    rewrite !(py_index_last Pc []) by exact Hne. cbn [cbind]. cbv zeta.
    unfold z_ext. rewrite inf_layer_acP.
    rewrite (s_solve_ext n _ (fun w => feas (map ac (last Pc [])) w && fal q w)).
    2:{ intros w. rewrite inf_asserted, s_holds_add. simpl. rewrite andb_true_r. reflexivity. }
    destruct (existsb (fun w => feas (map ac (last Pc [])) w && fal q w) W); cbn [negb cbind]; [|reflexivity].
    destruct (py_len Pc <? 2)%Z eqn:E2; cbn [cbind].
    + apply Z.ltb_lt in E2. unfold py_len in E2.
      assert (El: length Pc = 1) by lia.
      destruct Pc as [|L [|L2 Pc']]; simpl in El; try lia. reflexivity.
    + apply Z.ltb_ge in E2. unfold py_len in *.
      replace (Z.of_nat (length Pc) - 2)%Z with (Z.of_nat (length Pc - 2)) by lia.
      rewrite (rec_tie (length Pc - 2) (S (length Pc)) Pc _ (feas (map ac (last Pc [])))); try lia.
      2:{ intros w. rewrite inf_asserted_push. simpl. apply andb_true_r. }
      cbn [call cbind]. f_equal. f_equal. unfold layers, fin_layers. f_equal. f_equal.
      rewrite removelast_firstn_len. unfold acP at 2. rewrite map_length. f_equal. lia.
  - (* strict mode *)
    unfold py_len. replace (Z.of_nat (length Pc) - 1)%Z with (Z.of_nat (length Pc - 1)) by lia.
    rewrite (rec_tie (length Pc - 1) (S (length Pc)) Pc new_solver (top world)); try lia; [|reflexivity].
    cbn [call cbind]. unfold z_strict, layers. f_equal. f_equal. f_equal. f_equal.
    replace (S (length Pc - 1)) with (length (acP Pc)) by (unfold acP; rewrite map_length; lia).
    apply firstn_all.
Qed.
End TieZ.

Section TieZTop.
Variable n : nat.
Notation W := (worlds n).

(* System Z, both modes: consistency() then general_inference around SystemZ._inference *)
Theorem e2e_z weakly (d:dict Z cond) q u Pc st : dict_values d <> [] ->
  py_consistency n (S (length d)) (Build_pybase d) u weakly = Return (PVal Pc, st) ->
  exists b, py_general_inference n (py_SystemZ_inference n (S (length Pc)) Pc u) weakly q tt tt = Return b
         /\ infer n SysZ weakly (dict_values d) q = Ans b.
Proof. intros HD Hrun. pose proof (src_partition n _ _ _ _ _ Hrun) as Hc.
  assert (HPc: Pc <> []).
  { pose proof (partition_nonempty n _ _ _ HD Hc) as Hne. intros ->. apply Hne. reflexivity. }
  eexists. split.
  - apply tie_general_inference. apply (tie_z_inference n q Pc weakly u tt HPc).
  - unfold infer. destruct (dict_values d) as [|c0 D0] eqn:ED; [congruence|]. rewrite <- ED in *. rewrite Hc.
    destruct weakly; reflexivity. Qed.

Lemma ans_inj a b : Ans a = Ans b -> a = b.  Proof. congruence. Qed.

Corollary src_z_strict_spec (d:dict Z cond) q u Pc st : dict_values d <> [] ->
  py_consistency n (S (length d)) (Build_pybase d) u false = Return (PVal Pc, st) ->
  py_general_inference n (py_SystemZ_inference n (S (length Pc)) Pc u) false q tt tt = Return (z_spec W (acP Pc) q).
Proof. intros HD Hrun. destruct (e2e_z false d q u Pc st HD Hrun) as [b [Hb Hi]]. rewrite Hb. f_equal.
  apply ans_inj. rewrite <- Hi. apply infer_z_strict; [exact HD|]. exact (src_partition n _ _ _ _ _ Hrun). Qed.
Corollary src_z_ext_spec (d:dict Z cond) q u Pc st : dict_values d <> [] ->
  py_consistency n (S (length d)) (Build_pybase d) u true = Return (PVal Pc, st) ->
  py_general_inference n (py_SystemZ_inference n (S (length Pc)) Pc u) true q tt tt = Return (ext_spec W (acP Pc) q z_spec).
Proof. intros HD Hrun. destruct (e2e_z true d q u Pc st HD Hrun) as [b [Hb Hi]]. rewrite Hb. f_equal.
  apply ans_inj. rewrite <- Hi. apply infer_z_ext; [exact HD|]. exact (src_partition n _ _ _ _ _ Hrun). Qed.

End TieZTop.
