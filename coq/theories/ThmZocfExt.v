From InfOCF Require Import Core Tol SysZ Kz PEnt Form Model Spec Ocf ThmOps ThmZocf ThmPost ThmIncl.
(* C16, extended mode: for a query whose antecedent has a feasible model, acceptance by the ranking object (ranks of ALL
   worlds, the infeasible ones at the top rank) is the extended System Z answer (vacuity clauses, then the strict
   definition over the feasible worlds and the finite layers). *)
Section ZE.
Variable n : nat.
Notation W := (worlds n).
Variable fin0 : list (list (acond world)).
Variable Cinf0 : list (acond world).
Notation Pf := (fin0 ++ [Cinf0]).
Notation r := (zrank_of Pf).
Notation T := (S (length fin0)).
Notation feas := (nofals world Cinf0).

Lemma r_feas w : feas w = true -> r w = kz world fin0 w /\ r w < T.
Proof. intros H. rewrite zrank_of_ext, H. split; auto. pose proof (finite_ranks_below_top fin0 w). lia. Qed.
Lemma r_infeas w : feas w = false -> r w = T.
Proof. intros H. rewrite zrank_of_ext, H. reflexivity. Qed.
Lemma Cinf_eq : Cinf Pf = Cinf0. Proof. unfold Cinf. apply last_last. Qed.
Lemma fin_eq : fin Pf = fin0. Proof. unfold fin. apply removelast_last. Qed.
Lemma in_Wf w : In w (Wf W Pf) <-> In w W /\ feas w = true.
Proof. unfold Wf. rewrite Cinf_eq. apply filter_In. Qed.

Definition obj_accept (q:cond) : bool := lt_opt (rk world W r (ver q)) (rk world W r (fal q)).

Theorem object_accept_ext q : existsb (ante q) (Wf W Pf) = true -> obj_accept q = ext_spec W Pf q z_spec.
Proof. intros HA. unfold ext_spec. rewrite HA. cbn [negb orb].
  apply existsb_exists in HA as [wa [Hwa Ha]]. apply in_Wf in Hwa as [Hwa Hfa].
  destruct (existsb (fal q) (Wf W Pf)) eqn:Ef; cbn [negb].
  - destruct (existsb (ver q) (Wf W Pf)) eqn:Ev; cbn [negb].
    + (* both sides have feasible worlds: the comparison is the one over feasible worlds *)
      unfold z_spec, rank_of. rewrite fin_eq.
      assert (HA': existsb (ante q) (Wf W Pf) = true) by (apply existsb_exists; exists wa; split; [apply in_Wf; auto|exact Ha]).
      rewrite HA'. cbn [negb orb]. unfold obj_accept, rk.
      apply existsb_exists in Ef as [wf [Hwf Hf]]. apply in_Wf in Hwf as [Hwf Hff].
      apply Bool.eq_iff_eq_true. rewrite !lt_opt_minl_iff. split.
      * intros [a [Hin Hall]]. apply in_map_iff in Hin as [w [<- Hw]]. apply sel_in in Hw as [Hw [_ Hv]].
        assert (Hfw: feas w = true).
        { destruct (feas w) eqn:E; auto. exfalso. rewrite (r_infeas w E) in Hall.
          assert (T < r wf) by (apply Hall; apply in_map; apply sel_in; unfold top; auto). pose proof (proj2 (r_feas wf Hff)). lia. }
        exists (kappa_z fin0 w). split; [apply in_map; apply sel_in; unfold top; split; [apply in_Wf; auto|auto]|].
        intros b Hb. apply in_map_iff in Hb as [w2 [<- Hw2]]. apply sel_in in Hw2 as [Hw2 [_ Hf2]]. apply in_Wf in Hw2 as [Hw2 Hf2'].
        unfold kappa_z. rewrite <- (proj1 (r_feas w Hfw)), <- (proj1 (r_feas w2 Hf2')). apply Hall. apply in_map. apply sel_in. unfold top. auto.
      * intros [a [Hin Hall]]. apply in_map_iff in Hin as [w [<- Hw]]. apply sel_in in Hw as [Hw [_ Hv]]. apply in_Wf in Hw as [Hw Hfw].
        exists (r w). split; [apply in_map; apply sel_in; unfold top; auto|].
        intros b Hb. apply in_map_iff in Hb as [w2 [<- Hw2]]. apply sel_in in Hw2 as [Hw2 [_ Hf2]].
        destruct (feas w2) eqn:E2.
        -- rewrite (proj1 (r_feas w Hfw)), (proj1 (r_feas w2 E2)). apply Hall. apply in_map. apply sel_in. unfold top. split; [apply in_Wf; auto|auto].
        -- rewrite (r_infeas w2 E2). apply (proj2 (r_feas w Hfw)).
    + (* no feasible verifying world: not accepted *)
      unfold obj_accept, rk. apply Bool.not_true_is_false. intros H. apply lt_opt_minl_iff in H as [a [Hin Hall]].
      apply in_map_iff in Hin as [w [<- Hw]]. apply sel_in in Hw as [Hw [_ Hv]].
      apply existsb_exists in Ef as [wf [Hwf Hf]]. apply in_Wf in Hwf as [Hwf Hff].
      assert (E: feas w = false).
      { destruct (feas w) eqn:E; auto. exfalso. assert (existsb (ver q) (Wf W Pf) = true) by (apply existsb_exists; exists w; split; [apply in_Wf; auto|auto]). congruence. }
      assert (r w < r wf) by (apply Hall; apply in_map; apply sel_in; unfold top; auto).
      rewrite (r_infeas w E) in H. pose proof (proj2 (r_feas wf Hff)). lia.
  - (* no feasible falsifying world: accepted (a feasible A-world verifies, everything falsifying sits at the top rank) *)
    unfold obj_accept, rk. apply lt_opt_minl_iff.
    assert (Hva: ver q wa = true).
    { rewrite ante_split in Ha. apply orb_true_iff in Ha as [Ha|Ha]; auto. exfalso.
      assert (existsb (fal q) (Wf W Pf) = true) by (apply existsb_exists; exists wa; split; [apply in_Wf; auto|auto]). congruence. }
    exists (r wa). split; [apply in_map; apply sel_in; unfold top; auto|].
    intros b Hb. apply in_map_iff in Hb as [w2 [<- Hw2]]. apply sel_in in Hw2 as [Hw2 [_ Hf2]].
    assert (E: feas w2 = false).
    { destruct (feas w2) eqn:E; auto. exfalso. assert (existsb (fal q) (Wf W Pf) = true) by (apply existsb_exists; exists w2; split; [apply in_Wf; auto|auto]). congruence. }
    rewrite (r_infeas w2 E). apply (proj2 (r_feas wa Hfa)). Qed.

(* the object's own computation (least cached rank over the indices of the models) is obj_accept *)
Theorem object_accept_ext_indices q : existsb (ante q) (Wf W Pf) = true ->
  (match minl (map (zr n Pf) (sat_indices n (FAnd (cante q) (ccons q)))),
         minl (map (zr n Pf) (sat_indices n (FAnd (cante q) (FNot (ccons q))))) with
   | None, _ => false | Some _, None => true | Some a, Some b => a <? b end) = ext_spec W Pf q z_spec.
Proof. intros HA. rewrite <- (object_accept_ext q HA). rewrite !object_frank. unfold obj_accept.
  assert (E1: rk world W r (fun w => eval w (FAnd (cante q) (ccons q))) = rk world W r (ver q)) by reflexivity.
  assert (E2: rk world W r (fun w => eval w (FAnd (cante q) (FNot (ccons q)))) = rk world W r (fal q)) by reflexivity.
  rewrite E1, E2. destruct (rk world W r (ver q)), (rk world W r (fal q)); reflexivity. Qed.

(* the object accepts every conditional of the base outside the infinity layer *)
Theorem object_accepts_finite_layers D c : part_ext n D = Some Pf -> In (ac c) (concat fin0) -> obj_accept c = true.
Proof. intros HP Hc. pose proof (ext_fin_tp n D Pf HP) as Htp. rewrite fin_eq in Htp.
  destruct (kz_model (Wf W Pf) fin0 Htp (ac c) Hc) as [w [Hw [Hv _]]]. cbn [cver ac] in Hv.
  assert (HA: existsb (ante c) (Wf W Pf) = true).
  { apply existsb_exists. exists w. split; auto. rewrite ante_split, Hv. reflexivity. }
  rewrite (object_accept_ext c HA). unfold ext_spec. rewrite HA. cbn [negb orb].
  destruct (existsb (fal c) (Wf W Pf)); cbn [negb]; auto.
  assert (HV: existsb (ver c) (Wf W Pf) = true) by (apply existsb_exists; exists w; split; auto). rewrite HV. cbn [negb].
  rewrite fin_eq. apply direct_z; auto. Qed.
End ZE.
