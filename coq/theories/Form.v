From InfOCF Require Import Core Tol.
(* Propositional formulas, worlds and keyed conditionals: the concrete instance of the abstract
   development (world type := list bool, world list := worlds n or any sub-list of it). *)
Inductive form := FTop | FBot | FVar (i:nat) | FNot (f:form) | FAnd (f g:form) | FOr (f g:form).
Definition world := list bool.
Fixpoint eval (w:world) (f:form) : bool :=
  match f with FTop => true | FBot => false | FVar i => nth i w false
  | FNot g => negb (eval w g) | FAnd g h => eval w g && eval w h | FOr g h => eval w g || eval w h end.
Fixpoint worlds (n:nat) : list world :=
  match n with 0 => [[]] | S k => map (cons false) (worlds k) ++ map (cons true) (worlds k) end.
Lemma worlds_inhabited n : worlds n <> [].
Proof. induction n as [|n IH]; simpl; [discriminate|]. destruct (worlds n); [congruence|discriminate]. Qed.
Lemma worlds_length n w : In w (worlds n) -> length w = n.
Proof. revert w; induction n as [|n IH]; simpl; intros w H.
  - destruct H as [<-|[]]; reflexivity.
  - apply in_app_or in H as [H|H]; apply in_map_iff in H as [u [<- Hu]]; simpl; f_equal; auto. Qed.
Lemma worlds_complete n w : length w = n -> In w (worlds n).
Proof. revert w; induction n as [|n IH]; intros [|b w] H; simpl in *; try discriminate; auto.
  apply in_or_app. destruct b; [right|left]; apply in_map; apply IH; lia. Qed.

Record cond := { ckey : nat; ccons : form; cante : form }.
Definition ver (c:cond) : pred world := fun w => eval w (cante c) && eval w (ccons c).
Definition fal (c:cond) : pred world := fun w => eval w (cante c) && negb (eval w (ccons c)).
Definition ante (c:cond) : pred world := fun w => eval w (cante c).
Definition ac (c:cond) : acond world := Build_acond world (ckey c) (ver c) (fal c).
Lemma ver_fal_excl c w : ver c w = true -> fal c w = false.
Proof. unfold ver, fal. intros H. apply andb_true_iff in H as [H1 H2]. rewrite H1, H2. reflexivity. Qed.
Lemma ante_split c w : ante c w = ver c w || fal c w.
Proof. unfold ante, ver, fal. destruct (eval w (cante c)), (eval w (ccons c)); reflexivity. Qed.
(* the negated query (not B|A) that p-entailment adds to the base *)
Definition negq (k:nat) (q:cond) : cond := {| ckey := k; ccons := FNot (ccons q); cante := cante q |}.
Lemma negq_ver k q w : ver (negq k q) w = fal q w. Proof. reflexivity. Qed.
Lemma negq_fal k q w : fal (negq k q) w = ver q w.
Proof. unfold fal, ver, negq; simpl. rewrite negb_involutive. reflexivity. Qed.

Definition layer_of (L:list (acond world)) : layer world := fun w => map (fun c => cfal world c w) L.
Lemma layer_of_cnt0 L w : cnt (layer_of L w) = 0 <-> nofals world L w = true.
Proof. unfold layer_of. induction L as [|c L IH]; simpl; [tauto|].
  destruct (cfal world c w); simpl; [split; [lia|discriminate]|exact IH]. Qed.
