From InfOCF Require Import Core Tol Form.
From Coq Require Import ZArith.
(* Semantics of the Python / pysmt primitives that the source translator (harness/translate.py) maps the
   code of /repo onto.  The files coq/gen/Src*.v are GENERATED from /repo's working tree on every run and
   use nothing but these definitions; the files coq/theories/Tie*.v prove the generated functions equal to the
   hand-written model (Model.v ...).  No proofs about the model in this file. *)

(* ---- control: outcome of a statement block ------------------------------------------------------------
   R = type returned by the enclosing function, L = state carried by the enclosing loop (payload of
   break / continue), S = state handed to the rest of the block. *)
Inductive ctl (R L S:Type) : Type :=
  | Next (s:S) | Break (l:L) | Continue (l:L) | Return (r:R) | Raise | NoFuel.
Arguments Next {R L S} s.  Arguments Break {R L S} l.  Arguments Continue {R L S} l.
Arguments Return {R L S} r.  Arguments Raise {R L S}.  Arguments NoFuel {R L S}.

Definition cbind {R L S S'} (x:ctl R L S) (f:S -> ctl R L S') : ctl R L S' :=
  match x with Next s => f s | Break l => Break l | Continue l => Continue l
             | Return r => Return r | Raise => Raise | NoFuel => NoFuel end.

(* for x in l: body   (the body's own loop state is the carried tuple) *)
Fixpoint for_each {A R L S} (l:list A) (body:A -> S -> ctl R S S) (s:S) : ctl R L S :=
  match l with [] => Next s
  | a::l' => match body a s with
             | Next s' | Continue s' => for_each l' body s'
             | Break s' => Next s' | Return r => Return r | Raise => Raise | NoFuel => NoFuel end end.
(* while True: body *)
Fixpoint while_true {R L S} (fuel:nat) (body:S -> ctl R S S) (s:S) : ctl R L S :=
  match fuel with 0 => NoFuel
  | S f => match body s with
           | Next s' | Continue s' => while_true f body s'
           | Break s' => Next s' | Return r => Return r | Raise => Raise | NoFuel => NoFuel end end.
(* result of a called function, seen from the caller *)
Definition call {R R' L S} (x:ctl R unit unit) (k:R -> ctl R' L S) : ctl R' L S :=
  match x with Return r => k r | NoFuel => NoFuel | _ => Raise end.
(* [E for x in l] with a body that may raise *)
Fixpoint map_m {A B R L} (f:A -> ctl R L B) (l:list A) : ctl R L (list B) :=
  match l with [] => Next []
  | a::l' => cbind (f a) (fun b => cbind (map_m f l') (fun r => Next (b::r))) end.
(* [x for x in l if c(x)] with a condition that may raise *)
Fixpoint filter_m {A R L} (f:A -> ctl R L bool) (l:list A) : ctl R L (list A) :=
  match l with [] => Next []
  | a::l' => cbind (f a) (fun b => cbind (filter_m f l') (fun r => Next (if b then a :: r else r))) end.
Definition py_assert {R L} (b:bool) : ctl R L unit := if b then Next tt else Raise.

(* ---- values ------------------------------------------------------------------------------------------- *)
(* "False or a value": consistency() returns False or the partition *)
Inductive pyres (A:Type) : Type := PFalse | PVal (a:A).
Arguments PFalse {A}.  Arguments PVal {A} a.
Definition is_pfalse {A} (p:pyres A) : bool := match p with PFalse => true | PVal _ => false end.
Definition py_unres {A R L} (p:pyres A) : ctl R L A := match p with PVal a => Next a | PFalse => Raise end.
Definition is_nil {A} (l:list A) : bool := match l with [] => true | _ => false end.
(* truth value of "False or a list" *)
Definition res_truthy {A} (p:pyres (list A)) : bool := match p with PFalse => false | PVal l => negb (is_nil l) end.

Definition py_len {A} (l:list A) : Z := Z.of_nat (length l).
(* l[i], negative indices count from the end, IndexError = Raise *)
Definition py_index {A R L} (l:list A) (i:Z) : ctl R L A :=
  let j := if (i <? 0)%Z then (py_len l + i)%Z else i in
  if (j <? 0)%Z then Raise else match nth_error l (Z.to_nat j) with Some a => Next a | None => Raise end.

(* dict with insertion order *)
Definition dict (K V:Type) := list (K * V).
Definition dict_values {K V} (d:dict K V) : list V := map snd d.
Definition dict_keys {K V} (d:dict K V) : list K := map fst d.
Fixpoint zdict_find {V} (d:dict Z V) (k:Z) : option V :=
  match d with [] => None | (k',v)::r => if (k' =? k)%Z then Some v else zdict_find r k end.
Definition zdict_get {V R L} (d:dict Z V) (k:Z) : ctl R L V :=
  match zdict_find d k with Some v => Next v | None => Raise end.
Fixpoint zdict_set {V} (d:dict Z V) (k:Z) (v:V) : dict Z V :=
  match d with [] => [(k,v)]
  | (k',v')::r => if (k' =? k)%Z then (k,v)::r else (k',v') :: zdict_set r k v end.
Definition zmax_default (l:list Z) (d:Z) : Z :=
  match l with [] => d | x::r => fold_left Z.max r x end.

(* ---- pysmt ------------------------------------------------------------------------------------------ *)
Definition FImplies (a b:form) : form := FOr (FNot a) b.
(* incremental solver: a stack of assertion frames, newest first *)
Definition solver := list (list form).
Definition new_solver : solver := [[]].
Definition s_push (s:solver) : solver := [] :: s.
Definition s_pop (s:solver) : solver := tl s.
Definition s_add (s:solver) (f:form) : solver :=
  match s with fr::r => (f::fr)::r | [] => [[f]] end.
Definition s_holds (s:solver) (w:world) : bool := forallb (eval w) (concat s).
Definition s_solve (n:nat) (s:solver) : bool := existsb (s_holds s) (worlds n).
Definition f_sat (n:nat) (f:form) : bool := existsb (fun w => eval w f) (worlds n).
Definition f_unsat (n:nat) (f:form) : bool := negb (f_sat n f).

(* Conditional(consequence, antecedence, text) without a key of its own (index None) *)
Definition mk_cond (cons ante:form) : cond := {| ckey := 0; ccons := cons; cante := ante |}.
(* BeliefBase: only the conditionals dictionary matters to the translated code *)
Record pybase := { bb_conditionals : dict Z cond }.

(* ---- sets of integers (frozenset / set): duplicate-free lists; iteration order = list order ---- *)
Definition zmem (x:Z) (l:list Z) : bool := existsb (Z.eqb x) l.
Fixpoint zset_of (l:list Z) : list Z :=
  match l with [] => [] | x::r => let s := zset_of r in if zmem x s then s else x :: s end.
Definition zset_add (s:list Z) (x:Z) : list Z := if zmem x s then s else s ++ [x].
Definition zsubset (a b:list Z) : bool := forallb (fun x => zmem x b) a.
Definition zset_eqb (a b:list Z) : bool := zsubset a b && zsubset b a.
Definition zset_inter (a b:list Z) : list Z := filter (fun x => zmem x b) a.
Definition zset_diff (a b:list Z) : list Z := filter (fun x => negb (zmem x b)) a.
Definition zset_union (a b:list Z) : list Z := a ++ zset_diff b a.
(* sets of sets *)
Definition zsetmem (x:list Z) (l:list (list Z)) : bool := existsb (zset_eqb x) l.
Fixpoint zsetset_of (l:list (list Z)) : list (list Z) :=
  match l with [] => [] | x::r => let s := zsetset_of r in if zsetmem x s then s else x :: s end.
Definition zsetset_inter (a b:list (list Z)) : list (list Z) := filter (fun x => zsetmem x b) a.
Fixpoint zlist_eqb (a b:list Z) : bool :=
  match a, b with [], [] => true | x::a', y::b' => (x =? y)%Z && zlist_eqb a' b' | _, _ => false end.

(* ---- CNFs and partial MaxSAT, modelled by their contract (property C15) ---------------------------------
   A CNF produced by TseitinTransformation is modelled by its projection on the atoms of the signature: a list of
   clauses, each a predicate on worlds, whose conjunction is the meaning of the formula it was made from.
   minimal_correction_subsets is modelled by what C15 proves of the enumeration loop for any conforming MaxSAT
   oracle: the inclusion-minimal sets of conditionals (those of nf_cnf_dict not listed in `ignore`) violated by
   an assignment that satisfies the hard clauses. *)
Definition sclause := world -> bool.
Definition scnf := list sclause.
Definition scnf_holds (c:scnf) (w:world) : bool := forallb (fun cl => cl w) c.
Record wcnf := { w_hard : list sclause; w_soft : list sclause }.
Definition wcnf_new : wcnf := {| w_hard := []; w_soft := [] |}.
Definition w_append (x:wcnf) (c:sclause) : wcnf := {| w_hard := w_hard x ++ [c]; w_soft := w_soft x |}.
Definition w_append_soft (x:wcnf) (c:sclause) : wcnf := {| w_hard := w_hard x; w_soft := w_soft x ++ [c] |}.
Definition cnf_of_query (q:cond) : scnf * scnf := ([ver q], [fal q]).
Definition violated_bv (nf:dict Z scnf) (keys:list Z) (w:world) : bv :=
  map (fun k => match zdict_find nf k with Some c => negb (scnf_holds c w) | None => false end) keys.
Fixpoint keys_of_bv (keys:list Z) (x:bv) : list Z :=
  match keys, x with k::ks, b::bs => if b then k :: keys_of_bv ks bs else keys_of_bv ks bs | _, _ => [] end.
Definition mcs (n:nat) (nf:dict Z scnf) (x:wcnf) (ignore:list Z) : list (list Z) :=
  let keys := filter (fun k => negb (zmem k ignore)) (dict_keys nf) in
  map (keys_of_bv keys)
      (minimal (dedup (map (violated_bv nf keys) (filter (scnf_holds (w_hard x)) (worlds n))))).

(* min(...) of a non-empty sequence of integers; ValueError on an empty one *)
Definition py_min {R L} (l:list Z) : ctl R L Z :=
  match l with [] => Raise | x::r => Next (fold_left Z.min r x) end.

(* PreOCF.symbolize_bitvec(world): one literal per atom of the signature *)
Fixpoint world_lits_from (i:nat) (w:world) : list form :=
  match w with [] => [] | b::r => (if b then FVar i else FNot (FVar i)) :: world_lits_from (S i) r end.
Definition world_lits (w:world) : list form := world_lits_from 0 w.

(* ---- sets of conditional objects (the z3 back-ends): lists compared through the conditionals' keys ---- *)
Definition ckz (c:cond) : Z := Z.of_nat (ckey c).
Definition cmem (c:cond) (s:list cond) : bool := zmem (ckz c) (map ckz s).
Definition csubset (a b:list cond) : bool := zsubset (map ckz a) (map ckz b).
Definition cset_eqb (a b:list cond) : bool := csubset a b && csubset b a.
Fixpoint cset_of (l:list cond) : list cond :=
  match l with [] => [] | x::r => let s := cset_of r in if cmem x s then s else x :: s end.
Definition csetmem (x:list cond) (l:list (list cond)) : bool := existsb (cset_eqb x) l.
Definition csetset_add (l:list (list cond)) (x:list cond) : list (list cond) := if csetmem x l then l else l ++ [x].
Definition csetset_inter (a b:list (list cond)) : list (list cond) := filter (fun x => csetmem x b) a.

(* ---- z3.Optimize: a stack of frames of hard and soft assertions; check() decides the hard ones over the world list,
   model() is SOME model of the hard assertions violating as few soft ones as possible (here: the first such world) ---- *)
Definition zopt := list (list form * list form).
Definition zopt_new : zopt := [([], [])].
Definition o_push (o:zopt) : zopt := ([], []) :: o.
Definition o_pop (o:zopt) : zopt := tl o.
Definition o_add (o:zopt) (f:form) : zopt := match o with (h, s)::r => (f::h, s)::r | [] => [([f], [])] end.
Definition o_add_soft (o:zopt) (f:form) : zopt := match o with (h, s)::r => (h, f::s)::r | [] => [([], [f])] end.
Definition o_hard (o:zopt) : list form := flat_map fst o.
Definition o_soft (o:zopt) : list form := flat_map snd o.
Definition o_holds (o:zopt) (w:world) : bool := forallb (eval w) (o_hard o).
Definition o_check (n:nat) (o:zopt) : bool := existsb (o_holds o) (worlds n).
Definition o_cost (o:zopt) (w:world) : nat := length (filter (fun f => negb (eval w f)) (o_soft o)).
Fixpoint argmin_by {A} (cost:A -> nat) (l:list A) (d:A) : A :=
  match l with [] => d | x::r => match r with [] => x | _ => let y := argmin_by cost r d in if cost y <? cost x then y else x end end.
Definition o_model (n:nat) (o:zopt) : world := argmin_by (o_cost o) (filter (o_holds o) (worlds n)) [].
Definition f_or_list (l:list form) : form := fold_right FOr FBot l.

(* ---- ranking tables: dictionaries keyed by worlds (bit strings), values an integer or None ---- *)
Definition wdict (V:Type) := list (world * V).
Definition wdict_keys {V} (d:wdict V) : list world := map fst d.
Fixpoint wdict_find {V} (d:wdict V) (w:world) : option V :=
  match d with [] => None | (w', v)::r => if beq w' w then Some v else wdict_find r w end.
Definition wdict_get {V R L} (d:wdict V) (w:world) : ctl R L V :=
  match wdict_find d w with Some v => Next v | None => Raise end.
(* d.get(w): None when the key is missing *)
Definition wdict_getopt (d:wdict (option Z)) (w:world) : option Z :=
  match wdict_find d w with Some v => v | None => None end.
(* d[w] = v: replaces the value of an existing key in place, appends a new key *)
Fixpoint wdict_set {V} (d:wdict V) (w:world) (v:V) : wdict V :=
  match d with [] => [(w, v)] | (w', v')::r => if beq w' w then (w, v) :: r else (w', v') :: wdict_set r w v end.
(* sets of worlds: duplicate-free lists in insertion order *)
Definition wset_add (s:list world) (w:world) : list world := if existsb (beq w) s then s else s ++ [w].
(* k in d *)
Definition zdict_mem {V} (d:dict Z V) (k:Z) : bool := match zdict_find d k with Some _ => true | None => false end.
(* sorted(l) on integers: insertion sort *)
Fixpoint zinsert (x:Z) (l:list Z) : list Z :=
  match l with [] => [x] | y::r => if (x <=? y)%Z then x :: y :: r else y :: zinsert x r end.
Definition zsort (l:list Z) : list Z := fold_right zinsert [] l.
Definition is_none {A} (o:option A) : bool := match o with None => true | Some _ => false end.
(* a < b where either side may be None (TypeError) *)
Definition py_lt_opt {R L} (a b:option Z) : ctl R L bool :=
  match a, b with Some x, Some y => Next (x <? y)%Z | _, _ => Raise end.
(* min(a, b) where either side may be None (TypeError) *)
Definition py_min2_opt {R L} (a b:option Z) : ctl R L Z :=
  match a, b with Some x, Some y => Next (Z.min x y) | _, _ => Raise end.
Definition py_unopt {R L} (a:option Z) : ctl R L Z := match a with Some x => Next x | None => Raise end.

(* range(n) *)
Definition zrange (n:Z) : list Z := map Z.of_nat (seq 0 (Z.to_nat n)).
(* enumerate(l) *)
Fixpoint py_enumerate_from {A} (i:Z) (l:list A) : list (Z * A) :=
  match l with [] => [] | a::r => (i, a) :: py_enumerate_from (i + 1)%Z r end.
Definition py_enumerate {A} (l:list A) : list (Z * A) := py_enumerate_from 0%Z l.

(* sorted(l, key=len): stable insertion sort by length *)
Fixpoint insert_by_len {A} (x:list A) (l:list (list A)) : list (list A) :=
  match l with [] => [x] | y::r => if (length y <=? length x) then y :: insert_by_len x r else x :: y :: r end.
Definition sort_by_len {A} (l:list (list A)) : list (list A) := fold_right insert_by_len [] l.
