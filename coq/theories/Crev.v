From InfOCF Require Import Core Tol Form Model.
(* M for inference/c_revision.py and c_revision_model.py: the three compilations (reference, fast with the literal
   mask path, incremental), the constraint system (candidate expressions, minima, acceptance constraint), and
   S: the revised ranking kappa*(w) = kappa(w) + sum gamma+ (verified) + sum gamma- (falsified).  Executable only. *)
Definition triple := (nat * list nat * list nat)%type.        (* rank, accepted other keys, rejected other keys *)
Definition prior := list (world * nat).                         (* total ranking, dictionary order *)
Definition classify (c:cond) (w:world) : option bool :=
  if ver c w then Some true else if fal c w then Some false else None.

(* ---- compile_alt: reference ---- *)
Definition others (cs:list cond) (self:nat) (w:world) (want:bool) : list nat :=
  map ckey (filter (fun c => negb (ckey c =? self) &&
                    match classify c w with Some b => Bool.eqb b want | None => false end) cs).
Definition triples_alt (cs:list cond) (pr:prior) (c:cond) (want:bool) : list triple :=
  flat_map (fun p => match classify c (fst p) with
                     | Some b => if Bool.eqb b want then [(snd p, others cs (ckey c) (fst p) true, others cs (ckey c) (fst p) false)] else []
                     | None => [] end) pr.
Definition compile_alt (cs:list cond) (pr:prior) : list (nat * list triple) * list (nat * list triple) :=
  (map (fun c => (ckey c, triples_alt cs pr c true)) cs, map (fun c => (ckey c, triples_alt cs pr c false)) cs).

(* ---- compile_alt_fast: one pass over the worlds; literal conditionals are classified by bit masks ---- *)
Definition lit_info (f:form) : option (nat * bool) :=
  match f with FVar i => Some (i, true) | FNot (FVar i) => Some (i, false) | _ => None end.
Definition mask_of (c:cond) : option (nat * bool * nat * bool) :=
  match lit_info (cante c), lit_info (ccons c) with Some (a, av), Some (b, bv) => Some (a, av, b, bv) | _, _ => None end.
Definition classify_fast (c:cond) (w:world) : option bool :=
  match mask_of c with
  | Some (a, av, b, bv) => if Bool.eqb (nth a w false) av then Some (Bool.eqb (nth b w false) bv) else None
  | None => classify c w end.
Definition keys_where (cl:cond -> world -> option bool) (cs:list cond) (w:world) (want:bool) : list nat :=
  map ckey (filter (fun c => match cl c w with Some b => Bool.eqb b want | None => false end) cs).
Definition remove_key (k:nat) (l:list nat) : list nat := filter (fun i => negb (i =? k)) l.
Definition triples_fast (cs:list cond) (pr:prior) (c:cond) (want:bool) : list triple :=
  flat_map (fun p => let acc := keys_where classify_fast cs (fst p) true in let rej := keys_where classify_fast cs (fst p) false in
                     if existsb (Nat.eqb (ckey c)) (if want then acc else rej)
                     then [(snd p, remove_key (ckey c) acc, remove_key (ckey c) rej)] else []) pr.
Definition compile_fast (cs:list cond) (pr:prior) : list (nat * list triple) * list (nat * list triple) :=
  (map (fun c => (ckey c, triples_fast cs pr c true)) cs, map (fun c => (ckey c, triples_fast cs pr c false)) cs).

(* ---- CRevisionModel: registry + per-world accepted / rejected key sets; sorted index lists on output ---- *)
Record cmodel := { reg : list cond; wacc : list (list nat); wrej : list (list nat) }.   (* caches parallel to the prior *)
Definition cm_empty (pr:prior) : cmodel := {| reg := []; wacc := map (fun _ => []) pr; wrej := map (fun _ => []) pr |}.
Definition cm_add (pr:prior) (m:cmodel) (c:cond) : option cmodel :=
  if existsb (fun d => ckey d =? ckey c) (reg m) then None else
  Some {| reg := reg m ++ [c];
          wacc := map (fun pa => if match classify_fast c (fst (fst pa)) with Some true => true | _ => false end then snd pa ++ [ckey c] else snd pa) (combine pr (wacc m));
          wrej := map (fun pa => if match classify_fast c (fst (fst pa)) with Some false => true | _ => false end then snd pa ++ [ckey c] else snd pa) (combine pr (wrej m)) |}.
Definition cm_remove (m:cmodel) (k:nat) : cmodel :=
  {| reg := filter (fun d => negb (ckey d =? k)) (reg m); wacc := map (remove_key k) (wacc m); wrej := map (remove_key k) (wrej m) |}.
Fixpoint insert_s (x:nat) (l:list nat) : list nat :=
  match l with [] => [x] | y::r => if x <=? y then x :: y :: r else y :: insert_s x r end.
Definition sort_keys (l:list nat) : list nat := fold_right insert_s [] l.
Definition triples_cm (pr:prior) (m:cmodel) (k:nat) (want:bool) : list triple :=
  flat_map (fun x => let acc := sort_keys (snd (fst x)) in let rej := sort_keys (snd x) in
                     if existsb (Nat.eqb k) (if want then acc else rej)
                     then [(snd (fst (fst x)), remove_key k acc, remove_key k rej)] else []) (combine (combine pr (wacc m)) (wrej m)).
Definition cm_compile (pr:prior) (m:cmodel) : list (nat * list triple) * list (nat * list triple) :=
  (map (fun c => (ckey c, triples_cm pr m (ckey c) true)) (reg m), map (fun c => (ckey c, triples_cm pr m (ckey c) false)) (reg m)).
Inductive cmop := CAdd (c:cond) | CRemove (k:nat).
Definition cm_step (pr:prior) (m:cmodel) (o:cmop) : cmodel :=
  match o with CAdd c => match cm_add pr m c with Some m' => m' | None => m end | CRemove k => cm_remove m k end.

(* ---- the constraint system and the revised ranking ---- *)
Definition gam := nat -> nat.                                   (* key -> value; non-negative by construction *)
Definition sumk (g:gam) (l:list nat) : nat := fold_right (fun k s => g k + s) 0 l.
Definition tval (gp gm:gam) (t:triple) : nat := fst (fst t) + sumk gp (snd (fst t)) + sumk gm (snd t).
Definition constraint (gp gm:gam) (k:nat) (vt ft:list triple) : bool :=
  match minl (map (tval gp gm) vt), minl (map (tval gp gm) ft) with
  | Some mv, Some mf => mv + gp k <? mf + gm k       (* gamma-_k - gamma+_k > mv - mf *)
  | Some _, None => true                               (* cannot be falsified: accepted whatever the parameters *)
  | None, _ => false end.                              (* cannot be verified: cannot be accepted *)
Definition csp_holds (gp gm:gam) (comp:list (nat * list triple) * list (nat * list triple)) : bool :=
  forallb (fun vf => constraint gp gm (fst (fst vf)) (snd (fst vf)) (snd (snd vf))) (combine (fst comp) (snd comp)).
Definition kstar (cs:list cond) (gp gm:gam) (p:world * nat) : nat :=
  snd p + fold_right (fun c s => (match classify c (fst p) with Some true => gp (ckey c) | Some false => gm (ckey c) | None => 0 end) + s) 0 cs.
Definition rank_star (cs:list cond) (pr:prior) (gp gm:gam) (phi:world -> bool) : option nat :=
  minl (map (kstar cs gp gm) (filter (fun p => phi (fst p)) pr)).
Definition accepts_star (cs:list cond) (pr:prior) (gp gm:gam) (c:cond) : bool :=
  lt_opt (rank_star cs pr gp gm (ver c)) (rank_star cs pr gp gm (fal c)).
