From InfOCF Require Import Core Tol TolExt Form Model Thm06 PyLib TieLib TieSet TieSolver TieCons TieMax.
From InfOCFGen Require Import SrcCond SrcCons.
From Coq Require Import ZArith.
(* The partition the consistency test returns is a layering of the base by an index function (each layer lists, in the
   order of the base, the conditionals of one index), and the CNF dictionaries as preprocessing fills them meet their
   contract.  Shared by the composed ties of System W and lexicographic inference. *)

Lemma filter_filter_and {A} (p r:A->bool) l : filter p (filter r l) = filter (fun x => p x && r x) l.
Proof. induction l as [|a l IH]; simpl; auto. destruct (r a); simpl; [destruct (p a); simpl; rewrite IH; reflexivity|].
  rewrite andb_false_r. exact IH. Qed.

Section Layering.
Variable n : nat.
Notation W := (worlds n).

(* every result of the tolerance loop lists, layer by layer and in the order of the base, the conditionals of one index *)
Lemma loop_c_layering weakly : forall f D0 Pc0, loop_c n weakly f D0 = Some Pc0 ->
  exists (lay:cond -> nat) m, Pc0 = Pc D0 lay m /\ (forall c, In c D0 -> lay c < m) /\ (D0 <> [] -> 0 < m).
Proof. induction f as [|f IH]; intros D0 Pc0 H.
  - destruct D0; simpl in H; [|discriminate]. injection H as <-. destruct weakly.
    + exists (fun _ => 0), 1. split; [reflexivity|split; [intros ? []|intros; lia]].
    + exists (fun _ => 0), 0. split; [reflexivity|split; [intros ? []|congruence]].
  - destruct D0 as [|d0 D1].
    { simpl in H. injection H as <-. destruct weakly.
      + exists (fun _ => 0), 1. split; [reflexivity|split; [intros ? []|intros; lia]].
      + exists (fun _ => 0), 0. split; [reflexivity|split; [intros ? []|congruence]]. }
    remember (d0::D1) as D0 eqn:ED. rewrite loop_c_S in H by (subst; discriminate).
    destruct (Rc n D0) as [|r R0] eqn:ER.
    + destruct weakly; [|discriminate]. destruct (existsb _ W); [|discriminate]. injection H as <-.
      exists (fun _ => 0), 1. split; [|split; [intros; lia|intros; lia]]. unfold Pc. cbn [seq map]. f_equal. unfold layer_c.
      unfold Cc. apply filter_ext_in. intros c Hc. cbn [Nat.eqb].
      assert (Hf: In c (Rc n D0) -> False) by (rewrite ER; intros []).
      destruct (tolc n D0 c) eqn:Et; [|reflexivity]. exfalso. apply Hf. apply filter_In. auto.
    + rewrite <- ER in *. destruct (loop_c n weakly f (Cc n D0)) as [P1|] eqn:E1; [|discriminate]. injection H as <-.
      destruct (IH _ _ E1) as [lay1 [m1 [EP [Hb _]]]].
      exists (fun c => if tolc n D0 c then 0 else S (lay1 c)), (S m1). split; [|split; [|lia]].
      * unfold Pc. rewrite <- cons_seq, <- seq_shift. cbn [map]. rewrite map_map. f_equal.
        -- unfold Rc, layer_c. apply filter_ext. intros c. destruct (tolc n D0 c); reflexivity.
        -- rewrite EP. unfold Pc. apply map_ext. intros i. unfold layer_c, Cc. rewrite filter_filter_and.
           apply filter_ext. intros c. destruct (tolc n D0 c); cbn [negb andb]; [rewrite andb_false_r; reflexivity|rewrite andb_true_r; reflexivity].
      * intros c Hc. destruct (tolc n D0 c) eqn:Et; [lia|]. assert (In c (Cc n D0)) by (apply filter_In; rewrite Et; auto).
        pose proof (Hb c H). lia.
Qed.
End Layering.


Section Partition.
Variable n : nat.
Variable D : list cond.
(* the model's partition of a non-empty base, as a layering *)
Lemma partition_layering weakly P : D <> [] -> consistency n weakly D = Some P ->
  exists lay m, P = acP (Pc D lay m) /\ (forall c, In c D -> lay c < m) /\ 0 < m.
Proof. intros HD HP.
  pose proof (loop_c_model n weakly (length D) D) as E.
  assert (E': consistency n weakly D = (if weakly then tol_loop_ext world (worlds n) (length D) (map ac D) else tol_loop world (worlds n) (length D) (map ac D)))
    by (destruct weakly; reflexivity).
  rewrite <- E' in E. rewrite HP in E.
  destruct (loop_c n weakly (length D) D) as [Pc0|] eqn:EL; cbn [option_map] in E; [|discriminate].
  injection E as E. destruct (loop_c_layering n weakly _ _ _ EL) as [lay [m [EP [Hb Hm]]]].
  exists lay, m. split; [rewrite <- E, EP; reflexivity|]. split; [exact Hb|exact (Hm HD)]. Qed.
End Partition.
