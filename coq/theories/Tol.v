From InfOCF Require Import Core.
From Coq Require Import Permutation.

Section Tol.
Variable world : Type.
Variable W : list world.
Record acond := { key : nat; cver : pred world; cfal : pred world }.
Definition nofals (D:list acond) : pred world := fun w => forallb (fun d => negb (cfal d w)) D.
Definition tolerated (D:list acond) (c:acond) : bool := existsb (fun w => cver c w && nofals D w) W.

Lemma nofals_in D w : nofals D w = true <-> forall d, In d D -> cfal d w = false.
Proof. unfold nofals. rewrite forallb_forall. split; intros H d Hd; specialize (H d Hd).
  - apply negb_true_iff; auto. - apply negb_true_iff; auto. Qed.
Lemma tolerated_iff D c : tolerated D c = true <-> exists w, In w W /\ cver c w = true /\ forall d, In d D -> cfal d w = false.
Proof. unfold tolerated. rewrite existsb_exists. split.
  - intros [w [Hw H]]. apply andb_true_iff in H as [H1 H2]. exists w. repeat split; auto. apply nofals_in; auto.
  - intros [w [Hw [H1 H2]]]. exists w. split; auto. apply andb_true_iff. split; auto. apply nofals_in; auto. Qed.
Lemma tolerated_mono D D' c : (forall d, In d D' -> In d D) -> tolerated D c = true -> tolerated D' c = true.
Proof. rewrite !tolerated_iff. intros Hs [w [Hw [H1 H2]]]. exists w. repeat split; auto. Qed.

(* ---------- model of consistency(): strict and extended ---------- *)
Definition tolR D := filter (tolerated D) D.
Definition tolC D := filter (fun c => negb (tolerated D c)) D.
Fixpoint tol_loop (fuel:nat) (D:list acond) : option (list (list acond)) :=
  match D with [] => Some [] | _ =>
  match fuel with 0 => None | S n =>
    match tolR D with [] => None | _ =>
      match tol_loop n (tolC D) with Some P => Some (tolR D :: P) | None => None end end end end.
Fixpoint tol_loop_ext (fuel:nat) (D:list acond) : option (list (list acond)) :=
  match D with [] => Some [[]] | _ =>
  match fuel with 0 => None | S n =>
    match tolR D with
    | [] => if existsb (nofals D) W then Some [tolC D] else None
    | _ => match tol_loop_ext n (tolC D) with Some P => Some (tolR D :: P) | None => None end end end end.

Lemma loop_unfold n D : D <> [] -> tol_loop (S n) D =
  match tolR D with [] => None | _ => match tol_loop n (tolC D) with Some P => Some (tolR D :: P) | None => None end end.
Proof. destruct D; [congruence|reflexivity]. Qed.

(* ---------- specification ---------- *)
Fixpoint is_tp (P:list (list acond)) : Prop :=
  match P with [] => True
  | L::P' => L <> [] /\ (forall c, In c L -> tolerated (L ++ concat P') c = true) /\ is_tp P' end.
Fixpoint is_mtp (P:list (list acond)) : Prop :=   (* maximal: Pearl's Z-partition *)
  match P with [] => True
  | L::P' => L <> [] /\ (forall c, In c L -> tolerated (L ++ concat P') c = true)
             /\ (forall c, In c (concat P') -> tolerated (L ++ concat P') c = false) /\ is_mtp P' end.
Lemma mtp_tp P : is_mtp P -> is_tp P.
Proof. induction P as [|L P IH]; simpl; auto. intros [? [? [? ?]]]. auto. Qed.

Lemma split_perm (D:list acond) (p:acond->bool) : Permutation (filter p D ++ filter (fun c => negb (p c)) D) D.
Proof. induction D as [|a D IH]; simpl; auto. destruct (p a); simpl.
  - constructor. exact IH.
  - eapply Permutation_trans; [apply Permutation_sym, Permutation_middle|]. constructor. exact IH. Qed.
Lemma split_len (D:list acond) p : length (filter p D) + length (filter (fun c => negb (p c)) D) = length D.
Proof. induction D as [|a D IH]; simpl; auto. destruct (p a); simpl; lia. Qed.

(* soundness: the result is the maximal tolerance partition, a permutation of the base *)
Theorem loop_sound : forall fuel D P, tol_loop fuel D = Some P -> is_mtp P /\ Permutation (concat P) D.
Proof. induction fuel as [|n IH]; intros D P H.
  - destruct D; simpl in H; [inversion H; simpl; auto|discriminate].
  - destruct D as [|d0 D0]; [simpl in H; inversion H; simpl; auto|].
    remember (d0::D0) as D. rewrite loop_unfold in H by (subst; discriminate).
    destruct (tolR D) as [|r R] eqn:ER; [discriminate|]. rewrite <- ER in *.
    destruct (tol_loop n (tolC D)) as [P'|] eqn:EL; [|discriminate]. inversion H; subst P. clear H.
    destruct (IH _ _ EL) as [Hm Hp]. 
    assert (Hperm: Permutation (tolR D ++ concat P') D).
    { eapply Permutation_trans; [apply Permutation_app_head; exact Hp|]. apply split_perm. }
    split; [|exact Hperm]. simpl. repeat split; auto.
    + rewrite ER; discriminate.
    + intros c Hc. apply filter_In in Hc as [_ Hc]. eapply tolerated_mono; [|exact Hc].
      intros d Hd. eapply Permutation_in; [exact Hperm|exact Hd].
    + intros c Hc. assert (In c (tolC D)) by (eapply Permutation_in; [exact Hp|exact Hc]).
      apply filter_In in H as [_ H]. apply negb_true_iff in H.
      destruct (tolerated (tolR D ++ concat P') c) eqn:E; auto.
      assert (tolerated D c = true); [|congruence]. eapply tolerated_mono; [|exact E].
      intros d Hd. eapply Permutation_in; [apply Permutation_sym; exact Hperm|exact Hd].
Qed.

(* completeness: if ANY tolerance partition covering D exists, the loop succeeds *)
Lemma some_tolerated : forall P D, is_tp P -> D <> [] -> (forall d, In d D -> In d (concat P)) ->
  exists c, In c D /\ tolerated D c = true.
Proof. induction P as [|L P' IH]; intros D HP HD Hsub.
  - destruct D as [|d D]; [congruence|]. exfalso. apply (Hsub d). now left.
  - destruct HP as [HL [HtL HP']]. simpl in Hsub.
    assert (Hcase: (exists c, In c D /\ In c L) \/ (forall d, In d D -> In d (concat P'))).
    { clear HD. induction D as [|d D IHD]; [right; intros ? []|].
      assert (Hd: In d (L ++ concat P')) by (apply Hsub; now left).
      apply in_app_or in Hd as [Hd|Hd].
      - left. exists d. split; [now left|assumption].
      - destruct IHD as [[c [Hc1 Hc2]]|Hall]; [intros; apply Hsub; now right| |].
        + left. exists c. split; [now right|assumption].
        + right. intros x [->|Hx]; auto. }
    destruct Hcase as [[c [HcD HcL]]|Hall].
    + exists c. split; auto. eapply tolerated_mono; [|apply HtL; exact HcL]. exact Hsub.
    + apply IH; auto. Qed.
Theorem loop_complete : forall fuel D P, length D <= fuel -> is_tp P -> (forall d, In d D -> In d (concat P)) ->
  tol_loop fuel D <> None.
Proof. induction fuel as [|n IH]; intros D P Hlen HP Hsub.
  - destruct D; simpl in *; [discriminate|lia].
  - destruct D as [|d0 D0]; [simpl; discriminate|]. remember (d0::D0) as D.
    assert (HD: D <> []) by (subst; discriminate). rewrite loop_unfold by auto.
    destruct (some_tolerated P D HP HD Hsub) as [c [HcD Hct]].
    assert (HR: In c (tolR D)) by (apply filter_In; auto).
    destruct (tolR D) as [|r R] eqn:ER; [inversion HR|]. rewrite <- ER.
    assert (Hrec: tol_loop n (tolC D) <> None).
    { apply IH with (P:=P); auto.
      - pose proof (split_len D (tolerated D)) as Hs. unfold tolR in ER. rewrite ER in Hs. simpl in Hs. unfold tolC. lia.
      - intros d Hd. apply filter_In in Hd as [Hd _]. auto. }
    destruct (tol_loop n (tolC D)); [discriminate|congruence]. Qed.
Corollary consistent_iff D : tol_loop (length D) D <> None <-> exists P, is_tp P /\ Permutation (concat P) D.
Proof. split.
  - destruct (tol_loop (length D) D) as [P|] eqn:E; [|congruence]. intros _. apply loop_sound in E as [Hm Hp].
    exists P. split; auto. apply mtp_tp; auto.
  - intros [P [HP Hp]]. apply loop_complete with (P:=P); auto. intros d Hd. eapply Permutation_in; [apply Permutation_sym; exact Hp|auto]. Qed.

(* uniqueness of the maximal partition, layer by layer, as sets *)
Definition seteq (A B:list acond) := forall c, In c A <-> In c B.
Lemma tolerated_seteq D D' c : seteq D D' -> tolerated D c = tolerated D' c.
Proof. intros H. apply eq_true_iff_eq. split; apply tolerated_mono; intros d Hd; apply H; auto. Qed.
Theorem mtp_unique : forall P P', is_mtp P -> is_mtp P' -> seteq (concat P) (concat P') ->
  length P = length P' /\ forall i, seteq (nth i P []) (nth i P' []).
Proof. induction P as [|L P IH]; intros P' HP HP' Hse.
  - destruct P' as [|L' P']; [split; auto; intros [|i] c; tauto|].
    destruct HP' as [HL' _]. destruct L' as [|c' L']; [congruence|]. exfalso. apply (proj2 (Hse c')). simpl. now left.
  - destruct P' as [|L' P'].
    { destruct HP as [HL _]. destruct L as [|c L]; [congruence|]. exfalso. apply (proj1 (Hse c)). simpl. now left. }
    destruct HP as [HL [Ht [Hn HP]]]. destruct HP' as [HL' [Ht' [Hn' HP']]]. simpl in Hse.
    assert (HLL: seteq L L').
    { intros c. split; intros Hc.
      - assert (In c (L' ++ concat P')) by (apply Hse, in_or_app; auto). apply in_app_or in H as [|H]; auto.
        exfalso. specialize (Hn' c H). rewrite <- (tolerated_seteq _ _ c Hse) in Hn'. rewrite (Ht c Hc) in Hn'. discriminate.
      - assert (In c (L ++ concat P)) by (apply Hse, in_or_app; auto). apply in_app_or in H as [|H]; auto.
        exfalso. specialize (Hn c H). rewrite (tolerated_seteq _ _ c Hse) in Hn. rewrite (Ht' c Hc) in Hn. discriminate. }
    assert (Hrest: seteq (concat P) (concat P')).
    { (* members of later layers are exactly the non-tolerated ones *)
      intros c. split; intros Hc.
      - assert (In c (L' ++ concat P')) by (apply Hse, in_or_app; auto). apply in_app_or in H as [H|]; auto.
        exfalso. specialize (Hn c Hc). rewrite (tolerated_seteq _ _ c Hse) in Hn. rewrite (Ht' c H) in Hn. discriminate.
      - assert (In c (L ++ concat P)) by (apply Hse, in_or_app; auto). apply in_app_or in H as [H|]; auto.
        exfalso. specialize (Hn' c Hc). rewrite <- (tolerated_seteq _ _ c Hse) in Hn'. rewrite (Ht c H) in Hn'. discriminate. }
    destruct (IH P' HP HP' Hrest) as [Hlen Hnth]. split; [simpl; lia|]. intros [|i]; simpl; auto.
Qed.
End Tol.
Print Assumptions loop_sound. Print Assumptions consistent_iff. Print Assumptions mtp_unique.
