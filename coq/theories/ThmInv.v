From InfOCF Require Import Core Tol TolExt SysZ SysW Lex Kz Form Model Spec Exec Thm06 ThmOps ThmP ThmTop.
(* C12: the model's answers depend on the conditionals only through their verification / falsification sets:
   any keys, any syntactically different but equivalent formulas (base and query). *)
Definition aeq (c c':acond world) : Prop := forall w, cver world c w = cver world c' w /\ cfal world c w = cfal world c' w.
Definition leq := Forall2 aeq.
Definition peq := Forall2 leq.
Definition ceq (c c':cond) : Prop := forall w, ver c w = ver c' w /\ fal c w = fal c' w.
Definition feq (F F':layer world) : Prop := forall w, F w = F' w.

Lemma ceq_aeq c c' : ceq c c' -> aeq (ac c) (ac c'). Proof. intros H w. apply H. Qed.
Lemma ceq_leq D D' : Forall2 ceq D D' -> leq (map ac D) (map ac D').
Proof. induction 1; simpl; constructor; auto. Qed.
Lemma ceq_ante c c' : ceq c c' -> forall w, ante c w = ante c' w.
Proof. intros H w. rewrite !ante_split. destruct (H w) as [-> ->]. reflexivity. Qed.

Lemma Forall2_length {A B} (R:A->B->Prop) l l' : Forall2 R l l' -> length l = length l'.
Proof. induction 1; simpl; auto. Qed.

Section Cong.
Variable Wl : list world.
Lemma nofals_cong D D' w : leq D D' -> nofals world D w = nofals world D' w.
Proof. induction 1 as [|c c' D D' Hc _ IH]; simpl; auto. destruct (Hc w) as [_ ->]. rewrite IH. reflexivity. Qed.
Lemma tolerated_cong D D' c c' : leq D D' -> aeq c c' -> tolerated world Wl D c = tolerated world Wl D' c'.
Proof. intros HD Hc. unfold tolerated. induction Wl as [|w l IH]; simpl; auto.
  destruct (Hc w) as [-> _]. rewrite (nofals_cong D D' w HD), IH. reflexivity. Qed.
Lemma filter_cong (p p':acond world -> bool) D D' : leq D D' -> (forall c c', aeq c c' -> p c = p' c') ->
  leq (filter p D) (filter p' D').
Proof. intros HD Hp. induction HD as [|c c' D D' Hc _ IH]; simpl; [constructor|].
  rewrite (Hp c c' Hc). destruct (p' c'); auto. constructor; auto. Qed.
Lemma leq_nil D D' : leq D D' -> (D = [] <-> D' = []).
Proof. destruct 1; split; auto; discriminate. Qed.

Definition orel (o o':option (list (list (acond world)))) : Prop :=
  match o, o' with Some P, Some P' => peq P P' | None, None => True | _, _ => False end.

Lemma tolR_cong D D' : leq D D' -> leq (tolR world Wl D) (tolR world Wl D').
Proof. intros H. apply filter_cong; auto. intros c c' Hc. apply tolerated_cong; auto. Qed.
Lemma tolC_cong D D' : leq D D' -> leq (tolC world Wl D) (tolC world Wl D').
Proof. intros H. apply filter_cong; auto. intros c c' Hc. f_equal. apply tolerated_cong; auto. Qed.

Lemma tol_loop_cong : forall fuel D D', leq D D' -> orel (tol_loop world Wl fuel D) (tol_loop world Wl fuel D').
Proof. induction fuel as [|n IH]; intros D D' H.
  - destruct H; simpl; auto. constructor.
  - destruct H as [|c c' D D' Hc HD]; [simpl; constructor|].
    assert (HL: leq (c::D) (c'::D')) by (constructor; auto).
    rewrite !loop_unfold by discriminate.
    pose proof (tolR_cong _ _ HL) as HR. pose proof (tolC_cong _ _ HL) as HC.
    specialize (IH _ _ HC). destruct HR as [|r r' R R' Hr HRR]; [exact I|].
    destruct (tol_loop world Wl n (tolC world Wl (c::D))), (tol_loop world Wl n (tolC world Wl (c'::D'))); simpl in *; auto.
    constructor; auto. constructor; auto. Qed.
Lemma exb_nofals_cong D D' : leq D D' -> existsb (nofals world D) Wl = existsb (nofals world D') Wl.
Proof. intros H. induction Wl as [|w l IH]; simpl; auto. rewrite (nofals_cong D D' w H), IH. reflexivity. Qed.
Lemma tol_loop_ext_cong : forall fuel D D', leq D D' -> orel (tol_loop_ext world Wl fuel D) (tol_loop_ext world Wl fuel D').
Proof. induction fuel as [|n IH]; intros D D' H.
  - destruct H; simpl; auto. repeat constructor.
  - destruct H as [|c c' D D' Hc HD]; [simpl; repeat constructor|].
    assert (HL: leq (c::D) (c'::D')) by (constructor; auto).
    rewrite !ext_unfold by discriminate.
    pose proof (tolR_cong _ _ HL) as HR. pose proof (tolC_cong _ _ HL) as HC.
    specialize (IH _ _ HC). destruct HR as [|r r' R R' Hr HRR].
    + rewrite (exb_nofals_cong _ _ HL). destruct (existsb _ Wl); simpl; auto. repeat constructor; auto.
    + destruct (tol_loop_ext world Wl n (tolC world Wl (c::D))), (tol_loop_ext world Wl n (tolC world Wl (c'::D'))); simpl in *; auto.
      constructor; auto. constructor; auto. Qed.

(* layers and the three definitions *)
Lemma layer_of_cong L L' : leq L L' -> feq (layer_of L) (layer_of L').
Proof. intros H w. unfold layer_of. induction H as [|c c' L L' Hc _ IH]; simpl; auto. destruct (Hc w) as [_ ->]. rewrite IH. reflexivity. Qed.
Lemma Forall2_rev {A B} (R:A->B->Prop) l l' : Forall2 R l l' -> Forall2 R (rev l) (rev l').
Proof. induction 1; simpl; auto. apply Forall2_app; auto. Qed.
Lemma layers_cong P P' : peq P P' -> Forall2 feq (layers P) (layers P').
Proof. intros H. unfold layers. apply Forall2_rev. induction H; simpl; constructor; auto. apply layer_of_cong; auto. Qed.
Lemma zrank_cong ls ls' w : Forall2 feq ls ls' -> zrank world ls w = zrank world ls' w.
Proof. induction 1 as [|F F' ls ls' HF Hl IH]; simpl; auto. rewrite (HF w), IH. rewrite (Forall2_length _ _ _ Hl). reflexivity. Qed.
Lemma wless_cong ls ls' w w' : Forall2 feq ls ls' -> wless world ls w w' = wless world ls' w w'.
Proof. induction 1 as [|F F' ls ls' HF _ IH]; simpl; auto. rewrite (HF w), (HF w'), IH. reflexivity. Qed.
Lemma vec_cong ls ls' w : Forall2 feq ls ls' -> vec world ls w = vec world ls' w.
Proof. unfold vec. induction 1 as [|F F' ls ls' HF _ IH]; simpl; auto. rewrite (HF w), IH. reflexivity. Qed.

Lemma existsb_ext' {A} (f g:A->bool) l : (forall x, f x = g x) -> existsb f l = existsb g l.
Proof. intros H. induction l; simpl; auto. rewrite H, IHl. reflexivity. Qed.
Lemma forallb_ext' {A} (f g:A->bool) l : (forall x, f x = g x) -> forallb f l = forallb g l.
Proof. intros H. induction l; simpl; auto. rewrite H, IHl. reflexivity. Qed.

Theorem z_spec_cong P P' q q' : peq P P' -> ceq q q' -> z_spec Wl P q = z_spec Wl P' q'.
Proof. intros HP Hq. unfold z_spec, rank_of, rk, sel.
  rewrite (existsb_ext' (ante q) (ante q') Wl (ceq_ante q q' Hq)).
  rewrite (filter_ext (fun w => top world w && ver q w) (fun w => top world w && ver q' w)) by (intros w; destruct (Hq w) as [-> _]; reflexivity).
  rewrite (filter_ext (fun w => top world w && fal q w) (fun w => top world w && fal q' w)) by (intros w; destruct (Hq w) as [_ ->]; reflexivity).
  assert (E: forall l, map (kappa_z P) l = map (kappa_z P') l).
  { intros l. apply map_ext. intros w. unfold kappa_z. rewrite !kz_zrank. apply zrank_cong. apply layers_cong; auto. }
  rewrite !E. reflexivity. Qed.
Theorem w_spec_cong P P' q q' : peq P P' -> ceq q q' -> w_spec Wl P q = w_spec Wl P' q'.
Proof. intros HP Hq. unfold w_spec. apply forallb_ext'. intros w'. destruct (Hq w') as [_ ->]. f_equal.
  apply existsb_ext'. intros w. destruct (Hq w) as [-> _]. f_equal. apply wless_cong. apply layers_cong; auto. Qed.
Theorem lex_spec_cong P P' q q' : peq P P' -> ceq q q' -> lex_spec Wl P q = lex_spec Wl P' q'.
Proof. intros HP Hq. unfold lex_spec.
  rewrite (filter_ext (fal q) (fal q')) by (intros w; apply Hq).
  rewrite (filter_ext (ver q) (ver q')) by (intros w; apply Hq).
  assert (E: forall l, map (lexvec P) l = map (lexvec P') l).
  { intros l. apply map_ext. intros w. unfold lexvec. apply vec_cong. apply layers_cong; auto. }
  rewrite !E. reflexivity. Qed.
End Cong.

Section Top.
Variable n : nat.
Notation W := (worlds n).

Lemma peq_last P P' : peq P P' -> leq (last P []) (last P' []).
Proof. induction 1 as [|L L' P P' HL HP IH]; simpl; [constructor|]. destruct HP; auto. Qed.
Lemma peq_removelast P P' : peq P P' -> peq (removelast P) (removelast P').
Proof. induction 1 as [|L L' P P' HL HP IH]; simpl; [constructor|]. destruct HP; [constructor|]. constructor; auto. Qed.
Lemma Wf_cong P P' : peq P P' -> Wf W P = Wf W P'.
Proof. intros H. unfold Wf, Cinf. apply filter_ext. intros w. apply nofals_cong. apply peq_last; auto. Qed.

Lemma ext_spec_cong P P' q q' sd : peq P P' -> ceq q q' ->
  (forall Wl Pl Pl', peq Pl Pl' -> sd Wl Pl q = sd Wl Pl' q') -> ext_spec W P q sd = ext_spec W P' q' sd.
Proof. intros HP Hq Hsd. unfold ext_spec. rewrite <- (Wf_cong P P' HP).
  rewrite (existsb_ext' (ante q) (ante q') _ (ceq_ante q q' Hq)).
  rewrite (existsb_ext' (fal q) (fal q')) by (intros w; apply Hq).
  rewrite (existsb_ext' (ver q) (ver q')) by (intros w; apply Hq).
  rewrite (Hsd (Wf W P) (fin P) (fin P')) by (apply peq_removelast; auto). reflexivity. Qed.

Lemma trivial_cong q q' : ceq q q' -> trivial n q = trivial n q'.
Proof. intros Hq. unfold trivial, sat. rewrite (existsb_ext' (ante q) (ante q') _ (ceq_ante q q' Hq)).
  rewrite (existsb_ext' (fal q) (fal q')) by (intros w; apply Hq). reflexivity. Qed.

Lemma consistency_cong weakly D D' : Forall2 ceq D D' -> orel (consistency n weakly D) (consistency n weakly D').
Proof. intros H. pose proof (ceq_leq D D' H) as HL. unfold consistency, part_ext, part_strict.
  rewrite <- (Forall2_length _ _ _ H). destruct weakly; [apply tol_loop_ext_cong|apply tol_loop_cong]; auto. Qed.

Lemma p_strict_cong D D' q q' : Forall2 ceq D D' -> ceq q q' -> p_strict n D q = p_strict n D' q'.
Proof. intros HD Hq. unfold p_strict, part_strict.
  assert (HL: leq (map ac (D ++ [negq (fresh D) q])) (map ac (D' ++ [negq (fresh D') q']))).
  { rewrite !map_app. apply Forall2_app; [apply ceq_leq; auto|]. constructor; [|constructor].
    intros w. cbn [ac cver cfal]. rewrite !negq_ver, !negq_fal. destruct (Hq w); auto. }
  pose proof (tol_loop_cong W (length (D ++ [negq (fresh D) q])) _ _ HL) as Ho.
  rewrite !app_length in *. rewrite <- (Forall2_length _ _ _ HD). cbn [length] in *.
  destruct (tol_loop world W _ (map ac (D ++ _))), (tol_loop world W _ (map ac (D' ++ _))); simpl in Ho; tauto. Qed.
Lemma p_ext_cong D D' q q' : Forall2 ceq D D' -> ceq q q' -> p_ext n D q = p_ext n D' q'.
Proof. intros HD Hq. unfold p_ext, part_ext.
  assert (HL: leq (map ac (D ++ [negq (fresh D) q])) (map ac (D' ++ [negq (fresh D') q']))).
  { rewrite !map_app. apply Forall2_app; [apply ceq_leq; auto|]. constructor; [|constructor].
    intros w. cbn [ac cver cfal]. rewrite !negq_ver, !negq_fal. destruct (Hq w); auto. }
  pose proof (tol_loop_ext_cong W (length (D ++ [negq (fresh D) q])) _ _ HL) as Ho.
  rewrite !app_length in *. rewrite <- (Forall2_length _ _ _ HD). cbn [length] in *.
  destruct (tol_loop_ext world W _ (map ac (D ++ _))) as [P|], (tol_loop_ext world W _ (map ac (D' ++ _))) as [P'|]; simpl in Ho; try tauto.
  f_equal. unfold feas, inf_layer. apply existsb_ext'. intros w. rewrite (nofals_cong _ _ w (peq_last _ _ Ho)), (ceq_ante q q' Hq). reflexivity. Qed.

(* the theorem: same order, arbitrary keys, arbitrary equivalent formulas => same answer, every operator, both modes *)
Theorem presentation_invariance s weakly D D' q q' : Forall2 ceq D D' -> ceq q q' ->
  infer n s weakly D q = infer n s weakly D' q'.
Proof. intros HD Hq. pose proof (consistency_cong weakly D D' HD) as HC.
  destruct D as [|d D0]; [inversion HD; reflexivity|]. destruct D' as [|d' D0']; [inversion HD|].
  destruct (consistency n weakly (d::D0)) as [P|] eqn:EP, (consistency n weakly (d'::D0')) as [P'|] eqn:EP'; simpl in HC; try tauto.
  2:{ unfold infer. rewrite EP, EP'. reflexivity. }
  destruct s, weakly.
  - unfold infer. rewrite EP, EP'. cbn [op]. rewrite (trivial_cong q q' Hq), (p_ext_cong _ _ q q' HD Hq). reflexivity.
  - unfold infer. rewrite EP, EP'. cbn [op]. rewrite (trivial_cong q q' Hq), (p_strict_cong _ _ q q' HD Hq). reflexivity.
  - rewrite (infer_z_ext n _ q P) by (auto; discriminate). rewrite (infer_z_ext n _ q' P') by (auto; discriminate).
    f_equal. apply ext_spec_cong; auto. intros. apply z_spec_cong; auto.
  - rewrite (infer_z_strict n _ q P) by (auto; discriminate). rewrite (infer_z_strict n _ q' P') by (auto; discriminate).
    f_equal. apply z_spec_cong; auto.
  - rewrite (infer_w_ext n _ q P) by (auto; discriminate). rewrite (infer_w_ext n _ q' P') by (auto; discriminate).
    f_equal. apply ext_spec_cong; auto. intros. apply w_spec_cong; auto.
  - rewrite (infer_w_strict n _ q P) by (auto; discriminate). rewrite (infer_w_strict n _ q' P') by (auto; discriminate).
    f_equal. apply w_spec_cong; auto.
  - rewrite (infer_lex_ext n _ q P) by (auto; discriminate). rewrite (infer_lex_ext n _ q' P') by (auto; discriminate).
    f_equal. apply ext_spec_cong; auto. intros. apply lex_spec_cong; auto.
  - rewrite (infer_lex_strict n _ q P) by (auto; discriminate). rewrite (infer_lex_strict n _ q' P') by (auto; discriminate).
    f_equal. apply lex_spec_cong; auto. Qed.
End Top.
