From InfOCF Require Import Core Form PyLib.
From Coq Require Export String.
From Coq Require Import ZArith.
(* dictionaries with string keys (TypedDict results), in insertion order *)
Fixpoint sdict_find {V} (d:list (string * V)) (k:string) : option V :=
  match d with [] => None | (k', v)::r => if String.eqb k' k then Some v else sdict_find r k end.
Fixpoint sdict_set {V} (d:list (string * V)) (k:string) (v:V) : list (string * V) :=
  match d with [] => [(k, v)] | (k', v')::r => if String.eqb k' k then (k, v) :: r else (k', v') :: sdict_set r k v end.
Definition sdict_mem {V} (d:list (string * V)) (k:string) : bool := match sdict_find d k with Some _ => true | None => false end.
Definition sdict_get {V R L} (d:list (string * V)) (k:string) : ctl R L V := match sdict_find d k with Some v => Next v | None => Raise end.
(* d.update(e) on integer-keyed dictionaries *)
Definition zdict_update {V} (d e:dict Z V) : dict Z V := fold_left (fun acc kv => zdict_set acc (fst kv) (snd kv)) e d.
(* cond.index = k *)
Definition set_ckey (c:cond) (k:Z) : cond := {| ckey := Z.to_nat k; ccons := ccons c; cante := cante c |}.
(* And([f1, ..., fk]) *)
Definition f_and_list (l:list form) : form := fold_right FAnd FTop l.
(* the operator classes create_inference_instance chooses from *)
Inductive opclass := OpPEntailment | OpSystemZ | OpSystemW | OpSystemWZ3 | OpCInference | OpLexInf | OpLexInfZ3.
