From InfOCF Require Import Core Tol Form Model Spec ThmSim.
(* C12: instances of the simulation theorem - extension of the signature by unused atoms, consistent renaming of atoms
   (= re-ordering of the signature). *)
Fixpoint bounded (n:nat) (f:form) : bool :=
  match f with FTop | FBot => true | FVar i => i <? n | FNot g => bounded n g | FAnd g h | FOr g h => bounded n g && bounded n h end.
Definition cbounded (n:nat) (c:cond) : bool := bounded n (ccons c) && bounded n (cante c).

(* ---- unused atoms ---- *)
Lemma nth_firstn_lt {A} (d:A) : forall n i (l:list A), i < n -> nth i (firstn n l) d = nth i l d.
Proof. induction n as [|n IH]; intros i l H; [lia|]. destruct l as [|a l]; [destruct i; reflexivity|]. destruct i as [|i]; cbn; auto. apply IH. lia. Qed.
Lemma eval_firstn n f w : bounded n f = true -> eval w f = eval (firstn n w) f.
Proof. induction f as [| |i|g IH|g IHg h IHh|g IHg h IHh]; cbn; intros H; auto.
  - apply Nat.ltb_lt in H. symmetry. apply nth_firstn_lt; auto.
  - rewrite IH; auto.
  - apply andb_true_iff in H as [H1 H2]. rewrite IHg, IHh; auto.
  - apply andb_true_iff in H as [H1 H2]. rewrite IHg, IHh; auto. Qed.
Lemma firstn_in n k w : In w (worlds (n + k)) -> In (firstn n w) (worlds n).
Proof. intros H. apply worlds_complete. apply worlds_length in H. rewrite firstn_length. lia. Qed.
Lemma firstn_onto n k u : In u (worlds n) -> exists w, In w (worlds (n + k)) /\ firstn n w = u.
Proof. intros H. apply worlds_length in H. exists (u ++ repeat false k). split.
  - apply worlds_complete. rewrite app_length, repeat_length. lia.
  - rewrite firstn_app, H, Nat.sub_diag. cbn. rewrite app_nil_r. rewrite <- H. apply firstn_all. Qed.
Lemma qrel_firstn n c : cbounded n c = true -> qrel (firstn n) c c.
Proof. unfold cbounded. intros H w. apply andb_true_iff in H as [H1 H2]. unfold ver, fal.
  rewrite <- (eval_firstn n (cante c) w H2), <- (eval_firstn n (ccons c) w H1). auto. Qed.
Theorem signature_extension n k s weakly D q : forallb (cbounded n) D = true -> cbounded n q = true ->
  infer (n + k) s weakly D q = infer n s weakly D q.
Proof. intros HD Hq. apply (simulation_invariance (n + k) n (firstn n) (firstn_in n k) (firstn_onto n k)).
  - rewrite forallb_forall in HD. clear Hq. induction D as [|c D IH]; constructor.
    + apply qrel_firstn. apply HD. now left.
    + apply IH. intros x Hx. apply HD. now right.
  - apply qrel_firstn; auto. Qed.

(* ---- renaming of atoms ---- *)
Fixpoint ren (rho:nat->nat) (f:form) : form :=
  match f with FTop => FTop | FBot => FBot | FVar i => FVar (rho i) | FNot g => FNot (ren rho g)
  | FAnd g h => FAnd (ren rho g) (ren rho h) | FOr g h => FOr (ren rho g) (ren rho h) end.
Definition rencond (rho:nat->nat) (c:cond) : cond := {| ckey := ckey c; ccons := ren rho (ccons c); cante := ren rho (cante c) |}.
Lemma nth_map_lt' {A B} (f:A->B) l i d d' : i < length l -> nth i (map f l) d' = f (nth i l d).
Proof. revert i; induction l as [|a l IH]; intros [|i] H; cbn in *; try lia; auto. apply IH. lia. Qed.
Section Ren.
Variable n : nat.
Variables rho rho' : nat -> nat.
Hypothesis rho_lt : forall i, i < n -> rho i < n.
Hypothesis rho'_lt : forall i, i < n -> rho' i < n.
Hypothesis rho'_rho : forall i, i < n -> rho' (rho i) = i.
Definition pull (w:world) : world := map (fun i => nth (rho i) w false) (seq 0 n).
Lemma pull_nth w i : i < n -> nth i (pull w) false = nth (rho i) w false.
Proof. intros H. unfold pull. rewrite (nth_map_lt' _ _ _ 0) by (rewrite seq_length; auto). rewrite seq_nth; auto. Qed.
Lemma eval_ren f w : bounded n f = true -> eval w (ren rho f) = eval (pull w) f.
Proof. induction f as [| |i|g IH|g IHg h IHh|g IHg h IHh]; cbn; intros H; auto.
  - apply Nat.ltb_lt in H. symmetry. apply pull_nth; auto.
  - rewrite IH; auto.
  - apply andb_true_iff in H as [H1 H2]. rewrite IHg, IHh; auto.
  - apply andb_true_iff in H as [H1 H2]. rewrite IHg, IHh; auto. Qed.
Lemma pull_in w : In w (worlds n) -> In (pull w) (worlds n).
Proof. intros _. apply worlds_complete. unfold pull. rewrite map_length, seq_length. reflexivity. Qed.
Lemma pull_onto u : In u (worlds n) -> exists w, In w (worlds n) /\ pull w = u.
Proof. intros Hu. apply worlds_length in Hu. exists (map (fun j => nth (rho' j) u false) (seq 0 n)). split.
  - apply worlds_complete. rewrite map_length, seq_length. reflexivity.
  - apply (nth_ext _ _ false false).
    + unfold pull. rewrite map_length, seq_length. auto.
    + intros i Hi. unfold pull in Hi. rewrite map_length, seq_length in Hi. rewrite pull_nth by auto.
      rewrite (nth_map_lt' _ _ _ 0) by (rewrite seq_length; auto). rewrite seq_nth by auto. cbn. rewrite rho'_rho; auto. Qed.
Lemma qrel_ren c : cbounded n c = true -> qrel pull (rencond rho c) c.
Proof. unfold cbounded. intros H w. apply andb_true_iff in H as [H1 H2]. unfold ver, fal, rencond. cbn [cante ccons].
  rewrite (eval_ren (cante c) w H2), (eval_ren (ccons c) w H1). auto. Qed.
Theorem renaming_invariance s weakly D q : forallb (cbounded n) D = true -> cbounded n q = true ->
  infer n s weakly (map (rencond rho) D) (rencond rho q) = infer n s weakly D q.
Proof. intros HD Hq. apply (simulation_invariance n n pull pull_in pull_onto).
  - rewrite forallb_forall in HD. clear Hq. induction D as [|c D IH]; cbn; constructor.
    + apply qrel_ren. apply HD. now left.
    + apply IH. intros x Hx. apply HD. now right.
  - apply qrel_ren; auto. Qed.
End Ren.
