From InfOCF Require Import Core Tol Form Model Manager.
From Coq Require Import Permutation.
(* C13: history, batching and schedule independence of the manager model *)
Lemma form_eqb_refl f : form_eqb f f = true.
Proof. induction f; cbn; auto; try apply Nat.eqb_refl; rewrite ?IHf1, ?IHf2; auto. Qed.
Lemma form_eqb_true f : forall g, form_eqb f g = true -> f = g.
Proof. induction f as [| |i|a IHa|a IHa b IHb|a IHa b IHb]; destruct g; cbn; try discriminate; auto.
  - intros H. apply Nat.eqb_eq in H. congruence.
  - intros H. apply IHa in H. congruence.
  - intros H. apply andb_true_iff in H as [H1 H2]. apply IHa in H1. apply IHb in H2. congruence.
  - intros H. apply andb_true_iff in H as [H1 H2]. apply IHa in H1. apply IHb in H2. congruence. Qed.
Lemma form_eqb_eq f g : form_eqb f g = true <-> f = g.
Proof. split; [apply form_eqb_true|intros ->; apply form_eqb_refl]. Qed.
Lemma text_eqb_refl q : text_eqb q q = true.
Proof. unfold text_eqb. apply andb_true_iff. split; apply form_eqb_eq; reflexivity. Qed.

Section T.
Variable n : nat.
Variable s : system.
Variable weakly : bool.
Variable D : list cond.
Notation answer := (answer n s weakly D).
Notation preprocess := (preprocess n weakly D).

(* same text => same verification / falsification / antecedent => same answer *)
Lemma text_same_answer st q q' : text_eqb q q' = true -> answer st q = answer st q'.
Proof. unfold text_eqb. intros H. apply andb_true_iff in H as [H1 H2]. apply form_eqb_eq in H1, H2.
  assert (Hv: ver q = ver q') by (unfold ver; rewrite H1, H2; reflexivity).
  assert (Hf: fal q = fal q') by (unfold fal; rewrite H1, H2; reflexivity).
  assert (Ha: ante q = ante q') by (unfold ante; rewrite H2; reflexivity).
  unfold answer. destruct (cpart st) as [P|]; auto. unfold trivial. rewrite Ha, Hf. f_equal.
  destruct s, weakly; cbn [op].
  - unfold p_ext. unfold negq. rewrite H1, H2, Ha. reflexivity.
  - unfold p_strict. unfold negq. rewrite H1, H2. reflexivity.
  - unfold z_ext. rewrite Hv, Hf. reflexivity.
  - unfold z_strict. rewrite Hv, Hf. reflexivity.
  - unfold w_ext. rewrite Hv, Hf. reflexivity.
  - unfold w_strict. rewrite Hv, Hf. reflexivity.
  - unfold lex_ext. rewrite Hv, Hf, Ha. reflexivity.
  - unfold lex_strict. rewrite Hv, Hf. reflexivity. Qed.

(* the state invariant: once preprocessing is done the cached partition is the base's partition *)
Definition inv (st:mstate) : Prop := pre_done st = true -> D <> [] /\ cpart st = consistency n weakly D /\ cpart st <> None.
Lemma inv0 : inv st0. Proof. intros H. discriminate. Qed.
Lemma preprocess_inv st st1 : inv st -> preprocess st = Some st1 -> inv st1 /\ pre_done st1 = true.
Proof. intros Hi H. unfold Manager.preprocess in H. destruct (pre_done st) eqn:Ep.
  - inversion H; subst. auto.
  - assert (HD: D <> []) by (intros E; rewrite E in H; discriminate).
    destruct (consistency n weakly D) as [P|] eqn:EC; [|destruct D; discriminate].
    assert (E: st1 = {| pre_done := true; cpart := Some P; qslot := qslot st; pool_size := pool_size st |}) by (destruct D; [congruence|inversion H; reflexivity]).
    subst st1. split; auto. intros _. cbn. repeat split; auto; discriminate. Qed.
Lemma touch_answer st q q' : answer (touch st q) q' = answer st q'. Proof. reflexivity. Qed.
Lemma touch_inv st q : inv st -> inv (touch st q). Proof. intros H. exact H. Qed.

(* with the invariant the answer is the operator's answer for that query asked alone on a fresh manager *)
Lemma answer_is_infer st q : inv st -> pre_done st = true -> Ans (answer st q) = infer n s weakly D q.
Proof. intros Hi Hp. destruct (Hi Hp) as [HD [HP HN]]. unfold answer, infer. destruct D as [|d D0]; [congruence|].
  rewrite <- HP. destruct (cpart st); [reflexivity|congruence]. Qed.

(* sequential evaluation: the dictionary holds, for every text asked so far, the answer for that text *)
Lemma dict_get_set d q q' b : dict_get (dict_set d q b) q' = if text_eqb q q' then Some b else dict_get d q'.
Proof. induction d as [|[x v] d IH]; cbn.
  - reflexivity.
  - destruct (text_eqb x q) eqn:E; cbn.
    + unfold text_eqb in *. apply andb_true_iff in E as [E1 E2]. apply form_eqb_eq in E1, E2.
      rewrite E1, E2. destruct (form_eqb (ccons q) (ccons q') && form_eqb (cante q) (cante q')); reflexivity.
    + rewrite IH. destruct (text_eqb x q') eqn:E'; auto.
      destruct (text_eqb q q') eqn:E''; auto. exfalso.
      unfold text_eqb in *. apply andb_true_iff in E' as [A1 A2]. apply andb_true_iff in E'' as [B1 B2].
      apply form_eqb_eq in A1, A2, B1, B2. rewrite A1, A2, <- B1, <- B2 in E.
      rewrite !(proj2 (form_eqb_eq _ _) eq_refl) in E. discriminate. Qed.
Definition dict_ok (st:mstate) (d:rdict) : Prop := forall q b, dict_get d q = Some b -> b = answer st q.
Lemma seq_eval_ok : forall batch st d, dict_ok st d ->
  let r := seq_eval n s weakly D st batch d in
  dict_ok st (snd r) /\ (forall kq, In kq batch -> dict_get (snd r) (snd kq) <> None) /\
  (forall q, dict_get d q <> None -> dict_get (snd r) q <> None) /\ cpart (fst r) = cpart st /\ pre_done (fst r) = pre_done st.
Proof. induction batch as [|[k q] batch IH]; intros st d Hd; cbn.
  - repeat split; auto; try (intros kq []).
  - assert (Hd': dict_ok (touch st q) (dict_set d q (answer st q))).
    { intros q' b H. rewrite dict_get_set in H. rewrite touch_answer. destruct (text_eqb q q') eqn:E; [|apply Hd; auto].
      inversion H; subst. apply text_same_answer; auto. }
    destruct (IH (touch st q) _ Hd') as [H1 [H2 [H3 [H4 H5]]]]. split; [|split; [|split; [|split]]].
    + intros q' b H. rewrite <- (touch_answer st q q'). apply H1; auto.
    + intros kq [<-|Hin]; [|apply H2; auto]. cbn. apply H3. rewrite dict_get_set, text_eqb_refl. discriminate.
    + intros q' Hq'. apply H3. rewrite dict_get_set. destruct (text_eqb q q'); [discriminate|auto].
    + exact H4.
    + exact H5. Qed.

(* rows: one per submitted query, in submission order, with the query's own key and text *)
Theorem rows_shape batch d : map (fun r => (fst (fst r), snd (fst r))) (table_of batch d) = batch.
Proof. unfold table_of. rewrite map_map. cbn. induction batch as [|[k q] b IH]; cbn; auto. f_equal. exact IH. Qed.

Theorem call_seq_correct st batch st' t : inv st -> call_seq n s weakly D st batch = Some (st', t) ->
  inv st' /\ pre_done st' = true /\ map (fun r => (fst (fst r), snd (fst r))) t = batch /\
  forall r, In r t -> Ans (snd r) = infer n s weakly D (snd (fst r)).
Proof. intros Hi H. unfold call_seq in H. destruct (preprocess st) as [st1|] eqn:Ep; [|discriminate].
  destruct (preprocess_inv _ _ Hi Ep) as [Hi1 Hp1].
  destruct (seq_eval n s weakly D st1 batch []) as [st2 d] eqn:Es. inversion H; subst st' t. clear H.
  assert (Hnil: dict_ok st1 []) by (intros q b Hx; discriminate).
  pose proof (seq_eval_ok batch st1 [] Hnil) as Hok.
  cbn zeta in Hok. rewrite Es in Hok. cbn [fst snd] in Hok. destruct Hok as [H1 [H2 [_ [H4 H5]]]].
  assert (Hi2: inv st2). { intros _. destruct (Hi1 Hp1) as [A [B C]]. rewrite H4. auto. }
  split; [exact Hi2|]. split; [rewrite H5; exact Hp1|]. split; [apply rows_shape|].
  intros r Hr. unfold table_of in Hr. apply in_map_iff in Hr as [[k q] [<- Hin]]. cbn [fst snd].
  destruct (dict_get d q) as [b|] eqn:Eg; [|exfalso; apply (H2 (k, q) Hin); exact Eg].
  rewrite (H1 q b Eg). apply answer_is_infer; auto. Qed.

(* parallel evaluation: for distinct keys the shared map does not depend on the completion order *)
Lemma sh_get_set m k k' b : sh_get (sh_set m k b) k' = if k =? k' then Some b else sh_get m k'.
Proof. induction m as [|[x v] m IH]; cbn.
  - reflexivity.
  - destruct (x =? k) eqn:E; cbn.
    + apply Nat.eqb_eq in E. subst. destruct (k =? k'); reflexivity.
    + rewrite IH. destruct (x =? k') eqn:E'; auto. apply Nat.eqb_eq in E'. subst. rewrite Nat.eqb_sym, E. reflexivity. Qed.
Lemma writes_get st : forall order m k, NoDup (map fst order) ->
  sh_get (fold_left (fun m kq => sh_set m (fst kq) (answer st (snd kq))) order m) k =
  match find (fun kq => fst kq =? k) order with Some kq => Some (answer st (snd kq)) | None => sh_get m k end.
Proof. induction order as [|[k0 q0] order IH]; intros m k Hnd; cbn [fold_left find]; auto.
  inversion Hnd as [|? ? Hn Hnd']; subst. rewrite IH by auto. cbn [fst snd].
  destruct (find (fun kq => fst kq =? k) order) as [kq|] eqn:Ef.
  - destruct (k0 =? k) eqn:E; auto. apply Nat.eqb_eq in E. subst. apply find_some in Ef as [Hin Hk]. apply Nat.eqb_eq in Hk.
    exfalso. apply Hn. rewrite <- Hk. apply in_map. exact Hin.
  - rewrite sh_get_set. destruct (k0 =? k); reflexivity. Qed.
Lemma find_perm_key (l l':list query) k : Permutation l l' -> NoDup (map fst l) ->
  find (fun kq => fst kq =? k) l = find (fun kq => fst kq =? k) l'.
Proof. intros Hp. induction Hp as [|x l l' Hp IH|x y l|l l' l'' Hp1 IH1 Hp2 IH2]; intros Hnd; cbn; auto.
  - inversion Hnd; subst. rewrite IH; auto.
  - inversion Hnd as [|? ? Hn Hnd']; subst. destruct (fst y =? k) eqn:Ey, (fst x =? k) eqn:Ex; auto.
    apply Nat.eqb_eq in Ey, Ex. exfalso. apply Hn. cbn. left. congruence.
  - rewrite IH1; auto. apply IH2. eapply Permutation_NoDup; [apply Permutation_map; exact Hp1|auto]. Qed.
Theorem schedule_independence st batch order : NoDup (map fst batch) -> Permutation batch order ->
  forall k, sh_get (writes n s weakly D st order) k = sh_get (writes n s weakly D st batch) k.
Proof. intros Hnd Hp k. unfold writes. rewrite !writes_get; auto.
  - rewrite (find_perm_key batch order k Hp Hnd). reflexivity.
  - eapply Permutation_NoDup; [apply Permutation_map; exact Hp|auto]. Qed.
Lemma fold_dict_ok st (val:query -> bool) : forall batch d, (forall kq, In kq batch -> val kq = answer st (snd kq)) -> dict_ok st d ->
  let r := fold_left (fun d kq => dict_set d (snd kq) (val kq)) batch d in
  dict_ok st r /\ (forall kq, In kq batch -> dict_get r (snd kq) <> None) /\ (forall q, dict_get d q <> None -> dict_get r q <> None).
Proof. induction batch as [|[k q] batch IH]; intros d Hv Hd; cbn.
  - split; [exact Hd|]. split; [intros kq []|auto].
  - assert (Hd': dict_ok st (dict_set d q (val (k, q)))).
    { intros q' b H. rewrite dict_get_set in H. destruct (text_eqb q q') eqn:E; [|apply Hd; auto].
      inversion H; subst. rewrite (Hv (k, q) (or_introl eq_refl)). apply text_same_answer; auto. }
    destruct (IH _ (fun kq Hin => Hv kq (or_intror Hin)) Hd') as [H1 [H2 H3]]. split; [exact H1|]. split.
    + intros kq [<-|Hin]; [|apply H2; auto]. cbn. apply H3. rewrite dict_get_set, text_eqb_refl. discriminate.
    + intros q' Hq'. apply H3. rewrite dict_get_set. destruct (text_eqb q q'); [discriminate|auto]. Qed.

Lemma find_key_in (l:list query) k q : NoDup (map fst l) -> In (k, q) l -> find (fun kq => fst kq =? k) l = Some (k, q).
Proof. induction l as [|[k0 q0] l IH]; intros Hnd Hin; [inversion Hin|]. inversion Hnd as [|? ? Hn Hnd']; subst. cbn.
  destruct Hin as [E|Hin].
  - inversion E; subst. rewrite Nat.eqb_refl. reflexivity.
  - destruct (k0 =? k) eqn:Ek; [|apply IH; auto]. apply Nat.eqb_eq in Ek. subst. exfalso. apply Hn. apply in_map_iff. exists (k, q). auto. Qed.

(* a parallel call, whatever the completion order of the workers: same shape, every answer the operator's answer,
   and the manager's own state is only changed by preprocessing *)
Theorem call_par_correct st batch order st' t : inv st -> NoDup (map fst batch) -> Permutation batch order ->
  call_par n s weakly D st batch order = Some (st', t) ->
  inv st' /\ pre_done st' = true /\ map (fun r => (fst (fst r), snd (fst r))) t = batch /\
  forall r, In r t -> Ans (snd r) = infer n s weakly D (snd (fst r)).
Proof. intros Hi Hnd Hp H. unfold call_par in H. destruct (preprocess st) as [st1|] eqn:Ep; [|discriminate].
  destruct (preprocess_inv _ _ Hi Ep) as [Hi1 Hp1]. inversion H; subst st' t. clear H.
  split; [exact Hi1|]. split; [exact Hp1|]. split; [apply rows_shape|].
  set (m := writes n s weakly D st1 order).
  assert (Hval: forall kq, In kq batch -> (match sh_get m (fst kq) with Some b => b | None => false end) = answer st1 (snd kq)).
  { intros [k q] Hin. cbn [fst snd]. unfold m. rewrite (schedule_independence st1 batch order Hnd Hp k). unfold writes. rewrite writes_get by auto.
    rewrite (find_key_in batch k q Hnd Hin). reflexivity. }
  assert (Hnil: dict_ok st1 []) by (intros q b Hx; discriminate).
  destruct (fold_dict_ok st1 (fun kq => match sh_get m (fst kq) with Some b => b | None => false end) batch [] Hval Hnil) as [H1 [H2 _]].
  intros r Hr. unfold table_of in Hr. apply in_map_iff in Hr as [[k q] [<- Hin]]. cbn [fst snd].
  unfold par_dict. fold m. destruct (dict_get _ q) as [b|] eqn:Eg; [|exfalso; apply (H2 (k, q) Hin); exact Eg].
  rewrite (H1 q b Eg). apply answer_is_infer; auto. Qed.

(* any history of sequential and parallel calls (each parallel call with an arbitrary completion order): every
   returned table has one row per query, in submission order, with the query's own key and text, and the answer
   the operator gives to that query alone on a fresh manager *)
Definition good_call (c:mcall) : Prop :=
  match c with CSeq _ => True | CPar b o => NoDup (map fst b) /\ Permutation b o end.
Definition batch_of (c:mcall) := match c with CSeq b => b | CPar b _ => b end.
Theorem history_independence : forall cs st, inv st -> Forall good_call cs ->
  Forall2 (fun c res => match res with
     | None => True
     | Some t => map (fun r => (fst (fst r), snd (fst r))) t = batch_of c /\
                 forall r, In r t -> Ans (snd r) = infer n s weakly D (snd (fst r)) end) cs (run_calls n s weakly D st cs).
Proof. induction cs as [|c cs IH]; intros st Hi Hg; cbn; [constructor|]. inversion Hg as [|? ? Hc Hg']; subst.
  destruct c as [b|b o].
  - destruct (call_seq n s weakly D st b) as [[st' t]|] eqn:E.
    + destruct (call_seq_correct st b st' t Hi E) as [Hi' [_ [Hs Ha]]]. constructor; [cbn; auto|apply IH; auto].
    + constructor; [exact I|apply IH; auto].
  - destruct Hc as [Hnd Hp]. destruct (call_par n s weakly D st b o) as [[st' t]|] eqn:E.
    + destruct (call_par_correct st b o st' t Hi Hnd Hp E) as [Hi' [_ [Hs Ha]]]. constructor; [cbn; auto|apply IH; auto].
    + constructor; [exact I|apply IH; auto]. Qed.
End T.
