From InfOCF Require Import Core Tol Form.
(* C10: precedence-climbing parser (shape of ANTLR's generated formula(_p)) vs the documented stratified grammar *)
Inductive tok := TId (a:form) | TLP | TRP | TNot | TAnd | TOr | TOther.

(* ---- specification: negation > ',' > ';', both left associative, parentheses ---- *)
Inductive Gneg : list tok -> form -> Prop :=
 | Gid a : Gneg [TId a] a
 | Gnot ts f : Gneg ts f -> Gneg (TNot :: ts) (FNot f)
 | Gpar ts f : Gdisj ts f -> Gneg (TLP :: ts ++ [TRP]) f
with Gconj : list tok -> form -> Prop :=
 | Gconj1 ts f : Gneg ts f -> Gconj ts f
 | GconjS ts1 f ts2 g : Gconj ts1 f -> Gneg ts2 g -> Gconj (ts1 ++ TAnd :: ts2) (FAnd f g)
with Gdisj : list tok -> form -> Prop :=
 | Gdisj1 ts f : Gconj ts f -> Gdisj ts f
 | GdisjS ts1 f ts2 g : Gdisj ts1 f -> Gconj ts2 g -> Gdisj (ts1 ++ TOr :: ts2) (FOr f g).
Scheme Gneg_ind' := Induction for Gneg Sort Prop
  with Gconj_ind' := Induction for Gconj Sort Prop
  with Gdisj_ind' := Induction for Gdisj Sort Prop.
Combined Scheme G_mutind from Gneg_ind', Gconj_ind', Gdisj_ind'.

(* ---- model: formula(_p) with precedence predicates 4 >= _p for ',' (right operand formula(5)),
        3 >= _p for ';' (right operand formula(4)); '!' formula(5); '(' formula(0) ')' ---- *)
Fixpoint pf (n:nat) (p:nat) (ts:list tok) : option (form * list tok) :=
  match n with 0 => None | S n' =>
    match prim n' ts with None => None | Some (l, rest) => ploop n' p l rest end end
with prim (n:nat) (ts:list tok) : option (form * list tok) :=
  match n with 0 => None | S n' =>
    match ts with
    | TNot :: ts' => match pf n' 5 ts' with Some (f, r) => Some (FNot f, r) | None => None end
    | TLP :: ts' => match pf n' 0 ts' with Some (f, TRP :: r) => Some (f, r) | _ => None end
    | TId a :: r => Some (a, r)
    | _ => None end end
with ploop (n:nat) (p:nat) (l:form) (ts:list tok) : option (form * list tok) :=
  match n with 0 => None | S n' =>
    match ts with
    | TAnd :: ts' => if p <=? 4 then
         match pf n' 5 ts' with Some (r, rest) => ploop n' p (FAnd l r) rest | None => None end
       else Some (l, ts)
    | TOr :: ts' => if p <=? 3 then
         match pf n' 4 ts' with Some (r, rest) => ploop n' p (FOr l r) rest | None => None end
       else Some (l, ts)
    | _ => Some (l, ts) end end.
Definition parse_formula (ts:list tok) : option form :=
  match pf (3 * length ts + 3) 0 ts with Some (f, []) => Some f | _ => None end.

(* ---- fuel-free big-step presentation of the model ---- *)
Inductive PF : nat -> list tok -> form -> list tok -> Prop :=
 | PF_ p ts l r f rest : PRIM ts l r -> LOOP p l r f rest -> PF p ts f rest
with PRIM : list tok -> form -> list tok -> Prop :=
 | PRnot ts f r : PF 5 ts f r -> PRIM (TNot :: ts) (FNot f) r
 | PRpar ts f r : PF 0 ts f (TRP :: r) -> PRIM (TLP :: ts) f r
 | PRid a r : PRIM (TId a :: r) a r
with LOOP : nat -> form -> list tok -> form -> list tok -> Prop :=
 | LPand p l ts r rest f rest' : p <= 4 -> PF 5 ts r rest -> LOOP p (FAnd l r) rest f rest' -> LOOP p l (TAnd :: ts) f rest'
 | LPor p l ts r rest f rest' : p <= 3 -> PF 4 ts r rest -> LOOP p (FOr l r) rest f rest' -> LOOP p l (TOr :: ts) f rest'
 | LPexit p l ts : (match ts with TAnd :: _ => 4 < p | TOr :: _ => 3 < p | _ => True end) -> LOOP p l ts l ts.
Scheme PF_ind' := Induction for PF Sort Prop
  with PRIM_ind' := Induction for PRIM Sort Prop
  with LOOP_ind' := Induction for LOOP Sort Prop.
Combined Scheme P_mutind from PF_ind', PRIM_ind', LOOP_ind'.

(* function -> big-step *)
Lemma fun_bigstep : forall n,
  (forall p ts f rest, pf n p ts = Some (f, rest) -> PF p ts f rest) /\
  (forall ts f rest, prim n ts = Some (f, rest) -> PRIM ts f rest) /\
  (forall p l ts f rest, ploop n p l ts = Some (f, rest) -> LOOP p l ts f rest).
Proof. induction n as [|n [IH1 [IH2 IH3]]]; [repeat split; intros; discriminate|]. repeat split.
  - intros p ts f rest H. simpl in H. destruct (prim n ts) as [[l r]|] eqn:E; [|discriminate]. econstructor; eauto.
  - intros ts f rest H. simpl in H. destruct ts as [|[a| | | | | |] ts']; try discriminate.
    + inversion H; subst. constructor.
    + destruct (pf n 0 ts') as [[g [|[]r]]|] eqn:E; try discriminate. inversion H; subst. constructor. auto.
    + destruct (pf n 5 ts') as [[g r]|] eqn:E; [|discriminate]. inversion H; subst. constructor. auto.
  - intros p l ts f rest H. simpl in H. destruct ts as [|[a| | | | | |] ts'];
      try (inversion H; subst; constructor; exact I).
    + destruct (p <=? 4) eqn:Ep.
      * apply Nat.leb_le in Ep. destruct (pf n 5 ts') as [[r rest0]|] eqn:E; [|discriminate]. eapply LPand; eauto.
      * apply Nat.leb_gt in Ep. inversion H; subst. constructor. exact Ep.
    + destruct (p <=? 3) eqn:Ep.
      * apply Nat.leb_le in Ep. destruct (pf n 4 ts') as [[r rest0]|] eqn:E; [|discriminate]. eapply LPor; eauto.
      * apply Nat.leb_gt in Ep. inversion H; subst. constructor. exact Ep.
Qed.

(* fuel monotonicity and big-step -> function *)
Lemma fuel_mono : forall n,
  (forall p ts r, pf n p ts = Some r -> forall m, n <= m -> pf m p ts = Some r) /\
  (forall ts r, prim n ts = Some r -> forall m, n <= m -> prim m ts = Some r) /\
  (forall p l ts r, ploop n p l ts = Some r -> forall m, n <= m -> ploop m p l ts = Some r).
Proof. induction n as [|n [IH1 [IH2 IH3]]]; [repeat split; intros; discriminate|]. repeat split.
  - intros p ts r H m Hm. destruct m as [|m]; [lia|]. simpl in *. destruct (prim n ts) as [[l rest]|] eqn:E; [|discriminate].
    rewrite (IH2 _ _ E m) by lia. apply IH3; auto; lia.
  - intros ts r H m Hm. destruct m as [|m]; [lia|]. simpl in *. destruct ts as [|[a| | | | | |] ts']; auto; try discriminate.
    + destruct (pf n 0 ts') as [[g rr]|] eqn:E; [|discriminate]. rewrite (IH1 _ _ _ E m) by lia. auto.
    + destruct (pf n 5 ts') as [[g rr]|] eqn:E; [|discriminate]. rewrite (IH1 _ _ _ E m) by lia. auto.
  - intros p l ts r H m Hm. destruct m as [|m]; [lia|]. simpl in *. destruct ts as [|[a| | | | | |] ts']; auto.
    + destruct (p <=? 4); auto. destruct (pf n 5 ts') as [[g rr]|] eqn:E; [|discriminate]. rewrite (IH1 _ _ _ E m) by lia. apply IH3; auto; lia.
    + destruct (p <=? 3); auto. destruct (pf n 4 ts') as [[g rr]|] eqn:E; [|discriminate]. rewrite (IH1 _ _ _ E m) by lia. apply IH3; auto; lia.
Qed.
Lemma bigstep_fun :
  (forall p ts f rest, PF p ts f rest -> exists n, pf n p ts = Some (f, rest)) /\
  (forall ts f rest, PRIM ts f rest -> exists n, prim n ts = Some (f, rest)) /\
  (forall p l ts f rest, LOOP p l ts f rest -> exists n, ploop n p l ts = Some (f, rest)).
Proof. apply P_mutind.
  - intros p ts l r f rest _ [n1 H1] _ [n2 H2]. exists (S (max n1 n2)). simpl.
    rewrite (proj1 (proj2 (fuel_mono n1)) _ _ H1) by lia. apply (proj2 (proj2 (fuel_mono n2))); auto; lia.
  - intros ts f r _ [n H]. exists (S n). simpl. rewrite H. reflexivity.
  - intros ts f r _ [n H]. exists (S n). simpl. rewrite H. reflexivity.
  - intros a r. exists 1. reflexivity.
  - intros p l ts r rest f rest' Hp _ [n1 H1] _ [n2 H2]. exists (S (max n1 n2)). simpl.
    apply Nat.leb_le in Hp. rewrite Hp. rewrite (proj1 (fuel_mono n1) _ _ _ H1) by lia. apply (proj2 (proj2 (fuel_mono n2))); auto; lia.
  - intros p l ts r rest f rest' Hp _ [n1 H1] _ [n2 H2]. exists (S (max n1 n2)). simpl.
    apply Nat.leb_le in Hp. rewrite Hp. rewrite (proj1 (fuel_mono n1) _ _ _ H1) by lia. apply (proj2 (proj2 (fuel_mono n2))); auto; lia.
  - intros p l ts H. exists 1. simpl. destruct ts as [|[a| | | | | |] ts']; auto.
    + apply Nat.leb_gt in H. rewrite H. reflexivity.
    + apply Nat.leb_gt in H. rewrite H. reflexivity.
Qed.

(* ---------------- big-step <-> grammar ---------------- *)
Definition hd_not (t:tok) (ts:list tok) : Prop := match ts with x :: _ => x <> t | [] => True end.
Lemma loop_exit5 l ts : LOOP 5 l ts l ts.
Proof. constructor. destruct ts as [|[a| | | | | |] ?]; auto; lia. Qed.
Lemma loop_exit4 l ts : hd_not TAnd ts -> LOOP 4 l ts l ts.
Proof. intros H. constructor. destruct ts as [|[a| | | | | |] ?]; auto; simpl in H; try congruence; lia. Qed.
Lemma loop_exit0 p l ts : hd_not TAnd ts -> hd_not TOr ts -> LOOP p l ts l ts.
Proof. intros H1 H2. constructor. destruct ts as [|[a| | | | | |] ?]; auto; simpl in *; congruence. Qed.

(* completeness, in continuation-passing form *)
Lemma complete_cps :
  (forall pre f, Gneg pre f -> forall rest, PRIM (pre ++ rest) f rest) /\
  (forall pre f, Gconj pre f -> forall p rest f' rest', p <= 4 -> LOOP p f rest f' rest' -> PF p (pre ++ rest) f' rest') /\
  (forall pre f, Gdisj pre f -> forall p rest f' rest', p <= 3 -> hd_not TAnd rest -> LOOP p f rest f' rest' -> PF p (pre ++ rest) f' rest').
Proof. apply G_mutind.
  - intros a rest. simpl. constructor.
  - intros ts f _ IH rest. simpl. constructor. econstructor; [apply IH|apply loop_exit5].
  - intros ts f _ IH rest. simpl. rewrite <- app_assoc. simpl. constructor.
    apply IH; [lia|simpl; congruence|]. apply loop_exit0; simpl; congruence.
  - intros ts f _ IH p rest f' rest' Hp HL. econstructor; [apply IH|exact HL].
  - intros ts1 f ts2 g _ IH1 _ IH2 p rest f' rest' Hp HL. rewrite <- app_assoc. simpl. apply IH1; auto.
    eapply LPand; [exact Hp| |exact HL]. econstructor; [apply IH2|apply loop_exit5].
  - intros ts f _ IH p rest f' rest' Hp _ HL. apply IH; auto; lia.
  - intros ts1 f ts2 g _ IH1 _ IH2 p rest f' rest' Hp Hh HL. rewrite <- app_assoc. simpl. apply IH1; auto; [simpl; congruence|].
    eapply LPor; [exact Hp| |exact HL]. apply IH2; [lia|]. apply loop_exit4; auto.
Qed.

(* soundness *)
Definition Glev (p:nat) (pre:list tok) (f:form) : Prop :=
  if 5 <=? p then Gneg pre f else if 4 <=? p then Gconj pre f else Gdisj pre f.
Definition stop (p:nat) (rest:list tok) : Prop := (p <= 4 -> hd_not TAnd rest) /\ (p <= 3 -> hd_not TOr rest).
Definition Inv (p:nat) (pre0:list tok) (l:form) (ts:list tok) : Prop :=
  if 5 <=? p then Gneg pre0 l else if 4 <=? p then Gconj pre0 l else (Gconj pre0 l \/ (Gdisj pre0 l /\ hd_not TAnd ts)).

Lemma sound_all :
  (forall p ts f rest, PF p ts f rest -> exists pre, ts = pre ++ rest /\ Glev p pre f /\ stop p rest) /\
  (forall ts f rest, PRIM ts f rest -> exists pre, ts = pre ++ rest /\ Gneg pre f) /\
  (forall p l ts f rest, LOOP p l ts f rest -> forall pre0, Inv p pre0 l ts ->
      exists pre, ts = pre ++ rest /\ Glev p (pre0 ++ pre) f /\ stop p rest).
Proof. apply P_mutind.
  - (* PF_ *) intros p ts l r f rest _ [pre0 [-> Hn]] _ IHL.
    destruct (IHL pre0) as [pre [-> [HG Hs]]].
    { unfold Inv. destruct (5 <=? p); auto. destruct (4 <=? p); [constructor; auto|left; constructor; auto]. }
    exists (pre0 ++ pre). rewrite app_assoc. auto.
  - (* PRnot *) intros ts f r _ [pre [-> [HG _]]]. exists (TNot :: pre). split; auto. constructor. exact HG.
  - (* PRpar *) intros ts f r _ [pre [-> [HG _]]]. exists (TLP :: pre ++ [TRP]). split; [simpl; rewrite <- app_assoc; reflexivity|].
    constructor. exact HG.
  - (* PRid *) intros a r. exists [TId a]. split; auto. constructor.
  - (* LPand *) intros p l ts r rest f rest' Hp _ [pre1 [-> [HG1 _]]] _ IHL pre0 HI.
    unfold Glev in HG1. simpl in HG1. destruct (IHL (pre0 ++ TAnd :: pre1)) as [pre [-> [HG Hs]]].
    { unfold Inv in *. destruct (5 <=? p) eqn:E5; [apply Nat.leb_le in E5; lia|].
      destruct (4 <=? p) eqn:E4.
      + apply GconjS; [exact HI|exact HG1].
      + left. destruct HI as [HI|[_ HI]]; [apply GconjS; [exact HI|exact HG1]|simpl in HI; congruence]. }
    exists (TAnd :: pre1 ++ pre). split; [simpl; rewrite <- app_assoc; reflexivity|]. split; auto.
    rewrite <- app_assoc in HG. simpl in HG. exact HG.
  - (* LPor *) intros p l ts r rest f rest' Hp _ [pre1 [-> [HG1 Hs1]]] _ IHL pre0 HI.
    unfold Glev in HG1. simpl in HG1. destruct (IHL (pre0 ++ TOr :: pre1)) as [pre [-> [HG Hs]]].
    { unfold Inv in *. destruct (5 <=? p) eqn:E5; [apply Nat.leb_le in E5; lia|].
      destruct (4 <=? p) eqn:E4; [apply Nat.leb_le in E4; lia|].
      right. split; [|apply (proj1 Hs1); lia]. apply GdisjS; [|exact HG1]. destruct HI as [HI|[HI _]]; [apply Gdisj1; exact HI|exact HI]. }
    exists (TOr :: pre1 ++ pre). split; [simpl; rewrite <- app_assoc; reflexivity|]. split; auto.
    rewrite <- app_assoc in HG. simpl in HG. exact HG.
  - (* LPexit *) intros p l ts Hex pre0 HI. exists []. split; auto. rewrite app_nil_r. split.
    + unfold Inv, Glev in *. destruct (5 <=? p); auto. destruct (4 <=? p); auto. destruct HI as [HI|[HI _]]; [constructor|]; auto.
    + unfold stop. split; intros Hp; destruct ts as [|[a| | | | | |] ?]; simpl; try congruence; lia.
Qed.

(* ---------------- the property-level statements ---------------- *)
Theorem parse_sound ts f : parse_formula ts = Some f -> Gdisj ts f.
Proof. unfold parse_formula. destruct (pf _ 0 ts) as [[g [|? ?]]|] eqn:E; try discriminate. intros H; inversion H; subst.
  apply (proj1 (fun_bigstep _)) in E. apply (proj1 sound_all) in E as [pre [-> [HG _]]]. rewrite app_nil_r. exact HG. Qed.

Theorem parse_complete_fuel ts f : Gdisj ts f -> exists n, pf n 0 ts = Some (f, []).
Proof. intros H. apply (proj1 bigstep_fun). rewrite <- (app_nil_r ts).
  apply (proj2 (proj2 complete_cps) ts f H); [lia|exact I|]. apply loop_exit0; exact I. Qed.

(* determinism of the grammar (unambiguity) comes for free *)
Corollary grammar_deterministic ts f g : Gdisj ts f -> Gdisj ts g -> f = g.
Proof. intros Hf Hg. destruct (parse_complete_fuel ts f Hf) as [n1 H1]. destruct (parse_complete_fuel ts g Hg) as [n2 H2].
  pose proof (proj1 (fuel_mono n1) _ _ _ H1 (max n1 n2) (Nat.le_max_l _ _)).
  pose proof (proj1 (fuel_mono n2) _ _ _ H2 (max n1 n2) (Nat.le_max_r _ _)). congruence. Qed.
Print Assumptions parse_sound. Print Assumptions parse_complete_fuel. Print Assumptions grammar_deterministic.

(* explicit fuel bound: twice the number of consumed tokens is enough, so parse_formula's fuel suffices *)
Lemma pf_S n p ts : pf (S n) p ts = match prim n ts with None => None | Some (l, rest) => ploop n p l rest end.
Proof. reflexivity. Qed.
Lemma prim_S n ts : prim (S n) ts = match ts with
    | TNot :: ts' => match pf n 5 ts' with Some (f, r) => Some (FNot f, r) | None => None end
    | TLP :: ts' => match pf n 0 ts' with Some (f, TRP :: r) => Some (f, r) | _ => None end
    | TId a :: r => Some (a, r)
    | _ => None end.
Proof. reflexivity. Qed.
Lemma ploop_S n p l ts : ploop (S n) p l ts = match ts with
    | TAnd :: ts' => if p <=? 4 then match pf n 5 ts' with Some (r, rest) => ploop n p (FAnd l r) rest | None => None end else Some (l, ts)
    | TOr :: ts' => if p <=? 3 then match pf n 4 ts' with Some (r, rest) => ploop n p (FOr l r) rest | None => None end else Some (l, ts)
    | _ => Some (l, ts) end.
Proof. reflexivity. Qed.

Lemma bigstep_fun_bound :
  (forall p ts f rest, PF p ts f rest -> exists c, length ts = c + length rest /\ 1 <= c /\ pf (2*c) p ts = Some (f, rest)) /\
  (forall ts f rest, PRIM ts f rest -> exists c, length ts = c + length rest /\ 1 <= c /\ prim (2*c-1) ts = Some (f, rest)) /\
  (forall p l ts f rest, LOOP p l ts f rest -> exists c, length ts = c + length rest /\ ploop (2*c+1) p l ts = Some (f, rest)).
Proof. apply P_mutind.
  - intros p ts l r f rest _ [c1 [L1 [G1 H1]]] _ [c2 [L2 H2]]. exists (c1+c2). split; [lia|]. split; [lia|].
    replace (2*(c1+c2)) with (S (2*c1+2*c2-1)) by lia. rewrite pf_S.
    rewrite (proj1 (proj2 (fuel_mono _)) _ _ H1 (2*c1+2*c2-1)) by lia. apply (proj2 (proj2 (fuel_mono _)) _ _ _ _ H2). lia.
  - intros ts f r _ [c [L [G H]]]. exists (S c). split; [simpl; lia|]. split; [lia|].
    replace (2 * S c - 1) with (S (2*c)) by lia. rewrite prim_S, H. reflexivity.
  - intros ts f r _ [c [L [G H]]]. exists (S (S c)). split; [simpl in *; lia|]. split; [lia|].
    replace (2 * S (S c) - 1) with (S (2*c+2)) by lia. rewrite prim_S.
    rewrite (proj1 (fuel_mono _) _ _ _ H (2*c+2)) by lia. reflexivity.
  - intros a r. exists 1. simpl. repeat split; lia.
  - intros p l ts r rest f rest' Hp _ [c1 [L1 [G1 H1]]] _ [c2 [L2 H2]]. exists (S (c1+c2)). split; [simpl; lia|].
    replace (2 * S (c1+c2) + 1) with (S (2*c1+2*c2+2)) by lia. rewrite ploop_S. apply Nat.leb_le in Hp. rewrite Hp.
    rewrite (proj1 (fuel_mono _) _ _ _ H1 (2*c1+2*c2+2)) by lia. apply (proj2 (proj2 (fuel_mono _)) _ _ _ _ H2). lia.
  - intros p l ts r rest f rest' Hp _ [c1 [L1 [G1 H1]]] _ [c2 [L2 H2]]. exists (S (c1+c2)). split; [simpl; lia|].
    replace (2 * S (c1+c2) + 1) with (S (2*c1+2*c2+2)) by lia. rewrite ploop_S. apply Nat.leb_le in Hp. rewrite Hp.
    rewrite (proj1 (fuel_mono _) _ _ _ H1 (2*c1+2*c2+2)) by lia. apply (proj2 (proj2 (fuel_mono _)) _ _ _ _ H2). lia.
  - intros p l ts H. exists 0. split; [lia|]. change (2*0+1) with 1. rewrite ploop_S. destruct ts as [|[a| | | | | |] ts']; auto.
    + apply Nat.leb_gt in H. rewrite H. reflexivity.
    + apply Nat.leb_gt in H. rewrite H. reflexivity.
Qed.

Theorem parse_complete ts f : Gdisj ts f -> parse_formula ts = Some f.
Proof. intros H. unfold parse_formula.
  assert (HP: PF 0 (ts ++ []) f []).
  { apply (proj2 (proj2 complete_cps) ts f H); [lia|exact I|]. apply loop_exit0; exact I. }
  rewrite app_nil_r in HP. destruct (proj1 bigstep_fun_bound _ _ _ _ HP) as [c [L [G E]]]. simpl in L.
  rewrite (proj1 (fuel_mono _) _ _ _ E (3 * length ts + 3)) by lia. reflexivity. Qed.
Theorem parse_iff ts f : parse_formula ts = Some f <-> Gdisj ts f.
Proof. split; [apply parse_sound|apply parse_complete]. Qed.
Print Assumptions parse_iff.
