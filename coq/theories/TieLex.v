From InfOCF Require Import Core Tol Lex Form Model PyLib TieLib TieSet TieSolver TieMax.
From InfOCFGen Require Import SrcCond SrcLex.
From Coq Require Import ZArith.
(* TIE: the functions GENERATED from inference/lex_inf.py (gen/SrcLex.v) equal the hand-written model of
   lexicographic inference (Model.lex_strict / lex_ext = Lex.lex_rec), for every signature size, base, layering, query
   and mode.  CNFs and the partial-MaxSAT enumeration enter through their contracts (PyLib: scnf, mcs; property C15). *)

Section TieLex.
Variable n : nat.
Notation W := (worlds n).
Variable q : cond.
Variable D : list cond.
Hypothesis Hnd : NoDup (map kz D).
Variable lay : cond -> nat.
Variable m : nat.
Hypothesis Hlay : forall c, In c D -> lay c < m.
Variables nf fd : dict Z scnf.
Variables vq fq : scnf.
Hypothesis Hnfk : dict_keys nf = map kz D.
Hypothesis Hnf : forall c, In c D -> exists cn, zdict_find nf (kz c) = Some cn /\ forall w, scnf_holds cn w = negb (fal c w).
Hypothesis Hfd : forall c, In c D -> exists cn, zdict_find fd (kz c) = Some cn /\ forall w, scnf_holds cn w = fal c w.
Notation layer_c := (layer_c D lay).
Notation Pc := (Pc D lay m).
Notation Pk := (Pk D lay m).
Notation P := (acP Pc).
Notation ignore_of := (ignore_of D lay m).
Local Notation layer_c_sub := (layer_c_sub D lay).
Local Notation part_nodup := (part_nodup D Hnd lay).
Local Notation mcs_is_minimal_family := (mcs_is_minimal_family n D Hnd lay m Hlay nf Hnfk Hnf).
Local Notation get_nf := (get_nf D nf Hnf).
Local Notation get_fd := (get_fd D fd Hfd).
Local Notation soft_after := (soft_after nf).
Local Notation Pc_length := (Pc_length D lay m).
Local Notation Pc_nth := (Pc_nth D lay m).
Local Notation Pk_nth := (Pk_nth D lay m).
Local Notation hard_member := (hard_member D nf fd Hnf Hfd).

(* at the bottom layer a tie of the least cardinalities is lost *)
Lemma bottom_tie_lex Hv Hf F fv ff nf0 : ff = fam world W Hf F (fal q) -> minl (map cnt ff) = Some nf0 ->
  existsb (fun xv => (cnt xv =? nf0) &&
     forallb (fun xf => negb (cnt xf =? nf0) || lex_rec world W (ver q) (fal q) [] (fixp world Hv F xv) (fixp world Hf F xf)) ff) fv = false.
Proof. intros Eff Em. destruct (existsb _ fv) eqn:E; [|reflexivity]. exfalso.
  apply existsb_exists in E as [xv [_ Hx]]. apply andb_true_iff in Hx as [_ Hall].
  apply minl_in in Em. apply in_map_iff in Em as [xf [Ec Hxf]].
  eapply forallb_forall in Hall; [|exact Hxf]. rewrite Ec, Nat.eqb_refl in Hall. cbn [negb orb] in Hall.
  rewrite Eff in Hxf. apply fam_in in Hxf as [w [Hw [H1 [H2 E]]]].
  cbn [lex_rec] in Hall.
  assert (Hin: In w (sel world W (fixp world Hf F xf) (fal q))).
  { apply sel_in. split; [exact Hw|]. split; [|exact H2]. unfold fixp. rewrite H1, E, beq_refl. reflexivity. }
  destruct (sel world W (fixp world Hv F xv) (ver q)); [discriminate|].
  destruct (sel world W (fixp world Hf F xf) (fal q)); [inversion Hin|discriminate]. Qed.

Lemma rec_tie_lex : forall k fuel hv hf (Hv Hf:pred world), k < m -> k < fuel ->
  (forall w, scnf_holds (w_hard hv) w = Hv w && ver q w) ->
  (forall w, scnf_holds (w_hard hf) w = Hf w && fal q w) ->
  py_LexInf_rec_inference n fuel Pk nf fd vq fq hv hf (Z.of_nat k) tt
  = Return (lex_rec world W (ver q) (fal q) (rev (map layer_of (firstn (S k) P))) Hv Hf).
Proof.
  induction k as [k IH] using lt_wf_ind; intros fuel hv hf Hv Hf Hk Hfu Hhv Hhf; (destruct fuel as [|fuel]; [lia|]);
  cbn [py_LexInf_rec_inference].
  rewrite (py_index_nat Pk k []) by (unfold TieMax.Pk; rewrite map_length, Pc_length; exact Hk). cbn [cbind].
  rewrite Pk_nth by exact Hk. cbv zeta.
  set (L := layer_c k). set (part := map kz L). set (F := layer_of (map ac L)).
  assert (HLD: forall c, In c L -> In c D) by (intros c; apply layer_c_sub).
  assert (Hpn: NoDup part) by apply part_nodup.
  assert (Ef: rev (map layer_of (firstn (S k) P)) = F :: rev (map layer_of (firstn k P))).
  { unfold acP. rewrite (firstn_S_nth k _ []) by (rewrite map_length, Pc_length; exact Hk).
    rewrite map_app, rev_app_distr. cbn [map rev app]. f_equal. unfold F, L.
    change (@nil (acond world)) with (map ac []). rewrite map_nth, Pc_nth by exact Hk. reflexivity. }
  rewrite Ef. set (rest := rev (map layer_of (firstn k P))).
  (* soft clauses on both sides *)
  rewrite (for_each_steps part _ (fun k' '(a, b) => (fold_left (fun x c => w_append_soft x c) (getd nf k') a,
                                                      fold_left (fun x c => w_append_soft x c) (getd nf k') b))).
  2:{ intros a [s1 s2] Ha. apply in_map_iff in Ha as [c [<- Hc]]. rewrite get_nf by (apply HLD; exact Hc). reflexivity. }
  cbn [cbind]. cbv beta.
  rewrite (fold_pair (fun k' a => fold_left (fun x c => w_append_soft x c) (getd nf k') a)
                     (fun k' b => fold_left (fun x c => w_append_soft x c) (getd nf k') b)).
  cbv iota beta. set (wv := fold_left _ part hv). set (wf := fold_left _ part hf).
  assert (Hwv: w_hard wv = w_hard hv) by apply soft_after.
  assert (Hwf: w_hard wf = w_hard hf) by apply soft_after.
  change (flat_map (fun v_sublist : list Z => map (fun v_item : Z => v_item) v_sublist) (filter (fun v_sublist : list Z => negb (zlist_eqb v_sublist part)) Pk)) with (ignore_of k).
  rewrite (mcs_is_minimal_family k wv Hv (ver q) Hk) by (intros w; rewrite Hwv; apply Hhv).
  rewrite (mcs_is_minimal_family k wf Hf (fal q) Hk) by (intros w; rewrite Hwf; apply Hhf).
  fold L. fold part. fold F.
  set (fv := fam world W Hv F (ver q)). set (ff := fam world W Hf F (fal q)).
  set (Xi := minimal fv). set (Xi' := minimal ff).
  cbn [lex_rec]. fold fv. fold ff.
  assert (HlenF: forall w, length (F w) = length part) by (intros w; unfold F, part; rewrite layer_of_len, !map_length; reflexivity).
  assert (Hlx: forall x, In x Xi -> length x = length part) by (intros x Hx; eapply (fam_len n); eauto).
  assert (Hlx': forall x, In x Xi' -> length x = length part) by (intros x Hx; eapply (fam_len n); eauto).
  assert (Elen: forall X, (forall x, In x X -> length x = length part) ->
            map (fun v_xi => py_len v_xi) (map (keys_of_bv part) X) = map Z.of_nat (map cnt X)).
  { intros X HX. rewrite !map_map. apply map_ext_in. intros x Hx. apply kob_len. apply HX. exact Hx. }
  assert (Efil: forall X t, (forall x, In x X -> length x = length part) ->
            map (fun v_xi => v_xi) (filter (fun v_xi => (py_len v_xi =? Z.of_nat t)%Z) (map (keys_of_bv part) X))
            = map (keys_of_bv part) (filter (fun x => cnt x =? t) X)).
  { intros X t HX. rewrite map_id, filter_map. f_equal. apply filter_ext_in. intros x Hx.
    rewrite kob_len by (apply HX; exact Hx). destruct (cnt x =? t) eqn:E.
    - apply Nat.eqb_eq in E. subst. apply Z.eqb_refl.
    - apply Nat.eqb_neq in E. apply Z.eqb_neq. lia. }
  (* verification side empty? *)
  destruct (minl (map cnt fv)) as [nv|] eqn:Env.
  2:{ apply minl_none in Env. apply map_eq_nil in Env. unfold Xi. rewrite Env. reflexivity. }
  assert (HXi: Xi <> []) by (unfold Xi; rewrite minimal_nil_iff; intros E; rewrite E in Env; discriminate).
  replace (is_nil (map (keys_of_bv part) Xi)) with false by (destruct Xi; [congruence|reflexivity]). cbn [negb cbind].
  destruct (minl (map cnt ff)) as [nf0|] eqn:Enf.
  2:{ apply minl_none in Enf. apply map_eq_nil in Enf. unfold Xi'. rewrite Enf. reflexivity. }
  assert (HXi': Xi' <> []) by (unfold Xi'; rewrite minimal_nil_iff; intros E; rewrite E in Enf; discriminate).
  replace (is_nil (map (keys_of_bv part) Xi')) with false by (destruct Xi'; [congruence|reflexivity]). cbn [negb cbind].
  rewrite !Elen by assumption.
  rewrite (py_min_minl (map cnt Xi) nv) by (unfold Xi; rewrite minl_minimal; exact Env). cbn [cbind].
  rewrite (py_min_minl (map cnt Xi') nf0) by (unfold Xi'; rewrite minl_minimal; exact Enf). cbn [cbind].
  rewrite !of_nat_ltb.
  destruct (nv <? nf0) eqn:E1; cbn [cbind]; [reflexivity|].
  destruct (nf0 <? nv) eqn:E2; cbn [cbind]; [reflexivity|].
  apply Nat.ltb_ge in E1, E2. assert (nf0 = nv) by lia. subst nf0.
  destruct k as [|k'].
  - (* bottom layer *)
    cbn [Z.of_nat Z.eqb cbind]. unfold rest. cbn [firstn map rev]. f_equal. symmetry.
    apply (bottom_tie_lex Hv Hf F fv ff nv eq_refl Enf).
  - replace (Z.of_nat (S k') =? 0)%Z with false by (symmetry; apply Z.eqb_neq; lia). cbn [cbind].
    rewrite !Efil by assumption.
    set (ok := fun xv xf => lex_rec world W (ver q) (fal q) rest (fixp world Hv F xv) (fixp world Hf F xf)).
    rewrite (for_each_any_map (keys_of_bv part) (filter (fun x => cnt x =? nv) Xi) _
              (fun xv => forallb (ok xv) (filter (fun x => cnt x =? nv) Xi')) true).
    2:{ intros xv Hxv. apply filter_In in Hxv as [HxvXi _].
        assert (Hxvl: length xv = length L) by (rewrite (Hlx xv HxvXi); unfold part; apply map_length).
        rewrite (for_each_break_map (keys_of_bv part) (filter (fun x => cnt x =? nv) Xi') _ (ok xv)).
        2:{ intros xf Hxf. apply filter_In in Hxf as [HxfXi' _].
            assert (Hxfl: length xf = length L) by (rewrite (Hlx' xf HxfXi'); unfold part; apply map_length).
            rewrite (for_each_steps part _ (fun k0 '(a, b) =>
                       (fold_left (fun x c => w_append x c) (getd (if zmem k0 (keys_of_bv part xv) then fd else nf) k0) a,
                        fold_left (fun x c => w_append x c) (getd (if zmem k0 (keys_of_bv part xf) then fd else nf) k0) b))).
            2:{ intros a [s1 s2] Ha. apply in_map_iff in Ha as [c [<- Hc]]. pose proof (HLD c Hc) as HcD.
                destruct (zmem (kz c) (keys_of_bv part xv)), (zmem (kz c) (keys_of_bv part xf));
                rewrite ?(get_fd c HcD), ?(get_nf c HcD); cbn [cbind]; rewrite ?(get_fd c HcD), ?(get_nf c HcD); reflexivity. }
            cbn [cbind]. cbv beta.
            rewrite (fold_pair (fun k0 a => fold_left (fun x c => w_append x c) (getd (if zmem k0 (keys_of_bv part xv) then fd else nf) k0) a)
                               (fun k0 b => fold_left (fun x c => w_append x c) (getd (if zmem k0 (keys_of_bv part xf) then fd else nf) k0) b)).
            cbv iota beta.
            replace (Z.of_nat (S k') - 1)%Z with (Z.of_nat k') by lia.
            rewrite (IH k' (Nat.lt_succ_diag_r k') fuel _ _ (fixp world Hv F xv) (fixp world Hf F xf)); try lia.
            2:{ intros w. unfold part at 1. rewrite (hard_member _ L wv w HLD), Hwv, Hhv. unfold part.
                rewrite (member_pattern (fun c => fal c w) L xv Hpn Hxvl).
                unfold fixp, F, layer_of. rewrite map_map. cbn [ac cfal].
                destruct (Hv w), (ver q w), (beq _ xv); reflexivity. }
            2:{ intros w. unfold part at 1. rewrite (hard_member _ L wf w HLD), Hwf, Hhf. unfold part.
                rewrite (member_pattern (fun c => fal c w) L xf Hpn Hxfl).
                unfold fixp, F, layer_of. rewrite map_map. cbn [ac cfal].
                destruct (Hf w), (fal q w), (beq _ xf); reflexivity. }
            cbn [call cbind]. fold rest. fold (ok xv xf). destruct (ok xv xf); reflexivity. }
        cbn [cbind]. destruct (forallb (ok xv) _); reflexivity. }
    rewrite existsb_filter.
    rewrite (existsb_guard_same (fun x => cnt x =? nv) _ Xi fv)
      by (intros x; rewrite !Nat.eqb_eq; apply (least_in_minimal fv nv x Env)).
    assert (Einner: forall xv, forallb (ok xv) (filter (fun x => cnt x =? nv) Xi')
                               = forallb (fun xf => negb (cnt xf =? nv) || ok xv xf) ff).
    { intros xv. rewrite forallb_filter. apply forallb_guard_same. intros x. rewrite !Nat.eqb_eq. apply (least_in_minimal ff nv x Enf). }
    rewrite (existsb_ext_in _ (fun xv => (cnt xv =? nv) && forallb (fun xf => negb (cnt xf =? nv) || ok xv xf) ff))
      by (intros xv _; rewrite Einner; reflexivity).
    destruct (existsb _ fv); reflexivity.
Qed.
End TieLex.

Section TieLexTop.
Variable n : nat.
Notation W := (worlds n).
Variable q : cond.
Variable D : list cond.
Hypothesis Hnd : NoDup (map kz D).
Variable lay : cond -> nat.
Variable m : nat.
Hypothesis Hlay : forall c, In c D -> lay c < m.
Hypothesis Hm : 0 < m.
Variables nf fd : dict Z scnf.
Hypothesis Hnfk : dict_keys nf = map kz D.
Hypothesis Hnf : forall c, In c D -> exists cn, zdict_find nf (kz c) = Some cn /\ forall w, scnf_holds cn w = negb (fal c w).
Hypothesis Hfd : forall c, In c D -> exists cn, zdict_find fd (kz c) = Some cn /\ forall w, scnf_holds cn w = fal c w.
Variable bb : pybase.
Hypothesis Hbb : forall c, In c D -> zdict_find (bb_conditionals bb) (kz c) = Some c.
Notation Pc := (Pc D lay m).
Notation Pk := (Pk D lay m).
Notation P := (acP Pc).
Local Notation Pk_length := (Pk_length D lay m).
Local Notation Pc_length := (Pc_length D lay m).
Local Notation Pk_last := (Pk_last D lay m Hm).
Local Notation P_last := (P_last D lay m Hm).
Local Notation feas_last := (feas_last D lay m).
Local Notation get_bb := (get_bb D bb Hbb).
Local Notation solver_after := (solver_after n D bb Hbb).
Local Notation getc := (getc bb).
Local Notation layer_c_sub := (layer_c_sub D lay).

Lemma filter_none {A} (p r:A->bool) l : existsb p l = false -> (forall x, r x = true -> p x = true) -> filter r l = [].
Proof. induction l as [|a l IHl]; [reflexivity|]. simpl. intros E Hi. apply orb_false_iff in E as [E1 E2].
  destruct (r a) eqn:Er; [rewrite (Hi a Er) in E1; discriminate|]. apply IHl; assumption. Qed.

(* LexInf._inference: for every layering of a base with distinct keys, every query and either mode the generated
   function returns the model's answer (in strict mode behind the same quick checks as general_inference) *)
Theorem tie_lex_inference weakly vq0 fq0 u1 u2 :
  py_LexInf_inference n (S m) Pk nf fd vq0 fq0 bb u1 q weakly u2
  = Return (if weakly then lex_ext n P q else trivial n q || lex_strict n P q).
Proof.
  destruct u2. unfold py_LexInf_inference. cbv zeta. cbn [cnf_of_query].
  assert (Hv: forall w, scnf_holds (w_hard (fold_left (fun x c => w_append x c) [ver q] wcnf_new)) w = top world w && ver q w)
    by (intros w; simpl; apply andb_true_r).
  assert (Hf: forall w, scnf_holds (w_hard (fold_left (fun x c => w_append x c) [fal q] wcnf_new)) w = top world w && fal q w)
    by (intros w; simpl; apply andb_true_r).
  pose proof (rec_tie_lex n q D Hnd lay m Hlay nf fd [ver q] [fal q] Hnfk Hnf Hfd) as Hrec.
  assert (HPk: Pk <> []) by (intros E; pose proof Pk_length as El; rewrite E in El; simpl in El; lia).
  unfold py_len. rewrite Pk_length.
  destruct weakly; cbn [negb cbind].
  - (* extended mode *)
    unfold lex_ext. rewrite P_last. set (Linf := layer_c D lay (m - 1)).
    assert (HLD: forall c, In c Linf -> In c D) by (intros c; apply layer_c_sub).
    rewrite !(py_index_last Pk [] HPk), Pk_last. fold Linf. cbn [cbind].
    rewrite !(for_each_steps (map kz Linf) _ (fun k s' => s_add s' (py_make_not_A_or_B n (getc k))))
      by (intros a s' Ha; apply in_map_iff in Ha as [c [<- Hc]]; rewrite get_bb by (apply HLD; exact Hc); reflexivity).
    cbn [cbind].
    rewrite (s_solve_ext n _ (fun w => feas (map ac Linf) w && ante q w))
      by (intros w; rewrite solver_after by exact HLD; rewrite s_holds_add, feas_last; simpl; rewrite andb_true_r; apply andb_comm).
    destruct (existsb (fun w => feas (map ac Linf) w && ante q w) W); cbn [negb cbind]; [|reflexivity].
    rewrite (s_solve_ext n _ (fun w => feas (map ac Linf) w && fal q w))
      by (intros w; rewrite solver_after by exact HLD; rewrite s_holds_add, feas_last; simpl; rewrite andb_true_r; apply andb_comm).
    destruct (existsb (fun w => feas (map ac Linf) w && fal q w) W); cbn [negb cbind]; [|reflexivity].
    destruct (Z.of_nat m <? 2)%Z eqn:E2; cbn [cbind].
    + apply Z.ltb_lt in E2. assert (Em: m = 1) by lia.
      assert (Efin: fin_layers P = []).
      { unfold fin_layers. assert (El: length P = 1) by (unfold acP; rewrite map_length, Pc_length; exact Em).
        destruct P as [|a [|b l]]; simpl in El; try lia. reflexivity. }
      rewrite Efin. reflexivity.
    + apply Z.ltb_ge in E2.
      rewrite (for_each_steps (map kz Linf) _ (fun k '(a, b) => (fold_left (fun x c => w_append x c) (getd nf k) a,
                                                                fold_left (fun x c => w_append x c) (getd nf k) b))).
      2:{ intros a [s1 s2] Ha. apply in_map_iff in Ha as [c [<- Hc]]. cbv beta iota. rewrite !(get_nf D nf Hnf) by (apply HLD; exact Hc).
          reflexivity. }
      cbn [cbind]. cbv beta.
      rewrite (fold_pair (fun k a => fold_left (fun x c => w_append x c) (getd nf k) a)
                         (fun k b => fold_left (fun x c => w_append x c) (getd nf k) b)).
      cbv iota beta.
      replace (Z.of_nat m - 2)%Z with (Z.of_nat (m - 2)) by lia.
      rewrite (Hrec (m - 2) (S m) _ _ (feas (map ac Linf)) (feas (map ac Linf))); try lia.
      2:{ intros w. rewrite (hard_after nf (fun c w => negb (fal c w))) by (intros c Hc; apply (getd_nf_holds D nf Hnf); apply HLD; exact Hc).
          rewrite Hv, feas_last. unfold top. simpl. apply andb_comm. }
      2:{ intros w. rewrite (hard_after nf (fun c w => negb (fal c w))) by (intros c Hc; apply (getd_nf_holds D nf Hnf); apply HLD; exact Hc).
          rewrite Hf, feas_last. unfold top. simpl. apply andb_comm. }
      cbn [call cbind]. f_equal.
      assert (Efin: fin_layers P = firstn (S (m - 2)) P).
      { unfold fin_layers. rewrite removelast_firstn_len. f_equal. unfold acP. rewrite map_length, Pc_length. lia. }
      rewrite Efin. unfold layers. destruct (firstn (S (m - 2)) P) as [|L0 R0] eqn:Efn; [|reflexivity].
      exfalso. assert (length (firstn (S (m - 2)) P) = S (m - 2)).
      { apply firstn_length_le. unfold acP. rewrite map_length, Pc_length. lia. }
      rewrite Efn in H. discriminate.
  - (* strict mode *)
    change (f_unsat n (cante q) || f_unsat n (FAnd (cante q) (FNot (ccons q)))) with (trivial n q).
    destruct (trivial n q) eqn:Et; cbn [cbind orb]; [reflexivity|].
    destruct (f_unsat n (FAnd (cante q) (ccons q))) eqn:Eu; cbn [cbind].
    + (* no verifying world at all *)
      f_equal. symmetry. unfold lex_strict, layers.
      assert (Hnov: forall Hv0 F, fam world W Hv0 F (ver q) = []).
      { intros Hv0 F. unfold fam, sel. assert (E: filter (fun w => Hv0 w && ver q w) W = []); [|rewrite E; reflexivity].
        unfold f_unsat, f_sat in Eu. apply negb_true_iff in Eu.
        apply (filter_none (fun w => eval w (FAnd (cante q) (ccons q)))); [exact Eu|].
        intros w Hw. apply andb_true_iff in Hw as [_ Hw]. exact Hw. }
      destruct (rev (map layer_of P)) as [|F0 rest0] eqn:Er.
      * exfalso. assert (length (rev (map layer_of P)) = m) by (rewrite rev_length, map_length; unfold acP; rewrite map_length; apply Pc_length).
        rewrite Er in H. simpl in H. lia.
      * cbn [lex_rec]. rewrite Hnov. reflexivity.
    + replace (Z.of_nat m - 1)%Z with (Z.of_nat (m - 1)) by lia.
      rewrite (Hrec (m - 1) (S m) _ _ (top world) (top world)); try lia; [|exact Hv|exact Hf].
      cbn [call cbind]. unfold lex_strict, layers. f_equal. f_equal. f_equal. f_equal.
      replace (S (m - 1)) with (length P) by (unfold acP; rewrite map_length, Pc_length; lia).
      apply firstn_all.
Qed.
End TieLexTop.
