From InfOCF Require Import Core Tol SysW Form Model PyLib TieLib TieSet TieSolver TieMax TieZ3.
From InfOCFGen Require Import SrcCondZ3 SrcWZ3.
From Coq Require Import ZArith.
(* TIE: the z3 back-end of System W.  The functions GENERATED from inference/system_w_z3.py (gen/SrcWZ3.v) equal the
   hand-written model (SysW.w_rec / Model.w_strict / w_ext) for every signature size, partition with distinct keys per
   layer, query and mode; every call hands the optimiser back as it received it (push/pop discipline).
   The optimiser is PyLib.zopt: check() decides the hard assertions, model() is a best model. *)

(* the generated enumeration IS the text studied in TieZ3.v *)
Lemma gax_w_is_model n fuel opt part : py_SystemWZ3_get_all_xi_i n fuel opt part = gax_model n fuel opt part.
Proof. reflexivity. Qed.

Section TieWZ3.
Variable n : nat.
Notation W := (worlds n).
Variable q : cond.
Variable Pc : list (list cond).
Hypothesis Hkeys : forall L, In L Pc -> NoDup (map ckz L).
Notation P := (acP Pc).

Lemma any_subset_family part Xi Xi' R R' : NoDup (map ckz part) ->
  (forall x, In x Xi -> length x = length part) -> (forall x, In x Xi' -> length x = length part) ->
  (forall xi, In xi R <-> exists x, In x Xi /\ xi = sel_b true part x) ->
  (forall xi, In xi R' <-> exists x, In x Xi' /\ xi = sel_b true part x) ->
  py_wz3_any_subset_of_all n R R' = forallb (fun x' => existsb (fun x => sub x x') Xi) Xi'.
Proof. intros Hn Hl Hl' HR HR'. unfold py_wz3_any_subset_of_all.
  rewrite (forallb_same_in _ R' (map (sel_b true part) Xi')) by (intros xi; rewrite HR', in_map_iff; split; intros [x [A B]]; exists x; auto).
  rewrite forallb_map. apply forallb_ext_in. intros x' Hx'.
  rewrite (existsb_same_in _ R (map (sel_b true part) Xi)) by (intros xi; rewrite HR, in_map_iff; split; intros [x [A B]]; exists x; auto).
  rewrite existsb_map. apply existsb_ext_in. intros x Hx. apply csubset_sel; auto. Qed.

Lemma w_rec_ext ls : forall H1 H2, (forall w, H1 w = H2 w) ->
  w_rec world W (ver q) (fal q) ls H1 = w_rec world W (ver q) (fal q) ls H2.
Proof. induction ls as [|F rest IH]; intros H1 H2 E; cbn [w_rec].
  - apply forallb_ext_in. intros w _. rewrite E. reflexivity.
  - assert (Ef: forall phi, fam world W H1 F phi = fam world W H2 F phi).
    { intros phi. unfold fam, sel. f_equal. f_equal. apply filter_ext. intros w. rewrite E. reflexivity. }
    rewrite !Ef. f_equal. apply forallb_ext_in. intros x _. f_equal. apply IH. intros w. rewrite E. reflexivity. Qed.

Lemma rec_tie_wz3 : forall k fuel opt (H:pred world), k < length Pc -> k + length W + 1 < fuel ->
  o_soft opt = [] -> (forall w, o_holds opt w = H w) ->
  py_SystemWZ3_rec_inference n fuel Pc opt (Z.of_nat k) q
  = Return (w_rec world W (ver q) (fal q) (rev (map layer_of (firstn (S k) P))) H, opt).
Proof.
  induction k as [k IH] using lt_wf_ind; intros fuel opt H Hk Hfu Hs Hh; (destruct fuel as [|fuel]; [lia|]);
  cbn [py_SystemWZ3_rec_inference].
  rewrite (py_index_nat Pc k []) by exact Hk. cbn [cbind]. cbv zeta.
  set (part := nth k Pc []). set (F := layer_of (map ac part)).
  assert (Hpn: NoDup (map ckz part)) by (apply Hkeys; apply nth_In; exact Hk).
  assert (Ef: rev (map layer_of (firstn (S k) P)) = F :: rev (map layer_of (firstn k P))).
  { unfold acP. rewrite (firstn_S_nth k _ []) by (rewrite map_length; exact Hk).
    rewrite map_app, rev_app_distr. cbn [map rev app]. f_equal. unfold F, part.
    change (@nil (acond world)) with (map ac []). rewrite map_nth. reflexivity. }
  rewrite Ef. set (rest := rev (map layer_of (firstn k P))).
  (* the two enumerations *)
  rewrite !gax_w_is_model.
  destruct (gax_family n part Hpn (o_add (o_push opt) (py_z3_make_A_then_B n q)) H (ver q) fuel) as [R [o1 [E1 [Ep1 HR]]]].
  { rewrite o_soft_add. exact Hs. } { intros w. rewrite o_holds_add, o_holds_push, Hh. reflexivity. } { lia. }
  rewrite E1. cbn [call]. cbv beta iota zeta. rewrite Ep1, o_pop_add, o_pop_push. rewrite ?gax_w_is_model.
  destruct (gax_family n part Hpn (o_add (o_push opt) (py_z3_make_A_then_not_B n q)) H (fal q) fuel) as [R' [o2 [E2 [Ep2 HR']]]].
  { rewrite o_soft_add. exact Hs. } { intros w. rewrite o_holds_add, o_holds_push, Hh. reflexivity. } { lia. }
  rewrite E2. cbn [call]. cbv beta iota zeta. rewrite Ep2, o_pop_add, o_pop_push.
  fold F in HR, HR'. set (Xi := minimal (fam world W H F (ver q))) in *. set (Xi' := minimal (fam world W H F (fal q))) in *.
  assert (HlenF: forall w, length (F w) = length part) by (intros w; unfold F; rewrite layer_of_len, map_length; reflexivity).
  assert (Hlx: forall x, In x Xi -> length x = length part) by (intros x Hx; eapply (fam_len n); eauto).
  assert (Hlx': forall x, In x Xi' -> length x = length part) by (intros x Hx; eapply (fam_len n); eauto).
  rewrite (any_subset_family part Xi Xi' R R' Hpn Hlx Hlx' HR HR').
  cbn [w_rec]. fold Xi. fold Xi'.
  destruct (forallb (fun x' => existsb (fun x => sub x x') Xi) Xi'); cbn [negb cbind andb]; [|reflexivity].
  (* the ties *)
  set (okx := fun x => w_rec world W (ver q) (fal q) rest (fun w => H w && beq (F w) x)).
  rewrite (for_each_all_state (csetset_inter R R') _
            (fun xi => existsb (fun x => cset_eqb xi (sel_b true part x) && okx x) Xi) opt (false, opt)).
  2:{ intros xi Hxi. apply filter_In in Hxi as [HxiR Hxi']. apply HR in HxiR as [x [HxXi ->]].
      assert (Hxl: length x = length part) by (apply Hlx; exact HxXi).
      assert (HxXi': In x Xi').
      { unfold csetmem in Hxi'. apply existsb_exists in Hxi' as [y [Hy Hs']]. apply HR' in Hy as [x' [Hx' ->]].
        rewrite cset_eqb_sel in Hs' by (auto). apply beq_eq in Hs'. subst x'. exact Hx'. }
      assert (Eok: existsb (fun x0 => cset_eqb (sel_b true part x) (sel_b true part x0) && okx x0) Xi = okx x).
      { destruct (okx x) eqn:Eo.
        - apply existsb_exists. exists x. split; [exact HxXi|]. rewrite cset_eqb_sel, beq_refl, Eo by auto. reflexivity.
        - destruct (existsb _ Xi) eqn:Ex; [|reflexivity]. apply existsb_exists in Ex as [x0 [Hx0 Hb]].
          apply andb_true_iff in Hb as [Hb1 Hb2]. rewrite cset_eqb_sel in Hb1 by auto. apply beq_eq in Hb1. subst x0. congruence. }
      rewrite Eok. unfold okx.
      destruct k as [|k'].
      - cbn [Z.of_nat Z.eqb cbind]. unfold rest. cbn [firstn map rev].
        assert (Eb: w_rec world W (ver q) (fal q) [] (fun w => H w && beq (F w) x) = false).
        { unfold Xi' in HxXi'. apply minimal_in in HxXi' as [HxXi' _]. apply fam_in in HxXi' as [w0 [Hw0 [H1 [H2 E]]]].
          cbn [w_rec]. destruct (forallb _ W) eqn:Efa; [|reflexivity]. exfalso.
          eapply forallb_forall in Efa; [|exact Hw0]. rewrite H1, H2, E, beq_refl in Efa. discriminate. }
        rewrite Eb. reflexivity.
      - replace (Z.of_nat (S k') =? 0)%Z with false by (symmetry; apply Z.eqb_neq; lia). cbn [cbind].
        replace (Z.of_nat (S k') - 1)%Z with (Z.of_nat k') by lia.
        rewrite (IH k' (Nat.lt_succ_diag_r k') fuel _ (fun w => H w && beq (F w) x)); try lia.
        2:{ rewrite pattern_soft. exact Hs. }
        2:{ intros w. rewrite (pattern_holds n part Hpn x opt w Hxl), Hh. reflexivity. }
        cbn [call cbind]. rewrite (pattern_pop n part x opt). fold rest.
        destruct (w_rec world W (ver q) (fal q) rest (fun w => H w && beq (F w) x)); reflexivity. }
  (* the loop's verdict against the model's conjunction *)
  assert (Efin: forallb (fun xi => existsb (fun x => cset_eqb xi (sel_b true part x) && okx x) Xi) (csetset_inter R R')
                = forallb (fun x => negb (existsb (beq x) Xi') || okx x) Xi).
  { unfold csetset_inter. rewrite forallb_filter.
    rewrite (forallb_same_in _ R (map (sel_b true part) Xi)) by (intros xi; rewrite HR, in_map_iff; split; intros [x [A B]]; exists x; auto).
    rewrite forallb_map. apply forallb_ext_in. intros x Hx.
    assert (Hxl: length x = length part) by (apply Hlx; exact Hx).
    assert (Em: csetmem (sel_b true part x) R' = existsb (beq x) Xi').
    { unfold csetmem. rewrite (existsb_same_in _ R' (map (sel_b true part) Xi')) by (intros xi; rewrite HR', in_map_iff; split; intros [y [A B]]; exists y; auto).
      rewrite existsb_map. apply existsb_ext_in. intros y Hy. apply cset_eqb_sel; auto. }
    rewrite Em. f_equal.
    destruct (okx x) eqn:Eo.
    - apply existsb_exists. exists x. split; [exact Hx|]. rewrite cset_eqb_sel, beq_refl, Eo by auto. reflexivity.
    - destruct (existsb _ Xi) eqn:Ex; [|reflexivity]. apply existsb_exists in Ex as [x0 [Hx0 Hb]].
      apply andb_true_iff in Hb as [Hb1 Hb2]. rewrite cset_eqb_sel in Hb1 by auto. apply beq_eq in Hb1. subst x0. congruence. }
  rewrite Efin. fold okx. destruct (forallb _ Xi); reflexivity.
Qed.

Lemma z3_inf_asserted L s w :
  s_holds (fold_left (fun v_s v_c => let v_s := s_add v_s (py_z3_make_not_A_or_B n v_c) in v_s) L s) w
  = feas (map ac L) w && s_holds s w.
Proof. revert s. induction L as [|c L IH]; intros s; [reflexivity|].
  cbn [fold_left]. cbv zeta in *. rewrite IH, s_holds_add. unfold feas. cbn [map]. unfold nofals at 2. cbn [forallb].
  fold (nofals world (map ac L) w).
  assert (E: eval w (py_z3_make_not_A_or_B n c) = negb (cfal world (ac c) w)).
  { simpl. unfold fal. destruct (eval w (cante c)), (eval w (ccons c)); reflexivity. }
  rewrite E. destruct (negb (cfal world (ac c) w)), (nofals world (map ac L) w); reflexivity. Qed.
Lemma z3_inf_asserted_opt L o w :
  o_holds (fold_left (fun v_o v_c => let v_o := o_add v_o (py_z3_make_not_A_or_B n v_c) in v_o) L o) w
  = feas (map ac L) w && o_holds o w.
Proof. revert o. induction L as [|c L IH]; intros o; [reflexivity|].
  cbn [fold_left]. cbv zeta in *. rewrite IH, o_holds_add. unfold feas. cbn [map]. unfold nofals at 2. cbn [forallb].
  fold (nofals world (map ac L) w).
  assert (E: eval w (py_z3_make_not_A_or_B n c) = negb (cfal world (ac c) w)).
  { simpl. unfold fal. destruct (eval w (cante c)), (eval w (ccons c)); reflexivity. }
  rewrite E. destruct (negb (cfal world (ac c) w)), (nofals world (map ac L) w); reflexivity. Qed.
Lemma z3_inf_soft L o : o_soft (fold_left (fun v_o v_c => let v_o := o_add v_o (py_z3_make_not_A_or_B n v_c) in v_o) L o) = o_soft o.
Proof. revert o. induction L as [|c L IH]; intros o; [reflexivity|]. cbn [fold_left]. cbv zeta in *. rewrite IH. apply o_soft_add. Qed.
Lemma no_falsifier_wz3 ls (H:pred world) : existsb (fun w => H w && fal q w) W = false ->
  w_rec world W (ver q) (fal q) ls H = true.
Proof. intros E. apply w_rec_correct. intros w' Hw' H1 H2. exfalso.
  assert (existsb (fun w => H w && fal q w) W = true); [|congruence].
  apply existsb_exists. exists w'. split; auto. rewrite H1, H2. reflexivity. Qed.

(* SystemWZ3._inference *)
Theorem tie_wz3_inference weakly u : Pc <> [] ->
  py_SystemWZ3_inference n (S (length Pc + length W + 1)) Pc q weakly u
  = Return (if weakly then w_ext n P q else w_strict n P q).
Proof. intros Hne. unfold py_SystemWZ3_inference. cbv zeta.
  assert (Hlen: 1 <= length Pc) by (destruct Pc; [congruence|simpl; lia]).
  destruct weakly; cbn [negb cbind].
  - (* extended mode *)
    rewrite !(py_index_last Pc [] Hne). cbn [cbind]. unfold w_ext. rewrite inf_layer_acP. set (Linf := last Pc []).
    rewrite (s_solve_ext n _ (fun w => feas (map ac Linf) w && ante q w))
      by (intros w; rewrite z3_inf_asserted, s_holds_add; simpl; rewrite andb_true_r; reflexivity).
    destruct (existsb (fun w => feas (map ac Linf) w && ante q w) W) eqn:Ea; cbn [Bool.eqb cbind].
    2:{ (* no feasible world satisfies A: then none falsifies the query *)
        assert (Ef: existsb (fun w => feas (map ac Linf) w && fal q w) W = false).
        { destruct (existsb (fun w => feas (map ac Linf) w && fal q w) W) eqn:E; [|reflexivity]. exfalso.
          apply existsb_exists in E as [w [Hw Hb]]. apply andb_true_iff in Hb as [H1 H2].
          assert (existsb (fun w => feas (map ac Linf) w && ante q w) W = true); [|congruence].
          apply existsb_exists. exists w. split; [exact Hw|]. rewrite H1, ante_split, H2, orb_true_r. reflexivity. }
        rewrite Ef. reflexivity. }
    rewrite (s_solve_ext n _ (fun w => feas (map ac Linf) w && fal q w))
      by (intros w; rewrite z3_inf_asserted, s_holds_add; simpl; rewrite andb_true_r; reflexivity).
    destruct (existsb (fun w => feas (map ac Linf) w && fal q w) W) eqn:Ef; cbn [Bool.eqb negb cbind]; [|reflexivity].
    unfold py_len.
    destruct (Z.of_nat (length Pc) <? 2)%Z eqn:E2; cbn [cbind].
    + apply Z.ltb_lt in E2. assert (El: length Pc = 1) by lia.
      assert (Efin: fin_layers P = []).
      { unfold fin_layers, acP. destruct Pc as [|a [|b l]]; simpl in El; try lia. reflexivity. }
      rewrite Efin. reflexivity.
    + apply Z.ltb_ge in E2.
      replace (Z.of_nat (length Pc) - 2)%Z with (Z.of_nat (length Pc - 2)) by lia.
      rewrite (rec_tie_wz3 (length Pc - 2) _ _ (feas (map ac Linf))); try lia.
      2:{ rewrite z3_inf_soft. reflexivity. }
      2:{ intros w. rewrite z3_inf_asserted_opt. simpl. apply andb_true_r. }
      cbn [call cbind]. f_equal.
      assert (Efin: fin_layers P = firstn (S (length Pc - 2)) P).
      { unfold fin_layers. rewrite removelast_firstn_len. f_equal. unfold acP. rewrite map_length. lia. }
      rewrite Efin. unfold layers. destruct (firstn (S (length Pc - 2)) P) as [|L0 R0] eqn:Efn; [|reflexivity].
      exfalso. assert (length (firstn (S (length Pc - 2)) P) = S (length Pc - 2)).
      { apply firstn_length_le. unfold acP. rewrite map_length. lia. }
      rewrite Efn in H. discriminate.
  - (* strict mode *)
    unfold py_len. replace (Z.of_nat (length Pc) - 1)%Z with (Z.of_nat (length Pc - 1)) by lia.
    rewrite (rec_tie_wz3 (length Pc - 1) _ zopt_new (top world)); try lia; try reflexivity.
    cbn [call cbind]. unfold w_strict, layers. f_equal. f_equal. f_equal. f_equal.
    replace (S (length Pc - 1)) with (length P) by (unfold acP; rewrite map_length; lia).
    apply firstn_all.
Qed.
End TieWZ3.
