From InfOCF Require Import Core Form PyLib.
From Coq Require Import String ZArith.
(* parse trees of the formula rule of parser/CKB.g4 as the visitor sees them: one constructor per labelled alternative
   (#Var, #Negation, #And, #Or, #Paren); the accessors are those of the generated ANTLR context classes *)
Inductive ptree := PVar (name:string) | PNeg (t:ptree) | PAnd (l r:ptree) | POr (l r:ptree) | PParen (t:ptree).
Definition pt_left {R L} (t:ptree) : ctl R L ptree := match t with PAnd l _ | POr l _ => Next l | _ => Raise end.
Definition pt_right {R L} (t:ptree) : ctl R L ptree := match t with PAnd _ r | POr _ r => Next r | _ => Raise end.
Definition pt_formula {R L} (t:ptree) : ctl R L ptree := match t with PNeg x | PParen x => Next x | _ => Raise end.
Definition pt_atom_text {R L} (t:ptree) : ctl R L string := match t with PVar s => Next s | _ => Raise end.
