From InfOCF Require Import Core Tol Form Model Crev ThmCrev PyLib PyInt TieLib TieSet TieC TieCrev.
From InfOCFGen Require Import SrcC SrcCrev.
From Coq Require Import ZArith Lia.
(* TIE: the constraint construction of c-revision GENERATED from inference/c_revision.py (gen/SrcCrev.v) -
   symbolize_minima_expression, encoding, translate_to_csp, with freshVars / minima_encoding generated from
   c_inference.py - against the model of Crev.v.  For every compilation (a dictionary of triples per index, the indices
   distinct), both gamma modes and no fixed values: the constraints the generated translate_to_csp returns have a solution
   with parameters gamma+ / gamma- (quantifying over the auxiliary minimum variables mv_i / mf_i) exactly when the model's
   csp_holds is true of them, i.e. (ThmCrev) when the revised ranking accepts every revision conditional. *)

Lemma fe_collect {A R L} (f:nat -> A) (blk:nat -> list icon) (body:A -> list icon -> ctl R (list icon) (list icon)) :
  forall l s, (forall i s', In i l -> body (f i) s' = Next (s' ++ blk i) \/ (blk i = [] /\ body (f i) s' = Continue s')) ->
  @for_each A R L (list icon) (map f l) body s = Next (s ++ concat (map blk l)).
Proof. induction l as [|i l IH]; intros s Hb; [simpl; rewrite app_nil_r; reflexivity|]. cbn [map for_each concat].
  destruct (Hb i s (or_introl eq_refl)) as [E|[E1 E2]].
  - rewrite E. rewrite IH by (intros j s' Hj; apply Hb; right; exact Hj). rewrite <- app_assoc. reflexivity.
  - rewrite E2, E1. cbn [app]. apply IH. intros j s' Hj. apply Hb. right. exact Hj. Qed.
Lemma zfind_map {V} (g:nat -> V) (l:list nat) k : NoDup l -> In k l ->
  zdict_find (map (fun k => (Z.of_nat k, g k)) l) (Z.of_nat k) = Some (g k).
Proof. induction l as [|a l IH]; intros Hn Hin; [destruct Hin|]. inversion Hn as [|? ? Hni Hn']; subst. cbn [map zdict_find].
  destruct Hin as [->|Hin]; [rewrite Z.eqb_refl; reflexivity|].
  destruct (Z.of_nat a =? Z.of_nat k)%Z eqn:E; [apply Z.eqb_eq in E; apply Nat2Z.inj in E; subst; contradiction|]. apply IH; assumption. Qed.
Lemma notin_keys_map {V} (g:nat -> V) (l:list nat) k : ~ In k l -> ~ In (Z.of_nat k) (dict_keys (map (fun k => (Z.of_nat k, g k)) l)).
Proof. intros H Hin. unfold dict_keys in Hin. rewrite map_map in Hin. cbn [fst] in Hin. apply in_map_iff in Hin as [x [E Hx]].
  apply Nat2Z.inj in E. subst. contradiction. Qed.

Lemma least_char' (l:list nat) z : (exists y, In y l /\ Z.of_nat y = z) /\ (forall y, In y l -> (z <= Z.of_nat y)%Z)
  <-> exists m, minl l = Some m /\ z = Z.of_nat m.
Proof. split.
  - intros [[y [Hy Ey]] Hle]. exists y. split; [|symmetry; exact Ey]. apply minl_char; [exact Hy|].
    intros x Hx. specialize (Hle x Hx). lia.
  - intros [m [Hm ->]]. split.
    + exists m. split; [apply (minl_in _ _ Hm)|reflexivity].
    + intros y Hy. pose proof (minl_le _ _ _ Hm Hy). lia. Qed.

Section CrevCsp.
Variable n : nat.
Variable ks : list nat.
Hypothesis Hks : NoDup ks.
Variables VT FT : nat -> list triple.
Variable gpz : bool.
Definition cvd : list (nat * list triple) := map (fun k => (k, VT k)) ks.
Definition cfd : list (nat * list triple) := map (fun k => (k, FT k)) ks.

(* the term built for one triple *)
Definition sum_of (t:ztrip) : iterm :=
  let '(r, acc, rej) := t in
  let terms := map (fun i => ISym (SGm i)) rej ++ (if negb gpz then map (fun i => ISym (SGp i)) acc else []) in
  if negb (is_nil terms) then IPlus (terms ++ [IInt r]) else IInt r.
Definition sums (T:nat -> list triple) (k:nat) : list iterm := map sum_of (map ztriple (T k)).

(* ---- symbolize_minima_expression ---- *)
Lemma symbolize_shape (T:nat -> list triple) :
  py_symbolize_minima n (zcomp (map (fun k => (k, T k)) ks)) gpz = Return (map (fun k => (Z.of_nat k, sums T k)) ks).
Proof. unfold py_symbolize_minima. cbv zeta.
  match goal with |- context [for_each _ ?b _] => set (body := b) end.
  assert (Ez: zcomp (map (fun k => (k, T k)) ks) = map (fun k => (Z.of_nat k, map ztriple (T k))) ks).
  { unfold zcomp. rewrite map_map. reflexivity. }
  rewrite Ez.
  assert (G: forall l done, NoDup (done ++ l) ->
             @for_each _ _ unit _ (map (fun k => (Z.of_nat k, map ztriple (T k))) l) body (map (fun k => (Z.of_nat k, sums T k)) done)
             = Next (map (fun k => (Z.of_nat k, sums T k)) (done ++ l))).
  { induction l as [|k l IH]; intros done Hn; [cbn; rewrite app_nil_r; reflexivity|].
    cbn [map for_each]. unfold body at 1.
    assert (Hk: ~ In (Z.of_nat k) (dict_keys (map (fun k => (Z.of_nat k, sums T k)) done))).
    { apply notin_keys_map. apply NoDup_remove_2 in Hn. intros Hin. apply Hn. apply in_or_app. left. exact Hin. }
    rewrite zdict_set_end by exact Hk.
    set (A := map (fun k0 => (Z.of_nat k0, sums T k0)) done) in *.
    match goal with |- context [for_each (map ztriple (T k)) ?b _] => set (bodyin := b) end.
    assert (Gin: forall tl x, @for_each _ _ (dict Z (list iterm)) _ tl bodyin (A ++ [(Z.of_nat k, x)]) = Next (A ++ [(Z.of_nat k, x ++ map sum_of tl)])).
    { induction tl as [|t tl IHt]; intros x; [cbn; rewrite app_nil_r; reflexivity|].
      cbn [for_each map]. unfold bodyin at 1. change ((3 <? 3)%Z) with false. cbn [cbind].
      destruct t as [[r acc] rej]. cbv beta iota zeta.
      set (terms := map (fun v_i => ISym (SGm v_i)) rej ++ (if negb gpz then map (fun v_i => ISym (SGp v_i)) acc else [])).
      assert (Et: (if negb gpz then map (fun v_i => ISym (SGm v_i)) rej ++ map (fun v_i => ISym (SGp v_i)) acc else map (fun v_i => ISym (SGm v_i)) rej) = terms).
      { unfold terms. destruct (negb gpz); [reflexivity|rewrite app_nil_r; reflexivity]. }
      rewrite Et. rewrite !(zdict_get_mid A []) by exact Hk.
      assert (Es: sum_of (r, acc, rej) = if negb (is_nil terms) then IPlus (terms ++ [IInt r]) else IInt r) by reflexivity.
      destruct (negb (is_nil terms)) eqn:En; cbn [cbind]; rewrite (zdict_set_mid A []) by exact Hk; cbn [cbind];
        rewrite IHt, <- app_assoc, Es; reflexivity. }
    rewrite (Gin (map ztriple (T k)) []). cbn [cbind app].
    specialize (IH (done ++ [k])). rewrite map_app in IH. cbn [map] in IH. fold A in IH. fold (sums T k). rewrite IH.
    - rewrite <- app_assoc. reflexivity.
    - rewrite <- app_assoc. exact Hn. }
  pose proof (G ks [] Hks) as E. cbn [map app] in E.
  match goal with |- cbind ?x _ = _ => replace x with (@Next (dict Z (list iterm)) unit _ (map (fun k => (Z.of_nat k, sums T k)) ks)) by (symmetry; exact E) end.
  reflexivity. Qed.

(* ---- encoding ---- *)
Definition gpt (k:nat) : iterm := if gpz then IInt 0 else ISym (SGp (Z.of_nat k)).
Definition gmt (k:nat) : iterm := ISym (SGm (Z.of_nat k)).
Definition block (k:nat) : list icon :=
  if negb (is_nil (sums VT k)) && is_nil (sums FT k) then []
  else py_minima_encoding n (ISym (SMv (SIdx (Z.of_nat k)))) (sums VT k) ++ py_minima_encoding n (ISym (SMf (SIdx (Z.of_nat k)))) (sums FT k)
       ++ [IGT (IMinus (gmt k) (gpt k)) (IMinus (ISym (SMv (SIdx (Z.of_nat k)))) (ISym (SMf (SIdx (Z.of_nat k)))))].
Definition gammas : dict Z (iterm * iterm) := map (fun k => (Z.of_nat k, (gpt k, gmt k))) ks.

Lemma encoding_shape :
  py_crev_encoding n gammas (map (fun k => (Z.of_nat k, sums VT k)) ks) (map (fun k => (Z.of_nat k, sums FT k)) ks)
  = Return (concat (map block ks)).
Proof. unfold py_crev_encoding. cbv zeta. unfold gammas.
  rewrite (fe_collect (fun k => (Z.of_nat k, (gpt k, gmt k))) block).
  - reflexivity.
  - intros k s' Hk. cbv beta iota.
    assert (Gv: forall R0 L0, @zdict_get (list iterm) R0 L0 (map (fun k => (Z.of_nat k, sums VT k)) ks) (Z.of_nat k) = Next (sums VT k))
      by (intros; unfold zdict_get; rewrite (zfind_map (sums VT) ks k Hks Hk); reflexivity).
    assert (Gf: forall R0 L0, @zdict_get (list iterm) R0 L0 (map (fun k => (Z.of_nat k, sums FT k)) ks) (Z.of_nat k) = Next (sums FT k))
      by (intros; unfold zdict_get; rewrite (zfind_map (sums FT) ks k Hks Hk); reflexivity).
    rewrite !Gv. cbn [cbind]. unfold block.
    destruct (negb (is_nil (sums VT k))) eqn:Ev; cbn [andb].
    + rewrite !Gf. cbn [cbind]. rewrite negb_involutive. destruct (is_nil (sums FT k)) eqn:Ef; cbn [cbind].
      * right. split; reflexivity.
      * left. cbn [py_freshVars]. cbv beta iota zeta. rewrite ?Gv. cbn [cbind]. rewrite ?Gf. cbn [cbind].
        rewrite <- !app_assoc. reflexivity.
    + cbn [cbind]. left. cbn [py_freshVars]. cbv beta iota zeta. rewrite ?Gv. cbn [cbind]. rewrite ?Gf. cbn [cbind].
      rewrite <- !app_assoc. reflexivity. Qed.

(* ---- translate_to_csp ---- *)
Definition gte (k:nat) : list icon :=
  (if gpz then [] else [IGE (ISym (SGp (Z.of_nat k))) (IInt 0)]) ++ [IGE (ISym (SGm (Z.of_nat k))) (IInt 0)].
Definition crev_csp : list icon := concat (map block ks) ++ concat (map gte ks).

Theorem translate_to_csp_shape : py_translate_to_csp n (zcomp cvd, zcomp cfd) gpz tt tt = Return crev_csp.
Proof. unfold py_translate_to_csp. cbv zeta. cbv beta iota.
  match goal with |- context [fold_left _ (@dict_keys ?K ?V ?d) []] => assert (Ek: @dict_keys K V d = map Z.of_nat ks) end.
  { unfold dict_keys, zcomp, cvd. rewrite !map_map. reflexivity. }
  rewrite Ek.
  match goal with |- context [fold_left ?f (map Z.of_nat ks) []] => set (stepg := f) end.
  assert (Eg: fold_left stepg (map Z.of_nat ks) [] = gammas).
  { assert (G: forall l done, NoDup (done ++ l) ->
               fold_left stepg (map Z.of_nat l) (map (fun k => (Z.of_nat k, (gpt k, gmt k))) done) = map (fun k => (Z.of_nat k, (gpt k, gmt k))) (done ++ l)).
    { induction l as [|k l IH]; intros done Hn; [cbn; rewrite app_nil_r; reflexivity|]. cbn [map fold_left]. unfold stepg at 2.
      rewrite zdict_set_end by (apply notin_keys_map; apply NoDup_remove_2 in Hn; intros Hin; apply Hn; apply in_or_app; left; exact Hin).
      specialize (IH (done ++ [k])). rewrite map_app in IH. cbn [map] in IH.
      assert (Et: (if gpz then IInt 0 else ISym (SGp (Z.of_nat k)), ISym (SGm (Z.of_nat k))) = (gpt k, gmt k)) by (unfold gpt, gmt; destruct gpz; reflexivity).
      rewrite Et, IH; [rewrite <- app_assoc; reflexivity|rewrite <- app_assoc; exact Hn]. }
    apply (G ks [] Hks). }
  rewrite Eg.
  match goal with |- context [fold_left ?f (dict_values gammas) []] => set (stepz := f) end.
  assert (Ez: fold_left stepz (dict_values gammas) [] = concat (map gte ks)).
  { unfold gammas, dict_values. rewrite map_map. cbn [snd].
    assert (G: forall l acc, fold_left stepz (map (fun k => (gpt k, gmt k)) l) acc = acc ++ concat (map gte l)).
    { induction l as [|k l IH]; intros acc; [cbn; rewrite app_nil_r; reflexivity|]. cbn [map fold_left concat]. rewrite IH.
      unfold stepz at 1. unfold gte at 2, gpt, gmt. destruct gpz; cbn [iterm_is_sym app]; rewrite <- ?app_assoc; reflexivity. }
    apply (G ks []). }
  rewrite Ez.
  fold cvd. unfold cvd at 1, cfd at 1.
  rewrite (symbolize_shape VT). cbn [call]. rewrite (symbolize_shape FT). cbn [call].
  rewrite encoding_shape. cbn [call]. reflexivity. Qed.

(* ---- semantics ---- *)
Variables gp gm : gam.
Hypothesis Hgp0 : gpz = true -> forall k, gp k = 0.
Definition gamma_assignment (sg:sym -> Z) : Prop :=
  forall z, sg (SGp z) = Z.of_nat (gp (Z.to_nat z)) /\ sg (SGm z) = Z.of_nat (gm (Z.to_nat z)).

Lemma zsum_gammas sg (g:gam) (mk:Z -> sym) l : (forall z, sg (mk z) = Z.of_nat (g (Z.to_nat z))) ->
  zsum (map (ieval sg) (map (fun i => ISym (mk i)) (map Z.of_nat l))) = Z.of_nat (sumk g l).
Proof. intros H. induction l as [|k l IH]; [reflexivity|]. cbn [map zsum fold_right sumk ieval]. fold (zsum (map (ieval sg) (map (fun i => ISym (mk i)) (map Z.of_nat l)))).
  rewrite IH, H, Nat2Z.id. fold (sumk g l). lia. Qed.
Lemma sumk_zero l : gpz = true -> sumk gp l = 0.
Proof. intros Hz. induction l as [|k l IH]; [reflexivity|]. cbn [sumk fold_right]. fold (sumk gp l). rewrite IH, (Hgp0 Hz). reflexivity. Qed.
Lemma sum_of_eval sg t : gamma_assignment sg -> ieval sg (sum_of (ztriple t)) = Z.of_nat (tval gp gm t).
Proof. intros Hsg. destruct t as [[r acc] rej]. unfold ztriple, sum_of, tval. cbn [fst snd].
  assert (Em: zsum (map (ieval sg) (map (fun i => ISym (SGm i)) (map Z.of_nat rej))) = Z.of_nat (sumk gm rej)) by (apply zsum_gammas; intros z; apply Hsg).
  assert (Ep: zsum (map (ieval sg) (map (fun i => ISym (SGp i)) (map Z.of_nat acc))) = Z.of_nat (sumk gp acc)) by (apply zsum_gammas; intros z; apply Hsg).
  set (terms := map (fun i => ISym (SGm i)) (map Z.of_nat rej) ++ (if negb gpz then map (fun i => ISym (SGp i)) (map Z.of_nat acc) else [])).
  assert (Ev: zsum (map (ieval sg) terms) = Z.of_nat (sumk gp acc + sumk gm rej)).
  { unfold terms. rewrite map_app, zsum_app, Em. destruct (negb gpz) eqn:Eg.
    - rewrite Ep. lia.
    - apply negb_false_iff in Eg. rewrite (sumk_zero acc Eg). cbn. lia. }
  destruct (negb (is_nil terms)) eqn:En.
  - cbn [ieval]. rewrite map_app, zsum_app, Ev. cbn [map zsum fold_right ieval]. lia.
  - apply negb_false_iff in En. destruct terms; [|discriminate]. cbn in Ev. cbn [ieval]. lia. Qed.
Lemma sums_eval sg (T:nat -> list triple) k : gamma_assignment sg -> map (ieval sg) (sums T k) = map Z.of_nat (map (tval gp gm) (T k)).
Proof. intros Hsg. unfold sums. rewrite !map_map. apply map_ext. intros t. apply sum_of_eval. exact Hsg. Qed.

Lemma minima_sat sg mv (T:nat -> list triple) k : gamma_assignment sg ->
  (csp_sat sg (py_minima_encoding n mv (sums T k)) = true <-> exists m, minl (map (tval gp gm) (T k)) = Some m /\ ieval sg mv = Z.of_nat m).
Proof. intros Hsg. change (py_minima_encoding n) with (py_minima_encoding 0). rewrite minima_encoding_sat, <- least_char'.
  pose proof (sums_eval sg T k Hsg) as Ev. set (S := sums T k) in *. set (Vl := map (tval gp gm) (T k)) in *.
  split; intros [[s [Hs Es]] Hle]; split.
  - assert (Hin: In (ieval sg s) (map (ieval sg) S)) by (apply in_map; exact Hs). rewrite Ev in Hin.
    apply in_map_iff in Hin as [y [Ey Hy]]. exists y. split; [exact Hy|]. rewrite Ey. exact Es.
  - intros y Hy. assert (Hin: In (Z.of_nat y) (map (ieval sg) S)) by (rewrite Ev; apply in_map; exact Hy).
    apply in_map_iff in Hin as [t [Et Ht]]. rewrite <- Et. apply Hle. exact Ht.
  - assert (Hin: In (Z.of_nat s) (map (ieval sg) S)) by (rewrite Ev; apply in_map; exact Hs).
    apply in_map_iff in Hin as [t [Et Ht]]. exists t. split; [exact Ht|]. rewrite Et. exact Es.
  - intros t Ht. assert (Hin: In (ieval sg t) (map (ieval sg) S)) by (apply in_map; exact Ht). rewrite Ev in Hin.
    apply in_map_iff in Hin as [y [Ey Hy]]. rewrite <- Ey. apply Hle. exact Hy.
Qed.

Lemma sums_nil T k : is_nil (sums T k) = is_nil (T k).
Proof. unfold sums. destruct (T k); reflexivity. Qed.
Lemma gpt_eval sg k : gamma_assignment sg -> ieval sg (gpt k) = Z.of_nat (gp k).
Proof. intros Hsg. unfold gpt. destruct (Bool.bool_dec gpz true) as [E|E].
  - rewrite E. cbn [ieval]. rewrite (Hgp0 E). reflexivity.
  - apply not_true_is_false in E. rewrite E. cbn [ieval]. rewrite (proj1 (Hsg _)), Nat2Z.id. reflexivity. Qed.
Lemma gmt_eval sg k : gamma_assignment sg -> ieval sg (gmt k) = Z.of_nat (gm k).
Proof. intros Hsg. unfold gmt. cbn [ieval]. rewrite (proj2 (Hsg _)), Nat2Z.id. reflexivity. Qed.

Lemma csp_sat_app' sg a b : csp_sat sg (a ++ b) = csp_sat sg a && csp_sat sg b.
Proof. unfold csp_sat. apply forallb_app. Qed.

(* one block: solvable in its two auxiliary variables exactly when the model's constraint holds, and then by the minima *)
Lemma block_sat sg k : gamma_assignment sg ->
  (csp_sat sg (block k) = true <->
   (constraint gp gm k (VT k) (FT k) = true /\
    (FT k <> [] -> (exists mv, minl (map (tval gp gm) (VT k)) = Some mv /\ sg (SMv (SIdx (Z.of_nat k))) = Z.of_nat mv) /\
                   (exists mf, minl (map (tval gp gm) (FT k)) = Some mf /\ sg (SMf (SIdx (Z.of_nat k))) = Z.of_nat mf)))).
Proof. intros Hsg. unfold block, constraint. rewrite !sums_nil.
  destruct (VT k) as [|tv vt] eqn:EV.
  - (* cannot be verified *)
    cbn [is_nil negb andb].
    assert (Hf: csp_sat sg (py_minima_encoding n (ISym (SMv (SIdx (Z.of_nat k)))) (sums VT k)) = false).
    { destruct (csp_sat sg (py_minima_encoding n (ISym (SMv (SIdx (Z.of_nat k)))) (sums VT k))) eqn:E; [|reflexivity].
      apply (minima_sat sg _ VT k Hsg) in E as [m [Hm _]]. rewrite EV in Hm. discriminate. }
    rewrite csp_sat_app', Hf. cbn [andb minl map]. split; [discriminate|intros [H _]; discriminate].
  - cbn [is_nil negb andb]. destruct (FT k) as [|tf ft] eqn:EF.
    + cbn [is_nil]. split; [intros _|reflexivity]. split; [|intros H; congruence].
      destruct (minl (map (tval gp gm) (tv :: vt))) eqn:E; [reflexivity|]. apply minl_none in E. discriminate.
    + cbn [is_nil]. rewrite !csp_sat_app', !andb_true_iff.
      rewrite (minima_sat sg _ VT k Hsg), (minima_sat sg _ FT k Hsg), EV, EF.
      unfold csp_sat. cbn [forallb ceval ieval]. rewrite andb_true_r, (gpt_eval sg k Hsg), (gmt_eval sg k Hsg), Z.ltb_lt.
      split.
      * intros [[mv [Hv Ev]] [[mf [Hf Ef]] Hlt]]. rewrite Hv, Hf. split.
        -- apply Nat.ltb_lt. lia.
        -- intros _. split; [exists mv|exists mf]; auto.
      * intros [Hc Hm]. destruct (Hm ltac:(discriminate)) as [[mv [Hv Ev]] [mf [Hf Ef]]].
        rewrite Hv, Hf in Hc. apply Nat.ltb_lt in Hc. split; [exists mv; auto|]. split; [exists mf; auto|]. cbn [ieval] in *. lia.
Qed.

Definition auxv (T:nat -> list triple) (z:Z) : Z := match minl (map (tval gp gm) (T (Z.to_nat z))) with Some x => Z.of_nat x | None => 0%Z end.
Definition with_minima (sg:sym -> Z) : sym -> Z :=
  fun s => match s with SMv (SIdx z) => auxv VT z | SMf (SIdx z) => auxv FT z | _ => sg s end.

Lemma csp_holds_forall : csp_holds gp gm (cvd, cfd) = forallb (fun k => constraint gp gm k (VT k) (FT k)) ks.
Proof. unfold csp_holds, cvd, cfd. cbn [fst snd].
  assert (G: forall l, forallb (fun vf => constraint gp gm (fst (fst vf)) (snd (fst vf)) (snd (snd vf)))
                         (combine (map (fun k => (k, VT k)) l) (map (fun k => (k, FT k)) l)) = forallb (fun k => constraint gp gm k (VT k) (FT k)) l).
  { induction l as [|k l IH]; [reflexivity|]. cbn [map combine forallb fst snd]. rewrite IH. reflexivity. }
  apply G. Qed.
Lemma csp_sat_concat' sg (blk:nat -> list icon) l : csp_sat sg (concat (map blk l)) = forallb (fun i => csp_sat sg (blk i)) l.
Proof. induction l as [|i l IH]; [reflexivity|]. cbn [map concat forallb]. rewrite csp_sat_app', IH. reflexivity. Qed.

Theorem tie_crev_csp sg : gamma_assignment sg ->
  ((exists sg', (forall z, sg' (SGp z) = sg (SGp z) /\ sg' (SGm z) = sg (SGm z)) /\ csp_sat sg' crev_csp = true)
   <-> csp_holds gp gm (cvd, cfd) = true).
Proof. intros Hsg. rewrite csp_holds_forall. unfold crev_csp. split.
  - intros [sg' [Hag Hsat]]. assert (Hsg': gamma_assignment sg') by (intros z; rewrite (proj1 (Hag z)), (proj2 (Hag z)); apply Hsg).
    rewrite csp_sat_app', csp_sat_concat' in Hsat. apply andb_true_iff in Hsat as [Hsat _].
    apply forallb_forall. intros k Hk. eapply forallb_forall in Hsat; [|exact Hk]. apply (block_sat sg' k Hsg') in Hsat. tauto.
  - intros Hc. exists (with_minima sg). split; [intros z; split; reflexivity|].
    assert (Hsg': gamma_assignment (with_minima sg)) by (intros z; apply Hsg).
    rewrite csp_sat_app', !csp_sat_concat'. apply andb_true_iff. split.
    + apply forallb_forall. intros k Hk. eapply forallb_forall in Hc; [|exact Hk]. apply (block_sat _ k Hsg'). split; [exact Hc|].
      intros Hf. cbn [with_minima]. unfold auxv. rewrite Nat2Z.id. unfold constraint in Hc. split.
      * destruct (minl (map (tval gp gm) (VT k))) as [x|]; [exists x; auto|discriminate].
      * destruct (minl (map (tval gp gm) (FT k))) as [x|] eqn:E; [exists x; auto|]. apply minl_none in E. apply map_eq_nil in E. contradiction.
    + apply forallb_forall. intros k _. unfold gte, csp_sat. destruct gpz; cbn [app forallb ceval ieval with_minima];
        rewrite ?(proj1 (Hsg _)), ?(proj2 (Hsg _)); rewrite ?andb_true_r; repeat (apply andb_true_iff; split); try reflexivity; apply Z.leb_le; lia.
Qed.
End CrevCsp.

(* ---- the chain compile_alt -> translate_to_csp, and the model's characterisation ---- *)
Section CrevChain.
Variable n : nat.
Variable cs : list cond.
Hypothesis Hnd : NoDup (map ckey cs).
Variable pr : prior.
Definition cond_of (k:nat) : option cond := find (fun c => ckey c =? k) cs.
Definition VTc (k:nat) : list triple := match cond_of k with Some c => triples_alt cs pr c true | None => [] end.
Definition FTc (k:nat) : list triple := match cond_of k with Some c => triples_alt cs pr c false | None => [] end.
Lemma cond_of_key c : In c cs -> cond_of (ckey c) = Some c.
Proof. unfold cond_of. clear pr. induction cs as [|d l IH]; intros Hin; [destruct Hin|]. cbn [map] in Hnd. inversion Hnd as [|? ? Hni Hn']; subst.
  cbn [find]. destruct Hin as [->|Hin]; [rewrite Nat.eqb_refl; reflexivity|].
  destruct (ckey d =? ckey c) eqn:E; [apply Nat.eqb_eq in E; exfalso; apply Hni; rewrite E; apply in_map; exact Hin|]. apply IH; assumption. Qed.
Lemma comp_as_dicts : compile_alt cs pr = (cvd (map ckey cs) VTc, cfd (map ckey cs) FTc).
Proof. unfold compile_alt, cvd, cfd. rewrite !map_map. f_equal; apply map_ext_in; intros c Hc; unfold VTc, FTc; rewrite (cond_of_key c Hc); reflexivity. Qed.

Theorem tie_crev_chain gpz gp gm : (gpz = true -> forall k, gp k = 0) -> exists csp,
  py_translate_to_csp n (zcomp (fst (compile_alt cs pr)), zcomp (snd (compile_alt cs pr))) gpz tt tt = Return csp /\
  forall sg, gamma_assignment gp gm sg ->
    ((exists sg', (forall z, sg' (SGp z) = sg (SGp z) /\ sg' (SGm z) = sg (SGm z)) /\ csp_sat sg' csp = true)
     <-> forallb (accepts_star cs pr gp gm) cs = true).
Proof. intros Hgp0. rewrite comp_as_dicts. cbn [fst snd]. eexists. split; [apply translate_to_csp_shape; exact Hnd|].
  intros sg Hsg. rewrite (tie_crev_csp n (map ckey cs) VTc FTc gpz gp gm Hgp0 sg Hsg).
  rewrite <- comp_as_dicts, (csp_iff_all_accepted cs pr gp gm Hnd). reflexivity. Qed.
End CrevChain.
