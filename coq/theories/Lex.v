From InfOCF Require Import Core.

(* lexicographic order on count vectors (top layer first) *)
Fixpoint lexlt (a b:list nat) : bool := match a,b with
  | x::a', y::b' => if x <? y then true else if y <? x then false else lexlt a' b'
  | _,_ => false end.
Lemma lexlt_irrefl a : lexlt a a = false.
Proof. induction a as [|x a IH]; simpl; auto. rewrite Nat.ltb_irrefl. exact IH. Qed.
Lemma lexlt_trans a b c : lexlt a b = true -> lexlt b c = true -> lexlt a c = true.
Proof. revert b c; induction a as [|x a IH]; destruct b as [|y b], c as [|z c]; simpl; try discriminate.
  destruct (x <? y) eqn:E1.
  - apply Nat.ltb_lt in E1. intros _. destruct (y <? z) eqn:E2.
    + apply Nat.ltb_lt in E2. intros _. assert (x <? z = true) by (apply Nat.ltb_lt; lia). rewrite H; auto.
    + destruct (z <? y) eqn:E3; [discriminate|]. apply Nat.ltb_ge in E2, E3. assert (y = z) by lia. subst.
      intros _. assert (x <? z = true) by (apply Nat.ltb_lt; lia). rewrite H; auto.
  - destruct (y <? x) eqn:E1'; [discriminate|]. apply Nat.ltb_ge in E1, E1'. assert (x = y) by lia. subst y.
    intros H1. destruct (x <? z); auto. destruct (z <? x); auto. intros H2. eapply IH; eauto. Qed.
Lemma lexlt_tricho a b : length a = length b -> lexlt a b = true \/ a = b \/ lexlt b a = true.
Proof. revert b; induction a as [|x a IH]; destruct b as [|y b]; simpl; try discriminate; auto.
  intros Hl. injection Hl as Hl. destruct (x <? y) eqn:E1; auto. destruct (y <? x) eqn:E2; auto.
  apply Nat.ltb_ge in E1, E2. assert (x = y) by lia. subst y.
  destruct (IH b Hl) as [H|[H|H]]; auto. subst; auto. Qed.
Lemma lexle_lt_trans a b c : length a = length b -> lexlt b a = false -> lexlt b c = true -> lexlt a c = true.
Proof. intros Hl H1 H2. destruct (lexlt_tricho a b Hl) as [H|[H|H]]; [eapply lexlt_trans; eauto|subst; auto|congruence]. Qed.

Section L.
Variable world : Type.
Variable W : list world.
Variables AB AnB : pred world.
Notation layer := (layer world).
Notation sel := (sel world W).

Definition vec (ls:list layer) (w:world) : list nat := map (fun F => cnt (F w)) ls.
Lemma vec_len ls w : length (vec ls w) = length ls. Proof. apply map_length. Qed.

Lemma lexmin_exists ls (l:list world) : l <> [] ->
  exists u, In u l /\ forall w, In w l -> lexlt (vec ls w) (vec ls u) = false.
Proof. induction l as [|a l IH]; [congruence|]. intros _. destruct l as [|b l'].
  - exists a. split; [now left|]. intros w [<-|[]]. apply lexlt_irrefl.
  - destruct IH as [u [Hu Hall]]; [discriminate|].
    destruct (lexlt (vec ls a) (vec ls u)) eqn:E.
    + exists a. split; [now left|]. intros w [<-|Hw]; [apply lexlt_irrefl|].
      destruct (lexlt (vec ls w) (vec ls a)) eqn:E'; auto.
      assert (lexlt (vec ls w) (vec ls u) = true) by (eapply lexlt_trans; eauto). rewrite Hall in H; auto.
    + exists u. split; [now right|]. intros w [<-|Hw]; auto. Qed.

Definition fixp (H:pred world) (F:layer) (x:bv) : pred world := fun u => H u && beq (F u) x.
Notation fam := (fam world W).

(* the recursion ranges over correction SETS (each once), as the implementation does *)
Fixpoint lex_rec (ls:list layer) (Hv Hf:pred world) : bool :=
  match ls with
  | [] => match sel Hv AB with [] => false | _ => match sel Hf AnB with [] => true | _ => false end end
  | F::rest =>
    let fv := fam Hv F AB in let ff := fam Hf F AnB in
    match minl (map cnt fv) with None => false | Some nv =>
    match minl (map cnt ff) with None => true | Some nf =>
      if nv <? nf then true else if nf <? nv then false else
      existsb (fun xv => (cnt xv =? nv) &&
        forallb (fun xf => negb (cnt xf =? nf) || lex_rec rest (fixp Hv F xv) (fixp Hf F xf)) ff) fv
    end end
  end.

Definition lspec ls (Hv Hf:pred world) : Prop :=
  (exists w, In w (sel Hv AB)) /\
  forall w', In w' (sel Hf AnB) -> exists w, In w (sel Hv AB) /\ lexlt (vec ls w) (vec ls w') = true.

Lemma sel_fixp H F x phi u : In u (sel (fixp H F x) phi) <-> In u (sel H phi) /\ F u = x.
Proof. rewrite !sel_in. unfold fixp. rewrite andb_true_iff, beq_eq. tauto. Qed.
Lemma fam_sel H F phi x : In x (fam H F phi) <-> exists w, In w (sel H phi) /\ F w = x.
Proof. rewrite (fam_in world W). split; intros [w Hw]; exists w; [destruct Hw as [? [? [? ?]]]; split; auto; apply sel_in; auto|].
  destruct Hw as [Hw ?]. apply sel_in in Hw as [? [? ?]]. auto. Qed.

Lemma minl_fam H F phi n : minl (map cnt (fam H F phi)) = Some n ->
  (exists w, In w (sel H phi) /\ cnt (F w) = n) /\ (forall w, In w (sel H phi) -> n <= cnt (F w)).
Proof. intros E. split.
  - apply minl_in in E. apply in_map_iff in E as [x [Hc Hx]]. apply fam_sel in Hx as [w [Hw <-]]. eauto.
  - intros w Hw. eapply minl_le; eauto. apply in_map. apply fam_sel. eauto. Qed.
Lemma minl_fam_none H F phi : minl (map cnt (fam H F phi)) = None -> sel H phi = [].
Proof. intros E. apply minl_none in E. apply map_eq_nil in E. destruct (sel H phi) as [|w l] eqn:Es; auto.
  exfalso. assert (In (F w) (fam H F phi)) by (apply fam_sel; exists w; rewrite Es; split; [now left|auto]). rewrite E in H0. inversion H0. Qed.

Theorem lex_rec_correct : forall ls Hv Hf, lex_rec ls Hv Hf = true <-> lspec ls Hv Hf.
Proof.
  induction ls as [|F rest IH]; intros Hv Hf.
  - simpl. unfold lspec. destruct (sel Hv AB) as [|w0 sv] eqn:Ev.
    + split; [discriminate|]. intros [[w []] _].
    + destruct (sel Hf AnB) as [|w1 sf] eqn:Ef.
      * split; auto. intros _. split; [exists w0; now left|intros w' []].
      * split; [discriminate|]. intros [_ Hall]. destruct (Hall w1) as [w [_ Hx]]; [now left|]. simpl in Hx. discriminate.
  - cbn [lex_rec].
    destruct (minl (map cnt (fam Hv F AB))) as [nv|] eqn:Env.
    2:{ apply minl_fam_none in Env. split; [discriminate|]. intros [[w Hw] _]. rewrite Env in Hw. inversion Hw. }
    destruct (minl_fam _ _ _ _ Env) as [[wv [Hwv Hcv]] Hvle].
    destruct (minl (map cnt (fam Hf F AnB))) as [nf|] eqn:Enf.
    2:{ apply minl_fam_none in Enf. split; auto. intros _. split; [eauto|]. intros w' Hw'. rewrite Enf in Hw'. inversion Hw'. }
    destruct (minl_fam _ _ _ _ Enf) as [[wf [Hwf Hcf]] Hfle].
    assert (Hhead: forall a b, lexlt (vec (F::rest) a) (vec (F::rest) b) =
       if cnt (F a) <? cnt (F b) then true else if cnt (F b) <? cnt (F a) then false else lexlt (vec rest a) (vec rest b)) by reflexivity.
    destruct (nv <? nf) eqn:E1.
    { apply Nat.ltb_lt in E1. split; auto. intros _. split; [eauto|]. intros w' Hw'. exists wv. split; auto.
      rewrite Hhead. specialize (Hfle w' Hw'). assert (cnt (F wv) <? cnt (F w') = true) by (apply Nat.ltb_lt; lia). rewrite H; auto. }
    destruct (nf <? nv) eqn:E2.
    { apply Nat.ltb_lt in E2. split; [discriminate|]. intros [_ Hall]. destruct (Hall wf Hwf) as [w [Hw Hx]].
      rewrite Hhead in Hx. specialize (Hvle w Hw).
      assert (cnt (F w) <? cnt (F wf) = false) by (apply Nat.ltb_ge; lia).
      assert (cnt (F wf) <? cnt (F w) = true) by (apply Nat.ltb_lt; lia). rewrite H, H0 in Hx. discriminate. }
    apply Nat.ltb_ge in E1, E2. assert (Enn: nv = nf) by lia. clear E1 E2.
    split.
    + intros Hex. apply existsb_exists in Hex as [xv [Hxv Hc]]. apply andb_true_iff in Hc as [Hc Hall]. apply Nat.eqb_eq in Hc.
      apply fam_sel in Hxv as [w [Hw HFw]].
      split; [eauto|]. intros w' Hw'. pose proof (Hfle w' Hw') as Hle.
      destruct (cnt (F w') =? nf) eqn:Ec'.
      * apply Nat.eqb_eq in Ec'. assert (Hin: In (F w') (fam Hf F AnB)) by (apply fam_sel; eauto).
        eapply forallb_forall in Hall; eauto. rewrite Ec', Nat.eqb_refl in Hall. simpl in Hall.
        apply IH in Hall as [_ Hr]. destruct (Hr w') as [u [Hu Hlt]]; [apply sel_fixp; auto|].
        apply sel_fixp in Hu as [Hu HFu]. exists u. split; auto. rewrite Hhead, HFu, Hc, Ec', Enn, Nat.ltb_irrefl. exact Hlt.
      * apply Nat.eqb_neq in Ec'. exists w. split; auto. rewrite Hhead, HFw, Hc.
        assert (nv <? cnt (F w') = true) by (apply Nat.ltb_lt; lia). rewrite H; auto.
    + intros [_ Hall].
      destruct (lexmin_exists (F::rest) (sel Hv AB)) as [u [Hu Humin]]; [intros E; rewrite E in Hwv; inversion Hwv|].
      assert (Hcu: cnt (F u) = nv).
      { pose proof (Hvle u Hu). specialize (Humin wv Hwv). rewrite Hhead in Humin.
        destruct (cnt (F wv) <? cnt (F u)) eqn:E; [discriminate|]. apply Nat.ltb_ge in E. lia. }
      apply existsb_exists. exists (F u). split; [apply fam_sel; eauto|]. apply andb_true_iff. split; [apply Nat.eqb_eq; auto|].
      apply forallb_forall. intros xf Hxf. destruct (cnt xf =? nf) eqn:Ec'; simpl; auto.
      apply Nat.eqb_eq in Ec'. apply IH. split.
      * exists u. apply sel_fixp. auto.
      * intros w'' Hw''. apply sel_fixp in Hw'' as [Hw'' HF'']. destruct (Hall w'' Hw'') as [w1 [Hw1 Hlt1]].
        exists u. split; [apply sel_fixp; auto|].
        assert (Hlt: lexlt (vec (F::rest) u) (vec (F::rest) w'') = true).
        { eapply lexle_lt_trans; [|apply Humin; exact Hw1|exact Hlt1]. rewrite !vec_len; auto. }
        rewrite Hhead in Hlt. rewrite HF'', Hcu, Ec', Enn, Nat.ltb_irrefl in Hlt. exact Hlt.
Qed.

(* the "least vector" form of the property statement *)
Theorem lspec_min_form ls Hv Hf : lspec ls Hv Hf <->
  exists w, In w (sel Hv AB) /\ forall w', In w' (sel Hf AnB) -> lexlt (vec ls w) (vec ls w') = true.
Proof. split.
  - intros [[w0 Hw0] Hall]. destruct (lexmin_exists ls (sel Hv AB)) as [u [Hu Humin]]; [intros E; rewrite E in Hw0; inversion Hw0|].
    exists u. split; auto. intros w' Hw'. destruct (Hall w' Hw') as [w [Hw Hlt]].
    eapply lexle_lt_trans; [|apply Humin; exact Hw|exact Hlt]. rewrite !vec_len; auto.
  - intros [w [Hw Hall]]. split; eauto. Qed.
End L.
Print Assumptions lex_rec_correct.
Print Assumptions lspec_min_form.
