From InfOCF Require Import Core Form PyLib TieLib TieSet.
From InfOCFGen Require Import SrcOpt.
From Coq Require Import ZArith Lia.
(* TIE: Optimizer.get_violated_conditional GENERATED from inference/optimizer.py (gen/SrcOpt.v).  Whenever the cost handed
   over is at least the number of violated clauses among the scanned (non-ignored) ones, the early exit `counter == cost`
   never truncates the result: the returned set holds exactly the indices of the non-ignored conditionals with a clause
   that contains no literal of the model. *)

Definition csatz (m cl:list Z) : bool := existsb (fun x => zmem x cl) m.       (* any(x in clause for x in model) *)
Definition flatz (ig:list Z) (nf:dict Z (list (list Z))) : list (Z * list Z) :=
  flat_map (fun kc => if zmem (fst kc) ig then [] else map (fun cl => (fst kc, cl)) (snd kc)) nf.
Definition nvz (m:list Z) (fl:list (Z * list Z)) : nat := length (filter (fun kc => negb (csatz m (snd kc))) fl).
Definition violz (m:list Z) (fl:list (Z * list Z)) (x:Z) : Prop := exists cl, In (x, cl) fl /\ csatz m cl = false.

Lemma zset_add_in s k x : In x (zset_add s k) <-> In x s \/ x = k.
Proof. unfold zset_add. destruct (zmem k s) eqn:E.
  - apply zmem_in in E. split; [auto|]. intros [H| ->]; assumption.
  - rewrite in_app_iff. simpl. intuition. Qed.
Lemma nvz_app m a b : nvz m (a ++ b) = nvz m a + nvz m b.
Proof. unfold nvz. rewrite filter_app, app_length. reflexivity. Qed.
Lemma nvz0 m fl : nvz m fl = 0 -> forall x, ~ violz m fl x.
Proof. unfold nvz. intros H x [cl [Hin Hs]]. assert (Hf: In (x, cl) (filter (fun kc => negb (csatz m (snd kc))) fl)).
  { apply filter_In. split; [exact Hin|]. simpl. rewrite Hs. reflexivity. }
  destruct (filter _ fl); [destruct Hf|discriminate]. Qed.
Lemma violz_app m a b x : violz m (a ++ b) x <-> violz m a x \/ violz m b x.
Proof. unfold violz. split.
  - intros [cl [Hin Hs]]. apply in_app_or in Hin as [Hin|Hin]; [left|right]; exists cl; auto.
  - intros [[cl [Hin Hs]]|[cl [Hin Hs]]]; exists cl; split; auto; apply in_or_app; auto. Qed.

Section Scan.
Variable m : list Z.
Variable cost : Z.
Notation St := (Z * list Z)%type.

(* outcome of scanning a stretch fl, followed by `later`: either the loop goes on with the count advanced, or it returned *)
Definition scanned {L} (fl later:list (Z * list Z)) (cnt:Z) (vio:list Z) (out:ctl (list Z) L St) : Prop :=
  (exists vio', out = Next ((cnt + Z.of_nat (nvz m fl))%Z, vio') /\ (cnt + Z.of_nat (nvz m fl) < cost)%Z /\
                forall x, In x vio' <-> In x vio \/ violz m fl x)
  \/ (exists vio', out = Return vio' /\ forall x, In x vio' <-> In x vio \/ violz m (fl ++ later) x).

Variable k : Z.
Variable bodyin : list Z -> St -> ctl (list Z) St St.
Hypothesis Hbodyin : forall cl cnt vio,
  bodyin cl (cnt, vio) =
  (let '(c', v') := if negb (csatz m cl) then ((cnt + 1)%Z, zset_add vio k) else (cnt, vio) in
   if (c' =? cost)%Z then Return v' else Next (c', v')).

Lemma inner_loop {L} later : forall cls cnt vio, (cnt < cost)%Z ->
  (cnt + Z.of_nat (nvz m (map (fun cl => (k, cl)) cls ++ later)) <= cost)%Z ->
  scanned (map (fun cl => (k, cl)) cls) later cnt vio (@for_each _ _ L _ cls bodyin (cnt, vio)).
Proof. induction cls as [|cl cls IH]; intros cnt vio Hlt Hle.
  - left. exists vio. cbn [map for_each]. unfold nvz at 1 2. cbn. rewrite Z.add_0_r. split; [reflexivity|]. split; [exact Hlt|].
    intros x. split; [auto|]. intros [H|[c0 [[] _]]]. exact H.
  - cbn [map for_each]. rewrite Hbodyin. cbn [map app] in Hle.
    change ((k, cl) :: map (fun cl0 => (k, cl0)) cls ++ later) with ([(k, cl)] ++ (map (fun cl0 => (k, cl0)) cls ++ later)) in Hle.
    rewrite nvz_app in Hle. unfold nvz at 1 in Hle. cbn [filter snd] in Hle.
    assert (Esplit: forall x, violz m ((k, cl) :: map (fun cl0 => (k, cl0)) cls) x <-> (x = k /\ csatz m cl = false) \/ violz m (map (fun cl0 => (k, cl0)) cls) x).
    { intros x. change ((k, cl) :: map (fun cl0 => (k, cl0)) cls) with ([(k, cl)] ++ map (fun cl0 => (k, cl0)) cls). rewrite violz_app.
      unfold violz at 1. split.
      - intros [[c0 [[Heq|[]] Hs]]|H]; [inversion Heq; subst; left; auto|right; exact H].
      - intros [[-> Hs]|H]; [left; exists cl; split; [left; reflexivity|exact Hs]|right; exact H]. }
    assert (Env: nvz m ((k, cl) :: map (fun cl0 => (k, cl0)) cls) = (if negb (csatz m cl) then 1 else 0) + nvz m (map (fun cl0 => (k, cl0)) cls)).
    { unfold nvz. cbn [filter snd]. destruct (negb (csatz m cl)); reflexivity. }
    destruct (csatz m cl) eqn:Ec; cbn [negb] in *.
    + (* satisfied clause: count unchanged *)
      assert (E: (cnt =? cost)%Z = false) by (apply Z.eqb_neq; lia). rewrite E.
      cbn [length] in Hle. destruct (IH cnt vio Hlt ltac:(lia)) as [[vio' [Eo [Hc Hv]]]|[vio' [Eo Hv]]].
      * left. exists vio'. rewrite Eo, Env. cbn [plus]. split; [reflexivity|]. split; [exact Hc|].
        intros x. rewrite Hv, Esplit. intuition congruence.
      * right. exists vio'. split; [exact Eo|]. intros x. rewrite Hv. cbn [app].
        change ((k, cl) :: map (fun cl0 => (k, cl0)) cls ++ later) with ([(k, cl)] ++ (map (fun cl0 => (k, cl0)) cls ++ later)).
        rewrite (violz_app m [(k, cl)]). unfold violz at 2. split; [intuition|].
        intros [H|[[c0 [[Heq|[]] Hs]]|H]]; [auto| |auto]. inversion Heq; subst. congruence.
    + (* violated clause *)
      cbn [length] in Hle. destruct (cnt + 1 =? cost)%Z eqn:E.
      * apply Z.eqb_eq in E. right. exists (zset_add vio k). split; [reflexivity|].
        assert (Hz: nvz m (map (fun cl0 => (k, cl0)) cls ++ later) = 0) by lia.
        intros x. rewrite zset_add_in. cbn [app].
        change ((k, cl) :: map (fun cl0 => (k, cl0)) cls ++ later) with ([(k, cl)] ++ (map (fun cl0 => (k, cl0)) cls ++ later)).
        rewrite (violz_app m [(k, cl)]). split.
        -- intros [H| ->]; [auto|]. right. left. exists cl. split; [left; reflexivity|exact Ec].
        -- intros [H|[[c0 [[Heq|[]] Hs]]|H]]; [auto|inversion Heq; subst; auto|exfalso; exact (nvz0 m _ Hz x H)].
      * apply Z.eqb_neq in E. destruct (IH (cnt + 1)%Z (zset_add vio k) ltac:(lia) ltac:(lia)) as [[vio' [Eo [Hc Hv]]]|[vio' [Eo Hv]]].
        -- left. exists vio'. rewrite Eo, Env. split; [f_equal; f_equal; lia|]. split; [lia|].
           intros x. rewrite Hv, zset_add_in, Esplit. intuition.
        -- right. exists vio'. split; [exact Eo|]. intros x. rewrite Hv, zset_add_in. cbn [app].
           change ((k, cl) :: map (fun cl0 => (k, cl0)) cls ++ later) with ([(k, cl)] ++ (map (fun cl0 => (k, cl0)) cls ++ later)).
           rewrite (violz_app m [(k, cl)]). unfold violz at 2. split.
           ++ intros [[H| ->]|H]; [auto| |auto]. right. left. exists cl. split; [left; reflexivity|exact Ec].
           ++ intros [H|[[c0 [[Heq|[]] Hs]]|H]]; [auto|inversion Heq; subst; auto|auto].
Qed.
End Scan.

Theorem tie_get_violated n (nf:dict Z (list (list Z))) (m:list Z) (cost:Z) (ig:list Z) :
  (Z.of_nat (nvz m (flatz ig nf)) <= cost)%Z -> exists res,
  py_get_violated_conditional n nf m cost ig = Return res /\ forall k, In k res <-> violz m (flatz ig nf) k.
Proof. intros Hle. unfold py_get_violated_conditional. cbv zeta.
  destruct (0 <? cost)%Z eqn:Ec; cbn [cbind].
  2:{ exists []. split; [reflexivity|]. apply Z.ltb_ge in Ec. assert (Hz: nvz m (flatz ig nf) = 0) by lia.
      intros k. split; [intros []|]. intros H. exact (nvz0 m _ Hz k H). }
  apply Z.ltb_lt in Ec.
  match goal with |- context [for_each nf ?b _] => set (body := b) end.
  assert (G: forall l cnt vio, (cnt < cost)%Z -> (cnt + Z.of_nat (nvz m (flatz ig l)) <= cost)%Z ->
             scanned m cost (flatz ig l) [] cnt vio (@for_each _ _ unit _ l body (cnt, vio))).
  { induction l as [|[k cls] l IH]; intros cnt vio Hlt Hl.
    - left. exists vio. cbn. rewrite Z.add_0_r. split; [reflexivity|]. split; [exact Hlt|]. intros x. split; [auto|]. intros [H|[c0 [[] _]]]. exact H.
    - cbn [for_each]. unfold body at 1. cbv beta iota.
      assert (Efl: flatz ig ((k, cls) :: l) = (if zmem k ig then [] else map (fun cl => (k, cl)) cls) ++ flatz ig l) by reflexivity.
      rewrite Efl in Hl |- *. destruct (zmem k ig) eqn:Eig; cbn [cbind app] in *.
      + apply IH; assumption.
      + rewrite nvz_app in Hl.
        match goal with |- context [for_each cls ?b _] => set (bodyin := b) end.
        assert (Hb: forall cl c v, bodyin cl (c, v) =
                  (let '(c', v') := if negb (csatz m cl) then ((c + 1)%Z, zset_add v k) else (c, v) in
                   if (c' =? cost)%Z then Return v' else Next (c', v'))).
        { intros cl c v. unfold bodyin. unfold csatz. destruct (negb (existsb (fun x => zmem x cl) m)); cbv beta iota;
            match goal with |- context [(?a =? cost)%Z] => destruct (a =? cost)%Z end; reflexivity. }
        destruct (@inner_loop m cost k bodyin Hb (Z * list Z)%type (flatz ig l) cls cnt vio Hlt ltac:(rewrite nvz_app; lia)) as [[vio' [Eo [Hc Hv]]]|[vio' [Eo Hv]]].
        * rewrite Eo. cbn [cbind].
          destruct (IH (cnt + Z.of_nat (nvz m (map (fun cl => (k, cl)) cls)))%Z vio' Hc ltac:(lia)) as [[vio2 [Eo2 [Hc2 Hv2]]]|[vio2 [Eo2 Hv2]]].
          -- left. exists vio2. rewrite Eo2, nvz_app. split; [f_equal; f_equal; lia|]. split; [lia|].
             intros x. rewrite Hv2, Hv, violz_app. tauto.
          -- right. exists vio2. split; [exact Eo2|]. intros x. rewrite Hv2, Hv, !app_nil_r, violz_app. tauto.
        * rewrite Eo. cbn [cbind]. right. exists vio'. split; [reflexivity|]. intros x. rewrite Hv, app_nil_r. tauto. }
  destruct (G nf 0%Z [] Ec ltac:(lia)) as [[vio' [Eo [Hc Hv]]]|[vio' [Eo Hv]]]; rewrite Eo; cbn [cbind].
  - exists vio'. split; [reflexivity|]. intros k. rewrite Hv. split; [intros [[]|H]; exact H|auto].
  - exists vio'. split; [reflexivity|]. intros k. rewrite Hv, app_nil_r. split; [intros [[]|H]; exact H|auto].
Qed.

(* ---- exclude_violated: the blocking constraint ---- *)
(* clauses (c \/ -h_k) for every clause c of every blocked conditional k, and one clause (h_1 \/ ... \/ h_m) *)
Definition zexclude (sel:list (Z * list (list Z))) : list (list Z) :=
  flat_map (fun hc => map (fun c => c ++ [(- fst hc)%Z]) (snd hc)) sel ++ [map fst sel].
Definition clauses_of (nf:dict Z (list (list Z))) (k:Z) : list (list Z) := match zdict_find nf k with Some c => c | None => [] end.

Theorem tie_exclude_violated n (pid:Z -> ctl Z unit unit) (hid:Z -> Z) (nf:dict Z (list (list Z))) (violated:list Z) :
  (forall k, In k violated -> pid k = Return (hid k)) -> (forall k, In k violated -> zdict_find nf k <> None) ->
  py_exclude_violated n pid nf tt violated = Return (zexclude (map (fun k => (hid k, clauses_of nf k)) violated)).
Proof. intros Hpid Hnf. unfold py_exclude_violated. cbv zeta.
  match goal with |- context [for_each violated ?b _] => set (body := b) end.
  assert (G: forall l rc hv, (forall k, In k l -> pid k = Return (hid k) /\ zdict_find nf k <> None) ->
             @for_each _ _ unit _ l body (rc, hv)
             = Next (rc ++ flat_map (fun hc => map (fun c => c ++ [(- fst hc)%Z]) (snd hc)) (map (fun k => (hid k, clauses_of nf k)) l),
                     hv ++ map fst (map (fun k => (hid k, clauses_of nf k)) l))).
  { induction l as [|k l IH]; intros rc hv Hl; [cbn; rewrite !app_nil_r; reflexivity|].
    cbn [for_each map flat_map fst snd]. unfold body at 1. rewrite (proj1 (Hl k (or_introl eq_refl))). cbn [call].
    unfold zdict_get, clauses_of. destruct (zdict_find nf k) as [cls|] eqn:E; [|exfalso; apply (proj2 (Hl k (or_introl eq_refl))); exact E].
    cbn [cbind].
    assert (Ef: forall cl acc, fold_left (fun v_return_constraints v_clause => v_return_constraints ++ [v_clause ++ [(hid k * -1)%Z]]) cl acc
                              = acc ++ map (fun c => c ++ [(- hid k)%Z]) cl).
    { induction cl as [|c cl IHc]; intros acc; [cbn; rewrite app_nil_r; reflexivity|]. cbn [fold_left map]. rewrite IHc, <- app_assoc.
      replace (hid k * -1)%Z with (- hid k)%Z by lia. reflexivity. }
    rewrite Ef, IH by (intros k' Hk'; apply Hl; right; exact Hk').
    rewrite <- !app_assoc. reflexivity. }
  rewrite (G violated [] []) by (intros k Hk; split; [apply Hpid|apply Hnf]; exact Hk). cbn [cbind app]. reflexivity. Qed.
