From InfOCF Require Import Core Tol Mcs Form Model PyLib TieLib TieSet TieSolver TieMax TieZ3Loop.
From InfOCFGen Require Import SrcCondZ3.
From Coq Require Import ZArith.
(* get_all_xi_i of the z3 back-ends (system_w_z3.py and lex_inf_z3.py carry the same text).  `gax_model` is that text as
   the translator emits it; TieWZ3.v / TieLexZ3.v check by reflexivity that each generated function IS this term, so a
   change to either source breaks its tie.  Proved here: with an optimiser that returns a best model (PyLib.o_model), the
   loop returns exactly the inclusion-minimal falsification sets of the layer, each once, within one round per world,
   and leaves nothing behind below the current frame. *)

Definition gax_model (n : nat) (fuel : nat)  (v_opt : zopt) (v_part : (list cond)) : ctl ((list (list cond)) * zopt) unit unit :=
  let v_xi_i_set := [] in
let v_opt := fold_left (fun v_opt v_conditional => let v_opt := (o_add_soft v_opt (FNot (py_z3_make_A_then_not_B n v_conditional))) in
v_opt) v_part v_opt in
cbind (while_true fuel (fun '(v_xi_i_set, v_opt) => let v_check := (o_check n v_opt) in
cbind (if (Bool.eqb v_check false) then (Return (v_xi_i_set, v_opt)) else (Next tt)) (fun 'tt =>
cbind (if (negb (Bool.eqb v_check true)) then (Raise) else (Next tt)) (fun 'tt =>
let v_m := (o_model n v_opt) in
let v_xi_i := (cset_of (map (fun v_c => v_c) (filter (fun v_c => (eval v_m (py_z3_make_A_then_not_B n v_c))) v_part))) in
let v_xi_i_set := (csetset_add v_xi_i_set v_xi_i) in
cbind (if (cset_eqb v_xi_i []) then (Return (v_xi_i_set, v_opt)) else (Next tt)) (fun 'tt =>
let v_opt := (o_add v_opt (f_or_list (map (fun v_c => (FNot (py_z3_make_A_then_not_B n v_c))) v_xi_i))) in
Next (v_xi_i_set, v_opt))))) (v_xi_i_set, v_opt)) (fun _ => Raise).


Lemma filter_sel (g:cond -> bool) part : filter g part = sel_b true part (map g part).
Proof. induction part as [|c part IH]; simpl; [reflexivity|]. destruct (g c); simpl; rewrite IH; reflexivity. Qed.
Lemma cmem_sel part x c : cmem c (sel_b true part x) = zmem (ckz c) (keys_of_bv (map ckz part) x).
Proof. unfold cmem. assert (E: map ckz (sel_b true part x) = keys_of_bv (map ckz part) x) by (symmetry; apply (kob_sel part x)).
  rewrite E. reflexivity. Qed.
Lemma sel_nodup part x : NoDup (map ckz part) -> NoDup (map ckz (sel_b true part x)).
Proof. intros Hn. assert (E: map ckz (sel_b true part x) = keys_of_bv (map ckz part) x) by (symmetry; apply (kob_sel part x)).
  rewrite E. apply kob_nodup. exact Hn. Qed.
Lemma cset_of_nodup l : NoDup (map ckz l) -> cset_of l = l.
Proof. induction l as [|c l IH]; intros Hn; [reflexivity|]. simpl in Hn. inversion Hn as [|? ? Hni Hn']; subst. simpl. rewrite IH by exact Hn'.
  unfold cmem. apply zmem_false in Hni. rewrite Hni. reflexivity. Qed.
Lemma cset_eqb_sel part x y : NoDup (map ckz part) -> length x = length part -> length y = length part ->
  cset_eqb (sel_b true part x) (sel_b true part y) = beq x y.
Proof. intros Hn Hx Hy. unfold cset_eqb, csubset.
  assert (Ex: map ckz (sel_b true part x) = keys_of_bv (map ckz part) x) by (symmetry; apply (kob_sel part x)).
  assert (Ey: map ckz (sel_b true part y) = keys_of_bv (map ckz part) y) by (symmetry; apply (kob_sel part y)).
  rewrite Ex, Ey. fold (zset_eqb (keys_of_bv (map ckz part) x) (keys_of_bv (map ckz part) y)).
  apply zset_eqb_kob; rewrite ?map_length; auto. Qed.
Lemma cset_eqb_nil part x : length x = length part -> cset_eqb (sel_b true part x) [] = (cnt x =? 0).
Proof. revert x. induction part as [|c part IH]; intros [|b x] Hl; simpl in Hl; try discriminate; [reflexivity|].
  injection Hl as Hl. specialize (IH x Hl). cbn [sel_b cnt]. destruct b; cbn [Bool.eqb]; [reflexivity|exact IH]. Qed.
Lemma blocking_clause n0 part x w : length x = length part ->
  eval w (f_or_list (map (fun v_c => FNot (py_z3_make_A_then_not_B n0 v_c)) (sel_b true part x))) = negb (sub x (map (fun c => fal c w) part)).
Proof. revert x. induction part as [|c part IH]; intros [|b x] Hl; simpl in Hl; try discriminate; [reflexivity|].
  injection Hl as Hl. specialize (IH x Hl). cbn [sel_b map sub]. destruct b; cbn [Bool.eqb implb].
  - cbn [map f_or_list fold_right eval]. fold (f_or_list (map (fun v_c => FNot (py_z3_make_A_then_not_B n0 v_c)) (sel_b true part x))).
    rewrite IH. change (eval w (py_z3_make_A_then_not_B n0 c)) with (fal c w). destruct (fal c w); reflexivity.
  - exact IH. Qed.
Lemma o_holds_add o f w : o_holds (o_add o f) w = eval w f && o_holds o w.
Proof. destruct o as [|[h s] r]; unfold o_holds, o_hard; simpl; [rewrite andb_true_r|]; reflexivity. Qed.
Lemma o_soft_add o f : o_soft (o_add o f) = o_soft o.
Proof. destruct o as [|[h s] r]; reflexivity. Qed.
Lemma o_pop_add o f : o_pop (o_add o f) = o_pop o.
Proof. destruct o as [|[h s] r]; reflexivity. Qed.
Lemma o_hard_add_soft o f : o_hard (o_add_soft o f) = o_hard o.
Proof. destruct o as [|[h s] r]; reflexivity. Qed.
Lemma o_soft_add_soft o f : o_soft (o_add_soft o f) = f :: o_soft o.
Proof. destruct o as [|[h s] r]; reflexivity. Qed.
Lemma o_pop_add_soft o f : o_pop (o_add_soft o f) = o_pop o.
Proof. destruct o as [|[h s] r]; reflexivity. Qed.
Lemma existsb_filter_nil {A} (p:A -> bool) l : existsb p l = negb (is_nil (filter p l)).
Proof. induction l as [|a l IH]; [reflexivity|]. simpl. destruct (p a); [reflexivity|exact IH]. Qed.

Section Gax.
Variable n : nat.
Notation W := (worlds n).
Variable part : list cond.
Hypothesis Hpn : NoDup (map ckz part).
Variable opt : zopt.
Hypothesis Hsoft : o_soft opt = [].
Definition gH : pred world := o_holds opt.
Definition gF : layer world := layer_of (map ac part).
Definition gsel (x:bv) : list cond := sel_b true part x.
Notation famH := (Core.fam world W gH gF (top world)).

Lemma gF_fal w : gF w = map (fun c => fal c w) part.
Proof. unfold gF, layer_of. rewrite map_map. reflexivity. Qed.
Lemma gF_len w : length (gF w) = length part.
Proof. rewrite gF_fal. apply map_length. Qed.

(* the optimiser after the soft constraints of the layer have been added *)
Definition opt1 : zopt := fold_left (fun v_opt v_conditional => o_add_soft v_opt (FNot (py_z3_make_A_then_not_B n v_conditional))) part opt.
Lemma soft_fold_facts : forall L o, let o' := fold_left (fun v_opt v_conditional => o_add_soft v_opt (FNot (py_z3_make_A_then_not_B n v_conditional))) L o in
  o_hard o' = o_hard o /\ o_pop o' = o_pop o /\ forall w, o_cost o' w = cnt (map (fun c => fal c w) L) + o_cost o w.
Proof. induction L as [|c L IH]; intros o; cbn [fold_left]; [repeat split; reflexivity|].
  destruct (IH (o_add_soft o (FNot (py_z3_make_A_then_not_B n c)))) as [E1 [E2 E3]]. cbv zeta in *.
  rewrite E1, E2, o_hard_add_soft, o_pop_add_soft. repeat split; try reflexivity.
  intros w. rewrite E3. unfold o_cost. rewrite o_soft_add_soft. cbn [filter map cnt].
  change (eval w (FNot (py_z3_make_A_then_not_B n c))) with (negb (fal c w)). destruct (fal c w); cbn [negb length]; lia. Qed.

(* invariant of the loop: the found sets `acc`, all blocked *)
Definition inv (acc:list bv) (o:zopt) : Prop :=
  (forall w, o_holds o w = gH w && notblocked acc (gF w)) /\ (forall w, o_cost o w = cnt (gF w)) /\ o_pop o = o_pop opt
  /\ (forall x, In x acc -> length x = length part).

Lemma inv_init : inv [] opt1.
Proof. destruct (soft_fold_facts part opt) as [E1 [E2 E3]]. fold opt1 in E1, E2, E3. repeat split.
  - intros w. unfold o_holds. rewrite E1. unfold gH, o_holds. simpl. rewrite andb_true_r. reflexivity.
  - intros w. rewrite E3, gF_fal. assert (E0: o_cost opt w = 0) by (unfold o_cost; rewrite Hsoft; reflexivity). rewrite E0. lia.
  - exact E2.
  - intros x []. Qed.

Lemma model_is_best acc o : inv acc o -> o_model n o = best world W gH gF [] acc.
Proof. intros [Hh [Hc _]]. unfold o_model, best, cand.
  rewrite (filter_ext (o_holds o) (fun w => gH w && notblocked acc (gF w)) Hh).
  apply argmin_ext. intros w _. apply Hc. Qed.
Lemma check_is_cand acc o : inv acc o -> o_check n o = negb (is_nil (cand world W gH gF acc)).
Proof. intros [Hh _]. unfold o_check, cand. rewrite existsb_filter_nil.
  rewrite (filter_ext (o_holds o) (fun w => gH w && notblocked acc (gF w)) Hh). reflexivity. Qed.

Lemma loop_tie : forall f acc o, inv acc o -> forall res, zloop world W gH gF [] f acc = Some res ->
  exists o', @while_true _ unit _ f
    (fun '(v_xi_i_set, v_opt) => let v_check := (o_check n v_opt) in
      cbind (if (Bool.eqb v_check false) then (Return (v_xi_i_set, v_opt)) else (Next tt)) (fun 'tt =>
      cbind (if (negb (Bool.eqb v_check true)) then (Raise) else (Next tt)) (fun 'tt =>
      let v_m := (o_model n v_opt) in
      let v_xi_i := (cset_of (map (fun v_c => v_c) (filter (fun v_c => (eval v_m (py_z3_make_A_then_not_B n v_c))) part))) in
      let v_xi_i_set := (csetset_add v_xi_i_set v_xi_i) in
      cbind (if (cset_eqb v_xi_i []) then (Return (v_xi_i_set, v_opt)) else (Next tt)) (fun 'tt =>
      let v_opt := (o_add v_opt (f_or_list (map (fun v_c => (FNot (py_z3_make_A_then_not_B n v_c))) v_xi_i))) in
      Next (v_xi_i_set, v_opt))))) (map gsel acc, o)
    = Return (map gsel res, o') /\ o_pop o' = o_pop opt.
Proof. induction f as [|f IH]; intros acc o Hinv res Hz; [discriminate|].
  cbn [zloop] in Hz. rewrite while_true_S. cbv beta iota zeta.
  rewrite (check_is_cand acc o Hinv).
  destruct (cand world W gH gF acc) as [|c0 cs] eqn:Ec; cbn [is_nil negb Bool.eqb cbind].
  - injection Hz as <-. exists o. split; [reflexivity|]. destruct Hinv as [_ [_ [Hp _]]]. exact Hp.
  - cbv beta iota zeta in Hz. assert (Hne: cand world W gH gF acc <> []) by (rewrite Ec; discriminate).
    rewrite (model_is_best acc o Hinv). set (m := best world W gH gF [] acc) in *. set (v := gF m) in *.
    destruct (best_minimal world W gH gF [] acc Hne) as [_ Hbin]. fold m in Hbin.
    apply cand_in in Hbin as [Hmw [Hmh Hmnb]]. fold v in Hmnb.
    (* the set read off the model *)
    assert (Exi: cset_of (map (fun v_c => v_c) (filter (fun v_c => eval m (py_z3_make_A_then_not_B n v_c)) part)) = gsel v).
    { rewrite map_id. change (fun v_c => eval m (py_z3_make_A_then_not_B n v_c)) with (fun c => fal c m).
      rewrite filter_sel. unfold gsel, v. rewrite gF_fal. apply cset_of_nodup. apply sel_nodup. exact Hpn. }
    rewrite Exi.
    destruct Hinv as [Hh [Hc [Hp Hl]]].
    assert (Hvl: length v = length part) by (unfold v; apply gF_len).
    assert (Hadd: csetset_add (map gsel acc) (gsel v) = map gsel (acc ++ [v])).
    { unfold csetset_add. assert (E: csetmem (gsel v) (map gsel acc) = false).
      { unfold csetmem. rewrite existsb_map. destruct (existsb _ acc) eqn:Ex; [|reflexivity]. exfalso.
        apply existsb_exists in Ex as [x [Hx Hs]]. unfold gsel in Hs. rewrite cset_eqb_sel in Hs by (auto; apply Hl; exact Hx).
        apply beq_eq in Hs. subst x. unfold notblocked in Hmnb. eapply forallb_forall in Hmnb; [|exact Hx].
        rewrite sub_refl in Hmnb. discriminate. }
      rewrite E. rewrite map_app. reflexivity. }
    rewrite Hadd. unfold gsel at 1. rewrite cset_eqb_nil by exact Hvl.
    destruct (cnt v =? 0) eqn:E0; cbn [cbind].
    + injection Hz as <-. exists o. split; [reflexivity|exact Hp].
    + apply (IH (acc ++ [v]) _); [|exact Hz]. repeat split.
      * intros w. rewrite o_holds_add, Hh. unfold gsel. rewrite blocking_clause by exact Hvl.
        rewrite notblocked_app, <- gF_fal. destruct (gH w), (notblocked acc (gF w)), (sub v (gF w)); reflexivity.
      * intros w. unfold o_cost. rewrite o_soft_add. apply Hc.
      * rewrite o_pop_add. exact Hp.
      * intros x Hx. apply in_app_or in Hx as [Hx|[<-|[]]]; auto.
Qed.

(* get_all_xi_i: exactly the inclusion-minimal falsification sets of the layer under the optimiser's hard assertions *)
Theorem gax_spec fuel : length W < fuel -> exists R opt',
  gax_model n fuel opt part = Return (R, opt') /\ o_pop opt' = o_pop opt /\
  (forall xi, In xi R <-> exists x, In x (minimal famH) /\ xi = gsel x).
Proof. intros Hf. unfold gax_model. cbv zeta.
  change (fold_left _ part opt) with opt1.
  destruct (zloop_spec world W gH gF (length part) gF_len [] fuel []) as [res [Hz [Hm [Hall _]]]].
  { pose proof (cand_le world W gH gF []). lia. }
  { intros x []. }
  destruct (loop_tie fuel [] opt1 inv_init res Hz) as [o' [Hrun Hp]].
  cbn [map] in Hrun. rewrite Hrun. cbn [cbind]. exists (map gsel res), o'. split; [reflexivity|]. split; [exact Hp|].
  intros xi. rewrite in_map_iff. split.
  - intros [x [<- Hx]]. exists x. split; [apply Hm; exact Hx|reflexivity].
  - intros [x [Hx ->]]. exists x. split; [reflexivity|apply Hall; exact Hx].
Qed.
End Gax.

(* ---- consequences used by both z3 recursions ---- *)
Lemma o_holds_push o w : o_holds (o_push o) w = o_holds o w.  Proof. reflexivity. Qed.
Lemma o_soft_push o : o_soft (o_push o) = o_soft o.  Proof. reflexivity. Qed.
Lemma o_pop_push o : o_pop (o_push o) = o.  Proof. reflexivity. Qed.
Lemma o_pop_fold_add (g:cond -> form) L o : o_pop (fold_left (fun v_opt v_c => o_add v_opt (g v_c)) L o) = o_pop o.
Proof. revert o. induction L as [|c L IH]; intros o; [reflexivity|]. cbn [fold_left]. rewrite IH. apply o_pop_add. Qed.
Lemma o_soft_fold_add (g:cond -> form) L o : o_soft (fold_left (fun v_opt v_c => o_add v_opt (g v_c)) L o) = o_soft o.
Proof. revert o. induction L as [|c L IH]; intros o; [reflexivity|]. cbn [fold_left]. rewrite IH. apply o_soft_add. Qed.
Lemma o_holds_fold_add (g:cond -> form) L o w :
  o_holds (fold_left (fun v_opt v_c => o_add v_opt (g v_c)) L o) w = forallb (fun c => eval w (g c)) L && o_holds o w.
Proof. revert o. induction L as [|c L IH]; intros o; [reflexivity|]. cbn [fold_left forallb]. rewrite IH, o_holds_add.
  destruct (eval w (g c)), (forallb (fun c0 => eval w (g c0)) L); reflexivity. Qed.

Section GaxFam.
Variable n : nat.
Notation W := (worlds n).
Variable part : list cond.
Hypothesis Hpn : NoDup (map ckz part).
Notation F := (layer_of (map ac part)).
Notation sel := (sel_b true part).

Lemma gax_family opt (H phi:pred world) fuel : o_soft opt = [] -> (forall w, o_holds opt w = phi w && H w) -> length W < fuel ->
  exists R opt', gax_model n fuel opt part = Return (R, opt') /\ o_pop opt' = o_pop opt /\
    (forall xi, In xi R <-> exists x, In x (minimal (Core.fam world W H F phi)) /\ xi = sel x).
Proof. intros Hs Hh Hf. destruct (gax_spec n part Hpn opt Hs fuel Hf) as [R [o' [E1 [E2 E3]]]].
  exists R, o'. split; [exact E1|]. split; [exact E2|]. intros xi. rewrite E3.
  assert (Efam: Core.fam world W (gH opt) (gF part) (top world) = Core.fam world W H F phi).
  { unfold Core.fam, Core.sel, gH, gF, top. f_equal. f_equal. apply filter_ext. intros w. rewrite Hh, andb_true_r. apply andb_comm. }
  rewrite Efam. reflexivity. Qed.

(* the pattern asserted before descending: xi falsified, the rest of the layer not falsified *)
Lemma pattern_holds x o w : length x = length part ->
  o_holds (fold_left (fun v_opt v_c => o_add v_opt (FNot (py_z3_make_A_then_not_B n v_c))) (filter (fun v_c => negb (cmem v_c (sel x))) part)
            (fold_left (fun v_opt v_c => o_add v_opt (py_z3_make_A_then_not_B n v_c)) (sel x) (o_push o))) w
  = o_holds o w && beq (F w) x.
Proof. intros Hl. rewrite !o_holds_fold_add, o_holds_push.
  change (fun c => eval w (FNot (py_z3_make_A_then_not_B n c))) with (fun c => negb (fal c w)).
  change (fun c => eval w (py_z3_make_A_then_not_B n c)) with (fun c => fal c w).
  assert (Efil: filter (fun v_c => negb (cmem v_c (sel x))) part = sel_b false part x).
  { clear w. revert x Hl. induction part as [|c L IH]; intros [|y x] Hl; simpl in Hl; try discriminate; [reflexivity|].
    injection Hl as Hl. simpl in Hpn. inversion Hpn as [|? ? Hni Hn']; subst.
    assert (Hrest: forall S, filter (fun v_c => negb (cmem v_c (c :: S))) L = filter (fun v_c => negb (cmem v_c S)) L).
    { intros S. apply filter_ext_in. intros c' Hc'. unfold cmem, zmem. simpl.
      destruct (ckz c' =? ckz c)%Z eqn:E; [|reflexivity]. apply Z.eqb_eq in E. exfalso. apply Hni. rewrite <- E. apply in_map. exact Hc'. }
    cbn [sel_b filter]. destruct y; cbn [Bool.eqb].
    - unfold cmem at 1. cbn [map zmem existsb]. unfold zmem. cbn [existsb]. rewrite Z.eqb_refl. cbn [orb negb]. rewrite Hrest. apply IH; auto.
    - assert (Hnot: cmem c (sel_b true L x) = false).
      { unfold cmem. apply zmem_false. intros Hin. apply Hni. apply in_map_iff in Hin as [c' [E Hc']]. rewrite <- E. apply in_map. eapply sel_b_in; eauto. }
      rewrite Hnot. cbn [negb]. f_equal. apply IH; auto. }
  rewrite Efil. rewrite <- (sel_pattern part x w Hl).
  destruct (forallb (fun c => negb (fal c w)) (sel_b false part x)), (forallb (fun c => fal c w) (sel x)), (o_holds o w); reflexivity. Qed.
Lemma pattern_soft x o : o_soft (fold_left (fun v_opt v_c => o_add v_opt (FNot (py_z3_make_A_then_not_B n v_c))) (filter (fun v_c => negb (cmem v_c (sel x))) part)
            (fold_left (fun v_opt v_c => o_add v_opt (py_z3_make_A_then_not_B n v_c)) (sel x) (o_push o))) = o_soft o.
Proof. rewrite !o_soft_fold_add. reflexivity. Qed.
Lemma pattern_pop x o : o_pop (fold_left (fun v_opt v_c => o_add v_opt (FNot (py_z3_make_A_then_not_B n v_c))) (filter (fun v_c => negb (cmem v_c (sel x))) part)
            (fold_left (fun v_opt v_c => o_add v_opt (py_z3_make_A_then_not_B n v_c)) (sel x) (o_push o))) = o.
Proof. rewrite !o_pop_fold_add. reflexivity. Qed.
Lemma csubset_sel x y : length x = length part -> length y = length part -> csubset (sel x) (sel y) = sub x y.
Proof. intros Hx Hy. unfold csubset.
  assert (Ex: map ckz (sel x) = keys_of_bv (map ckz part) x) by (symmetry; apply (kob_sel part x)).
  assert (Ey: map ckz (sel y) = keys_of_bv (map ckz part) y) by (symmetry; apply (kob_sel part y)).
  rewrite Ex, Ey. apply zsubset_kob; rewrite ?map_length; auto. Qed.
End GaxFam.

Lemma for_each_all_state {A R L S} (l:list A) (body:A -> S -> ctl R S S) (ok:A -> bool) (s:S) (r:R) :
  (forall a, In a l -> body a s = if ok a then Next s else Return r) ->
  @for_each A R L S l body s = if forallb ok l then Next s else Return r.
Proof. induction l as [|a l IH]; intros Hb; [reflexivity|]. cbn [for_each forallb].
  rewrite Hb by (left; reflexivity). destruct (ok a); cbn [andb]; [|reflexivity].
  apply IH. intros a' Ha. apply Hb. right. exact Ha. Qed.

(* a list all of whose members are images is the image of a list *)
Lemma family_as_map {A B} (f:A -> B) (P:A -> Prop) (R:list B) :
  (forall y, In y R -> exists x, P x /\ y = f x) -> exists Lx, R = map f Lx /\ forall x, In x Lx -> P x.
Proof. induction R as [|y R IH]; intros H.
  - exists []. split; [reflexivity|intros x []].
  - destruct (H y (or_introl eq_refl)) as [x [Hx ->]].
    destruct IH as [Lx [-> HL]]; [intros y' Hy'; apply H; right; exact Hy'|].
    exists (x :: Lx). split; [reflexivity|]. intros x' [<-|Hx']; auto. Qed.

Section GaxFam2.
Variable n : nat.
Notation W := (worlds n).
Variable part : list cond.
Hypothesis Hpn : NoDup (map ckz part).
Notation F := (layer_of (map ac part)).
Notation sel := (sel_b true part).
(* the family returned by get_all_xi_i, as the image of a list with the members of the minimal family *)
Lemma gax_family_list opt (H phi:pred world) fuel : o_soft opt = [] -> (forall w, o_holds opt w = phi w && H w) -> length W < fuel ->
  exists Lx opt', gax_model n fuel opt part = Return (map sel Lx, opt') /\ o_pop opt' = o_pop opt /\
    (forall x, In x Lx <-> In x (minimal (Core.fam world W H F phi))).
Proof. intros Hs Hh Hf. destruct (gax_family n part Hpn opt H phi fuel Hs Hh Hf) as [R [o' [E1 [E2 E3]]]].
  destruct (family_as_map sel (fun x => In x (minimal (Core.fam world W H F phi))) R) as [Lx [-> HL]].
  { intros y Hy. apply E3. exact Hy. }
  exists Lx, o'. split; [exact E1|]. split; [exact E2|]. intros x. split; [apply HL|].
  intros Hx. assert (Hin: In (sel x) (map sel Lx)) by (apply E3; exists x; auto).
  apply in_map_iff in Hin as [y [Ey Hy]].
  assert (Hlen: forall z, In z (minimal (Core.fam world W H F phi)) -> length z = length part).
  { intros z Hz. apply minimal_in in Hz as [Hz _]. apply Core.fam_in in Hz as [w [_ [_ [_ <-]]]]. unfold layer_of. rewrite !map_length. reflexivity. }
  assert (Eb: cset_eqb (sel y) (sel x) = true) by (rewrite Ey; unfold cset_eqb, csubset; rewrite (proj2 (zsubset_in _ _)) by auto; reflexivity).
  rewrite cset_eqb_sel in Eb by (auto; apply Hlen; auto). apply beq_eq in Eb. subst y. exact Hy. Qed.
End GaxFam2.

Lemma for_each_any_state_map {A B R L S} (f:A -> B) (l:list A) (body:B -> S -> ctl R S S) (g:A -> bool) (s:S) (r:R) :
  (forall a, In a l -> body (f a) s = if g a then Return r else Next s) ->
  @for_each B R L S (map f l) body s = if existsb g l then Return r else Next s.
Proof. induction l as [|a l IH]; intros Hb; [reflexivity|]. cbn [map for_each existsb].
  rewrite Hb by (left; reflexivity). destruct (g a); cbn [orb]; [reflexivity|].
  apply IH. intros a' Ha. apply Hb. right. exact Ha. Qed.
Lemma for_each_all_state_map {A B R L S} (f:A -> B) (l:list A) (body:B -> S -> ctl R S S) (ok:A -> bool) (s:S) (r:R) :
  (forall a, In a l -> body (f a) s = if ok a then Next s else Return r) ->
  @for_each B R L S (map f l) body s = if forallb ok l then Next s else Return r.
Proof. induction l as [|a l IH]; intros Hb; [reflexivity|]. cbn [map for_each forallb].
  rewrite Hb by (left; reflexivity). destruct (ok a); cbn [andb]; [|reflexivity].
  apply IH. intros a' Ha. apply Hb. right. exact Ha. Qed.
Lemma for_each_break_state_map {A B R L S} (f:A -> B) (l:list A) (body:B -> S * bool -> ctl R (S * bool) (S * bool)) (ok:A -> bool) (s:S) :
  (forall a, In a l -> body (f a) (s, true) = if ok a then Next (s, true) else Break (s, false)) ->
  @for_each B R L (S * bool) (map f l) body (s, true) = Next (s, forallb ok l).
Proof. induction l as [|a l IH]; intros Hb; [reflexivity|]. cbn [map for_each forallb].
  rewrite Hb by (left; reflexivity). destruct (ok a); cbn [andb]; [|reflexivity].
  apply IH. intros a' Ha. apply Hb. right. exact Ha. Qed.
Lemma zfold_min_spec r : forall x, (fold_left Z.min r x = x \/ In (fold_left Z.min r x) r) /\ (fold_left Z.min r x <= x)%Z
  /\ forall y, In y r -> (fold_left Z.min r x <= y)%Z.
Proof. induction r as [|a r IH]; intros x; simpl.
  - split; [left; reflexivity|]. split; [lia|intros y []].
  - destruct (IH (Z.min x a)) as [H1 [H2 H3]]. split; [|split].
    + destruct H1 as [H1|H1]; [|right; right; exact H1]. rewrite H1.
      destruct (Z.min_spec x a) as [[_ E]|[_ E]]; rewrite E; [left; reflexivity|right; left; reflexivity].
    + lia.
    + intros y [<-|Hy]; [lia|apply H3; exact Hy]. Qed.
Lemma py_min_same {R L} (l:list Z) z : In z l -> (forall y, In y l -> (z <= y)%Z) -> @py_min R L l = Next z.
Proof. destruct l as [|x r]; [intros []|]. intros Hin Hle. simpl. f_equal.
  destruct (zfold_min_spec r x) as [H1 [H2 H3]].
  assert (Hm: In (fold_left Z.min r x) (x :: r)) by (destruct H1 as [H1|H1]; [left; symmetry; exact H1|right; exact H1]).
  specialize (Hle _ Hm). destruct Hin as [<-|Hin]; [lia|]. specialize (H3 _ Hin). lia. Qed.
