From InfOCF Require Import Core.
From Coq Require Import ZArith.
(* C15(b) level 2: the clause-level helpers of inference/optimizer.py *)
Definition clause := list Z.
Definition rc2model := list Z.                     (* signed variable ids, as RC2 returns them *)
Definition zmem (x:Z) (l:list Z) : bool := existsb (Z.eqb x) l.
Definition csat (m:rc2model) (cl:clause) : bool := existsb (fun x => zmem x cl) m.   (* any(x in clause for x in model) *)

(* ---- get_violated_conditional(model, cost, ignore): the two nested loops over nf_cnf_dict.items()
        and the clauses, skipping ignored keys, are one loop over the concatenation ---- *)
Definition nfdict := list (nat * list clause).
Definition ignored (ig:list nat) (k:nat) : bool := existsb (Nat.eqb k) ig.
Definition flat (ig:list nat) (nf:nfdict) : list (nat * clause) :=
  flat_map (fun kc => if ignored ig (fst kc) then [] else map (fun cl => (fst kc, cl)) (snd kc)) nf.
Fixpoint scanf (m:rc2model) (cost:nat) (fl:list (nat*clause)) (cnt:nat) (vio:list nat) : list nat :=
  match fl with
  | [] => vio
  | (k,cl)::r =>
      let cv := if csat m cl then (cnt, vio) else (S cnt, k::vio) in
      if fst cv =? cost then snd cv else scanf m cost r (fst cv) (snd cv)
  end.
Definition get_violated (m:rc2model) (cost:nat) (ig:list nat) (nf:nfdict) : list nat :=
  if 0 <? cost then scanf m cost (flat ig nf) 0 [] else [].

Definition nv (m:rc2model) (fl:list (nat*clause)) : nat := length (filter (fun kc => negb (csat m (snd kc))) fl).
Lemma nv0_all_sat m fl : nv m fl = 0 -> forall k cl, In (k,cl) fl -> csat m cl = true.
Proof. unfold nv. induction fl as [|[k0 c0] r IH]; simpl; [intros _ ? ? []|].
  destruct (csat m c0) eqn:E; simpl; [|discriminate]. intros H k cl [Hx|Hx]; [inversion Hx; subst; auto|eauto]. Qed.

Lemma scanf_spec m cost : forall fl cnt vio, cnt < cost -> cnt + nv m fl <= cost ->
  forall x, In x (scanf m cost fl cnt vio) <-> In x vio \/ exists cl, In (x,cl) fl /\ csat m cl = false.
Proof. induction fl as [|[k cl] r IH]; intros cnt vio Hlt Hle x.
  - simpl. split; [auto|]. intros [?|[cl [[] _]]]; auto.
  - unfold nv in Hle. cbn [filter snd] in Hle. cbn [scanf]. destruct (csat m cl) eqn:Ec; cbn [fst snd negb length] in *.
    + assert (E: cnt =? cost = false) by (apply Nat.eqb_neq; lia). rewrite E. rewrite IH by auto.
      split.
      * intros [H|[c0 [Hin Hs]]]; [left; auto|right; exists c0; split; [right; auto|auto]].
      * intros [H|[c0 [[Heq|Hin] Hs]]]; [left; auto|inversion Heq; subst; congruence|right; exists c0; auto].
    + destruct (S cnt =? cost) eqn:E.
      * apply Nat.eqb_eq in E. assert (Hz: nv m r = 0) by (unfold nv; lia). split.
        -- intros [Hk|Hv]; [right; exists cl; split; [left; rewrite Hk; reflexivity|exact Ec]|left; exact Hv].
        -- intros [Hv|[c0 [[Heq|Hin] Hs]]].
           ++ right; exact Hv.
           ++ inversion Heq; subst. left; reflexivity.
           ++ rewrite (nv0_all_sat m r Hz _ _ Hin) in Hs. discriminate.
      * apply Nat.eqb_neq in E. rewrite IH by (unfold nv; lia). split.
        -- intros [[Hk|Hv]|[c0 [Hin Hs]]].
           ++ right; exists cl; split; [left; rewrite Hk; reflexivity|exact Ec].
           ++ left; exact Hv.
           ++ right; exists c0; split; [right; exact Hin|exact Hs].
        -- intros [Hv|[c0 [[Heq|Hin] Hs]]].
           ++ left; right; exact Hv.
           ++ inversion Heq; subst. left; left; reflexivity.
           ++ right; exists c0; auto.
Qed.

(* violated_exact: if the reported cost is at least the number of violated scanned clauses (it is exactly
   that number at all call sites where the soft clauses are the scanned ones, and larger in lex_inf where
   upper-layer soft clauses stay in the WCNF), the early exit never truncates the result *)
Theorem violated_exact m cost ig nf : nv m (flat ig nf) <= cost ->
  forall k, In k (get_violated m cost ig nf) <-> exists cl, In (k,cl) (flat ig nf) /\ csat m cl = false.
Proof. intros Hle k. unfold get_violated. destruct (0 <? cost) eqn:E.
  - apply Nat.ltb_lt in E. rewrite scanf_spec by (simpl; lia). simpl. tauto.
  - apply Nat.ltb_ge in E. assert (Hz: nv m (flat ig nf) = 0) by lia. simpl. split; [intros []|].
    intros [cl [Hin Hs]]. rewrite (nv0_all_sat _ _ Hz _ _ Hin) in Hs. discriminate.
Qed.
Lemma flat_in ig nf k cl : In (k,cl) (flat ig nf) <-> exists cls, In (k,cls) nf /\ ignored ig k = false /\ In cl cls.
Proof. unfold flat. rewrite in_flat_map. split.
  - intros [[k0 cls] [Hin H]]. simpl in H. destruct (ignored ig k0) eqn:E; [inversion H|].
    apply in_map_iff in H as [c [Heq Hc]]. inversion Heq; subst. exists cls. auto.
  - intros [cls [Hin [Hig Hc]]]. exists (k,cls). split; auto. simpl. rewrite Hig. apply in_map_iff. exists cl; auto.
Qed.
Print Assumptions violated_exact.
