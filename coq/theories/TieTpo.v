From InfOCF Require Import Core Tol Form Model Ocf ThmOcf PyLib TieLib.
From InfOCFGen Require Import SrcTpo.
From Coq Require Import ZArith Lia Sorting.Sorted.
(* TIE: ranks2tpo, tpo2ranks and PreOCF.is_ocf GENERATED from inference/preocf.py (gen/SrcTpo.v) equal the model of Ocf.v:
   the layers of a ranking table are its rank classes in ascending order of rank, each in table order; a total preorder
   with pairwise distinct worlds becomes the table that gives every world the rank of its layer; is_ocf holds exactly when
   every world has a non-negative rank. *)

Definition zt_of (t:table) : wdict (option Z) := map (fun p => (fst p, option_map Z.of_nat (snd p))) t.

(* ---- generic loop facts ---- *)
Lemma fe_map_arg {A B R L S} (f:A -> B) (l:list A) (body:B -> S -> ctl R S S) s :
  @for_each B R L S (map f l) body s = for_each l (fun a => body (f a)) s.
Proof. revert s. induction l as [|a l IH]; intros s; [reflexivity|]. cbn [map for_each].
  destruct (body (f a) s); try reflexivity; apply IH. Qed.
Lemma map_m_all {A B R L} (f:A -> ctl R L B) (h:A -> B) l : (forall a, In a l -> f a = Next (h a)) -> map_m f l = Next (map h l).
Proof. induction l as [|a l IH]; intros H; [reflexivity|]. cbn [map_m map]. rewrite (H a (or_introl eq_refl)). cbn [cbind].
  rewrite IH by (intros x Hx; apply H; right; exact Hx). reflexivity. Qed.

Lemma nodup_app_l {A} (a b:list A) : NoDup (a ++ b) -> NoDup a.
Proof. induction a as [|x a IH]; intros H; [constructor|]. cbn [app] in H. inversion H as [|? ? Hni Hn]; subst.
  constructor; [intros Hin; apply Hni; apply in_or_app; left; exact Hin|apply IH; exact Hn]. Qed.
Lemma nodup_app_r {A} (a b:list A) : NoDup (a ++ b) -> NoDup b.
Proof. induction a as [|x a IH]; intros H; [exact H|]. cbn [app] in H. inversion H; subst. apply IH. assumption. Qed.
(* ---- ranking tables ---- *)
Lemma wfind_entry {V} (d:wdict V) w v : NoDup (map fst d) -> In (w, v) d -> wdict_find d w = Some v.
Proof. induction d as [|[w' v'] d IH]; intros Hn Hin; [destruct Hin|]. simpl in Hn. inversion Hn as [|? ? Hni Hn']; subst.
  simpl. destruct Hin as [E|Hin].
  - inversion E; subst. rewrite (proj2 (beq_eq w w) eq_refl). reflexivity.
  - destruct (beq w' w) eqn:Eb; [|apply IH; assumption]. apply beq_eq in Eb. subst. exfalso. apply Hni.
    change w with (fst (w, v)). apply in_map. exact Hin. Qed.
Lemma wdict_set_end {V} (d:wdict V) w v : ~ In w (map fst d) -> wdict_set d w v = d ++ [(w, v)].
Proof. induction d as [|[w' v'] d IH]; intros H; [reflexivity|]. simpl.
  destruct (beq w' w) eqn:E; [apply beq_eq in E; exfalso; apply H; left; exact E|]. rewrite IH; [reflexivity|].
  intros Hin. apply H. right. exact Hin. Qed.

Section IsOcf.
Variable n : nat.
Definition nonneg (p:world * option Z) : bool := match snd p with Some r => (0 <=? r)%Z | None => false end.
Theorem tie_is_ocf (d:wdict (option Z)) : NoDup (map fst d) -> py_PreOCF_is_ocf n d = Return (forallb nonneg d).
Proof. intros Hn. unfold py_PreOCF_is_ocf. unfold wdict_keys. rewrite fe_map_arg.
  match goal with |- context [for_each d ?b _] => set (body := b) end.
  assert (G: forall l, incl l d -> @cbind bool unit unit unit (@for_each _ _ unit _ l body tt) (fun 'tt => Return true) = Return (forallb nonneg l)).
  { induction l as [|[w v] l IH]; intros Hl; [reflexivity|]. cbn [for_each forallb].
    assert (Hin: In (w, v) d) by (apply Hl; left; reflexivity).
    unfold body at 1. cbn [fst]. unfold wdict_get. rewrite (wfind_entry d w v Hn Hin). cbn [cbind].
    unfold nonneg at 1. cbn [snd]. destruct v as [r|]; cbn [is_none cbind py_lt_opt].
    - destruct (r <? 0)%Z eqn:E.
      + cbn [cbind]. assert (E2: (0 <=? r)%Z = false) by (apply Z.leb_gt; apply Z.ltb_lt; exact E). rewrite E2. reflexivity.
      + cbn [cbind]. assert (E2: (0 <=? r)%Z = true) by (apply Z.leb_le; apply Z.ltb_ge; exact E). rewrite E2. cbn [andb].
        apply IH. intros x Hx. apply Hl. right. exact Hx.
    - reflexivity. }
  apply G. apply incl_refl. Qed.
End IsOcf.

Section Tpo2Ranks.
Variable n : nat.
Variable rf : Z -> ctl Z unit unit.
Variable fn : nat -> nat.
Hypothesis Hrf : forall i, rf (Z.of_nat i) = Return (Z.of_nat (fn i)).
Definition ztab (l:list (world * nat)) : wdict (option Z) := map (fun p => (fst p, Some (Z.of_nat (snd p)))) l.

Theorem tie_tpo2ranks (tpo:list (list world)) : NoDup (concat tpo) ->
  py_tpo2ranks n tpo rf = Return (ztab (tpo2ranks tpo fn)).
Proof. intros Hnd. unfold py_tpo2ranks. cbv zeta.
  match goal with |- context [for_each (py_enumerate tpo) ?b _] => set (body := b) end.
  assert (G: forall l i acc, NoDup (concat l) -> (forall w, In w (concat l) -> ~ In w (map fst acc)) ->
             @for_each _ _ unit _ (py_enumerate_from (Z.of_nat i) l) body acc = Next (acc ++ ztab (tpo2ranks_from i l fn))).
  { induction l as [|L l IH]; intros i acc Hn Hd; [cbn; rewrite app_nil_r; reflexivity|].
    cbn [py_enumerate_from for_each tpo2ranks_from]. unfold body at 1.
    cbn [concat] in Hn, Hd.
    match goal with |- context [for_each L ?b _] => set (bodyin := b) end.
    assert (Gin: forall L' acc', NoDup L' -> (forall w, In w L' -> ~ In w (map fst acc')) ->
               @for_each _ _ (wdict (option Z)) _ L' bodyin acc' = Next (acc' ++ map (fun w => (w, Some (Z.of_nat (fn i)))) L')).
    { induction L' as [|w L' IHL]; intros acc' Hn' Hd'; [cbn; rewrite app_nil_r; reflexivity|].
      cbn [for_each map]. unfold bodyin at 1. rewrite Hrf. cbn [call].
      rewrite wdict_set_end by (apply Hd'; left; reflexivity). inversion Hn' as [|? ? Hni Hn'']; subst.
      rewrite IHL.
      - rewrite <- app_assoc. reflexivity.
      - exact Hn''.
      - intros x Hx. rewrite map_app. cbn [map fst]. intros Hin. apply in_app_or in Hin as [Hin|[Hin|[]]].
        + apply (Hd' x (or_intror Hx)). exact Hin.
        + subst. contradiction. }
    rewrite Gin.
    - cbn [cbind]. replace (Z.of_nat i + 1)%Z with (Z.of_nat (S i)) by lia. rewrite IH.
      + unfold ztab. rewrite map_app, map_map, <- app_assoc. reflexivity.
      + apply nodup_app_r in Hn. exact Hn.
      + intros w Hw. rewrite map_app, map_map. cbn [fst]. rewrite map_id. intros Hin. apply in_app_or in Hin as [Hin|Hin].
        * apply (Hd w); [apply in_or_app; right; exact Hw|exact Hin].
        * revert Hin Hw. clear -Hn. induction L as [|a L IHL]; [intros []|]. cbn [app] in Hn. inversion Hn as [|? ? Hni Hn']; subst.
          intros [->|Hin] Hw; [apply Hni; apply in_or_app; right; exact Hw|apply IHL; assumption].
    - apply nodup_app_l in Hn. exact Hn.
    - intros w Hw. apply Hd. apply in_or_app. left. exact Hw. }
  unfold py_enumerate. change 0%Z with (Z.of_nat 0). rewrite G; [reflexivity|exact Hnd|intros w _ []]. Qed.
End Tpo2Ranks.

(* ---- dictionaries with integer keys ---- *)
Lemma zfind_set_same {V} (g:dict Z V) k v : zdict_find (zdict_set g k v) k = Some v.
Proof. induction g as [|[k' v'] g IH]; simpl; [rewrite Z.eqb_refl; reflexivity|].
  destruct (k' =? k)%Z eqn:E; simpl; [rewrite Z.eqb_refl; reflexivity|rewrite E; exact IH]. Qed.
Lemma zfind_set_other {V} (g:dict Z V) k v k' : k' <> k -> zdict_find (zdict_set g k v) k' = zdict_find g k'.
Proof. intros Hne. induction g as [|[k0 v0] g IH]; simpl.
  - destruct (k =? k')%Z eqn:E; [apply Z.eqb_eq in E; congruence|reflexivity].
  - destruct (k0 =? k)%Z eqn:E; simpl.
    + apply Z.eqb_eq in E. subst k0. destruct (k =? k')%Z eqn:E2; [apply Z.eqb_eq in E2; congruence|reflexivity].
    + destruct (k0 =? k')%Z; [reflexivity|exact IH]. Qed.
Lemma zkeys_set {V} (g:dict Z V) k v x : In x (dict_keys (zdict_set g k v)) <-> In x (dict_keys g) \/ x = k.
Proof. induction g as [|[k0 v0] g IH]; simpl; [intuition|].
  destruct (k0 =? k)%Z eqn:E; simpl.
  - apply Z.eqb_eq in E. subst. intuition.
  - rewrite IH. intuition. Qed.
Lemma znodup_set {V} (g:dict Z V) k v : NoDup (dict_keys g) -> NoDup (dict_keys (zdict_set g k v)).
Proof. induction g as [|[k0 v0] g IH]; intros Hn; simpl; [constructor; [intros []|constructor]|].
  simpl in Hn. inversion Hn as [|? ? Hni Hn']; subst. destruct (k0 =? k)%Z eqn:E; simpl.
  - apply Z.eqb_eq in E. subst. constructor; assumption.
  - constructor; [|apply IH; exact Hn']. intros Hin. apply zkeys_set in Hin as [Hin| ->]; [contradiction|]. rewrite Z.eqb_refl in E. discriminate. Qed.
Lemma zfind_some_key {V} (g:dict Z V) k v : zdict_find g k = Some v -> In k (dict_keys g).
Proof. induction g as [|[k0 v0] g IH]; simpl; [discriminate|]. destruct (k0 =? k)%Z eqn:E; [apply Z.eqb_eq in E; auto|auto]. Qed.

(* ---- sorted(keys) ---- *)
Lemma zinsert_in x l y : In y (zinsert x l) <-> y = x \/ In y l.
Proof. induction l as [|a l IH]; simpl; [intuition|]. destruct (x <=? a)%Z; simpl; [intuition|]. rewrite IH. intuition. Qed.
Lemma zsort_in l y : In y (zsort l) <-> In y l.
Proof. unfold zsort. induction l as [|a l IH]; simpl; [tauto|]. rewrite zinsert_in, IH. intuition. Qed.
Lemma zinsert_sorted x l : ~ In x l -> StronglySorted Z.lt l -> StronglySorted Z.lt (zinsert x l).
Proof. intros Hni Hs. induction Hs as [|a l Hs IH Hall]; simpl; [constructor; constructor|].
  rewrite Forall_forall in Hall. destruct (x <=? a)%Z eqn:E.
  - apply Z.leb_le in E. assert (x <> a) by (intros ->; apply Hni; left; reflexivity).
    constructor; [constructor; [exact Hs|apply Forall_forall; exact Hall]|]. apply Forall_forall. intros y [<-|Hy]; [lia|]. specialize (Hall y Hy). lia.
  - apply Z.leb_gt in E. constructor.
    + apply IH. intros Hin. apply Hni. right. exact Hin.
    + apply Forall_forall. intros y Hy. apply zinsert_in in Hy as [->|Hy]; [lia|auto]. Qed.
Lemma zsort_sorted l : NoDup l -> StronglySorted Z.lt (zsort l).
Proof. unfold zsort. induction 1 as [|a l Hni Hn IH]; simpl; [constructor|]. apply zinsert_sorted; [|exact IH].
  intros Hin. apply Hni. apply (zsort_in l a). exact Hin. Qed.
Lemma sorted_unique (a b:list Z) : StronglySorted Z.lt a -> StronglySorted Z.lt b -> (forall x, In x a <-> In x b) -> a = b.
Proof. intros Ha. revert b. induction Ha as [|x a Ha IH Hall]; intros b Hb Hiff.
  - destruct b as [|y b]; [reflexivity|]. exfalso. apply (proj2 (Hiff y)). left. reflexivity.
  - destruct Hb as [|y b Hb Hallb]; [exfalso; apply (proj1 (Hiff x)); left; reflexivity|].
    rewrite Forall_forall in Hall, Hallb.
    assert (x = y).
    { destruct (proj1 (Hiff x) (or_introl eq_refl)) as [E|Hx]; [auto|].
      destruct (proj2 (Hiff y) (or_introl eq_refl)) as [E|Hy]; [auto|].
      specialize (Hall y Hy). specialize (Hallb x Hx). lia. }
    subst y. f_equal. apply IH; [exact Hb|]. intros z. split; intros Hz.
    + destruct (proj1 (Hiff z) (or_intror Hz)) as [E|H]; [|exact H]. subst z. specialize (Hall x Hz). lia.
    + destruct (proj2 (Hiff z) (or_intror Hz)) as [E|H]; [|exact H]. subst z. specialize (Hallb x Hz). lia. Qed.
Lemma sorted_map_of_nat l : StronglySorted lt l -> StronglySorted Z.lt (map Z.of_nat l).
Proof. induction 1 as [|a l Hs IH Hall]; simpl; constructor; [exact IH|]. rewrite Forall_forall in *. intros y Hy.
  apply in_map_iff in Hy as [z [<- Hz]]. specialize (Hall z Hz). lia. Qed.

Section Ranks2Tpo.
Variable n : nat.
Variable t : table.
Hypothesis Hkeys : NoDup (map fst t).

Definition rk_is (r:nat) (p:world * option nat) : bool := match snd p with Some x => x =? r | None => false end.
Definition members (r:nat) (l:table) : list world := map fst (filter (rk_is r) l).
Definition has (r:nat) (l:table) : bool := existsb (rk_is r) l.

Definition Inv (done:table) (g:dict Z (list world)) : Prop :=
  (forall r, zdict_find g (Z.of_nat r) = if has r done then Some (members r done) else None) /\
  (forall k, In k (dict_keys g) -> exists r, k = Z.of_nat r /\ has r done = true) /\ NoDup (dict_keys g).

Lemma members_snoc r done w v : members r (done ++ [(w, v)]) = members r done ++ (if rk_is r (w, v) then [w] else []).
Proof. unfold members. rewrite filter_app, map_app. cbn [filter]. destruct (rk_is r (w, v)); reflexivity. Qed.
Lemma has_snoc r done p : has r (done ++ [p]) = has r done || rk_is r p.
Proof. unfold has. rewrite existsb_app. cbn [existsb]. rewrite orb_false_r. reflexivity. Qed.
Lemma members_in r l w : In w (members r l) -> In w (map fst l).
Proof. unfold members. intros H. apply in_map_iff in H as [p [<- Hp]]. apply filter_In in Hp as [Hp _]. apply in_map. exact Hp. Qed.

Theorem tie_ranks2tpo : py_ranks2tpo n (zt_of t) = Return (ranks2tpo t).
Proof. unfold py_ranks2tpo. cbv zeta. unfold zt_of. rewrite fe_map_arg.
  match goal with |- context [for_each t ?b _] => set (body := b) end.
  assert (G: forall l done g, done ++ l = t -> Inv done g -> exists g', @for_each _ _ unit _ l body g = Next g' /\ Inv t g').
  { induction l as [|[w v] l IH]; intros done g Hd HI.
    - rewrite app_nil_r in Hd. subst done. exists g. split; [reflexivity|exact HI].
    - cbn [for_each]. unfold body at 1. cbn [fst snd].
      assert (Hd': (done ++ [(w, v)]) ++ l = t) by (rewrite <- app_assoc; exact Hd).
      assert (Hw: ~ In w (map fst done)).
      { rewrite <- Hd, map_app in Hkeys. cbn [map fst] in Hkeys. apply NoDup_remove_2 in Hkeys. intros Hin. apply Hkeys. apply in_or_app. left. exact Hin. }
      destruct HI as [Hfind [Hk Hn]].
      destruct v as [r|]; cbn [option_map is_none negb cbind py_unopt].
      + (* a ranked world *)
        set (g1 := if negb (zdict_mem g (Z.of_nat r)) then zdict_set g (Z.of_nat r) [] else g).
        set (old := if has r done then members r done else []).
        assert (Eg1: zdict_find g1 (Z.of_nat r) = Some old).
        { unfold g1, old, zdict_mem. rewrite (Hfind r). destruct (has r done) eqn:E; cbn [negb].
          - rewrite (Hfind r), E. reflexivity.
          - apply zfind_set_same. }
        assert (Eo1: forall r', r' <> r -> zdict_find g1 (Z.of_nat r') = zdict_find g (Z.of_nat r')).
        { intros r' Hne. unfold g1. destruct (negb (zdict_mem g (Z.of_nat r))); [|reflexivity]. apply zfind_set_other. lia. }
        assert (Ek1: forall x, In x (dict_keys g1) -> In x (dict_keys g) \/ x = Z.of_nat r).
        { intros x. unfold g1. destruct (negb (zdict_mem g (Z.of_nat r))); [apply zkeys_set|auto]. }
        assert (En1: NoDup (dict_keys g1)) by (unfold g1; destruct (negb (zdict_mem g (Z.of_nat r))); [apply znodup_set|]; exact Hn).
        unfold zdict_get. fold g1. rewrite Eg1. cbn [cbind].
        assert (Ew: wset_add old w = old ++ [w]).
        { unfold wset_add. destruct (existsb (beq w) old) eqn:E; [|reflexivity]. exfalso. apply existsb_exists in E as [x [Hx Hb]].
          apply beq_eq in Hb. subst x. apply Hw. unfold old in Hx. destruct (has r done); [apply (members_in r done w Hx)|destruct Hx]. }
        rewrite Ew.
        apply (IH (done ++ [(w, Some r)]) _ Hd'). split; [|split].
        * intros r'. rewrite has_snoc, members_snoc. unfold rk_is. cbn [snd]. destruct (Nat.eqb_spec r r') as [->|Hne].
          -- rewrite orb_true_r, zfind_set_same. unfold old. destruct (has r' done) eqn:E; [reflexivity|].
             f_equal. unfold members. clear -E. unfold has in E. induction done as [|p d IHd]; [reflexivity|]. cbn [existsb] in E. apply orb_false_iff in E as [E1 E2].
             cbn [filter]. rewrite E1. cbn [app]. apply IHd. exact E2.
          -- rewrite orb_false_r, app_nil_r, zfind_set_other by lia. rewrite Eo1 by congruence. apply Hfind.
        * intros k Hin. apply zkeys_set in Hin as [Hin| ->].
          -- apply Ek1 in Hin as [Hin| ->].
             ++ destruct (Hk k Hin) as [r0 [-> Hh]]. exists r0. split; [reflexivity|]. rewrite has_snoc, Hh. reflexivity.
             ++ exists r. split; [reflexivity|]. rewrite has_snoc. unfold rk_is. cbn [snd]. rewrite Nat.eqb_refl. apply orb_true_r.
          -- exists r. split; [reflexivity|]. rewrite has_snoc. unfold rk_is. cbn [snd]. rewrite Nat.eqb_refl. apply orb_true_r.
        * apply znodup_set. exact En1.
      + (* an unranked world: nothing happens *)
        apply (IH (done ++ [(w, None)]) g Hd'). split; [|split].
        * intros r'. rewrite has_snoc, members_snoc. unfold rk_is. cbn [snd]. rewrite orb_false_r, app_nil_r. apply Hfind.
        * intros k Hin. destruct (Hk k Hin) as [r0 [-> Hh]]. exists r0. split; [reflexivity|]. rewrite has_snoc, Hh. reflexivity.
        * exact Hn. }
  destruct (G t [] [] eq_refl) as [g [Eg [Hfind [Hk Hn]]]].
  { split; [intros r; reflexivity|split; [intros k []|constructor]]. }
  rewrite Eg. cbn [cbind].
  assert (Hhas: forall r, has r t = true <-> In r (rank_values t)).
  { intros r. rewrite rank_values_in. unfold has. rewrite existsb_exists. split.
    - intros [[w v] [Hin Hr]]. unfold rk_is in Hr. cbn [snd] in Hr. destruct v as [x|]; [|discriminate]. apply Nat.eqb_eq in Hr. subst x. exists w. exact Hin.
    - intros [w Hin]. exists (w, Some r). split; [exact Hin|]. unfold rk_is. cbn [snd]. apply Nat.eqb_refl. }
  assert (Ekeys: zsort (dict_keys g) = map Z.of_nat (rank_values t)).
  { apply sorted_unique.
    - apply zsort_sorted. exact Hn.
    - apply sorted_map_of_nat. apply rank_values_sorted.
    - intros x. rewrite zsort_in, in_map_iff. split.
      + intros Hin. destruct (Hk x Hin) as [r [-> Hh]]. exists r. split; [reflexivity|]. apply Hhas. exact Hh.
      + intros [r [<- Hr]]. apply Hhas in Hr. pose proof (Hfind r) as Hf. rewrite Hr in Hf. apply (zfind_some_key g _ _ Hf). }
  rewrite Ekeys.
  rewrite (map_m_all _ (fun k => members (Z.to_nat k) t)).
  - cbn [cbind]. f_equal. unfold ranks2tpo. rewrite map_map. apply map_ext. intros r. rewrite Nat2Z.id. reflexivity.
  - intros k Hin. apply in_map_iff in Hin as [r [<- Hr]]. unfold zdict_get. rewrite (Hfind r), (proj2 (Hhas r) Hr), Nat2Z.id. reflexivity.
Qed.
End Ranks2Tpo.
