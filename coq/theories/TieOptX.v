From InfOCF Require Import Core Form Cnf ThmBlock PyLib TieLib TieOptV.
From InfOCFGen Require Import SrcOpt.
From Coq Require Import ZArith Lia.
(* the clauses GENERATED exclude_violated returns are, literal by literal, the model's blocking constraint ThmBlock.exclude
   (signed integers for the model's (sign, variable) literals), of which ThmBlock.exclude_semantics says which assignments extend to a model *)
Definition zlit (l:lit) : Z := if fst l then Z.of_nat (snd l) else (- Z.of_nat (snd l))%Z.
Definition zcnf (f:cnf) : list (list Z) := map (map zlit) f.
Lemma zexclude_model sel : zcnf (exclude sel) = zexclude (map (fun hc => (Z.of_nat (fst hc), zcnf (snd hc))) sel).
Proof. unfold zcnf, exclude, zexclude. rewrite map_app. f_equal.
  - induction sel as [|[h c] sel IH]; [reflexivity|]. cbn [flat_map map fst snd]. rewrite map_app, IH. f_equal.
    rewrite !map_map. apply map_ext. intros cl. rewrite map_app. reflexivity.
  - cbn [map]. f_equal. rewrite !map_map. reflexivity. Qed.

Theorem src_exclude_is_model n (pid:Z -> ctl Z unit unit) (nf:dict Z (list (list Z))) (ksel:list (Z * (nat * cnf))) :
  (forall k h c, In (k, (h, c)) ksel -> pid k = Return (Z.of_nat h) /\ zdict_find nf k = Some (zcnf c)) ->
  NoDup (map fst ksel) ->
  py_exclude_violated n pid nf tt (map fst ksel) = Return (zcnf (exclude (map snd ksel))).
Proof. intros H Hn.
  set (hid := fun k => match find (fun e => (fst e =? k)%Z) ksel with Some e => Z.of_nat (fst (snd e)) | None => 0%Z end).
  assert (Hfind: forall k h c, In (k, (h, c)) ksel -> find (fun e => (fst e =? k)%Z) ksel = Some (k, (h, c))).
  { clear H. induction ksel as [|[k0 [h0 c0]] l IH]; intros k h c Hin; [destruct Hin|]. cbn [map fst] in Hn. inversion Hn as [|? ? Hni Hn']; subst.
    cbn [find fst]. destruct Hin as [E|Hin].
    - inversion E; subst. rewrite Z.eqb_refl. reflexivity.
    - destruct (k0 =? k)%Z eqn:Ek; [apply Z.eqb_eq in Ek; subst; exfalso; apply Hni; change k with (fst (k, (h, c))); apply in_map; exact Hin|].
      apply IH; assumption. }
  rewrite (tie_exclude_violated n pid hid nf (map fst ksel)).
  - f_equal. rewrite zexclude_model, !map_map. f_equal. apply map_ext_in. intros [k [h c]] Hin. cbn [fst snd].
    unfold hid, clauses_of. rewrite (Hfind k h c Hin), (proj2 (H k h c Hin)). reflexivity.
  - intros k Hk. apply in_map_iff in Hk as [[k' [h c]] [<- Hin]]. cbn [fst]. unfold hid. rewrite (Hfind k' h c Hin). cbn [fst snd]. apply (H k' h c Hin).
  - intros k Hk. apply in_map_iff in Hk as [[k' [h c]] [<- Hin]]. cbn [fst]. rewrite (proj2 (H k' h c Hin)). discriminate. Qed.
