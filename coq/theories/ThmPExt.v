From InfOCF Require Import Core Tol TolExt Kz PEnt Form Model Spec Exec Thm06 ThmOps ThmP ThmTop ThmIncl.
From Coq Require Import Permutation.
(* C07: extended p-entailment (Pinf) = vacuity clauses + the strict definition over feasible worlds and finite layers.
   Conditionals are identified by their keys (dictionary keys are distinct). *)
Section Cores.
Variable Wl : list world.
Notation acond := (acond world).
Notation tolerated := (tolerated world Wl).
(* a core: a sub-base none of whose members is tolerated by it *)
Definition core (C:list acond) : Prop := forall c, In c C -> tolerated C c = false.

(* a core has no member inside a tolerance partition that covers it ... *)
Lemma core_not_in_tp P C : is_tp world Wl P -> core C -> (forall c, In c C -> In c (concat P)) -> C = [].
Proof. intros HP HC Hsub. destruct C as [|c0 C0] eqn:E; auto. exfalso.
  destruct (some_tolerated world Wl P (c0::C0) HP ltac:(discriminate) Hsub) as [c [Hin Ht]]. rewrite (HC c Hin) in Ht. discriminate. Qed.

(* ... and, for the extended loop's result fin ++ [Cinf], every core of the base lies inside Cinf *)
Lemma core_in_inf : forall fin Cinf0 C, is_mtp_rel world Wl Cinf0 fin -> core C ->
  (forall c, In c C -> In c (concat fin ++ Cinf0)) -> forall c, In c C -> In c Cinf0.
Proof. induction fin as [|L fin IH]; intros Cinf0 C Hm HC Hsub c Hc; [apply Hsub; auto|].
  destruct Hm as [_ [HtL [_ Hm']]]. cbn [concat] in Hsub.
  assert (HnoL: forall d, In d C -> ~ In d L).
  { intros d Hd HdL. specialize (HtL d HdL). assert (tolerated C d = true); [|rewrite (HC d Hd) in H; discriminate].
    eapply tolerated_mono; [|exact HtL]. intros x Hx. specialize (Hsub x Hx). rewrite <- app_assoc in Hsub. exact Hsub. }
  apply (IH Cinf0 C Hm' HC); auto. intros d Hd. specialize (Hsub d Hd). rewrite <- app_assoc in Hsub.
  apply in_app_or in Hsub as [H|H]; [exfalso; apply (HnoL d Hd H)|exact H]. Qed.
End Cores.

Section PExt.
Variable n : nat.
Notation W := (worlds n).
Variable D : list cond.
Variable q : cond.
Hypothesis keys_distinct : NoDup (map ckey D).
Notation aD := (map ac D).
Definition qb : acond world := ac (negq (fresh D) q).

Lemma qb_ver w : cver world qb w = fal q w. Proof. reflexivity. Qed.
Lemma qb_fal w : cfal world qb w = ver q w. Proof. apply negq_fal. Qed.

(* the never-falsified case: adding a conditional that no world falsifies (but some world verifies) keeps the loop alive *)
Lemma fuel_mono_tol (Wl:list world) : forall fuel X P, tol_loop world Wl fuel X = Some P -> tol_loop world Wl (S fuel) X = Some P.
Proof. induction fuel as [|m IH]; intros X P H.
  - destruct X; [cbn in *; exact H|discriminate].
  - destruct X as [|x X0]; [exact H|]. remember (x::X0) as X. rewrite loop_unfold in H by (subst; discriminate).
    rewrite loop_unfold by (subst; discriminate). destruct (tolR world Wl X) as [|r R] eqn:ER; [discriminate|]. rewrite <- ER in *.
    destruct (tol_loop world Wl m (tolC world Wl X)) as [P'|] eqn:E; [|destruct (tolR world Wl X); discriminate].
    rewrite (IH _ _ E). exact H. Qed.
Lemma nofals_app_never (Wl:list world) X (c:acond world) w : cfal world c w = false -> nofals world (X ++ [c]) w = nofals world X w.
Proof. intros Hc. unfold nofals. rewrite forallb_app. cbn. rewrite Hc. cbn. rewrite andb_true_r. reflexivity. Qed.
Lemma tolerated_app_never (Wl:list world) X (c d:acond world) : (forall w, In w Wl -> cfal world c w = false) ->
  tolerated world Wl (X ++ [c]) d = tolerated world Wl X d.
Proof. intros Hc. unfold tolerated. induction Wl as [|w l IH]; cbn; auto.
  rewrite (nofals_app_never l X c w) by (apply Hc; now left). rewrite IH; auto. intros u Hu. apply Hc. now right. Qed.
Lemma filter_app_one {A} (p:A->bool) l x : filter p (l ++ [x]) = filter p l ++ (if p x then [x] else []).
Proof. rewrite filter_app. cbn. destruct (p x); reflexivity. Qed.
Lemma never_fal_add (Wl:list world) (c:acond world) : (forall w, In w Wl -> cfal world c w = false) -> (exists w, In w Wl /\ cver world c w = true) ->
  forall fuel X P, tol_loop world Wl fuel X = Some P -> exists P', tol_loop world Wl (S fuel) (X ++ [c]) = Some P'.
Proof. intros Hnf [w0 [Hw0 Hv0]]. induction fuel as [|m IH]; intros X P H.
  - destruct X; [|discriminate]. cbn [app]. rewrite loop_unfold by discriminate.
    assert (Ht: tolerated world Wl [c] c = true).
    { apply tolerated_iff. exists w0. repeat split; auto. intros d [<-|[]]. apply Hnf; auto. }
    unfold tolR, tolC. cbn [filter]. rewrite Ht. cbn. eauto.
  - destruct X as [|x X0].
    + cbn [app]. rewrite loop_unfold by discriminate.
      assert (Ht: tolerated world Wl [c] c = true).
      { apply tolerated_iff. exists w0. repeat split; auto. intros d [<-|[]]. apply Hnf; auto. }
      unfold tolR, tolC. cbn [filter]. rewrite Ht. cbn. eauto.
    + remember (x::X0) as X. assert (HX: X <> []) by (subst; discriminate).
      rewrite loop_unfold in H by auto. rewrite loop_unfold by (destruct X; [congruence|discriminate]).
      assert (ER: tolR world Wl (X ++ [c]) = tolR world Wl X ++ (if tolerated world Wl X c then [c] else [])).
      { unfold tolR. rewrite filter_app_one. rewrite (tolerated_app_never Wl X c c Hnf). f_equal.
        apply filter_ext. intros d. apply tolerated_app_never; auto. }
      assert (EC: tolC world Wl (X ++ [c]) = tolC world Wl X ++ (if tolerated world Wl X c then [] else [c])).
      { unfold tolC. rewrite filter_app_one. rewrite (tolerated_app_never Wl X c c Hnf).
        destruct (tolerated world Wl X c); cbn; f_equal; apply filter_ext; intros d; rewrite tolerated_app_never; auto. }
      destruct (tolR world Wl X) as [|r R] eqn:ERX; [discriminate|]. rewrite <- ERX in *.
      destruct (tol_loop world Wl m (tolC world Wl X)) as [P0|] eqn:E0; [|destruct (tolR world Wl X); discriminate].
      rewrite ER, EC. destruct (tolerated world Wl X c).
      * rewrite app_nil_r. rewrite (fuel_mono_tol Wl _ _ _ E0). destruct (tolR world Wl X ++ [c]) eqn:E'; [destruct (tolR world Wl X); discriminate|]. eauto.
      * rewrite app_nil_r. destruct (IH _ _ E0) as [P' HP']. rewrite HP'. destruct (tolR world Wl X); [congruence|]. eauto. Qed.

(* ---- setting: the extended partition of D is fin ++ [Cinf] ---- *)
Variable fin : list (list (acond world)).
Variable Cinf0 : list (acond world).
Hypothesis Hrel : is_mtp_rel world W Cinf0 fin.
Hypothesis Hperm : Permutation (concat fin ++ Cinf0) aD.
Hypothesis Hnever : forall c, In c Cinf0 -> tolerated world W Cinf0 c = false.
Notation Wf := (filter (nofals world Cinf0) W).
Notation E := (aD ++ [qb]).

Lemma nofals_app X Y w : nofals world (X ++ Y) w = nofals world X w && nofals world Y w.
Proof. unfold nofals. apply forallb_app. Qed.
(* tolerance over the feasible worlds = tolerance over all worlds together with the infinity layer *)
Lemma tol_feasible X c : tolerated world Wf X c = tolerated world W (X ++ Cinf0) c.
Proof. apply eq_true_iff_eq. rewrite !tolerated_iff. split.
  - intros [w [Hw [Hv Hn]]]. apply filter_In in Hw as [Hw Hf]. exists w. repeat split; auto. intros d Hd.
    apply in_app_or in Hd as [Hd|Hd]; auto. apply (proj1 (nofals_in world Cinf0 w) Hf d Hd).
  - intros [w [Hw [Hv Hn]]]. exists w. repeat split; auto.
    + apply filter_In. split; auto. apply nofals_in. intros d Hd. apply Hn. apply in_or_app. auto.
    + intros d Hd. apply Hn. apply in_or_app. auto. Qed.
Lemma inf_never_more X c : In c Cinf0 -> tolerated world W (X ++ Cinf0) c = false.
Proof. intros Hc. destruct (tolerated world W (X ++ Cinf0) c) eqn:E; auto.
  assert (tolerated world W Cinf0 c = true); [|rewrite (Hnever c Hc) in H; discriminate].
  eapply tolerated_mono; [|exact E]. intros d Hd. apply in_or_app. auto. Qed.
Lemma core_lift C0 : core Wf C0 -> core W (C0 ++ Cinf0).
Proof. intros HC c Hc. apply in_app_or in Hc as [Hc|Hc].
  - rewrite <- tol_feasible. apply HC; auto.
  - apply inf_never_more; auto. Qed.
Lemma Cinf_core : core W Cinf0. Proof. exact Hnever. Qed.

(* keys identify the members of E *)
Lemma fresh_not_key c : In c D -> ckey c <> fresh D.
Proof. intros Hc. unfold fresh. pose proof (list_max_le (map ckey D) (list_max (map ckey D))) as [H _].
  specialize (H (le_n _)). rewrite Forall_forall in H. specialize (H (ckey c) (in_map ckey D c Hc)). lia. Qed.
Lemma NoDup_app_one {A} (l:list A) x : NoDup l -> ~ In x l -> NoDup (l ++ [x]).
Proof. induction l as [|a l IH]; intros Hn Hx; cbn; [constructor; [intros []|constructor]|]. inversion Hn; subst. constructor.
  - intros Hin. apply in_app_or in Hin as [Hin|[<-|[]]]; auto. apply Hx. now left.
  - apply IH; auto. intros H. apply Hx. now right. Qed.
Lemma E_keys_nodup : NoDup (map (key world) E).
Proof. rewrite map_app, map_map. cbn [map key qb ac]. apply NoDup_app_one.
  - exact keys_distinct.
  - intros Hin. apply in_map_iff in Hin as [c [Hk Hc]]. apply (fresh_not_key c Hc). exact Hk. Qed.
Lemma key_inj (l:list (acond world)) a b : NoDup (map (key world) l) -> In a l -> In b l -> key world a = key world b -> a = b.
Proof. induction l as [|x l IH]; intros Hnd Ha Hb Hk; [inversion Ha|]. cbn in Hnd. inversion Hnd as [|? ? Hn Hnd']; subst.
  destruct Ha as [->|Ha], Hb as [->|Hb]; auto.
  - exfalso. apply Hn. rewrite Hk. apply in_map. exact Hb.
  - exfalso. apply Hn. rewrite <- Hk. apply in_map. exact Ha. Qed.
Lemma Cinf_in_E c : In c Cinf0 -> In c E.
Proof. intros H. apply in_or_app. left. eapply Permutation_in; [exact Hperm|]. apply in_or_app. auto. Qed.
Lemma fin_in_E c : In c (concat fin) -> In c E.
Proof. intros H. apply in_or_app. left. eapply Permutation_in; [exact Hperm|]. apply in_or_app. auto. Qed.
Lemma E_split c : In c E -> In c (concat fin) \/ In c Cinf0 \/ c = qb.
Proof. intros H. apply in_app_or in H as [H|[<-|[]]]; auto. apply (Permutation_in _ (Permutation_sym Hperm)) in H.
  apply in_app_or in H as [H|H]; auto. Qed.

(* the finite layers are a tolerance partition over the feasible worlds *)
Lemma fin_tp : is_tp world Wf fin. Proof. apply rel_tp_feasible. exact Hrel. Qed.

Definition inK (ks:list nat) (c:acond world) : bool := existsb (Nat.eqb (key world c)) ks.
Lemma inK_in ks c : inK ks c = true <-> In (key world c) ks.
Proof. unfold inK. rewrite existsb_exists. split; [intros [k [Hk E]]; apply Nat.eqb_eq in E; subst; auto|intros H; exists (key world c); split; auto; apply Nat.eqb_refl]. Qed.

(* every core of E (over all worlds) lies inside Cinf as soon as concat fin ++ [qb] has a tolerance partition over the feasible worlds *)
Lemma cores_in_Cinf Pq K : is_tp world Wf Pq -> Permutation (concat Pq) (concat fin ++ [qb]) ->
  core W K -> (forall c, In c K -> In c E) -> forall c, In c K -> In c Cinf0.
Proof. intros HPq Hpq HK Hsub.
  set (ks := map (key world) Cinf0).
  set (K1 := filter (fun c => negb (inK ks c)) K).
  assert (Hcase: forall d, In d K -> In d K1 \/ In d Cinf0).
  { intros d Hd. destruct (inK ks d) eqn:Ek.
    - right. apply inK_in in Ek. unfold ks in Ek. apply in_map_iff in Ek as [e [Hke He]].
      rewrite (key_inj E d e E_keys_nodup (Hsub d Hd) (Cinf_in_E e He) (eq_sym Hke)). exact He.
    - left. apply filter_In. split; auto. rewrite Ek. reflexivity. }
  assert (HK1core: core Wf K1).
  { intros c Hc. destruct (tolerated world Wf K1 c) eqn:Et; auto. rewrite tol_feasible in Et.
    assert (Hc': In c K) by (apply filter_In in Hc; tauto).
    assert (tolerated world W K c = true); [|rewrite (HK c Hc') in H; discriminate].
    eapply tolerated_mono; [|exact Et]. intros d Hd. apply in_or_app. apply Hcase; auto. }
  assert (HK1sub: forall c, In c K1 -> In c (concat Pq)).
  { intros c Hc. apply filter_In in Hc as [Hc Hk]. apply negb_true_iff in Hk.
    eapply Permutation_in; [apply Permutation_sym; exact Hpq|]. apply in_or_app.
    destruct (E_split c (Hsub c Hc)) as [H|[H|H]]; auto.
    - exfalso. assert (inK ks c = true); [|congruence]. apply inK_in. unfold ks. apply in_map. exact H.
    - right. left. auto. }
  pose proof (core_not_in_tp Wf Pq K1 HPq HK1core HK1sub) as E1.
  intros c Hc. destruct (Hcase c Hc) as [H|H]; auto. rewrite E1 in H. inversion H. Qed.

Lemma forall_or_exists {A} (P Q:A->Prop) l : (forall x, In x l -> P x \/ Q x) -> (forall x, In x l -> P x) \/ (exists x, In x l /\ Q x).
Proof. induction l as [|a l IH]; intros H; [left; intros ? []|].
  destruct (H a (or_introl eq_refl)) as [Ha|Ha]; [|right; exists a; split; auto; now left].
  destruct IH as [IH|[x [Hx Hq]]]; [intros x Hx; apply H; now right| |].
  - left. intros x [<-|Hx]; auto.
  - right. exists x. split; auto. now right. Qed.

(* the outcome of the extended loop on E, in one statement: a (possibly rejected) largest core C' *)
Lemma pext_true_if (K:list (acond world)) : core W K -> (forall c, In c K -> In c E) ->
  (forall w, In w W -> nofals world K w = true -> ante q w = true -> False) -> p_ext n D q = true.
Proof. intros HK Hsub Hno. unfold p_ext, part_ext. rewrite map_app. cbn [map]. fold qb.
  destruct (tol_loop_ext world W (length (D ++ [negq (fresh D) q])) E) as [P'|] eqn:ER; [|reflexivity].
  destruct (ext_sound world W (worlds_inhabited n) _ _ _ ER) as [fin' [C' [-> [Hm' [Hp' _]]]]].
  unfold inf_layer, feas. rewrite last_app_one. apply negb_true_iff.
  destruct (existsb _ W) eqn:Ex; auto. exfalso. apply existsb_exists in Ex as [w [Hw Hx]]. apply andb_true_iff in Hx as [Hn Ha].
  apply (Hno w Hw); auto. apply nofals_in. intros d Hd.
  assert (HdC: In d C'). { apply (core_in_inf W fin' C' K Hm' HK); auto. intros c Hc. eapply Permutation_in; [apply Permutation_sym; exact Hp'|]. apply Hsub; auto. }
  apply (proj1 (nofals_in world C' w) Hn d HdC). Qed.

Theorem p_ext_char : p_ext n D q = true <->
  (existsb (ante q) Wf = false \/ existsb (fal q) Wf = false \/
   tol_loop world Wf (S (length (concat fin))) (concat fin ++ [qb]) = None).
Proof. split.
  - (* model -> spec: if concat fin ++ [qb] had a tolerance partition over the feasible worlds, the loop on E would end with Cinf *)
    intros Hp. destruct (existsb (ante q) Wf) eqn:Ea; auto. destruct (existsb (fal q) Wf) eqn:Ef; auto. right. right.
    destruct (tol_loop world Wf (S (length (concat fin))) (concat fin ++ [qb])) as [Pq|] eqn:EL; auto. exfalso.
    apply loop_sound in EL as [HmPq HpPq]. apply mtp_tp in HmPq.
    apply existsb_exists in Ea as [wa [Hwa Ha]]. apply filter_In in Hwa as [Hwa Hfa].
    unfold p_ext, part_ext in Hp. rewrite map_app in Hp. cbn [map] in Hp. fold qb in Hp.
    destruct (tol_loop_ext world W (length (D ++ [negq (fresh D) q])) E) as [P'|] eqn:ER.
    + destruct (ext_sound world W (worlds_inhabited n) _ _ _ ER) as [fin' [C' [-> [Hm' [Hp' [Hnev' _]]]]]].
      unfold inf_layer, feas in Hp. rewrite last_app_one in Hp. apply negb_true_iff in Hp.
      assert (existsb (fun w => nofals world C' w && ante q w) W = true); [|congruence].
      apply existsb_exists. exists wa. split; auto. rewrite Ha, andb_true_r. apply nofals_in. intros d Hd.
      assert (HdI: In d Cinf0).
      { apply (cores_in_Cinf Pq C' HmPq HpPq Hnev'); auto. intros c Hc. eapply Permutation_in; [exact Hp'|]. apply in_or_app. auto. }
      apply (proj1 (nofals_in world Cinf0 wa) Hfa d HdI).
    + apply ext_fail in ER; [|rewrite app_length, map_length, app_length; cbn; lia].
      destruct ER as [K [HK0 [HKsub [HKcore HKno]]]].
      assert (existsb (nofals world K) W = true); [|congruence]. apply existsb_exists. exists wa. split; auto.
      apply nofals_in. intros d Hd. apply (proj1 (nofals_in world Cinf0 wa) Hfa d). apply (cores_in_Cinf Pq K HmPq HpPq HKcore HKsub); auto.
  - intros [Ha|[Hf|HL]].
    + apply (pext_true_if Cinf0 Cinf_core Cinf_in_E). intros w Hw Hn Haw.
      assert (existsb (ante q) Wf = true); [|congruence]. apply existsb_exists. exists w. split; auto. apply filter_In. auto.
    + apply (pext_true_if (qb :: Cinf0)).
      * intros c [<-|Hc].
        -- destruct (tolerated world W (qb :: Cinf0) qb) eqn:Et; auto. exfalso. apply tolerated_iff in Et as [w [Hw [Hv Hn]]].
           assert (existsb (fal q) Wf = true); [|congruence]. apply existsb_exists. exists w. split; [|rewrite <- qb_ver; exact Hv].
           apply filter_In. split; auto. apply nofals_in. intros d Hd. apply Hn. now right.
        -- apply (inf_never_more [qb] c Hc).
      * intros c [<-|Hc]; [apply in_or_app; right; now left|apply Cinf_in_E; auto].
      * intros w Hw Hn Haw. pose proof (proj1 (nofals_in world (qb :: Cinf0) w) Hn qb (or_introl eq_refl)) as Hq. rewrite qb_fal in Hq.
        assert (HnI: nofals world Cinf0 w = true) by (apply nofals_in; intros d Hd; apply (proj1 (nofals_in world (qb :: Cinf0) w) Hn d (or_intror Hd))).
        assert (existsb (fal q) Wf = true); [|congruence]. apply existsb_exists. exists w. split; [apply filter_In; auto|].
        rewrite ante_split, Hq in Haw. exact Haw.
    + apply fail_core in HL; [|rewrite app_length; cbn; lia]. destruct HL as [C0 [HC0 [HC0sub HC0core]]].
      assert (Hqb: In qb C0).
      { destruct (forall_or_exists (fun c => In c (concat fin)) (fun c => c = qb) C0) as [Hall|[x [Hx ->]]]; auto.
        - intros x Hx. apply HC0sub in Hx. apply in_app_or in Hx as [Hx|[<-|[]]]; auto.
        - exfalso. apply HC0. apply (core_not_in_tp Wf fin C0 fin_tp HC0core Hall). }
      apply (pext_true_if (C0 ++ Cinf0) (core_lift C0 HC0core)).
      * intros c Hc. apply in_app_or in Hc as [Hc|Hc]; [|apply Cinf_in_E; auto]. apply HC0sub in Hc.
        apply in_app_or in Hc as [Hc|[<-|[]]]; [apply fin_in_E; auto|apply in_or_app; right; now left].
      * intros w Hw Hn Haw. rewrite nofals_app in Hn. apply andb_true_iff in Hn as [Hn0 HnI].
        assert (Ht: tolerated world Wf C0 qb = true); [|rewrite (HC0core qb Hqb) in Ht; discriminate].
        apply tolerated_iff. exists w. split; [apply filter_In; auto|]. split; [|apply nofals_in; exact Hn0].
        rewrite qb_ver. pose proof (proj1 (nofals_in world C0 w) Hn0 qb Hqb) as Hq. rewrite qb_fal in Hq.
        rewrite ante_split, Hq in Haw. exact Haw. Qed.
End PExt.

Section Final.
Variable n : nat.
Notation W := (worlds n).

Lemma exb_sub (p:world->bool) (f:world->bool) : existsb p (filter f W) = true -> existsb p W = true.
Proof. intros H. apply existsb_exists in H as [w [Hw Hp]]. apply filter_In in Hw as [Hw _]. apply existsb_exists. eauto. Qed.

Theorem p_ext_correct D q P : NoDup (map ckey D) -> part_ext n D = Some P ->
  trivial n q || p_ext n D q = ext_spec W P q (p_def (fresh D)).
Proof. intros Hnd HP. destruct (ext_partition n D P HP) as [fin0 [C0 [-> [Hrel [Hperm [Hnever _]]]]]].
  unfold ext_spec, Wf, Spec.fin, Cinf. rewrite last_app_one, removelast_app_one.
  set (Wf0 := filter (nofals world C0) W).
  pose proof (p_ext_char n D q Hnd fin0 C0 Hrel Hperm Hnever) as Hchar. fold Wf0 in Hchar.
  unfold p_def. fold (qb D q).
  destruct (existsb (ante q) Wf0) eqn:Ea; cbn [negb orb].
  2:{ rewrite (proj2 Hchar (or_introl eq_refl)). apply orb_true_r. }
  destruct (existsb (fal q) Wf0) eqn:Ef; cbn [negb orb].
  2:{ rewrite (proj2 Hchar (or_intror (or_introl eq_refl))). apply orb_true_r. }
  assert (Ht: trivial n q = false).
  { unfold trivial, sat. rewrite (exb_sub _ _ Ea), (exb_sub _ _ Ef). reflexivity. }
  rewrite Ht. cbn [orb].
  destruct (existsb (ver q) Wf0) eqn:Ev; cbn [negb].
  - destruct (tol_loop world Wf0 (S (length (concat fin0))) (concat fin0 ++ [qb D q])) eqn:EL; cbn [is_none].
    + destruct (p_ext n D q) eqn:Ep; auto. destruct (proj1 Hchar eq_refl) as [H|[H|H]]; congruence.
    + apply Hchar. auto.
  - destruct (p_ext n D q) eqn:Ep; auto. exfalso. destruct (proj1 Hchar eq_refl) as [H|[H|H]]; try congruence.
    pose proof (fin_tp n fin0 C0 Hrel) as Htp. fold Wf0 in Htp.
    destruct (tol_loop world Wf0 (length (concat fin0)) (concat fin0)) as [P0|] eqn:E0.
    + destruct (never_fal_add Wf0 (qb D q)) with (fuel:=length (concat fin0)) (X:=concat fin0) (P:=P0) as [P' HP']; auto.
      * intros w Hw. rewrite qb_fal. destruct (ver q w) eqn:E; auto.
        assert (existsb (ver q) Wf0 = true) by (apply existsb_exists; eauto). congruence.
      * apply existsb_exists in Ef as [w [Hw Hf]]. exists w. split; auto.
      * congruence.
    + apply (loop_complete world Wf0 (length (concat fin0)) (concat fin0) fin0 (le_n _) Htp (fun d Hd => Hd)). exact E0. Qed.

Theorem infer_p_ext D q P : D <> [] -> NoDup (map ckey D) -> part_ext n D = Some P ->
  infer n SysP true D q = Ans (ext_spec W P q (p_def (fresh D))).
Proof. intros HD Hnd HP. rewrite (infer_unfold n SysP true D q P HD HP). cbn [op]. rewrite (p_ext_correct D q P Hnd HP). reflexivity. Qed.

(* with it, the whole chain p <= Z <= W <= lex holds for the model's answers in extended mode *)
Theorem ext_chain_full D P q : D <> [] -> NoDup (map ckey D) -> part_ext n D = Some P ->
  (infer n SysP true D q = Ans true -> infer n SysZ true D q = Ans true).
Proof. intros HD Hnd HP H. rewrite (infer_p_ext D q P HD Hnd HP) in H. injection H as H.
  apply (proj1 (ext_chain n D P q HD HP)). exact H. Qed.
End Final.
