From InfOCF Require Import Core Tol Form Model Ocf ThmZocf.
(* M for the logic of persistence in inference/preocf.py: (i) save_ocf = detach the solver handles, dump, restore (in a
   finally block), with a failure possible at the open and at the dump; (ii) the format dispatch of save_metadata /
   load_metadata and export_impacts / import_impacts; (iii) continued computation on a reloaded object. *)
Record pobj := { handles : option nat; pcache : list (option nat); pmeta : nat }.   (* handles: _optimizer/_csp (opaque id) *)
Inductive fault := NoFault | OpenFails | DumpFails.
(* returns (object in memory afterwards, what was written: None = nothing usable) *)
Definition save_ocf (o:pobj) (f:fault) : pobj * option pobj :=
  let backup := handles o in
  let detached := {| handles := None; pcache := pcache o; pmeta := pmeta o |} in
  let written := match f with NoFault => Some detached | _ => None end in
  (* finally: restore *)
  ({| handles := backup; pcache := pcache detached; pmeta := pmeta detached |}, written).
Definition load_ocf (w:pobj) : pobj := w.     (* pickle is assumed to transport the logical state (oracle) *)

Inductive sfx := SJson | SPickle | SOther.    (* suffix class, case-insensitively *)
Inductive ffmt := FJson | FPickle.
Definition save_metadata_fmt (s:sfx) (f:ffmt) : ffmt := match s with SJson => FJson | SPickle => FPickle | SOther => f end.
Definition export_impacts_fmt (s:sfx) (f:ffmt) : ffmt := f.
(* the load side recognises the stored format from the content *)
Definition load_fmt (stored:ffmt) (s:sfx) : ffmt := stored.
