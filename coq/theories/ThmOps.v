From InfOCF Require Import Core Tol TolExt SysZ SysW Lex Kz Form Model Spec Thm06.
From Coq Require Import Permutation.
(* Model = Spec for System Z, System W and lexicographic inference, over an arbitrary world list
   (C02, C03, C04) and with a feasibility predicate (C07). *)

Section G.
Variable Wl : list world.
Variable q : cond.
Notation AB := (ver q).
Notation AnB := (fal q).

(* ---------- zrank of the descending layer list = kz of the ascending partition ---------- *)
Lemma zrank_app (l1 l2:list (layer world)) w :
  zrank world (l1 ++ l2) w = if zrank world l1 w =? 0 then zrank world l2 w else zrank world l1 w + length l2.
Proof. induction l1 as [|F r IH]; [reflexivity|]. cbn [app zrank]. destruct (cnt (F w) =? 0) eqn:E.
  - exact IH.
  - cbn [length]. rewrite app_length. reflexivity. Qed.
Lemma kza_zrank : forall P i w, kza world i P w =
  if zrank world (rev (map layer_of P)) w =? 0 then 0 else i + zrank world (rev (map layer_of P)) w.
Proof. induction P as [|L P IH]; intros i w; [reflexivity|]. cbn [kza map rev]. rewrite zrank_app. rewrite IH.
  destruct (zrank world (rev (map layer_of P)) w =? 0) eqn:E.
  - cbn [Nat.eqb zrank length]. destruct (nofals world L w) eqn:En.
    + apply layer_of_cnt0 in En. rewrite En. reflexivity.
    + destruct (cnt (layer_of L w) =? 0) eqn:Ec.
      * apply Nat.eqb_eq in Ec. apply layer_of_cnt0 in Ec. congruence.
      * cbn. f_equal. lia.
  - apply Nat.eqb_neq in E. cbn [length].
    destruct (S i + zrank world (rev (map layer_of P)) w =? 0) eqn:E1; [apply Nat.eqb_eq in E1; lia|].
    destruct (zrank world (rev (map layer_of P)) w + 1 =? 0) eqn:E2; [apply Nat.eqb_eq in E2; lia|]. lia. Qed.
Lemma kz_zrank P w : kz world P w = zrank world (layers P) w.
Proof. unfold kz, layers. rewrite kza_zrank. destruct (zrank world (rev (map layer_of P)) w =? 0) eqn:E; [apply Nat.eqb_eq in E; lia|lia]. Qed.
Lemma rk_ext (r1 r2:world->nat) phi : (forall w, r1 w = r2 w) -> rk world Wl r1 phi = rk world Wl r2 phi.
Proof. intros H. unfold rk. f_equal. apply map_ext. exact H. Qed.

(* ---------- System Z, any accumulator, any (possibly empty) layer list ---------- *)
Lemma z_rec_correct_any ls acc : (exists w', In w' (sel world Wl acc AnB)) ->
  (z_rec world Wl AB AnB ls acc = true <-> zspec world Wl AB AnB ls acc).
Proof. intros Hex. destruct ls as [|F rest].
  - simpl. split; [discriminate|]. intros [w [_ Hall]]. destruct Hex as [w' Hw']. specialize (Hall w' Hw'). simpl in Hall. lia.
  - apply z_rec_correct; [discriminate|exact Hex]. Qed.

Lemma exb_sel acc phi : existsb (fun w => acc w && phi w) Wl = true <-> exists w, In w (sel world Wl acc phi).
Proof. rewrite existsb_exists. split; intros [w H]; exists w.
  - destruct H as [H1 H2]. apply andb_true_iff in H2 as [? ?]. apply sel_in; auto.
  - apply sel_in in H as [? [? ?]]. split; auto. apply andb_true_iff; auto. Qed.
Lemma exb_top phi : existsb phi Wl = true <-> exists w, In w (sel world Wl (top world) phi).
Proof. rewrite <- exb_sel. unfold top. simpl. tauto. Qed.

(* rank comparison form, accumulator = top *)
Lemma z_min_any ls : (exists w', In w' (sel world Wl (top world) AnB)) ->
  z_rec world Wl AB AnB ls (top world) = lt_opt (rk world Wl (zrank world ls) AB) (rk world Wl (zrank world ls) AnB).
Proof. intros Hex. apply eq_true_iff_eq. rewrite z_rec_correct_any by exact Hex. unfold rk. rewrite lt_opt_minl_iff.
  unfold zspec. split.
  - intros [w [Hw Hall]]. exists (zrank world ls w). split; [apply in_map; auto|]. intros b Hb. apply in_map_iff in Hb as [w' [<- Hw']]. auto.
  - intros [a [Ha Hall]]. apply in_map_iff in Ha as [w [<- Hw]]. exists w. split; auto. intros w' Hw'. apply Hall. apply in_map; auto. Qed.

Lemma ante_ex : existsb (ante q) Wl = existsb AB Wl || existsb AnB Wl.
Proof. apply eq_true_iff_eq. rewrite orb_true_iff, !existsb_exists. split.
  - intros [w [Hw H]]. rewrite ante_split in H. apply orb_true_iff in H as [H|H]; [left|right]; eauto.
  - intros [[w [Hw H]]|[w [Hw H]]]; exists w; split; auto; rewrite ante_split, H; auto using orb_true_r. Qed.

Theorem z_model_spec P : (negb (existsb (ante q) Wl) || negb (existsb AnB Wl)) || z_rec world Wl AB AnB (layers P) (top world)
  = z_spec Wl P q.
Proof. unfold z_spec, rank_of.
  rewrite (rk_ext (kappa_z P) (zrank world (layers P)) AB (kz_zrank P)).
  rewrite (rk_ext (kappa_z P) (zrank world (layers P)) AnB (kz_zrank P)).
  destruct (existsb (ante q) Wl) eqn:EA; [|reflexivity]. cbn [negb orb].
  destruct (existsb AnB Wl) eqn:EF.
  - cbn [negb orb]. apply z_min_any. apply exb_top. exact EF.
  - cbn [negb orb]. rewrite ante_ex, EF, orb_false_r in EA.
    unfold rk. assert (sel world Wl (top world) AnB = []) as ->.
    { destruct (sel world Wl (top world) AnB) as [|w l] eqn:E; auto. exfalso.
      assert (existsb AnB Wl = true) by (apply exb_top; exists w; rewrite E; now left). congruence. }
    apply exb_top in EA as [w Hw]. cbn [map minl].
    destruct (minl (map (zrank world (layers P)) (sel world Wl (top world) AB))) eqn:Em; [reflexivity|].
    apply minl_none in Em. apply map_eq_nil in Em. rewrite Em in Hw. inversion Hw. Qed.

(* ---------- System W ---------- *)
Lemma w_spec_iff P : w_spec Wl P q = true <-> SysW.spec world Wl AB AnB (layers P) (top world).
Proof. unfold w_spec, SysW.spec, desc, layers. rewrite forallb_forall. split.
  - intros H w' Hw' _ Hf. specialize (H w' Hw'). rewrite Hf in H. cbn in H.
    apply existsb_exists in H as [w [Hw Hx]]. apply andb_true_iff in Hx as [? ?]. exists w. auto.
  - intros H w' Hw'. destruct (AnB w') eqn:Hf; [|reflexivity]. cbn.
    destruct (H w' Hw' eq_refl Hf) as [w [Hw [_ [Hv Hl]]]]. apply existsb_exists. exists w. split; auto. rewrite Hv, Hl. reflexivity. Qed.
Theorem w_model_spec P : (negb (existsb (ante q) Wl) || negb (existsb AnB Wl)) || w_rec world Wl AB AnB (layers P) (top world)
  = w_spec Wl P q.
Proof. assert (E: w_rec world Wl AB AnB (layers P) (top world) = w_spec Wl P q).
  { apply eq_true_iff_eq. rewrite w_rec_correct, w_spec_iff. tauto. }
  rewrite E. destruct (w_spec Wl P q) eqn:Es; [apply orb_true_r|]. rewrite orb_false_r.
  assert (Hf: existsb AnB Wl = true).
  { destruct (existsb AnB Wl) eqn:EF; auto. exfalso.
    assert (w_spec Wl P q = true); [|congruence]. unfold w_spec. apply forallb_forall. intros w' Hw'.
    destruct (AnB w') eqn:Ef; [|reflexivity]. exfalso.
    assert (existsb AnB Wl = true) by (apply existsb_exists; eauto). congruence. }
  rewrite Hf. rewrite ante_ex, Hf, orb_true_r. reflexivity. Qed.

(* ---------- lexicographic inference ---------- *)
Lemma lexminl_none l : lexminl l = None <-> l = [].
Proof. destruct l as [|x r]; simpl; [tauto|]. destruct (lexminl r); split; discriminate. Qed.
Lemma lexminl_spec : forall l m k, (forall x, In x l -> length x = k) -> lexminl l = Some m ->
  In m l /\ forall x, In x l -> lexlt x m = false.
Proof. induction l as [|a l IH]; intros m k Hlen H; [discriminate|]. cbn [lexminl] in H.
  destruct (lexminl l) as [m'|] eqn:E.
  - destruct (IH m' k) as [Hin Hmin]; [intros x Hx; apply Hlen; now right|reflexivity|].
    destruct (lexlt m' a) eqn:El; inversion H; subst m.
    + split; [now right|]. intros x [<-|Hx]; auto.
      destruct (lexlt a m') eqn:E2; auto. assert (lexlt a a = true) by (eapply lexlt_trans; eauto). rewrite lexlt_irrefl in H0. discriminate.
    + split; [now left|]. intros x [<-|Hx]; [apply lexlt_irrefl|].
      destruct (lexlt x a) eqn:E2; auto. exfalso.
      assert (Hxm := Hmin x Hx).
      assert (Ha: length a = k) by (apply Hlen; now left).
      assert (Hm: length m' = k) by (apply Hlen; now right).
      destruct (lexlt_tricho a m') as [H1|[H1|H1]]; [congruence| | |].
      * assert (lexlt x m' = true) by (eapply lexlt_trans; eauto). congruence.
      * subst m'. congruence.
      * congruence.
  - apply lexminl_none in E. subst l. inversion H; subst. split; [now left|]. intros x [<-|[]]. apply lexlt_irrefl. Qed.

Lemma filter_sel_top phi : filter phi Wl = sel world Wl (top world) phi.
Proof. unfold sel, top. apply filter_ext. reflexivity. Qed.

Lemma lex_spec_iff P : lex_spec Wl P q = true <->
  (sel world Wl (top world) AnB = [] \/ lspec world Wl AB AnB (layers P) (top world) (top world)).
Proof. unfold lex_spec. rewrite !filter_sel_top.
  assert (HV: forall w, vec world (layers P) w = lexvec P w) by reflexivity.
  assert (Hlen: forall S x, In x (map (lexvec P) S) -> length x = length (layers P)).
  { intros S x Hx. apply in_map_iff in Hx as [w [<- _]]. rewrite <- HV. apply vec_len. }
  rewrite lspec_min_form.
  destruct (lexminl (map (lexvec P) (sel world Wl (top world) AnB))) as [mf|] eqn:Ef.
  - assert (Hne: sel world Wl (top world) AnB <> []).
    { intros E. rewrite E in Ef. discriminate. }
    destruct (lexminl_spec _ _ _ (Hlen _) Ef) as [Hinf Hminf].
    destruct (lexminl (map (lexvec P) (sel world Wl (top world) AB))) as [mv|] eqn:Ev.
    + destruct (lexminl_spec _ _ _ (Hlen _) Ev) as [Hinv Hminv].
      apply in_map_iff in Hinv as [wv [Evv Hwv]]. apply in_map_iff in Hinf as [wf [Eff Hwf]].
      split.
      * intros Hlt. right. exists wv. split; auto. intros w' Hw'. rewrite !HV, Evv.
        assert (Hl: length (lexvec P w') = length mf).
        { rewrite (Hlen (sel world Wl (top world) AnB) mf); [rewrite <- HV; apply vec_len|rewrite <- Eff; apply in_map; auto]. }
        destruct (lexlt_tricho (lexvec P w') mf Hl) as [H1|[H1|H1]].
        -- rewrite Hminf in H1; [discriminate|apply in_map; auto].
        -- rewrite H1. exact Hlt.
        -- eapply lexlt_trans; eauto.
      * intros [E|[w [Hw Hall]]]; [congruence|].
        specialize (Hall wf Hwf). rewrite !HV, Eff in Hall.
        eapply lexle_lt_trans; [|apply (Hminv (lexvec P w)); apply in_map; exact Hw|exact Hall].
        rewrite <- Evv, <- !HV, !vec_len. reflexivity.
    + apply lexminl_none in Ev. apply map_eq_nil in Ev. split; [discriminate|].
      intros [E|[w [Hw _]]]; [congruence|]. rewrite Ev in Hw. inversion Hw.
  - apply lexminl_none in Ef. apply map_eq_nil in Ef. split; auto. Qed.

Lemma lex_rec_no_anb ls : sel world Wl (top world) AnB = [] -> (exists w, In w (sel world Wl (top world) AB)) ->
  lex_rec world Wl AB AnB ls (top world) (top world) = true.
Proof. intros E [w Hw]. apply lex_rec_correct. split; [eauto|]. intros w' Hw'. rewrite E in Hw'. inversion Hw'. Qed.

Theorem lex_model_spec P : (negb (existsb (ante q) Wl) || negb (existsb AnB Wl)) || lex_rec world Wl AB AnB (layers P) (top world) (top world)
  = lex_spec Wl P q.
Proof. apply eq_true_iff_eq. rewrite lex_spec_iff. rewrite !orb_true_iff, !negb_true_iff. rewrite lex_rec_correct. split.
  - intros [[H|H]|H]; [| |right; exact H]; left.
    + rewrite ante_ex in H. apply orb_false_iff in H as [_ H].
      destruct (sel world Wl (top world) AnB) as [|w l] eqn:E; auto.
      assert (existsb AnB Wl = true) by (apply exb_top; exists w; rewrite E; now left). congruence.
    + destruct (sel world Wl (top world) AnB) as [|w l] eqn:E; auto.
      assert (existsb AnB Wl = true) by (apply exb_top; exists w; rewrite E; now left). congruence.
  - intros [E|H]; [|right; exact H]. left. right.
    destruct (existsb AnB Wl) eqn:EF; auto. apply exb_top in EF as [w Hw]. rewrite E in Hw. inversion Hw. Qed.
End G.

(* ---------- feasibility predicate = filtered world list (C07) ---------- *)
Section F.
Variable Wl : list world.
Variable feasp : pred world.
Variable q : cond.
Notation AB := (ver q).
Notation AnB := (fal q).
Notation Wf := (filter feasp Wl).

Lemma sel_feas phi w : In w (sel world Wl feasp phi) <-> In w (sel world Wf (top world) phi).
Proof. rewrite !sel_in, filter_In. unfold top. tauto. Qed.
Lemma exb_feas phi : existsb (fun w => feasp w && phi w) Wl = existsb phi Wf.
Proof. apply eq_true_iff_eq. rewrite !existsb_exists. split.
  - intros [w [Hw H]]. apply andb_true_iff in H as [? ?]. exists w. split; auto. apply filter_In; auto.
  - intros [w [Hw H]]. apply filter_In in Hw as [? ?]. exists w. split; auto. apply andb_true_iff; auto. Qed.

Lemma z_feas ls : (exists w', In w' (sel world Wl feasp AnB)) ->
  z_rec world Wl AB AnB ls feasp = z_rec world Wf AB AnB ls (top world).
Proof. intros [w' Hw']. apply eq_true_iff_eq.
  rewrite (z_rec_correct_any Wl q ls feasp) by eauto.
  rewrite (z_rec_correct_any Wf q ls (top world)) by (exists w'; apply sel_feas; auto).
  unfold zspec. split; intros [w [Hw Hall]]; exists w; (split; [apply sel_feas; auto|]); intros u Hu; apply Hall; apply sel_feas; auto. Qed.
Lemma w_feas ls : w_rec world Wl AB AnB ls feasp = w_rec world Wf AB AnB ls (top world).
Proof. apply eq_true_iff_eq. rewrite !w_rec_correct. unfold SysW.spec. split.
  - intros H w' Hw' _ Hf. apply filter_In in Hw' as [Hw' Hfe]. destruct (H w' Hw' Hfe Hf) as [w [Hw [Hfw [Hv Hl]]]].
    exists w. repeat split; auto. apply filter_In; auto.
  - intros H w' Hw' Hfe Hf. destruct (H w') as [w [Hw [_ [Hv Hl]]]]; auto; [apply filter_In; auto|].
    apply filter_In in Hw as [Hw Hfw]. exists w. auto. Qed.
Lemma lex_feas ls : lex_rec world Wl AB AnB ls feasp feasp = lex_rec world Wf AB AnB ls (top world) (top world).
Proof. apply eq_true_iff_eq. rewrite !lex_rec_correct. unfold lspec. split.
  - intros [[w0 Hw0] Hall]. split; [exists w0; apply sel_feas; auto|]. intros w' Hw'. apply sel_feas in Hw'.
    destruct (Hall w' Hw') as [w [Hw Hl]]. exists w. split; auto. apply sel_feas; auto.
  - intros [[w0 Hw0] Hall]. split; [exists w0; apply sel_feas; auto|]. intros w' Hw'. apply sel_feas in Hw'.
    destruct (Hall w' Hw') as [w [Hw Hl]]. exists w. split; auto. apply sel_feas; auto. Qed.
End F.

(* ---------- the formula-level statements ---------- *)
Section Top.
Variable n : nat.
Notation W := (worlds n).

Lemma strict_nonempty D P : D <> [] -> part_strict n D = Some P -> P <> [].
Proof. intros HD H. apply loop_sound in H as [_ Hp]. intros ->. simpl in Hp. apply Permutation_nil in Hp.
  destruct D; [congruence|discriminate]. Qed.

Theorem z_strict_correct P q : trivial n q || z_strict n P q = z_spec W P q.
Proof. apply z_model_spec. Qed.
Theorem w_strict_correct P q : trivial n q || w_strict n P q = w_spec W P q.
Proof. apply w_model_spec. Qed.
Theorem lex_strict_correct P q : trivial n q || lex_strict n P q = lex_spec W P q.
Proof. apply lex_model_spec. Qed.

(* extended mode *)
Lemma triv_feas P q : trivial n q = true ->
  negb (existsb (ante q) (Wf W P)) || negb (existsb (fal q) (Wf W P)) = true.
Proof. unfold trivial, sat, Wf. intros H. apply orb_true_iff in H as [H|H]; apply negb_true_iff in H; apply orb_true_iff; [left|right]; apply negb_true_iff.
  - destruct (existsb (ante q) (filter _ W)) eqn:E; auto. apply existsb_exists in E as [w [Hw Hx]]. apply filter_In in Hw as [Hw _].
    assert (existsb (ante q) W = true) by (apply existsb_exists; eauto). congruence.
  - destruct (existsb (fal q) (filter _ W)) eqn:E; auto. apply existsb_exists in E as [w [Hw Hx]]. apply filter_In in Hw as [Hw _].
    assert (existsb (fal q) W = true) by (apply existsb_exists; eauto). congruence. Qed.

Lemma ext_spec_collapse P q (sd : list world -> list (list (acond world)) -> cond -> bool) :
  (forall Wl Pl, (negb (existsb (ante q) Wl) || negb (existsb (fal q) Wl)) = true -> sd Wl Pl q = true) ->
  (forall Wl Pl, existsb (fal q) Wl = true -> existsb (ver q) Wl = false -> sd Wl Pl q = false) ->
  ext_spec W P q sd = sd (Wf W P) (fin P) q.
Proof. intros H1 H2. unfold ext_spec.
  destruct (negb (existsb (ante q) (Wf W P)) || negb (existsb (fal q) (Wf W P))) eqn:E1; [symmetry; apply H1; exact E1|].
  apply orb_false_iff in E1 as [_ E1]. apply negb_false_iff in E1.
  destruct (existsb (ver q) (Wf W P)) eqn:E2; [reflexivity|]. cbn [negb]. symmetry. apply H2; auto. Qed.

Lemma z_spec_triv Wl Pl q : (negb (existsb (ante q) Wl) || negb (existsb (fal q) Wl)) = true -> z_spec Wl Pl q = true.
Proof. intros H. rewrite <- z_model_spec. rewrite H. reflexivity. Qed.
Lemma w_spec_triv Wl Pl q : (negb (existsb (ante q) Wl) || negb (existsb (fal q) Wl)) = true -> w_spec Wl Pl q = true.
Proof. intros H. rewrite <- w_model_spec. rewrite H. reflexivity. Qed.
Lemma lex_spec_triv Wl Pl q : (negb (existsb (ante q) Wl) || negb (existsb (fal q) Wl)) = true -> lex_spec Wl Pl q = true.
Proof. intros H. rewrite <- lex_model_spec. rewrite H. reflexivity. Qed.

Lemma z_spec_nover Wl Pl q : existsb (fal q) Wl = true -> existsb (ver q) Wl = false -> z_spec Wl Pl q = false.
Proof. intros Hf Hv. unfold z_spec. rewrite ante_ex, Hf, orb_true_r. cbn [negb orb]. unfold rank_of, rk.
  assert (sel world Wl (top world) (ver q) = []) as ->; [|reflexivity].
  destruct (sel world Wl (top world) (ver q)) as [|w l] eqn:E; auto. exfalso.
  assert (existsb (ver q) Wl = true) by (apply exb_top; exists w; rewrite E; now left). congruence. Qed.
Lemma w_spec_nover Wl Pl q : existsb (fal q) Wl = true -> existsb (ver q) Wl = false -> w_spec Wl Pl q = false.
Proof. intros Hf Hv. unfold w_spec. apply existsb_exists in Hf as [w' [Hw' Hf]].
  destruct (forallb _ Wl) eqn:E; auto. exfalso. rewrite forallb_forall in E. specialize (E w' Hw'). rewrite Hf in E. cbn in E.
  apply existsb_exists in E as [w [Hw Hx]]. apply andb_true_iff in Hx as [Hx _].
  assert (existsb (ver q) Wl = true) by (apply existsb_exists; eauto). congruence. Qed.
Lemma lex_spec_nover Wl Pl q : existsb (fal q) Wl = true -> existsb (ver q) Wl = false -> lex_spec Wl Pl q = false.
Proof. intros Hf Hv. destruct (lex_spec Wl Pl q) eqn:E; auto. exfalso. apply lex_spec_iff in E as [E|[[w Hw] _]].
  - apply exb_top in Hf as [w Hw]. rewrite E in Hw. inversion Hw.
  - assert (existsb (ver q) Wl = true) by (apply exb_top; eauto). congruence. Qed.

Theorem z_ext_correct P q : trivial n q || z_ext n P q = ext_spec W P q z_spec.
Proof. rewrite ext_spec_collapse by (intros; auto using z_spec_triv, z_spec_nover).
  destruct (trivial n q) eqn:Et.
  - cbn [orb]. symmetry. apply z_spec_triv. apply triv_feas; auto.
  - cbn [orb]. unfold z_ext, inf_layer, fin_layers, feas. fold (Cinf P). fold (fin P).
    rewrite exb_feas. fold (Wf W P).
    destruct (existsb (fal q) (Wf W P)) eqn:Ef; cbn [negb].
    + rewrite z_feas. 2:{ apply existsb_exists in Ef as [w [Hw Hx]]. exists w. apply sel_feas. unfold Wf in Hw. apply sel_in. apply filter_In in Hw as [? ?]. unfold Wf. rewrite filter_In. unfold top. auto. }
      fold (Wf W P). rewrite <- z_model_spec. rewrite Ef. rewrite ante_ex, Ef, orb_true_r. reflexivity.
    + symmetry. apply z_spec_triv. rewrite Ef. apply orb_true_r. Qed.

Lemma w_rec_nil_match fin0 Wl q H : existsb (fun w => H w && fal q w) Wl = true ->
  match fin0 with [] => false | a::l => w_rec world Wl (ver q) (fal q) (layers (a::l)) H end
  = w_rec world Wl (ver q) (fal q) (layers fin0) H.
Proof. intros Hex. destruct fin0; [|reflexivity]. cbn. symmetry.
  apply existsb_exists in Hex as [w [Hw Hx]]. destruct (forallb _ Wl) eqn:E; auto.
  rewrite forallb_forall in E. specialize (E w Hw). rewrite Hx in E. discriminate. Qed.

Theorem w_ext_correct P q : trivial n q || w_ext n P q = ext_spec W P q w_spec.
Proof. rewrite ext_spec_collapse by (intros; auto using w_spec_triv, w_spec_nover).
  destruct (trivial n q) eqn:Et.
  - cbn [orb]. symmetry. apply w_spec_triv. apply triv_feas; auto.
  - cbn [orb]. unfold w_ext, inf_layer, fin_layers, feas. fold (Cinf P). fold (fin P).
    destruct (existsb (fun w => nofals world (Cinf P) w && fal q w) W) eqn:Ef0; cbn [negb].
    + rewrite w_rec_nil_match by exact Ef0. rewrite w_feas. fold (Wf W P). rewrite <- w_model_spec.
      rewrite exb_feas in Ef0. fold (Wf W P) in Ef0. rewrite Ef0. rewrite ante_ex, Ef0, orb_true_r. reflexivity.
    + symmetry. apply w_spec_triv. rewrite exb_feas in Ef0. fold (Wf W P) in Ef0. rewrite Ef0. apply orb_true_r. Qed.

Lemma lex_rec_nil_match fin0 Wl q H : existsb (fun w => H w && fal q w) Wl = true ->
  match fin0 with [] => false | a::l => lex_rec world Wl (ver q) (fal q) (layers (a::l)) H H end
  = lex_rec world Wl (ver q) (fal q) (layers fin0) H H.
Proof. intros Hex. destruct fin0; [|reflexivity]. cbn. symmetry.
  apply exb_sel in Hex as [w Hw]. destruct (sel world Wl H (ver q)); auto. destruct (sel world Wl H (fal q)); [inversion Hw|reflexivity]. Qed.

Theorem lex_ext_correct P q : trivial n q || lex_ext n P q = ext_spec W P q lex_spec.
Proof. rewrite ext_spec_collapse by (intros; auto using lex_spec_triv, lex_spec_nover).
  destruct (trivial n q) eqn:Et.
  - cbn [orb]. symmetry. apply lex_spec_triv. apply triv_feas; auto.
  - cbn [orb]. unfold lex_ext, inf_layer, fin_layers, feas. fold (Cinf P). fold (fin P).
    destruct (existsb (fun w => nofals world (Cinf P) w && ante q w) W) eqn:Ea0; cbn [negb].
    + destruct (existsb (fun w => nofals world (Cinf P) w && fal q w) W) eqn:Ef0; cbn [negb].
      * rewrite lex_rec_nil_match by exact Ef0. rewrite lex_feas. fold (Wf W P). rewrite <- lex_model_spec.
        rewrite exb_feas in Ef0, Ea0. fold (Wf W P) in Ef0, Ea0. rewrite Ef0, Ea0. reflexivity.
      * symmetry. apply lex_spec_triv. rewrite exb_feas in Ef0. fold (Wf W P) in Ef0. rewrite Ef0. apply orb_true_r.
    + symmetry. apply lex_spec_triv. rewrite exb_feas in Ea0. fold (Wf W P) in Ea0. rewrite Ea0. reflexivity. Qed.
End Top.
