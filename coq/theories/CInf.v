From InfOCF Require Import Core Tol.
(* C05/C17: the constraint system compiled from minimal correction sets is equivalent to
   "kappa_eta accepts every conditional" (eta >= 0 is built in: eta : list nat). *)
Fixpoint sumsel (v:bv) (eta:list nat) : nat := match v, eta with
  | b::v', e::eta' => (if b then e else 0) + sumsel v' eta' | _,_ => 0 end.
Lemma sumsel_mono a b eta : sub a b = true -> sumsel a eta <= sumsel b eta.
Proof. revert b eta; induction a as [|x a IH]; destruct b as [|y b]; simpl; try discriminate; auto.
  intros [|e eta] H; [lia|]. apply andb_true_iff in H as [H1 H2]. specialize (IH b eta H2). destruct x,y; simpl in *; try discriminate; lia. Qed.
Fixpoint mask (i:nat) (v:bv) : bv := match v with [] => [] | b::v' => match i with 0 => false::v' | S j => b :: mask j v' end end.
Lemma sumsel_mask i v eta : length v = length eta ->
  sumsel v eta = sumsel (mask i v) eta + (if nth i v false then nth i eta 0 else 0).
Proof. revert i eta; induction v as [|b v IH]; intros i [|e eta] Hl; simpl in *; try discriminate.
  - destruct i; reflexivity.
  - destruct i as [|j]; simpl.
    + destruct b; lia.
    + injection Hl as Hl. rewrite (IH j eta Hl). lia. Qed.

(* minimum of a monotone function over a family = minimum over its inclusion-minimal members *)
Lemma minl_cofinal (f:bv->nat) (l1 l2:list bv) :
  (forall x, In x l1 -> In x l2) -> (forall x, In x l2 -> exists y, In y l1 /\ f y <= f x) ->
  minl (map f l1) = minl (map f l2).
Proof. intros Hsub Hcof.
  destruct (minl (map f l1)) as [a|] eqn:E1; destruct (minl (map f l2)) as [b|] eqn:E2; auto.
  - f_equal. pose proof (minl_in _ _ E1) as Ha. apply in_map_iff in Ha as [x [<- Hx]].
    pose proof (minl_in _ _ E2) as Hb. apply in_map_iff in Hb as [y [<- Hy]].
    assert (f y <= f x) by (eapply minl_le; [exact E2|apply in_map; auto]).
    destruct (Hcof y Hy) as [z [Hz Hle]]. assert (f x <= f z) by (eapply minl_le; [exact E1|apply in_map; auto]). lia.
  - exfalso. apply minl_none in E2. apply map_eq_nil in E2. pose proof (minl_in _ _ E1) as Ha. apply in_map_iff in Ha as [x [_ Hx]].
    apply Hsub in Hx. rewrite E2 in Hx. inversion Hx.
  - exfalso. apply minl_none in E1. apply map_eq_nil in E1. pose proof (minl_in _ _ E2) as Hb. apply in_map_iff in Hb as [y [_ Hy]].
    destruct (Hcof y Hy) as [z [Hz _]]. rewrite E1 in Hz. inversion Hz. Qed.
Lemma min_over_minimal eta (fm:list bv) :
  minl (map (fun v => sumsel v eta) (minimal fm)) = minl (map (fun v => sumsel v eta) fm).
Proof. apply minl_cofinal.
  - intros x Hx. apply minimal_in in Hx as [? _]; auto.
  - intros x Hx. destruct (minimal_below fm x Hx) as [y [Hy Hs]]. exists y. split; auto. apply sumsel_mono; auto. Qed.

Section CInf.
Variable world : Type.
Variable W : list world.
Notation acond := (acond world).
Variable D : list acond.
Hypothesis excl : forall c w, In c D -> cver world c w = true -> cfal world c w = false.
Definition F (w:world) : bv := map (fun c => cfal world c w) D.
Definition kappa (eta:list nat) (w:world) : nat := sumsel (F w) eta.

(* the definition: kappa_eta accepts conditional number i *)
Definition accepts_i (eta:list nat) (i:nat) : bool :=
  let c := nth i D (Build_acond world 0 (fun _ => false) (fun _ => false)) in
  lt_opt (rk world W (kappa eta) (cver world c)) (rk world W (kappa eta) (cfal world c)).

(* the compiled constraint for conditional i: eta_i > min over vMin_i - min over fMin_i,
   written without subtraction; an empty fMin means "cannot be falsified": no constraint (the FIXED reading) *)
Definition vfam i := fam world W (top world) (fun w => mask i (F w)) (cver world (nth i D (Build_acond world 0 (fun _ => false) (fun _ => false)))).
Definition ffam i := fam world W (top world) (fun w => mask i (F w)) (cfal world (nth i D (Build_acond world 0 (fun _ => false) (fun _ => false)))).
Definition constraint_i (eta:list nat) (i:nat) : bool :=
  match minl (map (fun v => sumsel v eta) (minimal (vfam i))), minl (map (fun v => sumsel v eta) (minimal (ffam i))) with
  | Some mv, Some mf => mv <? nth i eta 0 + mf
  | Some _, None => true
  | None, _ => false end.

Lemma F_len w : length (F w) = length D. Proof. apply map_length. Qed.
Lemma nth_F i w d0 : i < length D -> nth i (F w) false = cfal world (nth i D d0) w.
Proof. intros Hi. unfold F. rewrite (nth_indep _ false (cfal world d0 w)) by (rewrite map_length; auto).
  apply (map_nth (fun c => cfal world c w)). Qed.

Theorem constraint_iff_accepts eta i : length eta = length D -> i < length D ->
  constraint_i eta i = accepts_i eta i.
Proof. intros Hl Hi. unfold constraint_i, accepts_i. rewrite !min_over_minimal.
  set (d0 := Build_acond world 0 (fun _ => false) (fun _ => false)). set (c := nth i D d0).
  assert (Hc: In c D) by (apply nth_In; auto).
  (* families are deduplicated; minima do not see that *)
  assert (Hdd: forall (g:bv->nat) l, minl (map g (dedup l)) = minl (map g l)).
  { intros g l. apply minl_cofinal.
    - intros x Hx. apply dedup_in; auto.
    - intros x Hx. exists x. split; [apply dedup_in; auto|lia]. }
  (* verification side: masked sum = kappa *)
  assert (Hv: minl (map (fun v => sumsel v eta) (vfam i)) = minl (map (kappa eta) (sel world W (top world) (cver world c)))).
  { unfold vfam, fam. fold d0. fold c. rewrite Hdd. f_equal. rewrite map_map. apply map_ext_in. intros w Hw. apply sel_in in Hw as [_ [_ Hw]].
    unfold kappa. rewrite (sumsel_mask i (F w) eta) by (rewrite F_len; auto).
    rewrite (nth_F i w d0 Hi). fold c. rewrite (excl c w Hc Hw). lia. }
  assert (Hf: minl (map (fun v => sumsel v eta + nth i eta 0) (ffam i)) = minl (map (kappa eta) (sel world W (top world) (cfal world c)))).
  { unfold ffam, fam. fold d0. fold c. rewrite (Hdd (fun v => sumsel v eta + nth i eta 0)). f_equal. rewrite map_map. apply map_ext_in. intros w Hw. apply sel_in in Hw as [_ [_ Hw]].
    unfold kappa. rewrite (sumsel_mask i (F w) eta) by (rewrite F_len; auto).
    rewrite (nth_F i w d0 Hi). fold c. rewrite Hw. lia. }
  unfold rk. rewrite <- Hv, <- Hf.
  assert (Hshift: forall l k, minl (map (fun v => sumsel v eta + k) l) = option_map (fun m => m + k) (minl (map (fun v => sumsel v eta) l))).
  { intros l k. induction l as [|v l IH]; simpl; auto. rewrite IH. destruct (minl (map (fun v0 => sumsel v0 eta) l)); simpl; auto. f_equal. lia. }
  rewrite Hshift.
  destruct (minl (map (fun v => sumsel v eta) (vfam i))) as [mv|]; destruct (minl (map (fun v => sumsel v eta) (ffam i))) as [mf|]; simpl; auto.
  destruct (mv <? nth i eta 0 + mf) eqn:E1, (mv <? mf + nth i eta 0) eqn:E2; auto; rewrite ?Nat.ltb_lt, ?Nat.ltb_ge in *; lia.
Qed.
End CInf.
Print Assumptions constraint_iff_accepts.
