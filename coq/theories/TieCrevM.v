From InfOCF Require Import Core Tol Form Model Crev ThmCrev ThmCrevInc PyLib PyInt TieLib TieSet TieOcf TieCrev TieCrevFast.
From InfOCFGen Require Import SrcCond SrcOcf SrcCrevM.
From Coq Require Import ZArith Lia Permutation.
(* TIE: the incremental c-revision model GENERATED from inference/c_revision_model.py (gen/SrcCrevM.v) - add_conditional,
   remove_conditional (the attributes they write are passed in and returned) - against the model Crev.cm_add / cm_remove: on a
   state that represents a model state m satisfying the invariant ThmCrevInc.cinv (distinct indices; per world the cached index
   sets are the registered conditionals accepted / rejected there), the generated method ends in a state representing
   cm_add m c / cm_remove m k (and raises exactly when cm_add refuses a duplicate index).  With cinv_step this is an invariant
   of ANY sequence of additions and removals. *)

(* ---- world-keyed dictionaries ---- *)
Lemma wget_mid {V R L} (A B:wdict V) w x : ~ In w (map fst A) -> @wdict_get V R L (A ++ (w, x) :: B) w = Next x.
Proof. intros H. unfold wdict_get. induction A as [|[w' v'] A IH]; cbn [app wdict_find].
  - rewrite (proj2 (beq_eq w w) eq_refl). reflexivity.
  - destruct (beq w' w) eqn:E; [apply beq_eq in E; exfalso; apply H; left; exact E|]. apply IH. intros Hin. apply H. right. exact Hin. Qed.
Lemma wset_mid {V} (A B:wdict V) w x y : ~ In w (map fst A) -> wdict_set (A ++ (w, x) :: B) w y = A ++ (w, y) :: B.
Proof. intros H. induction A as [|[w' v'] A IH]; cbn [app wdict_set].
  - rewrite (proj2 (beq_eq w w) eq_refl). reflexivity.
  - destruct (beq w' w) eqn:E; [apply beq_eq in E; exfalso; apply H; left; exact E|]. rewrite IH; [reflexivity|]. intros Hin. apply H. right. exact Hin. Qed.

Lemma combine_app' {A B} (a1 a2:list A) (b1 b2:list B) : length a1 = length b1 -> combine (a1 ++ a2) (b1 ++ b2) = combine a1 b1 ++ combine a2 b2.
Proof. revert b1. induction a1 as [|x a1 IH]; intros [|y b1] H; simpl in H; try discriminate; [reflexivity|]. cbn [app combine]. rewrite IH by lia. reflexivity. Qed.

(* a loop that rewrites the entry of every world, in dictionary order, in two dictionaries with the same keys *)
Lemma update_all {A R} (ks:list A) (key:A -> world) (body:A -> wdict (list Z) * wdict (list Z) -> ctl R (wdict (list Z) * wdict (list Z)) (wdict (list Z) * wdict (list Z)))
  (f g:A -> list Z -> list Z) :
  NoDup (map key ks) ->
  (forall a P1 S1 x P2 S2 y, In a ks -> ~ In (key a) (map fst P1) -> ~ In (key a) (map fst P2) ->
     body a (P1 ++ (key a, x) :: S1, P2 ++ (key a, y) :: S2) = Next (P1 ++ (key a, f a x) :: S1, P2 ++ (key a, g a y) :: S2)) ->
  forall (l1 l2:list (list Z)), length l1 = length ks -> length l2 = length ks ->
  @for_each A R unit _ ks body (map (fun al => (key (fst al), snd al)) (combine ks l1), map (fun al => (key (fst al), snd al)) (combine ks l2))
  = Next (map (fun al => (key (fst al), f (fst al) (snd al))) (combine ks l1), map (fun al => (key (fst al), g (fst al) (snd al))) (combine ks l2)).
Proof. intros Hn Hb.
  assert (G: forall todo done (d1 d2 t1 t2:list (list Z)), done ++ todo = ks -> length d1 = length done -> length d2 = length done ->
             length t1 = length todo -> length t2 = length todo ->
             @for_each A R unit _ todo body
               (map (fun al => (key (fst al), f (fst al) (snd al))) (combine done d1) ++ map (fun al => (key (fst al), snd al)) (combine todo t1),
                map (fun al => (key (fst al), g (fst al) (snd al))) (combine done d2) ++ map (fun al => (key (fst al), snd al)) (combine todo t2))
             = Next (map (fun al => (key (fst al), f (fst al) (snd al))) (combine done d1) ++ map (fun al => (key (fst al), f (fst al) (snd al))) (combine todo t1),
                     map (fun al => (key (fst al), g (fst al) (snd al))) (combine done d2) ++ map (fun al => (key (fst al), g (fst al) (snd al))) (combine todo t2))).
  { induction todo as [|a todo IH]; intros done d1 d2 t1 t2 Hd L1 L2 L3 L4; [reflexivity|].
    destruct t1 as [|x t1]; [discriminate|]. destruct t2 as [|y t2]; [discriminate|]. cbn [combine map for_each fst snd].
    assert (Hka: forall (dd:list (list Z)) (h:A -> list Z -> list Z), ~ In (key a) (map fst (map (fun al => (key (fst al), h (fst al) (snd al))) (combine done dd)))).
    { intros dd h Hin. rewrite map_map in Hin. cbn [fst] in Hin. apply in_map_iff in Hin as [[a' x'] [E Hin]]. cbn [fst] in E.
      apply in_combine_l in Hin. rewrite <- Hd, map_app in Hn. cbn [map] in Hn. apply NoDup_remove_2 in Hn. apply Hn. apply in_or_app. left.
      rewrite <- E. apply in_map. exact Hin. }
    rewrite Hb by (try apply Hka; rewrite <- Hd; apply in_or_app; right; left; reflexivity).
    specialize (IH (done ++ [a]) (d1 ++ [x]) (d2 ++ [y]) t1 t2).
    rewrite !combine_app' in IH by (symmetry; assumption). rewrite !map_app in IH. cbn [combine map fst snd] in IH. rewrite <- !app_assoc in IH. cbn [app] in IH.
    simpl in L3, L4. apply IH.
    - exact Hd.
    - rewrite !app_length. cbn [length]. lia.
    - rewrite !app_length. cbn [length]. lia.
    - lia.
    - lia. }
  intros l1 l2 L1 L2. apply (G ks [] [] [] l1 l2); auto. Qed.

Lemma map_pair_id {A B} (l:list (A * B)) : map (fun al => (fst al, snd al)) l = l.
Proof. induction l as [|[a b] l IH]; [reflexivity|]. cbn [map fst snd]. rewrite IH. reflexivity. Qed.
Lemma combine_map_r {A B C} (h:B -> C) (ks:list A) (ls:list B) : combine ks (map h ls) = map (fun al => (fst al, h (snd al))) (combine ks ls).
Proof. revert ls. induction ks as [|a ks IH]; intros [|b ls]; try reflexivity. cbn [map combine fst snd]. rewrite IH. reflexivity. Qed.
Lemma zmem_map_keys {V} (g:cond -> V) (l:list cond) k : zdict_mem (map (fun c => (ckz c, g c)) l) (Z.of_nat k) = existsb (fun c => ckey c =? k) l.
Proof. unfold zdict_mem. induction l as [|c l IH]; [reflexivity|]. cbn [map zdict_find existsb].
  assert (E: (ckz c =? Z.of_nat k)%Z = (ckey c =? k)) by (unfold ckz; destruct (Nat.eqb_spec (ckey c) k) as [->|Hne]; [apply Z.eqb_refl|apply Z.eqb_neq; lia]).
  rewrite E. destruct (ckey c =? k); [reflexivity|exact IH]. Qed.
Lemma zdel_map_keys {V} (g:cond -> V) (l:list cond) k : NoDup (map ckey l) ->
  zdict_del (map (fun c => (ckz c, g c)) l) (Z.of_nat k) = map (fun c => (ckz c, g c)) (filter (fun d => negb (ckey d =? k)) l).
Proof. induction l as [|c l IH]; intros Hn; [reflexivity|]. cbn [map] in Hn. inversion Hn as [|? ? Hni Hn']; subst. cbn [map zdict_del filter].
  assert (E: (ckz c =? Z.of_nat k)%Z = (ckey c =? k)) by (unfold ckz; destruct (Nat.eqb_spec (ckey c) k) as [->|Hne]; [apply Z.eqb_refl|apply Z.eqb_neq; lia]).
  rewrite E. destruct (ckey c =? k) eqn:Ek; cbn [negb].
  - apply Nat.eqb_eq in Ek. subst k. f_equal. symmetry.
    assert (Ef: filter (fun d => negb (ckey d =? ckey c)) l = l).
    { clear -Hni. induction l as [|d l IH]; [reflexivity|]. cbn [filter]. destruct (ckey d =? ckey c) eqn:E.
      - apply Nat.eqb_eq in E. exfalso. apply Hni. left. exact E.
      - cbn [negb]. f_equal. apply IH. intros H. apply Hni. right. exact H. }
    rewrite Ef. reflexivity.
  - cbn [map]. f_equal. apply IH. exact Hn'. Qed.
Lemma zget_map_keys {V R L} (g:cond -> V) (l:list cond) k : existsb (fun c => ckey c =? k) l = true ->
  exists v, @zdict_get V R L (map (fun c => (ckz c, g c)) l) (Z.of_nat k) = Next v.
Proof. intros H. unfold zdict_get. pose proof (zmem_map_keys g l k) as E. rewrite H in E. unfold zdict_mem in E.
  destruct (zdict_find (map (fun c => (ckz c, g c)) l) (Z.of_nat k)) as [v|]; [exists v; reflexivity|discriminate]. Qed.

Lemma post_eq' (prl:prior) (ls:list (list nat)) (fz:world * nat -> list Z -> list Z) (F:world -> list nat -> list nat) :
  (forall p l, In p prl -> In l ls -> fz p (map Z.of_nat l) = map Z.of_nat (F (fst p) l)) ->
  map (fun al => (fst (fst al), fz (fst al) (snd al))) (combine prl (map (map Z.of_nat) ls))
  = combine (map fst prl) (map (map Z.of_nat) (map (fun pa => F (fst (fst pa)) (snd pa)) (combine prl ls))).
Proof. revert ls. induction prl as [|p prl IH]; intros [|l ls] H; try reflexivity. cbn [map combine fst snd].
  rewrite (H p l (or_introl eq_refl) (or_introl eq_refl)). f_equal. apply IH. intros p' l' Hp Hl. apply H; right; assumption. Qed.

Section CM.
Variable n : nat.
Variable pr : prior.
Hypothesis Hkeys : NoDup (map fst pr).
Hypothesis Hworlds : forall p, In p pr -> In (fst p) (worlds n).

Definition zsets (ls:list (list nat)) : wdict (list Z) := combine (map fst pr) (map (map Z.of_nat) ls).
Definition cstate := (dict Z cond * dict Z (option (Z * Z * Z * Z)) * wdict (list Z) * wdict (list Z))%type.
Definition rep (m:cmodel) (S:cstate) : Prop :=
  S = (map (fun c => (ckz c, c)) (reg m), map (fun c => (ckz c, zmask (mask_of c))) (reg m), zsets (wacc m), zsets (wrej m)).

Lemma cinv_lengths m : cinv pr m -> length (wacc m) = length pr /\ length (wrej m) = length pr.
Proof. intros [_ [Ha Hr]]. split; symmetry; eapply Forall2_len; eassumption. Qed.
Lemma cinv_acc_keys m l k : cinv pr m -> In l (wacc m) \/ In l (wrej m) -> In k l -> existsb (fun c => ckey c =? k) (reg m) = true.
Proof. intros [_ [Ha Hr]] Hl Hk.
  assert (G: forall want (prl:prior) (ls:list (list nat)), Forall2 (fun p x => Permutation x (keys_where classify (reg m) (fst p) want)) prl ls -> In l ls ->
             existsb (fun c => ckey c =? k) (reg m) = true).
  { intros want prl ls HF. induction HF as [|p x prl xs Hp HF IH]; intros Hin; [destruct Hin|]. destruct Hin as [->|Hin]; [|apply IH; exact Hin].
    apply (Permutation_in _ Hp) in Hk. unfold keys_where in Hk. apply in_map_iff in Hk as [c [Ek Hc]]. apply filter_In in Hc as [Hc _].
    apply existsb_exists. exists c. split; [exact Hc|]. rewrite Ek. apply Nat.eqb_refl. }
  destruct Hl as [Hl|Hl]; [apply (G true pr (wacc m) Ha Hl)|apply (G false pr (wrej m) Hr Hl)]. Qed.

Theorem tie_cm_remove m k : cinv pr m ->
  exists S', py_CRevisionModel_remove_conditional n (map fst pr) (Z.of_nat k)
               (map (fun c => (ckz c, c)) (reg m)) (map (fun c => (ckz c, zmask (mask_of c))) (reg m)) (zsets (wacc m)) (zsets (wrej m))
             = Return (tt, S') /\ rep (cm_remove m k) S'.
Proof. intros Hinv. destruct (cinv_lengths m Hinv) as [La Lr]. destruct Hinv as [Hnd HF] eqn:Ei. clear Ei.
  unfold py_CRevisionModel_remove_conditional. rewrite zmem_map_keys.
  destruct (existsb (fun c => ckey c =? k) (reg m)) eqn:Ex; cbn [negb cbind].
  - (* registered: deleted from the registry and discarded from every world's sets *)
    match goal with |- context [@zdict_get cond ?R0 ?L0 _ (Z.of_nat k)] =>
      destruct (@zget_map_keys _ R0 L0 (fun c => c) (reg m) k Ex) as [v Ev] end. rewrite Ev. cbn [cbind].
    rewrite zmem_map_keys, Ex. cbn [cbind].
    match goal with |- context [@zdict_get (option (Z * Z * Z * Z)) ?R0 ?L0 _ (Z.of_nat k)] =>
      destruct (@zget_map_keys _ R0 L0 (fun c => zmask (mask_of c)) (reg m) k Ex) as [v2 Ev2] end. rewrite Ev2. cbn [cbind].
    rewrite !zdel_map_keys by exact Hnd.
    match goal with |- context [for_each (map fst pr) ?b _] => set (body := b) end.
    unfold zsets at 1 2. rewrite <- (map_pair_id (combine (map fst pr) (map (map Z.of_nat) (wacc m)))), <- (map_pair_id (combine (map fst pr) (map (map Z.of_nat) (wrej m)))).
    rewrite (update_all (map fst pr) (fun w => w) body (fun _ x => zset_discard x (Z.of_nat k)) (fun _ y => zset_discard y (Z.of_nat k))).
    + cbn [cbind]. eexists. split; [reflexivity|]. unfold rep, cm_remove. cbn [reg wacc wrej]. f_equal; [f_equal|]; unfold zsets;
        rewrite (map_map (remove_key k) (map Z.of_nat)), !combine_map_r, map_map; apply map_ext; intros [w l]; cbn [fst snd];
        f_equal; unfold zset_discard, remove_key; apply filter_ne_nat.
    + rewrite map_id. exact Hkeys.
    + intros w P1 S1 x P2 S2 y Hw H1 H2. unfold body. rewrite (wget_mid P1 S1 w x H1). cbn [cbind]. rewrite (wset_mid P1 S1 w x _ H1).
      rewrite (wget_mid P2 S2 w y H2). cbn [cbind]. rewrite (wset_mid P2 S2 w y _ H2). reflexivity.
    + rewrite !map_length. exact La.
    + rewrite !map_length. exact Lr.
  - (* not registered: nothing changes, and the model's removal is the identity *)
    eexists. split; [reflexivity|]. unfold rep, cm_remove. cbn [reg wacc wrej].
    assert (Ef: filter (fun d => negb (ckey d =? k)) (reg m) = reg m).
    { clear -Ex. induction (reg m) as [|d l IH]; [reflexivity|]. cbn [existsb] in Ex. apply orb_false_iff in Ex as [E1 E2]. cbn [filter]. rewrite E1. cbn [negb]. f_equal. apply IH. exact E2. }
    assert (Ek: forall ls, (forall l, In l ls -> In l (wacc m) \/ In l (wrej m)) -> map (remove_key k) ls = ls).
    { intros ls Hls. rewrite <- (map_id ls) at 2. apply map_ext_in. intros l Hl. unfold remove_key.
      assert (G: forall l0, (forall x, In x l0 -> x <> k) -> filter (fun i => negb (i =? k)) l0 = l0).
      { induction l0 as [|x l0 IH0]; intros H0; [reflexivity|]. cbn [filter]. destruct (Nat.eqb_spec x k) as [E|E]; [exfalso; apply (H0 x); [left; reflexivity|exact E]|].
        cbn [negb]. f_equal. apply IH0. intros y Hy. apply H0. right. exact Hy. }
      apply G. intros x Hx ->. pose proof (cinv_acc_keys m l k (conj Hnd HF) (Hls l Hl) Hx) as Hk. rewrite Hk in Ex. discriminate. }
    rewrite Ef, (Ek (wacc m)) by (intros; left; assumption). rewrite (Ek (wrej m)) by (intros; right; assumption). reflexivity.
Qed.

(* ---- add_conditional ---- *)
Definition bitsZ (w:world) : list Z := map (fun (v_b:bool) => if v_b then 1%Z else 0%Z) w.
Definition world_bits : wdict (list Z) := map (fun p => (fst p, bitsZ (fst p))) pr.

Lemma cm_literal_info_tie f : py_cm_literal_info n f = Return (zlit_info (lit_info f)).
Proof. destruct f; try reflexivity. destruct f; reflexivity. Qed.
Lemma cm_mex_ok c : (forall a av b bv, mask_of c = Some (a, av, b, bv) -> a < n /\ b < n) ->
  py_cm_extract_cond_masks n c (sig_index n) = Return (zmask (mask_of c)).
Proof. intros Hi. unfold py_cm_extract_cond_masks. rewrite !cm_literal_info_tie. cbn [call]. cbv zeta. unfold mask_of in *.
  destruct (lit_info (cante c)) as [[a av]|]; [|reflexivity].
  destruct (lit_info (ccons c)) as [[b bv]|]; [|reflexivity].
  destruct (Hi a av b bv eq_refl) as [Ha Hb].
  cbn [zlit_info is_none orb cbind py_unsome]. rewrite (sig_index_find n a Ha). cbn [try_key cbind py_unsome].
  rewrite (sig_index_find n b Hb). reflexivity. Qed.

Lemma combine_map_l {A B C} (h:A -> B) (ks:list A) (ls:list C) : combine (map h ks) ls = map (fun al => (h (fst al), snd al)) (combine ks ls).
Proof. revert ls. induction ks as [|a ks IH]; intros [|b ls]; try reflexivity. cbn [map combine fst snd]. rewrite IH. reflexivity. Qed.
Lemma zfind_app_new {V} (d:dict Z V) k v : zdict_find d k = None -> zdict_find (d ++ [(k, v)]) k = Some v.
Proof. induction d as [|[k' v'] d IH]; cbn [app zdict_find]; [rewrite Z.eqb_refl; reflexivity|]. destruct (k' =? k)%Z; [discriminate|exact IH]. Qed.
Lemma zfind_none_keys {V} (d:dict Z V) k : zdict_find d k = None -> ~ In k (dict_keys d).
Proof. induction d as [|[k' v'] d IH]; cbn [zdict_find dict_keys map fst]; [intros _ []|]. destruct (k' =? k)%Z eqn:E; [discriminate|].
  intros H [Hk|Hk]; [subst; rewrite Z.eqb_refl in E; discriminate|exact (IH H Hk)]. Qed.

Definition is_acc (c:cond) (w:world) : bool := match classify_fast c w with Some true => true | _ => false end.
Definition is_rej (c:cond) (w:world) : bool := match classify_fast c w with Some false => true | _ => false end.

Theorem tie_cm_add m c rf : cinv pr m -> (forall a av b bv, mask_of c = Some (a, av, b, bv) -> a < n /\ b < n) ->
  match cm_add pr m c with
  | Some m' => exists S', py_CRevisionModel_add_conditional n (sig_index n) (map fst pr) world_bits rf c
                            (map (fun c => (ckz c, c)) (reg m)) (map (fun c => (ckz c, zmask (mask_of c))) (reg m)) (zsets (wacc m)) (zsets (wrej m))
                          = Return (tt, S') /\ rep m' S'
  | None => py_CRevisionModel_add_conditional n (sig_index n) (map fst pr) world_bits rf c
              (map (fun c => (ckz c, c)) (reg m)) (map (fun c => (ckz c, zmask (mask_of c))) (reg m)) (zsets (wacc m)) (zsets (wrej m)) = Raise
  end.
Proof. intros Hinv Hidx. destruct (cinv_lengths m Hinv) as [La Lr].
  unfold cm_add, py_CRevisionModel_add_conditional. cbn [negb cbind]. cbv zeta.
  change (ckz c) with (Z.of_nat (ckey c)). rewrite zmem_map_keys.
  destruct (existsb (fun d => ckey d =? ckey c) (reg m)) eqn:Ex; cbn [cbind]; [reflexivity|].
  change (Z.of_nat (ckey c)) with (ckz c).
  assert (Hnew: forall {V} (g:cond -> V), zdict_find (map (fun c0 => (ckz c0, g c0)) (reg m)) (ckz c) = None).
  { intros V g. pose proof (zmem_map_keys g (reg m) (ckey c)) as E. rewrite Ex in E. unfold zdict_mem in E. fold (ckz c) in E.
    destruct (zdict_find (map (fun c0 => (ckz c0, g c0)) (reg m)) (ckz c)); [discriminate|reflexivity]. }
  rewrite (zdict_set_end (map (fun c0 => (ckz c0, c0)) (reg m))) by (apply zfind_none_keys; apply Hnew).
  rewrite (cm_mex_ok c Hidx). cbn [call].
  rewrite (zdict_set_end (map (fun c0 => (ckz c0, zmask (mask_of c0))) (reg m))) by (apply zfind_none_keys; apply Hnew).
  unfold zdict_get at 1. rewrite (zfind_app_new _ _ _ (Hnew _ (fun c0 => zmask (mask_of c0)))). cbn [cbind].
  (* the new index is in no cached set: set.add appends *)
  assert (Eadd: forall l, In l (wacc m) \/ In l (wrej m) -> zset_add (map Z.of_nat l) (ckz c) = map Z.of_nat (l ++ [ckey c])).
  { intros l Hl. unfold zset_add, ckz. rewrite zmem_nat. destruct (existsb (Nat.eqb (ckey c)) l) eqn:E.
    - apply existsb_exists in E as [x [Hx Ee]]. apply Nat.eqb_eq in Ee. subst x. exfalso.
      pose proof (cinv_acc_keys m l (ckey c) Hinv Hl Hx) as E. rewrite E in Ex. discriminate.
    - rewrite map_app. reflexivity. }
  set (wa' := map (fun pa => if is_acc c (fst (fst pa)) then snd pa ++ [ckey c] else snd pa) (combine pr (wacc m))).
  set (wr' := map (fun pa => if is_rej c (fst (fst pa)) then snd pa ++ [ckey c] else snd pa) (combine pr (wrej m))).
  assert (Emodel: {| reg := reg m ++ [c];
                     wacc := map (fun pa => if match classify_fast c (fst (fst pa)) with Some true => true | _ => false end then snd pa ++ [ckey c] else snd pa) (combine pr (wacc m));
                     wrej := map (fun pa => if match classify_fast c (fst (fst pa)) with Some false => true | _ => false end then snd pa ++ [ckey c] else snd pa) (combine pr (wrej m)) |}
                  = {| reg := reg m ++ [c]; wacc := wa'; wrej := wr' |}) by reflexivity.
  rewrite Emodel. clear Emodel.
  match goal with |- exists S', cbind ?loop _ = _ /\ _ =>
    assert (KEY: loop = @Next (unit * cstate) unit _ (zsets wa', zsets wr')) end.
  2:{ rewrite KEY. cbn [cbind]. eexists. split; [reflexivity|]. unfold rep. cbn [reg wacc wrej]. rewrite !map_app. reflexivity. }
  unfold is_acc, is_rej, classify_fast in wa', wr'.
  destruct (mask_of c) as [[[[ai av] bi] bv]|] eqn:Em; cbn [zmask is_none cbind py_unsome].
  - (* literal conditional: the bit masks *)
    destruct (Hidx ai av bi bv eq_refl) as [Ha Hb].
    match goal with |- context [for_each world_bits ?b _] => set (body := b) end.
    assert (Ein: forall ls, zsets ls = map (fun al => (fst (fst al), snd al)) (combine world_bits (map (map Z.of_nat) ls))).
    { intros ls. unfold zsets, world_bits. rewrite !combine_map_l, map_map. reflexivity. }
    rewrite (Ein (wacc m)), (Ein (wrej m)).
    rewrite (update_all world_bits fst body
               (fun wb x => if (Bool.eqb (nth ai (fst wb) false) av) then (if Bool.eqb (nth bi (fst wb) false) bv then zset_add x (ckz c) else x) else x)
               (fun wb y => if (Bool.eqb (nth ai (fst wb) false) av) then (if Bool.eqb (nth bi (fst wb) false) bv then y else zset_add y (ckz c)) else y)).
    + cbn [cbind]. f_equal. unfold world_bits. rewrite !combine_map_l, !map_map. cbn [fst snd]. f_equal.
      * rewrite (post_eq' pr (wacc m) (fun p x => if Bool.eqb (nth ai (fst p) false) av then (if Bool.eqb (nth bi (fst p) false) bv then zset_add x (ckz c) else x) else x)
                   (fun w l => if match (if Bool.eqb (nth ai w false) av then Some (Bool.eqb (nth bi w false) bv) else None) with Some true => true | _ => false end then l ++ [ckey c] else l)); [reflexivity|].
        intros p l Hp Hl. cbn [fst]. destruct (Bool.eqb (nth ai (fst p) false) av); [|reflexivity]. destruct (Bool.eqb (nth bi (fst p) false) bv); [apply Eadd; left; exact Hl|reflexivity].
      * rewrite (post_eq' pr (wrej m) (fun p y => if Bool.eqb (nth ai (fst p) false) av then (if Bool.eqb (nth bi (fst p) false) bv then y else zset_add y (ckz c)) else y)
                   (fun w l => if match (if Bool.eqb (nth ai w false) av then Some (Bool.eqb (nth bi w false) bv) else None) with Some false => true | _ => false end then l ++ [ckey c] else l)); [reflexivity|].
        intros p l Hp Hl. cbn [fst]. destruct (Bool.eqb (nth ai (fst p) false) av); [|reflexivity]. destruct (Bool.eqb (nth bi (fst p) false) bv); [reflexivity|apply Eadd; right; exact Hl].
    + unfold world_bits. rewrite map_map. cbn [fst]. exact Hkeys.
    + intros [w bits] P1 S1 x P2 S2 y Hw H1 H2. cbn [fst] in *. unfold body.
      unfold world_bits in Hw. apply in_map_iff in Hw as [p [E Hp]]. inversion E; subst w bits.
      assert (Hlen: length (fst p) = n) by (apply worlds_length; apply Hworlds; exact Hp).
      assert (Eb: forall i R0 L0, i < n -> @py_index Z R0 L0 (bitsZ (fst p)) (Z.of_nat i) = Next (bZ (nth i (fst p) false))).
      { intros i R0 L0 Hi. rewrite (py_index_nat (bitsZ (fst p)) i 0%Z) by (unfold bitsZ; rewrite map_length, Hlen; exact Hi).
        unfold bitsZ. change 0%Z with ((fun v_b : bool => if v_b then 1%Z else 0%Z) false). rewrite map_nth. reflexivity. }
      rewrite (Eb ai) by exact Ha. cbn [cbind]. rewrite bZ_eqb. destruct (Bool.eqb (nth ai (fst p) false) av); cbn [cbind]; [|reflexivity].
      rewrite (Eb bi) by exact Hb. cbn [cbind]. rewrite bZ_eqb. destruct (Bool.eqb (nth bi (fst p) false) bv); cbn [cbind].
      * rewrite (wget_mid P1 S1 (fst p) x H1). cbn [cbind]. rewrite (wset_mid P1 S1 (fst p) x _ H1). reflexivity.
      * rewrite (wget_mid P2 S2 (fst p) y H2). cbn [cbind]. rewrite (wset_mid P2 S2 (fst p) y _ H2). reflexivity.
    + unfold world_bits. rewrite !map_length. exact La.
    + unfold world_bits. rewrite !map_length. exact Lr.
  - (* compound conditional: the solver *)
    match goal with |- context [for_each (map fst pr) ?b _] => set (body := b) end.
    unfold zsets at 1 2. rewrite <- (map_pair_id (combine (map fst pr) (map (map Z.of_nat) (wacc m)))), <- (map_pair_id (combine (map fst pr) (map (map Z.of_nat) (wrej m)))).
    rewrite (update_all (map fst pr) (fun w => w) body
               (fun w x => if ver c w then zset_add x (ckz c) else x)
               (fun w y => if ver c w then y else if fal c w then zset_add y (ckz c) else y)).
    + cbn [cbind]. f_equal. rewrite !combine_map_l, !map_map. cbn [fst snd]. f_equal.
      * rewrite (post_eq' pr (wacc m) (fun p x => if ver c (fst p) then zset_add x (ckz c) else x)
                   (fun w l => if match classify c w with Some true => true | _ => false end then l ++ [ckey c] else l)); [reflexivity|].
        intros p l Hp Hl. unfold classify. destruct (ver c (fst p)); [apply Eadd; left; exact Hl|]. destruct (fal c (fst p)); reflexivity.
      * rewrite (post_eq' pr (wrej m) (fun p y => if ver c (fst p) then y else if fal c (fst p) then zset_add y (ckz c) else y)
                   (fun w l => if match classify c w with Some false => true | _ => false end then l ++ [ckey c] else l)); [reflexivity|].
        intros p l Hp Hl. unfold classify. destruct (ver c (fst p)); [reflexivity|]. destruct (fal c (fst p)); [apply Eadd; right; exact Hl|reflexivity].
    + rewrite map_id. exact Hkeys.
    + intros w P1 S1 x P2 S2 y Hw H1 H2. unfold body.
      assert (HwW: In w (worlds n)) by (apply in_map_iff in Hw as [p [<- Hp]]; apply Hworlds; exact Hp).
      rewrite (sat_ver n w c HwW). destruct (ver c w); cbn [cbind].
      * rewrite (wget_mid P1 S1 w x H1). cbn [cbind]. rewrite (wset_mid P1 S1 w x _ H1). reflexivity.
      * rewrite (sat_fal n w c HwW). destruct (fal c w); cbn [cbind]; [|reflexivity].
        rewrite (wget_mid P2 S2 w y H2). cbn [cbind]. rewrite (wset_mid P2 S2 w y _ H2). reflexivity.
    + rewrite !map_length. exact La.
    + rewrite !map_length. exact Lr.
Qed.

(* ---- to_compilation ---- *)
Lemma wfind_entry' {V} (d:wdict V) w v : NoDup (map fst d) -> In (w, v) d -> wdict_find d w = Some v.
Proof. induction d as [|[w' v'] d IH]; intros Hn Hin; [destruct Hin|]. simpl in Hn. inversion Hn as [|? ? Hni Hn']; subst.
  simpl. destruct Hin as [E|Hin].
  - inversion E; subst. rewrite (proj2 (beq_eq w w) eq_refl). reflexivity.
  - destruct (beq w' w) eqn:Eb; [|apply IH; assumption]. apply beq_eq in Eb. subst. exfalso. apply Hni.
    change w with (fst (w, v)). apply in_map. exact Hin. Qed.
Lemma zsort_nat l : zsort (map Z.of_nat l) = map Z.of_nat (sort_keys l).
Proof. unfold zsort, sort_keys. induction l as [|a l IH]; [reflexivity|]. cbn [map fold_right]. rewrite IH.
  generalize (fold_right insert_s [] l). intros s0. induction s0 as [|y s0 IHs]; [reflexivity|]. cbn [map zinsert insert_s].
  assert (E: (Z.of_nat a <=? Z.of_nat y)%Z = (a <=? y)) by (destruct (Nat.leb_spec a y); [apply Z.leb_le; lia|apply Z.leb_gt; lia]).
  rewrite E. destruct (a <=? y); [reflexivity|]. cbn [map]. rewrite IHs. reflexivity. Qed.
Lemma mk_find_key {V} (l:list cond) (X:nat -> V) k : In k (map ckey l) -> zdict_find (mk l X) (Z.of_nat k) = Some (X k).
Proof. intros Hin. apply in_map_iff in Hin as [c [<- Hc]]. apply (mk_find l X c Hc). Qed.
Lemma mk_set_key {V} (l:list cond) (X:nat -> V) k v : NoDup (map ckey l) -> In k (map ckey l) ->
  zdict_set (mk l X) (Z.of_nat k) v = mk l (fun k' => if k' =? k then v else X k').
Proof. intros Hn Hin. apply in_map_iff in Hin as [c [<- Hc]]. apply (mk_set_eq l X c v Hn Hc). Qed.

(* one inner loop of to_compilation: every index of a sorted list gets one more triple *)
Lemma hand_out {R L} (cs:list cond) (tz:nat -> Z * list Z * list Z) (body:Z -> dict Z (list (Z * list Z * list Z)) -> ctl R (dict Z (list (Z * list Z * list Z))) (dict Z (list (Z * list Z * list Z)))) :
  NoDup (map ckey cs) ->
  (forall k (X:nat -> list (Z * list Z * list Z)), In k (map ckey cs) -> body (Z.of_nat k) (mk cs X) = cbind (zdict_get (mk cs X) (Z.of_nat k)) (fun t => Next (zdict_set (mk cs X) (Z.of_nat k) (t ++ [tz k])))) ->
  forall l X, NoDup l -> (forall k, In k l -> In k (map ckey cs)) ->
  @for_each Z R L _ (map Z.of_nat l) body (mk cs X) = Next (mk cs (fun k => X k ++ if existsb (Nat.eqb k) l then [tz k] else [])).
Proof. intros Hn Hb. induction l as [|k l IH]; intros X Hl Hin.
  - cbn [map for_each]. f_equal. unfold mk. apply map_ext. intros c. cbn [existsb]. rewrite app_nil_r. reflexivity.
  - cbn [map for_each]. rewrite Hb by (apply Hin; left; reflexivity). unfold zdict_get. rewrite mk_find_key by (apply Hin; left; reflexivity). cbn [cbind].
    rewrite mk_set_key by (try exact Hn; apply Hin; left; reflexivity). inversion Hl as [|? ? Hni Hl']; subst.
    rewrite IH by (try exact Hl'; intros k' Hk'; apply Hin; right; exact Hk'). f_equal. unfold mk. apply map_ext. intros c. f_equal.
    cbn [existsb]. destruct (Nat.eqb_spec (ckey c) k) as [->|Hne]; cbn [orb].
    + assert (E: existsb (Nat.eqb k) l = false) by (destruct (existsb (Nat.eqb k) l) eqn:E; [|reflexivity]; exfalso; apply existsb_exists in E as [x [Hx Ex]]; apply Nat.eqb_eq in Ex; subst; contradiction).
      rewrite E, app_nil_r. reflexivity.
    + reflexivity. Qed.

Lemma map_fst_combine' {A B} (l:list A) (l':list B) : length l = length l' -> map fst (combine l l') = l.
Proof. revert l'. induction l as [|a l IH]; intros [|b l'] H; simpl in H; try discriminate; [reflexivity|]. cbn [combine map fst]. rewrite IH by lia. reflexivity. Qed.
Lemma zip3_fst (prl:prior) (A R:list (list nat)) : length A = length prl -> length R = length prl ->
  map (fun x => fst (fst (fst x))) (combine (combine prl A) R) = map fst prl.
Proof. revert A R. induction prl as [|q prl IH]; intros [|a A] [|r R] H1 H2; simpl in H1, H2; try discriminate; [reflexivity|].
  cbn [combine map fst]. rewrite IH by lia. reflexivity. Qed.
Lemma remove_key_notin k l : ~ In k l -> remove_key k l = l.
Proof. unfold remove_key. induction l as [|x l IH]; intros H; [reflexivity|]. cbn [filter]. destruct (Nat.eqb_spec x k) as [E|E]; [exfalso; apply H; left; exact E|].
  cbn [negb]. f_equal. apply IH. intros Hin. apply H. right. exact Hin. Qed.
Lemma fst_inj_nodup {A B} (l:list (A * B)) p q : NoDup (map fst l) -> In p l -> In q l -> fst p = fst q -> p = q.
Proof. induction l as [|x l IH]; intros Hn Hp Hq E; [destruct Hp|]. cbn [map] in Hn. inversion Hn as [|? ? Hni Hn']; subst.
  destruct Hp as [->|Hp], Hq as [->|Hq]; auto.
  - exfalso. apply Hni. rewrite E. apply in_map. exact Hq.
  - exfalso. apply Hni. rewrite <- E. apply in_map. exact Hp. Qed.
Lemma in_zip3 (prl:prior) (A R:list (list nat)) p a r : In ((p, a), r) (combine (combine prl A) R) ->
  In p prl /\ In a A /\ In r R /\ In (fst p, map Z.of_nat a) (combine (map fst prl) (map (map Z.of_nat) A)) /\ In (fst p, map Z.of_nat r) (combine (map fst prl) (map (map Z.of_nat) R))
  /\ In (p, a) (combine prl A) /\ In (p, r) (combine prl R).
Proof. revert A R. induction prl as [|q prl IH]; intros [|a0 A] [|r0 R] Hin; try (destruct Hin; fail). cbn [combine map] in *.
  destruct Hin as [E|Hin].
  - inversion E; subst. repeat split; left; reflexivity.
  - destruct (IH A R Hin) as [H1 [H2 [H3 [H4 [H5 [H6 H7]]]]]]. repeat split; right; assumption. Qed.
Lemma wfind_some_in {V} (d:wdict V) w v : wdict_find d w = Some v -> In (w, v) d.
Proof. induction d as [|[w' v'] d IH]; cbn [wdict_find]; [discriminate|]. destruct (beq w' w) eqn:E.
  - intros H. inversion H; subst. apply beq_eq in E. subst. left. reflexivity.
  - intros H. right. apply IH. exact H. Qed.
Lemma wset_in' {V} (d:wdict V) w v x : In x (wdict_set d w v) -> In x d \/ x = (w, v).
Proof. induction d as [|[w' v'] d IH]; cbn [wdict_set]; [intros [<-|[]]; right; reflexivity|].
  destruct (beq w' w); intros [<-|Hin]; [right; reflexivity|left; right; exact Hin|left; left; reflexivity|].
  destruct (IH Hin) as [H|H]; [left; right; exact H|right; exact H]. Qed.
Lemma nodup_keys_where (cs:list cond) w want : NoDup (map ckey cs) -> NoDup (keys_where classify cs w want).
Proof. unfold keys_where. induction cs as [|c cs IH]; intros Hn; [constructor|]. cbn [map] in Hn. inversion Hn as [|? ? Hni Hn']; subst. cbn [filter].
  destruct (match classify c w with Some b => Bool.eqb b want | None => false end); [|apply IH; exact Hn'].
  cbn [map]. constructor; [|apply IH; exact Hn']. intros Hin. apply Hni. apply in_map_iff in Hin as [d [E Hd]]. apply filter_In in Hd as [Hd _]. rewrite <- E. apply in_map. exact Hd. Qed.

Definition contribM (want:bool) (k:nat) (x:(world * nat) * list nat * list nat) : list triple :=
  let acc := sort_keys (snd (fst x)) in let rej := sort_keys (snd x) in
  if existsb (Nat.eqb k) (if want then acc else rej) then [(snd (fst (fst x)), remove_key k acc, remove_key k rej)] else [].
Definition rcache_ok (cache:wdict Z) : Prop := forall w r, In (w, r) cache -> exists p, In p pr /\ fst p = w /\ r = Z.of_nat (snd p).

Theorem tie_cm_compile m (rank_world:world -> ctl Z unit unit) rf cache : cinv pr m ->
  (forall p, In p pr -> rank_world (fst p) = Return (Z.of_nat (snd p))) -> rcache_ok cache ->
  exists cache', py_CRevisionModel_to_compilation n rank_world (map (fun c => (ckz c, c)) (reg m)) (map fst pr) (zsets (wacc m)) (zsets (wrej m)) rf cache
                 = Return ((zcomp (fst (cm_compile pr m)), zcomp (snd (cm_compile pr m))), cache') /\ rcache_ok cache'.
Proof. intros Hinv Hrank Hc0. destruct (cinv_lengths m Hinv) as [La Lr]. pose proof Hinv as [Hnd [HFa HFr]].
  set (cs := reg m). set (xs := combine (combine pr (wacc m)) (wrej m)).
  assert (Emodel: forall want, zcomp (map (fun c => (ckey c, triples_cm pr m (ckey c) want)) cs) = mk cs (fun k => map ztriple (flat_map (contribM want k) xs))).
  { intros want. unfold zcomp, mk. rewrite map_map. apply map_ext. intros c. reflexivity. }
  unfold cm_compile. cbn [fst snd]. fold cs. rewrite !Emodel. clear Emodel.
  unfold py_CRevisionModel_to_compilation. cbv zeta.
  assert (Ekeys: dict_keys (map (fun c => (ckz c, c)) cs) = map ckz cs) by (unfold dict_keys; rewrite map_map; reflexivity).
  rewrite Ekeys.
  assert (Einit: map (fun v_idx : Z => (v_idx, ([] : list (Z * list Z * list Z)))) (map ckz cs) = mk cs (fun _ => [])) by (unfold mk; rewrite map_map; reflexivity).
  match goal with |- context [for_each (map fst pr) ?b _] => set (body := b) end.
  (* per-world facts from the invariant *)
  assert (Hx: forall p a r, In ((p, a), r) xs ->
            In p pr /\ wdict_find (zsets (wacc m)) (fst p) = Some (map Z.of_nat a) /\ wdict_find (zsets (wrej m)) (fst p) = Some (map Z.of_nat r) /\
            NoDup a /\ NoDup r /\ (forall k, In k a -> In k (map ckey cs)) /\ (forall k, In k r -> In k (map ckey cs)) /\ (forall k, In k a -> In k r -> False)).
  { intros p a r Hin. destruct (in_zip3 pr (wacc m) (wrej m) p a r Hin) as [Hp [Ha [Hr [Hza [Hzr [Hpa Hpr]]]]]].
    assert (Hk1: NoDup (map fst (zsets (wacc m)))) by (unfold zsets; rewrite map_fst_combine' by (rewrite !map_length; lia); exact Hkeys).
    assert (Hk2: NoDup (map fst (zsets (wrej m)))) by (unfold zsets; rewrite map_fst_combine' by (rewrite !map_length; lia); exact Hkeys).
    split; [exact Hp|]. split; [apply (wfind_entry' _ _ _ Hk1 Hza)|]. split; [apply (wfind_entry' _ _ _ Hk2 Hzr)|].
    assert (Pa: Permutation a (keys_where classify cs (fst p) true)) by exact (Forall2_combine_in _ _ _ _ _ HFa Hpa).
    assert (Pr: Permutation r (keys_where classify cs (fst p) false)) by exact (Forall2_combine_in _ _ _ _ _ HFr Hpr).
    split; [apply (Permutation_NoDup (Permutation_sym Pa)); apply nodup_keys_where; exact Hnd|].
    split; [apply (Permutation_NoDup (Permutation_sym Pr)); apply nodup_keys_where; exact Hnd|].
    assert (Hsub: forall want l k, Permutation l (keys_where classify cs (fst p) want) -> In k l -> exists c, In c cs /\ ckey c = k /\ classify c (fst p) = Some want).
    { intros want l k P Hk. apply (Permutation_in _ P) in Hk. unfold keys_where in Hk. apply in_map_iff in Hk as [c [E Hc]]. apply filter_In in Hc as [Hc Hcl].
      exists c. split; [exact Hc|]. split; [exact E|]. destruct (classify c (fst p)) as [b|]; [|discriminate]. apply Bool.eqb_prop in Hcl. subst. reflexivity. }
    split; [intros k Hk; destruct (Hsub true a k Pa Hk) as [c [Hc [<- _]]]; apply in_map; exact Hc|].
    split; [intros k Hk; destruct (Hsub false r k Pr Hk) as [c [Hc [<- _]]]; apply in_map; exact Hc|].
    intros k Hka Hkr. destruct (Hsub true a k Pa Hka) as [c1 [Hc1 [E1 Cl1]]]. destruct (Hsub false r k Pr Hkr) as [c2 [Hc2 [E2 Cl2]]].
    assert (c1 = c2) by (apply (key_inj cs); auto; congruence). subst. congruence. }
  (* the loop over the worlds *)
  assert (Exs: map fst pr = map (fun x => fst (fst (fst x))) xs) by (symmetry; apply zip3_fst; assumption).
  rewrite Exs, for_each_map_arg.
  set (TV := fun (want:bool) (d:list ((world * nat) * list nat * list nat)) (k:nat) => map ztriple (flat_map (contribM want k) d)).
  assert (G: forall l done cch, done ++ l = xs -> rcache_ok cch ->
             exists cch', @for_each _ _ unit _ l (fun x => body (fst (fst (fst x)))) (cch, mk cs (TV true done), mk cs (TV false done))
                          = Next (cch', mk cs (TV true xs), mk cs (TV false xs)) /\ rcache_ok cch').
  { induction l as [|[[p a] r] l IH]; intros done cch Hd Hcc.
    - rewrite app_nil_r in Hd. subst done. exists cch. split; [reflexivity|exact Hcc].
    - assert (Hin: In ((p, a), r) xs) by (rewrite <- Hd; apply in_or_app; right; left; reflexivity).
      destruct (Hx p a r Hin) as [Hp [Ga [Gr [Na [Nr [Ka [Kr Hdis]]]]]]].
      assert (Hd': (done ++ [((p, a), r)]) ++ l = xs) by (rewrite <- app_assoc; exact Hd).
      cbn [for_each fst]. unfold body at 1. unfold wdict_get at 1 2. rewrite Ga, Gr. cbn [cbind].
      assert (En: forall (l0:list nat), is_nil (map Z.of_nat l0) = is_nil l0) by (intros [|? ?]; reflexivity).
      rewrite !negb_involutive, !En.
      destruct (is_nil a && is_nil r) eqn:Enil; cbn [cbind].
      + (* no registered conditional applies in this world *)
        assert (Ea: a = []) by (apply andb_true_iff in Enil as [H _]; destruct a; [reflexivity|discriminate]).
        assert (Er: r = []) by (apply andb_true_iff in Enil as [_ H]; destruct r; [reflexivity|discriminate]).
        destruct (IH (done ++ [((p, a), r)]) cch Hd' Hcc) as [cch' [Ec Hok]]. exists cch'. split; [|exact Hok]. rewrite <- Ec. f_equal. f_equal; [f_equal|];
          unfold mk, TV; apply map_ext; intros c; rewrite flat_map_app, map_app; cbn [flat_map]; unfold contribM; cbn [fst snd]; rewrite Ea, Er;
          cbn; rewrite app_nil_r; reflexivity.
      + (* rank of the world, through the cache *)
        assert (Hrk: exists cch1, rcache_ok cch1 /\
                  (if wdict_mem cch (fst p) then cbind (wdict_get cch (fst p)) (fun t11 => Next (t11, cch))
                   else call (rank_world (fst p)) (fun r12 => Next (r12, wdict_set cch (fst p) r12)))
                  = @Next (dict Z (list (Z * list Z * list Z)) * dict Z (list (Z * list Z * list Z)) * wdict Z) (wdict Z * dict Z (list (Z * list Z * list Z)) * dict Z (list (Z * list Z * list Z))) _ (Z.of_nat (snd p), cch1)).
        { unfold wdict_mem, wdict_get. destruct (wdict_find cch (fst p)) as [r0|] eqn:Ef.
          - exists cch. split; [exact Hcc|]. cbn [cbind]. apply wfind_some_in in Ef. destruct (Hcc _ _ Ef) as [p' [Hp' [Ew Er0]]].
            assert (p' = p) by (apply (fst_inj_nodup pr); auto). subst p'. rewrite Er0. reflexivity.
          - exists (wdict_set cch (fst p) (Z.of_nat (snd p))). rewrite (Hrank p Hp). cbn [call]. split; [|reflexivity].
            intros w r1 Hin1. apply wset_in' in Hin1 as [Hin1|E]; [apply Hcc; exact Hin1|]. inversion E; subst. exists p. auto. }
        destruct Hrk as [cch1 [Hok1 Erk]].
        match goal with |- context [cbind (if wdict_mem cch (fst p) then ?A else ?B) ?K] =>
          replace (if wdict_mem cch (fst p) then A else B) with (@Next (dict Z (list (Z * list Z * list Z)) * dict Z (list (Z * list Z * list Z)) * wdict Z) (wdict Z * dict Z (list (Z * list Z * list Z)) * dict Z (list (Z * list Z * list Z))) _ (Z.of_nat (snd p), cch1)) by (symmetry; exact Erk) end.
        cbn [cbind]. rewrite !zsort_nat.
        set (sa := sort_keys a). set (sr := sort_keys r).
        assert (Psa: Permutation a sa) by apply sort_keys_perm. assert (Psr: Permutation r sr) by apply sort_keys_perm.
        (* verified conditionals *)
        match goal with |- context [for_each (map Z.of_nat sa) ?b (mk cs (TV true done))] => set (bv := b) end.
        rewrite (hand_out cs (fun k => (Z.of_nat (snd p), map (fun v_i : Z => v_i) (filter (fun v_i => negb (v_i =? Z.of_nat k)%Z) (map Z.of_nat sa)), map Z.of_nat sr)) bv Hnd).
        2:{ intros k X Hk. reflexivity. }
        2:{ apply (Permutation_NoDup Psa Na). }
        2:{ intros k Hk. apply Ka. apply (Permutation_in _ (Permutation_sym Psa) Hk). }
        cbn [cbind].
        match goal with |- context [for_each (map Z.of_nat sr) ?b (mk cs (TV false done))] => set (bf := b) end.
        rewrite (hand_out cs (fun k => (Z.of_nat (snd p), map Z.of_nat sa, map (fun v_i : Z => v_i) (filter (fun v_i => negb (v_i =? Z.of_nat k)%Z) (map Z.of_nat sr)))) bf Hnd).
        2:{ intros k X Hk. reflexivity. }
        2:{ apply (Permutation_NoDup Psr Nr). }
        2:{ intros k Hk. apply Kr. apply (Permutation_in _ (Permutation_sym Psr) Hk). }
        cbn [cbind].
        destruct (IH (done ++ [((p, a), r)]) cch1 Hd' Hok1) as [cch' [Ec Hok]]. exists cch'. split; [|exact Hok]. rewrite <- Ec. f_equal. f_equal; [f_equal|];
          unfold mk, TV; apply map_ext; intros c; rewrite flat_map_app, map_app; cbn [flat_map]; rewrite app_nil_r; f_equal;
          unfold contribM; cbn [fst snd]; fold sa; fold sr.
        * destruct (existsb (Nat.eqb (ckey c)) sa) eqn:E; [|reflexivity]. cbn [map]. unfold ztriple. cbn [fst snd]. rewrite map_id, filter_ne_nat.
          fold (remove_key (ckey c) sa). rewrite (remove_key_notin (ckey c) sr); [reflexivity|].
          intros Hin2. apply existsb_exists in E as [k0 [Hk0 Ek0]]. apply Nat.eqb_eq in Ek0. subst k0.
          apply (Hdis (ckey c)); [apply (Permutation_in _ (Permutation_sym Psa) Hk0)|apply (Permutation_in _ (Permutation_sym Psr) Hin2)].
        * destruct (existsb (Nat.eqb (ckey c)) sr) eqn:E; [|reflexivity]. cbn [map]. unfold ztriple. cbn [fst snd]. rewrite map_id, filter_ne_nat.
          fold (remove_key (ckey c) sr). rewrite (remove_key_notin (ckey c) sa); [reflexivity|].
          intros Hin2. apply existsb_exists in E as [k0 [Hk0 Ek0]]. apply Nat.eqb_eq in Ek0. subst k0.
          apply (Hdis (ckey c)); [apply (Permutation_in _ (Permutation_sym Psa) Hin2)|apply (Permutation_in _ (Permutation_sym Psr) Hk0)]. }
  rewrite Einit.
  destruct (G xs [] cache eq_refl Hc0) as [cache' [Ec Hok]]. exists cache'. split; [|exact Hok].
  match goal with |- cbind ?x _ = _ =>
    replace x with (@Next (dict Z (list (Z * list Z * list Z)) * dict Z (list (Z * list Z * list Z)) * wdict Z) unit _ (cache', mk cs (TV true xs), mk cs (TV false xs))) by (symmetry; exact Ec) end.
  reflexivity.
Qed.
End CM.

(* ---- any sequence of additions and removals ---- *)
Section CMRun.
Variable n : nat.
Variable pr : prior.
Hypothesis Hkeys : NoDup (map fst pr).
Hypothesis Hworlds : forall p, In p pr -> In (fst p) (worlds n).
Variable rf : wdict (option Z) * list Z.

(* one operation of the generated class on a state; a refused addition (duplicate index) raises before anything is written *)
Definition py_cm_step (S:cstate) (o:cmop) : cstate :=
  let '(cd, mk_, wa, wr) := S in
  match o with
  | CAdd c => match py_CRevisionModel_add_conditional n (sig_index n) (map fst pr) (world_bits pr) rf c cd mk_ wa wr with Return (_, S') => S' | _ => S end
  | CRemove k => match py_CRevisionModel_remove_conditional n (map fst pr) (Z.of_nat k) cd mk_ wa wr with Return (_, S') => S' | _ => S end
  end.
Definition op_ok (o:cmop) : Prop := match o with CAdd c => forall a av b bv, mask_of c = Some (a, av, b, bv) -> a < n /\ b < n | CRemove _ => True end.
Definition state_of (m:cmodel) : cstate :=
  (map (fun c => (ckz c, c)) (reg m), map (fun c => (ckz c, zmask (mask_of c))) (reg m), zsets pr (wacc m), zsets pr (wrej m)).

Lemma py_cm_step_ok m o : cinv pr m -> op_ok o -> py_cm_step (state_of m) o = state_of (cm_step pr m o).
Proof. intros Hinv Hop. unfold py_cm_step, state_of. destruct o as [c|k]; cbn [cm_step].
  - pose proof (tie_cm_add n pr Hkeys Hworlds m c rf Hinv Hop) as H. destruct (cm_add pr m c) as [m'|].
    + destruct H as [S' [E Hr]]. rewrite E. unfold rep in Hr. exact Hr.
    + rewrite H. reflexivity.
  - destruct (tie_cm_remove n pr Hkeys m k Hinv) as [S' [E Hr]]. rewrite E. exact Hr. Qed.

Theorem src_incremental_run ops : Forall op_ok ops ->
  fold_left py_cm_step ops (state_of (cm_empty pr)) = state_of (fold_left (cm_step pr) ops (cm_empty pr)) /\
  cinv pr (fold_left (cm_step pr) ops (cm_empty pr)).
Proof. intros Hops.
  assert (G: forall l m, cinv pr m -> Forall op_ok l ->
             fold_left py_cm_step l (state_of m) = state_of (fold_left (cm_step pr) l m) /\ cinv pr (fold_left (cm_step pr) l m)).
  { induction l as [|o l IH]; intros m Hinv Hl; [split; [reflexivity|exact Hinv]|]. inversion Hl as [|? ? Ho Hl']; subst. cbn [fold_left].
    rewrite (py_cm_step_ok m o Hinv Ho). apply IH; [apply cinv_step; exact Hinv|exact Hl']. }
  apply G; [apply cinv_empty|exact Hops]. Qed.

(* ... and what to_compilation then returns is the model's compilation of the reached state, which ThmCrevInc.incremental_equals_fresh
   identifies (index lists compared sorted) with the reference compilation of the conditionals currently registered *)
Theorem src_incremental_compile ops (rank_world:world -> ctl Z unit unit) : Forall op_ok ops ->
  (forall p, In p pr -> rank_world (fst p) = Return (Z.of_nat (snd p))) ->
  let m := fold_left (cm_step pr) ops (cm_empty pr) in
  let '(cd, mk_, wa, wr) := fold_left py_cm_step ops (state_of (cm_empty pr)) in
  exists cache', py_CRevisionModel_to_compilation n rank_world cd (map fst pr) wa wr rf []
                 = Return ((zcomp (fst (cm_compile pr m)), zcomp (snd (cm_compile pr m))), cache').
Proof. intros Hops Hrank m. destruct (src_incremental_run ops Hops) as [E Hinv]. rewrite E. unfold state_of. fold m.
  destruct (tie_cm_compile n pr Hkeys m rank_world rf [] Hinv Hrank) as [cache' [Ec _]]; [intros w r []|]. exists cache'. exact Ec. Qed.
End CMRun.
