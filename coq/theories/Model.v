From InfOCF Require Import Core Tol SysZ SysW Lex Form.
(* M: executable model of the Python code paths (inference/consistency_sat.py, inference.py,
   p_entailment.py, system_z.py, system_w*.py, lex_inf*.py).  No proofs in this file. *)

Inductive system := SysP | SysZ | SysW | SysLex.
(* outcome of InferenceManager.inference for one query: an answer, or the AssertionError raised by
   preprocess_belief_base ("belief base empty" / "belief base inconsistent") *)
Inductive res := Ans (b:bool) | Refuse.

Section M.
Variable n : nat.                       (* signature size; worlds n = all assignments *)
Notation W := (worlds n).

(* consistency() / consistency_indices(): the while-loop, fuel = number of conditionals *)
Definition part_strict (D:list cond) : option (list (list (acond world))) :=
  tol_loop world W (length D) (map ac D).
Definition part_ext (D:list cond) : option (list (list (acond world))) :=
  tol_loop_ext world W (length D) (map ac D).
Definition consistency (weakly:bool) (D:list cond) := if weakly then part_ext D else part_strict D.
Definition keys_of (P:list (list (acond world))) : list (list nat) := map (map (key world)) P.
Definition consistency_indices (weakly:bool) (D:list cond) : option (list (list nat)) :=
  match consistency weakly D with Some P => Some (keys_of P) | None => None end.

Definition sat (p:pred world) : bool := existsb p W.
(* general_inference: is_unsat(A) or is_unsat(A and not B) -> True *)
Definition trivial (q:cond) : bool := negb (sat (ante q)) || negb (sat (fal q)).

(* layers, highest first, as falsification bit-vector maps *)
Definition layers (P:list (list (acond world))) : list (layer world) := rev (map layer_of P).
Definition feas (Cinf:list (acond world)) : pred world := nofals world Cinf.
Definition inf_layer (P:list (list (acond world))) := last P [].
Definition fin_layers (P:list (list (acond world))) := removelast P.

(* p-entailment: consistency of the base extended by (not B|A) under a fresh key *)
Definition fresh (D:list cond) : nat := S (list_max (map ckey D)).
Definition p_strict (D:list cond) (q:cond) : bool :=
  match part_strict (D ++ [negq (fresh D) q]) with None => true | Some _ => false end.
Definition p_ext (D:list cond) (q:cond) : bool :=
  match part_ext (D ++ [negq (fresh D) q]) with
  | None => true
  | Some P => negb (existsb (fun w => feas (inf_layer P) w && ante q w) W) end.

(* System Z: _rec_inference from the top layer down *)
Definition z_strict P (q:cond) : bool := z_rec world W (ver q) (fal q) (layers P) (top world).
Definition z_ext P (q:cond) : bool :=
  let Cinf := inf_layer P in
  if negb (existsb (fun w => feas Cinf w && fal q w) W) then true
  else z_rec world W (ver q) (fal q) (layers (fin_layers P)) (feas Cinf).

(* System W (both back-ends: the recursion over minimal correction sets) *)
Definition w_strict P (q:cond) : bool := w_rec world W (ver q) (fal q) (layers P) (top world).
Definition w_ext P (q:cond) : bool :=
  let Cinf := inf_layer P in
  if negb (existsb (fun w => feas Cinf w && fal q w) W) then true
  else match fin_layers P with [] => false
       | fin => w_rec world W (ver q) (fal q) (layers fin) (feas Cinf) end.

(* lexicographic inference (both back-ends) *)
Definition lex_strict P (q:cond) : bool :=
  lex_rec world W (ver q) (fal q) (layers P) (top world) (top world).
Definition lex_ext P (q:cond) : bool :=
  let Cinf := inf_layer P in
  if negb (existsb (fun w => feas Cinf w && ante q w) W) then true
  else if negb (existsb (fun w => feas Cinf w && fal q w) W) then true
  else match fin_layers P with [] => false
       | fin => lex_rec world W (ver q) (fal q) (layers fin) (feas Cinf) (feas Cinf) end.

Definition op (s:system) (weakly:bool) (D:list cond) P (q:cond) : bool :=
  match s, weakly with
  | SysP, false => p_strict D q | SysP, true => p_ext D q
  | SysZ, false => z_strict P q | SysZ, true => z_ext P q
  | SysW, false => w_strict P q | SysW, true => w_ext P q
  | SysLex, false => lex_strict P q | SysLex, true => lex_ext P q end.

(* preprocess_belief_base (asserts) followed by general_inference *)
Definition infer (s:system) (weakly:bool) (D:list cond) (q:cond) : res :=
  match D with [] => Refuse | _ =>
  match consistency weakly D with None => Refuse
  | Some P => Ans (trivial q || op s weakly D P q) end end.
End M.
