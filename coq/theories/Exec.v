From InfOCF Require Import Core Tol SysZ SysW Lex Kz Form Model Spec Diag Mcs Cnf CInf CModel Ocf Parse Lexer Crev.
(* Entry points evaluated by the correspondence check (extracted to OCaml, or by vm_compute). *)
Definition is_none {A} (o:option A) : bool := match o with None => true | Some _ => false end.

(* p-entailment by definition: D + (not B|A) has no tolerance partition (over the world list Wl) *)
Definition p_def (k:nat) (Wl:list world) (P:list (list (acond world))) (q:cond) : bool :=
  negb (existsb (ante q) Wl) || negb (existsb (fal q) Wl) ||
  is_none (tol_loop world Wl (S (length (concat P))) (concat P ++ [ac (negq k q)])).

Definition spec_ans (n:nat) (s:system) (weakly:bool) (D:list cond) (q:cond) : res :=
  match D with [] => Refuse | _ =>
  match consistency n weakly D with None => Refuse
  | Some P =>
    let W := worlds n in
    let k := fresh D in
    Ans (match s, weakly with
         | SysP, false => p_def k W P q
         | SysZ, false => z_spec W P q
         | SysW, false => w_spec W P q
         | SysLex, false => lex_spec W P q
         | SysP, true => ext_spec W P q (p_def k)
         | SysZ, true => ext_spec W P q z_spec
         | SysW, true => ext_spec W P q w_spec
         | SysLex, true => ext_spec W P q lex_spec end) end end.

Definition systems := [SysP; SysZ; SysW; SysLex].
(* one row per query: model answers then spec answers, in the order of [systems] *)
Definition run_case (n:nat) (weakly:bool) (D qs:list cond) :
  (option (list (list nat)) * option (list (list nat))) * list (list res * list res) :=
  ((consistency_indices n weakly D, consistency_idx n weakly D),
   map (fun q => (map (fun s => infer n s weakly D q) systems,
                  map (fun s => spec_ans n s weakly D q) systems)) qs).

Definition run_diag (n:nat) (extended uses_facts:bool) (facts:list form) (D:list cond) : option diag :=
  diagnostics n extended uses_facts facts D.

(* C15 *)
Definition run_faithful (nv:nat) (amap:list nat) (f:form) (c:cnf) : bool := check_faithful nv amap f c.
Definition run_mcs (nv:nat) (hard:cnf) (g:groups) : list (list nat) * option (list (list nat)) :=
  (map (keys_of_bv g) (mcs_clause nv hard g),
   match mcs_loop nv hard g with Some r => Some (map (keys_of_bv g) (remove_supersets r)) | None => None end).

(* C05 *)
Definition run_cinf (n:nat) (D qs:list cond) (wit:list (nat * list nat)) (bound:nat) :=
  (map (fun i => (map positions (vMin n D i), map positions (fMin n D i))) (seq 0 (length D)),
   selffulfilling n D,
   map (fun q => (map positions (qvMin n D q), map positions (qfMin n D q), search_counter n D bound q)) qs,
   map (fun p => check_counter n D (snd p) (nth (fst p) qs {| ckey := 0; ccons := FTop; cante := FBot |})) wit).

(* C16 / C18 *)
Definition run_zocf (n:nat) (ext:option bool) (facts:list form) (D:list cond) (ops:list zop) :
  option (list (list nat) * list (cache * zout)) :=
  match zocf_partition n ext facts D with None => None
  | Some P => Some (keys_of P, zrun n P (cache0 n) ops) end.
Definition tpo_back (t:table) (vals:list nat) : list (world * nat) := tpo2ranks (ranks2tpo t) (fun i => nth i vals 0).
Definition ocf_funs := (frank, accept, marginalize, conditionalize, ranks2tpo, tpo_back).

(* C10 *)
Definition run_parse_formula := parse_formula_str.
Definition run_parse_file := parse_file.
Definition run_parse_queries := parse_queries_str.
Definition run_cond_text := cond_text.

(* C19 *)
Definition gam_of (l:list (nat * nat)) : gam := fun k => match find (fun p => fst p =? k) l with Some p => snd p | None => 0 end.
Definition run_crev (cs:list cond) (pr:prior) (ops:list cmop) (gps gms:list (list (nat*nat) * list (nat*nat))) :=
  (compile_alt cs pr, compile_fast cs pr,
   (let m := fold_left (cm_step pr) ops (cm_empty pr) in (map ckey (reg m), cm_compile pr m, compile_alt (reg m) pr)),
   map (fun g => (csp_holds (gam_of (fst g)) (gam_of (snd g)) (compile_alt cs pr), map (accepts_star cs pr (gam_of (fst g)) (gam_of (snd g))) cs)) gps).

(* C17 *)
Definition run_crep (n:nat) (D qs:list cond) (etas:list (list nat)) (front:list (list nat)) (bound:nat) :=
  (map (fun eta => (crep_b n D eta, pareto_check n D eta, ranks_of n D eta, map (qacc_b n D eta) qs)) etas,
   map (pareto_check n D) front, front_missing n D bound front).
