From InfOCF Require Import Core Tol CInf Form Model CModel ThmPostInt PyLib PyInt TieLib TieMax TieC TieCBase TieCInf TieCComp.
From InfOCFGen Require Import SrcC.
From Coq Require Import ZArith.
(* the generated pieces of c-inference chained as CInference runs them: compile_constraint fills vMin / fMin, translate()
   builds the base CSP from them, _inference loads it with the query constraints into the SMT solver and negates the verdict *)
Theorem src_c_pipeline n D (Hnd:NoDup (map kz D)) (Hver:forall i, i < length D -> vMin n D i <> [])
  isolve (Hsolve:forall l, exists b, isolve l = Return b /\ (b = true <-> exists sg, csp_sat sg l = true)) q weakly :
  exists vm fm base b,
    py_CInference_compile_constraint n (nf_of D) (vd_of D) (fd_of D) tt [] [] = Return (tt, (vm, fm)) /\
    py_CInference_translate n (bb_of D) vm fm = Return base /\
    py_CInference_inference n isolve (bb_of D) tt base (nf_of D) q weakly tt = Return b /\
    (selffulfilling n D = true -> b = false) /\
    (selffulfilling n D = false -> (b = true <-> c_spec_prop n D q)).
Proof. destruct (src_c_inference_skeptical n D Hnd Hver isolve Hsolve q weakly) as [base [Eb [b [Er [H1 H2]]]]].
  exists (vM n D), (fM n D), base, b. split; [apply tie_compile_constraint; exact Hnd|]. auto. Qed.

(* on a strongly consistent base every conditional has a verifying pattern (its constraint could not hold otherwise) *)
Lemma consistent_verifiable n D P : part_strict n D = Some P -> forall i, i < length D -> vMin n D i <> [].
Proof. intros HP i Hi E. destruct (ThmPostInt.strict_csp_satisfiable n D P HP) as [eta [Hl Hc]].
  unfold csp_b in Hc. eapply forallb_forall in Hc; [|apply in_seq; split; [apply Nat.le_0_l|exact Hi]].
  unfold constraint_i in Hc. unfold vMin in E. rewrite E in Hc. simpl in Hc. discriminate. Qed.
Corollary src_c_pipeline_consistent n D P (Hnd:NoDup (map kz D)) (HP:part_strict n D = Some P)
  isolve (Hsolve:forall l, exists b, isolve l = Return b /\ (b = true <-> exists sg, csp_sat sg l = true)) q weakly :
  exists vm fm base b,
    py_CInference_compile_constraint n (nf_of D) (vd_of D) (fd_of D) tt [] [] = Return (tt, (vm, fm)) /\
    py_CInference_translate n (bb_of D) vm fm = Return base /\
    py_CInference_inference n isolve (bb_of D) tt base (nf_of D) q weakly tt = Return b /\
    (selffulfilling n D = true -> b = false) /\
    (selffulfilling n D = false -> (b = true <-> c_spec_prop n D q)).
Proof. apply src_c_pipeline; [exact Hnd|exact (consistent_verifiable n D P HP)|exact Hsolve]. Qed.
