From InfOCF Require Import Core SysZ SysW Lex.
Section Incl.
Variable world : Type.
Variable W : list world.
Notation layer := (layer world).
Notation zrank := (zrank world).
Notation wless := (wless world).
Notation vec := (vec world).

(* all patterns of one layer have the same length (they are maps over the same list of conditionals) *)
Definition uniform (ls:list layer) := forall F, In F ls -> forall w w', length (F w) = length (F w').

Lemma cnt0_beq a b : length a = length b -> cnt a = 0 -> cnt b = 0 -> beq a b = true.
Proof. revert b; induction a as [|x a IH]; destruct b as [|y b]; simpl; try discriminate; auto.
  intros Hl Ha Hb. destruct x, y; simpl in *; try lia. apply IH; lia. Qed.

Lemma z_lt_wless ls w w' : uniform ls -> zrank ls w < zrank ls w' -> wless ls w w' = true.
Proof. induction ls as [|F rest IH]; intros Hu Hlt; simpl in *; [lia|].
  assert (Hu': uniform rest) by (intros G HG; apply Hu; now right).
  pose proof (zrank_le world rest w) as Hle. pose proof (zrank_le world rest w') as Hle'.
  destruct (cnt (F w) =? 0) eqn:E; destruct (cnt (F w') =? 0) eqn:E'; try lia.
  - apply Nat.eqb_eq in E, E'. rewrite cnt0_beq; auto. apply Hu; now left.
  - apply Nat.eqb_eq in E. apply Nat.eqb_neq in E'.
    destruct (beq (F w) (F w')) eqn:Eb; [apply beq_eq in Eb; congruence|].
    apply cnt0_sub; auto. apply Hu; now left.
Qed.

Lemma wless_lexlt ls w w' : wless ls w w' = true -> lexlt (vec ls w) (vec ls w') = true.
Proof. induction ls as [|F rest IH]; simpl; [discriminate|].
  destruct (beq (F w) (F w')) eqn:Eb.
  - apply beq_eq in Eb. rewrite Eb, Nat.ltb_irrefl. auto.
  - intros Hs. assert (ssub (F w) (F w') = true) by (unfold ssub; rewrite Hs, Eb; reflexivity).
    apply ssub_cnt in H. apply Nat.ltb_lt in H. rewrite H. reflexivity.
Qed.

Variables AB AnB : pred world.
(* operator-level inclusions on the specifications (non-trivial queries: some A¬B world exists) *)
Theorem z_sub_w ls : uniform ls -> zspec world W AB AnB ls (top world) ->
  forall w', In w' W -> top world w' = true -> AnB w' = true ->
    exists w, In w W /\ top world w = true /\ AB w = true /\ wless ls w w' = true.
Proof. intros Hu [w [Hw Hall]] w' Hw' _ Hf. apply sel_in in Hw as [Hw [_ Hab]].
  exists w. repeat split; auto. apply z_lt_wless; auto. apply Hall. apply sel_in; auto. Qed.
Theorem w_sub_lex ls : (exists w', In w' (sel world W (top world) AnB)) ->
  (forall w', In w' W -> top world w' = true -> AnB w' = true ->
     exists w, In w W /\ top world w = true /\ AB w = true /\ wless ls w w' = true) ->
  lspec world W AB AnB ls (top world) (top world).
Proof. intros [w0 Hw0] Hs. split.
  - apply sel_in in Hw0 as [Hw0 [_ Hf0]]. destruct (Hs w0 Hw0 eq_refl Hf0) as [w [Hw [_ [Hab _]]]]. exists w. apply sel_in; auto.
  - intros w' Hw'. apply sel_in in Hw' as [Hw' [_ Hf]]. destruct (Hs w' Hw' eq_refl Hf) as [w [Hw [_ [Hab Hl]]]].
    exists w. split; [apply sel_in; auto|]. apply wless_lexlt; auto. Qed.
End Incl.
Print Assumptions z_sub_w. Print Assumptions w_sub_lex.
