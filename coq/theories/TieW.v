From InfOCF Require Import Core Tol SysW Form Model PyLib TieLib TieSet TieSolver TieMax.
From InfOCFGen Require Import SrcCond SrcW.
From Coq Require Import ZArith.
(* TIE: the functions GENERATED from inference/system_w.py (gen/SrcW.v) equal the hand-written model of System W
   (Model.w_strict / w_ext = SysW.w_rec), for every signature size, base, layering, query and mode.
   CNFs and the partial-MaxSAT enumeration enter through their contracts (PyLib: scnf, mcs; property C15). *)

Section TieW.
Variable n : nat.
Notation W := (worlds n).
Variable q : cond.
Variable D : list cond.
Hypothesis Hnd : NoDup (map kz D).
Variable lay : cond -> nat.
Variable m : nat.
Hypothesis Hlay : forall c, In c D -> lay c < m.
Variables nf fd : dict Z scnf.
Variables vq fq : scnf.
Hypothesis Hnfk : dict_keys nf = map kz D.
Hypothesis Hnf : forall c, In c D -> exists cn, zdict_find nf (kz c) = Some cn /\ forall w, scnf_holds cn w = negb (fal c w).
Hypothesis Hfd : forall c, In c D -> exists cn, zdict_find fd (kz c) = Some cn /\ forall w, scnf_holds cn w = fal c w.
Hypothesis Hvq : forall w, scnf_holds vq w = ver q w.
Hypothesis Hfq : forall w, scnf_holds fq w = fal q w.
Notation layer_c := (layer_c D lay).
Notation Pc := (Pc D lay m).
Notation Pk := (Pk D lay m).
Notation P := (acP Pc).
Notation ignore_of := (ignore_of D lay m).
Local Notation layer_c_sub := (layer_c_sub D lay).
Local Notation part_nodup := (part_nodup D Hnd lay).
Local Notation mcs_is_minimal_family := (mcs_is_minimal_family n D Hnd lay m Hlay nf Hnfk Hnf).
Local Notation get_nf := (get_nf D nf Hnf).
Local Notation get_fd := (get_fd D fd Hfd).
Local Notation getd_nf_holds := (getd_nf_holds D nf Hnf).
Local Notation getd_fd_holds := (getd_fd_holds D fd Hfd).
Local Notation soft_after := (soft_after nf).
Local Notation Pc_length := (Pc_length D lay m).
Local Notation Pc_nth := (Pc_nth D lay m).
Local Notation Pk_nth := (Pk_nth D lay m).
Local Notation fam_len := (fam_len n).

(* a set from the verifying family that is also in the falsifying family has a falsifying world: at the bottom layer the tie is lost *)
Lemma bottom_tie H F x : In x (minimal (fam world W H F (fal q))) ->
  w_rec world W (ver q) (fal q) [] (fun w => H w && beq (F w) x) = false.
Proof. intros Hx. apply minimal_in in Hx as [Hx _]. apply fam_in in Hx as [w [Hw [H1 [H2 E]]]].
  cbn [w_rec]. destruct (forallb _ W) eqn:Ef; [|reflexivity]. exfalso.
  eapply forallb_forall in Ef; [|exact Hw]. rewrite H1, H2, E, beq_refl in Ef. discriminate. Qed.

Lemma rec_tie_w : forall k fuel hard (H:pred world), k < m -> k < fuel ->
  (forall w, scnf_holds (w_hard hard) w = H w) ->
  py_SystemW_rec_inference n fuel Pk nf fd vq fq hard (Z.of_nat k) tt
  = Return (w_rec world W (ver q) (fal q) (rev (map layer_of (firstn (S k) P))) H).
Proof.
  induction k as [k IH] using lt_wf_ind; intros fuel hard H Hk Hf Hh; (destruct fuel as [|fuel]; [lia|]);
  cbn [py_SystemW_rec_inference].
  rewrite (py_index_nat Pk k []) by (unfold Pk; rewrite map_length, Pc_length; exact Hk). cbn [cbind].
  rewrite Pk_nth by exact Hk. cbv zeta.
  set (L := layer_c k). set (part := map kz L). set (F := layer_of (map ac L)).
  assert (HLD: forall c, In c L -> In c D) by (intros c; apply layer_c_sub).
  assert (Hpn: NoDup part) by apply part_nodup.
  (* the model's layer list *)
  assert (Ef: rev (map layer_of (firstn (S k) P)) = F :: rev (map layer_of (firstn k P))).
  { unfold acP. rewrite (firstn_S_nth k _ []) by (rewrite map_length, Pc_length; exact Hk).
    rewrite map_app, rev_app_distr. cbn [map rev app]. f_equal. unfold F, L.
    change (@nil (acond world)) with (map ac []). rewrite map_nth, Pc_nth by exact Hk. reflexivity. }
  rewrite Ef. set (rest := rev (map layer_of (firstn k P))).
  (* soft clauses *)
  rewrite (for_each_steps part _ (fun k' s' => fold_left (fun x c => w_append_soft x c) (getd nf k') s')).
  2:{ intros a s' Ha. apply in_map_iff in Ha as [c [<- Hc]]. rewrite get_nf by (apply HLD; exact Hc). reflexivity. }
  cbn [cbind]. set (wc := fold_left _ part hard).
  assert (Hwc: w_hard wc = w_hard hard) by apply soft_after.
  fold (ignore_of k).
  rewrite (mcs_is_minimal_family k _ H (ver q) Hk)
    by (intros w; rewrite w_hard_append_fold, scnf_holds_app, Hwc, Hh, Hvq; reflexivity).
  rewrite (mcs_is_minimal_family k _ H (fal q) Hk)
    by (intros w; rewrite w_hard_append_fold, scnf_holds_app, Hwc, Hh, Hfq; reflexivity).
  fold L. fold part. fold F.
  set (Xi := minimal (fam world W H F (ver q))). set (Xi' := minimal (fam world W H F (fal q))).
  assert (HlenF: forall w, length (F w) = length part) by (intros w; unfold F, part; rewrite layer_of_len, !map_length; reflexivity).
  assert (Hlx: forall x, In x Xi -> length x = length part) by (intros x Hx; eapply fam_len; eauto).
  assert (Hlx': forall x, In x Xi' -> length x = length part) by (intros x Hx; eapply fam_len; eauto).
  assert (Ez: forall l, (forall x, In x l -> length x = length part) -> map (fun v_l => zset_of v_l) (map (keys_of_bv part) l) = map (keys_of_bv part) l).
  { intros l _. rewrite map_map. apply map_ext. intros x. apply zset_of_nodup. apply kob_nodup. exact Hpn. }
  rewrite !Ez by assumption.
  rewrite !zsetset_kob by (try assumption; apply nodupb_minimal).
  (* any_subset_of_all *)
  assert (Eany: py_w_any_subset_of_all n (map (keys_of_bv part) Xi) (map (keys_of_bv part) Xi')
                = forallb (fun x' => existsb (fun x => sub x x') Xi) Xi').
  { unfold py_w_any_subset_of_all. rewrite forallb_map. apply forallb_ext_in. intros x' Hx'. rewrite existsb_map.
    apply existsb_ext_in. intros x Hx. apply zsubset_kob; auto. }
  rewrite Eany. cbn [w_rec]. fold Xi. fold Xi'.
  destruct (forallb (fun x' => existsb (fun x => sub x x') Xi) Xi'); cbn [negb cbind andb]; [|reflexivity].
  (* the ties *)
  assert (Eint: zsetset_inter (map (keys_of_bv part) Xi) (map (keys_of_bv part) Xi')
                = map (keys_of_bv part) (filter (fun x => existsb (beq x) Xi') Xi)).
  { unfold zsetset_inter. rewrite filter_map. f_equal. apply filter_ext_in. intros x Hx. apply zsetmem_kob; auto. }
  rewrite Eint. set (Xt := filter (fun x => existsb (beq x) Xi') Xi).
  rewrite (for_each_all_map (keys_of_bv part) Xt _
            (fun x => w_rec world W (ver q) (fal q) rest (fun w => H w && beq (F w) x)) false).
  2:{ intros x Hx. apply filter_In in Hx as [HxXi HxXi']. apply existsb_beq_in in HxXi'.
      destruct k as [|k'].
      - (* bottom layer *)
        cbn [Z.of_nat Z.eqb cbind]. unfold rest. cbn [firstn map rev]. rewrite (bottom_tie H F x HxXi'). reflexivity.
      - replace (Z.of_nat (S k') =? 0)%Z with false by (symmetry; apply Z.eqb_neq; lia). cbn [cbind].
        assert (Hxl: length x = length L) by (rewrite (Hlx x HxXi); unfold part; apply map_length).
        unfold part at 1 2. rewrite kob_sel.
        rewrite (for_each_steps (map kz (sel_b true L x)) _ (fun k0 s' => fold_left (fun x0 c => w_append x0 c) (getd fd k0) s')).
        2:{ intros a s' Ha. apply in_map_iff in Ha as [c [<- Hc]]. rewrite get_fd by (apply HLD; eapply sel_b_in; eauto). reflexivity. }
        cbn [cbind]. fold part. rewrite (zset_of_nodup part Hpn).
        unfold part at 1 2. rewrite (diff_sel L x Hpn Hxl).
        rewrite (for_each_steps (map kz (sel_b false L x)) _ (fun k0 s' => fold_left (fun x0 c => w_append x0 c) (getd nf k0) s')).
        2:{ intros a s' Ha. apply in_map_iff in Ha as [c [<- Hc]]. rewrite get_nf by (apply HLD; eapply sel_b_in; eauto). reflexivity. }
        cbn [cbind].
        replace (Z.of_nat (S k') - 1)%Z with (Z.of_nat k') by lia.
        rewrite (IH k' (Nat.lt_succ_diag_r k') fuel _ (fun w => H w && beq (F w) x)); try lia.
        2:{ intros w. rewrite (hard_after nf (fun c w => negb (fal c w))) by (intros c Hc; apply getd_nf_holds; apply HLD; eapply sel_b_in; eauto).
            rewrite (hard_after fd (fun c w => fal c w)) by (intros c Hc; apply getd_fd_holds; apply HLD; eapply sel_b_in; eauto).
            rewrite Hh, <- andb_assoc. f_equal. apply sel_pattern. exact Hxl. }
        cbn [call cbind]. fold rest.
        destruct (w_rec world W (ver q) (fal q) rest (fun w => H w && beq (F w) x)); reflexivity. }
  unfold Xt. rewrite forallb_filter.
  destruct (forallb _ Xi); reflexivity.
Qed.
End TieW.

Section TieWTop.
Variable n : nat.
Notation W := (worlds n).
Variable q : cond.
Variable D : list cond.
Hypothesis Hnd : NoDup (map kz D).
Variable lay : cond -> nat.
Variable m : nat.
Hypothesis Hlay : forall c, In c D -> lay c < m.
Hypothesis Hm : 0 < m.
Variables nf fd : dict Z scnf.
Hypothesis Hnfk : dict_keys nf = map kz D.
Hypothesis Hnf : forall c, In c D -> exists cn, zdict_find nf (kz c) = Some cn /\ forall w, scnf_holds cn w = negb (fal c w).
Hypothesis Hfd : forall c, In c D -> exists cn, zdict_find fd (kz c) = Some cn /\ forall w, scnf_holds cn w = fal c w.
Variable bb : pybase.
Hypothesis Hbb : forall c, In c D -> zdict_find (bb_conditionals bb) (kz c) = Some c.
Notation Pc := (Pc D lay m).
Notation Pk := (Pk D lay m).
Notation P := (acP Pc).
Local Notation Pk_length := (Pk_length D lay m).
Local Notation Pc_length := (Pc_length D lay m).
Local Notation Pk_last := (Pk_last D lay m Hm).
Local Notation P_last := (P_last D lay m Hm).
Local Notation feas_last := (feas_last D lay m).
Local Notation get_bb := (get_bb D bb Hbb).
Local Notation solver_after := (solver_after n D bb Hbb).
Local Notation getc := (getc bb).
Local Notation layer_c_sub := (layer_c_sub D lay).

Lemma no_falsifier_w ls (H:pred world) : existsb (fun w => H w && fal q w) W = false ->
  w_rec world W (ver q) (fal q) ls H = true.
Proof. intros E. apply w_rec_correct. intros w' Hw' H1 H2. exfalso.
  assert (existsb (fun w => H w && fal q w) W = true); [|congruence].
  apply existsb_exists. exists w'. split; auto. rewrite H1, H2. reflexivity. Qed.

(* SystemW._inference: for every layering of a base with distinct keys, every query and either mode the generated
   function returns the model's answer *)
Theorem tie_w_inference weakly vq0 fq0 u1 u2 :
  py_SystemW_inference n (S m) Pk nf fd vq0 fq0 bb u1 q weakly u2
  = Return (if weakly then w_ext n P q else w_strict n P q).
Proof.
  destruct u2. unfold py_SystemW_inference. cbv zeta. cbn [cnf_of_query].
  assert (Hv: forall w, scnf_holds [ver q] w = ver q w) by (intros w; simpl; apply andb_true_r).
  assert (Hf: forall w, scnf_holds [fal q] w = fal q w) by (intros w; simpl; apply andb_true_r).
  pose proof (rec_tie_w n q D Hnd lay m Hlay nf fd [ver q] [fal q] Hnfk Hnf Hfd Hv Hf) as Hrec.
  assert (HPk: Pk <> []) by (intros E; pose proof Pk_length as El; rewrite E in El; simpl in El; lia).
  unfold py_len. rewrite Pk_length.
  destruct weakly; cbn [negb].
  - (* extended mode *)
    unfold w_ext. rewrite P_last. set (Linf := layer_c D lay (m - 1)).
    assert (HLD: forall c, In c Linf -> In c D) by (intros c; apply layer_c_sub).
    rewrite !(py_index_last Pk [] HPk), Pk_last. fold Linf.
    destruct (Z.of_nat m <? 2)%Z eqn:E2; cbn [cbind].
    + apply Z.ltb_lt in E2. assert (Em: m = 1) by lia.
      rewrite (for_each_steps (map kz Linf) _ (fun k s' => s_add s' (py_make_not_A_or_B n (getc k)))).
      2:{ intros a s' Ha. apply in_map_iff in Ha as [c [<- Hc]]. rewrite get_bb by (apply HLD; exact Hc). reflexivity. }
      cbn [cbind]. f_equal.
      rewrite (s_solve_ext n _ (fun w => feas (map ac Linf) w && fal q w)).
      2:{ intros w. rewrite solver_after by exact HLD. rewrite s_holds_add, feas_last. simpl. rewrite andb_true_r. apply andb_comm. }
      assert (Efin: fin_layers P = []).
      { unfold fin_layers. assert (El: length P = 1) by (unfold acP; rewrite map_length, Pc_length; exact Em).
        destruct P as [|a [|b l]]; simpl in El; try lia. reflexivity. }
      rewrite Efin. destruct (existsb _ W); reflexivity.
    + apply Z.ltb_ge in E2.
      rewrite (for_each_steps (map kz Linf) _ (fun k s' => fold_left (fun x c => w_append x c) (getd nf k) s')).
      2:{ intros a s' Ha. apply in_map_iff in Ha as [c [<- Hc]]. rewrite (get_nf D nf Hnf) by (apply HLD; exact Hc). reflexivity. }
      cbn [cbind].
      replace (Z.of_nat m - 2)%Z with (Z.of_nat (m - 2)) by lia.
      rewrite (Hrec (m - 2) (S m) _ (feas (map ac Linf))); try lia.
      2:{ intros w. rewrite (hard_after nf (fun c w => negb (fal c w))) by (intros c Hc; apply (getd_nf_holds D nf Hnf); apply HLD; exact Hc).
          rewrite feas_last. reflexivity. }
      cbn [call cbind]. f_equal.
      assert (Efin: fin_layers P = firstn (S (m - 2)) P).
      { unfold fin_layers. rewrite removelast_firstn_len. f_equal. unfold acP. rewrite map_length, Pc_length. lia. }
      rewrite Efin.
      destruct (existsb (fun w => feas (map ac Linf) w && fal q w) W) eqn:Ex; cbn [negb].
      * unfold layers. destruct (firstn (S (m - 2)) P) as [|L0 R0] eqn:Efn; [|reflexivity].
        exfalso. assert (length (firstn (S (m - 2)) P) = S (m - 2)).
        { apply firstn_length_le. unfold acP. rewrite map_length, Pc_length. lia. }
        rewrite Efn in H. discriminate.
      * apply no_falsifier_w. exact Ex.
  - (* strict mode *)
    replace (Z.of_nat m - 1)%Z with (Z.of_nat (m - 1)) by lia.
    rewrite (Hrec (m - 1) (S m) wcnf_new (top world)); try lia; [|reflexivity].
    cbn [call cbind]. unfold w_strict, layers. f_equal. f_equal. f_equal. f_equal.
    replace (S (m - 1)) with (length P) by (unfold acP; rewrite map_length, Pc_length; lia).
    apply firstn_all.
Qed.
End TieWTop.
