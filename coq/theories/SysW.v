From InfOCF Require Import Core.
Section W.
Variable world : Type.
Variable W : list world.
Variables AB AnB : pred world.
Notation fam := (fam world W).
Notation fam_in := (fam_in world W).
Fixpoint wless (ls:list (layer world)) (w w':world) : bool :=
  match ls with [] => false | F::rest => if beq (F w) (F w') then wless rest w w' else sub (F w) (F w') end.

Fixpoint w_rec (ls:list (layer world)) (H:pred world) : bool :=
  match ls with
  | [] => forallb (fun w' => negb (H w' && AnB w')) W
  | F::rest =>
     let Xi := minimal (fam H F AB) in let Xi' := minimal (fam H F AnB) in
     forallb (fun x' => existsb (fun x => sub x x') Xi) Xi' &&
     forallb (fun x => negb (existsb (beq x) Xi') || w_rec rest (fun w => H w && beq (F w) x)) Xi
  end.

Definition spec ls (H:pred world) : Prop :=
  forall w', In w' W -> H w' = true -> AnB w' = true ->
    exists w, In w W /\ H w = true /\ AB w = true /\ wless ls w w' = true.

Theorem w_rec_correct : forall ls H, w_rec ls H = true <-> spec ls H.
Proof.
  induction ls as [|F rest IH]; intros H.
  - simpl. unfold spec. split.
    + intros Hf w' Hw' H1 H2. eapply forallb_forall in Hf; eauto. rewrite H1, H2 in Hf. discriminate.
    + intros Hs. apply forallb_forall. intros w' Hw'. apply negb_true_iff.
      destruct (H w') eqn:E1, (AnB w') eqn:E2; auto. destruct (Hs w' Hw' E1 E2) as [w [_ [_ [_ Hx]]]]. discriminate.
  - cbn [w_rec]. set (Xi := minimal (fam H F AB)). set (Xi' := minimal (fam H F AnB)).
    rewrite andb_true_iff. split.
    + intros [Hchk Hties] w' Hw' H1 H2.
      assert (Hin: In (F w') (fam H F AnB)) by (apply fam_in; eauto).
      destruct (minimal_below _ (F w') Hin) as [x' [Hx'm Hx's]].
      eapply forallb_forall in Hchk; eauto. apply existsb_exists in Hchk as [x [Hxm Hxs]].
      destruct (beq x (F w')) eqn:Eeq.
      * apply beq_eq in Eeq. (* x = x' = F w' *)
        assert (x' = F w').
        { apply sub_antisym; auto. rewrite <- Eeq. exact Hxs. }
        subst x'. 
        eapply forallb_forall in Hties; eauto. apply orb_true_iff in Hties as [Hn|Hr].
        -- apply negb_true_iff in Hn. exfalso.
           assert (existsb (beq x) Xi' = true); [|congruence].
           apply existsb_exists. exists (F w'). split; auto. apply beq_eq. auto.
        -- apply IH in Hr. destruct (Hr w' Hw') as [w [Hw [Hh [Hab Hl]]]]; auto.
           { rewrite H1. simpl. apply beq_eq. auto. }
           apply andb_true_iff in Hh as [Hh Hb]. exists w. repeat split; auto.
           simpl. apply beq_eq in Hb. rewrite Hb, Eeq. rewrite (proj2 (beq_eq _ _) eq_refl). exact Hl.
      * apply minimal_in in Hxm as [Hxf _]. apply fam_in in Hxf as [w [Hw [Hh [Hab Ef]]]].
        exists w. repeat split; auto. simpl. rewrite Ef, Eeq. eapply sub_trans; eauto.
    + intros Hs. split.
      * apply forallb_forall. intros x' Hx'. apply minimal_in in Hx' as [Hx'f Hx'min].
        apply fam_in in Hx'f as [w' [Hw' [H1 [H2 Ef]]]].
        destruct (Hs w' Hw' H1 H2) as [w [Hw [Hh [Hab Hl]]]].
        assert (Hsub: sub (F w) (F w') = true).
        { simpl in Hl. destruct (beq (F w) (F w')) eqn:E; auto. apply beq_eq in E. rewrite E. apply sub_refl. }
        assert (Hin: In (F w) (fam H F AB)) by (apply fam_in; eauto).
        destruct (minimal_below _ (F w) Hin) as [x [Hxm Hxs]].
        apply existsb_exists. exists x. split; auto. subst x'. eapply sub_trans; eauto.
      * apply forallb_forall. intros x Hx. destruct (existsb (beq x) Xi') eqn:Em; simpl; auto.
        apply IH. intros w' Hw' Hh' H2. apply andb_true_iff in Hh' as [H1 Hb]. apply beq_eq in Hb.
        destruct (Hs w' Hw' H1 H2) as [w [Hw [Hh [Hab Hl]]]].
        simpl in Hl. destruct (beq (F w) (F w')) eqn:E.
        -- exists w. repeat split; auto. rewrite Hh. simpl. apply beq_eq in E. apply beq_eq. congruence.
        -- exfalso. apply minimal_in in Hx as [_ Hmin].
           assert (Hin: In (F w) (fam H F AB)) by (apply fam_in; eauto).
           specialize (Hmin _ Hin). unfold ssub in Hmin. rewrite <- Hb in Hmin. rewrite Hl, E in Hmin. discriminate.
Qed.
End W.
Print Assumptions w_rec_correct.
