From InfOCF Require Import Core Tol Form PyLib.
From Coq Require Import ZArith.
(* Lemmas about the primitives of PyLib.v that the tie proofs (Tie*.v) share. *)

Lemma forallb_rev {A} (p:A->bool) l : forallb p (rev l) = forallb p l.
Proof. induction l as [|a l IH]; simpl; auto. rewrite forallb_app, IH. simpl. rewrite andb_true_r. apply andb_comm. Qed.
Lemma existsb_ext_in {A} (f g:A->bool) l : (forall x, In x l -> f x = g x) -> existsb f l = existsb g l.
Proof. induction l as [|a l IH]; simpl; intros H; auto. rewrite H by auto. rewrite IH; auto. Qed.

(* ---- the incremental solver ---- *)
Lemma s_add_fold ks fr r : fold_left s_add ks (fr::r) = (rev ks ++ fr) :: r.
Proof. revert fr. induction ks as [|k ks IH]; intros fr; simpl; auto. rewrite IH. simpl. rewrite <- app_assoc. reflexivity. Qed.
Lemma s_holds_cons fr s w : s_holds (fr::s) w = forallb (eval w) fr && s_holds s w.
Proof. unfold s_holds. simpl. apply forallb_app. Qed.
Lemma s_holds_add s f w : s_holds (s_add s f) w = eval w f && s_holds s w.
Proof. destruct s as [|fr r]; unfold s_holds; simpl; [rewrite andb_true_r; reflexivity|reflexivity]. Qed.
Lemma s_holds_push s w : s_holds (s_push s) w = s_holds s w.
Proof. reflexivity. Qed.
Lemma s_holds_new w : s_holds new_solver w = true.
Proof. reflexivity. Qed.
Lemma s_holds_fold_add ks s w : s_holds (fold_left s_add ks s) w = forallb (eval w) ks && s_holds s w.
Proof. revert s. induction ks as [|k ks IH]; intros s; simpl; auto. rewrite IH, s_holds_add.
  destruct (eval w k), (forallb (eval w) ks); reflexivity. Qed.
Lemma s_pop_push s : s_pop (s_push s) = s.  Proof. reflexivity. Qed.
Lemma s_pop_add_push s f : s_pop (s_add (s_push s) f) = s.  Proof. reflexivity. Qed.
Lemma s_solve_ext n s p : (forall w, s_holds s w = p w) -> s_solve n s = existsb p (worlds n).
Proof. intros H. unfold s_solve. apply existsb_ext_in. intros w _. apply H. Qed.

(* ---- formulas built by Conditional's methods ---- *)
Lemma eval_implies w a b : eval w (FImplies a b) = negb (eval w a && negb (eval w b)).
Proof. simpl. destruct (eval w a), (eval w b); reflexivity. Qed.

(* ---- lists, integers ---- *)
Lemma py_len_nil {A} (l:list A) : (py_len l =? 0)%Z = is_nil l.
Proof. destruct l; reflexivity. Qed.
Lemma nth_error_last {A} (l:list A) a d : nth_error (a::l) (length l) = Some (last (a::l) d).
Proof. revert a. induction l as [|b l IH]; intros a; [reflexivity|]. simpl length. cbn [nth_error]. rewrite IH. reflexivity. Qed.
Lemma py_index_last {A R L} (l:list A) d : l <> [] -> @py_index A R L l (-1)%Z = Next (last l d).
Proof. intros Hne. unfold py_index. simpl. unfold py_len.
  destruct l as [|a l]; [congruence|]. clear Hne.
  replace (Z.of_nat (length (a::l)) + -1)%Z with (Z.of_nat (length l)) by (simpl length; lia).
  destruct (Z.of_nat (length l) <? 0)%Z eqn:Hn; [apply Z.ltb_lt in Hn; lia|].
  rewrite Nat2Z.id. rewrite (nth_error_last l a d). reflexivity. Qed.
Lemma py_index_nat {A R L} (l:list A) k d : k < length l -> @py_index A R L l (Z.of_nat k) = Next (nth k l d).
Proof. intros Hk. unfold py_index. destruct (Z.of_nat k <? 0)%Z eqn:Hn; [apply Z.ltb_lt in Hn; lia|].
  rewrite Hn. rewrite Nat2Z.id. rewrite (nth_error_nth' l d Hk). reflexivity. Qed.

(* one round of `while True` *)
Lemma while_true_S {R L St} k (body:St -> ctl R St St) s : @while_true R L St (S k) body s =
  match body s with
  | Next s' | Continue s' => while_true k body s'
  | Break s' => Next s' | Return r => Return r | Raise => Raise | NoFuel => NoFuel end.
Proof. reflexivity. Qed.

(* ---- the literals of a world (PreOCF.symbolize_bitvec) pin the solver to that world ---- *)
Section WorldLits.
Variable n : nat.
Notation W := (worlds n).
Lemma lits_hold : forall w w' pre, length w' = length w ->
  forallb (eval (pre ++ w')) (world_lits_from (length pre) w) = beq w' w.
Proof. induction w as [|b w IH]; intros [|b' w'] pre Hl; simpl in Hl; try discriminate; [reflexivity|].
  injection Hl as Hl. cbn [world_lits_from forallb beq].
  assert (E: eval (pre ++ b' :: w') (if b then FVar (length pre) else FNot (FVar (length pre))) = Bool.eqb b' b).
  { destruct b; simpl; rewrite app_nth2, Nat.sub_diag by lia; simpl; destruct b'; reflexivity. }
  rewrite E. f_equal.
  specialize (IH w' (pre ++ [b']) Hl). rewrite <- app_assoc in IH. simpl in IH.
  rewrite app_length in IH. simpl in IH. rewrite Nat.add_1_r in IH. exact IH. Qed.
Lemma world_lits_hold w w' : length w' = length w -> forallb (eval w') (world_lits w) = beq w' w.
Proof. intros Hl. apply (lits_hold w w' [] Hl). Qed.
Lemma existsb_point (g:world -> bool) w : In w W -> existsb (fun w' => g w' && beq w' w) W = g w.
Proof. intros Hw. destruct (g w) eqn:Eg.
  - apply existsb_exists. exists w. split; [exact Hw|]. rewrite Eg, beq_refl. reflexivity.
  - destruct (existsb _ W) eqn:E; [|reflexivity]. apply existsb_exists in E as [w' [_ H]].
    apply andb_true_iff in H as [H1 H2]. apply beq_eq in H2. subst. congruence. Qed.
Lemma s_solve_ext_in s p : (forall w, In w W -> s_holds s w = p w) -> s_solve n s = existsb p W.
Proof. intros H. unfold s_solve. apply existsb_ext_in. exact H. Qed.

End WorldLits.
