From InfOCF Require Import Core Tol TolExt SysZ SysW Lex Kz Form Model Spec Exec Thm06 ThmOps ThmP ThmTop ThmInv.
From Coq Require Import Permutation.
(* C12: a general simulation theorem.  If phi maps the world list W1 onto the world list W2 and every conditional of the
   first presentation is verified / falsified at w exactly as its counterpart is at phi w, then all definitions and both
   tolerance loops agree.  Instances: consistent renaming of atoms / re-ordering of the signature (phi permutes positions),
   extension of the signature by unused atoms (phi forgets the new positions). *)
Section Sim.
Variables W1 W2 : list world.
Variable phi : world -> world.
Hypothesis phi_in : forall w, In w W1 -> In (phi w) W2.
Hypothesis phi_onto : forall u, In u W2 -> exists w, In w W1 /\ phi w = u.

Definition arel (c1 c2:acond world) : Prop := forall w, cver world c1 w = cver world c2 (phi w) /\ cfal world c1 w = cfal world c2 (phi w).
Definition lrelS := Forall2 arel.
Definition prelS := Forall2 lrelS.

Lemma exb_sim (p1 p2:world->bool) : (forall w, p1 w = p2 (phi w)) -> existsb p1 W1 = existsb p2 W2.
Proof. intros H. apply eq_true_iff_eq. rewrite !existsb_exists. split.
  - intros [w [Hw Hp]]. exists (phi w). split; auto. rewrite <- H. exact Hp.
  - intros [u [Hu Hp]]. destruct (phi_onto u Hu) as [w [Hw <-]]. exists w. split; auto. rewrite H. exact Hp. Qed.
Lemma fab_sim (p1 p2:world->bool) : (forall w, p1 w = p2 (phi w)) -> forallb p1 W1 = forallb p2 W2.
Proof. intros H. apply eq_true_iff_eq. rewrite !forallb_forall. split.
  - intros Ha u Hu. destruct (phi_onto u Hu) as [w [Hw <-]]. rewrite <- H. apply Ha; auto.
  - intros Ha w Hw. rewrite H. apply Ha. apply phi_in; auto. Qed.
Lemma nofals_sim D1 D2 w : lrelS D1 D2 -> nofals world D1 w = nofals world D2 (phi w).
Proof. unfold nofals. induction 1 as [|c c' D D' Hc _ IH]; cbn [forallb]; auto. destruct (Hc w) as [_ ->]. rewrite IH. reflexivity. Qed.
Lemma tolerated_sim D1 D2 c1 c2 : lrelS D1 D2 -> arel c1 c2 -> tolerated world W1 D1 c1 = tolerated world W2 D2 c2.
Proof. intros HD Hc. unfold tolerated. apply exb_sim. intros w. destruct (Hc w) as [-> _]. rewrite (nofals_sim D1 D2 w HD). reflexivity. Qed.
Lemma filter_sim (p:acond world -> bool) (p':acond world -> bool) D1 D2 : lrelS D1 D2 -> (forall c c', arel c c' -> p c = p' c') ->
  lrelS (filter p D1) (filter p' D2).
Proof. intros HD Hp. induction HD as [|c c' D D' Hc _ IH]; cbn; [constructor|]. rewrite (Hp c c' Hc). destruct (p' c'); auto. constructor; auto. Qed.
Definition orelS (o o':option (list (list (acond world)))) : Prop :=
  match o, o' with Some P, Some P' => prelS P P' | None, None => True | _, _ => False end.
Lemma tolR_sim D1 D2 : lrelS D1 D2 -> lrelS (tolR world W1 D1) (tolR world W2 D2).
Proof. intros H. apply filter_sim; auto. intros c c' Hc. apply tolerated_sim; auto. Qed.
Lemma tolC_sim D1 D2 : lrelS D1 D2 -> lrelS (tolC world W1 D1) (tolC world W2 D2).
Proof. intros H. apply filter_sim; auto. intros c c' Hc. f_equal. apply tolerated_sim; auto. Qed.
Lemma tol_loop_sim : forall fuel D1 D2, lrelS D1 D2 -> orelS (tol_loop world W1 fuel D1) (tol_loop world W2 fuel D2).
Proof. induction fuel as [|m IH]; intros D1 D2 H.
  - destruct H; cbn; auto. constructor.
  - destruct H as [|c c' D D' Hc HD]; [cbn; constructor|].
    assert (HL: lrelS (c::D) (c'::D')) by (constructor; auto).
    rewrite !loop_unfold by discriminate.
    pose proof (tolR_sim _ _ HL) as HR. pose proof (tolC_sim _ _ HL) as HC. specialize (IH _ _ HC).
    set (o1 := tol_loop world W1 m (tolC world W1 (c::D))) in *. set (o2 := tol_loop world W2 m (tolC world W2 (c'::D'))) in *.
    destruct HR as [|r r' R R' Hr HRR]; [exact I|]. destruct o1, o2; unfold orelS, prelS in *; try tauto.
    constructor; auto. constructor; auto. Qed.
Lemma tol_loop_ext_sim : forall fuel D1 D2, lrelS D1 D2 -> orelS (tol_loop_ext world W1 fuel D1) (tol_loop_ext world W2 fuel D2).
Proof. induction fuel as [|m IH]; intros D1 D2 H.
  - destruct H; cbn; auto. repeat constructor.
  - destruct H as [|c c' D D' Hc HD]; [cbn; repeat constructor|].
    assert (HL: lrelS (c::D) (c'::D')) by (constructor; auto).
    rewrite !ext_unfold by discriminate.
    pose proof (tolR_sim _ _ HL) as HR. pose proof (tolC_sim _ _ HL) as HC. specialize (IH _ _ HC).
    set (o1 := tol_loop_ext world W1 m (tolC world W1 (c::D))) in *. set (o2 := tol_loop_ext world W2 m (tolC world W2 (c'::D'))) in *.
    destruct HR as [|r r' R R' Hr HRR].
    + rewrite (exb_sim (nofals world (c::D)) (nofals world (c'::D'))) by (intros w; apply nofals_sim; auto).
      destruct (existsb _ W2); unfold orelS, prelS; auto; repeat constructor; auto.
    + destruct o1, o2; unfold orelS, prelS in *; try tauto. constructor; auto. constructor; auto. Qed.

(* layers *)
Lemma layer_of_sim L1 L2 w : lrelS L1 L2 -> layer_of L1 w = layer_of L2 (phi w).
Proof. intros H. unfold layer_of. induction H as [|c c' L L' Hc _ IH]; cbn; auto. destruct (Hc w) as [_ ->]. rewrite IH. reflexivity. Qed.
Definition frelS (F F':layer world) : Prop := forall w, F w = F' (phi w).
Lemma layers_sim P1 P2 : prelS P1 P2 -> Forall2 frelS (layers P1) (layers P2).
Proof. intros H. unfold layers. apply Forall2_rev. induction H; cbn; constructor; auto. intros w. apply layer_of_sim; auto. Qed.
Lemma zrank_sim ls ls' w : Forall2 frelS ls ls' -> zrank world ls w = zrank world ls' (phi w).
Proof. induction 1 as [|F F' ls ls' HF Hl IH]; cbn; auto. rewrite (HF w), IH, (Forall2_length _ _ _ Hl). reflexivity. Qed.
Lemma wless_sim ls ls' w w' : Forall2 frelS ls ls' -> wless world ls w w' = wless world ls' (phi w) (phi w').
Proof. induction 1 as [|F F' ls ls' HF _ IH]; cbn; auto. rewrite (HF w), (HF w'), IH. reflexivity. Qed.
Lemma vec_sim ls ls' w : Forall2 frelS ls ls' -> vec world ls w = vec world ls' (phi w).
Proof. unfold vec. induction 1 as [|F F' ls ls' HF _ IH]; cbn; auto. rewrite (HF w), IH. reflexivity. Qed.

(* minima over the two world lists *)
Lemma minl_set (l1 l2:list nat) : (forall x, In x l1 <-> In x l2) -> minl l1 = minl l2.
Proof. intros H. destruct (minl l1) as [a|] eqn:E1, (minl l2) as [b|] eqn:E2; auto.
  - f_equal. pose proof (minl_in _ _ E1) as Ha. pose proof (minl_in _ _ E2) as Hb.
    pose proof (minl_le _ _ _ E1 (proj2 (H b) Hb)). pose proof (minl_le _ _ _ E2 (proj1 (H a) Ha)). lia.
  - apply minl_none in E2. subst. pose proof (minl_in _ _ E1) as Ha. apply H in Ha. inversion Ha.
  - apply minl_none in E1. subst. pose proof (minl_in _ _ E2) as Hb. apply H in Hb. inversion Hb. Qed.
Lemma image_sim {A} (r1 r2:world->A) (p1 p2:world->bool) : (forall w, r1 w = r2 (phi w)) -> (forall w, p1 w = p2 (phi w)) ->
  forall x, In x (map r1 (filter p1 W1)) <-> In x (map r2 (filter p2 W2)).
Proof. intros Hr Hp x. rewrite !in_map_iff. split.
  - intros [w [<- Hw]]. apply filter_In in Hw as [Hw Hpw]. exists (phi w). split; [symmetry; apply Hr|]. apply filter_In. split; auto. rewrite <- Hp; auto.
  - intros [u [<- Hu]]. apply filter_In in Hu as [Hu Hpu]. destruct (phi_onto u Hu) as [w [Hw <-]]. exists w. split; [apply Hr|].
    apply filter_In. split; auto. rewrite Hp; auto. Qed.
Lemma lexminl_set (l1 l2:list (list nat)) k : (forall x, In x l1 -> length x = k) -> (forall x, In x l1 <-> In x l2) -> lexminl l1 = lexminl l2.
Proof. intros Hlen H. assert (Hlen2: forall x, In x l2 -> length x = k) by (intros x Hx; apply Hlen; apply H; auto).
  destruct (lexminl l1) as [a|] eqn:E1, (lexminl l2) as [b|] eqn:E2; auto.
  - f_equal. destruct (lexminl_spec l1 a k Hlen E1) as [Ha Hamin]. destruct (lexminl_spec l2 b k Hlen2 E2) as [Hb Hbmin].
    destruct (lexlt_tricho a b) as [H1|[H1|H1]]; auto.
    + rewrite (Hlen a Ha), (Hlen2 b Hb). reflexivity.
    + rewrite (Hbmin a (proj1 (H a) Ha)) in H1. discriminate.
    + rewrite (Hamin b (proj2 (H b) Hb)) in H1. discriminate.
  - apply lexminl_none in E2. subst. destruct (lexminl_spec l1 a k Hlen E1) as [Ha _]. apply H in Ha. inversion Ha.
  - apply lexminl_none in E1. subst. destruct (lexminl_spec l2 b k Hlen2 E2) as [Hb _]. apply H in Hb. inversion Hb. Qed.

Definition qrel (q1 q2:cond) : Prop := forall w, ver q1 w = ver q2 (phi w) /\ fal q1 w = fal q2 (phi w).
Lemma qrel_ante q1 q2 : qrel q1 q2 -> forall w, ante q1 w = ante q2 (phi w).
Proof. intros H w. rewrite !ante_split. destruct (H w) as [-> ->]. reflexivity. Qed.

Theorem z_spec_sim P1 P2 q1 q2 : prelS P1 P2 -> qrel q1 q2 -> z_spec W1 P1 q1 = z_spec W2 P2 q2.
Proof. intros HP Hq. unfold z_spec, rank_of, rk, sel. f_equal.
  - f_equal. apply exb_sim. apply qrel_ante; auto.
  - assert (Hk: forall w, kappa_z P1 w = kappa_z P2 (phi w)).
    { intros w. unfold kappa_z. rewrite !kz_zrank. apply zrank_sim. apply layers_sim; auto. }
    f_equal; apply minl_set; apply image_sim; auto; intros w; unfold top; cbn; apply Hq. Qed.
Theorem w_spec_sim P1 P2 q1 q2 : prelS P1 P2 -> qrel q1 q2 -> w_spec W1 P1 q1 = w_spec W2 P2 q2.
Proof. intros HP Hq. unfold w_spec. apply fab_sim. intros w'. destruct (Hq w') as [_ ->]. f_equal.
  apply exb_sim. intros w. destruct (Hq w) as [-> _]. f_equal. apply wless_sim. apply layers_sim; auto. Qed.
Theorem lex_spec_sim P1 P2 q1 q2 : prelS P1 P2 -> qrel q1 q2 -> lex_spec W1 P1 q1 = lex_spec W2 P2 q2.
Proof. intros HP Hq. unfold lex_spec.
  assert (Hv: forall w, lexvec P1 w = lexvec P2 (phi w)).
  { intros w. unfold lexvec. apply vec_sim. apply layers_sim; auto. }
  assert (Hlen: forall (p:world->bool) x, In x (map (lexvec P1) (filter p W1)) -> length x = length (layers P1)).
  { intros p x Hx. apply in_map_iff in Hx as [w [<- _]]. unfold lexvec. apply vec_len. }
  rewrite (lexminl_set (map (lexvec P1) (filter (fal q1) W1)) (map (lexvec P2) (filter (fal q2) W2)) _ (Hlen _))
    by (apply image_sim; auto; intros w; apply Hq).
  rewrite (lexminl_set (map (lexvec P1) (filter (ver q1) W1)) (map (lexvec P2) (filter (ver q2) W2)) _ (Hlen _))
    by (apply image_sim; auto; intros w; apply Hq).
  reflexivity. Qed.
End Sim.

(* ---------- the model's answers under a simulation between worlds n1 and worlds n2 ---------- *)
Section SimTop.
Variables n1 n2 : nat.
Variable phi : world -> world.
Hypothesis phi_in : forall w, In w (worlds n1) -> In (phi w) (worlds n2).
Hypothesis phi_onto : forall u, In u (worlds n2) -> exists w, In w (worlds n1) /\ phi w = u.
Notation W1 := (worlds n1).
Notation W2 := (worlds n2).
Notation qrelp := (qrel phi).

Lemma conds_rel D1 D2 : Forall2 qrelp D1 D2 -> lrelS phi (map ac D1) (map ac D2).
Proof. induction 1; cbn; constructor; auto. Qed.
Lemma negq_rel k1 k2 q1 q2 : qrelp q1 q2 -> arel phi (ac (negq k1 q1)) (ac (negq k2 q2)).
Proof. intros H w. cbn [ac cver cfal]. rewrite !negq_ver, !negq_fal. destruct (H w); auto. Qed.
Lemma trivial_sim q1 q2 : qrelp q1 q2 -> trivial n1 q1 = trivial n2 q2.
Proof. intros H. unfold trivial, sat. rewrite (exb_sim W1 W2 phi phi_in phi_onto (ante q1) (ante q2) (qrel_ante phi q1 q2 H)).
  rewrite (exb_sim W1 W2 phi phi_in phi_onto (fal q1) (fal q2)) by (intros w; apply H). reflexivity. Qed.
Lemma consistency_sim weakly D1 D2 : Forall2 qrelp D1 D2 -> orelS phi (consistency n1 weakly D1) (consistency n2 weakly D2).
Proof. intros H. unfold consistency, part_ext, part_strict. rewrite <- (Forall2_length _ _ _ H).
  destruct weakly; [apply tol_loop_ext_sim|apply tol_loop_sim]; auto; apply conds_rel; auto. Qed.
Lemma prelS_last P1 P2 : prelS phi P1 P2 -> lrelS phi (last P1 []) (last P2 []).
Proof. induction 1 as [|L L' P P' HL HP IH]; cbn; [constructor|]. destruct HP; auto. Qed.
Lemma prelS_removelast P1 P2 : prelS phi P1 P2 -> prelS phi (removelast P1) (removelast P2).
Proof. induction 1 as [|L L' P P' HL HP IH]; cbn; [constructor|]. destruct HP; [constructor|]. constructor; auto. Qed.
(* the feasible worlds are again in simulation *)
Lemma Wf_in P1 P2 : prelS phi P1 P2 -> forall w, In w (Wf W1 P1) -> In (phi w) (Wf W2 P2).
Proof. intros HP w Hw. unfold Wf, Cinf in *. apply filter_In in Hw as [Hw Hn]. apply filter_In. split; auto.
  rewrite <- (nofals_sim phi _ _ w (prelS_last _ _ HP)). exact Hn. Qed.
Lemma Wf_onto P1 P2 : prelS phi P1 P2 -> forall u, In u (Wf W2 P2) -> exists w, In w (Wf W1 P1) /\ phi w = u.
Proof. intros HP u Hu. unfold Wf, Cinf in *. apply filter_In in Hu as [Hu Hn]. destruct (phi_onto u Hu) as [w [Hw <-]].
  exists w. split; auto. apply filter_In. split; auto. rewrite (nofals_sim phi _ _ w (prelS_last _ _ HP)). exact Hn. Qed.
Lemma ext_spec_sim P1 P2 q1 q2 (sd:list world -> list (list (acond world)) -> cond -> bool) : prelS phi P1 P2 -> qrelp q1 q2 ->
  (forall Wa Wb Pa Pb, (forall w, In w Wa -> In (phi w) Wb) -> (forall u, In u Wb -> exists w, In w Wa /\ phi w = u) -> prelS phi Pa Pb -> sd Wa Pa q1 = sd Wb Pb q2) ->
  ext_spec W1 P1 q1 sd = ext_spec W2 P2 q2 sd.
Proof. intros HP Hq Hsd. unfold ext_spec.
  pose proof (Wf_in P1 P2 HP) as Hin. pose proof (Wf_onto P1 P2 HP) as Hon.
  rewrite (exb_sim _ _ phi Hin Hon (ante q1) (ante q2) (qrel_ante phi q1 q2 Hq)).
  rewrite (exb_sim _ _ phi Hin Hon (fal q1) (fal q2)) by (intros w; apply Hq).
  rewrite (exb_sim _ _ phi Hin Hon (ver q1) (ver q2)) by (intros w; apply Hq).
  rewrite (Hsd (Wf W1 P1) (Wf W2 P2) (fin P1) (fin P2) Hin Hon (prelS_removelast _ _ HP)). reflexivity. Qed.
Lemma p_strict_sim D1 D2 q1 q2 : Forall2 qrelp D1 D2 -> qrelp q1 q2 -> p_strict n1 D1 q1 = p_strict n2 D2 q2.
Proof. intros HD Hq. unfold p_strict, part_strict.
  assert (HL: lrelS phi (map ac (D1 ++ [negq (fresh D1) q1])) (map ac (D2 ++ [negq (fresh D2) q2]))).
  { rewrite !map_app. apply Forall2_app; [apply conds_rel; auto|]. constructor; [apply negq_rel; auto|constructor]. }
  pose proof (tol_loop_sim W1 W2 phi phi_in phi_onto (length (D1 ++ [negq (fresh D1) q1])) _ _ HL) as Ho.
  rewrite !app_length in *. rewrite <- (Forall2_length _ _ _ HD). cbn [length] in *.
  destruct (tol_loop world W1 _ (map ac (D1 ++ _))), (tol_loop world W2 _ (map ac (D2 ++ _))); cbn in Ho; tauto. Qed.
Lemma p_ext_sim D1 D2 q1 q2 : Forall2 qrelp D1 D2 -> qrelp q1 q2 -> p_ext n1 D1 q1 = p_ext n2 D2 q2.
Proof. intros HD Hq. unfold p_ext, part_ext.
  assert (HL: lrelS phi (map ac (D1 ++ [negq (fresh D1) q1])) (map ac (D2 ++ [negq (fresh D2) q2]))).
  { rewrite !map_app. apply Forall2_app; [apply conds_rel; auto|]. constructor; [apply negq_rel; auto|constructor]. }
  pose proof (tol_loop_ext_sim W1 W2 phi phi_in phi_onto (length (D1 ++ [negq (fresh D1) q1])) _ _ HL) as Ho.
  rewrite !app_length in *. rewrite <- (Forall2_length _ _ _ HD). cbn [length] in *.
  destruct (tol_loop_ext world W1 _ (map ac (D1 ++ _))) as [P|], (tol_loop_ext world W2 _ (map ac (D2 ++ _))) as [P'|]; cbn in Ho; try tauto.
  f_equal. unfold feas, inf_layer. apply (exb_sim W1 W2 phi phi_in phi_onto). intros w.
  rewrite (nofals_sim phi _ _ w (prelS_last _ _ Ho)), (qrel_ante phi q1 q2 Hq). reflexivity. Qed.

Theorem simulation_invariance s weakly D1 D2 q1 q2 : Forall2 qrelp D1 D2 -> qrelp q1 q2 ->
  infer n1 s weakly D1 q1 = infer n2 s weakly D2 q2.
Proof. intros HD Hq. pose proof (consistency_sim weakly D1 D2 HD) as HC.
  destruct D1 as [|d D0]; [inversion HD; reflexivity|]. destruct D2 as [|d' D0']; [inversion HD|].
  destruct (consistency n1 weakly (d::D0)) as [P|] eqn:EP, (consistency n2 weakly (d'::D0')) as [P'|] eqn:EP'; cbn in HC; try tauto.
  2:{ unfold infer. rewrite EP, EP'. reflexivity. }
  destruct s, weakly.
  - unfold infer. rewrite EP, EP'. cbn [op]. rewrite (trivial_sim q1 q2 Hq), (p_ext_sim _ _ q1 q2 HD Hq). reflexivity.
  - unfold infer. rewrite EP, EP'. cbn [op]. rewrite (trivial_sim q1 q2 Hq), (p_strict_sim _ _ q1 q2 HD Hq). reflexivity.
  - rewrite (infer_z_ext n1 _ q1 P) by (auto; discriminate). rewrite (infer_z_ext n2 _ q2 P') by (auto; discriminate).
    f_equal. apply ext_spec_sim; auto. intros. apply (z_spec_sim Wa Wb phi); auto.
  - rewrite (infer_z_strict n1 _ q1 P) by (auto; discriminate). rewrite (infer_z_strict n2 _ q2 P') by (auto; discriminate).
    f_equal. apply (z_spec_sim W1 W2 phi); auto.
  - rewrite (infer_w_ext n1 _ q1 P) by (auto; discriminate). rewrite (infer_w_ext n2 _ q2 P') by (auto; discriminate).
    f_equal. apply ext_spec_sim; auto. intros. apply (w_spec_sim Wa Wb phi); auto.
  - rewrite (infer_w_strict n1 _ q1 P) by (auto; discriminate). rewrite (infer_w_strict n2 _ q2 P') by (auto; discriminate).
    f_equal. apply (w_spec_sim W1 W2 phi); auto.
  - rewrite (infer_lex_ext n1 _ q1 P) by (auto; discriminate). rewrite (infer_lex_ext n2 _ q2 P') by (auto; discriminate).
    f_equal. apply ext_spec_sim; auto. intros. apply (lex_spec_sim Wa Wb phi); auto.
  - rewrite (infer_lex_strict n1 _ q1 P) by (auto; discriminate). rewrite (infer_lex_strict n2 _ q2 P') by (auto; discriminate).
    f_equal. apply (lex_spec_sim W1 W2 phi); auto. Qed.
End SimTop.
