From InfOCF Require Import Core Tol Form Model Ocf PyLib TieLib TieSet TieSolver.
From InfOCFGen Require Import SrcCond SrcOcf SrcOcfCustom.
From Coq Require Import ZArith.
(* TIE: the ranking-table functions GENERATED from inference/preocf.py (gen/SrcOcf.v, gen/SrcOcfCustom.v) - formula_rank,
   conditional_acceptance, the conditionalisation helpers, CustomPreOCF.rank_world - equal the model of Ocf.v (frank,
   accept, conditionalize) for every signature size and every total ranking table with distinct worlds of the signature. *)

Section TieOcf.
Variable n : nat.
Notation W := (worlds n).
Variable t : table.
Hypothesis Hkeys : NoDup (map fst t).
Hypothesis Hworlds : forall p, In p t -> In (fst p) W.
Hypothesis Htotal : forall p, In p t -> snd p <> None.

Definition zt : wdict (option Z) := map (fun p => (fst p, option_map Z.of_nat (snd p))) t.
Definition rk_of (w:world) : option nat := match wdict_find t w with Some r => r | None => None end.

Lemma zt_keys : wdict_keys zt = map fst t.
Proof. unfold wdict_keys, zt. rewrite map_map. reflexivity. Qed.
Lemma find_entry p : In p t -> wdict_find t (fst p) = Some (snd p).
Proof. clear Hworlds Htotal. induction t as [|[w r] t0 IH]; [intros []|]. simpl in Hkeys. inversion Hkeys as [|? ? Hni Hn]; subst.
  intros [<-|Hp]; simpl.
  - rewrite beq_refl. reflexivity.
  - destruct (beq w (fst p)) eqn:E; [|apply IH; auto]. apply beq_eq in E. exfalso. apply Hni. rewrite E. apply in_map. exact Hp. Qed.
Lemma zt_find_gen (l:table) w : wdict_find (map (fun p => (fst p, option_map Z.of_nat (snd p))) l) w = option_map (option_map Z.of_nat) (wdict_find l w).
Proof. induction l as [|[w' r] l IH]; [reflexivity|]. simpl. destruct (beq w' w); [reflexivity|]. apply IH. Qed.
Lemma zt_find w : wdict_find zt w = option_map (option_map Z.of_nat) (wdict_find t w).
Proof. apply zt_find_gen. Qed.

(* the solver pinned to a world decides the formula there *)
Lemma pinned_solve s0 w f : In w W -> (forall w', s_holds s0 w' = true) ->
  s_solve n (s_add (fold_left (fun v_solver v_s => s_add v_solver v_s) (world_lits w) s0) f) = eval w f.
Proof. intros Hw Hs0. rewrite (s_solve_ext_in n _ (fun w' => eval w' f && beq w' w)).
  - apply (existsb_point n (fun w' => eval w' f) w Hw).
  - intros w' Hw'. rewrite s_holds_add, s_holds_fold_add, Hs0, andb_true_r.
    rewrite world_lits_hold by (rewrite (worlds_length n w' Hw'), (worlds_length n w Hw); reflexivity). reflexivity. Qed.
Lemma pop_pinned ls s0 f : s_pop (s_add (fold_left (fun v_solver v_s => s_add v_solver v_s) ls (s_push s0)) f) = s0.
Proof. change (fun v_solver v_s => s_add v_solver v_s) with s_add. unfold s_push. rewrite s_add_fold. reflexivity. Qed.
Lemma satisfies_is_eval w f : In w W -> py_PreOCF_world_satisfies n w f = eval w f.
Proof. intros Hw. unfold py_PreOCF_world_satisfies. cbv zeta. apply pinned_solve; [exact Hw|reflexivity]. Qed.

(* CustomPreOCF.rank_world on a world of the table *)
Lemma custom_rank p force : In p t -> exists r, snd p = Some r /\
  py_CustomPreOCF_rank_world n zt (fst p) force = Return (Z.of_nat r).
Proof. intros Hp. destruct (snd p) as [r|] eqn:Er; [|exfalso; apply (Htotal p Hp); exact Er].
  exists r. split; [reflexivity|]. unfold py_CustomPreOCF_rank_world. cbv zeta. unfold wdict_getopt.
  rewrite zt_find, (find_entry p Hp), Er. reflexivity. Qed.

(* running minimum *)
Definition upd (mr:option Z) (r:Z) : option Z := match mr with None => Some r | Some m => if (r <? m)%Z then Some r else Some m end.
Lemma minl_app_one l x : minl (l ++ [x]) = match minl l with None => Some x | Some m => Some (Nat.min m x) end.
Proof. induction l as [|a l IH]; [reflexivity|]. cbn [app minl]. rewrite IH. destruct (minl l); f_equal; lia. Qed.
Lemma upd_minl l x : upd (option_map Z.of_nat (minl l)) (Z.of_nat x) = option_map Z.of_nat (minl (l ++ [x])).
Proof. rewrite minl_app_one. destruct (minl l) as [m|]; [|reflexivity]. unfold upd, option_map.
  destruct (Z.of_nat x <? Z.of_nat m)%Z eqn:E; f_equal; [apply Z.ltb_lt in E|apply Z.ltb_ge in E]; lia. Qed.

Definition sat_ranks (f:form) (l:list (world * option nat)) : list nat :=
  flat_map (fun p => match snd p with Some r => if eval (fst p) f then [r] else [] | None => [] end) l.

Theorem tie_formula_rank f :
  py_PreOCF_formula_rank n (fun w => py_CustomPreOCF_rank_world n zt w false) zt f = Return (option_map Z.of_nat (frank t f)).
Proof. unfold py_PreOCF_formula_rank. rewrite zt_keys. unfold frank. fold (sat_ranks f t).
  match goal with |- context [for_each _ ?b _] => set (body := b) end.
  assert (Hloop: forall l done, (forall p, In p l -> In p t) ->
    @for_each world (option Z) unit (solver * option Z) (map fst l) body (new_solver, option_map Z.of_nat (minl done))
    = Next (new_solver, option_map Z.of_nat (minl (done ++ sat_ranks f l)))).
  { induction l as [|p l IH]; intros done HL; [simpl; rewrite app_nil_r; reflexivity|].
    cbn [map for_each]. unfold body at 1. cbv beta iota zeta.
    assert (Hp: In p t) by (apply HL; left; reflexivity).
    rewrite (pinned_solve (s_push new_solver) (fst p) f (Hworlds p Hp)) by reflexivity.
    destruct (custom_rank p false Hp) as [r [Er Erun]].
    assert (Esr: sat_ranks f (p :: l) = (if eval (fst p) f then [r] else []) ++ sat_ranks f l) by (unfold sat_ranks; simpl; rewrite Er; reflexivity).
    rewrite Esr. destruct (eval (fst p) f) eqn:Ev; cbn [cbind].
    - rewrite Erun. cbn [call]. cbv beta iota zeta.
      assert (Et6: (if is_none (option_map Z.of_nat (minl done)) then @Next (option Z) (solver * option Z) bool true
                    else cbind (py_lt_opt (Some (Z.of_nat r)) (option_map Z.of_nat (minl done))) (fun t5 => Next t5))
                   = Next (match option_map Z.of_nat (minl done) with None => true | Some m => (Z.of_nat r <? m)%Z end)).
      { destruct (minl done); reflexivity. }
      rewrite Et6. cbn [cbind].
      assert (Eupd: (if match option_map Z.of_nat (minl done) with None => true | Some m => (Z.of_nat r <? m)%Z end
                     then Some (Z.of_nat r) else option_map Z.of_nat (minl done)) = upd (option_map Z.of_nat (minl done)) (Z.of_nat r)).
      { unfold upd. destruct (option_map Z.of_nat (minl done)) as [m|]; [destruct (Z.of_nat r <? m)%Z|]; reflexivity. }
      rewrite Eupd, upd_minl, pop_pinned.
      rewrite (IH (done ++ [r])) by (intros q Hq; apply HL; right; exact Hq). rewrite <- app_assoc. reflexivity.
    - rewrite pop_pinned.
      rewrite (IH done) by (intros q Hq; apply HL; right; exact Hq). reflexivity. }
  cbv zeta. change (@None Z) with (option_map Z.of_nat (minl [])).
  rewrite (Hloop t [] (fun p Hp => Hp)). cbn [cbind app]. reflexivity.
Qed.

Theorem tie_conditional_acceptance c :
  py_PreOCF_conditional_acceptance n (fun w => py_CustomPreOCF_rank_world n zt w false) zt c = Return (accept t c).
Proof. unfold py_PreOCF_conditional_acceptance. cbv zeta.
  change (py_make_A_then_B n c) with (FAnd (cante c) (ccons c)). change (py_make_A_then_not_B n c) with (FAnd (cante c) (FNot (ccons c))).
  rewrite !tie_formula_rank. cbn [call]. unfold accept.
  destruct (frank t (FAnd (cante c) (ccons c))) as [v|]; cbn [option_map is_none cbind]; [|reflexivity].
  destruct (frank t (FAnd (cante c) (FNot (ccons c)))) as [m|]; cbn [option_map is_none cbind py_lt_opt]; [|reflexivity].
  f_equal. apply of_nat_ltb. Qed.

(* conditionalisation: the entries of the worlds satisfying the condition, in table order *)
Lemma filter_worlds_tie f : py_PreOCF_filter_worlds n zt f = map fst (conditionalize t f).
Proof. unfold py_PreOCF_filter_worlds, conditionalize. rewrite map_id, zt_keys.
  clear Hkeys Htotal. induction t as [|p t0 IH]; [reflexivity|]. cbn [map filter].
  rewrite satisfies_is_eval by (apply Hworlds; left; reflexivity). rewrite IH by (intros q Hq; apply Hworlds; right; exact Hq).
  destruct (eval (fst p) f); reflexivity. Qed.
Theorem tie_conditionalize_existing f :
  py_PreOCF_conditionalize_existing_ranks n zt f
  = Return (map (fun p => (fst p, option_map Z.of_nat (snd p))) (conditionalize t f)).
Proof. unfold py_PreOCF_conditionalize_existing_ranks. cbv zeta. rewrite filter_worlds_tie.
  assert (Hm: forall l, (forall p, In p l -> In p t) ->
    @map_m world (world * option Z) (wdict (option Z)) unit (fun v_w => cbind (wdict_get zt v_w) (fun t1 => Next (v_w, t1))) (map fst l)
    = Next (map (fun p => (fst p, option_map Z.of_nat (snd p))) l)).
  { induction l as [|p l IH]; intros HL; [reflexivity|]. cbn [map map_m].
    unfold wdict_get at 1. rewrite zt_find, (find_entry p) by (apply HL; left; reflexivity). cbn [option_map cbind].
    rewrite IH by (intros q Hq; apply HL; right; exact Hq). reflexivity. }
  rewrite Hm by (intros p Hp; unfold conditionalize in Hp; apply filter_In in Hp; tauto). reflexivity. Qed.
End TieOcf.
