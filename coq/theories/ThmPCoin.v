From InfOCF Require Import Core Tol TolExt Kz PEnt Form Model Spec Exec Thm06 ThmOps ThmP ThmTop ThmIncl ThmPExt.
(* C07, last sentence, for p-entailment: on a strongly consistent base (distinct keys) the extended answer of p-entailment
   coincides with the strict one.  (Z, W, lex: ThmTop.ext_strict_coincide_*.) *)
Section PC.
Variable n : nat.
Notation W := (worlds n).
Theorem ext_strict_coincide_p D q P : D <> [] -> NoDup (map ckey D) -> part_strict n D = Some P ->
  infer n SysP true D q = infer n SysP false D q.
Proof. intros HD Hnd HP.
  rewrite (infer_p_def_strict n D q P HD HP), (infer_p_ext n D q _ HD Hnd (ext_of_strict n D P HP)). f_equal.
  unfold ext_spec. rewrite Wf_nil_inf, fin_app_one.
  destruct (negb (existsb (ante q) W) || negb (existsb (fal q) W)) eqn:E1.
  - unfold p_def. rewrite E1. reflexivity.
  - apply orb_false_iff in E1 as [_ E1]. apply negb_false_iff in E1.
    destruct (existsb (ver q) W) eqn:E2; cbn [negb]; [reflexivity|].
    destruct (p_def (fresh D) W P q) eqn:Ep; [|reflexivity].
    pose proof HP as HP'. apply loop_sound in HP' as [Hm _]. apply mtp_tp in Hm.
    eapply p_sub_z_spec in Ep; [|exact Hm]. rewrite z_spec_nover in Ep by auto. discriminate.
Qed.
End PC.
