From InfOCF Require Import Core Tol TolExt Form Model Thm06 ThmInv ThmPerm PyLib TieLib TieCons TieAnsP TieAnsW TieAnsLex.
From Coq Require Import ZArith Permutation.
(* C12 on the GENERATED code (p-entailment, System W, lexicographic inference): other keys, equivalent formulas in base and
   query, another order of the conditionals - the same answer. *)
Section Rel12.
Variable n : nat.
Variables D D' : list cond.
Hypothesis Hnd : NoDup (map kzc D).
Hypothesis Hnd' : NoDup (map kzc D').
Hypothesis HD : D <> [].
Hypothesis HD' : D' <> [].
Lemma ans_eq a b : Ans a = Ans b -> a = b.  Proof. congruence. Qed.

Theorem src_presentation_p weakly q q' b b' : Forall2 ceq D D' -> ceq q q' ->
  src_p n D weakly q b -> src_p n D' weakly q' b' -> b = b'.
Proof. intros HF Hq H H'. apply ans_eq. rewrite <- (src_p_infer n D HD weakly q b H), <- (src_p_infer n D' HD' weakly q' b' H').
  apply presentation_invariance; assumption. Qed.
Theorem src_presentation_w weakly q q' b b' : Forall2 ceq D D' -> ceq q q' ->
  src_w n D weakly q b -> src_w n D' weakly q' b' -> b = b'.
Proof. intros HF Hq H H'. apply ans_eq. rewrite <- (src_w_infer n D Hnd HD weakly q b H), <- (src_w_infer n D' Hnd' HD' weakly q' b' H').
  apply presentation_invariance; assumption. Qed.
Theorem src_presentation_lex weakly q q' b b' : Forall2 ceq D D' -> ceq q q' ->
  src_lex n D weakly q b -> src_lex n D' weakly q' b' -> b = b'.
Proof. intros HF Hq H H'. apply ans_eq. rewrite <- (src_lex_infer n D Hnd HD weakly q b H), <- (src_lex_infer n D' Hnd' HD' weakly q' b' H').
  apply presentation_invariance; assumption. Qed.
Theorem src_order_p weakly q b b' : Permutation D D' -> src_p n D weakly q b -> src_p n D' weakly q b' -> b = b'.
Proof. intros HP H H'. apply ans_eq. rewrite <- (src_p_infer n D HD weakly q b H), <- (src_p_infer n D' HD' weakly q b' H').
  apply order_invariance; assumption. Qed.
Theorem src_order_w weakly q b b' : Permutation D D' -> src_w n D weakly q b -> src_w n D' weakly q b' -> b = b'.
Proof. intros HP H H'. apply ans_eq. rewrite <- (src_w_infer n D Hnd HD weakly q b H), <- (src_w_infer n D' Hnd' HD' weakly q b' H').
  apply order_invariance; assumption. Qed.
Theorem src_order_lex weakly q b b' : Permutation D D' -> src_lex n D weakly q b -> src_lex n D' weakly q b' -> b = b'.
Proof. intros HP H H'. apply ans_eq. rewrite <- (src_lex_infer n D Hnd HD weakly q b H), <- (src_lex_infer n D' Hnd' HD' weakly q b' H').
  apply order_invariance; assumption. Qed.
End Rel12.
