From InfOCF Require Import Core Form PyLib.
From Coq Require Import ZArith.
(* Integer terms and constraints as c-inference builds them with pysmt (Symbol, Int, Plus, minus, LE/LT/GE/GT, Not, And),
   with their evaluation under an assignment of the symbols.  Used by the files generated from c_inference.py. *)
Inductive symidx := SIdx (i:Z) | SQuery.
Inductive sym := SEta (i:Z) | SMv (x:symidx) | SMf (x:symidx) | SGp (i:Z) | SGm (i:Z).   (* eta_i, mv_x, mf_x of c-inference; gamma+_i, gamma-_i of c-revision *)
Inductive iterm := IInt (z:Z) | ISym (s:sym) | IPlus (l:list iterm) | IMinus (a b:iterm).
Inductive icon := ILE (a b:iterm) | ILT (a b:iterm) | IGE (a b:iterm) | IGT (a b:iterm) | INot (c:icon) | IAnd (l:list icon).
Definition zsum (l:list Z) : Z := fold_right Z.add 0%Z l.
Fixpoint ieval (sg:sym -> Z) (t:iterm) : Z :=
  match t with
  | IInt z => z | ISym s => sg s | IPlus l => zsum (map (ieval sg) l) | IMinus a b => (ieval sg a - ieval sg b)%Z end.
Fixpoint ceval (sg:sym -> Z) (c:icon) : bool :=
  match c with
  | ILE a b => (ieval sg a <=? ieval sg b)%Z | ILT a b => (ieval sg a <? ieval sg b)%Z
  | IGE a b => (ieval sg b <=? ieval sg a)%Z | IGT a b => (ieval sg b <? ieval sg a)%Z
  | INot c' => negb (ceval sg c') | IAnd l => forallb (ceval sg) l end.
Definition csp_sat (sg:sym -> Z) (cs:list icon) : bool := forallb (ceval sg) cs.

(* a pysmt Solver that receives integer constraints: the list of its assertions; solve() is an oracle parameter of the
   generated function (m_isolve), assumed by the tie theorems to decide solvability of the constraint list over Z *)
Definition is_add (s:list icon) (c:icon) : list icon := s ++ [c].
(* term.is_symbol() *)
Definition iterm_is_sym (t:iterm) : bool := match t with ISym _ => true | _ => false end.
(* the value of an Optional that was tested to be present *)
Definition py_unsome {A R L} (a:option A) : ctl R L A := match a with Some x => Next x | None => Raise end.
(* try: v = d[k] ... except KeyError: <handler> *)
Definition try_key {V R L S} (o:option V) (h:ctl R L S) (k:V -> ctl R L S) : ctl R L S := match o with Some v => k v | None => h end.
(* pysmt node inspection on Boolean formulas: atoms are named by their index *)
Definition f_is_symbol (f:form) : bool := match f with FVar _ => true | _ => false end.
Definition f_is_not (f:form) : bool := match f with FNot _ => true | _ => false end.
Definition f_symbol_name {R L} (f:form) : ctl R L Z := match f with FVar i => Next (Z.of_nat i) | _ => Raise end.
Definition f_arg0 {R L} (f:form) : ctl R L form :=
  match f with FNot g => Next g | FAnd g _ => Next g | FOr g _ => Next g | _ => Raise end.
(* s.discard(x), del d[k], w in d *)
Definition zset_discard (s:list Z) (x:Z) : list Z := filter (fun y => negb (y =? x)%Z) s.
Fixpoint zdict_del {V} (d:dict Z V) (k:Z) : dict Z V :=
  match d with [] => [] | (k', v)::r => if (k' =? k)%Z then r else (k', v) :: zdict_del r k end.
Definition wdict_mem {V} (d:wdict V) (w:world) : bool := match wdict_find d w with Some _ => true | None => false end.
