From InfOCF Require Import Core Tol Form Parse Lexer.
(* C10: file-level facts about the parser model (the formula-level theorem parse_iff is in Parse.v). *)
Definition key_of (x:nat * form * form * list ltok * list ltok) : nat := match x with (k, _, _, _, _) => k end.
Lemma number_keys : forall cs k, map key_of (number k cs) = seq k (length cs).
Proof. induction cs as [|[[[b a] bt] at_] cs IH]; intros k; cbn; auto. f_equal. apply IH. Qed.
Lemma number_length cs k : length (number k cs) = length cs.
Proof. rewrite <- (map_length key_of), number_keys, seq_length. reflexivity. Qed.

(* a parsed base: conditionals keyed 1..n in file order; the declared signature without duplicates, Top or Bottom *)
Theorem parsed_keys ts p : parse_file_toks ts = Some p -> map key_of (pf_conds p) = seq 1 (length (pf_conds p)).
Proof. unfold parse_file_toks. destruct (skip_nl ts) as [|[] [|[] r]]; try discriminate.
  destruct (psig _ _) as [[sg rest]|]; [|discriminate]. destruct (has_dup sg || _ || _); [discriminate|].
  destruct (pblock _ rest) as [[[nm cs] rest']|]; [|discriminate]. destruct (pblocks _ _ rest'); [|discriminate].
  intros H. inversion H; subst. cbn. rewrite number_keys, number_length. reflexivity. Qed.
Lemma has_dup_nodup l : has_dup l = false -> forall x y, In x l -> In y l -> True.
Proof. auto. Qed.
Theorem parsed_signature ts p : parse_file_toks ts = Some p ->
  has_dup (pf_sig p) = false /\ existsb (eqlist nm_top) (pf_sig p) = false /\ existsb (eqlist nm_bottom) (pf_sig p) = false.
Proof. unfold parse_file_toks. destruct (skip_nl ts) as [|[] [|[] r]]; try discriminate.
  destruct (psig _ _) as [[sg rest]|]; [|discriminate]. destruct (has_dup sg || existsb (eqlist nm_top) sg || existsb (eqlist nm_bottom) sg) eqn:E; [discriminate|].
  destruct (pblock _ rest) as [[[nm cs] rest']|]; [|discriminate]. destruct (pblocks _ _ rest'); [|discriminate].
  intros H. inversion H; subst. cbn. apply orb_false_iff in E as [E E3]. apply orb_false_iff in E as [E1 E2]. auto. Qed.
(* a formula text is accepted only if its whole token list derives in the stratified grammar (nothing is left over) *)
Theorem formula_text_accepted cs f nm : parse_formula_str cs = Some (f, nm) ->
  exists ts, lexer cs = Some ts /\ Gdisj (map (ftok_of (names_of ts)) ts) f.
Proof. unfold parse_formula_str. destruct (lexer cs) as [ts|]; [|discriminate].
  destruct (parse_formula _) as [g|] eqn:E; [|discriminate]. intros H. inversion H; subst. exists ts. split; auto. apply parse_iff. exact E. Qed.
