From InfOCF Require Import Core.
(* C09: every preferential inference relation over a finite world list satisfies System P;
   ranked ones also satisfy rational monotony. *)
Lemma filter_length_lt' {A} (p q:A->bool) l a : (forall x, q x = true -> p x = true) ->
  In a l -> p a = true -> q a = false -> length (filter q l) < length (filter p l).
Proof. intros Himp. induction l as [|y l IH]; [intros []|]. intros [<-|Hin] Hp Hq; simpl.
  - rewrite Hp, Hq. simpl. clear IH. induction l as [|z l IHl]; simpl; [lia|].
    destruct (q z) eqn:Eq; [rewrite (Himp _ Eq); simpl; lia|destruct (p z); simpl; lia].
  - specialize (IH Hin Hp Hq). destruct (q y) eqn:Eq; [rewrite (Himp _ Eq); simpl; lia|destruct (p y); simpl; lia]. Qed.

Section Pref.
Variable world : Type.
Variable W : list world.
Variable lt : world -> world -> bool.
Hypothesis lt_irrefl : forall w, lt w w = false.
Hypothesis lt_trans : forall a b c, lt a b = true -> lt b c = true -> lt a c = true.
Notation pred := (pred world).
Definition infer (A B:pred) : Prop :=
  forall w', In w' W -> A w' = true -> B w' = false -> exists w, In w W /\ A w = true /\ B w = true /\ lt w w' = true.
Definition pand (A B:pred) : pred := fun w => A w && B w.
Definition por (A B:pred) : pred := fun w => A w || B w.
Definition pnot (A:pred) : pred := fun w => negb (A w).
Definition equivW (A B:pred) := forall w, In w W -> A w = B w.
Definition entailsW (A B:pred) := forall w, In w W -> A w = true -> B w = true.

(* every A-world has a <-minimal A-world at or below it *)
Definition below x := length (filter (fun u => lt u x) W).
Lemma min_below (A:pred) : forall w', In w' W -> A w' = true ->
  exists m, In m W /\ A m = true /\ (m = w' \/ lt m w' = true) /\ forall u, In u W -> A u = true -> lt u m = false.
Proof. intros w'. remember (below w') as n eqn:En. assert (Hn: below w' <= n) by lia. clear En. revert w' Hn.
  induction n as [|n IH]; intros w' Hn Hw' HA.
  - exists w'. repeat split; auto. intros u Hu _. destruct (lt u w') eqn:E; auto. exfalso.
    unfold below in Hn. assert (In u (filter (fun u => lt u w') W)) by (apply filter_In; auto).
    destruct (filter (fun u => lt u w') W); [inversion H|simpl in Hn; lia].
  - destruct (existsb (fun u => A u && lt u w') W) eqn:E.
    + apply existsb_exists in E as [u [Hu Hc]]. apply andb_true_iff in Hc as [HAu Hlt].
      assert (below u < below w').
      { unfold below. apply filter_length_lt' with (a:=u); auto. intros x Hx. eapply lt_trans; eauto. }
      destruct (IH u) as [m [Hm [HAm [Hrel Hmin]]]]; [lia|auto|auto|].
      exists m. repeat split; auto. right. destruct Hrel as [->|Hrel]; auto. eapply lt_trans; eauto.
    + exists w'. repeat split; auto. intros u Hu HAu. destruct (lt u w') eqn:E'; auto.
      assert (existsb (fun u => A u && lt u w') W = true); [|congruence]. apply existsb_exists. exists u. split; auto. rewrite HAu, E'. reflexivity.
Qed.

Theorem REF A : infer A A.
Proof. intros w' _ H1 H2. congruence. Qed.
Theorem LLE A A' B : equivW A A' -> infer A B -> infer A' B.
Proof. intros He H w' Hw' H1 H2. rewrite <- He in H1 by auto. destruct (H w' Hw' H1 H2) as [w [Hw [? [? ?]]]].
  exists w. repeat split; auto. rewrite <- He; auto. Qed.
Theorem RW A B C : entailsW B C -> infer A B -> infer A C.
Proof. intros He H w' Hw' H1 H2. assert (B w' = false). { destruct (B w') eqn:E; auto. rewrite (He w' Hw' E) in H2. discriminate. }
  destruct (H w' Hw' H1 H0) as [w [Hw [? [? ?]]]]. exists w. repeat split; auto. Qed.
Theorem SCL A B : entailsW A B -> infer A B.
Proof. intros He w' Hw' H1 H2. rewrite (He w' Hw' H1) in H2. discriminate. Qed.

(* a minimal A-world satisfies every B with A |~ B *)
Lemma min_sat A B m : infer A B -> In m W -> A m = true -> (forall u, In u W -> A u = true -> lt u m = false) -> B m = true.
Proof. intros H Hm HA Hmin. destruct (B m) eqn:E; auto. destruct (H m Hm HA E) as [w [Hw [HAw [_ Hlt]]]].
  rewrite (Hmin w Hw HAw) in Hlt. discriminate. Qed.

Theorem AND A B C : infer A B -> infer A C -> infer A (pand B C).
Proof. intros HB HC w' Hw' H1 H2. destruct (min_below A w' Hw' H1) as [m [Hm [HAm [Hrel Hmin]]]].
  pose proof (min_sat A B m HB Hm HAm Hmin) as HBm. pose proof (min_sat A C m HC Hm HAm Hmin) as HCm.
  destruct Hrel as [->|Hrel]; [unfold pand in H2; rewrite HBm, HCm in H2; discriminate|].
  exists m. repeat split; auto. unfold pand. rewrite HBm, HCm. reflexivity. Qed.
Theorem OR A B C : infer A C -> infer B C -> infer (por A B) C.
Proof. intros HA HB w' Hw' H1 H2. unfold por in H1. apply orb_true_iff in H1 as [H1|H1].
  - destruct (HA w' Hw' H1 H2) as [w [Hw [? [? ?]]]]. exists w. repeat split; auto. unfold por. rewrite H. reflexivity.
  - destruct (HB w' Hw' H1 H2) as [w [Hw [? [? ?]]]]. exists w. repeat split; auto. unfold por. rewrite H. apply orb_true_r. Qed.
Theorem CM A B C : infer A B -> infer A C -> infer (pand A B) C.
Proof. intros HB HC w' Hw' H1 H2. unfold pand in H1. apply andb_true_iff in H1 as [H1 H1'].
  destruct (min_below A w' Hw' H1) as [m [Hm [HAm [Hrel Hmin]]]].
  pose proof (min_sat A B m HB Hm HAm Hmin) as HBm. pose proof (min_sat A C m HC Hm HAm Hmin) as HCm.
  destruct Hrel as [->|Hrel]; [congruence|]. exists m. repeat split; auto. unfold pand. rewrite HAm, HBm. reflexivity. Qed.
Theorem CUT A B C : infer A B -> infer (pand A B) C -> infer A C.
Proof. intros HB HC w' Hw' H1 H2. destruct (min_below A w' Hw' H1) as [m [Hm [HAm [Hrel Hmin]]]].
  pose proof (min_sat A B m HB Hm HAm Hmin) as HBm.
  assert (HCm: C m = true).
  { destruct (C m) eqn:E; auto. destruct (HC m Hm) as [w [Hw [HABw [_ Hlt]]]]; auto.
    - unfold pand. rewrite HAm, HBm. reflexivity.
    - unfold pand in HABw. apply andb_true_iff in HABw as [HAw _]. rewrite (Hmin w Hw HAw) in Hlt. discriminate. }
  destruct Hrel as [->|Hrel]; [congruence|]. exists m. repeat split; auto. Qed.
Theorem BOTTOM A : infer A (fun _ => false) -> forall w, In w W -> A w = false.
Proof. intros H w Hw. destruct (A w) eqn:E; auto. destruct (H w Hw E eq_refl) as [u [_ [_ [Hf _]]]]. discriminate. Qed.
End Pref.

Section Ranked.
Variable world : Type.
Variable W : list world.
Variable r : world -> nat.
Definition rlt (a b:world) : bool := r a <? r b.
Notation inferR := (infer world W rlt).
(* rational monotony for ranked relations *)
Theorem RM A B C : inferR A C -> ~ inferR A (pnot world B) -> inferR (pand world A B) C.
Proof. intros HC HnB w' Hw' H1 H2. unfold pand in H1. apply andb_true_iff in H1 as [H1 H1'].
  (* minimal A-world *)
  destruct (min_below world W rlt) with (A:=A) (w':=w') as [m [Hm [HAm [Hrel Hmin]]]]; auto.
  { intros w. unfold rlt. apply Nat.ltb_irrefl. }
  { intros a b c. unfold rlt. rewrite !Nat.ltb_lt. lia. }
  (* some A&B world of minimal A-rank exists, otherwise A |~ not B *)
  assert (Hex: exists u, In u W /\ A u = true /\ B u = true /\ r u <= r m).
  { destruct (existsb (fun u => A u && B u && (r u <=? r m)) W) eqn:E.
    - apply existsb_exists in E as [u [Hu Hc]]. apply andb_true_iff in Hc as [Hc Hle]. apply andb_true_iff in Hc as [? ?].
      apply Nat.leb_le in Hle. eauto.
    - exfalso. apply HnB. intros v Hv HAv HnBv. unfold pnot in HnBv. apply negb_false_iff in HnBv.
      exists m. repeat split; auto.
      + unfold pnot. destruct (B m) eqn:EB; auto. exfalso.
        assert (existsb (fun u => A u && B u && (r u <=? r m)) W = true); [|congruence].
        apply existsb_exists. exists m. split; auto. rewrite HAm, EB. simpl. apply Nat.leb_le. lia.
      + unfold rlt. apply Nat.ltb_lt. destruct (Nat.lt_ge_cases (r m) (r v)); auto. exfalso.
        assert (existsb (fun u => A u && B u && (r u <=? r m)) W = true); [|congruence].
        apply existsb_exists. exists v. split; auto. rewrite HAv, HnBv. simpl. apply Nat.leb_le. lia. }
  destruct Hex as [u [Hu [HAu [HBu Hle]]]].
  assert (HCu: C u = true).
  { destruct (C u) eqn:E; auto. destruct (HC u Hu HAu E) as [x [Hx [HAx [_ Hlt]]]].
    pose proof (Hmin x Hx HAx) as Hm'. unfold rlt in *. apply Nat.ltb_lt in Hlt. apply Nat.ltb_ge in Hm'. lia. }
  exists u. repeat split; auto.
  - unfold pand. rewrite HAu, HBu. reflexivity.
  - destruct (HC w' Hw' H1 H2) as [x [Hx [HAx [_ Hlt]]]]. pose proof (Hmin x Hx HAx) as Hm'.
    unfold rlt in *. apply Nat.ltb_lt in Hlt. apply Nat.ltb_ge in Hm'. apply Nat.ltb_lt. lia.
Qed.
End Ranked.
Print Assumptions AND. Print Assumptions CUT. Print Assumptions RM.
