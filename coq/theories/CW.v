From InfOCF Require Import Core Tol CInf SysW.
(* C08: c-inference is included in System W.  Contrapositive: from an A¬B world w' that no AB world
   dominates w.r.t. <_w, build impacts (powers of B = 1 + number of conditionals; two tiers per layer)
   that form a c-representation in which no AB world is strictly more plausible than w'. *)
Section CW.
Variable world : Type.
Variable W : list world.
Notation acond := (acond world).
Definition Fl (L:list acond) (w:world) : bv := map (fun c => cfal world c w) L.

Variable N : nat.                       (* any bound on the number of conditionals *)
Definition B := S N.
Variable w' : world.
Definition imp (j:nat) (c:acond) : nat := if cfal world c w' then B^(2*j) else B^(2*j+1).
(* ls is the partition listed from the TOP layer down; the layer with r layers below it has level r *)
Fixpoint etas (ls:list (list acond)) : list (list nat) :=
  match ls with [] => [] | L::rest => map (imp (length rest)) L :: etas rest end.
Fixpoint kap (ls:list (list acond)) (es:list (list nat)) (w:world) : nat :=
  match ls, es with L::rest, e::es' => sumsel (Fl L w) e + kap rest es' w | _,_ => 0 end.

Lemma B_pos : 1 <= B. Proof. unfold B; lia. Qed.
Lemma pow_pos k : 1 <= B^k.
Proof. induction k; simpl; [lia|]. pose proof B_pos. nia. Qed.
Lemma pow_mono a b : a <= b -> B^a <= B^b.
Proof. intros H. apply Nat.pow_le_mono_r; [unfold B; lia|exact H]. Qed.
Lemma imp_le j c : imp j c <= B^(2*j+1).
Proof. unfold imp. destruct (cfal world c w'); [apply pow_mono; lia|lia]. Qed.
Lemma imp_ge j c : B^(2*j) <= imp j c.
Proof. unfold imp. destruct (cfal world c w'); [lia|apply pow_mono; lia]. Qed.

Lemma sumsel_le v e M : (forall x, In x e -> x <= M) -> sumsel v e <= length e * M.
Proof. revert e; induction v as [|b v IH]; intros [|x e] H; simpl; try lia.
  assert (x <= M) by (apply H; now left). assert (sumsel v e <= length e * M) by (apply IH; intros; apply H; now right).
  destruct b; lia. Qed.
Lemma sumsel_ge_nth v e i : nth i v false = true -> nth i e 0 <= sumsel v e.
Proof. revert e i; induction v as [|b v IH]; intros [|x e] [|i] H; simpl in *; try discriminate; try lia.
  - subst b. lia. - specialize (IH e i H). lia. Qed.
Lemma sumsel_zero v e : cnt v = 0 -> sumsel v e = 0.
Proof. revert e; induction v as [|b v IH]; intros [|x e] H; simpl in *; auto. destruct b; [lia|]. simpl. apply IH. lia. Qed.

(* everything below level r weighs less than B^(2r) (stated multiplied by B to avoid subtraction) *)
Lemma kap_bound rest w : kap rest (etas rest) w * B <= length (concat rest) * B^(2 * length rest).
Proof. induction rest as [|L r IH]; [simpl; lia|]. cbn [kap etas concat].
  assert (H1: sumsel (Fl L w) (map (imp (length r)) L) <= length L * B^(2*length r + 1)).
  { pose proof (sumsel_le (Fl L w) (map (imp (length r)) L) (B^(2*length r + 1))) as Hs. rewrite map_length in Hs.
    apply Hs. intros x Hx. apply in_map_iff in Hx as [c [<- _]]. apply imp_le. }
  rewrite app_length.
  assert (E1: B^(2*length r + 1) * B = B^(2 * S (length r))).
  { replace (2 * S (length r)) with (S (2*length r + 1)) by lia. rewrite Nat.pow_succ_r'. apply Nat.mul_comm. }
  assert (E2: B^(2*length r) <= B^(2 * S (length r))) by (apply pow_mono; lia).
  change (length (L :: r)) with (S (length r)).
  remember (sumsel (Fl L w) (map (imp (length r)) L)) as S1. remember (kap r (etas r) w) as K.
  remember (B^(2*length r + 1)) as P1. remember (B^(2 * S (length r))) as P2. remember (B^(2*length r)) as P0.
  remember (length L) as nL. remember (length (concat r)) as nR.
  assert (HA: S1 * B <= nL * P2).
  { rewrite <- E1. rewrite Nat.mul_assoc. apply Nat.mul_le_mono_r. exact H1. }
  assert (HB: nR * P0 <= nR * P2) by (apply Nat.mul_le_mono_l; exact E2).
  rewrite Nat.mul_add_distr_r, Nat.mul_add_distr_r. lia. Qed.

Lemma sub_false_witness a b : length a = length b -> sub a b = false ->
  exists i, nth i a false = true /\ nth i b false = false.
Proof. revert b; induction a as [|x a IH]; destruct b as [|y b]; simpl; try discriminate.
  intros Hl H. injection Hl as Hl. destruct x, y; simpl in H.
  - destruct (IH b Hl H) as [i [? ?]]. exists (S i); auto.
  - exists 0; auto.
  - destruct (IH b Hl H) as [i [? ?]]. exists (S i); auto.
  - destruct (IH b Hl H) as [i [? ?]]. exists (S i); auto. Qed.

(* the conditionals falsified by w' all carry the small impact of their layer *)
Lemma sumsel_small L r : sumsel (Fl L w') (map (imp r) L) <= length L * B^(2*r).
Proof. induction L as [|c L IH]; [simpl; lia|]. cbn [Fl map sumsel length]. fold (Fl L w').
  rewrite Nat.mul_succ_l. unfold imp at 1. destruct (cfal world c w'); lia. Qed.

Notation wless := (wless world).
Lemma nodom_weight : forall ls w, length (concat ls) <= N -> wless (map Fl ls) w w' = false ->
  kap ls (etas ls) w' <= kap ls (etas ls) w.
Proof. induction ls as [|L rest IH]; intros w HN Hw; [simpl; lia|]. cbn [kap etas map SysW.wless] in *.
  assert (HNr: length (concat rest) <= N) by (simpl in HN; rewrite app_length in HN; lia).
  destruct (beq (Fl L w) (Fl L w')) eqn:Eb.
  - apply beq_eq in Eb. rewrite Eb. specialize (IH w HNr Hw). lia.
  - destruct (sub_false_witness (Fl L w) (Fl L w')) as [i [Hi Hi']]; [unfold Fl; rewrite !map_length; auto|exact Hw|].
    (* position i: falsified by w, not by w' -> big impact *)
    assert (Hlen: i < length L).
    { destruct (Nat.lt_ge_cases i (length L)); auto. unfold Fl in Hi. rewrite nth_overflow in Hi by (rewrite map_length; lia). discriminate. }
    set (d0 := Build_acond world 0 (fun _ => false) (fun _ => false)).
    assert (Hbig: nth i (map (imp (length rest)) L) 0 = B^(2*length rest + 1)).
    { rewrite (nth_indep _ 0 (imp (length rest) d0)) by (rewrite map_length; auto). rewrite map_nth. unfold imp.
      unfold Fl in Hi'. rewrite (nth_indep _ false (cfal world d0 w')) in Hi' by (rewrite map_length; auto).
      rewrite (map_nth (fun c => cfal world c w')) in Hi'. rewrite Hi'. reflexivity. }
    pose proof (sumsel_ge_nth (Fl L w) (map (imp (length rest)) L) i Hi) as Hge. rewrite Hbig in Hge.
    pose proof (sumsel_small L (length rest)) as Hs. pose proof (kap_bound rest w') as Hk.
    simpl in HN. rewrite app_length in HN.
    assert (E: B^(2*length rest + 1) = B * B^(2*length rest)).
    { replace (2*length rest + 1) with (S (2*length rest)) by lia. apply Nat.pow_succ_r'. }
    pose proof (pow_pos (2*length rest)) as Hp.
    remember (B^(2*length rest)) as P0. remember (kap rest (etas rest) w') as K'.
    remember (sumsel (Fl L w') (map (imp (length rest)) L)) as S'. remember (length L) as nL. remember (length (concat rest)) as nR.
    assert (K' <= nR * P0). { assert (K' <= K' * B) by (unfold B; nia). lia. }
    assert (S' + K' <= (nL + nR) * P0) by nia.
    assert ((nL + nR) * P0 <= B * P0) by (unfold B; nia).
    lia.
Qed.

(* adding layers on top only adds weight; a world that falsifies nothing on top gets none from there *)
Lemma kap_app_ge above l w : kap l (etas l) w <= kap (above ++ l) (etas (above ++ l)) w.
Proof. induction above as [|a above IH]; [simpl; lia|]. cbn [app kap etas]. lia. Qed.
Lemma kap_app_eq above l w : (forall d, In d (concat above) -> cfal world d w = false) ->
  kap (above ++ l) (etas (above ++ l)) w = kap l (etas l) w.
Proof. induction above as [|a above IH]; intros H; [reflexivity|]. cbn [app kap etas].
  rewrite IH by (intros d Hd; apply H; simpl; apply in_or_app; auto).
  rewrite sumsel_zero; [lia|]. unfold Fl. assert (Ha: forall d, In d a -> cfal world d w = false) by (intros d Hd; apply H; simpl; apply in_or_app; auto).
  clear -Ha. induction a as [|d a IHa]; simpl; auto. rewrite (Ha d (or_introl eq_refl)). simpl. apply IHa. intros; apply Ha; now right. Qed.

(* (1) the constructed impacts accept every conditional that is tolerated by its own layer and the layers above *)
Lemma built_accepts above L rest i w0 w : length (concat (above ++ L :: rest)) <= N -> i < length L ->
  (forall d, In d (concat above ++ L) -> cfal world d w0 = false) ->
  nth i (Fl L w) false = true ->
  kap (above ++ L :: rest) (etas (above ++ L :: rest)) w0 < kap (above ++ L :: rest) (etas (above ++ L :: rest)) w.
Proof. intros HN Hi H0 Hf.
  rewrite (kap_app_eq above (L::rest) w0) by (intros d Hd; apply H0, in_or_app; auto).
  pose proof (kap_app_ge above (L::rest) w) as Hge. cbn [kap etas] in *.
  rewrite (sumsel_zero (Fl L w0)).
  2:{ unfold Fl. assert (Ha: forall d, In d L -> cfal world d w0 = false) by (intros d Hd; apply H0, in_or_app; auto).
      clear -Ha. induction L as [|d L IHL]; simpl; auto. rewrite (Ha d (or_introl eq_refl)). simpl. apply IHL. intros; apply Ha; now right. }
  pose proof (sumsel_ge_nth (Fl L w) (map (imp (length rest)) L) i Hf) as Hs.
  set (d0 := Build_acond world 0 (fun _ => false) (fun _ => false)).
  assert (Himp: B^(2*length rest) <= nth i (map (imp (length rest)) L) 0).
  { rewrite (nth_indep _ 0 (imp (length rest) d0)) by (rewrite map_length; auto). rewrite map_nth. apply imp_ge. }
  pose proof (kap_bound rest w0) as Hk. pose proof (pow_pos (2*length rest)) as Hp.
  rewrite concat_app, app_length in HN. simpl in HN. rewrite app_length in HN.
  remember (B^(2*length rest)) as P0. remember (kap rest (etas rest) w0) as K0. remember (length (concat rest)) as nR.
  assert (K0 < P0). { assert (K0 * B < B * P0) by (unfold B in *; nia). unfold B in *; nia. }
  lia.
Qed.

(* (3) the counter-representation *)
Variable ls : list (list acond).
Hypothesis HN : length (concat ls) <= N.
Variable ver_q fal_q : pred world.
Hypothesis w'_fal : In w' W /\ fal_q w' = true.
Hypothesis undominated : forall w, In w W -> ver_q w = true -> wless (map Fl ls) w w' = false.
Definition kappa := kap ls (etas ls).
Theorem counter_rep_rejects :
  ~ (exists w, In w W /\ ver_q w = true /\ forall w'', In w'' W -> fal_q w'' = true -> kappa w < kappa w'').
Proof. intros [w [Hw [Hv Hall]]]. destruct w'_fal as [Hw' Hf']. specialize (Hall w' Hw' Hf').
  pose proof (nodom_weight ls w HN (undominated w Hw Hv)). unfold kappa in *. lia. Qed.
Theorem counter_rep_accepts above L rest i : ls = above ++ L :: rest -> i < length L ->
  (exists w0, In w0 W /\ cver world (nth i L (Build_acond world 0 (fun _ => false) (fun _ => false))) w0 = true
              /\ forall d, In d (concat above ++ L) -> cfal world d w0 = false) ->
  exists w0, In w0 W /\ cver world (nth i L (Build_acond world 0 (fun _ => false) (fun _ => false))) w0 = true /\
    forall w, In w W -> cfal world (nth i L (Build_acond world 0 (fun _ => false) (fun _ => false))) w = true -> kappa w0 < kappa w.
Proof. intros E Hi [w0 [Hw0 [Hv H0]]]. exists w0. repeat split; auto. intros w Hw Hf. unfold kappa. rewrite E.
  apply built_accepts with (i:=i); auto; [rewrite <- E; exact HN|].
  unfold Fl. set (d0 := Build_acond world 0 (fun _ => false) (fun _ => false)) in *.
  rewrite (nth_indep _ false (cfal world d0 w)) by (rewrite map_length; auto).
  rewrite (map_nth (fun c => cfal world c w)). exact Hf. Qed.
End CW.
Print Assumptions counter_rep_rejects. Print Assumptions counter_rep_accepts.
