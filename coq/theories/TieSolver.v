From InfOCF Require Import Core Tol SysZ Form Model PyLib TieLib.
From InfOCFGen Require Import SrcCond.
From Coq Require Import ZArith.
(* Lemmas shared by the tie proofs: what an incremental solver holds after the assertion loops of the operators, and
   list facts about partitions.  Depends on the generated Conditional methods (gen/SrcCond.v) only. *)

Section TieSolver.
Variable n : nat.
Notation W := (worlds n).

Definition acP (Pc:list (list cond)) : list (list (acond world)) := map (map ac) Pc.

Lemma cnt0_nofals L w : (cnt (layer_of L w) =? 0) = nofals world L w.
Proof. destruct (nofals world L w) eqn:E.
  - apply Nat.eqb_eq. apply layer_of_cnt0. exact E.
  - apply Nat.eqb_neq. intros H. apply layer_of_cnt0 in H. congruence. Qed.

(* solver after `[solver.add_assertion(Not(c.make_A_then_not_B())) for c in part]` *)
Lemma layer_asserted part s w :
  s_holds (fold_left (fun v_solver v_c => s_add v_solver (FNot (py_make_A_then_not_B n v_c))) part s) w
  = nofals world (map ac part) w && s_holds s w.
Proof. revert s. induction part as [|c part IH]; intros s; [reflexivity|].
  cbn [fold_left]. rewrite IH, s_holds_add. cbn [map]. unfold nofals at 2. cbn [forallb].
  fold (nofals world (map ac part) w).
  assert (E: eval w (FNot (py_make_A_then_not_B n c)) = negb (cfal world (ac c) w)) by reflexivity.
  rewrite E. destruct (negb (cfal world (ac c) w)), (nofals world (map ac part) w); reflexivity. Qed.

Lemma firstn_S_nth {A} k (l:list A) d : k < length l -> firstn (S k) l = firstn k l ++ [nth k l d].
Proof. revert l. induction k as [|k IH]; intros [|a l] Hk; simpl in *; try lia; [reflexivity|].
  f_equal. apply IH. lia. Qed.

Lemma last_map {A B} (f:A->B) l d : last (map f l) (f d) = f (last l d).
Proof. induction l as [|a l IH]; [reflexivity|]. destruct l; [reflexivity|]. exact IH. Qed.
Lemma inf_layer_acP Pc : inf_layer (acP Pc) = map ac (last Pc []).
Proof. unfold inf_layer, acP. apply (last_map (map ac) Pc []). Qed.

(* solver after `for c in partition[-1]: s.add_assertion(c.make_not_A_or_B())` (with or without a push per conditional) *)
Lemma inf_asserted L s w :
  s_holds (fold_left (fun v_s v_c => let v_s := s_add v_s (py_make_not_A_or_B n v_c) in v_s) L s) w
  = feas (map ac L) w && s_holds s w.
Proof. revert s. induction L as [|c L IH]; intros s; [reflexivity|].
  cbn [fold_left]. cbv zeta in *. rewrite IH, s_holds_add. unfold feas. cbn [map]. unfold nofals at 2. cbn [forallb].
  fold (nofals world (map ac L) w).
  assert (E: eval w (py_make_not_A_or_B n c) = negb (cfal world (ac c) w)).
  { simpl. unfold fal. destruct (eval w (cante c)), (eval w (ccons c)); reflexivity. }
  rewrite E. destruct (negb (cfal world (ac c) w)), (nofals world (map ac L) w); reflexivity. Qed.
Lemma inf_asserted_push L s w :
  s_holds (fold_left (fun v_s v_c => let v_s := s_add v_s (py_make_not_A_or_B n v_c) in let v_s := s_push v_s in v_s) L s) w
  = feas (map ac L) w && s_holds s w.
Proof. revert s. induction L as [|c L IH]; intros s; [reflexivity|].
  cbn [fold_left]. cbv zeta in *. rewrite IH, s_holds_push, s_holds_add. unfold feas. cbn [map]. unfold nofals at 2. cbn [forallb].
  fold (nofals world (map ac L) w).
  assert (E: eval w (py_make_not_A_or_B n c) = negb (cfal world (ac c) w)).
  { simpl. unfold fal. destruct (eval w (cante c)), (eval w (ccons c)); reflexivity. }
  rewrite E. destruct (negb (cfal world (ac c) w)), (nofals world (map ac L) w); reflexivity. Qed.

End TieSolver.
