From InfOCF Require Import Core Tol CInf Form Model CModel ThmC PyLib PyInt TieLib TieSet TieSolver TieMax TieC.
From InfOCFGen Require Import SrcC.
From Coq Require Import ZArith.
(* TIE: the base constraint system of c-inference.  CInference.translate / encoding GENERATED from c_inference.py, run on
   dictionaries vMin / fMin that hold, per conditional, the key sets of the model's minimal correction patterns, return a
   constraint list that has a solution extending an impact vector eta exactly when the model's csp_b eta holds. *)

Lemma zdict_set_fresh {V} (d:dict Z V) k v : ~ In k (dict_keys d) -> zdict_set d k v = d ++ [(k, v)].
Proof. induction d as [|[k' v'] d IH]; intros H; [reflexivity|]. simpl.
  destruct (k' =? k)%Z eqn:E; [apply Z.eqb_eq in E; exfalso; apply H; left; exact E|].
  rewrite IH; [reflexivity|]. intros Hin. apply H. right. exact Hin. Qed.

Section Base.
Variable n : nat.
Notation W := (worlds n).
Variable D : list cond.
Hypothesis Hnd : NoDup (map kz D).
Variable eta : list nat.
Hypothesis Hlen : length eta = length D.
Notation aD := (map ac D).
Notation K := (keys_of_bv (map kz D)).
Notation d0 := (mk_cond FTop FTop).

Lemma makeSummation_map (d:dict Z (list (list Z))) : NoDup (dict_keys d) ->
  py_makeSummation n d = map (fun p => (fst p, map sum_term (snd p))) d.
Proof. intros Hn. unfold py_makeSummation. cbv zeta.
  assert (Ei: forall l acc, fold_left (fun v_interim v_subsum =>
      if negb (is_nil v_subsum) then v_interim ++ [IPlus (map (fun v_i => ISym (SEta v_i)) v_subsum)] else v_interim ++ [IInt 0]) l acc
      = acc ++ map sum_term l).
  { induction l as [|s l IH]; intros acc; [simpl; rewrite app_nil_r; reflexivity|]. cbn [fold_left map]. rewrite IH.
    unfold sum_term at 2. destruct (negb (is_nil s)); rewrite <- app_assoc; reflexivity. }
  assert (E: forall l acc, NoDup (dict_keys acc ++ dict_keys l) ->
    fold_left (fun v_results '(v_index, v_summ) => zdict_set v_results v_index
        (fold_left (fun v_interim v_subsum => if negb (is_nil v_subsum) then v_interim ++ [IPlus (map (fun v_i => ISym (SEta v_i)) v_subsum)] else v_interim ++ [IInt 0]) v_summ [])) l acc
    = acc ++ map (fun p => (fst p, map sum_term (snd p))) l).
  { induction l as [|[k ss] l IH]; intros acc Hnd'; [simpl; rewrite app_nil_r; reflexivity|].
    cbn [fold_left]. rewrite Ei. cbn [app].
    rewrite zdict_set_fresh.
    - rewrite IH; [cbn [map fst snd]; rewrite <- app_assoc; reflexivity|].
      unfold dict_keys in *. rewrite map_app. cbn [map fst]. rewrite <- app_assoc. exact Hnd'.
    - unfold dict_keys in *. cbn [map fst] in Hnd'. apply NoDup_remove_2 in Hnd'. intros Hin. apply Hnd'. apply in_or_app. left. exact Hin. }
  cbv beta iota zeta. rewrite (E d []); [reflexivity|exact Hn]. Qed.

Notation m := (length D).
Definition keyi (i:nat) : Z := kz (nth i D d0).
Lemma nth_kz k : nth k (map kz D) 0%Z = kz (nth k D d0).
Proof. apply (map_nth kz D d0 k). Qed.
Lemma keyi_inj i j : i < m -> j < m -> keyi i = keyi j -> i = j.
Proof. intros Hi Hj E. unfold keyi in E. pose proof (NoDup_nth (map kz D) 0%Z) as [H _]. specialize (H Hnd i j).
  rewrite map_length in H. apply H; auto. rewrite !nth_kz. exact E. Qed.
Lemma map_nth_seq {A} (l:list A) d : map (fun i => nth i l d) (seq 0 (length l)) = l.
Proof. induction l as [|a l IH]; [reflexivity|]. cbn [length seq map nth]. f_equal.
  rewrite <- seq_shift, map_map. exact IH. Qed.
Lemma D_as_seq : D = map (fun i => nth i D d0) (seq 0 m).
Proof. symmetry. apply map_nth_seq. Qed.
Lemma find_by_key {V} (g:nat -> V) l j : In j l -> (forall i, In i l -> i < m) -> NoDup l ->
  zdict_find (map (fun i => (keyi i, g i)) l) (keyi j) = Some (g j).
Proof. induction l as [|a l IH]; intros Hj Hb Hn; [inversion Hj|]. simpl. inversion Hn as [|? ? Hna Hn']; subst.
  destruct Hj as [->|Hj]; [rewrite Z.eqb_refl; reflexivity|].
  destruct (keyi a =? keyi j)%Z eqn:E; [|apply IH; auto; intros i Hi; apply Hb; right; exact Hi].
  apply Z.eqb_eq in E. apply keyi_inj in E; [subst; contradiction|apply Hb; left; reflexivity|apply Hb; right; exact Hj]. Qed.

Definition vM : dict Z (list (list Z)) := map (fun i => (keyi i, map K (vMin n D i))) (seq 0 m).
Definition fM : dict Z (list (list Z)) := map (fun i => (keyi i, map K (fMin n D i))) (seq 0 m).
Definition sumsV (i:nat) : list iterm := map sum_term (map K (vMin n D i)).
Definition sumsF (i:nat) : list iterm := map sum_term (map K (fMin n D i)).
Definition block (i:nat) : list icon :=
  if is_nil (sumsF i) then []
  else py_minima_encoding n (ISym (SMv (SIdx (keyi i)))) (sumsV i) ++ py_minima_encoding n (ISym (SMf (SIdx (keyi i)))) (sumsF i)
       ++ [IGT (ISym (SEta (keyi i))) (IMinus (ISym (SMv (SIdx (keyi i)))) (ISym (SMf (SIdx (keyi i)))))].

Lemma keys_vM : dict_keys vM = map keyi (seq 0 m).
Proof. unfold dict_keys, vM. rewrite map_map. reflexivity. Qed.
Lemma nodup_keyi : NoDup (map keyi (seq 0 m)).
Proof. assert (E: map keyi (seq 0 m) = map kz D) by (rewrite D_as_seq at 2; rewrite map_map; reflexivity). rewrite E. exact Hnd. Qed.

Lemma for_each_collect {A R L} (f:nat -> A) (blk:nat -> list icon) (body:A -> list icon -> ctl R (list icon) (list icon)) :
  forall l s, (forall i s', In i l -> body (f i) s' = Next (s' ++ blk i) \/ (blk i = [] /\ body (f i) s' = Continue s')) ->
  @for_each A R L (list icon) (map f l) body s = Next (s ++ concat (map blk l)).
Proof. induction l as [|i l IH]; intros s Hb; [simpl; rewrite app_nil_r; reflexivity|]. cbn [map for_each concat].
  destruct (Hb i s (or_introl eq_refl)) as [E|[E1 E2]].
  - rewrite E. rewrite IH by (intros j s' Hj; apply Hb; right; exact Hj). rewrite <- app_assoc. reflexivity.
  - rewrite E2, E1. cbn [app]. apply IH. intros j s' Hj. apply Hb. right. exact Hj. Qed.

(* translate(): the generated function returns the blocks of all conditionals followed by the non-negativity constraints *)
Theorem translate_shape : py_CInference_translate n (bb_of D) vM fM
  = Return (concat (map block (seq 0 m)) ++ map (fun c => IGE (ISym (SEta (kz c))) (IInt 0)) D).
Proof. unfold py_CInference_translate. cbv zeta. cbn [bb_conditionals bb_of].
  assert (Ekeys: dict_keys (map (fun c => (kz c, c)) D) = map kz D) by (unfold dict_keys; rewrite map_map; reflexivity).
  rewrite Ekeys.
  rewrite (makeSummation_map vM) by (rewrite keys_vM; exact nodup_keyi).
  rewrite (makeSummation_map fM) by (unfold dict_keys, fM; rewrite map_map; exact nodup_keyi).
  unfold py_CInference_encoding. cbv zeta.
  assert (Eetas: map (fun v_i => (v_i, ISym (SEta v_i))) (map kz D) = map (fun i => (keyi i, ISym (SEta (keyi i)))) (seq 0 m)).
  { rewrite D_as_seq at 1. rewrite !map_map. reflexivity. }
  rewrite Eetas.
  set (vS := map (fun p => (fst p, map sum_term (snd p))) vM). set (fS := map (fun p => (fst p, map sum_term (snd p))) fM).
  assert (EvS: forall i, i < m -> zdict_find vS (keyi i) = Some (sumsV i)).
  { intros i Hi. unfold vS, vM. rewrite map_map. cbn [fst snd]. apply (find_by_key (fun i => map sum_term (map K (vMin n D i)))).
    - apply in_seq. lia. - intros j Hj. apply in_seq in Hj. lia. - apply seq_NoDup. }
  assert (EfS: forall i, i < m -> zdict_find fS (keyi i) = Some (sumsF i)).
  { intros i Hi. unfold fS, fM. rewrite map_map. cbn [fst snd]. apply (find_by_key (fun i => map sum_term (map K (fMin n D i)))).
    - apply in_seq. lia. - intros j Hj. apply in_seq in Hj. lia. - apply seq_NoDup. }
  rewrite (for_each_collect (fun i => (keyi i, ISym (SEta (keyi i)))) block).
  2:{ intros i s' Hi. apply in_seq in Hi. cbv beta iota zeta.
      assert (Gf: forall R0 L0, @zdict_get (list iterm) R0 L0 fS (keyi i) = Next (sumsF i)) by (intros; unfold zdict_get; rewrite (EfS i) by lia; reflexivity).
      assert (Gv: forall R0 L0, @zdict_get (list iterm) R0 L0 vS (keyi i) = Next (sumsV i)) by (intros; unfold zdict_get; rewrite (EvS i) by lia; reflexivity).
      rewrite !Gf. cbn [cbind].
      unfold block. destruct (is_nil (sumsF i)) eqn:En; cbn [negb cbind].
      - right. split; reflexivity.
      - left. cbn [py_freshVars]. cbv beta iota zeta. rewrite ?Gv. cbn [cbind].
        rewrite <- !app_assoc. reflexivity. }
  cbn [cbind call app]. f_equal. f_equal. unfold dict_values. rewrite !map_map. rewrite D_as_seq at 2. rewrite map_map. reflexivity.
Qed.

(* ---- semantics of the generated base CSP ---- *)
Lemma mask_length i (v:bv) : length (mask i v) = length v.
Proof. revert i. induction v as [|b v IH]; intros [|i]; simpl; auto. Qed.
Lemma vMin_len i x : In x (vMin n D i) -> length x = m.
Proof. intros Hx. unfold vMin in Hx. apply minimal_in in Hx as [Hx _]. unfold vfam in Hx. apply fam_in in Hx as [w [_ [_ [_ <-]]]].
  rewrite mask_length. unfold F. rewrite !map_length. reflexivity. Qed.
Lemma fMin_len i x : In x (fMin n D i) -> length x = m.
Proof. intros Hx. unfold fMin in Hx. apply minimal_in in Hx as [Hx _]. unfold ffam in Hx. apply fam_in in Hx as [w [_ [_ [_ <-]]]].
  rewrite mask_length. unfold F. rewrite !map_length. reflexivity. Qed.
Lemma csp_sat_app sg a b : csp_sat sg (a ++ b) = csp_sat sg a && csp_sat sg b.
Proof. unfold csp_sat. apply forallb_app. Qed.
Lemma csp_sat_concat sg (blk:nat -> list icon) l : csp_sat sg (concat (map blk l)) = forallb (fun i => csp_sat sg (blk i)) l.
Proof. induction l as [|i l IH]; [reflexivity|]. cbn [map concat forallb]. rewrite csp_sat_app, IH. reflexivity. Qed.

(* one block against the model's constraint for conditional i *)
Lemma block_sat sg i : i < m -> eta_assignment D eta sg -> vMin n D i <> [] ->
  (csp_sat sg (block i) = true <->
   constraint_i world W aD eta i = true /\
   (fMin n D i <> [] -> (exists mv, minl (map (fun v => sumsel v eta) (vMin n D i)) = Some mv /\ sg (SMv (SIdx (keyi i))) = Z.of_nat mv) /\
                        (exists mf, minl (map (fun v => sumsel v eta) (fMin n D i)) = Some mf /\ sg (SMf (SIdx (keyi i))) = Z.of_nat mf))).
Proof. intros Hi Hsg Hv. unfold block, constraint_i. fold (vMin n D i). fold (fMin n D i).
  assert (Hvm: exists mv, minl (map (fun v => sumsel v eta) (vMin n D i)) = Some mv).
  { destruct (minl (map (fun v => sumsel v eta) (vMin n D i))) eqn:E; [eauto|]. apply minl_none in E. apply map_eq_nil in E. contradiction. }
  destruct Hvm as [mv Emv]. rewrite Emv.
  destruct (fMin n D i) as [|xf Xf] eqn:EF.
  - cbn [sumsF map is_nil minl]. unfold sumsF. rewrite EF. cbn [map is_nil]. split; [intros _; split; [reflexivity|intros H; congruence]|reflexivity].
  - rewrite <- EF in *. assert (Enn: is_nil (sumsF i) = false) by (unfold sumsF; rewrite EF; reflexivity). rewrite Enn.
    rewrite !csp_sat_app. unfold sumsV, sumsF.
    assert (Hsgi: sg (SEta (keyi i)) = Z.of_nat (nth i eta 0)) by (apply Hsg; exact Hi).
    rewrite !andb_true_iff.
    rewrite (minima_family n D eta Hlen sg _ (vMin n D i) Hsg (vMin_len i)).
    rewrite (minima_family n D eta Hlen sg _ (fMin n D i) Hsg (fMin_len i)).
    unfold csp_sat. cbn [forallb ceval ieval]. rewrite andb_true_r, Z.ltb_lt, Hsgi.
    destruct (minl (map (fun v => sumsel v eta) (fMin n D i))) as [mf|] eqn:Emf.
    2:{ apply minl_none in Emf. apply map_eq_nil in Emf. rewrite EF in Emf. discriminate. }
    split.
    + intros [[mv' [E1 E1']] [[mf' [E2 E2']] Hlt]]. rewrite ?Emv in E1. injection E1 as <-. injection E2 as <-. cbn [ieval] in E1', E2'.
      split; [apply Nat.ltb_lt; lia|]. intros _. split; [exists mv; auto|exists mf; auto].
    + intros [Hc Haux]. destruct (Haux ltac:(rewrite EF; discriminate)) as [[mv' [E1 E1']] [mf' [E2 E2']]].
      rewrite ?Emv in E1. injection E1 as <-. injection E2 as <-. apply Nat.ltb_lt in Hc.
      split; [exists mv; split; [exact Emv|exact E1']|]. split; [exists mf; split; [reflexivity|exact E2']|]. lia.
Qed.

(* the auxiliary minimum variables, by the key of their conditional *)
Definition pos (k:Z) : option nat := find (fun i => (keyi i =? k)%Z) (seq 0 m).
Lemma pos_keyi i : i < m -> pos (keyi i) = Some i.
Proof. intros Hi. unfold pos. destruct (find (fun j => (keyi j =? keyi i)%Z) (seq 0 m)) as [j|] eqn:E.
  - apply find_some in E as [Hj Ej]. apply in_seq in Hj. apply Z.eqb_eq in Ej. f_equal. apply keyi_inj; auto; lia.
  - exfalso. assert (Hin: In i (seq 0 m)) by (apply in_seq; lia). apply (find_none _ _ E) in Hin. rewrite Z.eqb_refl in Hin. discriminate. Qed.
Definition aux (fam_ : nat -> list bv) (k:Z) : Z :=
  match pos k with Some i => match minl (map (fun v => sumsel v eta) (fam_ i)) with Some x => Z.of_nat x | None => 0%Z end | None => 0%Z end.
Definition with_mins (sg:sym -> Z) : sym -> Z :=
  fun s => match s with SMv (SIdx k) => aux (vMin n D) k | SMf (SIdx k) => aux (fMin n D) k | _ => sg s end.

Definition base_csp : list icon := concat (map block (seq 0 m)) ++ map (fun c => IGE (ISym (SEta (kz c))) (IInt 0)) D.
Lemma base_nonneg sg : csp_sat sg base_csp = true -> forall c, In c D -> (0 <= sg (SEta (kz c)))%Z.
Proof. unfold base_csp. rewrite csp_sat_app. intros H c Hc. apply andb_true_iff in H as [_ H]. unfold csp_sat in H.
  rewrite forallb_map in H. eapply forallb_forall in H; [|exact Hc]. cbn [ceval ieval] in H. apply Z.leb_le in H. exact H. Qed.
(* the witness of solvability: any assignment of the impacts, with the auxiliary variables set to the minima *)
Lemma base_with_mins : (forall i, i < m -> vMin n D i <> []) -> csp_b n D eta = true ->
  forall sg, eta_assignment D eta sg -> csp_sat (with_mins sg) base_csp = true.
Proof. intros Hver Hc sg Hsg. unfold base_csp.
  assert (Hsg': eta_assignment D eta (with_mins sg)) by (intros i Hi; apply Hsg; exact Hi).
  assert (Hge: csp_sat (with_mins sg) (map (fun c => IGE (ISym (SEta (kz c))) (IInt 0)) D) = true).
  { unfold csp_sat. rewrite forallb_map. apply forallb_forall. intros c Hcin.
    apply (In_nth _ _ d0) in Hcin as [i [Hi <-]]. cbn [ceval ieval]. rewrite (Hsg' i Hi). apply Z.leb_le. lia. }
  rewrite csp_sat_app, csp_sat_concat, Hge, andb_true_r. unfold csp_b in Hc.
  apply forallb_forall. intros i Hi. eapply forallb_forall in Hc; [|exact Hi]. apply in_seq in Hi.
  apply (block_sat (with_mins sg) i ltac:(lia) Hsg' (Hver i ltac:(lia))). split; [exact Hc|].
  intros Hf. cbn [with_mins]. unfold aux. rewrite (pos_keyi i) by lia.
  split.
  - destruct (minl (map (fun v => sumsel v eta) (vMin n D i))) as [x|] eqn:E; [exists x; auto|].
    apply minl_none in E. apply map_eq_nil in E. exfalso. apply (Hver i); [lia|exact E].
  - destruct (minl (map (fun v => sumsel v eta) (fMin n D i))) as [x|] eqn:E; [exists x; auto|].
    apply minl_none in E. apply map_eq_nil in E. contradiction. Qed.
Lemma base_sat_csp_b : (forall i, i < m -> vMin n D i <> []) -> forall sg, eta_assignment D eta sg -> csp_sat sg base_csp = true -> csp_b n D eta = true.
Proof. intros Hver sg Hsg Hsat. unfold base_csp in Hsat. rewrite csp_sat_app, csp_sat_concat in Hsat. apply andb_true_iff in Hsat as [Hsat _].
  unfold csp_b. apply forallb_forall. intros i Hi. eapply forallb_forall in Hsat; [|exact Hi]. apply in_seq in Hi.
  apply (block_sat sg i ltac:(lia) Hsg (Hver i ltac:(lia))) in Hsat. tauto. Qed.

(* translate(): for impacts eta the generated base CSP has a solution (in the auxiliary minimum variables) exactly when the
   model's csp_b holds - on a base each of whose conditionals is verifiable, as on every consistent base *)
Theorem tie_base_csp : (forall i, i < m -> vMin n D i <> []) -> exists csp,
  py_CInference_translate n (bb_of D) vM fM = Return csp /\
  forall sg, eta_assignment D eta sg ->
    ((exists sg', (forall k, sg' (SEta k) = sg (SEta k)) /\ csp_sat sg' csp = true) <-> csp_b n D eta = true).
Proof. intros Hver. eexists. split; [apply translate_shape|]. intros sg Hsg.
  assert (Hge: forall sg', eta_assignment D eta sg' -> csp_sat sg' (map (fun c => IGE (ISym (SEta (kz c))) (IInt 0)) D) = true).
  { intros sg' Hsg'. unfold csp_sat. rewrite forallb_map. apply forallb_forall. intros c Hc.
    apply (In_nth _ _ d0) in Hc as [i [Hi <-]]. cbn [ceval ieval]. rewrite (Hsg' i Hi). apply Z.leb_le. lia. }
  unfold csp_b. split.
  - intros [sg' [Hag Hsat]].
    assert (Hsg': eta_assignment D eta sg') by (intros i Hi; rewrite Hag; apply Hsg; exact Hi).
    rewrite csp_sat_app, csp_sat_concat in Hsat. apply andb_true_iff in Hsat as [Hsat _].
    apply forallb_forall. intros i Hi. eapply forallb_forall in Hsat; [|exact Hi]. apply in_seq in Hi.
    apply (block_sat sg' i ltac:(lia) Hsg' (Hver i ltac:(lia))) in Hsat. tauto.
  - intros Hc. exists (with_mins sg). split; [reflexivity|].
    assert (Hsg': eta_assignment D eta (with_mins sg)) by (intros i Hi; apply Hsg; exact Hi).
    rewrite csp_sat_app, csp_sat_concat, (Hge _ Hsg'), andb_true_r.
    apply forallb_forall. intros i Hi. eapply forallb_forall in Hc; [|exact Hi]. apply in_seq in Hi.
    apply (block_sat (with_mins sg) i ltac:(lia) Hsg' (Hver i ltac:(lia))). split; [exact Hc|].
    intros Hf. cbn [with_mins]. unfold aux. rewrite (pos_keyi i) by lia.
    split.
    + destruct (minl (map (fun v => sumsel v eta) (vMin n D i))) as [x|] eqn:E; [exists x; auto|].
      apply minl_none in E. apply map_eq_nil in E. exfalso. apply (Hver i); [lia|exact E].
    + destruct (minl (map (fun v => sumsel v eta) (fMin n D i))) as [x|] eqn:E; [exists x; auto|].
      apply minl_none in E. apply map_eq_nil in E. contradiction.
Qed.
End Base.

(* composed with the model's theorems: the generated base CSP is solvable with impacts eta exactly when kappa_eta is a
   c-representation of the base, and the generated query constraints exactly when kappa_eta does not accept the query *)
Corollary src_csp_is_c_representation n D (Hnd:NoDup (map kz D)) eta (Hlen:length eta = length D) :
  (forall i, i < length D -> vMin n D i <> []) -> exists csp,
  py_CInference_translate n (bb_of D) (vM n D) (fM n D) = Return csp /\
  forall sg, eta_assignment D eta sg ->
    ((exists sg', (forall k, sg' (SEta k) = sg (SEta k)) /\ csp_sat sg' csp = true) <-> crep_b n D eta = true).
Proof. intros Hver. destruct (tie_base_csp n D Hnd eta Hlen Hver) as [csp [E H]]. exists csp. split; [exact E|].
  intros sg Hsg. rewrite (H sg Hsg). rewrite (ThmC.csp_iff_crep n D eta Hlen). reflexivity. Qed.
Corollary src_query_is_not_accept n D (Hnd:NoDup (map kz D)) eta (Hlen:length eta = length D) q : exists csp,
  py_CInference_compile_and_encode_query n (nf_of D) q tt = Return (csp, tt) /\
  forall sg, eta_assignment D eta sg ->
    ((exists a b, csp_sat (with_aux sg a b) csp = true) <-> qacc_b n D eta q = false).
Proof. destruct (tie_query_constraint n D Hnd eta Hlen q) as [csp [E H]]. exists csp. split; [exact E|].
  intros sg Hsg. rewrite (H sg Hsg). rewrite (ThmC.qcon_is_not_accept n D eta q). apply negb_true_iff. Qed.
