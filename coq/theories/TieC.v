From InfOCF Require Import Core Tol CInf Form Model CModel PyLib PyInt TieLib TieSet TieSolver TieMax.
From InfOCFGen Require Import SrcC.
From Coq Require Import ZArith.
(* TIE: the constraint construction GENERATED from inference/c_inference.py (gen/SrcC.v) - makeSummation, freshVars,
   minima_encoding, encoding, translate, compile_and_encode_query - against the model of CModel.v.  The integer
   constraints are PyInt.icon terms; "the CSP has a solution with these impacts" quantifies over the auxiliary
   minimum variables mv_i / mf_i. *)

(* ---- minima_encoding: mv is the least of the sums (and there is one) ---- *)
Lemma minima_encoding_sat sg mv l :
  csp_sat sg (py_minima_encoding 0 mv l) = true <->
  (exists s, In s l /\ ieval sg s = ieval sg mv) /\ (forall s, In s l -> (ieval sg mv <= ieval sg s)%Z).
Proof. unfold py_minima_encoding, csp_sat. cbv zeta. rewrite forallb_app. cbn [forallb ceval]. rewrite andb_true_r, andb_true_iff.
  rewrite forallb_map, negb_true_iff. split.
  - intros [H1 H2]. assert (Hle: forall s, In s l -> (ieval sg mv <= ieval sg s)%Z).
    { intros s Hs. eapply forallb_forall in H1; [|exact Hs]. cbn [ceval] in H1. apply Z.leb_le. exact H1. }
    split; [|exact Hle]. rewrite forallb_map in H2.
    destruct (forallb (fun x => ceval sg (ILT mv x)) l) eqn:E; [discriminate|].
    assert (Hex: exists s, In s l /\ ceval sg (ILT mv s) = false).
    { clear -E. induction l as [|a l IH]; [discriminate|]. cbn [forallb] in E. destruct (ceval sg (ILT mv a)) eqn:Ea.
      - cbn [andb] in E. destruct (IH E) as [s [Hs Hf]]. exists s. split; [right; exact Hs|exact Hf].
      - exists a. split; [left; reflexivity|exact Ea]. }
    destruct Hex as [s [Hs Hf]]. exists s. split; [exact Hs|]. cbn [ceval] in Hf. apply Z.ltb_ge in Hf. specialize (Hle s Hs). lia.
  - intros [[s [Hs Es]] Hle]. split.
    + apply forallb_forall. intros x Hx. cbn [ceval]. apply Z.leb_le. apply Hle. exact Hx.
    + rewrite forallb_map. destruct (forallb (fun x => ceval sg (ILT mv x)) l) eqn:E; [|reflexivity]. exfalso.
      eapply forallb_forall in E; [|exact Hs]. cbn [ceval] in E. apply Z.ltb_lt in E. lia.
Qed.

Lemma zsum_app a b : zsum (a ++ b) = (zsum a + zsum b)%Z.
Proof. induction a as [|x a IH]; simpl; [reflexivity|]. rewrite IH. lia. Qed.

Section TieC.
Variable n : nat.
Notation W := (worlds n).
Variable D : list cond.
Hypothesis Hnd : NoDup (map kz D).
Variable eta : list nat.
Hypothesis Hlen : length eta = length D.
Notation aD := (map ac D).

(* an assignment of the symbols that gives eta_k the impact of the conditional with key k *)
Definition eta_assignment (sg:sym -> Z) : Prop :=
  forall i, i < length D -> sg (SEta (kz (nth i D (mk_cond FTop FTop)))) = Z.of_nat (nth i eta 0).

(* a sum of eta symbols over the keys selected by a falsification pattern = the model's sum of impacts *)
Lemma sum_keys (f:Z -> Z) : forall L x e, length x = length L -> length e = length L ->
  (forall i, i < length L -> f (kz (nth i L (mk_cond FTop FTop))) = Z.of_nat (nth i e 0)) ->
  zsum (map f (keys_of_bv (map kz L) x)) = Z.of_nat (sumsel x e).
Proof. induction L as [|c L IH]; intros [|b x] [|e0 e] Hx He Hf; simpl in Hx, He; try discriminate; [reflexivity|].
  injection Hx as Hx. injection He as He.
  assert (IH': zsum (map f (keys_of_bv (map kz L) x)) = Z.of_nat (sumsel x e)).
  { apply IH; auto. intros i Hi. apply (Hf (S i)). simpl. lia. }
  cbn [map keys_of_bv sumsel]. destruct b; cbn [map zsum fold_right].
  - fold (zsum (map f (keys_of_bv (map kz L) x))). rewrite IH'. pose proof (Hf 0 ltac:(simpl; lia)) as H0. simpl nth in H0. rewrite H0. lia.
  - rewrite IH'. lia. Qed.

(* the term makeSummation builds for one set of keys *)
Definition sum_term (s:list Z) : iterm := if negb (is_nil s) then IPlus (map (fun v_i => ISym (SEta v_i)) s) else IInt 0.
Lemma sum_term_eval sg s : ieval sg (sum_term s) = zsum (map (fun k => sg (SEta k)) s).
Proof. unfold sum_term. destruct s as [|k s]; [reflexivity|]. cbn [is_nil negb ieval]. rewrite map_map. reflexivity. Qed.
Lemma makeSummation_one k ss : py_makeSummation n [(k, ss)] = [(k, map sum_term ss)].
Proof. unfold py_makeSummation. cbv zeta. cbn [fold_left]. cbv beta iota zeta.
  assert (E: forall l acc, fold_left (fun v_interim v_subsum =>
      if negb (is_nil v_subsum) then v_interim ++ [IPlus (map (fun v_i => ISym (SEta v_i)) v_subsum)] else v_interim ++ [IInt 0]) l acc
      = acc ++ map sum_term l).
  { induction l as [|s l IH]; intros acc; [simpl; rewrite app_nil_r; reflexivity|]. cbn [fold_left map]. rewrite IH.
    unfold sum_term at 2. destruct (negb (is_nil s)); rewrite <- app_assoc; reflexivity. }
  rewrite E. reflexivity. Qed.

Lemma family_sums sg (X:list bv) : eta_assignment sg -> (forall x, In x X -> length x = length D) ->
  map (ieval sg) (map sum_term (map (keys_of_bv (map kz D)) X)) = map (fun x => Z.of_nat (sumsel x eta)) X.
Proof. intros Hsg HX. rewrite !map_map. apply map_ext_in. intros x Hx. rewrite sum_term_eval.
  apply (sum_keys (fun k => sg (SEta k)) D x eta); auto. Qed.

(* the least value of a non-empty list of naturals, characterised over Z *)
Lemma least_char (l:list nat) z : (exists y, In y l /\ Z.of_nat y = z) /\ (forall y, In y l -> (z <= Z.of_nat y)%Z)
  <-> exists m, minl l = Some m /\ z = Z.of_nat m.
Proof. split.
  - intros [[y [Hy Ey]] Hle]. exists y. split; [|symmetry; exact Ey]. apply minl_char; [exact Hy|].
    intros x Hx. specialize (Hle x Hx). lia.
  - intros [m [Hm ->]]. split.
    + exists m. split; [apply (minl_in _ _ Hm)|reflexivity].
    + intros y Hy. pose proof (minl_le _ _ _ Hm Hy). lia. Qed.

(* minima_encoding over the sums of a family of patterns *)
Lemma minima_family sg (mv:iterm) (X:list bv) : eta_assignment sg -> (forall x, In x X -> length x = length D) ->
  (csp_sat sg (py_minima_encoding n mv (map sum_term (map (keys_of_bv (map kz D)) X))) = true
   <-> exists m, minl (map (fun x => sumsel x eta) X) = Some m /\ ieval sg mv = Z.of_nat m).
Proof. intros Hsg HX. change (py_minima_encoding n) with (py_minima_encoding 0). rewrite minima_encoding_sat.
  rewrite <- least_char. set (T := map sum_term (map (keys_of_bv (map kz D)) X)).
  assert (Ev: map (ieval sg) T = map Z.of_nat (map (fun x => sumsel x eta) X)) by (unfold T; rewrite family_sums by assumption; rewrite map_map; reflexivity).
  split; intros [[s [Hs Es]] Hle]; split.
  - assert (Hin: In (ieval sg s) (map (ieval sg) T)) by (apply in_map; exact Hs). rewrite Ev in Hin.
    apply in_map_iff in Hin as [y [Ey Hy]]. exists y. split; [exact Hy|]. rewrite Ey. exact Es.
  - intros y Hy. assert (Hin: In (Z.of_nat y) (map (ieval sg) T)) by (rewrite Ev; apply in_map; exact Hy).
    apply in_map_iff in Hin as [t [Et Ht]]. rewrite <- Et. apply Hle. exact Ht.
  - assert (Hin: In (Z.of_nat s) (map (ieval sg) T)) by (rewrite Ev; apply in_map; exact Hs).
    apply in_map_iff in Hin as [t [Et Ht]]. exists t. split; [exact Ht|]. rewrite Et. exact Es.
  - intros t Ht. assert (Hin: In (ieval sg t) (map (ieval sg) T)) by (apply in_map; exact Ht). rewrite Ev in Hin.
    apply in_map_iff in Hin as [y [Ey Hy]]. rewrite <- Ey. apply Hle. exact Hy.
Qed.

(* the correction subsets of the query, by the contract of minimal_correction_subsets, are the model's qvMin / qfMin *)
Lemma query_mcs (phi:pred world) (cl:scnf) : (forall w, scnf_holds cl w = phi w) ->
  mcs n (nf_of D) (fold_left (fun v_wcnf v_s => w_append_soft v_wcnf v_s) (flat_map (fun '(v_j, v_softc) => v_softc) (nf_of D))
                     (fold_left (fun v_wcnf v_c => w_append v_wcnf v_c) cl wcnf_new)) []
  = map (keys_of_bv (map kz D)) (minimal (fam world W (top world) (F world aD) phi)).
Proof. intros Hcl. unfold mcs. cbn [zmem existsb negb].
  assert (Ek: filter (fun _ : Z => true) (dict_keys (nf_of D)) = map kz D).
  { rewrite (nf_of_keys D). clear. induction (map kz D) as [|a l IH]; simpl; [reflexivity|]. rewrite IH. reflexivity. }
  rewrite Ek. f_equal. f_equal. unfold fam, sel. f_equal.
  assert (Eh: forall w, scnf_holds (w_hard (fold_left (fun v_wcnf v_s => w_append_soft v_wcnf v_s) (flat_map (fun '(v_j, v_softc) => v_softc) (nf_of D))
                     (fold_left (fun v_wcnf v_c => w_append v_wcnf v_c) cl wcnf_new))) w = top world w && phi w).
  { intros w. rewrite w_hard_soft_fold, w_hard_append_fold. simpl. apply Hcl. }
  rewrite (filter_ext _ _ Eh). apply map_ext. intros w.
  rewrite (violated_layer D (nf_of D) (nf_of_ok D Hnd) D w (fun c H => H)). unfold F, layer_of. reflexivity. Qed.

Lemma fam_lenD (phi:pred world) x : In x (minimal (fam world W (top world) (F world aD) phi)) -> length x = length D.
Proof. intros Hx. apply minimal_in in Hx as [Hx _]. apply fam_in in Hx as [w [_ [_ [_ <-]]]]. unfold F. rewrite !map_length. reflexivity. Qed.

Definition with_aux (sg:sym -> Z) (a b:Z) : sym -> Z :=
  fun s => match s with SMv SQuery => a | SMf SQuery => b | _ => sg s end.

(* compile_and_encode_query: for impacts eta, the query's constraints have a solution (in the auxiliary minimum variables)
   exactly when the model's query constraint holds *)
Theorem tie_query_constraint q : exists csp,
  py_CInference_compile_and_encode_query n (nf_of D) q tt = Return (csp, tt) /\
  forall sg, eta_assignment sg ->
    ((exists a b, csp_sat (with_aux sg a b) csp = true) <-> qcon_b n D eta q = true).
Proof. unfold py_CInference_compile_and_encode_query. cbv zeta. cbn [cnf_of_query].
  rewrite (query_mcs (ver q) [ver q]) by (intros w; simpl; apply andb_true_r).
  rewrite (query_mcs (fal q) [fal q]) by (intros w; simpl; apply andb_true_r).
  unfold qcon_b. fold (qvMin n D q). fold (qfMin n D q).
  set (Xv := qvMin n D q). set (Xf := qfMin n D q).
  assert (Hlv: forall x, In x Xv -> length x = length D) by (intros x Hx; apply (fam_lenD (ver q)); exact Hx).
  assert (Hlf: forall x, In x Xf -> length x = length D) by (intros x Hx; apply (fam_lenD (fal q)); exact Hx).
  assert (Env: forall X:list bv, is_nil (map (keys_of_bv (map kz D)) X) = is_nil X) by (intros [|? ?]; reflexivity).
  rewrite !Env.
  assert (Emin: forall X:list bv, minl (map (fun v => sumsel v eta) X) = None <-> X = []).
  { intros X. rewrite minl_none. split; [apply map_eq_nil|intros ->; reflexivity]. }
  assert (Enil: forall X:list bv, is_nil X = match minl (map (fun v => sumsel v eta) X) with None => true | Some _ => false end).
  { intros [|x X]; [reflexivity|]. simpl. destruct (minl (map (fun v => sumsel v eta) X)); reflexivity. }
  rewrite (Enil Xv), (Enil Xf).
  destruct (minl (map (fun v => sumsel v eta) Xv)) as [mv|] eqn:Emv; destruct (minl (map (fun v => sumsel v eta) Xf)) as [mf|] eqn:Emf;
    cbn [negb andb cbind].
  2:{ eexists. split; [reflexivity|]. intros sg Hsg. split; [|discriminate]. intros [a [b H]]. simpl in H. discriminate. }
  2:{ eexists. split; [reflexivity|]. intros sg Hsg. split; [reflexivity|]. intros _. exists 0%Z, 0%Z. reflexivity. }
  2:{ eexists. split; [reflexivity|]. intros sg Hsg. split; [reflexivity|]. intros _. exists 0%Z, 0%Z. reflexivity. }
  - rewrite !makeSummation_one. unfold zdict_get. cbn [zdict_find Z.eqb cbind].
    eexists. split; [reflexivity|]. intros sg Hsg.
    assert (Hsg': forall a b, eta_assignment (with_aux sg a b)) by (intros a b i Hi; apply Hsg; exact Hi).
    assert (Esplit: forall a b, csp_sat (with_aux sg a b)
              ((py_minima_encoding n (ISym (SMv SQuery)) (map sum_term (map (keys_of_bv (map kz D)) Xv)) ++
                py_minima_encoding n (ISym (SMf SQuery)) (map sum_term (map (keys_of_bv (map kz D)) Xf))) ++ [IGE (ISym (SMv SQuery)) (ISym (SMf SQuery))]) = true
              <-> (exists mv, minl (map (fun x => sumsel x eta) Xv) = Some mv /\ a = Z.of_nat mv) /\
                  (exists mf, minl (map (fun x => sumsel x eta) Xf) = Some mf /\ b = Z.of_nat mf) /\ (b <= a)%Z).
    { intros a b. unfold csp_sat. rewrite !forallb_app. cbn [forallb]. rewrite andb_true_r, !andb_true_iff.
      fold (csp_sat (with_aux sg a b) (py_minima_encoding n (ISym (SMv SQuery)) (map sum_term (map (keys_of_bv (map kz D)) Xv)))).
      fold (csp_sat (with_aux sg a b) (py_minima_encoding n (ISym (SMf SQuery)) (map sum_term (map (keys_of_bv (map kz D)) Xf)))).
      rewrite (minima_family (with_aux sg a b) (ISym (SMv SQuery)) Xv (Hsg' a b) Hlv).
      rewrite (minima_family (with_aux sg a b) (ISym (SMf SQuery)) Xf (Hsg' a b) Hlf).
      cbn [ieval ceval with_aux]. rewrite Z.leb_le. tauto. }
    split.
    + intros [a [b H]]. apply Esplit in H as [[mv' [E1 ->]] [[mf' [E2 ->]] Hle]]. rewrite Emv in E1. rewrite Emf in E2. injection E1 as <-. injection E2 as <-.
      apply Nat.leb_le. lia.
    + intros H. apply Nat.leb_le in H. exists (Z.of_nat mv), (Z.of_nat mf). apply Esplit.
      split; [exists mv; rewrite Emv; auto|]. split; [exists mf; rewrite Emf; auto|lia].
Qed.
End TieC.
