From InfOCF Require Import Core Tol Form Model.
(* M for InferenceManager.inference / Inference.inference / single_inference / multi_inference:
   the state that survives a call, the result dictionary keyed by query text, the row loop,
   and parallel evaluation as writes of independent workers into a shared map in arbitrary order. *)
Fixpoint form_eqb (f g:form) : bool :=
  match f, g with
  | FTop, FTop | FBot, FBot => true
  | FVar i, FVar j => i =? j
  | FNot a, FNot b => form_eqb a b
  | FAnd a b, FAnd c d | FOr a b, FOr c d => form_eqb a c && form_eqb b d
  | _, _ => false end.
(* the text representation of a query determines consequent and antecedent (and nothing else) *)
Definition text_eqb (q q':cond) : bool := form_eqb (ccons q) (ccons q') && form_eqb (cante q) (cante q').

Record mstate := { pre_done : bool; cpart : option (list (list (acond world))); qslot : option cond; pool_size : nat }.
Definition st0 : mstate := {| pre_done := false; cpart := None; qslot := None; pool_size := 0 |}.
Definition query := (nat * cond)%type.              (* key, conditional *)
Definition row := (nat * cond * bool)%type.          (* key, text, answer *)

Section Mgr.
Variable n : nat.
Variable s : system.
Variable weakly : bool.
Variable D : list cond.

(* preprocess_belief_base: skipped when already done; refusal (assertion) leaves the state untouched *)
Definition preprocess (st:mstate) : option mstate :=
  if pre_done st then Some st else
  match D with [] => None | _ =>
  match consistency n weakly D with None => None
  | Some P => Some {| pre_done := true; cpart := Some P; qslot := qslot st; pool_size := pool_size st |} end end.
(* general_inference on the cached partition; it overwrites the query slot and grows the id pool *)
Definition answer (st:mstate) (q:cond) : bool :=
  match cpart st with Some P => trivial n q || op n s weakly D P q | None => false end.
Definition touch (st:mstate) (q:cond) : mstate :=
  {| pre_done := pre_done st; cpart := cpart st; qslot := Some q; pool_size := S (pool_size st) |}.

(* result dictionary keyed by text: later entries overwrite earlier ones *)
Definition rdict := list (cond * bool).
Fixpoint dict_set (d:rdict) (q:cond) (b:bool) : rdict :=
  match d with [] => [(q, b)] | (x, v)::r => if text_eqb x q then (x, b) :: r else (x, v) :: dict_set r q b end.
Fixpoint dict_get (d:rdict) (q:cond) : option bool :=
  match d with [] => None | (x, v)::r => if text_eqb x q then Some v else dict_get r q end.

(* single_inference *)
Fixpoint seq_eval (st:mstate) (batch:list query) (d:rdict) : mstate * rdict :=
  match batch with [] => (st, d)
  | (k, q)::r => seq_eval (touch st q) r (dict_set d q (answer st q)) end.
(* the row loop of InferenceManager.inference: own key, text, answer looked up by text *)
Definition table_of (batch:list query) (d:rdict) : list row :=
  map (fun kq => (fst kq, snd kq, match dict_get d (snd kq) with Some b => b | None => false end)) batch.
Definition call_seq (st:mstate) (batch:list query) : option (mstate * list row) :=
  match preprocess st with None => None
  | Some st1 => let (st2, d) := seq_eval st1 batch [] in Some (st2, table_of batch d) end.

(* multi_inference: every worker evaluates its query on a private copy of the state (the parent's state is not
   touched) and writes (key -> answer) into the shared map; the writes arrive in an arbitrary order *)
Definition shared := list (nat * bool).
Fixpoint sh_set (m:shared) (k:nat) (b:bool) : shared :=
  match m with [] => [(k, b)] | (x, v)::r => if x =? k then (x, b) :: r else (x, v) :: sh_set r k b end.
Fixpoint sh_get (m:shared) (k:nat) : option bool :=
  match m with [] => None | (x, v)::r => if x =? k then Some v else sh_get r k end.
Definition writes (st:mstate) (order:list query) : shared :=
  fold_left (fun m kq => sh_set m (fst kq) (answer st (snd kq))) order [].
Definition par_dict (batch:list query) (m:shared) : rdict :=
  fold_left (fun d kq => dict_set d (snd kq) (match sh_get m (fst kq) with Some b => b | None => false end)) batch [].
Definition call_par (st:mstate) (batch order:list query) : option (mstate * list row) :=
  match preprocess st with None => None
  | Some st1 => Some (st1, table_of batch (par_dict batch (writes st1 order))) end.

(* a history: calls with their mode; for a parallel call the completion order of the workers *)
Inductive mcall := CSeq (batch:list query) | CPar (batch order:list query).
Fixpoint run_calls (st:mstate) (cs:list mcall) : list (option (list row)) :=
  match cs with [] => []
  | c::r => match (match c with CSeq b => call_seq st b | CPar b o => call_par st b o end) with
            | None => None :: run_calls st r
            | Some (st', t) => Some t :: run_calls st' r end end.
End Mgr.
