From InfOCF Require Import Core Tol Form Model CModel ThmC PyLib PyInt TieLib TieMax TieC TieCBase.
From InfOCFGen Require Import SrcC.
From Coq Require Import ZArith.
(* TIE: CInference._inference GENERATED from inference/c_inference.py (gen/SrcC.v), run on the base CSP that the generated
   translate() returns and with an SMT solver that decides solvability of integer constraint lists, answers True exactly when
   the model's c-inference holds (CModel.c_infer_prop: the base is not self-fulfilling and no impact vector satisfies the
   base constraints together with the query constraint) - for every signature size, base with distinct keys whose
   conditionals are verifiable, and query. *)

(* evaluation depends on the assignment only through its values *)
Lemma ieval_ext sg sg' (H:forall s, sg s = sg' s) : forall t, ieval sg t = ieval sg' t.
Proof. fix IH 1. intros [z|s|l|a b]; cbn [ieval].
  - reflexivity.
  - apply H.
  - f_equal. induction l as [|t l IHl]; [reflexivity|]. cbn [map]. rewrite (IH t), IHl. reflexivity.
  - rewrite (IH a), (IH b). reflexivity. Qed.
Lemma ceval_ext sg sg' (H:forall s, sg s = sg' s) : forall c, ceval sg c = ceval sg' c.
Proof. fix IH 1. intros [a b|a b|a b|a b|c|l]; cbn [ceval]; rewrite ?(ieval_ext sg sg' H a), ?(ieval_ext sg sg' H b); try reflexivity.
  - rewrite (IH c). reflexivity.
  - induction l as [|c l IHl]; [reflexivity|]. cbn [forallb]. rewrite (IH c), IHl. reflexivity. Qed.
Lemma csp_sat_ext sg sg' (H:forall s, sg s = sg' s) l : csp_sat sg l = csp_sat sg' l.
Proof. unfold csp_sat. induction l as [|c l IH]; [reflexivity|]. cbn [forallb]. rewrite (ceval_ext sg sg' H c), IH. reflexivity. Qed.

Lemma fold_is_add l s : fold_left (fun v_solver v_constraint => is_add v_solver v_constraint) l s = s ++ l.
Proof. revert s. induction l as [|c l IH]; intros s; cbn [fold_left]; [rewrite app_nil_r; reflexivity|].
  rewrite IH. unfold is_add. rewrite <- app_assoc. reflexivity. Qed.
Lemma fold_flag {A} (g:A -> bool) l acc :
  fold_left (fun v a => if g a then false else v) l acc = acc && forallb (fun a => negb (g a)) l.
Proof. revert acc. induction l as [|a l IH]; intros acc; cbn [fold_left forallb]; [rewrite andb_true_r; reflexivity|].
  rewrite IH. destruct (g a), acc; reflexivity. Qed.

Section TieCInf.
Variable n : nat.
Variable D : list cond.
Hypothesis Hnd : NoDup (map kz D).
Hypothesis Hver : forall i, i < length D -> vMin n D i <> [].
Notation m := (length D).
Notation d0 := (mk_cond FTop FTop).
(* the SMT solver on integer constraints *)
Variable isolve : list icon -> ctl bool unit unit.
Hypothesis Hsolve : forall l, exists b, isolve l = Return b /\ (b = true <-> exists sg, csp_sat sg l = true).

(* impacts read off an assignment, and an assignment carrying given impacts *)
Definition eta_of (sg:sym -> Z) : list nat := map (fun i => Z.to_nat (sg (SEta (keyi D i)))) (seq 0 m).
Lemma eta_of_length sg : length (eta_of sg) = m.
Proof. unfold eta_of. rewrite map_length, seq_length. reflexivity. Qed.
Lemma eta_of_assignment sg : csp_sat sg (base_csp n D) = true -> eta_assignment D (eta_of sg) sg.
Proof. intros Hsat i Hi. unfold eta_of.
  rewrite (nth_indep _ 0 (Z.to_nat (sg (SEta (keyi D 0))))) by (rewrite map_length, seq_length; exact Hi).
  rewrite (map_nth (fun i => Z.to_nat (sg (SEta (keyi D i))))), seq_nth by exact Hi. cbn [plus]. unfold keyi.
  rewrite Z2Nat.id; [reflexivity|]. apply (base_nonneg n D sg Hsat). apply nth_In. exact Hi. Qed.
Definition sg_eta (eta:list nat) : sym -> Z :=
  fun s => match s with SEta k => match pos D k with Some i => Z.of_nat (nth i eta 0) | None => 0%Z end | _ => 0%Z end.
Lemma sg_eta_assignment eta : length eta = m -> eta_assignment D eta (sg_eta eta).
Proof. intros Hlen i Hi. cbn [sg_eta]. change (kz (nth i D d0)) with (keyi D i). rewrite (pos_keyi D Hnd eta Hlen i Hi). reflexivity. Qed.

Lemma selff_fold : fold_left (fun v c => if f_sat n (FAnd (cante c) (FNot (ccons c))) then false else v) D true = selffulfilling n D.
Proof. rewrite fold_flag. reflexivity. Qed.

Theorem tie_c_inference q weakly : exists base,
  py_CInference_translate n (bb_of D) (vM n D) (fM n D) = Return base /\
  exists b, py_CInference_inference n isolve (bb_of D) tt base (nf_of D) q weakly tt = Return b /\
            (b = true <-> c_infer_prop n D q).
Proof.
  exists (base_csp n D). split; [apply (translate_shape n D Hnd (repeat 0 m)); apply repeat_length|].
  unfold py_CInference_inference. cbv zeta.
  assert (Ev: dict_values (bb_conditionals (bb_of D)) = D).
  { unfold bb_of, dict_values. cbn [bb_conditionals]. rewrite map_map. cbn [snd]. apply map_id. }
  rewrite Ev.
  match goal with |- context [fold_left ?f D true] => replace (fold_left f D true) with (selffulfilling n D) by (symmetry; apply selff_fold) end.
  unfold c_infer_prop.
  destruct (selffulfilling n D) eqn:Es; cbn [cbind].
  { exists false. split; [reflexivity|]. split; [discriminate|]. intros [Hf _]. discriminate. }
  rewrite fold_is_add. cbn [app].
  destruct (tie_query_constraint n D Hnd (repeat 0 m) (repeat_length 0 m) q) as [qc [Eq _]].
  rewrite Eq. cbn [call]. rewrite fold_is_add.
  destruct (Hsolve (base_csp n D ++ qc)) as [sat [Er Hsat]]. rewrite Er. cbn [call].
  exists (negb sat). split; [reflexivity|].
  assert (Hiff: sat = true <-> exists eta, length eta = m /\ csp_b n D eta = true /\ qcon_b n D eta q = true).
  { rewrite Hsat. split.
    - intros [sg Hsg]. rewrite csp_sat_app in Hsg. apply andb_true_iff in Hsg as [Hb Hq].
      pose proof (eta_of_assignment sg Hb) as Ha. pose proof (eta_of_length sg) as Hl.
      exists (eta_of sg). split; [exact Hl|]. split.
      + apply (base_sat_csp_b n D (eta_of sg) Hl Hver sg Ha Hb).
      + destruct (tie_query_constraint n D Hnd (eta_of sg) Hl q) as [qc' [Eq' Hq']].
        assert (qc' = qc) by congruence. subst qc'.
        apply (Hq' sg Ha). exists (sg (SMv SQuery)), (sg (SMf SQuery)).
        rewrite <- Hq. apply csp_sat_ext. intros [k|[k|]|[k|]|k|k]; reflexivity.
    - intros [eta [Hl [Hb Hq]]].
      destruct (tie_query_constraint n D Hnd eta Hl q) as [qc' [Eq' Hq']].
      assert (qc' = qc) by congruence. subst qc'.
      pose proof (sg_eta_assignment eta Hl) as Ha0.
      assert (Ha1: eta_assignment D eta (with_mins n D eta (sg_eta eta))) by (intros i Hi; apply Ha0; exact Hi).
      apply (Hq' _ Ha1) in Hq as [a [b Hab]].
      exists (with_aux (with_mins n D eta (sg_eta eta)) a b). rewrite csp_sat_app, Hab, andb_true_r.
      assert (Ha2: eta_assignment D eta (with_aux (sg_eta eta) a b)) by (intros i Hi; apply Ha0; exact Hi).
      rewrite <- (base_with_mins n D Hnd eta Hl Hver Hb _ Ha2).
      apply csp_sat_ext. intros [k|[k|]|[k|]|k|k]; reflexivity. }
  split.
  - intros Hn. apply negb_true_iff in Hn. split; [reflexivity|]. intros Hex. apply Hiff in Hex. congruence.
  - intros [_ Hno]. apply negb_true_iff. destruct sat; [|reflexivity]. exfalso. apply Hno. apply Hiff. reflexivity.
Qed.
End TieCInf.

(* composed with the model's correctness theorem: on a base that is not self-fulfilling the generated _inference answers
   True exactly when every c-representation of the base (every impact vector whose ranking accepts all its conditionals)
   accepts the query; on a self-fulfilling base it answers False *)
Corollary src_c_inference_skeptical n D (Hnd:NoDup (map kz D)) (Hver:forall i, i < length D -> vMin n D i <> [])
  isolve (Hsolve:forall l, exists b, isolve l = Return b /\ (b = true <-> exists sg, csp_sat sg l = true)) q weakly : exists base,
  py_CInference_translate n (bb_of D) (vM n D) (fM n D) = Return base /\
  exists b, py_CInference_inference n isolve (bb_of D) tt base (nf_of D) q weakly tt = Return b /\
            (selffulfilling n D = true -> b = false) /\
            (selffulfilling n D = false -> (b = true <-> c_spec_prop n D q)).
Proof. destruct (tie_c_inference n D Hnd Hver isolve Hsolve q weakly) as [base [Eb [b [Er Hb]]]].
  exists base. split; [exact Eb|]. exists b. split; [exact Er|]. split.
  - intros Hs. destruct b; [|reflexivity]. destruct (proj1 Hb eq_refl) as [Hf _]. congruence.
  - intros Hs. rewrite Hb. apply ThmC.c_correct. exact Hs. Qed.
