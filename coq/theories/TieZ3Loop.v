From InfOCF Require Import Core Mcs Form PyLib.
(* The enumeration loop of the z3 back-ends (get_all_xi_i), abstractly: an optimiser that returns a best candidate among
   the not yet blocked ones finds exactly the inclusion-minimal falsification patterns, each once, and needs at most one
   round per world.  (Mcs.v treats the rc2 loop, where optimality is not needed because of the post-filter.) *)

Lemma argmin_in {A} (cost:A -> nat) l d : l <> [] -> In (argmin_by cost l d) l /\ forall y, In y l -> cost (argmin_by cost l d) <= cost y.
Proof. induction l as [|x r IH]; [congruence|]. intros _. destruct r as [|y r'].
  - simpl. split; [left; reflexivity|]. intros z [<-|[]]. lia.
  - destruct (IH ltac:(discriminate)) as [Hin Hle]. remember (y::r') as r eqn:Er.
    assert (E: argmin_by cost (x::r) d = let m := argmin_by cost r d in if cost m <? cost x then m else x) by (subst; reflexivity).
    rewrite E. cbv zeta. destruct (cost (argmin_by cost r d) <? cost x) eqn:Ec.
    + apply Nat.ltb_lt in Ec. split; [right; exact Hin|]. intros z [<-|Hz]; [lia|apply Hle; exact Hz].
    + apply Nat.ltb_ge in Ec. split; [left; reflexivity|]. intros z [<-|Hz]; [lia|]. specialize (Hle z Hz). lia. Qed.
Lemma argmin_ext {A} (c1 c2:A -> nat) l d : (forall x, In x l -> c1 x = c2 x) -> argmin_by c1 l d = argmin_by c2 l d.
Proof. induction l as [|x r IH]; intros H; [reflexivity|]. destruct r as [|y r']; [reflexivity|].
  remember (y::r') as r eqn:Er.
  assert (E: forall c, argmin_by c (x::r) d = let m := argmin_by c r d in if c m <? c x then m else x) by (intros c; subst; reflexivity).
  rewrite !E. cbv zeta. rewrite <- IH by (intros z Hz; apply H; right; exact Hz).
  assert (Hm: In (argmin_by c1 r d) r) by (apply argmin_in; subst; discriminate).
  rewrite (H x (or_introl eq_refl)), (H _ (or_intror Hm)). reflexivity. Qed.

Section ZLoop.
Variable world : Type.
Variable W : list world.
Variable H : pred world.
Variable F : layer world.
Variable k : nat.
Hypothesis Flen : forall w, length (F w) = k.
Variable d0 : world.
Notation famH := (Core.fam world W H F (top world)).

Definition cand (acc:list bv) : list world := filter (fun w => H w && notblocked acc (F w)) W.
Definition best (acc:list bv) : world := argmin_by (fun w => cnt (F w)) (cand acc) d0.
Fixpoint zloop (fuel:nat) (acc:list bv) : option (list bv) :=
  match fuel with 0 => None | S f =>
    match cand acc with
    | [] => Some acc
    | _ => let v := F (best acc) in if cnt v =? 0 then Some (acc ++ [v]) else zloop f (acc ++ [v]) end end.

Lemma cand_in acc w : In w (cand acc) <-> In w W /\ H w = true /\ notblocked acc (F w) = true.
Proof. unfold cand. rewrite filter_In, andb_true_iff. tauto. Qed.
Lemma notblocked_app acc v x : notblocked (acc ++ [v]) x = notblocked acc x && negb (sub v x).
Proof. unfold notblocked. rewrite forallb_app. simpl. rewrite andb_true_r. reflexivity. Qed.
Lemma in_fam w : In w W -> H w = true -> In (F w) famH.
Proof. intros Hw Hh. apply Core.fam_in. exists w. unfold top. auto. Qed.
Lemma in_minimal x : In x (minimal famH) <-> In x famH /\ forall y, In y famH -> ssub y x = false.
Proof. split; [apply minimal_in|]. intros [H1 H2]. unfold minimal. apply filter_In. split; auto.
  apply negb_true_iff. destruct (existsb (fun y => ssub y x) famH) eqn:E; auto.
  apply existsb_exists in E as [y [Hy Hs]]. rewrite (H2 y Hy) in Hs. discriminate. Qed.
Lemma ssub_sub y x : ssub y x = true -> sub y x = true.
Proof. unfold ssub. intros E. apply andb_true_iff in E. tauto. Qed.

(* the candidate returned by the optimiser is an inclusion-minimal pattern *)
Lemma best_minimal acc : cand acc <> [] -> In (F (best acc)) (minimal famH) /\ In (best acc) (cand acc).
Proof. intros Hne. destruct (argmin_in (fun w => cnt (F w)) (cand acc) d0 Hne) as [Hin Hle]. fold (best acc) in *.
  split; [|exact Hin]. apply cand_in in Hin as [Hw [Hh Hnb]]. apply in_minimal. split; [apply in_fam; auto|].
  intros y Hy. destruct (ssub y (F (best acc))) eqn:Es; [|reflexivity]. exfalso.
  apply Core.fam_in in Hy as [m' [Hm' [Hh' [_ Ey]]]].
  assert (Hc: In m' (cand acc)).
  { apply cand_in. split; [exact Hm'|]. split; [exact Hh'|]. rewrite Ey. unfold notblocked. apply forallb_forall. intros b Hb.
    apply negb_true_iff. destruct (sub b y) eqn:Eb; [|reflexivity]. exfalso.
    unfold notblocked in Hnb. eapply forallb_forall in Hnb; [|exact Hb]. apply negb_true_iff in Hnb.
    rewrite (sub_trans b y (F (best acc)) Eb (ssub_sub _ _ Es)) in Hnb. discriminate. }
  specialize (Hle m' Hc). cbv beta in Hle. rewrite Ey in Hle. apply ssub_cnt in Es. lia. Qed.

Definition all_minimal (acc:list bv) := forall x, In x acc -> In x (minimal famH).
Lemma minimal_sub_eq b x : In b (minimal famH) -> In x (minimal famH) -> sub b x = true -> b = x.
Proof. intros Hb Hx Hs. apply in_minimal in Hx as [_ Hx]. apply in_minimal in Hb as [Hb _].
  specialize (Hx b Hb). unfold ssub in Hx. rewrite Hs in Hx. simpl in Hx. apply negb_false_iff in Hx. apply beq_eq. exact Hx. Qed.

Theorem zloop_spec : forall fuel acc, length (cand acc) < fuel -> all_minimal acc ->
  exists res, zloop fuel acc = Some res /\ all_minimal res /\ (forall x, In x (minimal famH) -> In x res)
              /\ (forall x, In x acc -> In x res).
Proof. induction fuel as [|f IH]; intros acc Hlt Ham; [lia|]. cbn [zloop].
  destruct (cand acc) as [|c0 cs] eqn:Ec.
  - exists acc. split; [reflexivity|]. split; [exact Ham|]. split; [|auto]. intros x Hx.
    pose proof Hx as Hx'. apply in_minimal in Hx' as [Hxf _]. apply Core.fam_in in Hxf as [w [Hw [Hh [_ Ex]]]].
    destruct (notblocked acc (F w)) eqn:Enb.
    + exfalso. assert (In w (cand acc)) by (apply cand_in; auto). rewrite Ec in H0. inversion H0.
    + apply notblocked_false in Enb as [b [Hb Hs]]. rewrite Ex in Hs.
      rewrite <- (minimal_sub_eq b x (Ham b Hb) Hx Hs). exact Hb.
  - rewrite <- Ec in *. assert (Hne: cand acc <> []) by (rewrite Ec; discriminate).
    destruct (best_minimal acc Hne) as [Hmin Hbin]. set (v := F (best acc)) in *.
    assert (Ham': all_minimal (acc ++ [v])).
    { intros x Hx. apply in_app_or in Hx as [Hx|[<-|[]]]; auto. }
    destruct (cnt v =? 0) eqn:E0.
    + exists (acc ++ [v]). split; [reflexivity|]. split; [exact Ham'|]. split; [|intros x Hx; apply in_or_app; auto].
      intros x Hx. apply Nat.eqb_eq in E0. apply in_or_app. right. left.
      apply minimal_sub_eq; auto. apply cnt0_sub; auto.
      pose proof Hx as Hx'. apply in_minimal in Hx' as [Hxf _]. apply Core.fam_in in Hxf as [w [_ [_ [_ Ex]]]].
      unfold v. rewrite <- Ex, !Flen. reflexivity.
    + assert (Hdec: length (cand (acc ++ [v])) < length (cand acc)).
      { unfold cand. apply (filter_length_lt _ _ W (best acc)).
        - intros w Hq. apply andb_true_iff in Hq as [Hq1 Hq2]. rewrite notblocked_app in Hq2.
          apply andb_true_iff in Hq2 as [Hq2 _]. rewrite Hq1, Hq2. reflexivity.
        - apply cand_in in Hbin. tauto.
        - apply cand_in in Hbin as [_ [Hh Hnb]]. rewrite Hh, Hnb. reflexivity.
        - rewrite notblocked_app. fold v. rewrite sub_refl. simpl. rewrite !andb_false_r. reflexivity. }
      destruct (IH (acc ++ [v]) ltac:(lia) Ham') as [res [Hr [Hm [Hall Hacc]]]].
      exists res. split; [exact Hr|]. split; [exact Hm|]. split; [exact Hall|].
      intros x Hx. apply Hacc. apply in_or_app. auto.
Qed.
Lemma cand_le acc : length (cand acc) <= length W.
Proof. unfold cand. induction W as [|w l IHl]; simpl; auto. destruct (H w && notblocked acc (F w)); simpl; lia. Qed.
End ZLoop.
