From InfOCF Require Import Core Tol CInf Form Model CModel PyLib PyInt TieLib TieMax TieC TieCBase.
From InfOCFGen Require Import SrcC.
From Coq Require Import ZArith.
(* TIE: CInference.compile_constraint GENERATED from inference/c_inference.py (gen/SrcC.v): run on the CNF dictionaries of
   the preprocessing (by their contract) and empty vMin / fMin tables it fills, per conditional i, the key sets of the
   model's minimal verification / falsification patterns of the OTHER conditionals (CModel.vMin / fMin: position i masked)
   - exactly the dictionaries vM / fM that the tie of translate() (TieCBase) starts from.  minimal_correction_subsets
   enters by its contract PyLib.mcs, called with ignore=[i]. *)

(* ---- deleting / inserting position i ---- *)
Fixpoint del {A} (i:nat) (v:list A) : list A :=
  match v with [] => [] | b::v' => match i with 0 => v' | S j => b :: del j v' end end.
Fixpoint ins (i:nat) (u:bv) : bv :=
  match i, u with 0, _ => false :: u | S j, x::u' => x :: ins j u' | S j, [] => [false] end.
Lemma mask_ins_del i : forall v, i < length v -> mask i v = ins i (del i v).
Proof. induction i as [|i IH]; intros [|b v] Hl; simpl in *; try lia; [reflexivity|]. rewrite IH by lia. reflexivity. Qed.
Lemma ins_nonempty i u : ins i u <> [].
Proof. destruct i, u; simpl; discriminate. Qed.
Lemma beq_ins i : forall a b, beq (ins i a) (ins i b) = beq a b.
Proof. induction i as [|i IH]; intros a b; [reflexivity|]. destruct a as [|x a], b as [|y b]; cbn [ins beq].
  - reflexivity.
  - destruct (ins i b) eqn:E; [exfalso; exact (ins_nonempty _ _ E)|]. destruct y; reflexivity.
  - destruct (ins i a) eqn:E; [exfalso; exact (ins_nonempty _ _ E)|]. destruct x; reflexivity.
  - rewrite IH. reflexivity. Qed.
Lemma sub_ins i : forall a b, sub (ins i a) (ins i b) = sub a b.
Proof. induction i as [|i IH]; intros a b; [reflexivity|]. destruct a as [|x a], b as [|y b]; cbn [ins sub].
  - reflexivity.
  - destruct (ins i b) eqn:E; [exfalso; exact (ins_nonempty _ _ E)|]. reflexivity.
  - destruct (ins i a) eqn:E; [exfalso; exact (ins_nonempty _ _ E)|]. destruct x; reflexivity.
  - rewrite IH. reflexivity. Qed.
Lemma ssub_ins i a b : ssub (ins i a) (ins i b) = ssub a b.
Proof. unfold ssub. rewrite sub_ins, beq_ins. reflexivity. Qed.
Lemma existsb_ext {A} (f g:A -> bool) l : (forall a, f a = g a) -> existsb f l = existsb g l.
Proof. intros H. induction l as [|a l IH]; [reflexivity|]. cbn [existsb]. rewrite H, IH. reflexivity. Qed.
Lemma existsb_map {A B} (f:A -> B) (p:B -> bool) l : existsb p (map f l) = existsb (fun a => p (f a)) l.
Proof. induction l as [|a l IH]; [reflexivity|]. cbn [map existsb]. rewrite IH. reflexivity. Qed.
Lemma filter_map {A B} (f:A -> B) (p:B -> bool) l : filter p (map f l) = map f (filter (fun a => p (f a)) l).
Proof. induction l as [|a l IH]; [reflexivity|]. cbn [map filter]. rewrite IH. destruct (p (f a)); reflexivity. Qed.
Lemma dedup_ins i l : dedup (map (ins i) l) = map (ins i) (dedup l).
Proof. induction l as [|x l IH]; [reflexivity|]. cbn [map dedup]. rewrite IH, existsb_map.
  rewrite (existsb_ext _ (beq x)) by (intros y; apply beq_ins). destruct (existsb (beq x) (dedup l)); reflexivity. Qed.
Lemma minimal_ins i l : minimal (map (ins i) l) = map (ins i) (minimal l).
Proof. unfold minimal. rewrite filter_map. f_equal. apply filter_ext. intros x. rewrite existsb_map. f_equal.
  apply existsb_ext. intros y. apply ssub_ins. Qed.
Lemma keys_ins i : forall keys u, keys_of_bv keys (ins i u) = keys_of_bv (del i keys) u.
Proof. induction i as [|i IH]; intros [|k ks] u; cbn [ins del keys_of_bv]; try reflexivity.
  destruct u as [|x u]; cbn [ins keys_of_bv].
  - destruct ks; reflexivity.
  - rewrite IH. reflexivity. Qed.
Lemma map_del {A B} (f:A -> B) i : forall l, map f (del i l) = del i (map f l).
Proof. induction i as [|i IH]; intros [|a l]; simpl; try reflexivity. rewrite IH. reflexivity. Qed.
Lemma filter_del i : forall (l:list Z), NoDup l -> i < length l ->
  filter (fun k => negb (zmem k [nth i l 0%Z])) l = del i l.
Proof. induction i as [|i IH]; intros [|a l] Hn Hl; simpl in Hl; try lia; inversion Hn as [|? ? Hni Hn']; subst.
  - cbn [nth filter del zmem existsb]. rewrite Z.eqb_refl. cbn [orb negb].
    clear -Hni. induction l as [|b l IH]; [reflexivity|]. cbn [filter zmem existsb].
    destruct (b =? a)%Z eqn:E; [apply Z.eqb_eq in E; subst; exfalso; apply Hni; left; reflexivity|].
    cbn [orb negb]. f_equal. apply IH. intros H. apply Hni. right. exact H.
  - cbn [nth filter del zmem existsb].
    destruct (a =? nth i l 0)%Z eqn:E.
    + apply Z.eqb_eq in E. exfalso. apply Hni. rewrite E. apply nth_In. lia.
    + cbn [orb negb]. f_equal. apply (IH l Hn'). lia. Qed.

Section TieCComp.
Variable n : nat.
Notation W := (worlds n).
Variable D : list cond.
Hypothesis Hnd : NoDup (map kz D).
Notation aD := (map ac D).
Notation K := (keys_of_bv (map kz D)).
Notation d0 := (mk_cond FTop FTop).
Notation m := (length D).

(* the CNF dictionaries of verification / falsification, by their contract: one clause per CNF *)
Definition vd_of : dict Z scnf := map (fun c => (kz c, [fun w => ver c w])) D.

Lemma F_is_violated w : violated_bv (nf_of D) (map kz D) w = F world aD w.
Proof. rewrite (violated_layer D (nf_of D) (nf_of_ok D Hnd) D w (fun c H => H)). reflexivity. Qed.
Lemma F_length w : length (F world aD w) = m.
Proof. unfold F. rewrite !map_length. reflexivity. Qed.

(* minimal_correction_subsets(wcnf, ignore=[i]) by its contract = the masked minimal family of the model *)
Lemma mcs_masked i (phi:pred world) (wc:wcnf) : i < m -> (forall w, scnf_holds (w_hard wc) w = phi w) ->
  mcs n (nf_of D) wc [keyi D i] = map K (minimal (fam world W (top world) (fun w => mask i (F world aD w)) phi)).
Proof. intros Hi Hh. unfold mcs. rewrite (nf_of_keys D).
  assert (Ek: keyi D i = nth i (map kz D) 0%Z) by (symmetry; apply nth_kz).
  rewrite Ek, (filter_del i (map kz D) Hnd) by (rewrite map_length; exact Hi).
  unfold fam, sel.
  assert (Ef: filter (scnf_holds (w_hard wc)) W = filter (fun w => top world w && phi w) W) by (apply filter_ext; intros w; rewrite Hh; reflexivity).
  rewrite Ef. set (ws := filter (fun w => top world w && phi w) W).
  assert (E1: map (violated_bv (nf_of D) (del i (map kz D))) ws = map (fun w => del i (F world aD w)) ws).
  { apply map_ext. intros w. rewrite <- F_is_violated. unfold violated_bv. rewrite map_del. reflexivity. }
  assert (E2: map (fun w => mask i (F world aD w)) ws = map (ins i) (map (fun w => del i (F world aD w)) ws)).
  { rewrite map_map. apply map_ext. intros w. apply mask_ins_del. rewrite F_length. exact Hi. }
  rewrite E1, E2, dedup_ins, minimal_ins, map_map. apply map_ext. intros u. symmetry. apply keys_ins. Qed.

Lemma hard_of_fold cl (soft:list sclause) :
  w_hard (fold_left (fun v_wcnf v_s => w_append_soft v_wcnf v_s) soft (fold_left (fun v_wcnf v_c => w_append v_wcnf v_c) cl wcnf_new)) = cl.
Proof. rewrite w_hard_soft_fold, w_hard_append_fold. reflexivity. Qed.

Lemma nth_ac i : i < m -> nth i aD (Build_acond world 0 (fun _ => false) (fun _ => false)) = ac (nth i D d0).
Proof. intros Hi. rewrite (nth_indep _ _ (ac d0)) by (rewrite map_length; exact Hi). apply map_nth. Qed.

(* one loop of compile_constraint fills one table, in the order of the base *)
Lemma fill_table (X:nat -> list (list Z)) (g:cond -> scnf) (step:dict Z (list (list Z)) -> Z * scnf -> dict Z (list (list Z))) :
  (forall i acc, i < m -> step acc (keyi D i, g (nth i D d0)) = zdict_set acc (keyi D i) (X i)) ->
  fold_left step (map (fun c => (kz c, g c)) D) [] = map (fun i => (keyi D i, X i)) (seq 0 m).
Proof. intros Hstep.
  assert (G: forall l acc, (forall i, In i l -> i < m) -> NoDup l -> (forall i, In i l -> ~ In (keyi D i) (dict_keys acc)) ->
             fold_left step (map (fun i => (keyi D i, g (nth i D d0))) l) acc = acc ++ map (fun i => (keyi D i, X i)) l).
  { induction l as [|i l IH]; intros acc Hlt Hn Hk; [cbn; rewrite app_nil_r; reflexivity|].
    cbn [map fold_left]. rewrite Hstep by (apply Hlt; left; reflexivity).
    rewrite (zdict_set_fresh acc) by (apply Hk; left; reflexivity).
    inversion Hn as [|? ? Hni Hn']; subst. rewrite IH.
    - rewrite <- app_assoc. reflexivity.
    - intros j Hj. apply Hlt. right. exact Hj.
    - exact Hn'.
    - intros j Hj. unfold dict_keys. rewrite map_app. cbn [map fst]. intros Hin. apply in_app_or in Hin as [Hin|[Hin|[]]].
      + apply (Hk j (or_intror Hj)). exact Hin.
      + apply (keyi_inj D Hnd) in Hin; [subst; contradiction|apply Hlt; left; reflexivity|apply Hlt; right; exact Hj]. }
  assert (E: map (fun c => (kz c, g c)) D = map (fun i => (keyi D i, g (nth i D d0))) (seq 0 m)).
  { rewrite (D_as_seq D) at 1. rewrite map_map. reflexivity. }
  rewrite E, (G (seq 0 m) []); [reflexivity| | |].
  - intros i Hi. apply in_seq in Hi. lia.
  - apply seq_NoDup.
  - intros i _ []. Qed.

Theorem tie_compile_constraint :
  py_CInference_compile_constraint n (nf_of D) vd_of (fd_of D) tt [] [] = Return (tt, (vM n D, fM n D)).
Proof.
  unfold py_CInference_compile_constraint. cbv zeta.
  (* first loop: vMin *)
  match goal with |- context [fold_left ?f vd_of ([], [])] => set (body1 := f) end.
  assert (E1: forall l acc (fm:dict Z (list (list Z))), fold_left body1 l (acc, fm) = (fold_left (fun a p => fst (body1 (a, fm) p)) l acc, fm)).
  { induction l as [|[k cl] l IH]; intros acc fm; [reflexivity|]. cbn [fold_left].
    change (body1 (acc, fm) (k, cl)) with (fst (body1 (acc, fm) (k, cl)), fm). rewrite IH. reflexivity. }
  unfold vd_of. rewrite E1.
  rewrite (fill_table (fun i => map K (vMin n D i)) (fun c => [fun w => ver c w])).
  2:{ intros i acc Hi. unfold body1. cbv beta iota. cbn [fst]. f_equal.
      rewrite (mcs_masked i (ver (nth i D d0))) by (try exact Hi; intros w; rewrite hard_of_fold; simpl; apply andb_true_r).
      unfold vMin, vfam. rewrite (nth_ac i Hi). reflexivity. }
  (* second loop: fMin *)
  match goal with |- context [fold_left ?f (fd_of D) _] => set (body2 := f) end.
  assert (E2: forall l (vm:dict Z (list (list Z))) acc, fold_left body2 l (vm, acc) = (vm, fold_left (fun a p => snd (body2 (vm, a) p)) l acc)).
  { induction l as [|[k cl] l IH]; intros vm acc; [reflexivity|]. cbn [fold_left].
    change (body2 (vm, acc) (k, cl)) with (vm, snd (body2 (vm, acc) (k, cl))). rewrite IH. reflexivity. }
  unfold fd_of. rewrite E2.
  rewrite (fill_table (fun i => map K (fMin n D i)) (fun c => [fun w => fal c w])).
  2:{ intros i acc Hi. unfold body2. cbv beta iota. cbn [snd]. f_equal.
      rewrite (mcs_masked i (fal (nth i D d0))) by (try exact Hi; intros w; rewrite hard_of_fold; simpl; apply andb_true_r).
      unfold fMin, ffam. rewrite (nth_ac i Hi). reflexivity. }
  reflexivity.
Qed.
End TieCComp.
