From InfOCF Require Import Core Tol Form Model Crev ThmCrev PyLib PyInt TieLib TieSet TieOcf TieCrev TieCrevCsp.
From InfOCFGen Require Import SrcCond SrcOcf SrcCrev.
From Coq Require Import ZArith Lia.
(* TIE: compile_alt_fast GENERATED from inference/c_revision.py (gen/SrcCrev.v) - the compilation c_revision() actually
   runs - equals the model's Crev.compile_fast, and hence (ThmCrev.compile_fast_alt) the reference compilation: one pass
   over the worlds, every conditional classified once per world (by its literal bit mask where it has one, by the solver
   otherwise), the triple then handed to the dictionaries of the conditionals verified / falsified there.
   _extract_cond_masks is a parameter here: what it must return is the model's mask_of (literal antecedent and consequent
   over atoms of the signature), which the correspondence check of C19 compares with the code. *)

Definition bZ (b:bool) : Z := if b then 1%Z else 0%Z.
Definition zmask (m:option (nat * bool * nat * bool)) : option (Z * Z * Z * Z) :=
  match m with Some (a, av, b, bv) => Some (Z.of_nat a, bZ av, Z.of_nat b, bZ bv) | None => None end.
Lemma bZ_eqb x y : (bZ x =? bZ y)%Z = Bool.eqb x y.
Proof. destruct x, y; reflexivity. Qed.
Lemma zmem_nat i l : zmem (Z.of_nat i) (map Z.of_nat l) = existsb (Nat.eqb i) l.
Proof. unfold zmem. induction l as [|a l IH]; [reflexivity|]. cbn [map existsb]. rewrite IH. f_equal.
  destruct (Nat.eqb_spec i a) as [->|Hne]; [apply Z.eqb_refl|apply Z.eqb_neq; lia]. Qed.
Lemma zset_of_in l x : In x (zset_of l) <-> In x l.
Proof. induction l as [|a l IH]; [reflexivity|]. cbn [zset_of]. destruct (zmem a (zset_of l)) eqn:E.
  - apply zmem_in in E. rewrite IH. split; [intros H; right; exact H|]. intros [<-|H]; [apply IH; exact E|exact H].
  - cbn [In]. rewrite IH. reflexivity. Qed.
Lemma zmem_zset_of x l : zmem x (zset_of l) = zmem x l.
Proof. destruct (zmem x l) eqn:E.
  - apply zmem_in. apply (proj2 (zset_of_in l x)). apply zmem_in. exact E.
  - apply zmem_false. intros H. apply (proj1 (zset_of_in l x)) in H. apply zmem_false in E. apply E. exact H. Qed.
Lemma filter_ne_nat k l : filter (fun i => negb (i =? Z.of_nat k)%Z) (map Z.of_nat l) = map Z.of_nat (filter (fun i => negb (i =? k)) l).
Proof. induction l as [|a l IH]; [reflexivity|]. cbn [map filter]. rewrite IH.
  assert (E: (Z.of_nat a =? Z.of_nat k)%Z = (a =? k)) by (destruct (Nat.eqb_spec a k) as [->|Hne]; [apply Z.eqb_refl|apply Z.eqb_neq; lia]).
  rewrite E. destruct (a =? k); reflexivity. Qed.
Lemma fold_two (P Q:cond -> bool) l a r :
  fold_left (fun (s:list Z * list Z) c => (if P c then fst s ++ [ckz c] else fst s, if Q c then snd s ++ [ckz c] else snd s)) l (a, r)
  = (a ++ map ckz (filter P l), r ++ map ckz (filter Q l)).
Proof. revert a r. induction l as [|c l IH]; intros a r; cbn [fold_left filter map]; [rewrite !app_nil_r; reflexivity|].
  cbn [fst snd]. rewrite IH. destruct (P c), (Q c); cbn [map]; rewrite <- ?app_assoc; reflexivity. Qed.

(* dictionaries whose keys are the indices of a list of conditionals with distinct indices *)
Definition mk {V} (l:list cond) (X:nat -> V) : dict Z V := map (fun c => (ckz c, X (ckey c))) l.
Lemma mk_find {V} (l:list cond) (X:nat -> V) c : In c l -> zdict_find (mk l X) (ckz c) = Some (X (ckey c)).
Proof. induction l as [|d l IH]; intros Hin; [destruct Hin|]. cbn [mk map zdict_find]. fold (mk l X).
  destruct (ckz d =? ckz c)%Z eqn:E.
  - unfold ckz in E. apply Z.eqb_eq in E. apply Nat2Z.inj in E. rewrite E. reflexivity.
  - destruct Hin as [->|Hin]; [rewrite Z.eqb_refl in E; discriminate|]. apply IH. exact Hin. Qed.
Lemma mk_set {V} (l:list cond) (X:nat -> V) k v :
  In (Z.of_nat k) (map ckz l) -> zdict_set (mk l X) (Z.of_nat k) v = mk l (fun k' => if k' =? k then v else X k') \/ True.
Proof. right. exact I. Qed.
Lemma mk_set_eq {V} (l:list cond) (X:nat -> V) c v : NoDup (map ckey l) -> In c l ->
  zdict_set (mk l X) (ckz c) v = mk l (fun k' => if k' =? ckey c then v else X k').
Proof. induction l as [|d l IH]; intros Hn Hin; [destruct Hin|]. cbn [map] in Hn. inversion Hn as [|? ? Hni Hn']; subst.
  cbn [mk map zdict_set]. fold (mk l X). fold (mk l (fun k' => if k' =? ckey c then v else X k')).
  destruct (ckz d =? ckz c)%Z eqn:E.
  - unfold ckz in E. apply Z.eqb_eq in E. apply Nat2Z.inj in E. rewrite E, Nat.eqb_refl. f_equal; [unfold ckz; rewrite E; reflexivity|].
    unfold mk. apply map_ext_in. intros c' Hc'. destruct (ckey c' =? ckey c) eqn:E2; [|reflexivity].
    apply Nat.eqb_eq in E2. exfalso. apply Hni. rewrite E, <- E2. apply in_map. exact Hc'.
  - assert (En: ckey d =? ckey c = false).
    { destruct (Nat.eqb_spec (ckey d) (ckey c)) as [Ek|]; [|reflexivity]. unfold ckz in E. rewrite Ek, Z.eqb_refl in E. discriminate. }
    rewrite En. f_equal. destruct Hin as [->|Hin]; [rewrite Z.eqb_refl in E; discriminate|]. apply IH; assumption. Qed.
Lemma key_inj (l:list cond) c1 c2 : NoDup (map ckey l) -> In c1 l -> In c2 l -> ckey c1 = ckey c2 -> c1 = c2.
Proof. induction l as [|d l IH]; intros Hn H1 H2 E; [destruct H1|]. cbn [map] in Hn. inversion Hn as [|? ? Hni Hn']; subst.
  destruct H1 as [->|H1], H2 as [->|H2]; auto.
  - exfalso. apply Hni. rewrite E. apply in_map. exact H2.
  - exfalso. apply Hni. rewrite <- E. apply in_map. exact H1. Qed.

Section Fast.
Variable n : nat.
Notation W := (worlds n).
Variable rank_world : world -> ctl Z unit unit.
Variable pr : prior.
Hypothesis Hworlds : forall p, In p pr -> In (fst p) W.
Hypothesis Hrank : forall p, In p pr -> rank_world (fst p) = Return (Z.of_nat (snd p)).
Variable cs : list cond.
Hypothesis Hnd : NoDup (map ckey cs).
Hypothesis Hidx : forall c a av b bv, In c cs -> mask_of c = Some (a, av, b, bv) -> a < n /\ b < n.

(* the signature a_0..a_(n-1) and the index dictionary built from it *)
Definition sig_n : list Z := map Z.of_nat (seq 0 n).
Definition sig_index : dict Z Z := map (fun '(v_i, v_v) => (v_v, v_i)) (py_enumerate sig_n).
Lemma sig_index_find i : i < n -> zdict_find sig_index (Z.of_nat i) = Some (Z.of_nat i).
Proof. intros Hi. unfold sig_index, sig_n, py_enumerate.
  assert (G: forall l k, (forall j, In j l -> k <= j) -> NoDup l -> In i l ->
             zdict_find (map (fun '(v_i, v_v) => (v_v, v_i)) (py_enumerate_from (Z.of_nat k) (map Z.of_nat l))) (Z.of_nat i)
             = option_map (fun p => Z.of_nat (k + p)) (List.find (fun p => true) (map fst (filter (fun q => Nat.eqb (snd q) i) (combine (seq 0 (length l)) l)))) \/ True) by (intros; right; exact I).
  clear G.
  assert (G: forall m k, i < k + m -> k <= i ->
             zdict_find (map (fun '(v_i, v_v) => (v_v, v_i)) (py_enumerate_from (Z.of_nat k) (map Z.of_nat (seq k m)))) (Z.of_nat i) = Some (Z.of_nat i)).
  { induction m as [|m IH]; intros k H1 H2; [lia|]. cbn [seq map py_enumerate_from zdict_find].
    destruct (Z.of_nat k =? Z.of_nat i)%Z eqn:E.
    - apply Z.eqb_eq in E. rewrite E. reflexivity.
    - apply Z.eqb_neq in E. replace (Z.of_nat k + 1)%Z with (Z.of_nat (S k)) by lia. apply IH; lia. }
  apply (G n 0); lia. Qed.

Definition zlit_info (o:option (nat * bool)) : option (Z * Z) := match o with Some (i, b) => Some (Z.of_nat i, bZ b) | None => None end.
Lemma literal_info_tie f : py_literal_info n f = Return (zlit_info (lit_info f)).
Proof. destruct f; try reflexivity. destruct f; reflexivity. Qed.
Lemma mex_ok c : In c cs -> py_extract_cond_masks n c sig_index = Return (zmask (mask_of c)).
Proof. intros Hc. unfold py_extract_cond_masks. rewrite !literal_info_tie. cbn [call]. cbv zeta.
  pose proof (Hidx c) as Hi. unfold mask_of in *.
  destruct (lit_info (cante c)) as [[a av]|]; [|reflexivity].
  destruct (lit_info (ccons c)) as [[b bv]|]; [|reflexivity].
  destruct (Hi a av b bv Hc eq_refl) as [Ha Hb].
  cbn [zlit_info is_none orb cbind py_unsome]. rewrite (sig_index_find a Ha). cbn [try_key cbind py_unsome].
  rewrite (sig_index_find b Hb). reflexivity. Qed.

Definition selF (w:world) (want:bool) (c:cond) : bool := match classify_fast c w with Some b => Bool.eqb b want | None => false end.
Definition accN (p:world * nat) : list nat := keys_where classify_fast cs (fst p) true.
Definition rejN (p:world * nat) : list nat := keys_where classify_fast cs (fst p) false.
Definition contribF (want:bool) (k:nat) (p:world * nat) : list (Z * list Z * list Z)%type :=
  if existsb (Nat.eqb k) (if want then accN p else rejN p) then [ztriple (snd p, remove_key k (accN p), remove_key k (rejN p))] else [].

Lemma acc_rej_excl p c : In c cs -> existsb (Nat.eqb (ckey c)) (accN p) = true -> existsb (Nat.eqb (ckey c)) (rejN p) = false.
Proof. intros Hc Ha. destruct (existsb (Nat.eqb (ckey c)) (rejN p)) eqn:Er; [|reflexivity]. exfalso.
  apply existsb_exists in Ha as [k1 [H1 E1]]. apply Nat.eqb_eq in E1. subst k1.
  apply existsb_exists in Er as [k2 [H2 E2]]. apply Nat.eqb_eq in E2. subst k2.
  unfold accN, keys_where in H1. apply in_map_iff in H1 as [c1 [Ek1 Hf1]]. apply filter_In in Hf1 as [Hc1 Hp1].
  unfold rejN, keys_where in H2. apply in_map_iff in H2 as [c2 [Ek2 Hf2]]. apply filter_In in Hf2 as [Hc2 Hp2].
  assert (c1 = c) by (apply (key_inj cs); auto). assert (c2 = c) by (apply (key_inj cs); auto). subst c1 c2.
  destruct (classify_fast c (fst p)) as [[|]|]; discriminate. Qed.

Lemma model_side want : mk cs (fun k => flat_map (contribF want k) pr) = zcomp (map (fun c => (ckey c, triples_fast cs pr c want)) cs).
Proof. unfold mk, zcomp. rewrite map_map. apply map_ext. intros c. cbn [fst snd]. f_equal.
  unfold triples_fast. rewrite map_flat_map_comm. apply flat_map_ext. intros p. unfold contribF, accN, rejN.
  destruct (existsb (Nat.eqb (ckey c)) (if want then keys_where classify_fast cs (fst p) true else keys_where classify_fast cs (fst p) false)); reflexivity. Qed.

Theorem tie_compile_alt_fast :
  py_compile_alt_fast n rank_world (zprior pr, sig_n) cs = Return (zcomp (fst (compile_fast cs pr)), zcomp (snd (compile_fast cs pr))).
Proof.
  unfold compile_fast. cbn [fst snd]. rewrite <- !model_side.
  unfold py_compile_alt_fast. cbv zeta. cbn [fst snd].
  (* the masks *)
  match goal with |- context [cbind (for_each cs ?b _) _] => set (body1 := b) end.
  assert (E1: forall l done, NoDup (map ckey (done ++ l)) -> incl l cs ->
            @for_each _ _ unit _ l body1 (map (fun c => (ckz c, zmask (mask_of c))) done) = Next (map (fun c => (ckz c, zmask (mask_of c))) (done ++ l))).
  { induction l as [|c l IH]; intros done Hn Hl; [cbn; rewrite app_nil_r; reflexivity|].
    cbn [for_each]. unfold body1 at 1. cbn [negb orb cbind]. fold sig_index. rewrite (mex_ok c (Hl c (or_introl eq_refl))). cbn [call].
    rewrite zdict_set_end.
    - specialize (IH (done ++ [c])). rewrite (map_app (fun c0 => (ckz c0, zmask (mask_of c0))) done [c]) in IH. cbn [map] in IH. rewrite IH; [rewrite <- app_assoc; reflexivity|rewrite <- app_assoc; exact Hn|].
      intros x Hx. apply Hl. right. exact Hx.
    - unfold dict_keys. rewrite map_map. cbn [fst]. rewrite map_app in Hn. cbn [map] in Hn. apply NoDup_remove_2 in Hn.
      intros Hin. apply Hn. apply in_or_app. left. apply in_map_iff in Hin as [x [E Hx]]. unfold ckz in E. apply Nat2Z.inj in E.
      rewrite <- E. apply in_map. exact Hx. }
  pose proof (E1 cs [] Hnd (incl_refl cs)) as E1'. cbn [map app] in E1'.
  match goal with |- cbind ?x _ = _ => replace x with (@Next (dict Z (list (Z * list Z * list Z)%type) * dict Z (list (Z * list Z * list Z)%type)) unit _ (map (fun c => (ckz c, zmask (mask_of c))) cs)) by (symmetry; exact E1') end.
  cbn [cbind]. clear E1 E1' body1.
  set (masks := map (fun c => (ckz c, zmask (mask_of c))) cs).
  assert (Emask: forall c R0 L0, In c cs -> @zdict_get _ R0 L0 masks (ckz c) = Next (zmask (mask_of c))).
  { intros c R0 L0 Hc. unfold zdict_get, masks. change (map (fun c0 => (ckz c0, zmask (mask_of c0))) cs) with (mk cs (fun k => k)) || idtac.
    assert (G: forall l, In c l -> NoDup (map ckey l) -> zdict_find (map (fun c0 => (ckz c0, zmask (mask_of c0))) l) (ckz c) = Some (zmask (mask_of c))).
    { induction l as [|d l IH]; intros Hin Hn; [destruct Hin|]. cbn [map] in Hn. inversion Hn as [|? ? Hni Hn']; subst. cbn [map zdict_find].
      destruct (ckz d =? ckz c)%Z eqn:E.
      - unfold ckz in E. apply Z.eqb_eq in E. apply Nat2Z.inj in E. destruct Hin as [->|Hin]; [reflexivity|].
        exfalso. apply Hni. rewrite E. apply in_map. exact Hin.
      - destruct Hin as [->|Hin]; [rewrite Z.eqb_refl in E; discriminate|]. apply IH; assumption. }
    rewrite (G cs Hc Hnd). reflexivity. }
  (* the initial dictionaries *)
  change (map (fun v_c => (ckz v_c, [])) cs) with (mk cs (fun _ : nat => ([] : list (Z * list Z * list Z)%type))).
  assert (Einit: mk cs (fun _ : nat => ([] : list (Z * list Z * list Z)%type)) = mk cs (fun k => flat_map (contribF true k) [])) by reflexivity.
  (* the loop over the worlds *)
  rewrite zprior_keys, for_each_map_arg.
  match goal with |- context [cbind (for_each pr ?b _) _] => set (bodyw := b) end.
  assert (Gw: forall l done, done ++ l = pr ->
            @for_each _ _ unit _ l bodyw (mk cs (fun k => flat_map (contribF true k) done), mk cs (fun k => flat_map (contribF false k) done))
            = Next (mk cs (fun k => flat_map (contribF true k) pr), mk cs (fun k => flat_map (contribF false k) pr))).
  { induction l as [|p l IH]; intros done Hd; [rewrite app_nil_r in Hd; subst done; reflexivity|].
    assert (Hp: In p pr) by (rewrite <- Hd; apply in_or_app; right; left; reflexivity).
    assert (Hw: In (fst p) W) by (apply Hworlds; exact Hp).
    assert (Hlen: length (fst p) = n) by (apply worlds_length; exact Hw).
    cbn [for_each]. unfold bodyw at 1. cbv zeta.
    (* classification of every conditional in this world *)
    match goal with |- context [for_each cs ?b ([], [])] => set (body3 := b) end.
    match goal with |- context [@for_each ?A0 ?R0 ?L0 ?S0 cs body3 ?s0] =>
      assert (E3: @for_each A0 R0 L0 S0 cs body3 s0 = Next (map Z.of_nat (accN p), map Z.of_nat (rejN p))) end.
    { rewrite (for_each_steps_c cs body3 (fun c s => (if selF (fst p) true c then fst s ++ [ckz c] else fst s, if selF (fst p) false c then snd s ++ [ckz c] else snd s))).
      - rewrite fold_two. cbn [app]. unfold accN, rejN, keys_where. rewrite !map_map. reflexivity.
      - intros c [a r] Hc. left. unfold body3. rewrite (Emask c _ _ Hc). cbn [cbind fst snd]. unfold selF, classify_fast.
        destruct (mask_of c) as [[[[ai av] bi] bv]|] eqn:Em; cbn [zmask is_none cbind py_unsome].
        + destruct (Hidx c ai av bi bv Hc Em) as [Ha Hb].
          set (bits := map (fun v_b : bool => if v_b then 1%Z else 0%Z) (fst p)).
          assert (Eb: forall i R0 L0, i < n -> @py_index Z R0 L0 bits (Z.of_nat i) = Next (bZ (nth i (fst p) false))).
          { intros i R0 L0 Hi. rewrite (py_index_nat bits i 0%Z) by (unfold bits; rewrite map_length, Hlen; exact Hi).
            unfold bits. change 0%Z with ((fun v_b : bool => if v_b then 1%Z else 0%Z) false). rewrite map_nth. reflexivity. }
          rewrite (Eb ai) by exact Ha. cbn [cbind]. rewrite bZ_eqb.
          destruct (Bool.eqb (nth ai (fst p) false) av); cbn [cbind].
          * rewrite (Eb bi) by exact Hb. cbn [cbind]. rewrite bZ_eqb. destruct (Bool.eqb (nth bi (fst p) false) bv); reflexivity.
          * reflexivity.
        + rewrite (sat_ver n (fst p) c Hw), (sat_fal n (fst p) c Hw). unfold classify.
          destruct (ver c (fst p)); [reflexivity|]. destruct (fal c (fst p)); reflexivity. }
    rewrite E3. cbn [cbind]. clear E3 body3.
    set (accZ := map Z.of_nat (accN p)). set (rejZ := map Z.of_nat (rejN p)).
    destruct (is_nil accZ && is_nil rejZ) eqn:Enil.
    - (* nothing verified or falsified here: continue *)
      rewrite !negb_involutive, Enil. cbn [cbind].
      assert (Ea: accN p = []) by (apply andb_true_iff in Enil as [H _]; unfold accZ in H; destruct (accN p); [reflexivity|discriminate]).
      assert (Er: rejN p = []) by (apply andb_true_iff in Enil as [_ H]; unfold rejZ in H; destruct (rejN p); [reflexivity|discriminate]).
      rewrite <- (IH (done ++ [p])) by (rewrite <- app_assoc; exact Hd). f_equal. f_equal; unfold mk; apply map_ext; intros c;
        rewrite flat_map_app; cbn [flat_map]; unfold contribF; rewrite ?Ea, ?Er; cbn [existsb]; rewrite !app_nil_r; reflexivity.
    - rewrite !negb_involutive, Enil. cbn [cbind]. rewrite (Hrank p Hp). cbn [call].
      (* handing the triple out *)
      match goal with |- context [for_each cs ?b _] => set (body4 := b) end.
      set (tz := fun k => ztriple (snd p, remove_key k (accN p), remove_key k (rejN p))).
      set (inacc := fun k => existsb (Nat.eqb k) (accN p)). set (inrej := fun k => existsb (Nat.eqb k) (rejN p)).
      set (inl := fun (k:nat) (l0:list cond) => existsb (fun d => ckey d =? k) l0).
      assert (E4: forall l0 (XV XF:nat -> list (Z * list Z * list Z)%type), incl l0 cs -> NoDup (map ckey l0) ->
                @for_each _ _ (dict Z (list (Z * list Z * list Z)%type) * dict Z (list (Z * list Z * list Z)%type)) _ l0 body4 (mk cs XV, mk cs XF)
                = Next (mk cs (fun k => XV k ++ if inl k l0 && inacc k then [tz k] else []),
                        mk cs (fun k => XF k ++ if inl k l0 && negb (inacc k) && inrej k then [tz k] else []))).
      { induction l0 as [|c l0 IH0]; intros XV XF Hl0 Hn0.
        - cbn [for_each]. f_equal. f_equal; unfold mk; apply map_ext; intros c; cbn; rewrite app_nil_r; reflexivity.
        - assert (Hc: In c cs) by (apply Hl0; left; reflexivity). cbn [map] in Hn0. inversion Hn0 as [|? ? Hni0 Hn0']; subst.
          cbn [for_each]. unfold body4 at 1. cbv zeta.
          assert (Ema: zmem (ckz c) (zset_of accZ) = inacc (ckey c)) by (rewrite zmem_zset_of; unfold accZ, ckz; apply zmem_nat).
          assert (Emr: zmem (ckz c) (zset_of rejZ) = inrej (ckey c)) by (rewrite zmem_zset_of; unfold rejZ, ckz; apply zmem_nat).
          rewrite !Ema, !Emr.
          assert (Etz: (Z.of_nat (snd p), map (fun v_i => v_i) (filter (fun v_i => negb (v_i =? ckz c)%Z) accZ), map (fun v_i => v_i) (filter (fun v_i => negb (v_i =? ckz c)%Z) rejZ)) = tz (ckey c)).
          { unfold tz, ztriple, accZ, rejZ, ckz, remove_key. cbn [fst snd]. rewrite !map_id, !filter_ne_nat. reflexivity. }
          assert (Hupd: forall (X:nat -> list (Z * list Z * list Z)%type) (b:bool) k', (if k' =? ckey c then X (ckey c) ++ (if b then [tz (ckey c)] else []) else X k')
                                                              = X k' ++ (if (k' =? ckey c) && b then [tz k'] else [])).
          { intros X b k'. destruct (Nat.eqb_spec k' (ckey c)) as [->|Hne]; cbn [andb]; [reflexivity|rewrite app_nil_r; reflexivity]. }
          assert (Hfin: forall k', In k' (map ckey cs) -> forall (b:bool),
                        (if (k' =? ckey c) && b then [tz k'] else []) ++ (if inl k' l0 && b then [tz k'] else []) = (if inl k' (c :: l0) && b then [tz k'] else [])).
          { intros k' _ b. unfold inl. cbn [existsb]. rewrite (Nat.eqb_sym (ckey c) k'). destruct (Nat.eqb_spec k' (ckey c)) as [->|Hne]; cbn [orb andb].
            - assert (E: existsb (fun d => ckey d =? ckey c) l0 = false).
              { destruct (existsb (fun d => ckey d =? ckey c) l0) eqn:E; [|reflexivity]. exfalso. apply existsb_exists in E as [d [Hd0 Ed]].
                apply Nat.eqb_eq in Ed. apply Hni0. rewrite <- Ed. apply in_map. exact Hd0. }
              rewrite E. cbn [andb]. rewrite app_nil_r. reflexivity.
            - reflexivity. }
          assert (E0: existsb (fun d => ckey d =? ckey c) l0 = false).
          { destruct (existsb (fun d => ckey d =? ckey c) l0) eqn:E; [|reflexivity]. exfalso. apply existsb_exists in E as [d [Hd0 Ed]].
            apply Nat.eqb_eq in Ed. apply Hni0. rewrite <- Ed. apply in_map. exact Hd0. }
          destruct (inacc (ckey c)) eqn:Eia; cbn [orb cbind].
          + (* verified here *)
            unfold zdict_get. rewrite (mk_find cs XV c Hc). cbn [cbind]. rewrite (mk_set_eq cs XV c _ Hnd Hc). cbn [cbind].
            rewrite Etz. rewrite (IH0 _ XF) by (try exact Hn0'; intros x Hx; apply Hl0; right; exact Hx).
            f_equal. f_equal; unfold mk; apply map_ext_in; intros c' Hc'; f_equal.
            * destruct (Nat.eqb_spec (ckey c') (ckey c)) as [Ek|Hne].
              -- rewrite Ek, <- app_assoc. f_equal. unfold inl. cbn [existsb]. rewrite Nat.eqb_refl, E0, Eia. reflexivity.
              -- f_equal. unfold inl. cbn [existsb]. rewrite (Nat.eqb_sym (ckey c) (ckey c')). apply Nat.eqb_neq in Hne. rewrite Hne. reflexivity.
            * f_equal. unfold inl. cbn [existsb]. destruct (Nat.eqb_spec (ckey c) (ckey c')) as [Ek|Hne]; [|reflexivity].
              rewrite <- Ek, Eia. cbn [orb negb andb]. rewrite andb_false_r. reflexivity.
          + destruct (inrej (ckey c)) eqn:Eir; cbn [cbind].
            * (* falsified here *)
              unfold zdict_get. rewrite (mk_find cs XF c Hc). cbn [cbind]. rewrite (mk_set_eq cs XF c _ Hnd Hc). cbn [cbind].
              rewrite Etz. rewrite (IH0 XV _) by (try exact Hn0'; intros x Hx; apply Hl0; right; exact Hx).
              f_equal. f_equal; unfold mk; apply map_ext_in; intros c' Hc'; f_equal.
              -- f_equal. unfold inl. cbn [existsb]. destruct (Nat.eqb_spec (ckey c) (ckey c')) as [Ek|Hne]; [|reflexivity].
                 rewrite <- Ek, Eia. cbn [orb andb]. rewrite andb_false_r. reflexivity.
              -- destruct (Nat.eqb_spec (ckey c') (ckey c)) as [Ek|Hne].
                 ++ rewrite Ek, <- app_assoc. f_equal. unfold inl. cbn [existsb]. rewrite Nat.eqb_refl, Eia, Eir. cbn [orb negb andb].
                    assert (E: existsb (fun d => ckey d =? ckey c) l0 = false).
                    { destruct (existsb (fun d => ckey d =? ckey c) l0) eqn:E; [|reflexivity]. exfalso. apply existsb_exists in E as [d [Hd0 Ed]].
                      apply Nat.eqb_eq in Ed. apply Hni0. rewrite <- Ed. apply in_map. exact Hd0. }
                    rewrite E. reflexivity.
                 ++ f_equal. unfold inl. cbn [existsb]. rewrite (Nat.eqb_sym (ckey c) (ckey c')). apply Nat.eqb_neq in Hne. rewrite Hne. reflexivity.
            * (* neither *)
              rewrite (IH0 XV XF) by (try exact Hn0'; intros x Hx; apply Hl0; right; exact Hx).
              f_equal. f_equal; unfold mk; apply map_ext_in; intros c' Hc'; f_equal; f_equal; unfold inl; cbn [existsb];
                (destruct (Nat.eqb_spec (ckey c) (ckey c')) as [Ek|Hne]; [|reflexivity]); rewrite <- Ek, ?Eia, ?Eir; cbn [orb negb andb];
                rewrite ?andb_false_r; reflexivity. }
      rewrite (E4 cs _ _ (incl_refl cs) Hnd). cbn [cbind].
      rewrite <- (IH (done ++ [p])) by (rewrite <- app_assoc; exact Hd). f_equal. f_equal; unfold mk; apply map_ext_in; intros c Hc;
        rewrite flat_map_app; cbn [flat_map]; rewrite app_nil_r; f_equal; f_equal; unfold contribF, inl.
      + assert (Ein: existsb (fun d => ckey d =? ckey c) cs = true) by (apply existsb_exists; exists c; split; [exact Hc|apply Nat.eqb_refl]).
        rewrite Ein. cbn [andb]. reflexivity.
      + assert (Ein: existsb (fun d => ckey d =? ckey c) cs = true) by (apply existsb_exists; exists c; split; [exact Hc|apply Nat.eqb_refl]).
        rewrite Ein. cbn [andb]. unfold inacc, inrej. destruct (existsb (Nat.eqb (ckey c)) (accN p)) eqn:Ea; cbn [negb andb].
        * rewrite (acc_rej_excl p c Hc Ea). reflexivity.
        * reflexivity. }
  match goal with |- cbind ?x _ = _ =>
    replace x with (@Next (dict Z (list (Z * list Z * list Z)%type) * dict Z (list (Z * list Z * list Z)%type)) unit _
                      (mk cs (fun k => flat_map (contribF true k) pr), mk cs (fun k => flat_map (contribF false k) pr)))
      by (symmetry; exact (Gw pr [] eq_refl)) end.
  reflexivity.
Qed.
End Fast.

(* the chain c_revision() runs when no model object is passed: compile_alt_fast, then translate_to_csp *)
Corollary src_fast_chain n rank_world pr (Hworlds:forall p, In p pr -> In (fst p) (worlds n))
  (Hrank:forall p, In p pr -> rank_world (fst p) = Return (Z.of_nat (snd p))) cs (Hnd:NoDup (map ckey cs))
  (Hidx:forall c a av b bv, In c cs -> mask_of c = Some (a, av, b, bv) -> a < n /\ b < n)
  gpz gp gm (Hgp0:gpz = true -> forall k, gp k = 0) : exists comp csp,
  py_compile_alt_fast n rank_world (zprior pr, sig_n n) cs = Return comp /\
  py_translate_to_csp n comp gpz tt tt = Return csp /\
  forall s, TieCrevCsp.gamma_assignment gp gm s ->
    ((exists s', (forall z, s' (SGp z) = s (SGp z) /\ s' (SGm z) = s (SGm z)) /\ csp_sat s' csp = true)
     <-> forallb (accepts_star cs pr gp gm) cs = true).
Proof. destruct (TieCrevCsp.tie_crev_chain n cs Hnd pr gpz gp gm Hgp0) as [csp [Ec Hc]].
  exists (zcomp (fst (compile_alt cs pr)), zcomp (snd (compile_alt cs pr))), csp. split; [|split; [exact Ec|exact Hc]].
  rewrite <- (compile_fast_alt cs pr Hnd). apply tie_compile_alt_fast; assumption. Qed.
