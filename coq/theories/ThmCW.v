From InfOCF Require Import Core Tol SysZ SysW CInf CW PEnt Form Model Spec CModel ThmC Thm06 ThmTop ThmPostInt.
From Coq Require Import Permutation.
(* C08: c-inference is included in System W, at formula level: from a falsifying world of the query that no verifying
   world dominates w.r.t. <_w, CW.v builds layered impacts; here they are re-indexed by the position of the
   conditional in the base (through its key) and shown to be a c-representation of D that does not accept the query. *)
Section SumF.
Context {A:Type}.
Fixpoint sumf (f:A->nat) (l:list A) : nat := match l with [] => 0 | a::r => f a + sumf f r end.
Lemma sumf_app f l1 l2 : sumf f (l1 ++ l2) = sumf f l1 + sumf f l2.
Proof. induction l1 as [|a l1 IH]; cbn [sumf app]; lia. Qed.
Lemma sumf_perm f l l' : Permutation l l' -> sumf f l = sumf f l'.
Proof. induction 1; cbn [sumf]; lia. Qed.
Lemma sumf_ext_in f g l : (forall a, In a l -> f a = g a) -> sumf f l = sumf g l.
Proof. induction l as [|a l IH]; intros H; cbn [sumf]; auto. rewrite (H a (or_introl eq_refl)), IH; auto. intros; apply H; right; auto. Qed.
Lemma sumsel_sumf (b:A->bool) (g:A->nat) l : sumsel (map b l) (map g l) = sumf (fun a => if b a then g a else 0) l.
Proof. induction l as [|a l IH]; cbn [map sumsel sumf]; auto. Qed.
End SumF.

Lemma nodup_app_l {A} (l l':list A) : NoDup (l ++ l') -> NoDup l.
Proof. induction l as [|a l IH]; intros H; [constructor|]. cbn [app] in H. inversion H as [|? ? Hn Hd]; subst. constructor; [|apply IH; auto].
  intros Hi. apply Hn. apply in_or_app. left; auto. Qed.
Lemma nodup_app_r {A} (l l':list A) : NoDup (l ++ l') -> NoDup l'.
Proof. induction l as [|a l IH]; intros H; [exact H|]. cbn [app] in H. inversion H; subst. apply IH; auto. Qed.

Section Lift.
Notation acond := (acond world).
Variable N : nat.
Variable w' : world.

Fixpoint impk (ls:list (list acond)) (k:nat) : nat :=
  match ls with [] => 0
  | L::rest => match find (fun c => key world c =? k) L with Some c => imp world N w' (length rest) c | None => impk rest k end end.

Lemma find_key_self L c : NoDup (map (key world) L) -> In c L -> find (fun d => key world d =? key world c) L = Some c.
Proof. induction L as [|d L IH]; intros Hnd Hin; [destruct Hin|]. cbn [find]. inversion Hnd as [|? ? Hn Hnd']; subst.
  destruct Hin as [->|Hin]; [rewrite Nat.eqb_refl; reflexivity|].
  destruct (key world d =? key world c) eqn:E; [|apply IH; auto].
  apply Nat.eqb_eq in E. exfalso. apply Hn. rewrite E. apply in_map. exact Hin. Qed.
Lemma find_key_none L k : (forall d, In d L -> key world d <> k) -> find (fun d => key world d =? k) L = None.
Proof. induction L as [|d L IH]; intros H; cbn [find]; auto. destruct (key world d =? k) eqn:E.
  - apply Nat.eqb_eq in E. exfalso. apply (H d); [left; auto|exact E].
  - apply IH. intros; apply H; right; auto. Qed.

Lemma kap_sumf ls w : NoDup (map (key world) (concat ls)) ->
  kap world ls (etas world N w' ls) w = sumf (fun c => if cfal world c w then impk ls (key world c) else 0) (concat ls).
Proof. induction ls as [|L rest IH]; intros Hnd; [reflexivity|]. cbn [kap etas concat]. cbn [concat] in Hnd.
  rewrite map_app in Hnd. rewrite sumf_app. unfold Fl. rewrite sumsel_sumf. f_equal.
  - apply sumf_ext_in. intros c Hc. destruct (cfal world c w); auto. cbn [impk].
    rewrite find_key_self; auto. apply nodup_app_l in Hnd. exact Hnd.
  - rewrite IH by (apply nodup_app_r in Hnd; exact Hnd). apply sumf_ext_in. intros c Hc. destruct (cfal world c w); auto. cbn [impk].
    rewrite find_key_none; auto. intros d Hd E.
    assert (H1: In (key world d) (map (key world) L)) by (apply in_map; exact Hd).
    assert (H2: In (key world d) (map (key world) (concat rest))) by (rewrite E; apply in_map; exact Hc).
    clear -Hnd H1 H2. induction (map (key world) L) as [|x l IHl]; [destruct H1|].
    cbn [app] in Hnd. inversion Hnd as [|? ? Hn Hnd']; subst. destruct H1 as [->|H1]; [apply Hn; apply in_or_app; right; exact H2|apply IHl; auto]. Qed.
End Lift.

Section Top.
Variable n : nat.
Notation W := (worlds n).
Variable D : list cond.
Variable P : list (list (acond world)).
Hypothesis HP : part_strict n D = Some P.
Hypothesis Hkeys : NoDup (map ckey D).
Notation aD := (map ac D).
Notation ls := (rev P).
Notation N := (length D).

Lemma perm_ls : Permutation (concat ls) aD.
Proof. apply strict_partition in HP as [_ [Hp _]]. eapply Permutation_trans; [|exact Hp].
  clear. induction P as [|L P' IH]; [constructor|]. cbn [rev concat]. rewrite concat_app. cbn [concat]. rewrite app_nil_r.
  eapply Permutation_trans; [apply Permutation_app_comm|]. apply Permutation_app_head. exact IH. Qed.
Lemma keys_ls : NoDup (map (key world) (concat ls)).
Proof. eapply Permutation_NoDup; [apply Permutation_map; apply Permutation_sym; apply perm_ls|]. rewrite map_map. exact Hkeys. Qed.
Lemma len_ls : length (concat ls) <= N.
Proof. rewrite (Permutation_length perm_ls), map_length. apply le_n. Qed.

Variable w' : world.
Definition eta_w : list nat := map (fun c => impk N w' ls (ckey c)) D.
Lemma eta_w_len : length eta_w = length D. Proof. unfold eta_w. apply map_length. Qed.
Lemma ckappa_kap w : ckappa D eta_w w = CW.kappa world N w' ls w.
Proof. unfold ckappa, CInf.kappa, CW.kappa, F, eta_w. rewrite (kap_sumf N w' ls w keys_ls).
  rewrite <- (sumf_perm _ _ _ (Permutation_sym perm_ls)).
  replace (map (fun c => impk N w' ls (ckey c)) D) with (map (fun a => impk N w' ls (key world a)) aD) by (rewrite map_map; reflexivity).
  rewrite sumsel_sumf. reflexivity. Qed.

(* the layers of is_tp, read from the top *)
Lemma tp_split : forall (Q:list (list (acond world))) P1 L P2, is_tp world W Q -> Q = P1 ++ L :: P2 ->
  forall c, In c L -> tolerated world W (L ++ concat P2) c = true.
Proof. induction Q as [|L0 Q IH]; intros P1 L P2 Ht E c Hc; [destruct P1; discriminate|]. destruct Ht as [_ [Htol Ht]].
  destruct P1 as [|L1 P1]; cbn [app] in E; injection E as -> ->; [apply Htol; exact Hc|]. eapply IH; eauto. Qed.

Variable q : cond.
Hypothesis Hw' : In w' W /\ fal q w' = true.
Hypothesis Hund : forall w, In w W -> ver q w = true -> wless world (desc P) w w' = false.

Lemma desc_Fl : desc P = map (Fl world) ls.
Proof. unfold desc. rewrite map_rev. reflexivity. Qed.

Theorem counter_not_accepts : qacc_b n D eta_w q = false.
Proof. destruct (qacc_b n D eta_w q) eqn:E; auto. exfalso. apply qacc_accepts in E. destruct E as [w [Hw [Hv Hall]]].
  cbn [cver cfal ac] in Hv, Hall.
  apply (counter_rep_rejects world W N w' ls len_ls (ver q) (fal q) Hw').
  - intros w0 Hw0 Hv0. rewrite <- desc_Fl. apply Hund; auto.
  - exists w. split; auto. split; auto. intros w'' Hw'' Hf''. rewrite <- !ckappa_kap. apply Hall; auto. Qed.

Theorem counter_is_crep : crep_b n D eta_w = true.
Proof. unfold crep_b. apply forallb_forall. intros i Hi. apply in_seq in Hi. cbn [plus] in Hi. destruct Hi as [_ Hi].
  unfold accepts_i. apply lt_opt_minl_iff.
  set (d0 := Build_acond world 0 (fun _ => false) (fun _ => false)). set (c := nth i aD d0).
  assert (Hc: In c (concat ls)).
  { eapply Permutation_in; [apply Permutation_sym; apply perm_ls|]. apply nth_In. rewrite map_length. exact Hi. }
  apply in_concat in Hc as [L [HL HcL]]. apply in_split in HL as [above [rest E]].
  destruct (In_nth L c d0 HcL) as [i' [Hi' Hn]].
  (* toleration, from the partition read bottom-up *)
  pose proof (strict_partition n D P HP) as [Hm _]. apply mtp_tp in Hm.
  assert (EP: P = rev rest ++ L :: rev above).
  { rewrite <- (rev_involutive P). rewrite E. rewrite rev_app_distr. cbn [rev]. rewrite <- app_assoc. reflexivity. }
  pose proof (tp_split P (rev rest) L (rev above) Hm EP c HcL) as Htol. apply tolerated_iff in Htol as [w0 [Hw0 [Hv0 Hno]]].
  destruct (counter_rep_accepts world W N w' ls len_ls above L rest i' E Hi') as [w1 [Hw1 [Hv1 Hall]]].
  { exists w0. split; auto. fold d0. rewrite Hn. split; auto. intros d Hd. apply Hno. apply in_app_or in Hd as [Hd|Hd]; apply in_or_app; auto.
    right. apply in_concat in Hd as [X [HX HdX]]. apply in_concat. exists X. split; auto. apply in_rev. rewrite rev_involutive. exact HX. }
  fold d0 in Hv1, Hall. rewrite Hn in Hv1, Hall.
  exists (CInf.kappa world aD eta_w w1). split; [apply in_map; apply sel_in; unfold top; auto|].
  intros b Hb. apply in_map_iff in Hb as [w2 [<- Hw2]]. apply sel_in in Hw2 as [Hw2 [_ Hf2]].
  change (ckappa D eta_w w1 < ckappa D eta_w w2). rewrite !ckappa_kap. apply Hall; auto. Qed.
End Top.

Lemma forallb_false_ex' {A} (f:A->bool) l : forallb f l = false -> exists x, In x l /\ f x = false.
Proof. induction l as [|a l IH]; cbn [forallb]; [discriminate|]. destruct (f a) eqn:E; cbn [andb]; intros H.
  - destruct (IH H) as [x [? ?]]. exists x. split; [right|]; auto.
  - exists a. split; [left|]; auto. Qed.

(* whatever c-inference infers, System W infers (strict mode, indices distinct) *)
Theorem c_sub_w n D P q : part_strict n D = Some P -> NoDup (map ckey D) -> c_spec_prop n D q -> w_spec (worlds n) P q = true.
Proof. intros HP Hk Hc. destruct (w_spec (worlds n) P q) eqn:E; auto. exfalso. unfold w_spec in E.
  apply forallb_false_ex' in E as [w' [Hw' Hb]]. apply orb_false_iff in Hb as [Hf Hex]. apply negb_false_iff in Hf.
  assert (Hund: forall w, In w (worlds n) -> ver q w = true -> wless world (desc P) w w' = false).
  { intros w Hw Hv. destruct (wless world (desc P) w w') eqn:E2; auto. exfalso.
    assert (existsb (fun w => ver q w && wless world (desc P) w w') (worlds n) = true) by (apply existsb_exists; exists w; rewrite Hv, E2; auto). congruence. }
  pose proof (counter_not_accepts n D P HP Hk w' q (conj Hw' Hf) Hund) as Hna.
  pose proof (counter_is_crep n D P HP Hk w') as Hcr.
  rewrite (Hc (eta_w D P w') (eta_w_len D P w') Hcr) in Hna. discriminate. Qed.
Theorem c_sub_w_answers n D P q : D <> [] -> part_strict n D = Some P -> NoDup (map ckey D) -> c_infer_prop n D q ->
  Model.infer n SysW false D q = Ans true.
Proof. intros HD HP Hk Hc. rewrite (infer_w_strict n D q P HD HP). f_equal. apply (c_sub_w n D P q HP Hk).
  destruct Hc as [Hs Hc]. apply (c_correct n D q Hs). split; auto. Qed.
