From InfOCF Require Import Core Tol TolExt Lex Form Model Spec Exec Thm06 ThmOps ThmTop PyLib TieLib TieSet TieSolver TieCons TieMax TieLayer TieLex.
From InfOCFGen Require Import SrcCond SrcCons SrcLex.
From Coq Require Import ZArith.
(* TIE, composed for lexicographic inference: on the model's partition (a layering of the base) and the canonical CNF
   dictionaries the generated LexInf._inference gives the model's `op SysLex`, hence `infer` and the definition. *)

Section TieLexE2E.
Variable n : nat.
Variable D : list cond.
Hypothesis Hnd : NoDup (map kz D).
Notation nf_of := (nf_of D).
Notation fd_of := (fd_of D).
Notation bb_of := (bb_of D).
Theorem e2e_lex weakly q P vq0 fq0 : D <> [] -> consistency n weakly D = Some P ->
  exists lay m b, P = acP (Pc D lay m) /\
    py_LexInf_inference n (S m) (Pk D lay m) nf_of fd_of vq0 fq0 bb_of tt q weakly tt = Return b /\
    infer n SysLex weakly D q = Ans (trivial n q || b).
Proof. intros HD HP. destruct (partition_layering n D weakly P HD HP) as [lay [m [EP [Hb Hm]]]].
  exists lay, m. eexists. split; [exact EP|]. split.
  - apply (tie_lex_inference n q D Hnd lay m Hb Hm nf_of fd_of (nf_of_keys D) (nf_of_ok D Hnd) (fd_of_ok D Hnd) bb_of (bb_of_ok D Hnd)).
  - unfold infer. destruct D as [|c0 D0] eqn:ED; [congruence|]. rewrite <- ED in *. rewrite HP.
    rewrite EP. destruct weakly; cbn [op]; [reflexivity|]. destruct (trivial n q); reflexivity. Qed.

Lemma ans_inj_l a b : Ans a = Ans b -> a = b.  Proof. congruence. Qed.
Corollary src_lex_strict_spec q P vq0 fq0 : D <> [] -> part_strict n D = Some P ->
  exists lay m b, P = acP (Pc D lay m) /\
    py_LexInf_inference n (S m) (Pk D lay m) nf_of fd_of vq0 fq0 bb_of tt q false tt = Return b /\
    (trivial n q || b) = Spec.lex_spec (worlds n) P q.
Proof. intros HD HP. destruct (e2e_lex false q P vq0 fq0 HD HP) as [lay [m [b [E1 [E2 E3]]]]].
  exists lay, m, b. split; [exact E1|]. split; [exact E2|]. apply ans_inj_l. rewrite <- E3. apply ThmTop.infer_lex_strict; assumption. Qed.
Corollary src_lex_ext_spec q P vq0 fq0 : D <> [] -> part_ext n D = Some P ->
  exists lay m b, P = acP (Pc D lay m) /\
    py_LexInf_inference n (S m) (Pk D lay m) nf_of fd_of vq0 fq0 bb_of tt q true tt = Return b /\
    (trivial n q || b) = Spec.ext_spec (worlds n) P q Spec.lex_spec.
Proof. intros HD HP. destruct (e2e_lex true q P vq0 fq0 HD HP) as [lay [m [b [E1 [E2 E3]]]]].
  exists lay, m, b. split; [exact E1|]. split; [exact E2|]. apply ans_inj_l. rewrite <- E3. apply ThmTop.infer_lex_ext; assumption. Qed.
End TieLexE2E.
