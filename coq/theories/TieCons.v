From InfOCF Require Import Core Tol TolExt Form Model Thm06 PyLib TieLib TieSolver.
From InfOCFGen Require Import SrcCond SrcCons.
From Coq Require Import ZArith Permutation.
(* TIE: the functions GENERATED from inference/consistency_sat.py (gen/SrcCons.v) equal the hand-written
   model of the consistency test (Model.consistency = Tol.tol_loop / tol_loop_ext), for every signature
   size, base and mode; in particular the translated `while True` loop terminates within |D|+1 rounds. *)

Section TieCons.
Variable n : nat.
Notation W := (worlds n).

(* the model's loop, read at the level of conditionals (the model works on `ac c`) *)
Definition tolc (D:list cond) (c:cond) : bool := tolerated world W (map ac D) (ac c).
Definition Rc D := filter (tolc D) D.
Definition Cc D := filter (fun c => negb (tolc D c)) D.
Fixpoint loop_c (weakly:bool) (fuel:nat) (D:list cond) : option (list (list cond)) :=
  match D with [] => Some (if weakly then [[]] else []) | _ =>
  match fuel with 0 => None | S f =>
    match Rc D with
    | [] => if weakly then (if existsb (nofals world (map ac D)) W then Some [Cc D] else None) else None
    | _ => match loop_c weakly f (Cc D) with Some P => Some (Rc D :: P) | None => None end end end end.

Lemma filter_map_ac (p:acond world -> bool) D : filter p (map ac D) = map ac (filter (fun c => p (ac c)) D).
Proof. induction D as [|a D IH]; simpl; auto. destruct (p (ac a)); simpl; rewrite IH; reflexivity. Qed.
Lemma Rc_model D : tolR world W (map ac D) = map ac (Rc D).
Proof. unfold tolR, Rc. apply filter_map_ac. Qed.
Lemma Cc_model D : tolC world W (map ac D) = map ac (Cc D).
Proof. unfold tolC, Cc. apply filter_map_ac. Qed.
Lemma map_nil_iff {A B} (f:A->B) l : map f l = [] <-> l = [].
Proof. destruct l; simpl; split; congruence. Qed.

Lemma loop_c_model weakly f D :
  option_map (map (map ac)) (loop_c weakly f D)
  = if weakly then tol_loop_ext world W f (map ac D) else tol_loop world W f (map ac D).
Proof. revert D. induction f as [|f IH]; intros D.
  - destruct D, weakly; reflexivity.
  - destruct D as [|d D0]; [destruct weakly; reflexivity|]. remember (d::D0) as D eqn:ED.
    assert (Hne: map ac D <> []) by (subst; discriminate).
    destruct weakly.
    + rewrite ext_unfold by exact Hne. rewrite Rc_model, Cc_model.
      assert (E: loop_c true (S f) D = match Rc D with
        | [] => if existsb (nofals world (map ac D)) W then Some [Cc D] else None
        | _ => match loop_c true f (Cc D) with Some P => Some (Rc D :: P) | None => None end end) by (subst; reflexivity).
      rewrite E. destruct (Rc D) as [|r R0] eqn:ER; cbn [map].
      * destruct (existsb _ W); reflexivity.
      * rewrite <- IH. destruct (loop_c true f (Cc D)); reflexivity.
    + rewrite loop_unfold by exact Hne. rewrite Rc_model, Cc_model.
      assert (E: loop_c false (S f) D = match Rc D with
        | [] => None
        | _ => match loop_c false f (Cc D) with Some P => Some (Rc D :: P) | None => None end end) by (subst; reflexivity).
      rewrite E. destruct (Rc D) as [|r R0] eqn:ER; cbn [map]; [reflexivity|].
      rewrite <- IH. destruct (loop_c false f (Cc D)); reflexivity.
Qed.

(* ---- what the solver holds inside one round ---- *)
Lemma knowledge_holds D w :
  forallb (eval w) (py_toImplicit n D) = nofals world (map ac D) w.
Proof. unfold py_toImplicit, nofals. induction D as [|c D IH]; simpl; auto. rewrite IH. f_equal.
  unfold fal. destruct (eval w (cante c)), (eval w (ccons c)); reflexivity. Qed.
Lemma round_solver_holds D w :
  s_holds (fold_left s_add (py_toImplicit n D) (s_push new_solver)) w = nofals world (map ac D) w.
Proof. rewrite s_holds_fold_add, knowledge_holds. simpl. apply andb_true_r. Qed.
Lemma tolerance_test D s c : (forall w, s_holds s w = nofals world (map ac D) w) ->
  s_solve n (s_add (s_push s) (py_make_A_then_B n c)) = tolc D c.
Proof. intros Hs. unfold tolc, tolerated. apply s_solve_ext. intros w.
  rewrite s_holds_add, s_holds_push, Hs. reflexivity. Qed.

Lemma split_len_c D : length (Rc D) + length (Cc D) = length D.
Proof. unfold Rc, Cc. induction D as [|a D' IH]; simpl; auto.
  (* the filter predicate mentions the whole D: generalise it *)
Abort.
Lemma filter_split_len {A} (p:A->bool) l : length (filter p l) + length (filter (fun x => negb (p x)) l) = length l.
Proof. induction l as [|a l IH]; simpl; auto. destruct (p a); simpl; lia. Qed.

(* the inner for-loop: tolerated conditionals go to R, the others to C; the solver comes back unchanged.
   Stated for any loop body that behaves like this on the round's solver, so that the proof below depends on the
   generated text only through one pointwise equation. *)
Lemma inner_loop D (s:solver) (F:Z * solver * list cond * list cond -> cond -> Z * solver * list cond * list cond) :
  (forall calls R C c, F (calls, s, R, C) c
     = ((calls + 1)%Z, s, (if tolc D c then R ++ [c] else R), (if tolc D c then C else C ++ [c]))) ->
  forall l calls R C,
  fold_left F l (calls, s, R, C)
  = ((calls + Z.of_nat (length l))%Z, s, R ++ filter (tolc D) l, C ++ filter (fun c => negb (tolc D c)) l).
Proof. intros HF. induction l as [|c l IH]; intros calls R C.
  - simpl. rewrite Z.add_0_r, !app_nil_r. reflexivity.
  - cbn [fold_left]. rewrite HF, IH. cbn [filter length].
    replace (calls + 1 + Z.of_nat (length l))%Z with (calls + Z.of_nat (S (length l)))%Z by lia.
    destruct (tolc D c); cbn [negb]; rewrite <- ?app_assoc; reflexivity. Qed.

Lemma loop_c_S weakly f D : D <> [] -> loop_c weakly (S f) D =
  match Rc D with
  | [] => if weakly then (if existsb (nofals world (map ac D)) W then Some [Cc D] else None) else None
  | _ => match loop_c weakly f (Cc D) with Some P => Some (Rc D :: P) | None => None end end.
Proof. destruct D; [congruence|reflexivity]. Qed.

Definition res_of {A} (o:option A) : pyres A := match o with Some a => PVal a | None => PFalse end.

Theorem tie_consistency_loop weakly (d:dict Z cond) u :
  exists stats, py_consistency n (S (length d)) (Build_pybase d) u weakly
    = Return (res_of (loop_c weakly (length d) (dict_values d)), stats).
Proof.
  unfold py_consistency. cbn [bb_conditionals]. rewrite map_id.
  match goal with |- context [while_true _ ?b _] => set (body := b) end.
  assert (H: forall f part lv calls Dcur, length Dcur <= f -> exists stats,
     @while_true _ unit _ (S f) body (part, lv, calls, Dcur)
     = Return (match loop_c weakly f Dcur with Some P => PVal (part ++ P) | None => PFalse end, stats)).
  { induction f as [|f IH]; intros part lv calls Dcur Hlen.
    - destruct Dcur; [|simpl in Hlen; lia]. cbn. destruct weakly; rewrite ?app_nil_r; eexists; reflexivity.
    - destruct Dcur as [|c0 D0].
      { cbn. destruct weakly; rewrite ?app_nil_r; eexists; reflexivity. }
      remember (c0::D0) as Dc eqn:EDc.
      rewrite while_true_S. unfold body at 1. cbv beta iota zeta.
      replace (py_len Dc =? 0)%Z with false by (subst; reflexivity). cbn [cbind].
      erewrite (inner_loop Dc).
      2:{ intros calls' R' C' c'. cbv beta iota zeta.
          rewrite (tolerance_test Dc) by apply round_solver_holds.
          destruct (tolc Dc c'); reflexivity. }
      cbv beta iota zeta. cbn [app]. fold (Rc Dc). fold (Cc Dc).
      rewrite loop_c_S by (subst; discriminate).
      assert (Hsolve: s_solve n (fold_left (fun (v_s : solver) (v_k : form) => s_add v_s v_k) (py_toImplicit n Dc) (s_push new_solver))
                      = existsb (nofals world (map ac Dc)) W).
      { apply s_solve_ext. intros w. apply round_solver_holds. }
      rewrite Hsolve.
      destruct (Rc Dc) as [|r R0] eqn:ER; cbn [is_nil].
      + destruct weakly; [|cbn [cbind]; eexists; reflexivity].
        destruct (existsb (nofals world (map ac Dc)) W); cbn [negb cbind]; eexists; reflexivity.
      + cbn [cbind]. rewrite <- ER.
        assert (Hl: length (Cc Dc) <= f).
        { pose proof (filter_split_len (tolc Dc) Dc) as Hs. fold (Rc Dc) in Hs. fold (Cc Dc) in Hs.
          rewrite ER in Hs. simpl in Hs. lia. }
        destruct (IH (part ++ [Rc Dc]) (lv + 1)%Z (calls + Z.of_nat (length Dc))%Z (Cc Dc) Hl) as [st Hst].
        rewrite Hst. exists st. destruct (loop_c weakly f (Cc Dc)); [|reflexivity].
        rewrite <- app_assoc. reflexivity. }
  destruct (H (length d) [] 0%Z 0%Z (dict_values d)) as [st Hst].
  { unfold dict_values. rewrite map_length. lia. }
  cbv zeta. rewrite Hst. exists st. cbn [cbind]. destruct (loop_c weakly (length d) (dict_values d)); reflexivity.
Qed.

Definition pres_map {A B} (f:A->B) (p:pyres A) : pyres B := match p with PFalse => PFalse | PVal a => PVal (f a) end.

(* consistency(): the generated function returns, for every dictionary of conditionals and either mode, exactly
   the model's verdict and partition (read through `ac`), within |D|+1 rounds of its `while True` loop *)
Theorem tie_consistency weakly (d:dict Z cond) u : exists r stats,
  py_consistency n (S (length d)) (Build_pybase d) u weakly = Return (r, stats) /\
  pres_map (map (map ac)) r = res_of (Model.consistency n weakly (dict_values d)).
Proof. destruct (tie_consistency_loop weakly d u) as [st H]. eexists. exists st. split; [exact H|].
  unfold Model.consistency, part_ext, part_strict.
  assert (El: length (dict_values d) = length d) by (unfold dict_values; apply map_length). rewrite El.
  pose proof (loop_c_model weakly (length d) (dict_values d)) as E.
  destruct weakly; rewrite <- E; destruct (loop_c _ (length d) (dict_values d)); reflexivity. Qed.
End TieCons.

Section TieConsTop.
Variable n : nat.
Notation W := (worlds n).
(* what the generated consistency() returned is the model's partition *)
Lemma src_partition weakly (d:dict Z cond) u Pc st :
  py_consistency n (S (length d)) (Build_pybase d) u weakly = Return (PVal Pc, st) ->
  consistency n weakly (dict_values d) = Some (acP Pc).
Proof. intros H. destruct (tie_consistency n weakly d u) as [r [st' [Hrun Hres]]].
  rewrite H in Hrun. injection Hrun as <- _. cbn [pres_map] in Hres.
  destruct (consistency n weakly (dict_values d)); cbn [res_of] in Hres; [|discriminate].
  injection Hres as <-. reflexivity. Qed.
Lemma src_inconsistent weakly (d:dict Z cond) u st :
  py_consistency n (S (length d)) (Build_pybase d) u weakly = Return (PFalse, st) ->
  consistency n weakly (dict_values d) = None.
Proof. intros H. destruct (tie_consistency n weakly d u) as [r [st' [Hrun Hres]]].
  rewrite H in Hrun. injection Hrun as <- _. cbn [pres_map] in Hres.
  destruct (consistency n weakly (dict_values d)); cbn [res_of] in Hres; [discriminate|reflexivity]. Qed.

Lemma partition_nonempty weakly D P : D <> [] -> consistency n weakly D = Some P -> P <> [].
Proof. intros HD H. destruct weakly; unfold consistency, part_ext, part_strict in H.
  - apply ext_nonempty in H. exact H.
  - apply loop_sound in H as [_ Hp]. intros ->. simpl in Hp. apply Permutation_nil in Hp.
    apply map_eq_nil in Hp. congruence. Qed.

(* a base the generated consistency() rejects is refused by the model, and conversely *)
Theorem e2e_refusal s weakly (d:dict Z cond) q u : dict_values d <> [] ->
  exists r st, py_consistency n (S (length d)) (Build_pybase d) u weakly = Return (r, st) /\
    (is_pfalse r = true <-> infer n s weakly (dict_values d) q = Refuse).
Proof. intros HD. destruct (tie_consistency n weakly d u) as [r [st [Hrun Hres]]]. exists r, st. split; [exact Hrun|].
  unfold infer. destruct (dict_values d) as [|c0 D0] eqn:ED; [congruence|]. rewrite <- ED in *.
  destruct (consistency n weakly (dict_values d)); destruct r; cbn [pres_map res_of is_pfalse] in *; try discriminate;
  split; intros; try discriminate; reflexivity. Qed.

End TieConsTop.

(* ---- the key-based variant: consistency_indices ---- *)
Section TieConsIdx.
Variable n : nat.
Notation W := (worlds n).
Definition kzc (c:cond) : Z := Z.of_nat (ckey c).
Variable D : list cond.
Hypothesis Hnd : NoDup (map kzc D).
Definition dict_of : dict Z cond := map (fun c => (kzc c, c)) D.

Lemma dict_of_find c : In c D -> zdict_find dict_of (kzc c) = Some c.
Proof. unfold dict_of. clear -Hnd. induction D as [|d D0 IH]; [intros []|]. simpl in Hnd. inversion Hnd as [|? ? Hni Hn']; subst.
  intros [->|Hc]; simpl.
  - rewrite Z.eqb_refl. reflexivity.
  - destruct (kzc d =? kzc c)%Z eqn:E; [|auto]. apply Z.eqb_eq in E. exfalso. apply Hni. rewrite E. apply in_map. exact Hc. Qed.
Lemma map_m_get Ls {R L} : (forall c, In c Ls -> In c D) ->
  @map_m Z cond R L (fun v_i => cbind (zdict_get dict_of v_i) (fun t => Next t)) (map kzc Ls) = Next Ls.
Proof. induction Ls as [|c Ls IH]; intros HL; [reflexivity|]. cbn [map map_m].
  unfold zdict_get at 1. rewrite dict_of_find by (apply HL; left; reflexivity). cbn [cbind].
  rewrite IH by (intros c' Hc'; apply HL; right; exact Hc'). reflexivity. Qed.

(* the inner loop over keys *)
Lemma inner_loop_idx Dc (s:solver) (F:Z -> Z * solver * list Z * list Z -> ctl (pyres (list (list Z)) * (list Z * Z * Z)) (Z * solver * list Z * list Z) (Z * solver * list Z * list Z)) :
  (forall calls R C c, In c D -> F (kzc c) (calls, s, R, C)
     = Next ((calls + 1)%Z, s, (if tolc n Dc c then R ++ [kzc c] else R), (if tolc n Dc c then C else C ++ [kzc c]))) ->
  forall l calls R C, (forall c, In c l -> In c D) ->
  @for_each Z _ (list (list Z) * Z * Z * list Z) _ (map kzc l) F (calls, s, R, C)
  = Next ((calls + Z.of_nat (length l))%Z, s, R ++ map kzc (filter (tolc n Dc) l), C ++ map kzc (filter (fun c => negb (tolc n Dc c)) l)).
Proof. intros HF. induction l as [|c l IH]; intros calls R C HL.
  - simpl. rewrite Z.add_0_r, !app_nil_r. reflexivity.
  - cbn [map for_each]. rewrite HF by (apply HL; left; reflexivity).
    rewrite IH by (intros c' Hc'; apply HL; right; exact Hc'). cbn [filter length].
    replace (calls + 1 + Z.of_nat (length l))%Z with (calls + Z.of_nat (S (length l)))%Z by lia.
    destruct (tolc n Dc c); cbn [negb map]; rewrite <- ?app_assoc; reflexivity. Qed.

Theorem tie_consistency_indices_loop weakly u :
  exists stats, py_consistency_indices n (S (length D)) (Build_pybase dict_of) u weakly
    = Return (res_of (option_map (map (map kzc)) (loop_c n weakly (length D) D)), stats).
Proof.
  unfold py_consistency_indices. cbn [bb_conditionals]. rewrite map_id.
  match goal with |- context [while_true _ ?b _] => set (body := b) end.
  assert (Ekeys: dict_keys dict_of = map kzc D) by (unfold dict_keys, dict_of; rewrite map_map; reflexivity).
  rewrite Ekeys.
  assert (H: forall f part lv calls Dcur, length Dcur <= f -> (forall c, In c Dcur -> In c D) -> exists stats,
     @while_true _ unit _ (S f) body (part, lv, calls, map kzc Dcur)
     = Return (match loop_c n weakly f Dcur with Some P => PVal (part ++ map (map kzc) P) | None => PFalse end, stats)).
  { induction f as [|f IH]; intros part lv calls Dcur Hlen HL.
    - destruct Dcur; [|simpl in Hlen; lia]. cbn. destruct weakly; rewrite ?app_nil_r; eexists; reflexivity.
    - destruct Dcur as [|c0 D0].
      { cbn. destruct weakly; rewrite ?app_nil_r; eexists; reflexivity. }
      remember (c0::D0) as Dc eqn:EDc.
      rewrite while_true_S. unfold body at 1. cbv beta iota zeta.
      replace (py_len (map kzc Dc) =? 0)%Z with false by (subst; reflexivity). cbn [cbind].
      rewrite (map_m_get Dc HL). cbn [cbind].
      erewrite (inner_loop_idx Dc); [|..|exact HL].
      2:{ intros calls' R' C' c' Hc'. cbv beta iota zeta. unfold zdict_get. rewrite dict_of_find by exact Hc'. cbn [cbind].
          rewrite (tolerance_test n Dc) by apply round_solver_holds.
          destruct (tolc n Dc c'); reflexivity. }
      cbn [cbind app]. fold (Rc n Dc). fold (Cc n Dc).
      rewrite loop_c_S by (subst; discriminate).
      assert (Hsolve: s_solve n (fold_left (fun (v_s : solver) (v_k : form) => s_add v_s v_k) (py_toImplicit n Dc) (s_push new_solver))
                      = existsb (nofals world (map ac Dc)) W).
      { apply s_solve_ext. intros w. apply round_solver_holds. }
      rewrite Hsolve.
      destruct (Rc n Dc) as [|r R0] eqn:ER; cbn [is_nil map].
      + destruct weakly; [|cbn [cbind]; eexists; reflexivity].
        destruct (existsb (nofals world (map ac Dc)) W); cbn [negb cbind]; eexists; reflexivity.
      + cbn [cbind]. rewrite <- ER.
        assert (Hl: length (Cc n Dc) <= f).
        { pose proof (filter_split_len (tolc n Dc) Dc) as Hs. fold (Rc n Dc) in Hs. fold (Cc n Dc) in Hs.
          rewrite ER in Hs. simpl in Hs. lia. }
        assert (HLC: forall c, In c (Cc n Dc) -> In c D) by (intros c Hc; apply HL; apply filter_In in Hc; tauto).
        change (kzc r :: map kzc R0) with (map kzc (r :: R0)). rewrite <- ER.
        destruct (IH (part ++ [map kzc (Rc n Dc)]) (lv + 1)%Z (calls + Z.of_nat (length Dc))%Z (Cc n Dc) Hl HLC) as [st Hst].
        rewrite Hst. exists st. destruct (loop_c n weakly f (Cc n Dc)); [|reflexivity].
        cbn [map]. rewrite <- app_assoc. reflexivity. }
  destruct (H (length D) [] 0%Z 0%Z D (le_n _) (fun c Hc => Hc)) as [st Hst].
  cbv zeta. rewrite Hst. exists st. cbn [cbind]. destruct (loop_c n weakly (length D) D); reflexivity.
Qed.

(* consistency_indices(): the key lists of the model's partition *)
Theorem tie_consistency_indices weakly u : exists r stats,
  py_consistency_indices n (S (length D)) (Build_pybase dict_of) u weakly = Return (r, stats) /\
  r = res_of (option_map (map (map (fun a => Z.of_nat (key world a)))) (Model.consistency n weakly D)).
Proof. destruct (tie_consistency_indices_loop weakly u) as [st H]. eexists. exists st. split; [exact H|].
  pose proof (loop_c_model n weakly (length D) D) as E.
  assert (E': consistency n weakly D = (if weakly then tol_loop_ext world W (length D) (map ac D) else tol_loop world W (length D) (map ac D)))
    by (destruct weakly; reflexivity).
  rewrite E', <- E. destruct (loop_c n weakly (length D) D); cbn [option_map res_of]; [|reflexivity].
  f_equal. rewrite map_map. apply map_ext. intros L. rewrite map_map. reflexivity. Qed.
End TieConsIdx.

(* the two generated variants agree: the key-based one returns the keys of what the object-based one returns *)
Corollary src_variants_agree n D weakly u : NoDup (map kzc D) -> exists r1 st1 r2 st2,
  py_consistency n (S (length D)) (Build_pybase (dict_of D)) u weakly = Return (r1, st1) /\
  py_consistency_indices n (S (length D)) (Build_pybase (dict_of D)) u weakly = Return (r2, st2) /\
  pres_map (map (map kzc)) r1 = r2.
Proof. intros Hnd.
  assert (El: length (dict_of D) = length D) by (unfold dict_of; apply map_length).
  assert (Ev: dict_values (dict_of D) = D) by (unfold dict_values, dict_of; rewrite map_map; apply map_id).
  destruct (tie_consistency_loop n weakly (dict_of D) u) as [st1 H1]. rewrite El, Ev in H1.
  destruct (tie_consistency_indices_loop n D Hnd weakly u) as [st2 H2].
  eexists. exists st1. eexists. exists st2. split; [exact H1|]. split; [exact H2|].
  destruct (loop_c n weakly (length D) D); reflexivity. Qed.
