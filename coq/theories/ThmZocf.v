From InfOCF Require Import Core Tol TolExt SysZ Kz Form Model Spec Diag Ocf Thm06 ThmOps.
(* C16: the System Z ranking object *)
Section Z.
Variable n : nat.
Variable P : list (list (acond world)).
Notation W := (worlds n).

(* the recursion from the top layer computes the Z-rank *)
Theorem zrank_of_is_kz w : zrank_of P w = kz world P w.
Proof. unfold zrank_of. symmetry. apply kz_zrank. Qed.

(* extended partition fin ++ [Cinf]: top rank (#finite layers + 1) exactly on the worlds falsifying the infinity layer *)
Theorem zrank_of_ext fin Cinf0 w : zrank_of (fin ++ [Cinf0]) w =
  if nofals world Cinf0 w then kz world fin w else S (length fin).
Proof. unfold zrank_of, layers. rewrite map_app, rev_app_distr. cbn [map rev app zrank].
  destruct (nofals world Cinf0 w) eqn:E.
  - apply layer_of_cnt0 in E. rewrite E. cbn. symmetry. apply kz_zrank.
  - destruct (cnt (layer_of Cinf0 w) =? 0) eqn:Ec; [apply Nat.eqb_eq in Ec; apply layer_of_cnt0 in Ec; congruence|].
    cbn [length]. rewrite rev_length, map_length. reflexivity. Qed.
Theorem finite_ranks_below_top fin w : kz world fin w <= length fin.
Proof. rewrite kz_zrank. unfold layers. pose proof (zrank_le world (rev (map layer_of fin)) w) as H. rewrite rev_length, map_length in H. exact H. Qed.

(* cache invariant: whatever has been cached is the Z-rank; order, laziness and forcing cannot matter *)
Definition cache_ok (c:cache) : Prop := length c = length W /\ forall i r, nth i c None = Some r -> r = zr n P i.
Lemma set_nth_length {A} i (x:A) l : length (set_nth i x l) = length l.
Proof. revert i; induction l as [|a l IH]; intros [|i]; cbn; auto. Qed.
Lemma nth_set_nth {A} i j (x d:A) l : nth j (set_nth i x l) d = if (i =? j) && (i <? length l) then x else nth j l d.
Proof. revert i j; induction l as [|a l IH]; intros i j.
  - destruct i, j; cbn; auto; rewrite ?andb_false_r; auto.
  - destruct i as [|i], j as [|j]; cbn; auto. rewrite IH. cbn. reflexivity. Qed.
Lemma nth_map_none {A} (l:list A) i : nth i (map (fun _ => @None nat) l) None = None.
Proof. revert i; induction l as [|a l IH]; intros [|i]; cbn; auto. Qed.
Lemma cache0_ok : cache_ok (cache0 n).
Proof. unfold cache_ok, cache0. split; [apply map_length|]. intros i r H. rewrite nth_map_none in H. discriminate. Qed.
Lemma set_ok c i : cache_ok c -> cache_ok (set_nth i (Some (zr n P i)) c).
Proof. intros [Hl Hc]. split; [rewrite set_nth_length; auto|]. intros j r Hj. rewrite nth_set_nth in Hj.
  destruct ((i =? j) && (i <? length c)) eqn:Eb; [|auto]. apply andb_true_iff in Eb as [Eb _]. apply Nat.eqb_eq in Eb. subst. congruence. Qed.
Lemma rank_world_ok c i force : cache_ok c -> cache_ok (fst (rank_world n P c i force)) /\ snd (rank_world n P c i force) = zr n P i.
Proof. intros Hc. unfold rank_world. destruct (nth i c None) as [r|] eqn:E.
  - destruct Hc as [Hl Hc']. pose proof (Hc' i r E) as ->. destruct force; cbn; split; auto; [apply set_ok|]; split; auto.
  - cbn. split; auto. apply set_ok; auto. Qed.
Lemma rank_many_ok : forall is c, cache_ok c -> cache_ok (fst (rank_many n P c is)) /\ snd (rank_many n P c is) = map (zr n P) is.
Proof. induction is as [|i is IH]; intros c Hc; cbn; auto.
  destruct (rank_world n P c i false) as [c1 v] eqn:E1. pose proof (rank_world_ok c i false Hc) as [H1 H2]. rewrite E1 in H1, H2. cbn in H1, H2.
  destruct (rank_many n P c1 is) as [c2 vs] eqn:E2. pose proof (IH c1 H1) as [H3 H4]. rewrite E2 in H3, H4. cbn in *. split; auto; congruence. Qed.
Lemma frank_z_ok c f : cache_ok c -> cache_ok (fst (frank_z n P c f)) /\ snd (frank_z n P c f) = minl (map (zr n P) (sat_indices n f)).
Proof. intros Hc. unfold frank_z. destruct (rank_many n P c (sat_indices n f)) as [c1 vs] eqn:E.
  pose proof (rank_many_ok (sat_indices n f) c Hc) as [H1 H2]. rewrite E in H1, H2. cbn in *. split; auto; congruence. Qed.

(* the specification value of every operation, independent of the cache *)
Definition zspec_out (o:zop) : zout :=
  match o with
  | ORank i | OForce i => VNat (zr n P i)
  | OAll => VTable (map (zr n P) (seq 0 (length W)))
  | OFrank f => VOpt (minl (map (zr n P) (sat_indices n f)))
  | OAccept q => VBool (match minl (map (zr n P) (sat_indices n (FAnd (cante q) (ccons q)))),
                              minl (map (zr n P) (sat_indices n (FAnd (cante q) (FNot (ccons q))))) with
                        | None, _ => false | Some _, None => true | Some a, Some b => a <? b end) end.
Lemma zstep_ok c o : cache_ok c -> cache_ok (fst (zstep n P c o)) /\ snd (zstep n P c o) = zspec_out o.
Proof. intros Hc. destruct o as [i|i| |f|q]; cbn [zstep zspec_out].
  - destruct (rank_world n P c i false) as [c1 v] eqn:E. pose proof (rank_world_ok c i false Hc) as [H1 H2]. rewrite E in *. cbn in *. split; auto; congruence.
  - destruct (rank_world n P c i true) as [c1 v] eqn:E. pose proof (rank_world_ok c i true Hc) as [H1 H2]. rewrite E in *. cbn in *. split; auto; congruence.
  - destruct (rank_many n P c (seq 0 (length W))) as [c1 vs] eqn:E. pose proof (rank_many_ok (seq 0 (length W)) c Hc) as [H1 H2]. rewrite E in *. cbn in *. split; auto; congruence.
  - destruct (frank_z n P c f) as [c1 v] eqn:E. pose proof (frank_z_ok c f Hc) as [H1 H2]. rewrite E in *. cbn in *. split; auto; congruence.
  - destruct (frank_z n P c (FAnd (cante q) (ccons q))) as [c1 v] eqn:E1. pose proof (frank_z_ok c (FAnd (cante q) (ccons q)) Hc) as [H1 H2]. rewrite E1 in H1, H2. cbn in H1, H2.
    destruct (frank_z n P c1 (FAnd (cante q) (FNot (ccons q)))) as [c2 m] eqn:E2. pose proof (frank_z_ok c1 (FAnd (cante q) (FNot (ccons q))) H1) as [H3 H4]. rewrite E2 in H3, H4. cbn in *.
    split; auto. subst. reflexivity. Qed.
(* for every sequence of operations, started from the empty cache, every output is the specification value *)
Theorem zrun_outputs : forall ops c, cache_ok c -> map snd (zrun n P c ops) = map zspec_out ops /\
  Forall (fun s => cache_ok (fst s)) (zrun n P c ops).
Proof. induction ops as [|o ops IH]; intros c Hc; cbn; [split; constructor|].
  destruct (zstep n P c o) as [c1 v] eqn:E. pose proof (zstep_ok c o Hc) as [H1 H2]. rewrite E in H1, H2. cbn in H1, H2.
  destruct (IH c1 H1) as [H3 H4]. cbn. split; [congruence|constructor; auto]. Qed.

(* formula ranks through indices = ranks through worlds *)
Lemma combine_seq_nth {A} (d:A) : forall l k i x, In (i, x) (combine (seq k (length l)) l) -> k <= i /\ nth (i - k) l d = x.
Proof. induction l as [|a l IH]; intros k i x H; [inversion H|]. cbn in H. destruct H as [E|H].
  - inversion E; subst. rewrite Nat.sub_diag. auto.
  - apply IH in H as [H1 H2]. split; [lia|]. replace (i - k) with (S (i - S k)) by lia. exact H2. Qed.
Lemma combine_seq_filter {A} (g:A->bool) : forall l k, map snd (filter (fun p => g (snd p)) (combine (seq k (length l)) l)) = filter g l.
Proof. induction l as [|a l IH]; intros k; cbn; auto. destruct (g a); cbn; rewrite IH; reflexivity. Qed.
Theorem frank_indices f (h:world -> nat) :
  map (fun i => h (nth i W [])) (sat_indices n f) = map h (filter (fun w => eval w f) W).
Proof. unfold sat_indices. rewrite <- (combine_seq_filter (fun w => eval w f) W 0). rewrite !map_map.
  apply map_ext_in. intros [i w] Hin. apply filter_In in Hin as [Hin _]. apply (combine_seq_nth []) in Hin as [_ Hn].
  rewrite Nat.sub_0_r in Hn. change (h (nth i W []) = h w). f_equal. exact Hn. Qed.
(* so a formula rank computed by the object is the least Z-rank of the formula's models *)
Corollary object_frank f : minl (map (zr n P) (sat_indices n f)) = rk world W (zrank_of P) (fun w => eval w f).
Proof. unfold zr, rk, sel. rewrite (frank_indices f (zrank_of P)). reflexivity. Qed.

(* acceptance by the object = the System Z definition, for a query whose antecedent is satisfiable (strict mode) *)
Theorem object_accept_is_z q : existsb (ante q) W = true ->
  (match minl (map (zr n P) (sat_indices n (FAnd (cante q) (ccons q)))),
         minl (map (zr n P) (sat_indices n (FAnd (cante q) (FNot (ccons q))))) with
   | None, _ => false | Some _, None => true | Some a, Some b => a <? b end) = z_spec W P q.
Proof. intros HA. rewrite !object_frank. unfold z_spec, rank_of. rewrite HA. cbn [negb orb].
  rewrite (rk_ext W (kappa_z P) (zrank_of P) (ver q)) by (intros w; unfold kappa_z; apply kz_zrank).
  rewrite (rk_ext W (kappa_z P) (zrank_of P) (fal q)) by (intros w; unfold kappa_z; apply kz_zrank).
  assert (E1: rk world W (zrank_of P) (fun w => eval w (FAnd (cante q) (ccons q))) = rk world W (zrank_of P) (ver q)) by reflexivity.
  assert (E2: rk world W (zrank_of P) (fun w => eval w (FAnd (cante q) (FNot (ccons q)))) = rk world W (zrank_of P) (fal q)) by reflexivity.
  rewrite E1, E2. destruct (rk world W (zrank_of P) (ver q)), (rk world W (zrank_of P) (fal q)); reflexivity. Qed.
End Z.
