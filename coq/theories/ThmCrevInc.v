From InfOCF Require Import Core Tol Form Model Crev ThmCrev ThmPerm.
From Coq Require Import Permutation Sorted.
(* C19: the incremental model, after ANY sequence of additions and removals, compiles to the fresh compilation of its
   current conditionals (index lists compared as sorted lists). *)
Lemma insert_s_perm x l : Permutation (x :: l) (insert_s x l).
Proof. induction l as [|y l IH]; cbn; auto. destruct (x <=? y); auto. eapply Permutation_trans; [apply perm_swap|]. constructor. exact IH. Qed.
Lemma sort_keys_perm l : Permutation l (sort_keys l).
Proof. unfold sort_keys. induction l as [|x l IH]; cbn; auto. eapply Permutation_trans; [|apply insert_s_perm]. constructor. exact IH. Qed.
Lemma insert_s_sorted x l : StronglySorted le l -> StronglySorted le (insert_s x l).
Proof. induction 1 as [|y l Hs IH Hall]; cbn; [repeat constructor|]. destruct (x <=? y) eqn:E.
  - apply Nat.leb_le in E. constructor; [constructor; auto|]. constructor; auto. rewrite Forall_forall in *. intros z Hz. specialize (Hall z Hz). lia.
  - apply Nat.leb_gt in E. constructor; auto. rewrite Forall_forall in *. intros z Hz.
    apply (Permutation_in z (Permutation_sym (insert_s_perm x l))) in Hz. destruct Hz as [<-|Hz]; [lia|auto]. Qed.
Lemma sort_keys_sorted l : StronglySorted le (sort_keys l).
Proof. unfold sort_keys. induction l as [|x l IH]; cbn; [constructor|]. apply insert_s_sorted; auto. Qed.
Lemma sorted_perm_eq : forall l l', StronglySorted le l -> StronglySorted le l' -> Permutation l l' -> l = l'.
Proof. induction l as [|x l IH]; intros l' Hs Hs' Hp.
  - apply Permutation_nil in Hp. auto.
  - destruct l' as [|y l']; [apply Permutation_sym in Hp; apply Permutation_nil in Hp; discriminate|].
    inversion Hs as [|? ? Hsl Hxl]; subst. inversion Hs' as [|? ? Hsl' Hyl']; subst. rewrite Forall_forall in Hxl, Hyl'.
    assert (Hxy: x = y).
    { assert (Hx: In x (y :: l')) by (eapply Permutation_in; [exact Hp|now left]).
      assert (Hy: In y (x :: l)) by (eapply Permutation_in; [apply Permutation_sym; exact Hp|now left]).
      destruct Hx as [->|Hx]; auto. destruct Hy as [->|Hy]; auto. specialize (Hyl' x Hx). specialize (Hxl y Hy). lia. }
    subst y. f_equal. apply IH; auto. eapply Permutation_cons_inv; eauto. Qed.
Lemma sort_keys_of_perm l l' : Permutation l l' -> sort_keys l = sort_keys l'.
Proof. intros H. apply sorted_perm_eq; try apply sort_keys_sorted.
  eapply Permutation_trans; [apply Permutation_sym; apply sort_keys_perm|]. eapply Permutation_trans; [exact H|apply sort_keys_perm]. Qed.

Definition norm_t (t:triple) : triple := (fst (fst t), sort_keys (snd (fst t)), sort_keys (snd t)).
Definition norm_c (c:list (nat * list triple)) := map (fun kt => (fst kt, map norm_t (snd kt))) c.

Section Inc.
Variable pr : prior.
(* the invariant: distinct indices; per world, the cached key sets are the keys of the registered conditionals classified
   accepted / rejected at that world *)
Definition cinv (m:cmodel) : Prop :=
  NoDup (map ckey (reg m)) /\
  Forall2 (fun p acc => Permutation acc (keys_where classify (reg m) (fst p) true)) pr (wacc m) /\
  Forall2 (fun p rej => Permutation rej (keys_where classify (reg m) (fst p) false)) pr (wrej m).
Lemma cinv_empty : cinv (cm_empty pr).
Proof. unfold cinv, cm_empty. cbn. split; [constructor|]. split; induction pr as [|p l IH]; cbn; constructor; auto. Qed.

Lemma keys_where_app cs c w want : keys_where classify (cs ++ [c]) w want =
  keys_where classify cs w want ++ (if match classify c w with Some b => Bool.eqb b want | None => false end then [ckey c] else []).
Proof. unfold keys_where. rewrite filter_app, map_app. cbn. destruct (classify c w) as [b|]; [destruct (Bool.eqb b want)|]; reflexivity. Qed.
Lemma keys_where_remove cs k w want : keys_where classify (filter (fun d => negb (ckey d =? k)) cs) w want = remove_key k (keys_where classify cs w want).
Proof. unfold keys_where, remove_key. induction cs as [|c cs IH]; cbn; auto.
  destruct (ckey c =? k) eqn:E; cbn.
  - destruct (match classify c w with Some b => Bool.eqb b want | None => false end); cbn; [rewrite E; cbn|]; exact IH.
  - destruct (match classify c w with Some b => Bool.eqb b want | None => false end); cbn; [rewrite E; cbn; f_equal|]; exact IH. Qed.
Lemma Forall2_combine_map {A B C} (R:A->C->Prop) (f:A*B->C) (l:list A) (l':list B) :
  length l = length l' -> (forall a b, In (a, b) (combine l l') -> R a (f (a, b))) -> Forall2 R l (map f (combine l l')).
Proof. revert l'; induction l as [|a l IH]; intros [|b l'] Hl H; cbn in *; try discriminate; constructor.
  - apply H. now left.
  - apply IH; [lia|intros x y Hin; apply H; now right]. Qed.
Lemma Forall2_combine_in {A B} (R:A->B->Prop) l l' a b : Forall2 R l l' -> In (a, b) (combine l l') -> R a b.
Proof. induction 1 as [|x y l l' Hxy _ IH]; cbn; [intros []|]. intros [E|Hin]; [inversion E; subst; auto|auto]. Qed.

Lemma NoDup_snoc {A} (l:list A) x : NoDup l -> ~ In x l -> NoDup (l ++ [x]).
Proof. induction l as [|a l IH]; intros Hn Hx; cbn; [constructor; [intros []|constructor]|]. inversion Hn; subst. constructor.
  - intros Hin. apply in_app_or in Hin as [Hin|[<-|[]]]; auto. apply Hx. now left.
  - apply IH; auto. intros H. apply Hx. now right. Qed.
Lemma Forall2_len {A B} (R:A->B->Prop) l l' : Forall2 R l l' -> length l = length l'.
Proof. induction 1; cbn; auto. Qed.

Lemma cinv_add m c m' : cinv m -> cm_add pr m c = Some m' -> cinv m'.
Proof. intros [Hnd [Ha Hr]] H. unfold cm_add in H. destruct (existsb (fun d => ckey d =? ckey c) (reg m)) eqn:Ex; [discriminate|].
  inversion H; subst m'; clear H. unfold cinv. cbn [reg wacc wrej]. split; [|split].
  - rewrite map_app. cbn. apply NoDup_snoc; auto. intros Hin. apply in_map_iff in Hin as [d [Hk Hd]].
    assert (existsb (fun d => ckey d =? ckey c) (reg m) = true); [|congruence]. apply existsb_exists. exists d. split; auto. apply Nat.eqb_eq; auto.
  - apply Forall2_combine_map; [apply (Forall2_len _ _ _ Ha)|]. intros p acc Hin. cbn [fst snd].
    pose proof (Forall2_combine_in _ _ _ _ _ Ha Hin) as Hp. rewrite keys_where_app, classify_fast_ok.
    destruct (classify c (fst p)) as [[|]|]; cbn; [apply Permutation_app_tail; auto|rewrite app_nil_r; auto|rewrite app_nil_r; auto].
  - apply Forall2_combine_map; [apply (Forall2_len _ _ _ Hr)|]. intros p rej Hin. cbn [fst snd].
    pose proof (Forall2_combine_in _ _ _ _ _ Hr Hin) as Hp. rewrite keys_where_app, classify_fast_ok.
    destruct (classify c (fst p)) as [[|]|]; cbn; [rewrite app_nil_r; auto|apply Permutation_app_tail; auto|rewrite app_nil_r; auto]. Qed.
Lemma Forall2_map_r {A B C} (R:A->C->Prop) (f:B->C) l l' : Forall2 (fun a b => R a (f b)) l l' -> Forall2 R l (map f l').
Proof. induction 1; cbn; constructor; auto. Qed.
Lemma Forall2_impl' {A B} (R R':A->B->Prop) l l' : (forall a b, R a b -> R' a b) -> Forall2 R l l' -> Forall2 R' l l'.
Proof. intros H. induction 1; constructor; auto. Qed.
Lemma cinv_remove m k : cinv m -> cinv (cm_remove m k).
Proof. intros [Hnd [Ha Hr]]. unfold cinv, cm_remove. cbn [reg wacc wrej]. split; [|split].
  - clear Ha Hr. induction (reg m) as [|d l IH]; cbn; [constructor|]. cbn in Hnd. inversion Hnd as [|? ? Hn Hnd']; subst.
    destruct (ckey d =? k); cbn; auto. constructor; auto. intros Hin. apply Hn. apply in_map_iff in Hin as [e [He Hin]]. apply filter_In in Hin as [Hin _].
    rewrite <- He. apply in_map. exact Hin.
  - apply Forall2_map_r. eapply Forall2_impl'; [|exact Ha]. intros p acc Hp. cbn. rewrite keys_where_remove. apply Permutation_filter. exact Hp.
  - apply Forall2_map_r. eapply Forall2_impl'; [|exact Hr]. intros p rej Hp. cbn. rewrite keys_where_remove. apply Permutation_filter. exact Hp. Qed.
Lemma cinv_step m o : cinv m -> cinv (cm_step pr m o).
Proof. intros H. destruct o as [c|k]; cbn; [|apply cinv_remove; auto]. destruct (cm_add pr m c) as [m'|] eqn:E; auto. eapply cinv_add; eauto. Qed.
Theorem cinv_run ops : cinv (fold_left (cm_step pr) ops (cm_empty pr)).
Proof. assert (H: forall m, cinv m -> cinv (fold_left (cm_step pr) ops m)).
  { induction ops as [|o ops IH]; intros m Hm; cbn; auto. apply IH. apply cinv_step; auto. }
  apply H. apply cinv_empty. Qed.

(* under the invariant the incremental compilation is the fresh compilation of the registered conditionals *)
Lemma existsb_perm_nat k l l' : Permutation l l' -> existsb (Nat.eqb k) l = existsb (Nat.eqb k) l'.
Proof. intros H. apply eq_true_iff_eq. rewrite !existsb_exists. split; intros [x [Hx E]]; exists x; split; auto;
  [eapply Permutation_in; eauto|eapply Permutation_in; [apply Permutation_sym; eauto|auto]]. Qed.
Lemma Forall2_cons_inv {A B} (R:A->B->Prop) a l l' : Forall2 R (a::l) l' -> exists b l'', l' = b :: l'' /\ R a b /\ Forall2 R l l''.
Proof. intros H. inversion H; subst. eauto. Qed.
Lemma triples_cm_alt_gen (rg:list cond) (c:cond) (want:bool) : NoDup (map ckey rg) -> In c rg -> forall (prl:prior) wa wr,
  Forall2 (fun p acc => Permutation acc (keys_where classify rg (fst p) true)) prl wa ->
  Forall2 (fun p rej => Permutation rej (keys_where classify rg (fst p) false)) prl wr ->
  map norm_t (flat_map (fun x : world * nat * list nat * list nat => let acc := sort_keys (snd (fst x)) in let rej := sort_keys (snd x) in
                     if existsb (Nat.eqb (ckey c)) (if want then acc else rej)
                     then [(snd (fst (fst x)), remove_key (ckey c) acc, remove_key (ckey c) rej)] else []) (combine (combine prl wa) wr))
  = map norm_t (triples_alt rg prl c want).
Proof. intros Hnd Hin. unfold triples_alt.
  set (F := fun x : world * nat * list nat * list nat => let acc := sort_keys (snd (fst x)) in let rej := sort_keys (snd x) in
                     if existsb (Nat.eqb (ckey c)) (if want then acc else rej)
                     then [(snd (fst (fst x)), remove_key (ckey c) acc, remove_key (ckey c) rej)] else []).
  set (G := fun p : world * nat => match classify c (fst p) with
                     | Some b => if Bool.eqb b want then [(snd p, others rg (ckey c) (fst p) true, others rg (ckey c) (fst p) false)] else []
                     | None => [] end).
  induction prl as [|p l IH]; intros wa wr Ha Hr.
  - inversion Ha as [Ea|]; inversion Hr as [Er|]. reflexivity.
  - apply Forall2_cons_inv in Ha as [acc [wa' [Ewa [Hpa Ha']]]]. apply Forall2_cons_inv in Hr as [rej [wr' [Ewr [Hpr Hr']]]]. rewrite Ewa, Ewr.
    cbn [combine flat_map]. rewrite !map_app. f_equal; [|apply IH; auto].
    set (KA := keys_where classify rg (fst p) true) in *. set (KR := keys_where classify rg (fst p) false) in *.
    unfold F, G. cbn [fst snd].
    assert (Ein: existsb (Nat.eqb (ckey c)) (if want then sort_keys acc else sort_keys rej) = match classify c (fst p) with Some b => Bool.eqb b want | None => false end).
    { destruct want.
      - rewrite (existsb_perm_nat (ckey c) (sort_keys acc) KA) by (eapply Permutation_trans; [apply Permutation_sym; apply sort_keys_perm|exact Hpa]).
        apply key_in_where; auto.
      - rewrite (existsb_perm_nat (ckey c) (sort_keys rej) KR) by (eapply Permutation_trans; [apply Permutation_sym; apply sort_keys_perm|exact Hpr]).
        apply key_in_where; auto. }
    rewrite Ein. destruct (classify c (fst p)) as [b|]; [|reflexivity]. destruct (Bool.eqb b want); [|reflexivity].
    cbn [map]. unfold norm_t. cbn [fst snd]. f_equal. f_equal; [f_equal|].
    + apply sort_keys_of_perm. rewrite <- remove_others. apply Permutation_filter. eapply Permutation_trans; [apply Permutation_sym; apply sort_keys_perm|exact Hpa].
    + apply sort_keys_of_perm. rewrite <- remove_others. apply Permutation_filter. eapply Permutation_trans; [apply Permutation_sym; apply sort_keys_perm|exact Hpr]. Qed.
Lemma triples_cm_alt m c want : cinv m -> In c (reg m) ->
  map norm_t (triples_cm pr m (ckey c) want) = map norm_t (triples_alt (reg m) pr c want).
Proof. intros [Hnd [Ha Hr]] Hin. unfold triples_cm. apply triples_cm_alt_gen; auto. Qed.
Theorem incremental_equals_fresh ops : let m := fold_left (cm_step pr) ops (cm_empty pr) in
  norm_c (fst (cm_compile pr m)) = norm_c (fst (compile_alt (reg m) pr)) /\ norm_c (snd (cm_compile pr m)) = norm_c (snd (compile_alt (reg m) pr)).
Proof. cbn zeta. pose proof (cinv_run ops) as Hi. set (m := fold_left (cm_step pr) ops (cm_empty pr)) in *.
  unfold cm_compile, compile_alt, norm_c. cbn [fst snd]. rewrite !map_map. split; apply map_ext_in; intros c Hc; cbn [fst snd]; f_equal; apply triples_cm_alt; auto. Qed.
End Inc.

(* sorting the index lists does not change any constraint: the two compilations have the same solutions *)
Lemma sumk_perm g l l' : Permutation l l' -> sumk g l = sumk g l'.
Proof. induction 1 as [|x l l' _ IH|x y l|l l' l'' _ IH1 _ IH2]; cbn [sumk fold_right] in *; try lia. unfold sumk in *; lia. Qed.
Lemma tval_norm gp gm t : tval gp gm (norm_t t) = tval gp gm t.
Proof. unfold tval, norm_t. cbn [fst snd]. rewrite <- (sumk_perm gp _ _ (sort_keys_perm (snd (fst t)))), <- (sumk_perm gm _ _ (sort_keys_perm (snd t))). reflexivity. Qed.
Lemma constraint_norm gp gm k vt ft : constraint gp gm k (map norm_t vt) (map norm_t ft) = constraint gp gm k vt ft.
Proof. unfold constraint. rewrite !map_map. rewrite !(map_ext _ _ (tval_norm gp gm)). reflexivity. Qed.
Lemma csp_holds_norm gp gm a b : csp_holds gp gm (norm_c a, norm_c b) = csp_holds gp gm (a, b).
Proof. unfold csp_holds. cbn [fst snd]. revert b. induction a as [|x a IH]; intros [|y b]; cbn [norm_c map combine forallb]; auto.
  cbn [fst snd]. rewrite constraint_norm. f_equal. apply IH. Qed.
Theorem incremental_same_solutions pr ops gp gm : let m := fold_left (cm_step pr) ops (cm_empty pr) in
  csp_holds gp gm (cm_compile pr m) = csp_holds gp gm (compile_alt (reg m) pr).
Proof. cbn zeta. destruct (incremental_equals_fresh pr ops) as [H1 H2]. cbn zeta in H1, H2.
  set (m := fold_left (cm_step pr) ops (cm_empty pr)) in *.
  rewrite (surjective_pairing (cm_compile pr m)), (surjective_pairing (compile_alt (reg m) pr)).
  rewrite <- csp_holds_norm, H1, H2, csp_holds_norm. reflexivity. Qed.
Theorem incremental_registry_distinct pr ops : NoDup (map ckey (reg (fold_left (cm_step pr) ops (cm_empty pr)))).
Proof. exact (proj1 (cinv_run pr ops)). Qed.
