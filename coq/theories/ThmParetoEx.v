From InfOCF Require Import Core Tol CInf Form Model CModel ThmPareto ThmPostInt.
(* C17: below every c-representation lies a Pareto-minimal one; hence every strongly consistent base has a Pareto-minimal
   c-representation (the object the optimiser is asked for exists). *)
Lemma vectors_below_sound : forall eta e', In e' (vectors_below eta) -> le_vec e' eta.
Proof. induction eta as [|e r IH]; intros e' H; cbn [vectors_below] in H.
  - destruct H as [<-|[]]. constructor.
  - apply in_flat_map in H as [x [Hx H]]. apply in_seq in Hx. apply in_map_iff in H as [t [<- Ht]]. constructor; [lia|apply IH; exact Ht]. Qed.
Lemma le_vec_trans a b c : le_vec a b -> le_vec b c -> le_vec a c.
Proof. intros H. revert c. induction H as [|x y a b Hxy H IH]; intros c Hc; inversion Hc; subst; constructor; [lia|apply IH; assumption]. Qed.
Lemma le_vec_len a b : le_vec a b -> length a = length b.
Proof. induction 1; cbn; auto. Qed.
Lemma list_sum_cons x a : list_sum (x :: a) = x + list_sum a. Proof. reflexivity. Qed.
Lemma le_vec_sum a b : le_vec a b -> a <> b -> list_sum a < list_sum b.
Proof. induction 1 as [|x y a b Hxy H IH]; intros Hne; [congruence|]. rewrite !list_sum_cons.
  destruct (Nat.eq_dec x y) as [->|Hd].
  - assert (a <> b) by congruence. specialize (IH H0). lia.
  - assert (list_sum a <= list_sum b). { clear -H. induction H; rewrite ?list_sum_cons; lia. } lia. Qed.

Lemma forallb_false_ex {A} (f:A->bool) l : forallb f l = false -> exists x, In x l /\ f x = false.
Proof. induction l as [|a l IH]; cbn [forallb]; [discriminate|]. destruct (f a) eqn:E; cbn [andb]; intros H.
  - destruct (IH H) as [x [? ?]]. exists x. split; [right|]; auto.
  - exists a. split; [left|]; auto. Qed.

Section PE.
Variable n : nat.
Variable D : list cond.
Theorem pareto_below : forall s eta, list_sum eta <= s -> length eta = length D -> crep_b n D eta = true ->
  exists e, le_vec e eta /\ pareto_check n D e = true.
Proof. induction s as [|s IH]; intros eta Hs Hl Hc.
  - destruct (pareto_check n D eta) eqn:E.
    + exists eta. split; auto. clear. induction eta; constructor; auto.
    + exfalso. unfold pareto_check in E. rewrite Hl, Nat.eqb_refl, Hc in E. cbn [andb] in E.
      apply forallb_false_ex in E as [e' [He' Hb]]. apply orb_false_iff in Hb as [Hne _].
      apply vectors_below_sound in He'. assert (e' <> eta) by (intros ->; rewrite (proj2 (eq_nats_eq eta eta) eq_refl) in Hne; discriminate).
      pose proof (le_vec_sum e' eta He' H). lia.
  - destruct (pareto_check n D eta) eqn:E.
    + exists eta. split; auto. clear. induction eta; constructor; auto.
    + unfold pareto_check in E. rewrite Hl, Nat.eqb_refl, Hc in E. cbn [andb] in E.
      apply forallb_false_ex in E as [e' [He' Hb]]. apply orb_false_iff in Hb as [Hne Hc'].
      apply negb_false_iff in Hc'. apply vectors_below_sound in He'.
      assert (e' <> eta) by (intros ->; rewrite (proj2 (eq_nats_eq eta eta) eq_refl) in Hne; discriminate).
      pose proof (le_vec_sum e' eta He' H).
      destruct (IH e') as [e [Hle Hp]]; [lia|rewrite (le_vec_len _ _ He'); exact Hl|exact Hc'|].
      exists e. split; auto. eapply le_vec_trans; eauto. Qed.
Theorem pareto_minimal_exists P : part_strict n D = Some P -> exists e, pareto_check n D e = true.
Proof. intros HP. destruct (strict_has_crep n D P HP) as [eta [Hl Hc]].
  destruct (pareto_below (list_sum eta) eta (le_n _) Hl Hc) as [e [_ He]]. exists e. exact He. Qed.
End PE.
