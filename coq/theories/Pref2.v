From InfOCF Require Import Core SysW Lex Pref.
(* C09: rational monotony for modular strict orders; the System W order is a strict partial order;
   the lexicographic order on count vectors is a modular strict order. *)
Section Mod.
Variable world : Type.
Variable W : list world.
Variable lt : world -> world -> bool.
Hypothesis lt_irrefl : forall w, lt w w = false.
Hypothesis lt_trans : forall a b c, lt a b = true -> lt b c = true -> lt a c = true.
Hypothesis lt_modular : forall a b c, lt a b = true -> lt a c = true \/ lt c b = true.
Notation infer := (infer world W lt).

Theorem RM_modular A B C : infer A C -> ~ infer A (pnot world B) -> infer (pand world A B) C.
Proof. intros HC HnB w' Hw' H1 H2. unfold pand in H1. apply andb_true_iff in H1 as [H1 H1'].
  destruct (HC w' Hw' H1 H2) as [x [Hx [HAx [HCx Hxw]]]].
  destruct (min_below world W lt lt_irrefl lt_trans A x Hx HAx) as [m [Hm [HAm [Hrel Hmin]]]].
  assert (Hmw: lt m w' = true) by (destruct Hrel as [->|Hrel]; auto; eapply lt_trans; eauto).
  assert (Hex: exists u, In u W /\ A u = true /\ B u = true /\ lt m u = false).
  { destruct (existsb (fun u => A u && B u && negb (lt m u)) W) eqn:E.
    - apply existsb_exists in E as [u [Hu Hc]]. apply andb_true_iff in Hc as [Hc Hl]. apply andb_true_iff in Hc as [? ?].
      apply negb_true_iff in Hl. eauto.
    - exfalso. apply HnB. intros v Hv HAv HnBv. unfold pnot in HnBv. apply negb_false_iff in HnBv.
      assert (Hno: forall u, In u W -> A u = true -> B u = true -> lt m u = true).
      { intros u Hu HAu HBu. destruct (lt m u) eqn:El; auto. exfalso.
        assert (existsb (fun u => A u && B u && negb (lt m u)) W = true); [|congruence].
        apply existsb_exists. exists u. split; auto. rewrite HAu, HBu, El. reflexivity. }
      exists m. repeat split; auto.
      + unfold pnot. destruct (B m) eqn:EB; auto.
        specialize (Hno m Hm HAm EB). rewrite lt_irrefl in Hno. discriminate. }
  destruct Hex as [u [Hu [HAu [HBu Hmu]]]].
  assert (HCu: C u = true).
  { destruct (C u) eqn:E; auto. destruct (HC u Hu HAu E) as [x' [Hx' [HAx' [_ Hlt]]]].
    destruct (lt_modular x' u m Hlt) as [H|H]; [rewrite (Hmin x' Hx' HAx') in H; discriminate|congruence]. }
  exists u. repeat split; auto.
  - unfold pand. rewrite HAu, HBu. reflexivity.
  - destruct (lt_modular m w' u Hmw) as [H|H]; [congruence|exact H].
Qed.
End Mod.

Section Orders.
Variable world : Type.
Lemma wless_irrefl (ls:list (layer world)) w : wless world ls w w = false.
Proof. induction ls as [|F r IH]; simpl; auto. rewrite beq_refl. exact IH. Qed.
Lemma wless_trans (ls:list (layer world)) a b c :
  wless world ls a b = true -> wless world ls b c = true -> wless world ls a c = true.
Proof. induction ls as [|F r IH]; simpl; [discriminate|].
  destruct (beq (F a) (F b)) eqn:Eab.
  - apply beq_eq in Eab. rewrite Eab. destruct (beq (F b) (F c)); auto.
  - intros Hab. destruct (beq (F b) (F c)) eqn:Ebc.
    + apply beq_eq in Ebc. rewrite <- Ebc, Eab. intros _. exact Hab.
    + intros Hbc. destruct (beq (F a) (F c)) eqn:Eac.
      * apply beq_eq in Eac. rewrite Eac in Hab. rewrite (sub_antisym _ _ Hab Hbc) in Ebc. rewrite beq_refl in Ebc. discriminate.
      * eapply sub_trans; eauto. Qed.

Definition lexless (ls:list (layer world)) (w w':world) : bool := lexlt (vec world ls w) (vec world ls w').
Lemma lexless_irrefl ls w : lexless ls w w = false. Proof. apply lexlt_irrefl. Qed.
Lemma lexless_trans ls a b c : lexless ls a b = true -> lexless ls b c = true -> lexless ls a c = true.
Proof. apply lexlt_trans. Qed.
Lemma lexless_modular ls a b c : lexless ls a b = true -> lexless ls a c = true \/ lexless ls c b = true.
Proof. unfold lexless. intros H. destruct (lexlt_tricho (vec world ls a) (vec world ls c)) as [H1|[H1|H1]]; auto.
  - rewrite !vec_len. reflexivity.
  - right. rewrite <- H1. exact H.
  - right. eapply lexlt_trans; eauto. Qed.
End Orders.
