From InfOCF Require Import Core Form Mcs Cnf.
(* C15: the faithfulness checker is sound and complete; the clause-level reference family is what the
   enumeration loop computes with any oracle meeting the contract. *)
Definition faithful (nv:nat) (amap:list nat) (f:form) (c:cnf) : Prop :=
  forall w, length w = length amap ->
    (eval w f = true <-> exists a, length a = nv /\ proj amap a = w /\ cnfsat a c = true).

Lemma proj_length amap a : length (proj amap a) = length amap.
Proof. apply map_length. Qed.

Theorem check_faithful_sound nv amap f c : check_faithful nv amap f c = true -> faithful nv amap f c.
Proof. unfold check_faithful. intros H. apply andb_true_iff in H as [H1 H2].
  rewrite forallb_forall in H1, H2. intros w Hw. split.
  - intros He. assert (Hin: In w (worlds (length amap))) by (apply worlds_complete; auto).
    specialize (H2 w Hin). rewrite He in H2. cbn in H2. apply existsb_exists in H2 as [a [Ha Hx]].
    apply andb_true_iff in Hx as [Hb Hs]. apply beq_eq in Hb. exists a. repeat split; auto. apply worlds_length; auto.
  - intros [a [Ha [Hp Hs]]]. assert (Hin: In a (worlds nv)) by (apply worlds_complete; auto).
    specialize (H1 a Hin). rewrite Hs, Hp in H1. exact H1. Qed.

Theorem check_faithful_complete nv amap f c : faithful nv amap f c -> check_faithful nv amap f c = true.
Proof. intros H. unfold check_faithful. apply andb_true_iff. split; apply forallb_forall.
  - intros a Ha. destruct (cnfsat a c) eqn:Es; [|reflexivity]. cbn.
    apply (H (proj amap a) (proj_length amap a)). exists a. repeat split; auto. apply worlds_length; auto.
  - intros w Hw. destruct (eval w f) eqn:Ee; [|reflexivity]. cbn.
    apply (H w (worlds_length _ _ Hw)) in Ee as [a [Ha [Hp Hs]]]. apply existsb_exists. exists a.
    split; [apply worlds_complete; auto|]. rewrite Hp, beq_refl, Hs. reflexivity. Qed.

(* the brute-force oracle meets the contract of the abstract loop *)
Section L.
Variable nv : nat.
Variable hard : cnf.
Variable g : groups.
Lemma viol_len a : length (viol g a) = length g. Proof. apply map_length. Qed.
Lemma bf_pick_some bl m : bf_pick nv hard g bl = Some m -> In m (models nv hard) /\ notblocked bl (viol g m) = true.
Proof. unfold bf_pick. intros H. apply find_some in H. exact H. Qed.
Lemma bf_pick_none bl : bf_pick nv hard g bl = None -> forall m, In m (models nv hard) -> notblocked bl (viol g m) = false.
Proof. unfold bf_pick. intros H m Hm. pose proof (find_none _ _ H m Hm) as Hn. exact Hn. Qed.

Theorem mcs_loop_total : mcs_loop nv hard g <> None.
Proof. unfold mcs_loop. apply (loop_total asg (models nv hard) (viol g) (bf_pick nv hard g)).
  - apply bf_pick_some. Qed.

Theorem mcs_loop_correct res : mcs_loop nv hard g = Some res ->
  forall x, In x (minimal res) <-> In x (mcs_clause nv hard g).
Proof. intros H x. unfold mcs_clause.
  rewrite (loop_correct asg (models nv hard) (viol g) (length g) viol_len (bf_pick nv hard g) bf_pick_some bf_pick_none res H x).
  unfold minimal, fam. rewrite !filter_In, dedup_in.
  assert (E: existsb (fun y => ssub y x) (dedup (map (viol g) (models nv hard))) = existsb (fun y => ssub y x) (map (viol g) (models nv hard))).
  { apply eq_true_iff_eq. rewrite !existsb_exists. split; intros [y [Hy Hs]]; exists y; split; auto; apply dedup_in; auto. }
  rewrite E. tauto. Qed.

Theorem mcs_empty_iff : mcs_clause nv hard g = [] <-> models nv hard = [].
Proof. unfold mcs_clause. split.
  - intros E. destruct (models nv hard) as [|a l] eqn:Em; auto. exfalso.
    destruct (minimal_below (dedup (map (viol g) (a::l))) (viol g a)) as [y [Hy _]].
    + apply dedup_in. now left.
    + rewrite E in Hy. inversion Hy.
  - intros ->. reflexivity. Qed.
End L.
