From InfOCF Require Import Core Tol TolExt PEnt Form Model Spec Exec Thm06 ThmInv ThmOps ThmP ThmTop ThmPExt PyLib TieLib TieSolver TieCons TieInf.
From InfOCFGen Require Import SrcCond SrcCons SrcInf SrcP.
From Coq Require Import ZArith.
(* TIE: the function GENERATED from inference/p_entailment.py (gen/SrcP.v) equals the hand-written model of
   p-entailment (Model.p_strict / p_ext), for every signature size, dictionary of conditionals, query and mode. *)

Section TieP.
Variable n : nat.
Notation W := (worlds n).

(* a key above every key of the dictionary is new: the assignment appends *)
Lemma zmax_fold_ge l x : (x <= fold_left Z.max l x)%Z /\ forall y, In y l -> (y <= fold_left Z.max l x)%Z.
Proof. revert x. induction l as [|a l IH]; intros x; simpl.
  - split; [lia|tauto].
  - destruct (IH (Z.max x a)) as [H1 H2]. split; [lia|]. intros y [<-|Hy]; [lia|auto]. Qed.
Lemma zmax_default_ge l d x : In x l -> (x <= zmax_default l d)%Z.
Proof. destruct l as [|a l]; [intros []|]. simpl. destruct (zmax_fold_ge l a) as [H1 H2]. intros [<-|Hx]; auto. Qed.
Lemma zdict_set_new {V} (d:dict Z V) k v : (forall k', In k' (dict_keys d) -> k' <> k) -> zdict_set d k v = d ++ [(k,v)].
Proof. induction d as [|[k' v'] d IH]; intros H; [reflexivity|]. simpl.
  destruct (k' =? k)%Z eqn:E.
  - apply Z.eqb_eq in E. exfalso. apply (H k'); [left; reflexivity|exact E].
  - rewrite IH; [reflexivity|]. intros k2 Hk2. apply H. right. exact Hk2. Qed.
Lemma zdict_set_max {V} (d:dict Z V) v :
  zdict_set d (zmax_default (dict_keys d) 0 + 1)%Z v = d ++ [(zmax_default (dict_keys d) 0 + 1, v)%Z].
Proof. apply zdict_set_new. intros k' Hk. pose proof (zmax_default_ge _ 0%Z _ Hk). lia. Qed.

Lemma fq_ceq q k : ceq (mk_cond (FNot (ccons q)) (cante q)) (negq k q).
Proof. intros w. split; reflexivity. Qed.
Lemma ceq_refl c : ceq c c.  Proof. intros w. split; reflexivity. Qed.
Lemma Forall2_ceq_refl D : Forall2 ceq D D.
Proof. induction D; constructor; auto. apply ceq_refl. Qed.

Theorem tie_p_inference (d:dict Z cond) q weakly u1 u2 :
  py_PEntailment_inference n (S (S (length d))) (Build_pybase d) u1 q weakly u2
  = Return (if weakly then p_ext n (dict_values d) q else p_strict n (dict_values d) q).
Proof.
  unfold py_PEntailment_inference. cbv zeta. cbn [bb_conditionals].
  rewrite zdict_set_max.
  set (fq := mk_cond (FNot (ccons q)) (cante q)).
  set (d' := d ++ [((zmax_default (dict_keys d) 0 + 1)%Z, fq)]).
  set (D := dict_values d).
  assert (Ev: dict_values d' = D ++ [fq]) by (unfold d', D, dict_values; rewrite map_app; reflexivity).
  assert (El: S (S (length d)) = S (length d')) by (unfold d'; rewrite app_length; simpl; lia).
  rewrite El.
  assert (Hc: Forall2 ceq (D ++ [fq]) (D ++ [negq (fresh D) q])).
  { apply Forall2_app; [apply Forall2_ceq_refl|]. constructor; [apply fq_ceq|constructor]. }
  destruct weakly; cbn [negb cbind].
  - (* extended mode *)
    destruct (tie_consistency n true d' u1) as [r [st [Hrun Hres]]]. rewrite Hrun. cbn [call].
    rewrite Ev in Hres. pose proof (consistency_cong n true _ _ Hc) as Ho.
    unfold p_ext. change (part_ext n (D ++ [negq (fresh D) q])) with (consistency n true (D ++ [negq (fresh D) q])).
    destruct (consistency n true (D ++ [fq])) as [P'|] eqn:E1, (consistency n true (D ++ [negq (fresh D) q])) as [P|] eqn:E2;
      simpl in Ho; try tauto; destruct r as [|Pc]; cbn [pres_map res_of] in Hres; try discriminate; cbn [is_pfalse cbind py_unres]; [|reflexivity].
    injection Hres as Hres.
    assert (HPc: Pc <> []).
    { intros ->. simpl in Hres. subst P'. unfold consistency, part_ext in E1. apply ext_nonempty in E1. congruence. }
    rewrite (py_index_last Pc []) by exact HPc. cbn [cbind]. f_equal. f_equal.
    apply s_solve_ext. intros w. rewrite s_holds_add, inf_asserted. simpl. rewrite andb_true_r.
    rewrite <- inf_layer_acP. unfold acP. rewrite Hres.
    unfold feas, inf_layer. rewrite (nofals_cong _ _ w (peq_last _ _ Ho)). unfold ante. apply andb_comm.
  - (* strict mode *)
    destruct (tie_consistency n false d' u1) as [r [st [Hrun Hres]]]. rewrite Hrun. cbn [call].
    rewrite Ev in Hres. pose proof (consistency_cong n false _ _ Hc) as Ho.
    unfold p_strict. change (part_strict n (D ++ [negq (fresh D) q])) with (consistency n false (D ++ [negq (fresh D) q])).
    destruct (consistency n false (D ++ [fq])), (consistency n false (D ++ [negq (fresh D) q])); simpl in Ho; try tauto;
      destruct r; cbn [pres_map res_of] in Hres; try discriminate; reflexivity.
Qed.
End TieP.

Section TiePTop.
Variable n : nat.
Notation W := (worlds n).
(* p-entailment, both modes *)
Theorem e2e_p weakly (d:dict Z cond) q u Pc st : dict_values d <> [] ->
  py_consistency n (S (length d)) (Build_pybase d) u weakly = Return (PVal Pc, st) ->
  exists b, py_general_inference n (py_PEntailment_inference n (S (S (length d))) (Build_pybase d) u) weakly q tt tt = Return b
         /\ infer n SysP weakly (dict_values d) q = Ans b.
Proof. intros HD Hrun. pose proof (src_partition n _ _ _ _ _ Hrun) as Hc.
  eexists. split.
  - apply tie_general_inference. apply (tie_p_inference n d q weakly u tt).
  - unfold infer. destruct (dict_values d) as [|c0 D0] eqn:ED; [congruence|]. rewrite <- ED in *. rewrite Hc.
    destruct weakly; reflexivity. Qed.

Lemma ans_inj_p a b : Ans a = Ans b -> a = b.  Proof. congruence. Qed.

Corollary src_p_strict_rankings (d:dict Z cond) q u Pc st : dict_values d <> [] -> trivial n q = false ->
  py_consistency n (S (length d)) (Build_pybase d) u false = Return (PVal Pc, st) ->
  exists b, py_general_inference n (py_PEntailment_inference n (S (S (length d))) (Build_pybase d) u) false q tt tt = Return b /\
    (b = true <-> forall kappa, model world W kappa (map ac (dict_values d)) -> accepts world W kappa (ac q)).
Proof. intros HD Ht Hrun. destruct (e2e_p false d q u Pc st HD Hrun) as [b [Hb Hi]]. exists b. split; [exact Hb|].
  rewrite <- (infer_p_strict_rankings n (dict_values d) q (acP Pc) HD (src_partition n _ _ _ _ _ Hrun) Ht).
  rewrite Hi. split; congruence. Qed.
Corollary src_p_ext_spec (d:dict Z cond) q u Pc st : dict_values d <> [] -> NoDup (map ckey (dict_values d)) ->
  py_consistency n (S (length d)) (Build_pybase d) u true = Return (PVal Pc, st) ->
  py_general_inference n (py_PEntailment_inference n (S (S (length d))) (Build_pybase d) u) true q tt tt
  = Return (ext_spec W (acP Pc) q (p_def (fresh (dict_values d)))).
Proof. intros HD Hnd Hrun. destruct (e2e_p true d q u Pc st HD Hrun) as [b [Hb Hi]]. rewrite Hb. f_equal.
  apply ans_inj_p. rewrite <- Hi. apply infer_p_ext; [exact HD|exact Hnd|]. exact (src_partition n _ _ _ _ _ Hrun). Qed.
End TiePTop.
