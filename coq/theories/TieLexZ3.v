From InfOCF Require Import Core Tol Lex Form Model PyLib TieLib TieSet TieSolver TieMax TieZ3.
From InfOCFGen Require Import SrcCondZ3 SrcLexZ3.
From Coq Require Import ZArith.
(* TIE: the z3 back-end of lexicographic inference.  The functions GENERATED from inference/lex_inf_z3.py (gen/SrcLexZ3.v)
   equal the hand-written model (Lex.lex_rec / Model.lex_strict / lex_ext) for every signature size, partition with
   distinct keys per layer, query and mode; every call hands both optimisers back as it received them. *)

Lemma gax_lex_is_model n fuel opt part : py_LexInfZ3_get_all_xi_i n fuel opt part = gax_model n fuel opt part.
Proof. reflexivity. Qed.

Section TieLexZ3.
Variable n : nat.
Notation W := (worlds n).
Variable q : cond.
Variable Pc : list (list cond).
Hypothesis Hkeys : forall L, In L Pc -> NoDup (map ckz L).
Notation P := (acP Pc).

Lemma bottom_tie_lexz3 Hv Hf F fv ff nf0 : ff = fam world W Hf F (fal q) -> minl (map cnt ff) = Some nf0 ->
  existsb (fun xv => (cnt xv =? nf0) &&
     forallb (fun xf => negb (cnt xf =? nf0) || lex_rec world W (ver q) (fal q) [] (fixp world Hv F xv) (fixp world Hf F xf)) ff) fv = false.
Proof. intros Eff Em. destruct (existsb _ fv) eqn:E; [|reflexivity]. exfalso.
  apply existsb_exists in E as [xv [_ Hx]]. apply andb_true_iff in Hx as [_ Hall].
  apply minl_in in Em. apply in_map_iff in Em as [xf [Ec Hxf]].
  eapply forallb_forall in Hall; [|exact Hxf]. rewrite Ec, Nat.eqb_refl in Hall. cbn [negb orb] in Hall.
  rewrite Eff in Hxf. apply fam_in in Hxf as [w [Hw [H1 [H2 E]]]].
  cbn [lex_rec] in Hall.
  assert (Hin: In w (sel world W (fixp world Hf F xf) (fal q))).
  { apply sel_in. split; [exact Hw|]. split; [|exact H2]. unfold fixp. rewrite H1, E, beq_refl. reflexivity. }
  destruct (sel world W (fixp world Hv F xv) (ver q)); [discriminate|].
  destruct (sel world W (fixp world Hf F xf) (fal q)); [inversion Hin|discriminate]. Qed.

(* min over the returned family = the least cardinality of the model's family *)
Lemma min_of_family part Lx fam0 m {R L} : (forall x, In x Lx <-> In x (minimal fam0)) ->
  (forall x, In x Lx -> length x = length part) -> minl (map cnt fam0) = Some m ->
  @py_min R L (map (fun v_s => py_len v_s) (map (sel_b true part) Lx)) = Next (Z.of_nat m).
Proof. intros HL Hlen Hm. rewrite <- minl_minimal in Hm.
  assert (E: map (fun v_s => py_len v_s) (map (sel_b true part) Lx) = map Z.of_nat (map cnt Lx)).
  { rewrite !map_map. apply map_ext_in. intros x Hx.
    assert (Ek: sel_b true part x = sel_b true part x) by reflexivity.
    unfold py_len. rewrite <- (map_length ckz). change (map ckz (sel_b true part x)) with (map kz (sel_b true part x)).
    rewrite <- kob_sel. fold (py_len (keys_of_bv (map kz part) x)). apply kob_len. rewrite map_length. apply Hlen. exact Hx. }
  rewrite E. apply py_min_same.
  - apply in_map. pose proof (minl_in _ _ Hm) as Hin. apply in_map_iff in Hin as [x [<- Hx]]. apply in_map. apply HL. exact Hx.
  - intros y Hy. apply in_map_iff in Hy as [c [<- Hc]]. apply in_map_iff in Hc as [x [<- Hx]].
    assert (m <= cnt x); [|lia]. apply (minl_le _ _ _ Hm). apply in_map. apply HL. exact Hx. Qed.

Lemma rec_tie_lexz3 : forall k fuel ov of (Hv Hf:pred world), k < length Pc -> k + length W + 1 < fuel ->
  o_soft ov = [] -> o_soft of = [] -> (forall w, o_holds ov w = Hv w) -> (forall w, o_holds of w = Hf w) ->
  py_LexInfZ3_rec_inference n fuel Pc ov of (Z.of_nat k) q
  = Return (lex_rec world W (ver q) (fal q) (rev (map layer_of (firstn (S k) P))) Hv Hf, (ov, of)).
Proof.
  induction k as [k IH] using lt_wf_ind; intros fuel ov of Hv Hf Hk Hfu Hsv Hsf Hhv Hhf; (destruct fuel as [|fuel]; [lia|]);
  cbn [py_LexInfZ3_rec_inference].
  rewrite (py_index_nat Pc k []) by exact Hk. cbn [cbind]. cbv zeta.
  set (part := nth k Pc []). set (F := layer_of (map ac part)).
  assert (Hpn: NoDup (map ckz part)) by (apply Hkeys; apply nth_In; exact Hk).
  assert (Ef: rev (map layer_of (firstn (S k) P)) = F :: rev (map layer_of (firstn k P))).
  { unfold acP. rewrite (firstn_S_nth k _ []) by (rewrite map_length; exact Hk).
    rewrite map_app, rev_app_distr. cbn [map rev app]. f_equal. unfold F, part.
    change (@nil (acond world)) with (map ac []). rewrite map_nth. reflexivity. }
  rewrite Ef. set (rest := rev (map layer_of (firstn k P))).
  rewrite !gax_lex_is_model.
  destruct (gax_family_list n part Hpn (o_add (o_push ov) (py_z3_make_A_then_B n q)) Hv (ver q) fuel) as [Lv [o1 [E1 [Ep1 HLv]]]].
  { rewrite o_soft_add. exact Hsv. } { intros w. rewrite o_holds_add, o_holds_push, Hhv. reflexivity. } { lia. }
  rewrite E1. cbn [call]. cbv beta iota zeta. rewrite Ep1, o_pop_add, o_pop_push. rewrite ?gax_lex_is_model.
  destruct (gax_family_list n part Hpn (o_add (o_push of) (py_z3_make_A_then_not_B n q)) Hf (fal q) fuel) as [Lf [o2 [E2 [Ep2 HLf]]]].
  { rewrite o_soft_add. exact Hsf. } { intros w. rewrite o_holds_add, o_holds_push, Hhf. reflexivity. } { lia. }
  rewrite E2. cbn [call]. cbv beta iota zeta. rewrite Ep2, o_pop_add, o_pop_push.
  fold F in HLv, HLf. set (fv := fam world W Hv F (ver q)) in *. set (ff := fam world W Hf F (fal q)) in *.
  cbn [lex_rec]. fold fv. fold ff.
  assert (HlenF: forall w, length (F w) = length part) by (intros w; unfold F; rewrite layer_of_len, map_length; reflexivity).
  assert (Hlv: forall x, In x Lv -> length x = length part) by (intros x Hx; apply HLv in Hx; eapply (fam_len n); eauto).
  assert (Hlf: forall x, In x Lf -> length x = length part) by (intros x Hx; apply HLf in Hx; eapply (fam_len n); eauto).
  (* emptiness *)
  destruct (minl (map cnt fv)) as [nv|] eqn:Env.
  2:{ apply minl_none in Env. apply map_eq_nil in Env.
      assert (Lv = []). { destruct Lv as [|x l]; [reflexivity|]. exfalso. assert (Hx: In x (minimal fv)) by (apply HLv; left; reflexivity). rewrite Env in Hx. inversion Hx. }
      subst Lv. reflexivity. }
  assert (HLvne: Lv <> []).
  { intros ->. assert (Hmn: minimal fv <> []) by (rewrite minimal_nil_iff; intros E; rewrite E in Env; discriminate).
    destruct (minimal fv) as [|x l] eqn:Em; [congruence|]. assert (In x []) by (apply HLv; left; reflexivity). inversion H. }
  replace (is_nil (map (sel_b true part) Lv)) with false by (destruct Lv; [congruence|reflexivity]). cbn [negb cbind].
  destruct (minl (map cnt ff)) as [nf0|] eqn:Enf.
  2:{ apply minl_none in Enf. apply map_eq_nil in Enf.
      assert (Lf = []). { destruct Lf as [|x l]; [reflexivity|]. exfalso. assert (Hx: In x (minimal ff)) by (apply HLf; left; reflexivity). rewrite Enf in Hx. inversion Hx. }
      subst Lf. reflexivity. }
  assert (HLfne: Lf <> []).
  { intros ->. assert (Hmn: minimal ff <> []) by (rewrite minimal_nil_iff; intros E; rewrite E in Enf; discriminate).
    destruct (minimal ff) as [|x l] eqn:Em; [congruence|]. assert (In x []) by (apply HLf; left; reflexivity). inversion H. }
  replace (is_nil (map (sel_b true part) Lf)) with false by (destruct Lf; [congruence|reflexivity]). cbn [negb cbind].
  rewrite (min_of_family part Lv fv nv HLv Hlv Env). cbn [cbind].
  rewrite (min_of_family part Lf ff nf0 HLf Hlf Enf). cbn [cbind].
  rewrite !of_nat_ltb.
  destruct (nf0 <? nv) eqn:Elt2.
  { cbn [cbind]. apply Nat.ltb_lt in Elt2. replace (nv <? nf0) with false by (symmetry; apply Nat.ltb_ge; lia). reflexivity. }
  cbn [cbind]. destruct (nv <? nf0) eqn:Elt1; cbn [cbind]; [reflexivity|].
  apply Nat.ltb_ge in Elt1, Elt2. assert (nf0 = nv) by lia. subst nf0.
  destruct k as [|k'].
  - cbn [Z.of_nat Z.eqb cbind]. unfold rest. cbn [firstn map rev]. f_equal. f_equal. symmetry.
    apply (bottom_tie_lexz3 Hv Hf F fv ff nv eq_refl Enf).
  - replace (Z.of_nat (S k') =? 0)%Z with false by (symmetry; apply Z.eqb_neq; lia). cbn [cbind].
    assert (Efil: forall Lx t, (forall x, In x Lx -> length x = length part) ->
              map (fun v_s => v_s) (filter (fun v_s => (py_len v_s =? Z.of_nat t)%Z) (map (sel_b true part) Lx))
              = map (sel_b true part) (filter (fun x => cnt x =? t) Lx)).
    { intros Lx t HX. rewrite map_id, filter_map. f_equal. apply filter_ext_in. intros x Hx.
      assert (El: py_len (sel_b true part x) = Z.of_nat (cnt x)).
      { unfold py_len. rewrite <- (map_length ckz). change (map ckz (sel_b true part x)) with (map kz (sel_b true part x)).
        rewrite <- kob_sel. fold (py_len (keys_of_bv (map kz part) x)). apply kob_len. rewrite map_length. apply HX. exact Hx. }
      rewrite El. destruct (cnt x =? t) eqn:E.
      - apply Nat.eqb_eq in E. subst. apply Z.eqb_refl.
      - apply Nat.eqb_neq in E. apply Z.eqb_neq. lia. }
    rewrite !Efil by assumption.
    set (ok := fun xv xf => lex_rec world W (ver q) (fal q) rest (fixp world Hv F xv) (fixp world Hf F xf)).
    rewrite (for_each_any_state_map (sel_b true part) (filter (fun x => cnt x =? nv) Lv) _
              (fun xv => forallb (ok xv) (filter (fun x => cnt x =? nv) Lf)) (ov, of) (true, (ov, of))).
    2:{ intros xv Hxv. apply filter_In in Hxv as [HxvL _].
        assert (Hxvl: length xv = length part) by (apply Hlv; exact HxvL).
        cbv beta iota zeta.
        rewrite (for_each_break_state_map (sel_b true part) (filter (fun x => cnt x =? nv) Lf) _ (ok xv) (ov, of)).
        2:{ intros xf Hxf. apply filter_In in Hxf as [HxfL _].
            assert (Hxfl: length xf = length part) by (apply Hlf; exact HxfL).
            cbv beta iota zeta.
            replace (Z.of_nat (S k') - 1)%Z with (Z.of_nat k') by lia.
            rewrite (IH k' (Nat.lt_succ_diag_r k') fuel _ _ (fixp world Hv F xv) (fixp world Hf F xf)); try lia.
            2:{ rewrite pattern_soft. exact Hsv. } 2:{ rewrite pattern_soft. exact Hsf. }
            2:{ intros w. rewrite (pattern_holds n part Hpn xv ov w Hxvl), Hhv. reflexivity. }
            2:{ intros w. rewrite (pattern_holds n part Hpn xf of w Hxfl), Hhf. reflexivity. }
            cbn [call]. cbv beta iota zeta. rewrite !(pattern_pop n part). fold rest. fold (ok xv xf).
            destruct (ok xv xf); reflexivity. }
        cbn [cbind]. cbv beta iota zeta. destruct (forallb (ok xv) _); reflexivity. }
    rewrite existsb_filter.
    rewrite (existsb_guard_same (fun x => cnt x =? nv) _ Lv fv).
    2:{ intros x. rewrite !Nat.eqb_eq. rewrite HLv. apply (least_in_minimal fv nv x Env). }
    assert (Einner: forall xv, forallb (ok xv) (filter (fun x => cnt x =? nv) Lf)
                               = forallb (fun xf => negb (cnt xf =? nv) || ok xv xf) ff).
    { intros xv. rewrite forallb_filter. apply forallb_guard_same. intros x. rewrite !Nat.eqb_eq. rewrite HLf. apply (least_in_minimal ff nv x Enf). }
    rewrite (existsb_ext_in _ (fun xv => (cnt xv =? nv) && forallb (fun xf => negb (cnt xf =? nv) || ok xv xf) ff))
      by (intros xv _; rewrite Einner; reflexivity).
    destruct (existsb _ fv); reflexivity.
Qed.

Lemma z3l_inf_asserted L s w :
  s_holds (fold_left (fun v_s v_c => let v_s := s_add v_s (py_z3_make_not_A_or_B n v_c) in v_s) L s) w
  = feas (map ac L) w && s_holds s w.
Proof. revert s. induction L as [|c L IH]; intros s; [reflexivity|].
  cbn [fold_left]. cbv zeta in *. rewrite IH, s_holds_add. unfold feas. cbn [map]. unfold nofals at 2. cbn [forallb].
  fold (nofals world (map ac L) w).
  assert (E: eval w (py_z3_make_not_A_or_B n c) = negb (cfal world (ac c) w)).
  { simpl. unfold fal. destruct (eval w (cante c)), (eval w (ccons c)); reflexivity. }
  rewrite E. destruct (negb (cfal world (ac c) w)), (nofals world (map ac L) w); reflexivity. Qed.
Lemma z3l_pair_fold L : forall a b,
  fold_left (fun '(v_opt_v, v_opt_f) v_c => let v_opt_v := (o_add v_opt_v (py_z3_make_not_A_or_B n v_c)) in
                                           let v_opt_f := (o_add v_opt_f (py_z3_make_not_A_or_B n v_c)) in (v_opt_v, v_opt_f)) L (a, b)
  = (fold_left (fun o c => o_add o (py_z3_make_not_A_or_B n c)) L a, fold_left (fun o c => o_add o (py_z3_make_not_A_or_B n c)) L b).
Proof. induction L as [|c L IH]; intros a b; [reflexivity|]. cbn [fold_left]. cbv zeta. apply IH. Qed.
Lemma z3l_inf_opt L o w :
  o_holds (fold_left (fun o c => o_add o (py_z3_make_not_A_or_B n c)) L o) w = feas (map ac L) w && o_holds o w.
Proof. rewrite o_holds_fold_add. f_equal. unfold feas, nofals. rewrite forallb_map. apply forallb_ext_in. intros c _.
  simpl. unfold fal. destruct (eval w (cante c)), (eval w (ccons c)); reflexivity. Qed.

(* LexInfZ3._inference *)
Theorem tie_lexz3_inference weakly u : Pc <> [] ->
  py_LexInfZ3_inference n (S (length Pc + length W + 1)) Pc q weakly u
  = Return (if weakly then lex_ext n P q else lex_strict n P q).
Proof. intros Hne. unfold py_LexInfZ3_inference. cbv zeta.
  assert (Hlen: 1 <= length Pc) by (destruct Pc; [congruence|simpl; lia]).
  destruct weakly; cbn [negb cbind].
  - (* extended mode *)
    rewrite !(py_index_last Pc [] Hne). cbn [cbind]. unfold lex_ext. rewrite inf_layer_acP. set (Linf := last Pc []).
    rewrite (s_solve_ext n _ (fun w => feas (map ac Linf) w && ante q w))
      by (intros w; rewrite z3l_inf_asserted, s_holds_add; simpl; rewrite andb_true_r; reflexivity).
    destruct (existsb (fun w => feas (map ac Linf) w && ante q w) W) eqn:Ea; cbn [Bool.eqb negb cbind]; [|reflexivity].
    rewrite (s_solve_ext n _ (fun w => feas (map ac Linf) w && fal q w))
      by (intros w; rewrite z3l_inf_asserted, s_holds_add; simpl; rewrite andb_true_r; reflexivity).
    destruct (existsb (fun w => feas (map ac Linf) w && fal q w) W) eqn:Ef; cbn [Bool.eqb negb cbind]; [|reflexivity].
    unfold py_len.
    destruct (Z.of_nat (length Pc) <? 2)%Z eqn:E2; cbn [cbind].
    + apply Z.ltb_lt in E2. assert (El: length Pc = 1) by lia.
      assert (Efin: fin_layers P = []).
      { unfold fin_layers, acP. destruct Pc as [|a [|b l]]; simpl in El; try lia. reflexivity. }
      rewrite Efin. reflexivity.
    + apply Z.ltb_ge in E2. rewrite z3l_pair_fold.
      replace (Z.of_nat (length Pc) - 2)%Z with (Z.of_nat (length Pc - 2)) by lia.
      rewrite (rec_tie_lexz3 (length Pc - 2) _ _ _ (feas (map ac Linf)) (feas (map ac Linf))); try lia.
      2:{ rewrite o_soft_fold_add. reflexivity. } 2:{ rewrite o_soft_fold_add. reflexivity. }
      2:{ intros w. rewrite z3l_inf_opt. simpl. apply andb_true_r. }
      2:{ intros w. rewrite z3l_inf_opt. simpl. apply andb_true_r. }
      cbn [call cbind]. cbv beta iota zeta. f_equal.
      assert (Efin: fin_layers P = firstn (S (length Pc - 2)) P).
      { unfold fin_layers. rewrite removelast_firstn_len. f_equal. unfold acP. rewrite map_length. lia. }
      rewrite Efin. unfold layers. destruct (firstn (S (length Pc - 2)) P) as [|L0 R0] eqn:Efn; [|reflexivity].
      exfalso. assert (length (firstn (S (length Pc - 2)) P) = S (length Pc - 2)).
      { apply firstn_length_le. unfold acP. rewrite map_length. lia. }
      rewrite Efn in H. discriminate.
  - (* strict mode *)
    unfold py_len. replace (Z.of_nat (length Pc) - 1)%Z with (Z.of_nat (length Pc - 1)) by lia.
    rewrite (rec_tie_lexz3 (length Pc - 1) _ zopt_new zopt_new (top world) (top world)); try lia; try reflexivity.
    cbn [call cbind]. cbv beta iota zeta. unfold lex_strict, layers. f_equal. f_equal. f_equal. f_equal.
    replace (S (length Pc - 1)) with (length P) by (unfold acP; rewrite map_length; lia).
    apply firstn_all.
Qed.
End TieLexZ3.
