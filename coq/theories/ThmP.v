From InfOCF Require Import Core Tol TolExt Kz PEnt Form Model Spec Exec Thm06.
From Coq Require Import Permutation.
(* C01: p-entailment (strict mode) *)
Section P.
Variable n : nat.
Notation W := (worlds n).

(* failure of the tolerance loop does not depend on the order in which the base is listed *)
Lemma loop_none_perm (Wl:list world) l1 l2 : Permutation l1 l2 ->
  tol_loop world Wl (length l1) l1 = None -> tol_loop world Wl (length l2) l2 = None.
Proof. intros Hp H1. destruct (tol_loop world Wl (length l2) l2) as [P|] eqn:E; auto. exfalso.
  apply loop_sound in E as [Hm Hc].
  apply (loop_complete world Wl (length l1) l1 P (le_n _)); [apply mtp_tp; auto| |exact H1].
  intros d Hd. eapply Permutation_in; [apply Permutation_sym; exact Hc|]. exact (Permutation_in d Hp Hd). Qed.

Theorem p_strict_tolerance D q : p_strict n D q = true <->
  ~ exists P, is_tp world W P /\ Permutation (concat P) (map ac (D ++ [negq (fresh D) q])).
Proof. unfold p_strict. rewrite <- strict_exact. destruct (part_strict n _); split; congruence. Qed.

Theorem p_strict_rankings D q : (exists w, In w W /\ fal q w = true) ->
  (p_strict n D q = true <-> forall kappa, model world W kappa (map ac D) -> accepts world W kappa (ac q)).
Proof. intros Hnt. set (qb := ac (negq (fresh D) q)).
  rewrite <- (p_ent_rankings world W (ac q) qb); auto.
  - unfold p_strict, part_strict. rewrite map_app. cbn [map]. fold qb.
    assert (Hperm: Permutation (qb :: map ac D) (map ac D ++ [qb])) by apply Permutation_cons_append.
    split.
    + intros H. destruct (tol_loop world W (length (D ++ [negq (fresh D) q])) (map ac D ++ [qb])) eqn:E; [discriminate|].
      replace (S (length (map ac D))) with (length (qb :: map ac D)) by reflexivity.
      eapply loop_none_perm; [apply Permutation_sym; exact Hperm|].
      rewrite app_length, map_length. cbn [length]. rewrite app_length in E. cbn [length] in E. exact E.
    + intros H. replace (S (length (map ac D))) with (length (qb :: map ac D)) in H by reflexivity.
      apply (loop_none_perm W _ _ Hperm) in H. rewrite app_length, map_length in H. cbn [length] in H.
      rewrite app_length. cbn [length]. rewrite H. reflexivity.
  - intros w. apply negq_fal.
  - intros w. apply ver_fal_excl. Qed.

Theorem p_trivial D q : trivial n q = true -> infer n SysP false D q = Refuse \/ infer n SysP false D q = Ans true.
Proof. intros H. unfold infer. destruct D; auto. destruct (consistency n false _); auto. rewrite H. auto. Qed.

(* the executable definition used by the correspondence check (Exec.p_def) is the model's answer *)
Lemma concat_perm_none (Wl:list world) P l x : Permutation (concat P) l ->
  (tol_loop world Wl (S (length (concat P))) (concat P ++ [x]) = None <-> tol_loop world Wl (length (l ++ [x])) (l ++ [x]) = None).
Proof. intros Hp. assert (Hp': Permutation (concat P ++ [x]) (l ++ [x])) by (apply Permutation_app_tail; exact Hp).
  assert (EL: S (length (concat P)) = length (concat P ++ [x])) by (rewrite app_length; cbn; lia). rewrite EL.
  split; intros H; [eapply loop_none_perm; eauto|eapply loop_none_perm; [apply Permutation_sym; exact Hp'|exact H]]. Qed.

Theorem p_def_strict D P q : part_strict n D = Some P -> trivial n q || p_strict n D q = p_def (fresh D) W P q.
Proof. intros HP. unfold p_def, trivial, sat. f_equal. unfold p_strict, part_strict.
  pose proof HP as HP'. apply loop_sound in HP' as [_ Hperm].
  rewrite map_app. cbn [map].
  pose proof (concat_perm_none W P (map ac D) (ac (negq (fresh D) q)) Hperm) as Hiff.
  rewrite app_length, map_length in Hiff. cbn [length] in Hiff. rewrite app_length. cbn [length].
  destruct (tol_loop world W (S (length (concat P))) _) eqn:E1; destruct (tol_loop world W (length D + 1) _) eqn:E2; auto; cbn.
  - destruct Hiff as [_ Hiff]. specialize (Hiff eq_refl). discriminate.
  - destruct Hiff as [Hiff _]. specialize (Hiff eq_refl). discriminate. Qed.
End P.
