From InfOCF Require Import Core Tol SysZ Kz Form Model Ocf ThmZocf PyLib TieLib TieSolver.
From InfOCFGen Require Import SrcCond SrcZocf.
From Coq Require Import ZArith.
(* TIE: SystemZPreOCF._rec_z_rank / z_part2ocf GENERATED from inference/preocf.py (gen/SrcZocf.v) compute the model's
   Z-rank of a world (Ocf.zrank_of), for every signature size, partition and world. *)

Section TieZocf.
Variable n : nat.
Notation W := (worlds n).

Variable w : world.
Hypothesis Hw : In w W.

Lemma rec_tie_zocf : forall k fuel Pc s, k < length Pc -> k < fuel ->
  (forall w', In w' W -> s_holds s w' = beq w' w) ->
  py_SystemZPreOCF_rec_z_rank n fuel Pc s (Z.of_nat k)
  = Return (Z.of_nat (zrank world (rev (map layer_of (firstn (S k) (acP Pc)))) w)).
Proof.
  induction k as [k IH] using lt_wf_ind; intros fuel Pc s Hk Hf Hs; (destruct fuel as [|fuel]; [lia|]);
  cbn [py_SystemZPreOCF_rec_z_rank].
  rewrite (py_index_nat Pc k []) by exact Hk. cbn [cbind]. cbv zeta.
  set (part := nth k Pc []).
  assert (Ef: rev (map layer_of (firstn (S k) (acP Pc))) = layer_of (map ac part) :: rev (map layer_of (firstn k (acP Pc)))).
  { unfold acP. rewrite (firstn_S_nth k _ []) by (rewrite map_length; exact Hk).
    rewrite map_app, rev_app_distr. cbn [map rev app]. f_equal. unfold part.
    change (@nil (acond world)) with (map ac []). rewrite map_nth. reflexivity. }
  rewrite Ef. cbn [zrank]. rewrite cnt0_nofals.
  set (s' := fold_left _ part s).
  assert (Hs': forall w', In w' W -> s_holds s' w' = nofals world (map ac part) w' && beq w' w).
  { intros w' Hw'. unfold s'. rewrite (layer_asserted n), Hs by exact Hw'. reflexivity. }
  rewrite (s_solve_ext_in n s' _ Hs'). rewrite (existsb_point n (nofals world (map ac part)) w Hw).
  destruct (nofals world (map ac part) w) eqn:En; cbn [cbind].
  - destruct k as [|k'].
    + cbn [Z.of_nat Z.eqb cbind firstn map rev zrank]. reflexivity.
    + replace (Z.of_nat (S k') =? 0)%Z with false by (symmetry; apply Z.eqb_neq; lia). cbn [cbind].
      replace (Z.of_nat (S k') - 1)%Z with (Z.of_nat k') by lia.
      rewrite (IH k' (Nat.lt_succ_diag_r k') fuel Pc s'); try lia.
      2:{ intros w' Hw'. rewrite Hs' by exact Hw'. destruct (beq w' w) eqn:E; [|apply andb_false_r].
          apply beq_eq in E. subst w'. rewrite En. reflexivity. }
      reflexivity.
  - f_equal. cbn [length]. rewrite rev_length, map_length, firstn_length_le by (unfold acP; rewrite map_length; lia). lia.
Qed.

(* z_part2ocf: the Z-rank of the world under the model's partition *)
Theorem tie_z_part2ocf Pc : Pc <> [] ->
  py_SystemZPreOCF_z_part2ocf n (S (length Pc)) Pc w = Return (Z.of_nat (zrank_of (acP Pc) w)).
Proof. intros Hne. unfold py_SystemZPreOCF_z_part2ocf. cbv zeta.
  assert (Hlen: 1 <= length Pc) by (destruct Pc; [congruence|simpl; lia]).
  unfold py_len. replace (Z.of_nat (length Pc) - 1)%Z with (Z.of_nat (length Pc - 1)) by lia.
  rewrite (rec_tie_zocf (length Pc - 1) (S (length Pc)) Pc); try lia.
  2:{ intros w' Hw'. rewrite s_holds_fold_add. simpl. rewrite andb_true_r.
      apply world_lits_hold. rewrite (worlds_length n w' Hw'), (worlds_length n w Hw). reflexivity. }
  cbn [call]. unfold zrank_of, layers. f_equal. f_equal. f_equal. f_equal. f_equal.
  replace (S (length Pc - 1)) with (length (acP Pc)) by (unfold acP; rewrite map_length; lia).
  apply firstn_all.
Qed.
End TieZocf.

Corollary tie_z_part2ocf_kz n w : In w (worlds n) -> forall Pc, Pc <> [] ->
  py_SystemZPreOCF_z_part2ocf n (S (length Pc)) Pc w = Return (Z.of_nat (kz world (acP Pc) w)).
Proof. intros Hw Pc Hne. rewrite <- (zrank_of_is_kz (acP Pc) w). exact (tie_z_part2ocf n w Hw Pc Hne). Qed.

(* ---- SystemZPreOCF.rank_world: the lazily filled table ---- *)
Lemma wfind_in {V} (d:wdict V) w : In w (map fst d) -> exists v, wdict_find d w = Some v /\ In (w, v) d.
Proof. induction d as [|[w' v'] d IH]; intros Hin; [destruct Hin|]. cbn [wdict_find]. destruct (beq w' w) eqn:E.
  - apply beq_eq in E. subst. exists v'. split; [reflexivity|left; reflexivity].
  - destruct Hin as [Hin|Hin]; [cbn in Hin; subst; rewrite (proj2 (beq_eq w w) eq_refl) in E; discriminate|].
    destruct (IH Hin) as [v [Hf Hi]]. exists v. split; [exact Hf|right; exact Hi]. Qed.
Lemma wset_find_same {V} (d:wdict V) w v : wdict_find (wdict_set d w v) w = Some v.
Proof. induction d as [|[w' v'] d IH]; cbn [wdict_set wdict_find]; [rewrite (proj2 (beq_eq w w) eq_refl); reflexivity|].
  destruct (beq w' w) eqn:E; cbn [wdict_find]; [rewrite (proj2 (beq_eq w w) eq_refl); reflexivity|rewrite E; exact IH]. Qed.
Lemma wset_find_other {V} (d:wdict V) w v w2 : w2 <> w -> wdict_find (wdict_set d w v) w2 = wdict_find d w2.
Proof. intros Hne. induction d as [|[w' v'] d IH]; cbn [wdict_set wdict_find].
  - destruct (beq w w2) eqn:E; [apply beq_eq in E; congruence|reflexivity].
  - destruct (beq w' w) eqn:E; cbn [wdict_find].
    + apply beq_eq in E. subst w'. destruct (beq w w2) eqn:E2; [apply beq_eq in E2; congruence|reflexivity].
    + destruct (beq w' w2); [reflexivity|exact IH]. Qed.
Lemma wset_keys {V} (d:wdict V) w v : In w (map fst d) -> map fst (wdict_set d w v) = map fst d.
Proof. induction d as [|[w' v'] d IH]; intros Hin; [destruct Hin|]. cbn [wdict_set]. destruct (beq w' w) eqn:E.
  - apply beq_eq in E. subst. reflexivity.
  - cbn [map fst]. f_equal. apply IH. destruct Hin as [Hin|Hin]; [cbn in Hin; subst; rewrite (proj2 (beq_eq w w) eq_refl) in E; discriminate|exact Hin]. Qed.
Lemma wset_in {V} (d:wdict V) w v x : In x (wdict_set d w v) -> In x d \/ x = (w, v).
Proof. induction d as [|[w' v'] d IH]; cbn [wdict_set]; [intros [<-|[]]; right; reflexivity|].
  destruct (beq w' w); intros [<-|Hin]; [right; reflexivity|left; right; exact Hin|left; left; reflexivity|].
  destruct (IH Hin) as [H|H]; [left; right; exact H|right; exact H]. Qed.

Definition ztable_ok (n:nat) (Pc:list (list cond)) (rk:wdict (option Z)) : Prop :=
  forall w v, In (w, v) rk -> In w (worlds n) /\ (v = None \/ v = Some (Z.of_nat (kz world (acP Pc) w))).

(* whatever part of the table is filled in, and whether or not recomputation is forced: the answer is the Z-rank, the table keeps
   its worlds, stays correct, holds the rank of the asked world afterwards and is unchanged elsewhere *)
Theorem tie_zocf_rank_world n Pc (rk:wdict (option Z)) w force : Pc <> [] -> ztable_ok n Pc rk -> In w (map fst rk) ->
  exists rk', py_SystemZPreOCF_rank_world n (S (length Pc)) Pc w force rk = Return (Z.of_nat (kz world (acP Pc) w), rk') /\
    map fst rk' = map fst rk /\ ztable_ok n Pc rk' /\ wdict_find rk' w = Some (Some (Z.of_nat (kz world (acP Pc) w))) /\
    (forall w2, w2 <> w -> wdict_find rk' w2 = wdict_find rk w2).
Proof. intros Hne Hok Hin. destruct (wfind_in rk w Hin) as [v [Hf Hi]]. destruct (Hok w v Hi) as [Hw Hv].
  unfold py_SystemZPreOCF_rank_world. unfold wdict_get at 1. rewrite Hf.
  assert (Hcompute: exists rk', cbind (call (py_SystemZPreOCF_z_part2ocf n (S (length Pc)) Pc w) (fun r3 => Next (wdict_set rk w (Some r3))))
                      (fun v_at__ranks : wdict (option Z) => cbind (wdict_get v_at__ranks w) (fun t4 => cbind (py_assert (negb (is_none t4))) (fun _ => cbind (py_unopt t4) (fun t5 => Return (t5, v_at__ranks)))))
                    = @Return (Z * wdict (option Z)) unit unit (Z.of_nat (kz world (acP Pc) w), rk') /\
                    map fst rk' = map fst rk /\ ztable_ok n Pc rk' /\ wdict_find rk' w = Some (Some (Z.of_nat (kz world (acP Pc) w))) /\
                    (forall w2, w2 <> w -> wdict_find rk' w2 = wdict_find rk w2)).
  { exists (wdict_set rk w (Some (Z.of_nat (kz world (acP Pc) w)))). rewrite (tie_z_part2ocf_kz n w Hw Pc Hne). cbn [call cbind].
    unfold wdict_get. rewrite wset_find_same. cbn [cbind is_none negb py_assert py_unopt]. split; [reflexivity|].
    split; [apply wset_keys; exact Hin|]. split; [|split; [first [reflexivity|apply wset_find_same]|intros w2 H2; apply wset_find_other; exact H2]].
    intros w' v' Hin'. apply wset_in in Hin' as [Hin'|E]; [apply Hok; exact Hin'|]. inversion E; subst. split; [exact Hw|right; reflexivity]. }
  destruct force; cbn [cbind].
  - exact Hcompute.
  - destruct Hv as [->| ->]; cbn [is_none cbind].
    + exact Hcompute.
    + exists rk. unfold wdict_get. rewrite Hf. cbn [cbind is_none negb py_assert py_unopt]. split; [reflexivity|].
      split; [reflexivity|]. split; [exact Hok|]. split; [first [reflexivity|exact Hf]|reflexivity]. Qed.
