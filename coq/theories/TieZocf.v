From InfOCF Require Import Core Tol SysZ Kz Form Model Ocf ThmZocf PyLib TieLib TieSolver.
From InfOCFGen Require Import SrcCond SrcZocf.
From Coq Require Import ZArith.
(* TIE: SystemZPreOCF._rec_z_rank / z_part2ocf GENERATED from inference/preocf.py (gen/SrcZocf.v) compute the model's
   Z-rank of a world (Ocf.zrank_of), for every signature size, partition and world. *)

Section TieZocf.
Variable n : nat.
Notation W := (worlds n).

Variable w : world.
Hypothesis Hw : In w W.

Lemma rec_tie_zocf : forall k fuel Pc s, k < length Pc -> k < fuel ->
  (forall w', In w' W -> s_holds s w' = beq w' w) ->
  py_SystemZPreOCF_rec_z_rank n fuel Pc s (Z.of_nat k)
  = Return (Z.of_nat (zrank world (rev (map layer_of (firstn (S k) (acP Pc)))) w)).
Proof.
  induction k as [k IH] using lt_wf_ind; intros fuel Pc s Hk Hf Hs; (destruct fuel as [|fuel]; [lia|]);
  cbn [py_SystemZPreOCF_rec_z_rank].
  rewrite (py_index_nat Pc k []) by exact Hk. cbn [cbind]. cbv zeta.
  set (part := nth k Pc []).
  assert (Ef: rev (map layer_of (firstn (S k) (acP Pc))) = layer_of (map ac part) :: rev (map layer_of (firstn k (acP Pc)))).
  { unfold acP. rewrite (firstn_S_nth k _ []) by (rewrite map_length; exact Hk).
    rewrite map_app, rev_app_distr. cbn [map rev app]. f_equal. unfold part.
    change (@nil (acond world)) with (map ac []). rewrite map_nth. reflexivity. }
  rewrite Ef. cbn [zrank]. rewrite cnt0_nofals.
  set (s' := fold_left _ part s).
  assert (Hs': forall w', In w' W -> s_holds s' w' = nofals world (map ac part) w' && beq w' w).
  { intros w' Hw'. unfold s'. rewrite (layer_asserted n), Hs by exact Hw'. reflexivity. }
  rewrite (s_solve_ext_in n s' _ Hs'). rewrite (existsb_point n (nofals world (map ac part)) w Hw).
  destruct (nofals world (map ac part) w) eqn:En; cbn [cbind].
  - destruct k as [|k'].
    + cbn [Z.of_nat Z.eqb cbind firstn map rev zrank]. reflexivity.
    + replace (Z.of_nat (S k') =? 0)%Z with false by (symmetry; apply Z.eqb_neq; lia). cbn [cbind].
      replace (Z.of_nat (S k') - 1)%Z with (Z.of_nat k') by lia.
      rewrite (IH k' (Nat.lt_succ_diag_r k') fuel Pc s'); try lia.
      2:{ intros w' Hw'. rewrite Hs' by exact Hw'. destruct (beq w' w) eqn:E; [|apply andb_false_r].
          apply beq_eq in E. subst w'. rewrite En. reflexivity. }
      reflexivity.
  - f_equal. cbn [length]. rewrite rev_length, map_length, firstn_length_le by (unfold acP; rewrite map_length; lia). lia.
Qed.

(* z_part2ocf: the Z-rank of the world under the model's partition *)
Theorem tie_z_part2ocf Pc : Pc <> [] ->
  py_SystemZPreOCF_z_part2ocf n (S (length Pc)) Pc w = Return (Z.of_nat (zrank_of (acP Pc) w)).
Proof. intros Hne. unfold py_SystemZPreOCF_z_part2ocf. cbv zeta.
  assert (Hlen: 1 <= length Pc) by (destruct Pc; [congruence|simpl; lia]).
  unfold py_len. replace (Z.of_nat (length Pc) - 1)%Z with (Z.of_nat (length Pc - 1)) by lia.
  rewrite (rec_tie_zocf (length Pc - 1) (S (length Pc)) Pc); try lia.
  2:{ intros w' Hw'. rewrite s_holds_fold_add. simpl. rewrite andb_true_r.
      apply world_lits_hold. rewrite (worlds_length n w' Hw'), (worlds_length n w Hw). reflexivity. }
  cbn [call]. unfold zrank_of, layers. f_equal. f_equal. f_equal. f_equal. f_equal.
  replace (S (length Pc - 1)) with (length (acP Pc)) by (unfold acP; rewrite map_length; lia).
  apply firstn_all.
Qed.
End TieZocf.

Corollary tie_z_part2ocf_kz n w : In w (worlds n) -> forall Pc, Pc <> [] ->
  py_SystemZPreOCF_z_part2ocf n (S (length Pc)) Pc w = Return (Z.of_nat (kz world (acP Pc) w)).
Proof. intros Hw Pc Hne. rewrite <- (zrank_of_is_kz (acP Pc) w). exact (tie_z_part2ocf n w Hw Pc Hne). Qed.
