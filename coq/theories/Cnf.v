From InfOCF Require Import Core Form Mcs.
(* C15, executable part: integer CNFs, the verified faithfulness checker, and the clause-level
   reference for Optimizer.minimal_correction_subsets.  No proofs in this file. *)
Definition lit := (bool * nat)%type.            (* (positive?, variable index) *)
Definition clause := list lit.
Definition cnf := list clause.
Definition asg := list bool.                     (* index = variable *)
Definition lsat (a:asg) (l:lit) : bool := Bool.eqb (nth (snd l) a false) (fst l).
Definition csat (a:asg) (c:clause) : bool := existsb (lsat a) c.
Definition cnfsat (a:asg) (f:cnf) : bool := forallb (csat a) f.

(* amap: position i holds the variable index of atom i *)
Definition proj (amap:list nat) (a:asg) : world := map (fun v => nth v a false) amap.
Definition check_faithful (nv:nat) (amap:list nat) (f:form) (c:cnf) : bool :=
  forallb (fun a => implb (cnfsat a c) (eval (proj amap a) f)) (worlds nv) &&
  forallb (fun w => implb (eval w f) (existsb (fun a => beq (proj amap a) w && cnfsat a c) (worlds nv)))
          (worlds (length amap)).

(* soft clause groups: (key, non-falsification clauses of that conditional) *)
Definition groups := list (nat * cnf).
Definition viol (g:groups) (a:asg) : bv := map (fun kc => negb (cnfsat a (snd kc))) g.
Definition models (nv:nat) (hard:cnf) : list asg := filter (fun a => cnfsat a hard) (worlds nv).
Definition mcs_clause (nv:nat) (hard:cnf) (g:groups) : list bv :=
  minimal (dedup (map (viol g) (models nv hard))).
Definition keys_of_bv (g:groups) (v:bv) : list nat :=
  map fst (filter (fun p => snd p) (combine (map fst g) v)).

(* the enumeration loop with a brute-force MaxSAT oracle (first not-blocked model) *)
Definition bf_pick (nv:nat) (hard:cnf) (g:groups) (bl:list bv) : option asg :=
  find (fun a => notblocked bl (viol g a)) (models nv hard).
Definition mcs_loop (nv:nat) (hard:cnf) (g:groups) : option (list bv) :=
  loop asg (viol g) (bf_pick nv hard g) (S (length (models nv hard))) [].

(* remove_supersets: stable sort by cardinality, then keep what has no kept subset *)
Fixpoint insert_by (x:bv) (l:list bv) : list bv :=
  match l with [] => [x] | y::r => if cnt x <? cnt y then x :: y :: r else y :: insert_by x r end.
Definition sort_by_len (l:list bv) : list bv := fold_right insert_by [] (rev l).
Fixpoint rs_filter (l acc:list bv) : list bv :=
  match l with [] => rev acc
  | a::r => if existsb (fun b => sub b a) acc then rs_filter r acc else rs_filter r (a::acc) end.
Definition remove_supersets (l:list bv) : list bv := rs_filter (sort_by_len l) [].
