From InfOCF Require Import Core Form PyLib TieLib TieSet.
From InfOCFGen Require Import SrcOpt.
From Coq Require Import ZArith Sorting.Sorted.
(* TIE: remove_supersets GENERATED from inference/optimizer.py (gen/SrcOpt.v) returns exactly the inclusion-minimal members
   of a list of sets of keys: every result is a member, every member has a subset among the results, and no result has a
   member strictly below it. *)

Lemma zsubset_refl a : zsubset a a = true.
Proof. apply zsubset_in. auto. Qed.
Lemma zsubset_trans a b c : zsubset a b = true -> zsubset b c = true -> zsubset a c = true.
Proof. rewrite !zsubset_in. auto. Qed.

(* ---- sorted(l, key=len) ---- *)
Definition lenle (a b:list Z) : Prop := length a <= length b.
Lemma insert_in (x:list Z) l y : In y (insert_by_len x l) <-> y = x \/ In y l.
Proof. induction l as [|z l IH]; simpl; [intuition|]. destruct (length z <=? length x); simpl; [rewrite IH|]; intuition. Qed.
Lemma sort_in (l:list (list Z)) y : In y (sort_by_len l) <-> In y l.
Proof. unfold sort_by_len. induction l as [|a l IH]; simpl; [tauto|]. rewrite insert_in, IH. intuition. Qed.
Lemma insert_sorted (x:list Z) l : StronglySorted lenle l -> StronglySorted lenle (insert_by_len x l).
Proof. induction 1 as [|z l Hs IH Hall]; simpl; [constructor; constructor|].
  destruct (length z <=? length x) eqn:E.
  - apply Nat.leb_le in E. constructor; [exact IH|]. apply Forall_forall. intros y Hy. apply insert_in in Hy as [->|Hy]; [exact E|].
    rewrite Forall_forall in Hall. apply Hall. exact Hy.
  - apply Nat.leb_gt in E. constructor; [constructor; assumption|]. constructor; [unfold lenle; lia|].
    rewrite Forall_forall in *. intros y Hy. specialize (Hall y Hy). unfold lenle in *. lia. Qed.
Lemma sort_sorted (l:list (list Z)) : StronglySorted lenle (sort_by_len l).
Proof. unfold sort_by_len. induction l as [|a l IH]; simpl; [constructor|]. apply insert_sorted. exact IH. Qed.

(* ---- the filter loop ---- *)
Definition rs_step (filt:list (list Z)) (a:list Z) : list (list Z) :=
  if existsb (fun b => zsubset b a) filt then filt else filt ++ [a].

Lemma inner_flag a : forall filt,
  @for_each (list Z) (list (list Z)) (list (list Z)) bool filt
     (fun v_b v_is_superset => cbind (if zsubset v_b a then (let v_is_superset := true in Break v_is_superset) else Next v_is_superset)
                                     (fun v_is_superset => Next v_is_superset)) false
  = Next (existsb (fun b => zsubset b a) filt).
Proof. induction filt as [|b filt IH]; [reflexivity|]. cbn [for_each existsb]. destruct (zsubset b a); cbn [cbind orb]; [reflexivity|exact IH]. Qed.

Lemma outer_loop : forall l acc,
  @for_each (list Z) (list (list Z)) unit (list (list Z)) l
    (fun v_a v_filtered => let v_is_superset := false in
      cbind (for_each v_filtered (fun v_b v_is_superset => cbind (if zsubset v_b v_a then (let v_is_superset := true in Break v_is_superset) else Next v_is_superset)
                                     (fun v_is_superset => Next v_is_superset)) v_is_superset)
            (fun v_is_superset => let v_filtered := (if negb v_is_superset then (let v_filtered := v_filtered ++ [v_a] in v_filtered) else v_filtered) in Next v_filtered)) acc
  = Next (fold_left rs_step l acc).
Proof. induction l as [|a l IH]; intros acc; [reflexivity|]. cbn [for_each fold_left]. cbv zeta. rewrite inner_flag. cbn [cbind].
  unfold rs_step at 2. destruct (existsb (fun b => zsubset b a) acc); cbn [negb]; apply IH. Qed.

Theorem remove_supersets_shape l : py_remove_supersets 0 l = Return (fold_left rs_step (sort_by_len l) []).
Proof. unfold py_remove_supersets. cbv zeta. rewrite outer_loop. cbn [cbind]. rewrite map_id. reflexivity. Qed.

(* ---- what the fold returns ---- *)
Inductive before {A} : list A -> A -> A -> Prop :=
| before_here z y l : In y l -> before (z :: l) z y
| before_later a z y l : before l z y -> before (a :: l) z y.
Lemma before_app_r {A} (l:list A) a z : In z l -> before (l ++ [a]) z a.
Proof. induction l as [|b l IH]; [intros []|]. intros [->|H]; simpl; [apply before_here; apply in_or_app; right; left; reflexivity|apply before_later; auto]. Qed.
Lemma before_app_inv {A} (l:list A) a z y : before (l ++ [a]) z y -> before l z y \/ (In z l /\ y = a).
Proof. induction l as [|b l IH]; simpl; intros H.
  - inversion H; subst; [match goal with Hx : In _ [] |- _ => inversion Hx end|match goal with Hx : before [] _ _ |- _ => inversion Hx end].
  - inversion H; subst.
    + match goal with Hx : In y (l ++ [a]) |- _ => apply in_app_or in Hx as [Hx|[<-|[]]] end; [left; apply before_here; auto|right; split; [left; reflexivity|reflexivity]].
    + match goal with Hx : before (l ++ [a]) z y |- _ => destruct (IH Hx) as [H1|[H1 H2]] end; [left; apply before_later; auto|right; split; [right; auto|auto]]. Qed.
Lemma in_cases {A} (l:list A) z y : In z l -> In y l -> z = y \/ before l z y \/ before l y z.
Proof. induction l as [|a l IH]; [intros []|]. intros [->|Hz] [->|Hy]; auto.
  - right. left. apply before_here. exact Hy.
  - right. right. apply before_here. exact Hz.
  - destruct (IH Hz Hy) as [E|[B|B]]; auto; [right; left|right; right]; apply before_later; exact B. Qed.
Lemma sorted_before l z y : StronglySorted lenle l -> before l z y -> length z <= length y.
Proof. intros Hs Hb. induction Hb as [z y l Hy|a z y l Hb IH]; inversion Hs as [|? ? Hs' Hall]; subst.
  - rewrite Forall_forall in Hall. apply Hall. exact Hy.
  - apply IH. exact Hs'. Qed.

Section RS.
Variable input : list (list Z).
Hypothesis Hsets : forall x, In x input -> NoDup x.

Lemma fold_props : forall l acc,
  StronglySorted lenle (acc ++ l) -> (forall z y, before acc z y -> zsubset z y = false) ->
  let res := fold_left rs_step l acc in
  (forall x, In x res -> In x acc \/ In x l) /\ (forall x, In x acc -> In x res) /\
  (forall x, In x l -> exists y, In y res /\ zsubset y x = true) /\
  (forall z y, before res z y -> zsubset z y = false) /\ StronglySorted lenle res.
Proof. induction l as [|a l IH]; intros acc Hs Hanti; cbn [fold_left]; cbv zeta.
  - rewrite app_nil_r in Hs. split; [auto|split; [auto|split; [intros x []|split; [exact Hanti|exact Hs]]]].
  - destruct (existsb (fun b => zsubset b a) acc) eqn:E.
    + replace (rs_step acc a) with acc by (unfold rs_step; rewrite E; reflexivity).
      assert (Hs': StronglySorted lenle (acc ++ l)).
      { clear -Hs. induction acc as [|b acc IHa]; simpl in *; [inversion Hs; auto|]. inversion Hs as [|? ? Hs1 Hall]; subst.
        constructor; [apply IHa; exact Hs1|]. rewrite Forall_forall in *. intros y Hy. apply Hall. apply in_app_or in Hy as [Hy|Hy]; apply in_or_app; [left|right; right]; auto. }
      destruct (IH acc Hs' Hanti) as [H1 [H2 [H3 [H4 H5]]]].
      split; [|split; [exact H2|split; [|split; [exact H4|exact H5]]]].
      * intros x Hx. destruct (H1 x Hx); [left|right; right]; auto.
      * intros x [<-|Hx]; [|apply H3; exact Hx]. apply existsb_exists in E as [b [Hb Hsub]]. exists b. split; [apply H2; exact Hb|exact Hsub].
    + replace (rs_step acc a) with (acc ++ [a]) by (unfold rs_step; rewrite E; reflexivity).
      assert (Hs': StronglySorted lenle ((acc ++ [a]) ++ l)) by (rewrite <- app_assoc; exact Hs).
      assert (Hanti': forall z y, before (acc ++ [a]) z y -> zsubset z y = false).
      { intros z y Hb. apply before_app_inv in Hb as [Hb|[Hz ->]]; [apply Hanti; exact Hb|].
        destruct (zsubset z a) eqn:Ez; [|reflexivity]. assert (existsb (fun b => zsubset b a) acc = true); [|congruence].
        apply existsb_exists. exists z. auto. }
      destruct (IH (acc ++ [a]) Hs' Hanti') as [H1 [H2 [H3 [H4 H5]]]].
      split; [|split; [|split; [|split; [exact H4|exact H5]]]].
      * intros x Hx. destruct (H1 x Hx) as [Hx'|Hx']; [apply in_app_or in Hx' as [?|[<-|[]]]; [left; auto|right; left; auto]|right; right; auto].
      * intros x Hx. apply H2. apply in_or_app. left. exact Hx.
      * intros x [<-|Hx]; [|apply H3; exact Hx]. exists a. split; [apply H2; apply in_or_app; right; left; reflexivity|apply zsubset_refl].
Qed.

(* remove_supersets: the inclusion-minimal members *)
Theorem tie_remove_supersets : exists res, py_remove_supersets 0 input = Return res /\
  (forall y, In y res -> In y input) /\
  (forall x, In x input -> exists y, In y res /\ zsubset y x = true) /\
  (forall y x, In y res -> In x input -> zsubset x y = true -> zsubset y x = true).
Proof. eexists. split; [apply remove_supersets_shape|].
  destruct (fold_props (sort_by_len input) []) as [H1 [_ [H3 [H4 H5]]]]; [apply sort_sorted|intros z y Hb; inversion Hb|].
  cbv zeta in *. set (res := fold_left rs_step (sort_by_len input) []) in *.
  assert (Hin: forall y, In y res -> In y input) by (intros y Hy; destruct (H1 y Hy) as [[]|Hy']; apply sort_in; exact Hy').
  split; [exact Hin|]. split.
  - intros x Hx. apply H3. apply sort_in. exact Hx.
  - intros y x Hy Hx Hsub. destruct (H3 x ltac:(apply sort_in; exact Hx)) as [z [Hz Hzx]].
    destruct (in_cases res z y Hz Hy) as [->|[B|B]]; [exact Hzx| |].
    + pose proof (zsubset_trans z x y Hzx Hsub) as C. rewrite (H4 z y B) in C. discriminate.
    + pose proof (sorted_before res y z H5 B) as Hlen.
      assert (Hzy: zsubset z y = true) by (eapply zsubset_trans; eauto).
      assert (Hyz: zsubset y z = true).
      { apply zsubset_in. apply (@NoDup_length_incl Z z y); [apply Hsets; apply Hin; exact Hz|exact Hlen|]. intros k Hk. apply (proj1 (zsubset_in z y) Hzy k Hk). }
      eapply zsubset_trans; eauto.
Qed.
End RS.
