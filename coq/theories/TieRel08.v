From InfOCF Require Import Core Tol TolExt Form Model Thm06 ThmIncl ThmPExt PyLib TieLib TieCons TieAnsP TieAnsZ TieAnsW TieAnsLex.
From Coq Require Import ZArith.
(* C08 on the GENERATED code: whatever the generated p-entailment answers True, the generated System Z answers True, and so
   on through System W and lexicographic inference - in strict and in extended mode. *)
Section Rel08.
Variable n : nat.
Variable D : list cond.
Hypothesis Hnd : NoDup (map kzc D).
Hypothesis HD : D <> [].
Lemma ans_true b : Ans b = Ans true -> b = true.  Proof. congruence. Qed.
Lemma src_consistent weakly q b : src_p n D weakly q b -> exists P, consistency n weakly D = Some P.
Proof. intros H. pose proof (src_p_infer n D HD weakly q b H) as Hi. unfold infer in Hi.
  destruct D as [|c0 D0]; [congruence|]. destruct (consistency n weakly (c0 :: D0)) as [P|]; [exists P; reflexivity|discriminate]. Qed.

Theorem src_chain_strict q bp bz bw bl :
  src_p n D false q bp -> src_z n D false q bz -> src_w n D false q bw -> src_lex n D false q bl ->
  (bp = true -> bz = true) /\ (bz = true -> bw = true) /\ (bw = true -> bl = true).
Proof. intros Hp Hz Hw Hl. destruct (src_consistent false q bp Hp) as [P HP].
  destruct (strict_chain n D P q HD HP) as [C1 [C2 C3]].
  rewrite (src_p_infer n D HD false q bp Hp), (src_z_infer n D HD false q bz Hz) in C1.
  rewrite (src_z_infer n D HD false q bz Hz), (src_w_infer n D Hnd HD false q bw Hw) in C2.
  rewrite (src_w_infer n D Hnd HD false q bw Hw), (src_lex_infer n D Hnd HD false q bl Hl) in C3.
  repeat split; intros ->; apply ans_true; auto. Qed.
Theorem src_chain_extended q bp bz bw bl :
  src_p n D true q bp -> src_z n D true q bz -> src_w n D true q bw -> src_lex n D true q bl ->
  (bp = true -> bz = true) /\ (bz = true -> bw = true) /\ (bw = true -> bl = true).
Proof. intros Hp Hz Hw Hl. destruct (src_consistent true q bp Hp) as [P HP].
  assert (Hnk: NoDup (map ckey D)).
  { clear -Hnd. unfold kzc in Hnd. rewrite <- (map_map ckey Z.of_nat) in Hnd. apply NoDup_map_inv in Hnd. exact Hnd. }
  pose proof (ext_chain_full n D P q HD Hnk HP) as C1.
  destruct (ext_chain n D P q HD HP) as [_ [C2 C3]].
  rewrite (src_p_infer n D HD true q bp Hp), (src_z_infer n D HD true q bz Hz) in C1.
  rewrite (src_z_infer n D HD true q bz Hz), (src_w_infer n D Hnd HD true q bw Hw) in C2.
  rewrite (src_w_infer n D Hnd HD true q bw Hw), (src_lex_infer n D Hnd HD true q bl Hl) in C3.
  repeat split; intros ->; apply ans_true; auto. Qed.
End Rel08.
