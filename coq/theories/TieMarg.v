From InfOCF Require Import Core Tol Form Model Ocf PyLib TieLib TieTpo.
From InfOCFGen Require Import SrcTpo.
From Coq Require Import ZArith Lia.
(* TIE: PreOCF.marginalize GENERATED from inference/preocf.py (gen/SrcTpo.v) equals the model Ocf.marginalize: over the
   signature a_0..a_(n-1), for every table of distinct worlds of length n and every list of atoms to eliminate, the new
   table holds one entry per reduced world, in order of first occurrence, with the least rank of the worlds it stands for
   (unranked worlds contribute nothing), and the new signature is the old one without the eliminated atoms. *)

Lemma filter_m_all {A R L} (f:A -> ctl R L bool) (g:A -> bool) l : (forall a, In a l -> f a = Next (g a)) -> filter_m f l = Next (filter g l).
Proof. induction l as [|a l IH]; intros H; [reflexivity|]. cbn [filter_m filter]. rewrite (H a (or_introl eq_refl)). cbn [cbind].
  rewrite IH by (intros x Hx; apply H; right; exact Hx). cbn [cbind]. destruct (g a); reflexivity. Qed.
Lemma zmem_of_nat i l : zmem (Z.of_nat i) (map Z.of_nat l) = existsb (Nat.eqb i) l.
Proof. unfold zmem. induction l as [|a l IH]; [reflexivity|]. cbn [map existsb]. rewrite IH. f_equal.
  destruct (Nat.eqb_spec i a) as [->|Hne]; [apply Z.eqb_refl|apply Z.eqb_neq; lia]. Qed.

Lemma filter_of_nat (g:nat -> bool) l : filter (fun k => g (Z.to_nat k)) (map Z.of_nat l) = map Z.of_nat (filter g l).
Proof. induction l as [|a l IH]; [reflexivity|]. cbn [map filter]. rewrite Nat2Z.id, IH. destruct (g a); reflexivity. Qed.

(* deleting the positions listed in drop = keeping the others, by index *)
Definition keepnat (drop:list nat) (i:nat) : bool := negb (existsb (Nat.eqb i) drop).
Lemma del_from_as_filter drop : forall w i,
  del_from i drop w = map (fun j => nth (j - i) w false) (filter (keepnat drop) (seq i (length w))).
Proof. induction w as [|b w IH]; intros i; [reflexivity|]. cbn [del_from length seq filter]. unfold keepnat at 1.
  assert (Et: map (fun j => nth (j - i) (b :: w) false) (filter (keepnat drop) (seq (S i) (length w)))
            = map (fun j => nth (j - S i) w false) (filter (keepnat drop) (seq (S i) (length w)))).
  { apply map_ext_in. intros j Hj. apply filter_In in Hj as [Hj _]. apply in_seq in Hj.
    replace (j - i) with (S (j - S i)) by lia. reflexivity. }
  destruct (existsb (Nat.eqb i) drop); cbn [negb].
  - rewrite IH, Et. reflexivity.
  - cbn [map]. rewrite Et, Nat.sub_diag, IH. reflexivity. Qed.
Lemma del_as_filter drop w : del drop w = map (fun j => nth j w false) (filter (keepnat drop) (seq 0 (length w))).
Proof. unfold del. rewrite del_from_as_filter. apply map_ext. intros j. rewrite Nat.sub_0_r. reflexivity. Qed.

(* ---- tables ---- *)
Lemma zt_find (acc:table) u : wdict_find (zt_of acc) u = option_map (option_map Z.of_nat) (wdict_find acc u).
Proof. unfold zt_of. induction acc as [|[x v] acc IH]; [reflexivity|]. cbn [map wdict_find fst snd]. destruct (beq x u); [reflexivity|exact IH]. Qed.
Lemma zt_set (acc:table) u v : zt_of (wdict_set acc u v) = wdict_set (zt_of acc) u (option_map Z.of_nat v).
Proof. unfold zt_of. induction acc as [|[x y] acc IH]; [reflexivity|]. cbn [map wdict_set fst snd]. destruct (beq x u); cbn [map fst snd]; [reflexivity|rewrite IH; reflexivity]. Qed.
Lemma upd_min_set acc u r :
  upd_min acc u r = wdict_set acc u (Some (match wdict_find acc u with Some (Some m) => Nat.min m r | _ => r end)).
Proof. induction acc as [|[x v] acc IH]; [reflexivity|]. cbn [upd_min wdict_set wdict_find]. destruct (beq x u) eqn:E.
  - apply beq_eq in E. subst x. destruct v; reflexivity.
  - rewrite IH. reflexivity. Qed.

Section Marg.
Variable n : nat.
Variable t : table.
Hypothesis Hkeys : NoDup (map fst t).
Hypothesis Hlen : forall p, In p t -> length (fst p) = n.
Variable drop : list nat.
Definition sig : list Z := map Z.of_nat (seq 0 n).
Definition marg : list Z := map Z.of_nat drop.

Lemma sig_index i : i < n -> forall R L, @py_index Z R L sig (Z.of_nat i) = Next (Z.of_nat i).
Proof. intros Hi R L. rewrite (py_index_nat sig i 0%Z) by (unfold sig; rewrite map_length, seq_length; exact Hi).
  unfold sig. change 0%Z with (Z.of_nat 0). rewrite (map_nth Z.of_nat (seq 0 n) 0 i), seq_nth by exact Hi. reflexivity. Qed.

Theorem tie_marginalize :
  py_PreOCF_marginalize n (zt_of t) sig marg = Return (zt_of (marginalize drop t), map Z.of_nat (filter (keepnat drop) (seq 0 n))).
Proof. unfold py_PreOCF_marginalize. cbv zeta.
  assert (Ek: wdict_keys (zt_of t) = map fst t) by (unfold wdict_keys, zt_of; rewrite map_map; reflexivity).
  rewrite Ek, fe_map_arg.
  match goal with |- context [for_each t ?b _] => set (body := b) end.
  assert (Hkz: NoDup (map fst (zt_of t))) by (unfold zt_of; rewrite map_map; exact Hkeys).
  assert (G: forall l acc, incl l t ->
             @for_each _ _ unit _ l body (zt_of acc)
             = Next (zt_of (fold_left (fun a p => match snd p with Some r => upd_min a (del drop (fst p)) r | None => a end) l acc))).
  { induction l as [|[w v] l IH]; intros acc Hl; [reflexivity|].
    assert (Hin: In (w, v) t) by (apply Hl; left; reflexivity).
    cbn [for_each fold_left fst snd]. unfold body at 1. cbn [fst].
    assert (Hw: length w = n) by (apply (Hlen (w, v) Hin)).
    (* the comprehension and the join *)
    match goal with |- context [cbind (filter_m ?f ?rg) ?k] =>
      assert (Ered: forall (K:world -> ctl (wdict (option Z) * list Z) (wdict (option Z)) (wdict (option Z))),
                      @cbind (wdict (option Z) * list Z) (wdict (option Z)) (list Z) (wdict (option Z)) (filter_m f rg)
                        (fun t11 => @cbind (wdict (option Z) * list Z) (wdict (option Z)) world (wdict (option Z))
                                      (map_m (fun v_i => cbind (py_index w v_i) (fun t12 => Next t12)) t11) K)
                            = K (del drop w)) end.
    { intros K.
      assert (Er2: filter_m (fun v_i => cbind (py_index sig v_i) (fun t10 => Next (negb (zmem t10 marg)))) (zrange (py_len w))
                   = @Next (wdict (option Z) * list Z) (wdict (option Z)) _ (map Z.of_nat (filter (keepnat drop) (seq 0 n)))).
      { assert (Erg: zrange (py_len w) = map Z.of_nat (seq 0 n)) by (unfold zrange, py_len; rewrite Nat2Z.id, Hw; reflexivity).
        rewrite Erg. rewrite (filter_m_all _ (fun k => keepnat drop (Z.to_nat k))).
        - f_equal. apply filter_of_nat.
        - intros k Hk. apply in_map_iff in Hk as [i [<- Hi]]. apply in_seq in Hi. rewrite (sig_index i) by lia. cbn [cbind].
          rewrite Nat2Z.id. unfold marg, keepnat. rewrite zmem_of_nat. reflexivity. }
      rewrite Er2. cbn [cbind].
      rewrite (map_m_all _ (fun k => nth (Z.to_nat k) w false)).
      - cbn [cbind]. f_equal. rewrite del_as_filter, Hw, map_map. apply map_ext. intros i. rewrite Nat2Z.id. reflexivity.
      - intros k Hk. apply in_map_iff in Hk as [i [<- Hi]]. apply filter_In in Hi as [Hi _]. apply in_seq in Hi.
        rewrite (py_index_nat w i false) by lia. rewrite Nat2Z.id. reflexivity. }
    rewrite Ered. cbv beta zeta.
    assert (Eg: forall R0 L0, @wdict_get (option Z) R0 L0 (zt_of t) w = Next (option_map Z.of_nat v)).
    { intros. unfold wdict_get. rewrite (wfind_entry (zt_of t) w (option_map Z.of_nat v) Hkz); [reflexivity|].
      unfold zt_of. apply in_map_iff. exists (w, v). split; [reflexivity|exact Hin]. }
    rewrite !Eg. cbn [cbind].
    destruct v as [r|]; cbn [option_map is_none negb cbind].
    - set (u := del drop w). unfold wdict_getopt, wdict_get. rewrite !zt_find.
      rewrite <- IH by (intros x Hx; apply Hl; right; exact Hx). f_equal.
      rewrite upd_min_set, zt_set.
      destruct (wdict_find acc u) as [[m|]|]; cbn [option_map is_none cbind py_assert negb andb py_min2_opt].
      + f_equal. f_equal. f_equal. lia.
      + reflexivity.
      + reflexivity.
    - apply IH. intros x Hx. apply Hl. right. exact Hx. }
  change ([] : wdict (option Z)) with (zt_of []). rewrite (G t [] (incl_refl t)). cbn [cbind].
  f_equal. f_equal.
  unfold sig. rewrite map_id.
  induction (seq 0 n) as [|a l IH]; [reflexivity|]. cbn [map filter]. unfold marg at 1. rewrite zmem_of_nat. fold (keepnat drop a).
  destruct (keepnat drop a); cbn [map]; rewrite IH; reflexivity.
Qed.
End Marg.
