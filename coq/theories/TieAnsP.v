From InfOCF Require Import Core Tol TolExt Form Model Thm06 PyLib TieLib TieSet TieSolver TieCons TieInf TieP.
From InfOCFGen Require Import SrcCond SrcCons SrcInf SrcP.
From Coq Require Import ZArith.
(* What the GENERATED code of p-entailment answers, as the manager runs it (the generated consistency test on the base, then
   the generated quick checks of general_inference around the generated operator body on the partition that test
   returned), is the model's `infer`; and on every base the model accepts it does answer. *)

Section Src.
Variable n : nat.
Variable D : list cond.
Hypothesis Hnd : NoDup (map kzc D).
Hypothesis HD : D <> [].
Notation d := (dict_of D).
Notation bb := (Build_pybase (dict_of D)).
Lemma dict_of_values_p : dict_values d = D.
Proof. unfold dict_values, dict_of. rewrite map_map. apply map_id. Qed.

Definition src_p (weakly:bool) (q:cond) (b:bool) : Prop := exists Pc st,
  py_consistency n (S (length d)) bb tt weakly = Return (PVal Pc, st) /\
  py_general_inference n (py_PEntailment_inference n (S (S (length d))) bb tt) weakly q tt tt = Return b.
Theorem src_p_infer weakly q b : src_p weakly q b -> infer n SysP weakly D q = Ans b.
Proof. intros [Pc [st [H1 H2]]]. assert (HDv: dict_values d <> []) by (rewrite dict_of_values_p; exact HD).
  destruct (e2e_p n weakly d q tt Pc st HDv H1) as [b' [Hb' Hi]]. rewrite H2 in Hb'. injection Hb' as <-.
  rewrite dict_of_values_p in Hi. exact Hi. Qed.
Theorem src_p_exists weakly q P : consistency n weakly D = Some P -> exists b, src_p weakly q b.
Proof. intros HP. assert (HDv: dict_values d <> []) by (rewrite dict_of_values_p; exact HD).
  destruct (tie_consistency n weakly d tt) as [r [st [Hrun Hres]]]. rewrite dict_of_values_p, HP in Hres.
  destruct r as [|Pc]; cbn [pres_map res_of] in Hres; [discriminate|].
  destruct (e2e_p n weakly d q tt Pc st HDv Hrun) as [b [Hb _]]. exists b, Pc, st. auto. Qed.
End Src.
