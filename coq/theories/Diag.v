From InfOCF Require Import Core Tol Form Model.
(* M: consistency_indices as its own loop over keys (dict look-ups), and consistency_diagnostics. *)
Section Idx.
Variable world : Type.
Variable W : list world.
Variable look : nat -> acond world.          (* ckb.conditionals[i] *)
Fixpoint tol_loop_idx (ext:bool) (fuel:nat) (ks:list nat) : option (list (list nat)) :=
  match ks with [] => Some (if ext then [[]] else []) | _ =>
  match fuel with 0 => None | S n =>
    let D := map look ks in
    let R := filter (fun k => tolerated world W D (look k)) ks in
    let C := filter (fun k => negb (tolerated world W D (look k))) ks in
    match R with
    | [] => if ext then (if existsb (nofals world D) W then Some [C] else None) else None
    | _ => match tol_loop_idx ext n C with Some P => Some (R :: P) | None => None end end end end.
End Idx.

Definition lookup (D:list cond) (k:nat) : acond world :=
  match find (fun c => ckey c =? k) D with Some c => ac c | None => Build_acond world k (fun _ => false) (fun _ => false) end.
Definition consistency_idx (n:nat) (weakly:bool) (D:list cond) : option (list (list nat)) :=
  tol_loop_idx world (worlds n) (lookup D) weakly (length D) (map ckey D).

(* consistency_diagnostics *)
Record diag := mkdiag { f_consistent : option bool; bb_consistent : option bool; bb_w_consistent : option bool;
                        c_consistent : option bool; c_infinity_increase : option bool }.
Definition fact_cond (k:nat) (phi:form) : cond := {| ckey := k; ccons := FBot; cante := FNot phi |}.
Fixpoint fact_conds (k:nat) (facts:list form) : list cond :=
  match facts with [] => [] | phi::r => fact_cond (S k) phi :: fact_conds (S k) r end.
Definition augment (D:list cond) (facts:list form) : list cond := D ++ fact_conds (list_max (map ckey D)) facts.
Definition last_size (P:list (list (acond world))) : nat := length (last P []).
Definition is_some {A} (o:option A) : bool := match o with Some _ => true | None => false end.
Definition facts_sat (n:nat) (facts:list form) : bool := existsb (fun w => forallb (eval w) facts) (worlds n).

(* None = the ValueError raised for uses_facts=True with an empty fact list *)
Definition diagnostics (n:nat) (extended uses_facts:bool) (facts:list form) (D:list cond) : option diag :=
  if uses_facts && (match facts with [] => true | _ => false end) then None else
  let fc := if uses_facts then Some (facts_sat n facts) else None in
  let base_ext := if extended then part_ext n D else None in
  let bbw := if extended then Some (is_some base_ext) else None in
  let bb := if extended then Some (match base_ext with Some P => last_size P =? 0 | None => false end)
            else Some (is_some (part_strict n D)) in
  let comb := if uses_facts then Some (consistency n extended (augment D facts)) else None in
  let cc := match comb with Some r => Some (is_some r) | None => None end in
  let inc := if uses_facts && extended then
               match comb, base_ext with Some (Some Pc), Some Pb => Some (last_size Pb <? last_size Pc) | _, _ => None end
             else None in
  Some (mkdiag fc bb bbw cc inc).
