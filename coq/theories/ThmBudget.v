From InfOCF Require Import Core SysW Lex Budget.
From Coq Require Import ZArith.
(* C14: a deadline / an unknown from the solver can only abort a query's computation; it can never change its answer *)
Definition safe {A} (m:M A) (v:A) : Prop := forall s t,
  (m s t = None /\ exists k, t <= k /\ s k = true) \/ (exists t', t <= t' /\ m s t = Some (v, t')).

Lemma safe_ret {A} (v:A) : safe (ret v) v.
Proof. intros s t. right. exists t. split; auto. Qed.
Lemma safe_bind {A B} (m:M A) (f:A -> M B) v w : safe m v -> safe (f v) w -> safe (bind m f) w.
Proof. intros Hm Hf s t. unfold bind. destruct (Hm s t) as [[-> Hk]|[t' [Hle ->]]]; auto.
  destruct (Hf s t') as [[-> [k [Hk1 Hk2]]]|[t'' [Hle' ->]]].
  - left. split; auto. exists k. split; auto. lia.
  - right. exists t''. split; auto. lia. Qed.
Lemma safe_observe : safe observe tt.
Proof. intros s t. unfold observe. destruct (s t) eqn:E; [left; split; auto; exists t; auto|right; exists (S t); auto]. Qed.
Lemma safe_observe_n k : safe (observe_n k) tt.
Proof. induction k; cbn; [apply safe_ret|]. eapply safe_bind; [apply safe_observe|exact IHk]. Qed.
Lemma safe_mcs f : safe (mcs_m f) f.
Proof. unfold mcs_m. eapply safe_bind; [apply safe_observe_n|apply safe_ret]. Qed.
Lemma safe_forall {A} (f:A -> M bool) (g:A -> bool) l : (forall x, In x l -> safe (f x) (g x)) -> safe (forall_m f l) (forallb g l).
Proof. induction l as [|x r IH]; intros H; cbn; [apply safe_ret|].
  eapply safe_bind; [apply H; now left|]. destruct (g x); cbn; [apply IH; intros y Hy; apply H; now right|apply safe_ret]. Qed.
Lemma safe_exists {A} (f:A -> M bool) (g:A -> bool) l : (forall x, In x l -> safe (f x) (g x)) -> safe (exists_m f l) (existsb g l).
Proof. induction l as [|x r IH]; intros H; cbn; [apply safe_ret|].
  eapply safe_bind; [apply H; now left|]. destruct (g x); cbn; [apply safe_ret|apply IH; intros y Hy; apply H; now right]. Qed.

Section R.
Variable world : Type.
Variable W : list world.
Variables AB AnB : pred world.

Theorem w_rec_safe : forall ls H, safe (w_rec_m world W AB AnB ls H) (w_rec world W AB AnB ls H).
Proof. induction ls as [|F rest IH]; intros H; cbn [w_rec_m w_rec]; [apply safe_ret|].
  eapply safe_bind; [apply safe_mcs|]. eapply safe_bind; [apply safe_mcs|].
  destruct (forallb _ (minimal (fam world W H F AnB))); cbn [negb andb]; [|apply safe_ret].
  apply (safe_forall _ (fun x => negb (existsb (beq x) (minimal (fam world W H F AnB))) || w_rec world W AB AnB rest (fun w => H w && beq (F w) x))).
  intros x Hx. destruct (existsb (beq x) _); cbn [negb orb]; [apply IH|apply safe_ret]. Qed.

Theorem lex_rec_safe : forall ls Hv Hf, safe (lex_rec_m world W AB AnB ls Hv Hf) (lex_rec world W AB AnB ls Hv Hf).
Proof. induction ls as [|F rest IH]; intros Hv Hf; cbn [lex_rec_m lex_rec]; [apply safe_ret|].
  eapply safe_bind; [apply safe_mcs|]. eapply safe_bind; [apply safe_mcs|].
  destruct (minl (map cnt (fam world W Hv F AB))) as [nv|]; [|apply safe_ret].
  destruct (minl (map cnt (fam world W Hf F AnB))) as [nf|]; [|apply safe_ret].
  destruct (nv <? nf); [apply safe_ret|]. destruct (nf <? nv); [apply safe_ret|].
  apply (safe_exists _ (fun xv => (cnt xv =? nv) &&
        forallb (fun xf => negb (cnt xf =? nf) || lex_rec world W AB AnB rest (fixp world Hv F xv) (fixp world Hf F xf)) (fam world W Hf F AnB))).
  intros xv Hxv. destruct (cnt xv =? nv); cbn [andb]; [|apply safe_ret].
  apply (safe_forall _ (fun xf => negb (cnt xf =? nf) || lex_rec world W AB AnB rest (fixp world Hv F xv) (fixp world Hf F xf))).
  intros xf Hxf. destruct (cnt xf =? nf); cbn [negb orb]; [apply IH|apply safe_ret]. Qed.
End R.

(* every reported row is either flagged as timed out with answer False, or unflagged with the unbudgeted answer *)
Theorem row_safe (m:M bool) v : safe m v -> forall s, row_of (m s 0) = (false, true) \/ row_of (m s 0) = (v, false).
Proof. intros H s. destruct (H s 0) as [[-> _]|[t' [_ ->]]]; cbn; auto. Qed.
(* a row is flagged only if some observation point really reported expiry: budgets that never expire change nothing *)
Theorem no_expiry_no_change (m:M bool) v : safe m v -> forall s, (forall k, s k = false) -> row_of (m s 0) = (v, false).
Proof. intros H s Hs. destruct (H s 0) as [[_ [k [_ Hk]]]|[t' [_ ->]]]; [rewrite Hs in Hk; discriminate|reflexivity]. Qed.

Open Scope Z_scope.
(* derived budgets never exceed the total; a non-positive remainder gives either no deadline (0) or one that has already expired *)
Theorem budget_arith total pre inf pretime : 0 < total -> 0 <= pre -> 0 <= inf -> 0 <= pretime ->
  0 <= pre_budget total pre <= total /\ inf_budget total inf pretime <= total.
Proof. intros. unfold pre_budget, inf_budget. destruct (total =? 0) eqn:E0; [apply Z.eqb_eq in E0; lia|].
  destruct (pre =? 0) eqn:E1; destruct (inf =? 0) eqn:E2; lia. Qed.
Theorem nonpositive_budget_is_safe now timeout : timeout <= 0 ->
  deadline_of now timeout = None \/ expired (deadline_of now timeout) now = true.
Proof. intros H. unfold deadline_of. destruct (timeout =? 0) eqn:E; auto. right. cbn. apply Z.leb_le. lia. Qed.
Close Scope Z_scope.
