From InfOCF Require Import Core Tol TolExt SysZ SysW Lex Kz PEnt Form Model Spec Exec Thm06 ThmOps ThmP.
From Coq Require Import Permutation.
(* The statements about InferenceManager.inference's answer (Model.infer) used by props/C01-C04, C07. *)
Section T.
Variable n : nat.
Notation W := (worlds n).

Lemma infer_unfold s weakly D q P : D <> [] -> consistency n weakly D = Some P ->
  infer n s weakly D q = Ans (trivial n q || op n s weakly D P q).
Proof. intros HD HP. unfold infer. destruct D; [congruence|]. rewrite HP. reflexivity. Qed.

Theorem infer_z_strict D q P : D <> [] -> part_strict n D = Some P -> infer n SysZ false D q = Ans (z_spec W P q).
Proof. intros HD HP. rewrite (infer_unfold SysZ false D q P HD HP). cbn [op]. rewrite z_strict_correct. reflexivity. Qed.
Theorem infer_w_strict D q P : D <> [] -> part_strict n D = Some P -> infer n SysW false D q = Ans (w_spec W P q).
Proof. intros HD HP. rewrite (infer_unfold SysW false D q P HD HP). cbn [op]. rewrite w_strict_correct. reflexivity. Qed.
Theorem infer_lex_strict D q P : D <> [] -> part_strict n D = Some P -> infer n SysLex false D q = Ans (lex_spec W P q).
Proof. intros HD HP. rewrite (infer_unfold SysLex false D q P HD HP). cbn [op]. rewrite lex_strict_correct. reflexivity. Qed.

Theorem infer_z_ext D q P : D <> [] -> part_ext n D = Some P -> infer n SysZ true D q = Ans (ext_spec W P q z_spec).
Proof. intros HD HP. rewrite (infer_unfold SysZ true D q P HD HP). cbn [op]. rewrite z_ext_correct. reflexivity. Qed.
Theorem infer_w_ext D q P : D <> [] -> part_ext n D = Some P -> infer n SysW true D q = Ans (ext_spec W P q w_spec).
Proof. intros HD HP. rewrite (infer_unfold SysW true D q P HD HP). cbn [op]. rewrite w_ext_correct. reflexivity. Qed.
Theorem infer_lex_ext D q P : D <> [] -> part_ext n D = Some P -> infer n SysLex true D q = Ans (ext_spec W P q lex_spec).
Proof. intros HD HP. rewrite (infer_unfold SysLex true D q P HD HP). cbn [op]. rewrite lex_ext_correct. reflexivity. Qed.

Theorem infer_p_strict_tolerance D q P : D <> [] -> part_strict n D = Some P ->
  (infer n SysP false D q = Ans true <->
   (trivial n q = true \/ ~ exists P', is_tp world W P' /\ Permutation (concat P') (map ac (D ++ [negq (fresh D) q])))).
Proof. intros HD HP. rewrite (infer_unfold SysP false D q P HD HP). cbn [op]. rewrite <- p_strict_tolerance.
  split; [intros H; inversion H as [H']; rewrite H'; apply orb_true_iff in H'; exact H'|intros H; f_equal; apply orb_true_iff; exact H]. Qed.
Theorem infer_p_strict_rankings D q P : D <> [] -> part_strict n D = Some P -> trivial n q = false ->
  (infer n SysP false D q = Ans true <-> forall kappa, model world W kappa (map ac D) -> accepts world W kappa (ac q)).
Proof. intros HD HP Ht. rewrite (infer_unfold SysP false D q P HD HP). cbn [op]. rewrite Ht. cbn [orb].
  rewrite <- p_strict_rankings.
  - split; [intros H; inversion H; reflexivity|intros ->; reflexivity].
  - unfold trivial, sat in Ht. apply orb_false_iff in Ht as [_ Ht]. apply negb_false_iff in Ht. apply existsb_exists in Ht. exact Ht. Qed.
Theorem infer_trivial s weakly D q P : D <> [] -> consistency n weakly D = Some P -> trivial n q = true ->
  infer n s weakly D q = Ans true.
Proof. intros HD HP Ht. rewrite (infer_unfold s weakly D q P HD HP), Ht. reflexivity. Qed.
Theorem infer_p_def_strict D q P : D <> [] -> part_strict n D = Some P -> infer n SysP false D q = Ans (p_def (fresh D) W P q).
Proof. intros HD HP. rewrite (infer_unfold SysP false D q P HD HP). cbn [op]. rewrite (p_def_strict n D P q HP). reflexivity. Qed.

(* extended answers on strongly consistent bases coincide with the strict ones (Z, W, lex) *)
Lemma ext_of_strict D P : part_strict n D = Some P -> part_ext n D = Some (P ++ [[]]).
Proof. apply ext_vs_strict. Qed.
Lemma Wf_nil_inf P : Wf W (P ++ [[]]) = W.
Proof. unfold Wf, Cinf. rewrite last_app_one. induction W as [|w l IH]; simpl; auto. f_equal. exact IH. Qed.
Lemma fin_app_one P (x:list (acond world)) : fin (P ++ [x]) = P.
Proof. unfold fin. apply removelast_app_one. Qed.
Lemma ext_spec_strict P q sd :
  (forall Wl Pl, (negb (existsb (ante q) Wl) || negb (existsb (fal q) Wl)) = true -> sd Wl Pl q = true) ->
  (forall Wl Pl, existsb (fal q) Wl = true -> existsb (ver q) Wl = false -> sd Wl Pl q = false) ->
  ext_spec W (P ++ [[]]) q sd = sd W P q.
Proof. intros H1 H2. rewrite ext_spec_collapse by auto. rewrite Wf_nil_inf, fin_app_one. reflexivity. Qed.
Theorem ext_strict_coincide_z D q P : D <> [] -> part_strict n D = Some P -> infer n SysZ true D q = infer n SysZ false D q.
Proof. intros HD HP. rewrite (infer_z_strict D q P HD HP), (infer_z_ext D q _ HD (ext_of_strict D P HP)).
  rewrite ext_spec_strict; auto using z_spec_triv, z_spec_nover. Qed.
Theorem ext_strict_coincide_w D q P : D <> [] -> part_strict n D = Some P -> infer n SysW true D q = infer n SysW false D q.
Proof. intros HD HP. rewrite (infer_w_strict D q P HD HP), (infer_w_ext D q _ HD (ext_of_strict D P HP)).
  rewrite ext_spec_strict; auto using w_spec_triv, w_spec_nover. Qed.
Theorem ext_strict_coincide_lex D q P : D <> [] -> part_strict n D = Some P -> infer n SysLex true D q = infer n SysLex false D q.
Proof. intros HD HP. rewrite (infer_lex_strict D q P HD HP), (infer_lex_ext D q _ HD (ext_of_strict D P HP)).
  rewrite ext_spec_strict; auto using lex_spec_triv, lex_spec_nover. Qed.
(* totality: on a weakly consistent non-empty base every operator returns a Boolean *)
Theorem ext_total s D q P : D <> [] -> part_ext n D = Some P -> exists b, infer n s true D q = Ans b.
Proof. intros HD HP. rewrite (infer_unfold s true D q P HD HP). eauto. Qed.
End T.
