From InfOCF Require Import Core Tol Form Model PyLib TieLib TieSet TieSolver TieMax TieLayer TieW TieLex TieZ3 TieWZ3 TieLexZ3.
From InfOCFGen Require Import SrcCond SrcW SrcLex SrcCondZ3 SrcWZ3 SrcLexZ3.
From Coq Require Import ZArith.
(* C11 at source level: for every base with distinct keys, every layering of it, every query and either mode, the two
   GENERATED back-ends of System W return the same answer, and so do the two of lexicographic inference (behind the
   quick checks of general_inference). *)

Section Backends.
Variable n : nat.
Variable q : cond.
Variable D : list cond.
Hypothesis Hnd : NoDup (map kz D).
Variable lay : cond -> nat.
Variable m : nat.
Hypothesis Hlay : forall c, In c D -> lay c < m.
Hypothesis Hm : 0 < m.
Variables nf fd : dict Z scnf.
Hypothesis Hnfk : dict_keys nf = map kz D.
Hypothesis Hnf : forall c, In c D -> exists cn, zdict_find nf (kz c) = Some cn /\ forall w, scnf_holds cn w = negb (fal c w).
Hypothesis Hfd : forall c, In c D -> exists cn, zdict_find fd (kz c) = Some cn /\ forall w, scnf_holds cn w = fal c w.
Variable bb : pybase.
Hypothesis Hbb : forall c, In c D -> zdict_find (bb_conditionals bb) (kz c) = Some c.

Lemma layering_keys : forall L, In L (Pc D lay m) -> NoDup (map ckz L).
Proof. intros L HL. unfold Pc in HL. apply in_map_iff in HL as [i [<- _]]. apply (part_nodup D Hnd lay i). Qed.
Lemma layering_nonempty : Pc D lay m <> [].
Proof. intros E. pose proof (Pc_length D lay m) as El. rewrite E in El. simpl in El. lia. Qed.

Theorem src_backends_agree_w weakly vq0 fq0 u1 u2 u3 :
  py_SystemW_inference n (S m) (Pk D lay m) nf fd vq0 fq0 bb u1 q weakly u2
  = py_SystemWZ3_inference n (S (length (Pc D lay m) + length (worlds n) + 1)) (Pc D lay m) q weakly u3.
Proof. rewrite (tie_w_inference n q D Hnd lay m Hlay Hm nf fd Hnfk Hnf Hfd bb Hbb).
  rewrite (tie_wz3_inference n q (Pc D lay m) layering_keys weakly u3 layering_nonempty). reflexivity. Qed.

Theorem src_backends_agree_lex weakly vq0 fq0 u1 u2 u3 : exists b1 b2,
  py_LexInf_inference n (S m) (Pk D lay m) nf fd vq0 fq0 bb u1 q weakly u2 = Return b1 /\
  py_LexInfZ3_inference n (S (length (Pc D lay m) + length (worlds n) + 1)) (Pc D lay m) q weakly u3 = Return b2 /\
  trivial n q || b1 = trivial n q || b2.
Proof. eexists. eexists. split; [apply (tie_lex_inference n q D Hnd lay m Hlay Hm nf fd Hnfk Hnf Hfd bb Hbb)|].
  split; [apply (tie_lexz3_inference n q (Pc D lay m) layering_keys weakly u3 layering_nonempty)|].
  destruct weakly; [reflexivity|]. destruct (trivial n q); reflexivity. Qed.
End Backends.
