From InfOCF Require Import Core Tol Form Model Ocf ThmZocf Persist.
(* whatever the failure point, the in-memory object after save_ocf is the object before *)
Theorem save_preserves_state o f : fst (save_ocf o f) = o.
Proof. destruct o; reflexivity. Qed.
(* a successful save followed by a load yields the same cache and metadata (solver handles are not persisted) *)
Theorem save_load_state o w : snd (save_ocf o NoFault) = Some w -> pcache (load_ocf w) = pcache o /\ pmeta (load_ocf w) = pmeta o.
Proof. cbn. intros H. inversion H; subst. auto. Qed.
(* the load format is the save format for every suffix class and fmt argument *)
Theorem dispatch_roundtrip s f : load_fmt (save_metadata_fmt s f) s = save_metadata_fmt s f /\ load_fmt (export_impacts_fmt s f) s = export_impacts_fmt s f.
Proof. split; reflexivity. Qed.
(* continued (lazy) computation on the reloaded object gives the same values as on the original: both caches satisfy the
   invariant of C16, so every output of every operation sequence is the specification value *)
Theorem reload_behaviour n P c1 c2 ops : cache_ok n P c1 -> cache_ok n P c2 ->
  map snd (zrun n P c1 ops) = map snd (zrun n P c2 ops).
Proof. intros H1 H2. destruct (zrun_outputs n P ops c1 H1) as [E1 _]. destruct (zrun_outputs n P ops c2 H2) as [E2 _]. congruence. Qed.
