From InfOCF Require Import Core Tol Form Model Crev.
(* C19: compilations agree; the constraint of a conditional holds iff the revised ranking accepts it. *)

(* ---- the literal mask path classifies like the general path ---- *)
Lemma lit_eval f i v w : lit_info f = Some (i, v) -> eval w f = Bool.eqb (nth i w false) v.
Proof. destruct f as [| |j|g|g h|g h]; cbn; try discriminate.
  - intros H. inversion H; subst. destruct (nth i w false); reflexivity.
  - destruct g; try discriminate. intros H. inversion H; subst. cbn. destruct (nth i w false); reflexivity. Qed.
Theorem classify_fast_ok c w : classify_fast c w = classify c w.
Proof. unfold classify_fast, mask_of. destruct (lit_info (cante c)) as [[a av]|] eqn:Ea; [|reflexivity].
  destruct (lit_info (ccons c)) as [[b bv]|] eqn:Eb; [|reflexivity].
  unfold classify, ver, fal. rewrite (lit_eval _ _ _ w Ea), (lit_eval _ _ _ w Eb).
  destruct (Bool.eqb (nth a w false) av), (Bool.eqb (nth b w false) bv); reflexivity. Qed.

Lemma keys_where_ext cs w want : keys_where classify_fast cs w want = keys_where classify cs w want.
Proof. unfold keys_where. f_equal. apply filter_ext. intros c. rewrite classify_fast_ok. reflexivity. Qed.
Lemma remove_others cs k w want : remove_key k (keys_where classify cs w want) = others cs k w want.
Proof. unfold remove_key, keys_where, others. induction cs as [|c cs IH]; cbn; auto.
  destruct (classify c w) as [b|]; cbn.
  - destruct (Bool.eqb b want); cbn; rewrite ?andb_true_r, ?andb_false_r; [|exact IH].
    destruct (ckey c =? k); cbn; rewrite IH; reflexivity.
  - rewrite andb_false_r. exact IH. Qed.
Lemma key_in_where cs c w want : NoDup (map ckey cs) -> In c cs ->
  existsb (Nat.eqb (ckey c)) (keys_where classify cs w want) = match classify c w with Some b => Bool.eqb b want | None => false end.
Proof. intros Hnd Hin. unfold keys_where. induction cs as [|d cs IH]; [inversion Hin|]. inversion Hnd as [|? ? Hn Hnd']; subst. cbn.
  destruct Hin as [->|Hin].
  - destruct (match classify c w with Some b => Bool.eqb b want | None => false end) eqn:E; cbn.
    + rewrite Nat.eqb_refl. reflexivity.
    + destruct (existsb _ _) eqn:Ex; auto. apply existsb_exists in Ex as [k [Hk Hkk]]. apply Nat.eqb_eq in Hkk. subst k.
      apply in_map_iff in Hk as [e [He Hin]]. apply filter_In in Hin as [Hin _]. exfalso. apply Hn. rewrite <- He. apply in_map. exact Hin.
  - rewrite <- (IH Hnd' Hin). destruct (match classify d w with Some b => Bool.eqb b want | None => false end); cbn; auto.
    destruct (ckey c =? ckey d) eqn:E; auto. apply Nat.eqb_eq in E. exfalso. apply Hn. rewrite <- E. apply in_map. exact Hin. Qed.

Theorem triples_fast_alt cs pr c want : NoDup (map ckey cs) -> In c cs -> triples_fast cs pr c want = triples_alt cs pr c want.
Proof. intros Hnd Hin. unfold triples_fast, triples_alt. induction pr as [|p pr IH]; cbn; auto. rewrite IH. f_equal.
  rewrite !keys_where_ext, !remove_others.
  assert (E: existsb (Nat.eqb (ckey c)) (if want then keys_where classify cs (fst p) true else keys_where classify cs (fst p) false)
             = match classify c (fst p) with Some b => Bool.eqb b want | None => false end).
  { destruct want; apply key_in_where; auto. }
  rewrite E. destruct (classify c (fst p)) as [b|]; [destruct (Bool.eqb b want)|]; reflexivity. Qed.
(* the reference and the fast compilation are equal, triple by triple *)
Theorem compile_fast_alt cs pr : NoDup (map ckey cs) -> compile_fast cs pr = compile_alt cs pr.
Proof. intros Hnd. unfold compile_fast, compile_alt. f_equal; apply map_ext_in; intros c Hc; f_equal; apply triples_fast_alt; auto. Qed.

(* ---- constraint = acceptance by the revised ranking ---- *)
Definition contr (gp gm:gam) (w:world) (c:cond) : nat :=
  match classify c w with Some true => gp (ckey c) | Some false => gm (ckey c) | None => 0 end.
Lemma kstar_sum cs gp gm p : kstar cs gp gm p = snd p + fold_right (fun c s => contr gp gm (fst p) c + s) 0 cs.
Proof. reflexivity. Qed.
Lemma others_sum cs gp gm k w :
  sumk gp (others cs k w true) + sumk gm (others cs k w false) =
  fold_right (fun c s => (if ckey c =? k then 0 else contr gp gm w c) + s) 0 cs.
Proof. unfold others, contr, sumk. induction cs as [|c cs IH]; cbn; auto. rewrite <- IH.
  destruct (ckey c =? k); cbn; [lia|]. destruct (classify c w) as [[|]|]; cbn; lia. Qed.
Lemma same_sum cs gp gm c w : NoDup (map ckey cs) -> In c cs ->
  fold_right (fun d s => contr gp gm w d + s) 0 cs =
  fold_right (fun d s => (if ckey d =? ckey c then 0 else contr gp gm w d) + s) 0 cs + contr gp gm w c.
Proof. intros Hnd Hin. induction cs as [|d cs IH]; [inversion Hin|]. inversion Hnd as [|? ? Hn Hnd']; subst. cbn.
  destruct Hin as [->|Hin].
  - rewrite Nat.eqb_refl. assert (E: fold_right (fun d s => contr gp gm w d + s) 0 cs = fold_right (fun d s => (if ckey d =? ckey c then 0 else contr gp gm w d) + s) 0 cs).
    { clear IH Hnd Hnd'. induction cs as [|e cs IH]; cbn; auto. destruct (ckey e =? ckey c) eqn:E.
      - apply Nat.eqb_eq in E. exfalso. apply Hn. cbn. left. auto.
      - rewrite IH; auto. intros Hx. apply Hn. cbn. right. exact Hx. }
    rewrite E. lia.
  - rewrite (IH Hnd' Hin). destruct (ckey d =? ckey c) eqn:E; [|lia]. apply Nat.eqb_eq in E. exfalso. apply Hn. rewrite E. apply in_map. exact Hin. Qed.
Lemma kstar_triple cs gp gm c p : NoDup (map ckey cs) -> In c cs ->
  kstar cs gp gm p = tval gp gm (snd p, others cs (ckey c) (fst p) true, others cs (ckey c) (fst p) false) + contr gp gm (fst p) c.
Proof. intros Hnd Hin. rewrite kstar_sum, (same_sum cs gp gm c (fst p) Hnd Hin). unfold tval. cbn [fst snd]. rewrite <- others_sum. lia. Qed.

Lemma minl_shift (l:list nat) k : minl (map (fun x => x + k) l) = option_map (fun m => m + k) (minl l).
Proof. induction l as [|x l IH]; cbn; auto. rewrite IH. destruct (minl l); cbn; auto. f_equal. lia. Qed.
Lemma rank_star_side cs pr gp gm c want : NoDup (map ckey cs) -> In c cs ->
  rank_star cs pr gp gm (fun w => match classify c w with Some b => Bool.eqb b want | None => false end) =
  option_map (fun m => m + (if want then gp (ckey c) else gm (ckey c))) (minl (map (tval gp gm) (triples_alt cs pr c want))).
Proof. intros Hnd Hin. unfold rank_star. rewrite <- minl_shift. f_equal. unfold triples_alt.
  induction pr as [|p pr IH]; cbn; auto. destruct (classify c (fst p)) as [b|] eqn:E; cbn; [|exact IH].
  destruct (Bool.eqb b want) eqn:Eb; cbn; [|exact IH]. rewrite IH. f_equal.
  rewrite (kstar_triple cs gp gm c p Hnd Hin). unfold contr. rewrite E. apply eqb_prop in Eb. subst b. destruct want; reflexivity. Qed.
Lemma ver_classify c w : ver c w = match classify c w with Some b => Bool.eqb b true | None => false end.
Proof. unfold classify. destruct (ver c w) eqn:E; auto. destruct (fal c w); reflexivity. Qed.
Lemma fal_classify c w : fal c w = match classify c w with Some b => Bool.eqb b false | None => false end.
Proof. unfold classify. destruct (ver c w) eqn:E; [rewrite (ver_fal_excl c w E); reflexivity|]. destruct (fal c w); reflexivity. Qed.
Lemma rank_star_ext cs pr gp gm phi psi : (forall w, phi w = psi w) -> rank_star cs pr gp gm phi = rank_star cs pr gp gm psi.
Proof. intros H. unfold rank_star. f_equal. f_equal. apply filter_ext. intros p. apply H. Qed.

(* for every parameter assignment: the compiled constraint of a conditional holds iff the revised ranking accepts it *)
Theorem constraint_iff_accepts_star cs pr gp gm c : NoDup (map ckey cs) -> In c cs ->
  constraint gp gm (ckey c) (triples_alt cs pr c true) (triples_alt cs pr c false) = accepts_star cs pr gp gm c.
Proof. intros Hnd Hin. unfold constraint, accepts_star.
  rewrite (rank_star_ext cs pr gp gm (ver c) _ (ver_classify c)), (rank_star_ext cs pr gp gm (fal c) _ (fal_classify c)).
  rewrite (rank_star_side cs pr gp gm c true Hnd Hin), (rank_star_side cs pr gp gm c false Hnd Hin).
  destruct (minl (map (tval gp gm) (triples_alt cs pr c true))) as [mv|]; destruct (minl (map (tval gp gm) (triples_alt cs pr c false))) as [mf|]; reflexivity. Qed.

(* hence: the parameters satisfy the whole CSP iff the revised ranking accepts every revision conditional *)
Lemma combine_map_same {A B C} (f:A->B) (g:A->C) l : combine (map f l) (map g l) = map (fun x => (f x, g x)) l.
Proof. induction l; cbn; auto. f_equal. auto. Qed.
Lemma forallb_map' {A B} (f:A->B) (p:B->bool) l : forallb p (map f l) = forallb (fun x => p (f x)) l.
Proof. induction l; cbn; auto. rewrite IHl. reflexivity. Qed.
Lemma forallb_ext_in'' {A} (f g:A->bool) l : (forall x, In x l -> f x = g x) -> forallb f l = forallb g l.
Proof. induction l as [|a l IH]; intros H; cbn; auto. rewrite (H a (or_introl eq_refl)), IH; auto. intros x Hx. apply H. now right. Qed.
Theorem csp_iff_all_accepted cs pr gp gm : NoDup (map ckey cs) ->
  csp_holds gp gm (compile_alt cs pr) = forallb (accepts_star cs pr gp gm) cs.
Proof. intros Hnd. unfold csp_holds, compile_alt. cbn [fst snd]. rewrite combine_map_same, forallb_map'. cbn [fst snd].
  apply forallb_ext_in''. intros c Hc. apply constraint_iff_accepts_star; auto. Qed.
