From InfOCF Require Import Core Tol TolExt SysZ SysW Lex Kz Form Model Spec Exec Thm06 ThmOps ThmP ThmTop ThmInv.
From Coq Require Import Permutation.
(* C12: the answers do not depend on the order in which the conditionals of the base are listed. *)
Definition pperm (P P':list (list (acond world))) : Prop := Forall2 (@Permutation (acond world)) P P'.

Lemma Permutation_filter {A} (p:A->bool) l l' : Permutation l l' -> Permutation (filter p l) (filter p l').
Proof. induction 1 as [|x l l' H IH|x y l|l l' l'' H1 IH1 H2 IH2]; cbn; auto.
  - destruct (p x); auto.
  - destruct (p x), (p y); auto. constructor.
  - eapply Permutation_trans; eauto. Qed.
Lemma forallb_perm {A} (p:A->bool) l l' : Permutation l l' -> forallb p l = forallb p l'.
Proof. induction 1 as [|x l l' H IH|x y l|l l' l'' H1 IH1 H2 IH2]; cbn; auto.
  - rewrite IH. reflexivity.
  - destruct (p x), (p y); reflexivity.
  - congruence. Qed.

Section Perm.
Variable Wl : list world.
Lemma nofals_perm D D' w : Permutation D D' -> nofals world D w = nofals world D' w.
Proof. intros H. unfold nofals. apply forallb_perm. exact H. Qed.
Lemma tolerated_perm D D' c : Permutation D D' -> tolerated world Wl D c = tolerated world Wl D' c.
Proof. intros H. apply tolerated_seteq. intros d. split; apply Permutation_in; auto. apply Permutation_sym; auto. Qed.
Lemma tolR_perm D D' : Permutation D D' -> Permutation (tolR world Wl D) (tolR world Wl D').
Proof. intros H. unfold tolR. rewrite (filter_ext (tolerated world Wl D) (tolerated world Wl D')) by (intros c; apply tolerated_perm; auto).
  apply Permutation_filter; auto. Qed.
Lemma tolC_perm D D' : Permutation D D' -> Permutation (tolC world Wl D) (tolC world Wl D').
Proof. intros H. unfold tolC. rewrite (filter_ext (fun c => negb (tolerated world Wl D c)) (fun c => negb (tolerated world Wl D' c))) by (intros c; f_equal; apply tolerated_perm; auto).
  apply Permutation_filter; auto. Qed.
Definition orelp (o o':option (list (list (acond world)))) : Prop :=
  match o, o' with Some P, Some P' => pperm P P' | None, None => True | _, _ => False end.
Lemma perm_nil_iff {A} (l l':list A) : Permutation l l' -> (l = [] <-> l' = []).
Proof. intros H. split; intros ->; [apply Permutation_nil; auto|apply Permutation_nil; apply Permutation_sym; auto]. Qed.

Lemma tol_loop_perm : forall fuel D D', Permutation D D' -> orelp (tol_loop world Wl fuel D) (tol_loop world Wl fuel D').
Proof. induction fuel as [|m IH]; intros D D' H.
  - destruct D as [|d D0], D' as [|d' D0']; unfold orelp, pperm; cbn; auto; try constructor.
    + apply Permutation_nil in H. discriminate.
    + apply Permutation_sym in H. apply Permutation_nil in H. discriminate.
  - destruct D as [|d D0], D' as [|d' D0'].
    + unfold orelp, pperm. cbn. constructor.
    + apply Permutation_nil in H. discriminate.
    + apply Permutation_sym in H. apply Permutation_nil in H. discriminate.
    + rewrite !loop_unfold by discriminate.
      pose proof (tolR_perm _ _ H) as HR. pose proof (tolC_perm _ _ H) as HC. specialize (IH _ _ HC).
      set (o1 := tol_loop world Wl m (tolC world Wl (d::D0))) in *. set (o2 := tol_loop world Wl m (tolC world Wl (d'::D0'))) in *.
      destruct (tolR world Wl (d::D0)) as [|r R] eqn:E1, (tolR world Wl (d'::D0')) as [|r' R'] eqn:E2.
      * exact I.
      * apply Permutation_nil in HR. discriminate.
      * apply Permutation_sym in HR. apply Permutation_nil in HR. discriminate.
      * destruct o1, o2; unfold orelp, pperm in *; try tauto. constructor; auto. Qed.
Lemma exb_nofals_perm D D' : Permutation D D' -> existsb (nofals world D) Wl = existsb (nofals world D') Wl.
Proof. intros H. apply existsb_ext'. intros w. apply nofals_perm; auto. Qed.
Lemma tol_loop_ext_perm : forall fuel D D', Permutation D D' -> orelp (tol_loop_ext world Wl fuel D) (tol_loop_ext world Wl fuel D').
Proof. induction fuel as [|m IH]; intros D D' H.
  - destruct D as [|d D0], D' as [|d' D0']; unfold orelp, pperm; cbn; auto; try (repeat constructor).
    + apply Permutation_nil in H. discriminate.
    + apply Permutation_sym in H. apply Permutation_nil in H. discriminate.
  - destruct D as [|d D0], D' as [|d' D0'].
    + unfold orelp, pperm. cbn. repeat constructor.
    + apply Permutation_nil in H. discriminate.
    + apply Permutation_sym in H. apply Permutation_nil in H. discriminate.
    + rewrite !ext_unfold by discriminate.
      pose proof (tolR_perm _ _ H) as HR. pose proof (tolC_perm _ _ H) as HC. specialize (IH _ _ HC).
      set (o1 := tol_loop_ext world Wl m (tolC world Wl (d::D0))) in *. set (o2 := tol_loop_ext world Wl m (tolC world Wl (d'::D0'))) in *.
      destruct (tolR world Wl (d::D0)) as [|r R] eqn:E1, (tolR world Wl (d'::D0')) as [|r' R'] eqn:E2.
      * rewrite (exb_nofals_perm _ _ H). destruct (existsb _ Wl); unfold orelp, pperm; auto; repeat constructor; auto.
      * apply Permutation_nil in HR. discriminate.
      * apply Permutation_sym in HR. apply Permutation_nil in HR. discriminate.
      * destruct o1, o2; unfold orelp, pperm in *; try tauto. constructor; auto. Qed.

(* the three definitions see a layer only through order-independent quantities *)
Lemma beq_map {A} (f g:A->bool) L : beq (map f L) (map g L) = forallb (fun c => Bool.eqb (f c) (g c)) L.
Proof. induction L; cbn; auto. rewrite IHL. reflexivity. Qed.
Lemma sub_map {A} (f g:A->bool) L : sub (map f L) (map g L) = forallb (fun c => implb (f c) (g c)) L.
Proof. induction L; cbn; auto. rewrite IHL. reflexivity. Qed.
Lemma cnt_map {A} (f:A->bool) L : cnt (map f L) = length (filter f L).
Proof. induction L; cbn; auto. destruct (f a); cbn; lia. Qed.
Lemma layer_beq_perm L L' w w' : Permutation L L' -> beq (layer_of L w) (layer_of L w') = beq (layer_of L' w) (layer_of L' w').
Proof. intros H. unfold layer_of. rewrite !beq_map. apply forallb_perm; auto. Qed.
Lemma layer_sub_perm L L' w w' : Permutation L L' -> sub (layer_of L w) (layer_of L w') = sub (layer_of L' w) (layer_of L' w').
Proof. intros H. unfold layer_of. rewrite !sub_map. apply forallb_perm; auto. Qed.
Lemma layer_cnt_perm L L' w : Permutation L L' -> cnt (layer_of L w) = cnt (layer_of L' w).
Proof. intros H. unfold layer_of. rewrite !cnt_map. apply Permutation_length. apply Permutation_filter; auto. Qed.
Definition lrel (F F':layer world) : Prop :=
  forall w w', beq (F w) (F w') = beq (F' w) (F' w') /\ sub (F w) (F w') = sub (F' w) (F' w') /\ cnt (F w) = cnt (F' w).
Lemma layers_perm P P' : pperm P P' -> Forall2 lrel (layers P) (layers P').
Proof. intros H. unfold layers. apply Forall2_rev. induction H; cbn; constructor; auto.
  intros w w'. repeat split; [apply layer_beq_perm|apply layer_sub_perm|apply layer_cnt_perm]; auto. Qed.
Lemma zrank_perm ls ls' w : Forall2 lrel ls ls' -> zrank world ls w = zrank world ls' w.
Proof. induction 1 as [|F F' ls ls' HF Hl IH]; cbn; auto. destruct (HF w w) as [_ [_ ->]]. rewrite IH, (Forall2_length _ _ _ Hl). reflexivity. Qed.
Lemma wless_perm ls ls' w w' : Forall2 lrel ls ls' -> wless world ls w w' = wless world ls' w w'.
Proof. induction 1 as [|F F' ls ls' HF _ IH]; cbn; auto. destruct (HF w w') as [-> [-> _]]. rewrite IH. reflexivity. Qed.
Lemma vec_perm ls ls' w : Forall2 lrel ls ls' -> vec world ls w = vec world ls' w.
Proof. unfold vec. induction 1 as [|F F' ls ls' HF _ IH]; cbn; auto. destruct (HF w w) as [_ [_ ->]]. rewrite IH. reflexivity. Qed.

Theorem z_spec_perm P P' q : pperm P P' -> z_spec Wl P q = z_spec Wl P' q.
Proof. intros HP. unfold z_spec, rank_of, rk. f_equal.
  assert (E: forall l, map (kappa_z P) l = map (kappa_z P') l).
  { intros l. apply map_ext. intros w. unfold kappa_z. rewrite !kz_zrank. apply zrank_perm. apply layers_perm; auto. }
  rewrite !E. reflexivity. Qed.
Theorem w_spec_perm P P' q : pperm P P' -> w_spec Wl P q = w_spec Wl P' q.
Proof. intros HP. unfold w_spec. apply forallb_ext'. intros w'. f_equal. apply existsb_ext'. intros w. f_equal. apply wless_perm. apply layers_perm; auto. Qed.
Theorem lex_spec_perm P P' q : pperm P P' -> lex_spec Wl P q = lex_spec Wl P' q.
Proof. intros HP. unfold lex_spec.
  assert (E: forall l, map (lexvec P) l = map (lexvec P') l).
  { intros l. apply map_ext. intros w. unfold lexvec. apply vec_perm. apply layers_perm; auto. }
  rewrite !E. reflexivity. Qed.
End Perm.

Section Top.
Variable n : nat.
Notation W := (worlds n).
Lemma pperm_last P P' : pperm P P' -> Permutation (last P []) (last P' []).
Proof. induction 1 as [|L L' P P' HL HP IH]; cbn; auto. destruct HP; auto. Qed.
Lemma pperm_removelast P P' : pperm P P' -> pperm (removelast P) (removelast P').
Proof. induction 1 as [|L L' P P' HL HP IH]; cbn; [constructor|]. destruct HP; [constructor|]. constructor; auto. Qed.
Lemma Wf_perm P P' : pperm P P' -> Wf W P = Wf W P'.
Proof. intros H. unfold Wf, Cinf. apply filter_ext. intros w. apply nofals_perm. apply pperm_last; auto. Qed.
Lemma ext_spec_perm P P' q sd : pperm P P' -> (forall Wl Pl Pl', pperm Pl Pl' -> sd Wl Pl q = sd Wl Pl' q) ->
  ext_spec W P q sd = ext_spec W P' q sd.
Proof. intros HP Hsd. unfold ext_spec. rewrite <- (Wf_perm P P' HP). rewrite (Hsd (Wf W P) (fin P) (fin P')) by (apply pperm_removelast; auto). reflexivity. Qed.
Lemma consistency_perm weakly D D' : Permutation D D' -> orelp (consistency n weakly D) (consistency n weakly D').
Proof. intros H. unfold consistency, part_ext, part_strict. rewrite <- (Permutation_length H).
  destruct weakly; [apply tol_loop_ext_perm|apply tol_loop_perm]; apply Permutation_map; auto. Qed.
Lemma fresh_perm D D' : Permutation D D' -> fresh D = fresh D'.
Proof. intros H. unfold fresh. f_equal. apply Permutation_map with (f:=ckey) in H.
  induction H as [|x l l' H IH|x y l|l l' l'' H1 IH1 H2 IH2]; cbn; auto; lia. Qed.
Lemma p_strict_perm D D' q : Permutation D D' -> p_strict n D q = p_strict n D' q.
Proof. intros H. unfold p_strict, part_strict. rewrite (fresh_perm D D' H).
  assert (HP: Permutation (map ac (D ++ [negq (fresh D') q])) (map ac (D' ++ [negq (fresh D') q]))) by (apply Permutation_map; apply Permutation_app_tail; auto).
  pose proof (tol_loop_perm W (length (D ++ [negq (fresh D') q])) _ _ HP) as Ho.
  rewrite !app_length in *. rewrite <- (Permutation_length H). cbn [length] in *.
  destruct (tol_loop world W _ (map ac (D ++ _))), (tol_loop world W _ (map ac (D' ++ _))); cbn in Ho; tauto. Qed.
Lemma p_ext_perm D D' q : Permutation D D' -> p_ext n D q = p_ext n D' q.
Proof. intros H. unfold p_ext, part_ext. rewrite (fresh_perm D D' H).
  assert (HP: Permutation (map ac (D ++ [negq (fresh D') q])) (map ac (D' ++ [negq (fresh D') q]))) by (apply Permutation_map; apply Permutation_app_tail; auto).
  pose proof (tol_loop_ext_perm W (length (D ++ [negq (fresh D') q])) _ _ HP) as Ho.
  rewrite !app_length in *. rewrite <- (Permutation_length H). cbn [length] in *.
  destruct (tol_loop_ext world W _ (map ac (D ++ _))) as [P|], (tol_loop_ext world W _ (map ac (D' ++ _))) as [P'|]; cbn in Ho; try tauto.
  f_equal. unfold feas, inf_layer. apply existsb_ext'. intros w. rewrite (nofals_perm _ _ w (pperm_last _ _ Ho)). reflexivity. Qed.

Theorem order_invariance s weakly D D' q : Permutation D D' -> infer n s weakly D q = infer n s weakly D' q.
Proof. intros HD. pose proof (consistency_perm weakly D D' HD) as HC.
  destruct D as [|d D0]; [apply Permutation_nil in HD; subst; reflexivity|].
  destruct D' as [|d' D0']; [apply Permutation_sym in HD; apply Permutation_nil in HD; discriminate|].
  destruct (consistency n weakly (d::D0)) as [P|] eqn:EP, (consistency n weakly (d'::D0')) as [P'|] eqn:EP'; cbn in HC; try tauto.
  2:{ unfold infer. rewrite EP, EP'. reflexivity. }
  destruct s, weakly.
  - unfold infer. rewrite EP, EP'. cbn [op]. rewrite (p_ext_perm _ _ q HD). reflexivity.
  - unfold infer. rewrite EP, EP'. cbn [op]. rewrite (p_strict_perm _ _ q HD). reflexivity.
  - rewrite (infer_z_ext n _ q P) by (auto; discriminate). rewrite (infer_z_ext n _ q P') by (auto; discriminate).
    f_equal. apply ext_spec_perm; auto. intros. apply z_spec_perm; auto.
  - rewrite (infer_z_strict n _ q P) by (auto; discriminate). rewrite (infer_z_strict n _ q P') by (auto; discriminate).
    f_equal. apply z_spec_perm; auto.
  - rewrite (infer_w_ext n _ q P) by (auto; discriminate). rewrite (infer_w_ext n _ q P') by (auto; discriminate).
    f_equal. apply ext_spec_perm; auto. intros. apply w_spec_perm; auto.
  - rewrite (infer_w_strict n _ q P) by (auto; discriminate). rewrite (infer_w_strict n _ q P') by (auto; discriminate).
    f_equal. apply w_spec_perm; auto.
  - rewrite (infer_lex_ext n _ q P) by (auto; discriminate). rewrite (infer_lex_ext n _ q P') by (auto; discriminate).
    f_equal. apply ext_spec_perm; auto. intros. apply lex_spec_perm; auto.
  - rewrite (infer_lex_strict n _ q P) by (auto; discriminate). rewrite (infer_lex_strict n _ q P') by (auto; discriminate).
    f_equal. apply lex_spec_perm; auto. Qed.
End Top.
