From InfOCF Require Import Core Tol Form PyLib TieLib.
From Coq Require Import ZArith.
(* Sets of keys (PyLib: duplicate-free lists of integers) against the model's bit-vectors over a layer. *)

Lemma forallb_ext_in {A} (f g:A->bool) l : (forall x, In x l -> f x = g x) -> forallb f l = forallb g l.
Proof. induction l as [|a l IH]; simpl; intros H; auto. rewrite H by auto. rewrite IH; auto. Qed.
Lemma zmem_in x l : zmem x l = true <-> In x l.
Proof. unfold zmem. rewrite existsb_exists. split.
  - intros [y [Hy E]]. apply Z.eqb_eq in E. subst. exact Hy.
  - intros H. exists x. split; [exact H|apply Z.eqb_refl]. Qed.
Lemma zmem_false x l : zmem x l = false <-> ~ In x l.
Proof. rewrite <- zmem_in. destruct (zmem x l); split; congruence. Qed.
Lemma zset_of_nodup l : NoDup l -> zset_of l = l.
Proof. induction 1 as [|x l Hx Hn IH]; [reflexivity|]. simpl. rewrite IH.
  apply zmem_false in Hx. rewrite Hx. reflexivity. Qed.
Lemma zsubset_in a b : zsubset a b = true <-> forall x, In x a -> In x b.
Proof. unfold zsubset. rewrite forallb_forall. split; intros H x Hx; [apply zmem_in|apply zmem_in]; auto. Qed.

(* keys selected by a bit-vector *)
Lemma kob_in keys x k : In k (keys_of_bv keys x) -> In k keys.
Proof. revert x. induction keys as [|a keys IH]; intros [|b x] H; simpl in *; try tauto.
  destruct b; [destruct H as [->|H]; [left; reflexivity|right; eauto]|right; eauto]. Qed.
Lemma kob_nodup keys x : NoDup keys -> NoDup (keys_of_bv keys x).
Proof. intros Hn. revert x. induction Hn as [|a keys Ha Hn IH]; intros [|b x]; simpl; try constructor.
  destruct b; [constructor; [intros H; apply Ha; eapply kob_in; eauto|apply IH]|apply IH]. Qed.

Lemma zsubset_kob keys x y : NoDup keys -> length x = length keys -> length y = length keys ->
  zsubset (keys_of_bv keys x) (keys_of_bv keys y) = sub x y.
Proof. intros Hn. revert x y. induction Hn as [|a keys Ha Hn IH]; intros [|b x] [|c y] Hx Hy; simpl in Hx, Hy; try discriminate; [reflexivity|].
  injection Hx as Hx. injection Hy as Hy. specialize (IH x y Hx Hy). cbn [keys_of_bv sub].
  assert (Hna: forall z, zmem a (keys_of_bv keys z) = false).
  { intros z. apply zmem_false. intros H. apply Ha. eapply kob_in; eauto. }
  assert (Hcons: forall l, (forall k, In k l -> k <> a) -> forall m, zsubset l (a::m) = zsubset l m).
  { intros l Hl m. unfold zsubset. apply forallb_ext_in. intros k Hk. unfold zmem. simpl.
    destruct (k =? a)%Z eqn:E; [apply Z.eqb_eq in E; exfalso; eapply Hl; eauto|reflexivity]. }
  assert (Hne: forall k, In k (keys_of_bv keys x) -> k <> a).
  { intros k Hk ->. apply Ha. eapply kob_in; eauto. }
  destruct b, c; cbn [implb andb].
  - unfold zsubset at 1. cbn [forallb]. unfold zmem at 1. cbn [existsb]. rewrite Z.eqb_refl. cbn [orb andb].
    fold (zsubset (keys_of_bv keys x) (a :: keys_of_bv keys y)). rewrite Hcons by exact Hne. exact IH.
  - unfold zsubset at 1. cbn [forallb]. rewrite Hna. reflexivity.
  - rewrite Hcons by exact Hne. exact IH.
  - exact IH.
Qed.
Lemma sub_both_beq x y : sub x y && sub y x = beq x y.
Proof. revert y. induction x as [|a x IH]; intros [|b y]; simpl; try reflexivity.
  rewrite <- IH. destruct a, b, (sub x y), (sub y x); reflexivity. Qed.
Lemma zset_eqb_kob keys x y : NoDup keys -> length x = length keys -> length y = length keys ->
  zset_eqb (keys_of_bv keys x) (keys_of_bv keys y) = beq x y.
Proof. intros Hn Hx Hy. unfold zset_eqb. rewrite !zsubset_kob by assumption. apply sub_both_beq. Qed.

(* duplicate-freeness up to beq *)
Fixpoint nodupb (l:list bv) : Prop := match l with [] => True | x::r => existsb (beq x) r = false /\ nodupb r end.
Lemma nodupb_dedup l : nodupb (dedup l).
Proof. induction l as [|x l IH]; simpl; auto. destruct (existsb (beq x) (dedup l)) eqn:E; simpl; auto. Qed.
Lemma existsb_filter_false {A} (p q:A->bool) l : existsb p l = false -> existsb p (filter q l) = false.
Proof. induction l as [|a l IH]; simpl; auto. intros H. apply orb_false_iff in H as [H1 H2].
  destruct (q a); simpl; [rewrite H1|]; auto. Qed.
Lemma nodupb_filter p l : nodupb l -> nodupb (filter p l).
Proof. induction l as [|x l IH]; simpl; auto. intros [H1 H2]. destruct (p x); simpl; auto.
  split; auto. apply existsb_filter_false. exact H1. Qed.
Lemma nodupb_minimal l : nodupb (minimal (dedup l)).
Proof. unfold minimal. apply nodupb_filter. apply nodupb_dedup. Qed.

Lemma existsb_map {A B} (f:A->B) (p:B->bool) l : existsb p (map f l) = existsb (fun a => p (f a)) l.
Proof. induction l as [|a l IH]; simpl; auto. rewrite IH. reflexivity. Qed.
Lemma forallb_map {A B} (f:A->B) (p:B->bool) l : forallb p (map f l) = forallb (fun a => p (f a)) l.
Proof. induction l as [|a l IH]; simpl; auto. rewrite IH. reflexivity. Qed.
Lemma filter_map {A B} (f:A->B) (p:B->bool) l : filter p (map f l) = map f (filter (fun a => p (f a)) l).
Proof. induction l as [|a l IH]; simpl; auto. destruct (p (f a)); simpl; rewrite IH; reflexivity. Qed.

Lemma zsetmem_kob keys x l : NoDup keys -> length x = length keys -> (forall y, In y l -> length y = length keys) ->
  zsetmem (keys_of_bv keys x) (map (keys_of_bv keys) l) = existsb (beq x) l.
Proof. intros Hn Hx Hl. unfold zsetmem. rewrite existsb_map. apply existsb_ext_in. intros y Hy.
  apply zset_eqb_kob; auto. Qed.
Lemma zsetset_kob keys l : NoDup keys -> (forall y, In y l -> length y = length keys) -> nodupb l ->
  zsetset_of (map (keys_of_bv keys) l) = map (keys_of_bv keys) l.
Proof. intros Hn. induction l as [|x l IH]; intros Hl Hd; [reflexivity|]. destruct Hd as [Hx Hd]. cbn [map zsetset_of].
  assert (Hl': forall y, In y l -> length y = length keys) by (intros y Hy; apply Hl; right; exact Hy).
  rewrite IH by auto.
  rewrite zsetmem_kob; [|exact Hn|apply Hl; left; reflexivity|exact Hl'].
  rewrite Hx. reflexivity. Qed.

(* a loop whose body either goes on or returns one fixed value *)
Lemma for_each_all {A R L} (l:list A) (body:A -> unit -> ctl R unit unit) (ok:A->bool) (r:R) :
  (forall a, In a l -> body a tt = if ok a then Next tt else Return r) ->
  @for_each A R L unit l body tt = if forallb ok l then Next tt else Return r.
Proof. induction l as [|a l IH]; intros Hb; [reflexivity|]. cbn [for_each forallb].
  rewrite Hb by (left; reflexivity). destruct (ok a); cbn [andb]; [|reflexivity].
  apply IH. intros a' Ha. apply Hb. right. exact Ha. Qed.
Lemma for_each_all_map {A B R L} (f:A->B) (l:list A) (body:B -> unit -> ctl R unit unit) (ok:A->bool) (r:R) :
  (forall a, In a l -> body (f a) tt = if ok a then Next tt else Return r) ->
  @for_each B R L unit (map f l) body tt = if forallb ok l then Next tt else Return r.
Proof. induction l as [|a l IH]; intros Hb; [reflexivity|]. cbn [map for_each forallb].
  rewrite Hb by (left; reflexivity). destruct (ok a); cbn [andb]; [|reflexivity].
  apply IH. intros a' Ha. apply Hb. right. exact Ha. Qed.
Lemma forallb_filter {A} (p g:A->bool) l : forallb g (filter p l) = forallb (fun x => negb (p x) || g x) l.
Proof. induction l as [|a l IH]; simpl; auto. destruct (p a); simpl; rewrite IH; reflexivity. Qed.
Lemma existsb_beq_in x l : existsb (beq x) l = true -> In x l.
Proof. intros H. apply existsb_exists in H as [y [Hy E]]. apply beq_eq in E. subst. exact Hy. Qed.

(* ---- cardinalities ---- *)
Lemma kob_len keys x : length x = length keys -> py_len (keys_of_bv keys x) = Z.of_nat (cnt x).
Proof. unfold py_len. revert x. induction keys as [|a keys IH]; intros [|b x] Hl; simpl in Hl; try discriminate; [reflexivity|].
  injection Hl as Hl. specialize (IH x Hl). cbn [keys_of_bv cnt]. destruct b; cbn [length]; lia. Qed.
Lemma fold_min_assoc r x y : Nat.min x (fold_left Nat.min r y) = fold_left Nat.min r (Nat.min x y).
Proof. revert x y. induction r as [|z r IH]; intros x y; simpl; [reflexivity|]. rewrite IH. f_equal. lia. Qed.
Lemma minl_fold x r : minl (x::r) = Some (fold_left Nat.min r x).
Proof. revert x. induction r as [|y r IH]; intros x; [reflexivity|].
  change (minl (x::y::r)) with (match minl (y::r) with None => Some x | Some m => Some (Nat.min x m) end).
  rewrite IH. simpl. f_equal. apply fold_min_assoc. Qed.
Lemma zfold_min r x : fold_left Z.min (map Z.of_nat r) (Z.of_nat x) = Z.of_nat (fold_left Nat.min r x).
Proof. revert x. induction r as [|y r IH]; intros x; simpl; [reflexivity|]. rewrite <- Nat2Z.inj_min. apply IH. Qed.
Lemma py_min_minl {R L} l m : minl l = Some m -> @py_min R L (map Z.of_nat l) = Next (Z.of_nat m).
Proof. destruct l as [|x r]; [discriminate|]. rewrite minl_fold. intros E. injection E as <-. simpl. rewrite zfold_min. reflexivity. Qed.
Lemma minl_char l m : In m l -> (forall x, In x l -> m <= x) -> minl l = Some m.
Proof. intros Hin Hle. destruct (minl l) as [m'|] eqn:E; [|apply minl_none in E; subst; inversion Hin].
  pose proof (minl_le l m' m E Hin). pose proof (minl_in l m' E) as Hin'. specialize (Hle m' Hin'). f_equal. lia. Qed.
Lemma minl_minimal l : minl (map cnt (minimal l)) = minl (map cnt l).
Proof. destruct (minl (map cnt l)) as [m|] eqn:E.
  - pose proof (minl_in _ _ E) as Hin. apply in_map_iff in Hin as [x0 [Ex0 Hx0]].
    destruct (minimal_below l x0 Hx0) as [y [Hy Hs]]. apply minl_char.
    + apply in_map_iff. exists y. split; [|exact Hy]. apply sub_cnt in Hs.
      assert (m <= cnt y). { apply (minl_le _ _ _ E). apply in_map. apply minimal_in in Hy. tauto. } lia.
    + intros c Hc. apply in_map_iff in Hc as [z [<- Hz]]. apply (minl_le _ _ _ E). apply in_map. apply minimal_in in Hz. tauto.
  - apply minl_none in E. apply map_eq_nil in E. subst. reflexivity. Qed.
(* the sets of least cardinality are inclusion-minimal *)
Lemma least_in_minimal l m x : minl (map cnt l) = Some m ->
  (In x (minimal l) /\ cnt x = m <-> In x l /\ cnt x = m).
Proof. intros E. split; intros [H1 H2]; split; auto.
  - apply minimal_in in H1. tauto.
  - unfold minimal. apply filter_In. split; [exact H1|]. apply negb_true_iff.
    destruct (existsb (fun y => ssub y x) l) eqn:Ex; [|reflexivity]. exfalso.
    apply existsb_exists in Ex as [y [Hy Hs]]. apply ssub_cnt in Hs.
    assert (m <= cnt y) by (apply (minl_le _ _ _ E); apply in_map; exact Hy). lia. Qed.
Lemma existsb_same_in {A} (p:A->bool) l l' : (forall x, In x l <-> In x l') -> existsb p l = existsb p l'.
Proof. intros H. destruct (existsb p l) eqn:E1, (existsb p l') eqn:E2; auto.
  - apply existsb_exists in E1 as [x [Hx Hp]]. assert (existsb p l' = true) by (apply existsb_exists; exists x; split; [apply H|]; auto). congruence.
  - apply existsb_exists in E2 as [x [Hx Hp]]. assert (existsb p l = true) by (apply existsb_exists; exists x; split; [apply H|]; auto). congruence. Qed.
Lemma forallb_same_in {A} (p:A->bool) l l' : (forall x, In x l <-> In x l') -> forallb p l = forallb p l'.
Proof. intros H. destruct (forallb p l) eqn:E1, (forallb p l') eqn:E2; auto.
  - assert (forallb p l' = true); [|congruence]. apply forallb_forall. intros x Hx. eapply forallb_forall in E1; eauto. apply H; auto.
  - assert (forallb p l = true); [|congruence]. apply forallb_forall. intros x Hx. eapply forallb_forall in E2; eauto. apply H; auto. Qed.

(* ---- more loop shapes ---- *)
(* the body returns r on the first element that passes, otherwise goes on *)
Lemma for_each_any_map {A B R L} (f:A->B) (l:list A) (body:B -> unit -> ctl R unit unit) (g:A->bool) (r:R) :
  (forall a, In a l -> body (f a) tt = if g a then Return r else Next tt) ->
  @for_each B R L unit (map f l) body tt = if existsb g l then Return r else Next tt.
Proof. induction l as [|a l IH]; intros Hb; [reflexivity|]. cbn [map for_each existsb].
  rewrite Hb by (left; reflexivity). destruct (g a); cbn [orb]; [reflexivity|].
  apply IH. intros a' Ha. apply Hb. right. exact Ha. Qed.
(* a flag that starts true, is set to false by a break on the first element that fails *)
Lemma for_each_break_map {A B R L} (f:A->B) (l:list A) (body:B -> bool -> ctl R bool bool) (ok:A->bool) :
  (forall a, In a l -> body (f a) true = if ok a then Next true else Break false) ->
  @for_each B R L bool (map f l) body true = Next (forallb ok l).
Proof. induction l as [|a l IH]; intros Hb; [reflexivity|]. cbn [map for_each forallb].
  rewrite Hb by (left; reflexivity). destruct (ok a); cbn [andb]; [|reflexivity].
  apply IH. intros a' Ha. apply Hb. right. exact Ha. Qed.
Lemma fold_pair {A B K} (f:K->A->A) (g:K->B->B) l a b :
  fold_left (fun (p:A*B) k => let '(x, y) := p in (f k x, g k y)) l (a, b) = (fold_left (fun x k => f k x) l a, fold_left (fun y k => g k y) l b).
Proof. revert a b. induction l as [|k l IH]; intros a b; [reflexivity|]. simpl. apply IH. Qed.
Lemma existsb_filter {A} (p g:A->bool) l : existsb g (filter p l) = existsb (fun x => p x && g x) l.
Proof. induction l as [|a l IH]; simpl; auto. destruct (p a); simpl; rewrite IH; reflexivity. Qed.
Lemma existsb_guard_same {A} (p g:A->bool) l l' : (forall x, (In x l /\ p x = true) <-> (In x l' /\ p x = true)) ->
  existsb (fun x => p x && g x) l = existsb (fun x => p x && g x) l'.
Proof. intros H. rewrite <- !existsb_filter. apply existsb_same_in. intros x. rewrite !filter_In. apply H. Qed.
Lemma forallb_guard_same {A} (p g:A->bool) l l' : (forall x, (In x l /\ p x = true) <-> (In x l' /\ p x = true)) ->
  forallb (fun x => negb (p x) || g x) l = forallb (fun x => negb (p x) || g x) l'.
Proof. intros H. rewrite <- !forallb_filter. apply forallb_same_in. intros x. rewrite !filter_In. apply H. Qed.
Lemma minimal_nil_iff l : minimal l = [] <-> l = [].
Proof. split; [|intros ->; reflexivity]. intros H. destruct l as [|x l]; [reflexivity|].
  destruct (minimal_below (x::l) x (or_introl eq_refl)) as [y [Hy _]]. rewrite H in Hy. inversion Hy. Qed.
Lemma of_nat_ltb a b : (Z.of_nat a <? Z.of_nat b)%Z = (a <? b).
Proof. destruct (a <? b) eqn:E; [apply Nat.ltb_lt in E; apply Z.ltb_lt; lia|apply Nat.ltb_ge in E; apply Z.ltb_ge; lia]. Qed.
