From InfOCF Require Import Core.
(* Abstract core of Optimizer.minimal_correction_subsets:
   M      : the (finite) list of all assignments satisfying the initial hard clauses
   V      : assignment -> violated set (bit-vector over the k non-ignored conditionals)
   pick   : the MaxSAT oracle seen through the blocking clauses: given the blocked sets it returns
            some not-blocked member of M, or None iff there is none.  Optimality is NOT needed. *)
Lemma filter_length_lt {A} (p q:A->bool) l a : (forall x, q x = true -> p x = true) ->
  In a l -> p a = true -> q a = false -> length (filter q l) < length (filter p l).
Proof. intros Himp. induction l as [|y l IH]; [intros []|]. intros [<-|Hin] Hp Hq; simpl.
  - rewrite Hp, Hq. simpl. clear IH. induction l as [|z l IHl]; simpl; [lia|].
    destruct (q z) eqn:Eq; [rewrite (Himp _ Eq); simpl; lia|destruct (p z); simpl; lia].
  - specialize (IH Hin Hp Hq). destruct (q y) eqn:Eq; [rewrite (Himp _ Eq); simpl; lia|destruct (p y); simpl; lia]. Qed.

Section Loop.
Variable asg : Type.
Variable M : list asg.
Variable V : asg -> bv.
Variable k : nat.
Hypothesis Vlen : forall m, length (V m) = k.
Definition notblocked (blocked:list bv) (v:bv) : bool := forallb (fun b => negb (sub b v)) blocked.
Variable pick : list bv -> option asg.
Hypothesis pick_some : forall bl m, pick bl = Some m -> In m M /\ notblocked bl (V m) = true.
Hypothesis pick_none : forall bl, pick bl = None -> forall m, In m M -> notblocked bl (V m) = false.

Fixpoint loop (fuel:nat) (acc:list bv) : option (list bv) :=
  match fuel with 0 => None | S n =>
    match pick acc with
    | None => Some acc
    | Some m => let v := V m in if cnt v =? 0 then Some (v::acc) else loop n (v::acc)
    end end.

Definition fam := map V M.
Definition covered (acc:list bv) := forall x, In x fam -> exists b, In b acc /\ sub b x = true.

Lemma notblocked_false bl v : notblocked bl v = false -> exists b, In b bl /\ sub b v = true.
Proof. unfold notblocked. induction bl as [|b bl IH]; simpl; [discriminate|].
  destruct (sub b v) eqn:E; simpl; [intros _; exists b; auto|]. intros H. destruct (IH H) as [b' [? ?]]. eauto. Qed.

Lemma loop_inv : forall fuel acc res, (forall x, In x acc -> In x fam) -> loop fuel acc = Some res ->
  (forall x, In x res -> In x fam) /\ covered res.
Proof. induction fuel as [|n IH]; intros acc res Hsub H; [discriminate|]. simpl in H.
  destruct (pick acc) as [m|] eqn:Ep.
  - apply pick_some in Ep as [Hm Hnb].
    assert (Hsub': forall x, In x (V m :: acc) -> In x fam).
    { intros x [<-|Hx]; auto. apply in_map; auto. }
    destruct (cnt (V m) =? 0) eqn:Ec.
    + inversion H; subst. split; auto. intros x Hx. exists (V m). split; [now left|].
      apply Nat.eqb_eq in Ec. apply in_map_iff in Hx as [m' [<- _]]. apply cnt0_sub; auto. rewrite !Vlen; auto.
    + eapply IH; eauto.
  - inversion H; subst. split; auto. intros x Hx. apply in_map_iff in Hx as [m [<- Hm]].
    apply notblocked_false. eapply pick_none; eauto.
Qed.

(* termination: the number of unblocked members of M strictly decreases *)
Definition unb (acc:list bv) := length (filter (fun m => notblocked acc (V m)) M).
Lemma loop_terminates : forall fuel acc, unb acc < fuel -> loop fuel acc <> None.
Proof. induction fuel as [|n IH]; intros acc Hlt; [lia|]. simpl.
  destruct (pick acc) as [m|] eqn:Ep; [|discriminate]. apply pick_some in Ep as [Hm Hnb].
  destruct (cnt (V m) =? 0); [discriminate|]. apply IH.
  assert (unb (V m :: acc) < unb acc); [|lia]. unfold unb.
  apply filter_length_lt with (a:=m); auto.
  - intros x Hx. unfold notblocked in *. simpl in Hx. apply andb_true_iff in Hx as [_ ?]. auto.
  - unfold notblocked. simpl. rewrite sub_refl. reflexivity.
Qed.

(* result as a family of sets: the inclusion-minimal members of what was found are exactly the
   inclusion-minimal falsification sets of all models *)
Theorem loop_correct : forall res, loop (S (length M)) [] = Some res ->
  forall x, In x (minimal res) <-> In x (minimal fam).
Proof. intros res H. destruct (loop_inv _ _ _ (fun x (Hx:In x []) => match Hx with end) H) as [Hsub Hcov].
  intros x. split; intros Hx.
  - apply minimal_in in Hx as [Hxr Hmin]. apply filter_In. split; auto. apply negb_true_iff.
    destruct (existsb (fun y => ssub y x) fam) eqn:E; auto. apply existsb_exists in E as [y [Hy Hs]].
    destruct (Hcov y Hy) as [b [Hb Hbs]]. exfalso.
    assert (ssub b x = true).
    { unfold ssub in *. apply andb_true_iff in Hs as [Hs1 Hs2]. apply andb_true_iff. split; [eapply sub_trans; eauto|].
      apply negb_true_iff. destruct (beq b x) eqn:Eb; auto. apply beq_eq in Eb. subst b.
      assert (y = x) by (apply sub_antisym; auto). subst. rewrite beq_refl in Hs2. discriminate. }
    rewrite (Hmin b Hb) in H0. discriminate.
  - apply minimal_in in Hx as [Hxf Hmin]. destruct (Hcov x Hxf) as [b [Hb Hbs]].
    assert (b = x).
    { destruct (beq b x) eqn:Eb; [apply beq_eq; auto|]. exfalso.
      assert (ssub b x = true) by (unfold ssub; rewrite Hbs, Eb; reflexivity). rewrite (Hmin b (Hsub b Hb)) in H0. discriminate. }
    subst b. apply filter_In. split; auto. apply negb_true_iff.
    destruct (existsb (fun y => ssub y x) res) eqn:E; auto. apply existsb_exists in E as [y [Hy Hs]].
    rewrite (Hmin y (Hsub y Hy)) in Hs. discriminate.
Qed.
Theorem loop_total : loop (S (length M)) [] <> None.
Proof. apply loop_terminates. unfold unb.
  assert (Hle: forall (p:asg->bool) l, length (filter p l) <= length l).
  { intros p l. induction l as [|a l IH]; simpl; auto. destruct (p a); simpl; lia. }
  pose proof (Hle (fun m => notblocked [] (V m)) M). lia. Qed.
Theorem loop_empty_iff res : loop (S (length M)) [] = Some res -> (res = [] <-> M = []).
Proof. intros H. split.
  - intros ->.
    assert (Hc: M = [] \/ exists m0, In m0 M).
    { clear. destruct M as [|m0 M']; [left; auto|right; exists m0; now left]. }
    destruct Hc as [|[m0 Hm0]]; auto. exfalso.
    destruct (loop_inv _ _ _ (fun x (Hx:In x []) => match Hx with end) H) as [_ Hcov].
    destruct (Hcov (V m0)) as [b [[] _]]. unfold fam. apply in_map; auto.
  - intros EM. simpl in H. destruct (pick []) as [m|] eqn:Ep.
    + apply pick_some in Ep as [Hm _]. rewrite EM in Hm. inversion Hm.
    + inversion H; auto.
Qed.
End Loop.
Print Assumptions loop_correct. Print Assumptions loop_total.
