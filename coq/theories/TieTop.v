From InfOCF Require Import Core Tol TolExt PEnt Form Model Spec Exec Thm06 ThmInv ThmOps ThmP ThmTop ThmPExt PyLib TieLib TieCons TieZ TieP.
From InfOCFGen Require Import SrcCond SrcCons SrcInf SrcZ SrcP.
From Coq Require Import ZArith Permutation.
(* TIE, composed: the generated consistency test, the generated quick checks of general_inference and the generated
   operator bodies, run one after the other as the manager runs them, give the model's `infer`. *)

Section TieTop.
Variable n : nat.
Notation W := (worlds n).

(* Inference.general_inference around any operator body *)
Theorem tie_general_inference impl weakly q u1 u2 b : impl q weakly u2 = Return b ->
  py_general_inference n impl weakly q u1 u2 = Return (trivial n q || b).
Proof. intros Hb. unfold py_general_inference. cbv zeta.
  change (f_unsat n (cante q) || f_unsat n (FAnd (cante q) (FNot (ccons q)))) with (trivial n q).
  destruct (trivial n q); [reflexivity|]. rewrite Hb. reflexivity. Qed.

(* what the generated consistency() returned is the model's partition *)
Lemma src_partition weakly (d:dict Z cond) u Pc st :
  py_consistency n (S (length d)) (Build_pybase d) u weakly = Return (PVal Pc, st) ->
  consistency n weakly (dict_values d) = Some (acP Pc).
Proof. intros H. destruct (tie_consistency n weakly d u) as [r [st' [Hrun Hres]]].
  rewrite H in Hrun. injection Hrun as <- _. cbn [pres_map] in Hres.
  destruct (consistency n weakly (dict_values d)); cbn [res_of] in Hres; [|discriminate].
  injection Hres as <-. reflexivity. Qed.
Lemma src_inconsistent weakly (d:dict Z cond) u st :
  py_consistency n (S (length d)) (Build_pybase d) u weakly = Return (PFalse, st) ->
  consistency n weakly (dict_values d) = None.
Proof. intros H. destruct (tie_consistency n weakly d u) as [r [st' [Hrun Hres]]].
  rewrite H in Hrun. injection Hrun as <- _. cbn [pres_map] in Hres.
  destruct (consistency n weakly (dict_values d)); cbn [res_of] in Hres; [discriminate|reflexivity]. Qed.

Lemma partition_nonempty weakly D P : D <> [] -> consistency n weakly D = Some P -> P <> [].
Proof. intros HD H. destruct weakly; unfold consistency, part_ext, part_strict in H.
  - apply ext_nonempty in H. exact H.
  - apply loop_sound in H as [_ Hp]. intros ->. simpl in Hp. apply Permutation_nil in Hp.
    apply map_eq_nil in Hp. congruence. Qed.

(* a base the generated consistency() rejects is refused by the model, and conversely *)
Theorem e2e_refusal s weakly (d:dict Z cond) q u : dict_values d <> [] ->
  exists r st, py_consistency n (S (length d)) (Build_pybase d) u weakly = Return (r, st) /\
    (is_pfalse r = true <-> infer n s weakly (dict_values d) q = Refuse).
Proof. intros HD. destruct (tie_consistency n weakly d u) as [r [st [Hrun Hres]]]. exists r, st. split; [exact Hrun|].
  unfold infer. destruct (dict_values d) as [|c0 D0] eqn:ED; [congruence|]. rewrite <- ED in *.
  destruct (consistency n weakly (dict_values d)); destruct r; cbn [pres_map res_of is_pfalse] in *; try discriminate;
  split; intros; try discriminate; reflexivity. Qed.

(* System Z, both modes: consistency() then general_inference around SystemZ._inference *)
Theorem e2e_z weakly (d:dict Z cond) q u Pc st : dict_values d <> [] ->
  py_consistency n (S (length d)) (Build_pybase d) u weakly = Return (PVal Pc, st) ->
  exists b, py_general_inference n (py_SystemZ_inference n (S (length Pc)) Pc u) weakly q tt tt = Return b
         /\ infer n SysZ weakly (dict_values d) q = Ans b.
Proof. intros HD Hrun. pose proof (src_partition _ _ _ _ _ Hrun) as Hc.
  assert (HPc: Pc <> []).
  { pose proof (partition_nonempty _ _ _ HD Hc) as Hne. intros ->. apply Hne. reflexivity. }
  eexists. split.
  - apply tie_general_inference. apply (tie_z_inference n q Pc weakly u tt HPc).
  - unfold infer. destruct (dict_values d) as [|c0 D0] eqn:ED; [congruence|]. rewrite <- ED in *. rewrite Hc.
    destruct weakly; reflexivity. Qed.

(* p-entailment, both modes *)
Theorem e2e_p weakly (d:dict Z cond) q u Pc st : dict_values d <> [] ->
  py_consistency n (S (length d)) (Build_pybase d) u weakly = Return (PVal Pc, st) ->
  exists b, py_general_inference n (py_PEntailment_inference n (S (S (length d))) (Build_pybase d) u) weakly q tt tt = Return b
         /\ infer n SysP weakly (dict_values d) q = Ans b.
Proof. intros HD Hrun. pose proof (src_partition _ _ _ _ _ Hrun) as Hc.
  eexists. split.
  - apply tie_general_inference. apply (tie_p_inference n d q weakly u tt).
  - unfold infer. destruct (dict_values d) as [|c0 D0] eqn:ED; [congruence|]. rewrite <- ED in *. rewrite Hc.
    destruct weakly; reflexivity. Qed.

(* ---- the generated code against the property definitions (corollaries of the above and of the property theorems) ---- *)
Lemma ans_inj a b : Ans a = Ans b -> a = b.  Proof. congruence. Qed.

Corollary src_z_strict_spec (d:dict Z cond) q u Pc st : dict_values d <> [] ->
  py_consistency n (S (length d)) (Build_pybase d) u false = Return (PVal Pc, st) ->
  py_general_inference n (py_SystemZ_inference n (S (length Pc)) Pc u) false q tt tt = Return (z_spec W (acP Pc) q).
Proof. intros HD Hrun. destruct (e2e_z false d q u Pc st HD Hrun) as [b [Hb Hi]]. rewrite Hb. f_equal.
  apply ans_inj. rewrite <- Hi. apply infer_z_strict; [exact HD|]. exact (src_partition _ _ _ _ _ Hrun). Qed.
Corollary src_z_ext_spec (d:dict Z cond) q u Pc st : dict_values d <> [] ->
  py_consistency n (S (length d)) (Build_pybase d) u true = Return (PVal Pc, st) ->
  py_general_inference n (py_SystemZ_inference n (S (length Pc)) Pc u) true q tt tt = Return (ext_spec W (acP Pc) q z_spec).
Proof. intros HD Hrun. destruct (e2e_z true d q u Pc st HD Hrun) as [b [Hb Hi]]. rewrite Hb. f_equal.
  apply ans_inj. rewrite <- Hi. apply infer_z_ext; [exact HD|]. exact (src_partition _ _ _ _ _ Hrun). Qed.

Corollary src_p_strict_rankings (d:dict Z cond) q u Pc st : dict_values d <> [] -> trivial n q = false ->
  py_consistency n (S (length d)) (Build_pybase d) u false = Return (PVal Pc, st) ->
  exists b, py_general_inference n (py_PEntailment_inference n (S (S (length d))) (Build_pybase d) u) false q tt tt = Return b /\
    (b = true <-> forall kappa, model world W kappa (map ac (dict_values d)) -> accepts world W kappa (ac q)).
Proof. intros HD Ht Hrun. destruct (e2e_p false d q u Pc st HD Hrun) as [b [Hb Hi]]. exists b. split; [exact Hb|].
  rewrite <- (infer_p_strict_rankings n (dict_values d) q (acP Pc) HD (src_partition _ _ _ _ _ Hrun) Ht).
  rewrite Hi. split; congruence. Qed.
Corollary src_p_ext_spec (d:dict Z cond) q u Pc st : dict_values d <> [] -> NoDup (map ckey (dict_values d)) ->
  py_consistency n (S (length d)) (Build_pybase d) u true = Return (PVal Pc, st) ->
  py_general_inference n (py_PEntailment_inference n (S (S (length d))) (Build_pybase d) u) true q tt tt
  = Return (ext_spec W (acP Pc) q (p_def (fresh (dict_values d)))).
Proof. intros HD Hnd Hrun. destruct (e2e_p true d q u Pc st HD Hrun) as [b [Hb Hi]]. rewrite Hb. f_equal.
  apply ans_inj. rewrite <- Hi. apply infer_p_ext; [exact HD|exact Hnd|]. exact (src_partition _ _ _ _ _ Hrun). Qed.
End TieTop.
