From InfOCF Require Import Core Tol SysZ CInf PEnt.
(* C17 / C05 / C09: every base that has a ranking model has a c-representation (so the constraint system of a strongly
   consistent base is satisfiable): eta_i := B ^ (rank of the verification of conditional i), B = 1 + number of conditionals. *)
Lemma sumsel_ge v eta i : length v = length eta -> nth i v false = true -> nth i eta 0 <= sumsel v eta.
Proof. intros Hl Hb. rewrite (sumsel_mask i v eta Hl). rewrite Hb. lia. Qed.
Lemma sumsel_le M : forall v eta, length v = length eta ->
  (forall j, j < length v -> nth j v false = true -> nth j eta 0 <= M) -> sumsel v eta <= length v * M.
Proof. induction v as [|b v IH]; intros [|e eta] Hl H; cbn [sumsel length] in *; try lia. injection Hl as Hl.
  assert (IH' : sumsel v eta <= length v * M).
  { apply IH; auto. intros j Hj Hb. apply (H (S j)); [lia|exact Hb]. }
  destruct b.
  - specialize (H 0 ltac:(lia) eq_refl). cbn [nth] in H. lia.
  - lia. Qed.
Lemma pow_ge1 b p : 1 <= S b ^ p.
Proof. induction p as [|p IH]; cbn [Nat.pow]; lia. Qed.
Lemma pow_mono_S b p q : p <= q -> S b ^ p <= S b ^ q.
Proof. intros H. apply Nat.pow_le_mono_r; lia. Qed.

Section Ex.
Variable world : Type.
Variable W : list world.
Notation acond := (acond world).
Variable D : list acond.
Notation d0 := (Build_acond world 0 (fun _ => false) (fun _ => false)).
Variable k : world -> nat.
Hypothesis Hmodel : model world W k D.

Definition zr (i:nat) : nat := match rk world W k (cver world (nth i D d0)) with Some r => r | None => 0 end.
Definition eta_of : list nat := map (fun i => S (length D) ^ zr i) (seq 0 (length D)).
Lemma eta_len : length eta_of = length D.
Proof. unfold eta_of. rewrite map_length, seq_length. reflexivity. Qed.
Lemma eta_nth i : i < length D -> nth i eta_of 0 = S (length D) ^ zr i.
Proof. intros Hi. unfold eta_of. set (g := fun i => S (length D) ^ zr i).
  rewrite (nth_indep _ 0 (g 0)) by (rewrite map_length, seq_length; exact Hi).
  rewrite (map_nth g). rewrite seq_nth by exact Hi. reflexivity. Qed.
Lemma F_nth w j : nth j (F world D w) false = cfal world (nth j D d0) w.
Proof. unfold F. set (g := fun c : acond => cfal world c w). change false with (g d0). rewrite (map_nth g). reflexivity. Qed.
Lemma F_len w : length (F world D w) = length D.
Proof. unfold F. apply map_length. Qed.

(* the rank of the verification of conditional j: attained by a verifying world, least among them, and strictly
   below the rank of every world that falsifies j *)
Lemma zr_spec j : j < length D -> exists m, In m W /\ cver world (nth j D d0) m = true /\ k m = zr j /\
  (forall v, In v W -> cver world (nth j D d0) v = true -> zr j <= k v) /\
  (forall w, In w W -> cfal world (nth j D d0) w = true -> zr j < k w).
Proof. intros Hj. set (c := nth j D d0). assert (Hc: In c D) by (apply nth_In; exact Hj).
  destruct (Hmodel c Hc) as [v0 [Hv0 [Hver0 Hall0]]].
  unfold zr. fold c. unfold rk. destruct (minl (map k (sel world W (top world) (cver world c)))) as [a|] eqn:E.
  - pose proof (minl_in _ _ E) as Ha. apply in_map_iff in Ha as [m [Hkm Hm]]. apply sel_in in Hm as [Hm [_ Hvm]].
    assert (Hle: forall v, In v W -> cver world c v = true -> a <= k v).
    { intros v Hv Hvv. eapply minl_le; [exact E|]. apply in_map. apply sel_in. unfold top. auto. }
    exists m. repeat split; auto. intros w Hw Hf. specialize (Hall0 w Hw Hf). specialize (Hle v0 Hv0 Hver0). lia.
  - exfalso. apply minl_none in E. apply map_eq_nil in E.
    assert (Hin: In v0 (sel world W (top world) (cver world c))) by (apply sel_in; unfold top; auto). rewrite E in Hin. destruct Hin. Qed.

Theorem crep_exists : forall i, i < length D -> accepts_i world W D eta_of i = true.
Proof. intros i Hi. unfold accepts_i, rk. apply lt_opt_minl_iff. set (c := nth i D d0).
  destruct (zr_spec i Hi) as [m [Hm [Hvm [Hkm [Hmin Hfal]]]]]. fold c in Hvm, Hmin, Hfal.
  exists (kappa world D eta_of m). split; [apply in_map; apply sel_in; unfold top; auto|].
  intros b Hb. apply in_map_iff in Hb as [w' [<- Hw']]. apply sel_in in Hw' as [Hw' [_ Hf']].
  (* the falsifying world pays at least eta_i *)
  assert (Hlow: S (length D) ^ zr i <= kappa world D eta_of w').
  { rewrite <- (eta_nth i Hi). unfold kappa. apply sumsel_ge; [rewrite F_len, eta_len; reflexivity|]. rewrite F_nth. exact Hf'. }
  (* the least verifying world pays less *)
  assert (Hup: kappa world D eta_of m < S (length D) ^ zr i).
  { unfold kappa. destruct (zr i) as [|p] eqn:Ez.
    - assert (H0: sumsel (F world D m) eta_of <= length (F world D m) * 0).
      { apply sumsel_le; [rewrite F_len, eta_len; reflexivity|]. intros j Hj Hb. rewrite F_len in Hj. rewrite F_nth in Hb.
        destruct (zr_spec j Hj) as [_ [_ [_ [_ [_ Hfj]]]]]. specialize (Hfj m Hm Hb). lia. }
      cbn [Nat.pow]. lia.
    - assert (H0: sumsel (F world D m) eta_of <= length (F world D m) * S (length D) ^ p).
      { apply sumsel_le; [rewrite F_len, eta_len; reflexivity|]. intros j Hj Hb. rewrite F_len in Hj. rewrite F_nth in Hb.
        destruct (zr_spec j Hj) as [_ [_ [_ [_ [_ Hfj]]]]]. specialize (Hfj m Hm Hb). rewrite (eta_nth j Hj).
        apply pow_mono_S. lia. }
      rewrite F_len in H0. cbn [Nat.pow]. pose proof (pow_ge1 (length D) p). nia. }
  lia. Qed.
End Ex.
