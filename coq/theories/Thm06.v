From InfOCF Require Import Core Tol TolExt Form Model Diag.
From Coq Require Import Permutation.
(* C06: lemmas lifting the abstract tolerance-loop theorems to the formula-level model *)
Section L.
Variable world : Type.
Variable W : list world.
Notation acond := (acond world).
Notation tol_loop := (tol_loop world W).
Notation tol_loop_ext := (tol_loop_ext world W).
Notation tolR := (tolR world W).
Notation tolC := (tolC world W).

Lemma ext_nonempty fuel D R : tol_loop_ext fuel D = Some R -> R <> [].
Proof. destruct fuel as [|n]; destruct D as [|d D]; simpl; intros H; try discriminate; try (inversion H; discriminate).
  destruct (Tol.tolR world W (d::D)) eqn:E.
  - destruct (existsb _ W); inversion H; discriminate.
  - destruct (Tol.tol_loop_ext world W n _); inversion H; discriminate. Qed.

Lemma last_cons {A} (x:A) l d : l <> [] -> last (x::l) d = last l d.
Proof. destruct l; [congruence|reflexivity]. Qed.
Lemma removelast_cons {A} (x:A) l : l <> [] -> removelast (x::l) = x :: removelast l.
Proof. destruct l; [congruence|reflexivity]. Qed.

(* an empty infinity layer means the strict loop succeeds with the finite layers *)
Lemma ext_last_nil_strict : forall fuel D R, tol_loop_ext fuel D = Some R -> last R [] = [] ->
  tol_loop fuel D = Some (removelast R).
Proof. induction fuel as [|n IH]; intros D R H HL.
  - destruct D; simpl in *; [inversion H; reflexivity|discriminate].
  - destruct D as [|d0 D0]; [simpl in *; inversion H; reflexivity|]. remember (d0::D0) as D.
    rewrite ext_unfold in H by (subst; discriminate). rewrite loop_unfold by (subst; discriminate).
    destruct (tolR D) as [|r R0] eqn:ER.
    + destruct (existsb _ W); [|discriminate]. inversion H; subst R. simpl in HL.
      assert (EC: tolC D = D) by (apply filter_none_all; exact ER). rewrite EC in HL. subst D. discriminate.
    + rewrite <- ER in *. destruct (Tol.tol_loop_ext world W n (tolC D)) as [R'|] eqn:EL; [|destruct (tolR D); discriminate].
      assert (R = tolR D :: R') by (destruct (tolR D); [discriminate|inversion H; auto]). subst R.
      pose proof (ext_nonempty _ _ _ EL) as Hne. rewrite last_cons in HL by exact Hne.
      rewrite (IH _ _ EL HL). rewrite removelast_cons by exact Hne. destruct (tolR D); [discriminate|reflexivity].
Qed.
Lemma removelast_app_one {A} (l:list A) x : removelast (l ++ [x]) = l.
Proof. induction l as [|a l IH]; simpl; auto. destruct (l ++ [x]) eqn:E; [destruct l; discriminate|]. rewrite IH. reflexivity. Qed.
Lemma last_app_one {A} (l:list A) x d : last (l ++ [x]) d = x.
Proof. induction l as [|a l IH]; simpl; auto. destruct (l ++ [x]) eqn:E; [destruct l; discriminate|]. exact IH. Qed.

(* standard consistency <-> empty last layer of the extended partition *)
Theorem strict_iff_ext_empty fuel D :
  (exists P, tol_loop fuel D = Some P) <-> (exists R, tol_loop_ext fuel D = Some R /\ last R [] = []).
Proof. split.
  - intros [P H]. exists (P ++ [[]]). split; [apply ext_vs_strict; auto|apply last_app_one].
  - intros [R [H HL]]. eexists. eapply ext_last_nil_strict; eauto. Qed.

(* the key-based loop is the object-based loop read through the keys *)
Variable look : nat -> acond.
Lemma filter_map_comm {A B} (f:A->B) (p:B->bool) l : filter p (map f l) = map f (filter (fun x => p (f x)) l).
Proof. induction l as [|a l IH]; simpl; auto. destruct (p (f a)); simpl; rewrite IH; reflexivity. Qed.
Lemma map_key_look ks : (forall k, In k ks -> key world (look k) = k) -> map (key world) (map look ks) = ks.
Proof. intros Hk. rewrite map_map. rewrite <- (map_id ks) at 2. apply map_ext_in. exact Hk. Qed.
Lemma idx_strict : forall fuel ks, (forall k, In k ks -> key world (look k) = k) ->
  tol_loop_idx world W look false fuel ks =
  match tol_loop fuel (map look ks) with Some P => Some (map (map (key world)) P) | None => None end.
Proof. induction fuel as [|n IH]; intros ks Hk.
  - destruct ks; reflexivity.
  - destruct ks as [|k0 ks0]; [reflexivity|]. remember (k0::ks0) as ks.
    assert (Hne: map look ks <> []) by (subst; discriminate).
    rewrite loop_unfold by exact Hne. unfold Tol.tolR, Tol.tolC. rewrite !filter_map_comm.
    subst ks. cbn [tol_loop_idx]. remember (k0::ks0) as ks.
    set (R := filter (fun k => tolerated world W (map look ks) (look k)) ks).
    set (C := filter (fun k => negb (tolerated world W (map look ks) (look k))) ks).
    assert (HR: map (key world) (map look R) = R) by (apply map_key_look; intros k Hin; apply Hk; unfold R in Hin; apply filter_In in Hin; tauto).
    rewrite IH by (intros k Hin; apply Hk; unfold C in Hin; apply filter_In in Hin; tauto).
    clearbody R C. destruct R as [|r R0]; [reflexivity|]. cbn [map] in *.
    destruct (Tol.tol_loop world W n (map look C)); [|reflexivity]. cbn [map]. rewrite HR. reflexivity.
Qed.
Lemma idx_ext : forall fuel ks, (forall k, In k ks -> key world (look k) = k) ->
  tol_loop_idx world W look true fuel ks =
  match tol_loop_ext fuel (map look ks) with Some P => Some (map (map (key world)) P) | None => None end.
Proof. induction fuel as [|n IH]; intros ks Hk.
  - destruct ks; reflexivity.
  - destruct ks as [|k0 ks0]; [reflexivity|]. remember (k0::ks0) as ks.
    assert (Hne: map look ks <> []) by (subst; discriminate).
    rewrite ext_unfold by exact Hne. unfold Tol.tolR, Tol.tolC. rewrite !filter_map_comm.
    subst ks. cbn [tol_loop_idx]. remember (k0::ks0) as ks.
    set (R := filter (fun k => tolerated world W (map look ks) (look k)) ks).
    set (C := filter (fun k => negb (tolerated world W (map look ks) (look k))) ks).
    assert (HR: map (key world) (map look R) = R) by (apply map_key_look; intros k Hin; apply Hk; unfold R in Hin; apply filter_In in Hin; tauto).
    assert (HC: map (key world) (map look C) = C) by (apply map_key_look; intros k Hin; apply Hk; unfold C in Hin; apply filter_In in Hin; tauto).
    rewrite IH by (intros k Hin; apply Hk; unfold C in Hin; apply filter_In in Hin; tauto).
    clearbody R C. destruct R as [|r R0].
    + cbn [map]. destruct (existsb _ W); [|reflexivity]. cbn [map]. rewrite HC. reflexivity.
    + cbn [map] in *. destruct (Tol.tol_loop_ext world W n (map look C)); [|reflexivity]. cbn [map]. rewrite HR. reflexivity.
Qed.
End L.

(* ---------------- formula level ---------------- *)
Lemma lookup_in D c : NoDup (map ckey D) -> In c D -> lookup D (ckey c) = ac c.
Proof. unfold lookup. induction D as [|d D IH]; intros Hnd Hin; [inversion Hin|].
  inversion Hnd as [|? ? Hni Hnd']; subst. simpl. destruct Hin as [->|Hin].
  - rewrite Nat.eqb_refl. reflexivity.
  - destruct (ckey d =? ckey c) eqn:E; [|auto].
    apply Nat.eqb_eq in E. exfalso. apply Hni. rewrite E. apply in_map. exact Hin. Qed.
Lemma lookup_map D : NoDup (map ckey D) -> map (lookup D) (map ckey D) = map ac D.
Proof. intros Hnd. rewrite map_map. apply map_ext_in. intros c Hc. apply lookup_in; auto. Qed.
Lemma lookup_key D k : In k (map ckey D) -> NoDup (map ckey D) -> key world (lookup D k) = k.
Proof. intros Hin Hnd. apply in_map_iff in Hin as [c [<- Hc]]. rewrite lookup_in by auto. reflexivity. Qed.

Theorem variants_agree n weakly D : NoDup (map ckey D) ->
  consistency_idx n weakly D = consistency_indices n weakly D.
Proof. intros Hnd. unfold consistency_idx, consistency_indices, consistency, part_ext, part_strict, keys_of.
  destruct weakly.
  - rewrite idx_ext by (intros k Hk; apply lookup_key; auto). rewrite lookup_map by auto. reflexivity.
  - rewrite idx_strict by (intros k Hk; apply lookup_key; auto). rewrite lookup_map by auto. reflexivity. Qed.

Theorem strict_exact n D :
  part_strict n D = None <-> ~ exists P, is_tp world (worlds n) P /\ Permutation (concat P) (map ac D).
Proof. unfold part_strict. split.
  - intros HN [P [HP Hperm]]. eapply loop_complete; [| exact HP | | exact HN].
    + rewrite map_length. apply le_n.
    + intros d Hd. eapply Permutation_in; [apply Permutation_sym; exact Hperm|exact Hd].
  - intros Hno. destruct (tol_loop world (worlds n) (length D) (map ac D)) as [P|] eqn:E; auto.
    exfalso. apply Hno. apply loop_sound in E as [Hm Hp]. exists P. split; auto. apply mtp_tp; auto. Qed.

Theorem strict_partition n D P : part_strict n D = Some P ->
  is_mtp world (worlds n) P /\ Permutation (concat P) (map ac D) /\
  forall P', is_mtp world (worlds n) P' -> seteq world (concat P') (concat P) ->
     length P' = length P /\ forall i, seteq world (nth i P' []) (nth i P []).
Proof. intros H. apply loop_sound in H as [Hm Hp]. split; [exact Hm|]. split; [exact Hp|].
  intros P' HP' Hse. apply (mtp_unique world (worlds n) P' P); auto. Qed.

Theorem ext_partition n D R : part_ext n D = Some R ->
  exists P Cinf, R = P ++ [Cinf] /\ is_mtp_rel world (worlds n) Cinf P /\ Permutation (concat P ++ Cinf) (map ac D)
    /\ (forall c, In c Cinf -> tolerated world (worlds n) Cinf c = false)
    /\ (exists w, In w (worlds n) /\ nofals world Cinf w = true).
Proof. apply ext_sound. apply worlds_inhabited. Qed.

Theorem ext_reject n D : part_ext n D = None ->
  exists C, C <> [] /\ (forall c, In c C -> In c (map ac D)) /\ (forall c, In c C -> tolerated world (worlds n) C c = false)
    /\ existsb (nofals world C) (worlds n) = false.
Proof. apply ext_fail. rewrite map_length. apply le_n. Qed.

Theorem strict_iff_empty_infinity n D :
  (exists P, part_strict n D = Some P) <-> (exists R, part_ext n D = Some R /\ last R [] = []).
Proof. apply strict_iff_ext_empty. Qed.

Lemma is_some_not_none {A} (o:option A) : is_some o = true <-> o <> None.
Proof. destruct o; simpl; split; congruence. Qed.

(* every diagnostics flag equals its definition in terms of the (exact) partitions *)
Theorem diag_flags n ext uf facts D d : diagnostics n ext uf facts D = Some d ->
  (uf = true -> f_consistent d = Some (facts_sat n facts)) /\
  bb_consistent d = Some (is_some (part_strict n D)) /\
  (ext = true -> bb_w_consistent d = Some (is_some (part_ext n D))) /\
  (uf = true -> c_consistent d = Some (is_some (consistency n ext (augment D facts)))) /\
  (uf = true -> ext = true -> forall Pc Pb, part_ext n (augment D facts) = Some Pc -> part_ext n D = Some Pb ->
      c_infinity_increase d = Some (last_size Pb <? last_size Pc)).
Proof. unfold diagnostics. destruct (uf && match facts with [] => true | _ => false end) eqn:Eg; [discriminate|].
  intros H. inversion H; subst d; clear H. cbn [f_consistent bb_consistent bb_w_consistent c_consistent c_infinity_increase].
  repeat split.
  - intros ->. reflexivity.
  - destruct ext; [|reflexivity]. f_equal.
    destruct (part_ext n D) as [R|] eqn:ER.
    + unfold last_size. destruct (length (last R []) =? 0) eqn:EL.
      * apply Nat.eqb_eq in EL. apply length_zero_iff_nil in EL.
        destruct (proj2 (strict_iff_empty_infinity n D)) as [P HP]; [exists R; auto|]. rewrite HP. reflexivity.
      * destruct (part_strict n D) as [P|] eqn:EP; [|reflexivity]. exfalso.
        destruct (proj1 (strict_iff_empty_infinity n D)) as [R' [HR' HL']]; [eauto|].
        rewrite ER in HR'. inversion HR'; subst R'. rewrite HL' in EL. discriminate.
    + destruct (part_strict n D) as [P|] eqn:EP; [|reflexivity]. exfalso.
      destruct (proj1 (strict_iff_empty_infinity n D)) as [R' [HR' _]]; [eauto|]. congruence.
  - intros ->. reflexivity.
  - intros ->. reflexivity.
  - intros -> -> Pc Pb Hc Hb. cbn. unfold consistency. rewrite Hc, Hb. reflexivity. Qed.

Theorem refusal n s weakly D q : infer n s weakly D q = Refuse <-> D = [] \/ consistency n weakly D = None.
Proof. unfold infer. destruct D as [|d D]; [split; auto|].
  destruct (consistency n weakly (d::D)); split; try discriminate; auto; intros [H|H]; discriminate. Qed.
