From InfOCF Require Import Core Tol Form Model Diag PyLib PyStr TieLib TieSolver TieCons.
From InfOCFGen Require Import SrcCond SrcCons SrcDiag.
From Coq Require Import ZArith Lia String.
Local Open Scope list_scope.
Notation length := List.length.
(* TIE: consistency_diagnostics GENERATED from inference/consistency_diagnostics.py (gen/SrcDiag.v; with facts_jointly_satisfiable,
   build_fact_conditionals, augment_belief_base_with_facts, _last_layer_size; consistency() from consistency_sat.py) against the
   model Diag.diagnostics: for every base with distinct indices, both switches and every list of facts (as formulas over the
   signature; the variable validation is a parameter assumed to pass), the returned dictionary holds under its five long keys -
   and again under the five short aliases - exactly the model's flags, and the call raises exactly when the model refuses
   (uses_facts with an empty fact list). *)

Lemma while_true_mono {R L St} (body:St -> ctl R St St) : forall f s r, @while_true R L St f body s = r -> r <> NoFuel ->
  forall k, @while_true R L St (f + k) body s = r.
Proof. induction f as [|f IH]; intros s r H Hn k; [simpl in H; congruence|]. cbn [while_true plus] in *.
  destruct (body s) as [s'|s'|s'|x| |]; try exact H; try (apply IH; assumption). Qed.

Lemma existsb_ext_local {A} (f g:A -> bool) l : (forall a, f a = g a) -> existsb f l = existsb g l.
Proof. intros H. induction l as [|a l IH]; [reflexivity|]. cbn [existsb]. rewrite H, IH. reflexivity. Qed.

Section TieDiag.
Variable n : nat.
Notation W := (worlds n).
Variable validate : unit -> form -> ctl unit unit unit.
Hypothesis Hval : forall s f, validate s f = Return tt.

Lemma consistency_mono f bb u w x : py_consistency n f bb u w = Return x -> forall k, py_consistency n (f + k) bb u w = Return x.
Proof. unfold py_consistency. cbv zeta. intros H k.
  match type of H with cbind (while_true f ?b ?s0) ?K = _ => set (body := b) in *; set (st0 := s0) in *; set (KK := K) in * end.
  destruct (while_true f body st0) eqn:E; try discriminate;
    rewrite (while_true_mono body f st0 _ E ltac:(discriminate) k); exact H.
Qed.

(* consistency() on a base given as a list, with any sufficient fuel *)
Definition bbl (D:list cond) : pybase := Build_pybase (map (fun c => (ckz c, c)) D).
Lemma consistency_run weakly D u k : exists r st,
  py_consistency n (S (length D) + k) (bbl D) u weakly = Return (r, st) /\
  pres_map (map (map ac)) r = res_of (Model.consistency n weakly D).
Proof. destruct (tie_consistency n weakly (map (fun c => (ckz c, c)) D) u) as [r [st [H1 H2]]]. exists r, st. split.
  - rewrite map_length in H1. apply consistency_mono. exact H1.
  - unfold dict_values in H2. rewrite map_map in H2. cbn [snd] in H2. rewrite map_id in H2. exact H2. Qed.

(* ---- facts ---- *)
Lemma eval_and_list w l : eval w (f_and_list l) = forallb (eval w) l.
Proof. induction l as [|f l IH]; [reflexivity|]. cbn [f_and_list fold_right eval forallb]. fold (f_and_list l). rewrite IH. reflexivity. Qed.
Lemma solve_one f : s_solve n (s_add new_solver f) = existsb (fun w => eval w f) W.
Proof. apply s_solve_ext. intros w. rewrite s_holds_add. cbn. apply andb_true_r. Qed.

Lemma facts_sat_tie facts : facts <> [] -> py_facts_jointly_satisfiable n validate tt facts = Return (facts_sat n facts).
Proof. intros Hne. unfold py_facts_jointly_satisfiable. destruct facts as [|f0 fs]; [congruence|]. cbn [is_nil negb cbind]. cbv zeta.
  match goal with |- context [for_each _ ?b _] => set (body := b) end.
  assert (G: forall l acc, @for_each _ _ unit _ l body acc = Next (acc ++ l)).
  { induction l as [|f l IH]; intros acc; [cbn; rewrite app_nil_r; reflexivity|]. cbn [for_each]. unfold body at 1. unfold py_parse_fact. rewrite Hval. cbn [call].
    rewrite IH, <- app_assoc. reflexivity. }
  rewrite G. cbn [cbind app]. unfold facts_sat.
  destruct fs as [|f1 fs].
  - assert (E: (1 <? py_len [f0])%Z = false) by reflexivity. rewrite E. cbn [cbind]. rewrite ?(py_index_nat [f0] 0 FTop) by (simpl; lia). cbn [cbind nth].
    rewrite solve_one. f_equal. apply existsb_ext_local. intros w. cbn. rewrite andb_true_r. reflexivity.
  - assert (E: (1 <? py_len (f0 :: f1 :: fs))%Z = true) by (apply Z.ltb_lt; unfold py_len; cbn [length]; lia).
    rewrite E. cbn [cbind]. rewrite solve_one. f_equal. apply existsb_ext_local. intros w. apply eval_and_list. Qed.

(* ---- fact conditionals and the augmented base ---- *)
Lemma zset_end {V} (d:dict Z V) k v : ~ In k (dict_keys d) -> zdict_set d k v = d ++ [(k, v)].
Proof. induction d as [|[k' v'] d IH]; intros H; [reflexivity|]. simpl.
  destruct (k' =? k)%Z eqn:E; [apply Z.eqb_eq in E; exfalso; apply H; left; exact E|]. rewrite IH; [reflexivity|].
  intros Hk. apply H. right. exact Hk. Qed.
Lemma fact_conds_keys k facts : forall x, In x (map ckey (fact_conds k facts)) -> k < x.
Proof. revert k. induction facts as [|f fs IH]; intros k x Hx; [destruct Hx|]. cbn [fact_conds map ckey fact_cond] in Hx.
  destruct Hx as [<-|Hx]; [lia|]. specialize (IH (S k) x Hx). lia. Qed.
Lemma fact_conds_nodup k facts : NoDup (map ckey (fact_conds k facts)).
Proof. revert k. induction facts as [|f fs IH]; intros k; [constructor|]. cbn [fact_conds map ckey fact_cond]. constructor; [|apply IH].
  intros Hin. apply fact_conds_keys in Hin. lia. Qed.

Lemma build_tie facts k : py_build_fact_conditionals n validate tt facts (Z.of_nat k) = Return (map (fun c => (ckz c, c)) (fact_conds k facts)).
Proof. unfold py_build_fact_conditionals. cbv zeta.
  match goal with |- context [for_each _ ?b _] => set (body := b) end.
  assert (G: forall l j acc, (forall x, In x (dict_keys acc) -> (x < Z.of_nat (S j))%Z) ->
             @for_each _ _ unit _ l body (acc, (Z.of_nat j + 1)%Z) = Next (acc ++ map (fun c => (ckz c, c)) (fact_conds j l), (Z.of_nat (j + length l) + 1)%Z)).
  { induction l as [|f l IH]; intros j acc Hacc.
    - cbn [for_each fact_conds map length]. rewrite app_nil_r, Nat.add_0_r. reflexivity.
    - cbn [for_each]. unfold body at 1. unfold py_parse_fact. rewrite Hval. cbn [call]. cbv zeta.
      assert (Ek: (Z.of_nat j + 1)%Z = Z.of_nat (S j)) by lia. rewrite Ek.
      assert (Ec: set_ckey (mk_cond FBot (FNot f)) (Z.of_nat (S j)) = fact_cond (S j) f) by (unfold set_ckey, mk_cond, fact_cond; cbn [ccons cante]; rewrite Nat2Z.id; reflexivity).
      rewrite Ec. rewrite zset_end by (intros Hin; specialize (Hacc _ Hin); lia).
      replace (Z.of_nat (S j) + 1)%Z with (Z.of_nat (S j) + 1)%Z by reflexivity.
      rewrite (IH (S j)).
      + cbn [fact_conds map length]. rewrite <- app_assoc. cbn [app]. unfold ckz at 2. cbn [ckey fact_cond]. f_equal. f_equal. f_equal. lia.
      + intros x Hx. unfold dict_keys in Hx. rewrite map_app in Hx. apply in_app_or in Hx as [Hx|[Hx|[]]]; [specialize (Hacc x Hx); lia|]. cbn [fst] in Hx. subst x. lia. }
  rewrite (G facts k []) by (intros x []). cbn [cbind app]. reflexivity. Qed.

Lemma fold_zmax (l:list nat) a : fold_left Z.max (map Z.of_nat l) (Z.of_nat a) = Z.of_nat (Nat.max a (list_max l)).
Proof. revert a. induction l as [|b l IH]; intros a; [cbn; rewrite Nat.max_0_r; reflexivity|]. cbn [map fold_left list_max fold_right].
  replace (Z.max (Z.of_nat a) (Z.of_nat b)) with (Z.of_nat (Nat.max a b)) by lia. rewrite IH. f_equal. fold (list_max l). lia. Qed.
Lemma zmax_list_max (D:list cond) : zmax_default (dict_keys (map (fun c => (ckz c, c)) D)) 0 = Z.of_nat (list_max (map ckey D)).
Proof. unfold dict_keys. rewrite map_map. cbn [fst]. destruct D as [|c D]; [reflexivity|]. cbn [map zmax_default].
  unfold ckz. rewrite <- (map_map ckey Z.of_nat). rewrite fold_zmax. reflexivity. Qed.
Lemma zupdate_fresh {V} (new acc:dict Z V) : NoDup (dict_keys new) -> (forall k, In k (dict_keys new) -> ~ In k (dict_keys acc)) ->
  zdict_update acc new = acc ++ new.
Proof. unfold zdict_update. revert acc. induction new as [|[k v] new IH]; intros acc Hn Hf; [cbn; rewrite app_nil_r; reflexivity|].
  cbn [fold_left fst snd]. cbn [dict_keys map fst] in Hn. inversion Hn as [|? ? Hni Hn']; subst.
  rewrite zset_end by (apply Hf; left; reflexivity). rewrite IH.
  - rewrite <- app_assoc. reflexivity.
  - exact Hn'.
  - intros k' Hk' Hin. unfold dict_keys in Hin. rewrite map_app in Hin. apply in_app_or in Hin as [Hin|[Hin|[]]].
    + apply (Hf k'); [right; exact Hk'|exact Hin].
    + cbn [fst] in Hin. subst k'. contradiction. Qed.

Lemma augment_tie D facts : py_augment_belief_base_with_facts n validate (bbl D) facts = Return (bbl (augment D facts)).
Proof. unfold py_augment_belief_base_with_facts. destruct facts as [|f fs].
  - cbn [is_nil negb cbind]. unfold augment. cbn [fact_conds]. rewrite app_nil_r. reflexivity.
  - cbn [is_nil negb cbind]. cbv zeta. unfold bbl at 1 2. cbn [bb_conditionals]. rewrite zmax_list_max, build_tie. cbn [call].
    rewrite zupdate_fresh.
    + unfold bbl, augment. rewrite map_app. reflexivity.
    + unfold dict_keys. rewrite map_map. cbn [fst]. unfold ckz. rewrite <- (map_map ckey Z.of_nat). apply FinFun.Injective_map_NoDup; [intros a b; apply Nat2Z.inj|apply fact_conds_nodup].
    + intros k Hk Hin. unfold dict_keys in Hk, Hin. rewrite map_map in Hk, Hin. cbn [fst] in Hk, Hin.
      apply in_map_iff in Hk as [c1 [E1 H1]]. apply in_map_iff in Hin as [c2 [E2 H2]]. unfold ckz in *. subst k. apply Nat2Z.inj in E2.
      assert (Hlt: list_max (map ckey D) < ckey c1) by (apply (fact_conds_keys _ (f :: fs)); apply in_map; exact H1).
      assert (Hle: ckey c2 <= list_max (map ckey D)).
      { assert (G: forall l x, In x l -> x <= list_max l).
        { induction l as [|y l IHl]; intros x Hx; [destruct Hx|]. cbn [list_max fold_right]. fold (list_max l). destruct Hx as [->|Hx]; [lia|specialize (IHl x Hx); lia]. }
        apply G. apply in_map. exact H2. }
      lia. Qed.

(* ---- size of the last layer ---- *)
Definition last_len (r:pyres (list (list cond))) : nat := match r with PVal Pc => length (last Pc []) | PFalse => 0 end.
Lemma last_layer_tie r : py_last_layer_size n r = Return (Z.of_nat (last_len r)).
Proof. unfold py_last_layer_size. destruct r as [|Pc]; [reflexivity|]. cbn [res_truthy is_pfalse negb andb last_len].
  destruct Pc as [|L Pc]; [reflexivity|]. cbn [is_nil negb cbind py_unres]. rewrite (py_index_last (L :: Pc) []) by discriminate. cbn [cbind]. reflexivity. Qed.
Lemma last_len_model r o : pres_map (map (map ac)) r = res_of o -> last_len r = match o with Some P => last_size P | None => 0 end.
Proof. destruct r as [|Pc], o as [P|]; cbn [pres_map res_of]; try discriminate; [reflexivity|]. intros E. inversion E; subst. unfold last_len, last_size.
  assert (G: forall (l:list (list cond)), length (last (map (map ac) l) []) = length (last l [])).
  { induction l as [|a l IH]; [reflexivity|]. destruct l as [|b l]; [cbn; apply map_length|]. exact IH. }
  symmetry. apply G. Qed.

Lemma fact_conds_length k facts : length (fact_conds k facts) = length facts.
Proof. revert k. induction facts as [|f fs IH]; intros k; [reflexivity|]. cbn [fact_conds length]. rewrite IH. reflexivity. Qed.
Lemma augment_length D facts : length (augment D facts) = length D + length facts.
Proof. unfold augment. rewrite app_length, fact_conds_length. reflexivity. Qed.
Lemma is_pfalse_res {A B} (f:A -> B) (r:pyres A) (o:option B) : pres_map f r = res_of o -> is_pfalse r = negb (is_some o).
Proof. destruct r, o; cbn; intros H; try discriminate; reflexivity. Qed.

Definition flags_of (dg:list (string * bool)) (d:diag) : Prop :=
  sdict_find dg "facts_consistent" = f_consistent d /\ sdict_find dg "belief_base_consistent" = bb_consistent d /\
  sdict_find dg "belief_base_weakly_consistent" = bb_w_consistent d /\ sdict_find dg "combination_consistent" = c_consistent d /\
  sdict_find dg "combination_infinity_increase" = c_infinity_increase d /\
  sdict_find dg "f_consistent" = f_consistent d /\ sdict_find dg "bb_consistent" = bb_consistent d /\
  sdict_find dg "bb_w_consistent" = bb_w_consistent d /\ sdict_find dg "c_consistent" = c_consistent d /\
  sdict_find dg "c_infinity_increase" = c_infinity_increase d.

Theorem tie_diagnostics D ext uf facts :
  match diagnostics n ext uf facts D with
  | None => py_consistency_diagnostics n (S (length D + length facts)) validate (bbl D) ext uf facts tt tt "warn" = Raise
  | Some d => exists dg, py_consistency_diagnostics n (S (length D + length facts)) validate (bbl D) ext uf facts tt tt "warn" = Return dg /\ flags_of dg d
  end.
Proof.
  (* the runs of consistency() the function may make *)
  destruct (consistency_run true D tt (length facts)) as [rbe [sbe [Ebe Hbe]]].
  destruct (consistency_run false D tt (length facts)) as [rbs [sbs [Ebs Hbs]]].
  destruct (consistency_run true (augment D facts) tt 0) as [rce [sce [Ece Hce]]].
  destruct (consistency_run false (augment D facts) tt 0) as [rcs [scs [Ecs Hcs]]].
  assert (EF: S (length (augment D facts)) + 0 = S (length D + length facts)) by (rewrite augment_length; lia).
  assert (EF2: S (length D) + length facts = S (length D + length facts)) by lia.
  rewrite EF in Ece, Ecs. rewrite EF2 in Ebe, Ebs.
  unfold diagnostics, py_consistency_diagnostics. cbv zeta.
  destruct uf; cbn [andb].
  - destruct facts as [|f0 fs] eqn:Efacts; [reflexivity|]. rewrite <- Efacts in *.
    assert (Hne: facts <> []) by (rewrite Efacts; discriminate).
    assert (En: is_nil facts = false) by (rewrite Efacts; reflexivity). rewrite En. cbn [negb cbind].
    rewrite (facts_sat_tie facts Hne). cbn [call]. cbv zeta.
    assert (Ew: String.eqb "warn" "raise" = false) by reflexivity. rewrite Ew, andb_false_r. cbn [cbind].
    rewrite augment_tie.
    destruct ext.
    + rewrite Ebe. cbn [call]. cbv beta iota.
      change (part_ext n D) with (Model.consistency n true D). change (part_ext n (augment D facts)) with (Model.consistency n true (augment D facts)) || idtac.
      rewrite (is_pfalse_res _ rbe _ Hbe). pose proof (last_len_model rbe _ Hbe) as Lb.
      destruct (Model.consistency n true D) as [Pb|] eqn:Eb; cbn [is_some negb cbind].
      * rewrite last_layer_tie. cbn [call]. rewrite Ece. cbn [call]. cbv beta iota.
        rewrite (is_pfalse_res _ rce _ Hce). pose proof (last_len_model rce _ Hce) as Lc.
        destruct (Model.consistency n true (augment D facts)) as [Pc|] eqn:Ec; cbn [is_some negb andb cbind];
          rewrite ?(is_pfalse_res _ rbe _ Hbe); cbn [is_some negb andb cbind].
        -- rewrite !last_layer_tie. cbn [call]. rewrite Lb, Lc.
           eexists. split; [reflexivity|]. unfold flags_of. cbn.
           assert (E1: (Z.of_nat (last_size Pb) =? 0)%Z = (last_size Pb =? 0)) by (destruct (Nat.eqb_spec (last_size Pb) 0) as [->|Hx]; [reflexivity|apply Z.eqb_neq; lia]).
           assert (E2: (Z.of_nat (last_size Pb) <? Z.of_nat (last_size Pc))%Z = (last_size Pb <? last_size Pc)) by (destruct (Nat.ltb_spec (last_size Pb) (last_size Pc)); [apply Z.ltb_lt; lia|apply Z.ltb_ge; lia]).
           rewrite ?E1, ?E2. repeat split; reflexivity.
        -- eexists. split; [reflexivity|]. unfold flags_of. cbn. rewrite Lb.
           assert (E1: (Z.of_nat (last_size Pb) =? 0)%Z = (last_size Pb =? 0)) by (destruct (Nat.eqb_spec (last_size Pb) 0) as [->|Hx]; [reflexivity|apply Z.eqb_neq; lia]).
           rewrite ?E1. repeat split; reflexivity.
      * rewrite Ece. cbn [call]. cbv beta iota.
        rewrite (is_pfalse_res _ rce _ Hce).
        destruct (Model.consistency n true (augment D facts)) as [Pc|] eqn:Ec; cbn [is_some negb andb cbind];
          rewrite ?(is_pfalse_res _ rbe _ Hbe); cbn [is_some negb andb cbind];
          eexists; (split; [reflexivity|]); unfold flags_of; cbn; repeat split; reflexivity.
    + rewrite Ebs. cbn [call]. cbv beta iota.
      change (part_strict n D) with (Model.consistency n false D).
      rewrite (is_pfalse_res _ rbs _ Hbs). rewrite Ecs. cbn [call]. cbv beta iota. rewrite (is_pfalse_res _ rcs _ Hcs).
      destruct (Model.consistency n false D), (Model.consistency n false (augment D facts)); cbn [is_some negb cbind];
        eexists; (split; [reflexivity|]); unfold flags_of; cbn; repeat split; reflexivity.
  - cbn [cbind]. destruct ext.
    + rewrite Ebe. cbn [call]. cbv beta iota.
      change (part_ext n D) with (Model.consistency n true D).
      rewrite (is_pfalse_res _ rbe _ Hbe). pose proof (last_len_model rbe _ Hbe) as Lb.
      destruct (Model.consistency n true D) as [Pb|] eqn:Eb; cbn [is_some negb cbind].
      * rewrite last_layer_tie. cbn [call]. rewrite Lb. eexists. split; [reflexivity|]. unfold flags_of. cbn.
        assert (E1: (Z.of_nat (last_size Pb) =? 0)%Z = (last_size Pb =? 0)) by (destruct (Nat.eqb_spec (last_size Pb) 0) as [->|Hx]; [reflexivity|apply Z.eqb_neq; lia]).
        rewrite ?E1. repeat split; reflexivity.
      * eexists. split; [reflexivity|]. unfold flags_of. cbn. repeat split; reflexivity.
    + rewrite Ebs. cbn [call]. cbv beta iota.
      change (part_strict n D) with (Model.consistency n false D).
      rewrite (is_pfalse_res _ rbs _ Hbs).
      destruct (Model.consistency n false D); cbn [is_some negb cbind]; eexists; (split; [reflexivity|]); unfold flags_of; cbn; repeat split; reflexivity.
Qed.
End TieDiag.
