From InfOCF Require Import Core Tol Form Parse.
(* M for parser/CKB.g4 (lexer rules), parser/Wrappers.py and parser/myVisitor.py: lexer over character codes,
   the file-level grammar (signature / conditionals blocks / condition lists), the query-list wrapping.
   Executable definitions only. *)
Inductive ltok := LSig | LCond | LId (name:list nat) | LComma | LLB | LRB | LLP | LBar | LRP | LBang | LSemi | LNL.

Definition is_letter (c:nat) : bool := ((65 <=? c) && (c <=? 90)) || ((97 <=? c) && (c <=? 122)).
Definition is_digit (c:nat) : bool := (48 <=? c) && (c <=? 57).
Definition is_idchar (c:nat) : bool := is_letter c || is_digit c || (c =? 95) || (c =? 45).
Fixpoint take_id (cs:list nat) : list nat * list nat :=
  match cs with c::r => if is_idchar c then let (a, b) := take_id r in (c::a, b) else ([], cs) | [] => ([], []) end.
Fixpoint skip_line (cs:list nat) : list nat :=      (* '//' ~('\r'|'\n')* : stops before the line end *)
  match cs with c::r => if (c =? 10) || (c =? 13) then cs else skip_line r | [] => [] end.
Fixpoint skip_block (cs:list nat) : option (list nat) :=   (* '/*' .*? '*/' *)
  match cs with 42::47::r => Some r | _::r => skip_block r | [] => None end.
Definition kw_signature : list nat := [115;105;103;110;97;116;117;114;101].
Definition kw_conditionals : list nat := [99;111;110;100;105;116;105;111;110;97;108;115].
Fixpoint eqlist (a b:list nat) : bool := match a, b with [], [] => true | x::a', y::b' => (x =? y) && eqlist a' b' | _, _ => false end.

Fixpoint lex (fuel:nat) (cs:list nat) : option (list ltok) :=
  match fuel with 0 => None | S n =>
  match cs with
  | [] => Some []
  | c::r =>
    if (c =? 32) || (c =? 9) then lex n r
    else if c =? 13 then (match r with 10::r' => option_map (cons LNL) (lex n r') | _ => option_map (cons LNL) (lex n r) end)
    else if c =? 10 then option_map (cons LNL) (lex n r)
    else if c =? 47 then (match r with
                          | 47::r' => lex n (skip_line r')
                          | 42::r' => match skip_block r' with Some r'' => lex n r'' | None => None end
                          | _ => None end)
    else if c =? 44 then option_map (cons LComma) (lex n r)
    else if c =? 123 then option_map (cons LLB) (lex n r)
    else if c =? 125 then option_map (cons LRB) (lex n r)
    else if c =? 40 then option_map (cons LLP) (lex n r)
    else if c =? 124 then option_map (cons LBar) (lex n r)
    else if c =? 41 then option_map (cons LRP) (lex n r)
    else if c =? 33 then option_map (cons LBang) (lex n r)
    else if c =? 59 then option_map (cons LSemi) (lex n r)
    else if is_letter c then
      let (name, rest) := take_id cs in
      let t := if eqlist name kw_signature then LSig else if eqlist name kw_conditionals then LCond else LId name in
      option_map (cons t) (lex n rest)
    else None
  end end.
Definition lexer (cs:list nat) : option (list ltok) := lex (S (length cs)) cs.

(* identifier names -> atoms: Top / Bottom are the constants, other names are numbered by a name table *)
Definition nm_top : list nat := [84;111;112].
Definition nm_bottom : list nat := [66;111;116;116;111;109].
Fixpoint index_of (name:list nat) (tbl:list (list nat)) : option nat :=
  match tbl with [] => None | x::r => if eqlist x name then Some 0 else option_map S (index_of name r) end.
Definition add_name (tbl:list (list nat)) (name:list nat) : list (list nat) :=
  match index_of name tbl with Some _ => tbl | None => tbl ++ [name] end.
Definition names_of (ts:list ltok) : list (list nat) :=
  fold_left (fun tbl t => match t with LId nm => if eqlist nm nm_top || eqlist nm nm_bottom then tbl else add_name tbl nm | _ => tbl end) ts [].
Definition atom_of (tbl:list (list nat)) (nm:list nat) : form :=
  if eqlist nm nm_top then FTop else if eqlist nm nm_bottom then FBot
  else match index_of nm tbl with Some i => FVar i | None => FVar (length tbl) end.
(* tokens of a formula; anything that cannot occur inside a formula is TOther *)
Definition ftok_of (tbl:list (list nat)) (t:ltok) : tok :=
  match t with LId nm => TId (atom_of tbl nm) | LLP => TLP | LRP => TRP | LBang => TNot | LComma => TAnd | LSemi => TOr | _ => TOther end.

(* ---- file level ---- *)
Fixpoint skip_nl (ts:list ltok) : list ltok := match ts with LNL::r => skip_nl r | _ => ts end.
(* the formula parser applied to a prefix: formula(0), returns the rest *)
Definition pformula (tbl:list (list nat)) (ts:list ltok) : option (form * list ltok) :=
  let fts := map (ftok_of tbl) ts in
  match pf (3 * length ts + 3) 0 fts with
  | Some (f, rest) => Some (f, skipn (length ts - length rest) ts)
  | None => None end.
(* condition: '(' formula '|' formula ')' ',' NEWLINE* condition | '(' formula '|' formula ')' NEWLINE* *)
Fixpoint pconds (fuel:nat) (tbl:list (list nat)) (ts:list ltok) : option (list (form * form * list ltok * list ltok) * list ltok) :=
  match fuel with 0 => None | S n =>
  match ts with
  | LLP :: r =>
    match pformula tbl r with
    | Some (b, LBar :: r1) =>
      match pformula tbl r1 with
      | Some (a, LRP :: r2) =>
        let btoks := firstn (length r - length (LBar :: r1)) r in
        let atoks := firstn (length r1 - length (LRP :: r2)) r1 in
        match r2 with
        | LComma :: r3 => match pconds n tbl (skip_nl r3) with Some (cs, rest) => Some ((b, a, btoks, atoks) :: cs, rest) | None => None end
        | _ => Some ([(b, a, btoks, atoks)], skip_nl r2) end
      | _ => None end
    | _ => None end
  | _ => None end end.
(* conditionals: NL* 'conditionals' NL+ ID NL* '{' NL* ( '}' | condition '}' ) NL*   -- returns (name, conditionals, rest) *)
Definition pblock (tbl:list (list nat)) (ts:list ltok) : option (list nat * list (form * form * list ltok * list ltok) * list ltok) :=
  match skip_nl ts with
  | LCond :: LNL :: r =>
    match skip_nl r with
    | LId nm :: r1 =>
      match skip_nl r1 with
      | LLB :: r2 =>
        match skip_nl r2 with
        | LRB :: r3 => Some (nm, [], skip_nl r3)
        | r3 => match pconds (S (length r3)) tbl r3 with
                | Some (cs, LRB :: r4) => Some (nm, cs, skip_nl r4)
                | _ => None end end
      | _ => None end
    | _ => None end
  | _ => None end.
Fixpoint pblocks (fuel:nat) (tbl:list (list nat)) (ts:list ltok) : bool :=     (* further blocks must be well formed; they are ignored *)
  match fuel with 0 => false | S n =>
  match ts with [] => true | _ => match pblock tbl ts with Some (_, _, rest) => pblocks n tbl rest | None => false end end end.
(* myid: ID ',' myid | ID NEWLINE *)
Fixpoint psig (fuel:nat) (ts:list ltok) : option (list (list nat) * list ltok) :=
  match fuel with 0 => None | S n =>
  match ts with
  | LId nm :: LComma :: r => match psig n r with Some (ns, rest) => Some (nm :: ns, rest) | None => None end
  | LId nm :: LNL :: r => Some ([nm], r)
  | _ => None end end.
Fixpoint has_dup (l:list (list nat)) : bool := match l with [] => false | x::r => existsb (eqlist x) r || has_dup r end.
Record pfile := { pf_sig : list (list nat); pf_name : list nat; pf_conds : list (nat * form * form * list ltok * list ltok) }.
Fixpoint number (k:nat) (cs:list (form * form * list ltok * list ltok)) : list (nat * form * form * list ltok * list ltok) :=
  match cs with [] => [] | (b, a, bt, at_)::r => (k, b, a, bt, at_) :: number (S k) r end.
(* ckbs: signature conditionals+ EOF, then visitCkbs / parseCKB: the first block, keyed 1..n *)
Definition parse_file_toks (ts:list ltok) : option pfile :=
  let tbl := names_of ts in
  match skip_nl ts with
  | LSig :: LNL :: r =>
    match psig (S (length r)) (skip_nl r) with
    | Some (sg, rest) =>
      if has_dup sg || existsb (eqlist nm_top) sg || existsb (eqlist nm_bottom) sg then None else
      match pblock tbl rest with
      | Some (nm, cs, rest') => if pblocks (S (length rest')) tbl rest' then Some {| pf_sig := sg; pf_name := nm; pf_conds := number 1 cs |} else None
      | None => None end
    | None => None end
  | _ => None end.
Definition parse_file (cs:list nat) : option (pfile * list (list nat)) :=
  match lexer cs with Some ts => match parse_file_toks ts with Some p => Some (p, names_of ts) | None => None end | None => None end.
Definition parse_formula_str (cs:list nat) : option (form * list (list nat)) :=
  match lexer cs with
  | Some ts => match parse_formula (map (ftok_of (names_of ts)) ts) with Some f => Some (f, names_of ts) | None => None end
  | None => None end.
(* parse_queries_from_str: a text containing both keywords "signature" and "conditionals" as tokens of their own (not inside an
   identifier) is a full file, otherwise it is wrapped into the template *)
Fixpoint is_prefix (p l:list nat) : bool := match p, l with [] , _ => true | x::p', y::l' => (x =? y) && is_prefix p' l' | _, [] => false end.
Fixpoint contains (p l:list nat) : bool := is_prefix p l || match l with [] => false | _::r => contains p r end.
Definition template_pre : list nat :=   (* "signature \n a,b,c,d,e,f \n conditionals \n Querydummy \n { \n " *)
  kw_signature ++ [32;10;32;97;44;98;44;99;44;100;44;101;44;102;32;10;32] ++ kw_conditionals ++ [32;10;32;81;117;101;114;121;100;117;109;109;121;32;10;32;123;32;10;32].
Definition template_post : list nat := [10;32;125].
Fixpoint has_word_from (prev_id:bool) (w l:list nat) : bool :=
  match l with [] => false
  | c::r => (negb prev_id && is_prefix w l && negb (match skipn (length w) l with x::_ => is_idchar x | [] => false end))
            || has_word_from (is_idchar c) w r end.
Definition has_word (w l:list nat) : bool := has_word_from false w l.
Definition parse_queries_str (cs:list nat) : option (pfile * list (list nat)) :=
  if has_word kw_signature cs && has_word kw_conditionals cs then parse_file cs
  else match parse_file (template_pre ++ cs ++ template_post) with
       | Some (p, nm) => match pf_conds p with [] => None   (* "if query_dict:" fails, no Queries object: an error *)
                         | _ => Some (p, nm) end
       | None => None end.
(* the text representation stored in a conditional: the concatenated token images *)
Definition image (t:ltok) : list nat :=
  match t with LSig => kw_signature | LCond => kw_conditionals | LId nm => nm | LComma => [44] | LLB => [123] | LRB => [125]
  | LLP => [40] | LBar => [124] | LRP => [41] | LBang => [33] | LSemi => [59] | LNL => [10] end.
Definition cond_text (bt at_:list ltok) : list nat := [40] ++ flat_map image bt ++ [124] ++ flat_map image at_ ++ [41].
