From InfOCF Require Import Core Tol Form Model Ocf Crev ThmCrev PyLib TieLib TieOcf.
From InfOCFGen Require Import SrcCond SrcOcf SrcOcfCustom SrcCrev.
From Coq Require Import ZArith.
(* TIE: compile_alt GENERATED from inference/c_revision.py (gen/SrcCrev.v) equals the hand-written reference compilation
   Crev.compile_alt, for every signature size, every total prior ranking over worlds of the signature and every list of
   revision conditionals with distinct indices: the two dictionaries vMin / fMin hold, per conditional in list order,
   exactly the triples (rank, accepted other indices, rejected other indices) of the worlds verifying / falsifying it,
   in the order of the prior. *)

(* ---- loops whose body may `continue` ---- *)
Lemma for_each_steps_c {A R L S} (l:list A) (body:A -> S -> ctl R S S) (step:A -> S -> S) s :
  (forall a s', In a l -> body a s' = Next (step a s') \/ body a s' = Continue (step a s')) ->
  @for_each A R L S l body s = Next (fold_left (fun s' a => step a s') l s).
Proof. revert s. induction l as [|a l IH]; intros s Hb; [reflexivity|]. cbn [for_each fold_left].
  destruct (Hb a s (or_introl eq_refl)) as [E|E]; rewrite E; apply IH; intros a' s' Ha; apply Hb; right; exact Ha. Qed.
Lemma for_each_map_arg {A B R L S} (f:A -> B) (l:list A) (body:B -> S -> ctl R S S) s :
  @for_each B R L S (map f l) body s = for_each l (fun a => body (f a)) s.
Proof. revert s. induction l as [|a l IH]; intros s; [reflexivity|]. cbn [map for_each].
  destruct (body (f a) s); try reflexivity; apply IH. Qed.

(* ---- a dictionary entry that is present ---- *)
Lemma zdict_find_mid {V} (A B:dict Z V) k x : ~ In k (dict_keys A) -> zdict_find (A ++ (k, x) :: B) k = Some x.
Proof. induction A as [|[k' v'] A IH]; intros H; simpl.
  - rewrite Z.eqb_refl. reflexivity.
  - destruct (k' =? k)%Z eqn:E; [apply Z.eqb_eq in E; exfalso; apply H; left; exact E|]. apply IH. intros Hk. apply H. right. exact Hk. Qed.
Lemma zdict_get_mid {V R L} (A B:dict Z V) k x : ~ In k (dict_keys A) -> @zdict_get V R L (A ++ (k, x) :: B) k = Next x.
Proof. intros H. unfold zdict_get. rewrite zdict_find_mid by exact H. reflexivity. Qed.
Lemma zdict_set_mid {V} (A B:dict Z V) k x y : ~ In k (dict_keys A) -> zdict_set (A ++ (k, x) :: B) k y = A ++ (k, y) :: B.
Proof. induction A as [|[k' v'] A IH]; intros H; simpl.
  - rewrite Z.eqb_refl. reflexivity.
  - destruct (k' =? k)%Z eqn:E; [apply Z.eqb_eq in E; exfalso; apply H; left; exact E|]. rewrite IH; [reflexivity|].
    intros Hk. apply H. right. exact Hk. Qed.
Lemma zdict_set_end {V} (d:dict Z V) k v : ~ In k (dict_keys d) -> zdict_set d k v = d ++ [(k, v)].
Proof. induction d as [|[k' v'] d IH]; intros H; [reflexivity|]. simpl.
  destruct (k' =? k)%Z eqn:E; [apply Z.eqb_eq in E; exfalso; apply H; left; exact E|]. rewrite IH; [reflexivity|].
  intros Hk. apply H. right. exact Hk. Qed.
Lemma of_nat_eqb a b : (Z.of_nat a =? Z.of_nat b)%Z = (a =? b).
Proof. destruct (Nat.eqb_spec a b) as [->|Hne]; [apply Z.eqb_refl|]. apply Z.eqb_neq. lia. Qed.

Lemma map_flat_map_comm {A B C} (f:B -> C) (g:A -> list B) l : map f (flat_map g l) = flat_map (fun x => map f (g x)) l.
Proof. induction l as [|a l IH]; [reflexivity|]. cbn [flat_map]. rewrite map_app, IH. reflexivity. Qed.

Definition ztrip := (Z * list Z * list Z)%type.
Definition ztriple (t:triple) : ztrip := (Z.of_nat (fst (fst t)), map Z.of_nat (snd (fst t)), map Z.of_nat (snd t)).
Definition zcomp (d:list (nat * list triple)) : dict Z (list ztrip) := map (fun e => (Z.of_nat (fst e), map ztriple (snd e))) d.

Section TieCrev.
Variable n : nat.
Notation W := (worlds n).
Variable rank_world : world -> ctl Z unit unit.          (* ranking_function.rank_world: the concrete subclass's lookup *)
Variable pr : prior.
Hypothesis Hworlds : forall p, In p pr -> In (fst p) W.
Hypothesis Hrank : forall p, In p pr -> rank_world (fst p) = Return (Z.of_nat (snd p)).
Variable cs : list cond.

(* the table handed to the generated code: ranking_function.ranks *)
Definition zprior : wdict (option Z) := map (fun p => (fst p, Some (Z.of_nat (snd p)))) pr.
Lemma zprior_keys : wdict_keys zprior = map fst pr.
Proof. unfold wdict_keys, zprior. rewrite map_map. reflexivity. Qed.

(* selection of the other conditionals verified / falsified in a world *)
Definition sel (k:nat) (w:world) (want:bool) (c:cond) : bool :=
  negb (ckey c =? k) && match classify c w with Some b => Bool.eqb b want | None => false end.
Lemma others_z k w want : map Z.of_nat (others cs k w want) = map ckz (filter (sel k w want) cs).
Proof. unfold others. rewrite map_map. reflexivity. Qed.

Lemma others_fold k w l a r :
  fold_left (fun (s:list Z * list Z) c => (if sel k w true c then fst s ++ [ckz c] else fst s, if sel k w false c then snd s ++ [ckz c] else snd s)) l (a, r)
  = (a ++ map ckz (filter (sel k w true) l), r ++ map ckz (filter (sel k w false) l)).
Proof. revert a r. induction l as [|c l IH]; intros a r; cbn [fold_left filter map]; [rewrite !app_nil_r; reflexivity|].
  cbn [fst snd]. rewrite IH. destruct (sel k w true c), (sel k w false c); cbn [map]; rewrite <- ?app_assoc; reflexivity. Qed.

Lemma sat_ver w c : In w W -> py_PreOCF_world_satisfies n w (py_make_A_then_B n c) = ver c w.
Proof. intros Hw. rewrite (satisfies_is_eval n w _ Hw). reflexivity. Qed.
Lemma sat_fal w c : In w W -> py_PreOCF_world_satisfies n w (py_make_A_then_not_B n c) = fal c w.
Proof. intros Hw. rewrite (satisfies_is_eval n w _ Hw). reflexivity. Qed.

(* triples contributed by one entry of the prior to the dictionary of conditional c *)
Definition zt3 (c:cond) (p:world * nat) : ztrip :=
  (Z.of_nat (snd p), map ckz (filter (sel (ckey c) (fst p) true) cs), map ckz (filter (sel (ckey c) (fst p) false) cs)).
Definition contrib (want:bool) (c:cond) (p:world * nat) : list ztrip :=
  match classify c (fst p) with Some b => if Bool.eqb b want then [zt3 c p] else [] | None => [] end.
Definition ent (want:bool) (c:cond) : Z * list ztrip := (ckz c, flat_map (contrib want c) pr).
Definition init (l:list cond) : dict Z (list ztrip) := map (fun c => (ckz c, [])) l.

Lemma ent_model want : map (ent want) cs = zcomp (map (fun c => (ckey c, triples_alt cs pr c want)) cs).
Proof. unfold zcomp. rewrite map_map. apply map_ext. intros c. unfold ent. cbn [fst snd]. f_equal.
  unfold triples_alt. rewrite map_flat_map_comm. apply flat_map_ext. intros p.
  unfold contrib. destruct (classify c (fst p)) as [b|]; [|reflexivity]. destruct (Bool.eqb b want); [|reflexivity].
  cbn [map]. unfold ztriple, zt3. cbn [fst snd]. rewrite !others_z. reflexivity. Qed.

Theorem tie_compile_alt : NoDup (map ckey cs) ->
  py_compile_alt n rank_world zprior cs = Return (zcomp (fst (compile_alt cs pr)), zcomp (snd (compile_alt cs pr))).
Proof.
  intros Hnd. unfold compile_alt. cbn [fst snd]. rewrite <- !ent_model.
  assert (Hndz: NoDup (map ckz cs)).
  { unfold ckz. rewrite <- (map_map ckey Z.of_nat). apply FinFun.Injective_map_NoDup; [|exact Hnd]. intros a b. apply Nat2Z.inj. }
  unfold py_compile_alt. cbv zeta.
  (* first loop: one empty list per index *)
  match goal with |- context [cbind (for_each cs ?b _) _] => set (body1 := b) end.
  assert (E1: forall l d1 d2, NoDup (map ckz l) -> (forall c, In c l -> ~ In (ckz c) (dict_keys d1) /\ ~ In (ckz c) (dict_keys d2)) ->
            @for_each _ _ unit _ l body1 (d1, d2) = Next (d1 ++ init l, d2 ++ init l)).
  { induction l as [|c l IH]; intros d1 d2 Hn Hk; [cbn; rewrite !app_nil_r; reflexivity|].
    cbn [for_each]. unfold body1 at 1. cbn [negb cbind]. destruct (Hk c (or_introl eq_refl)) as [K1 K2].
    rewrite (zdict_set_end d1) by exact K1. rewrite (zdict_set_end d2) by exact K2. inversion Hn as [|? ? Hc Hn']; subst.
    rewrite IH.
    - unfold init. cbn [map]. rewrite <- !app_assoc. reflexivity.
    - exact Hn'.
    - intros c' Hc'. destruct (Hk c' (or_intror Hc')) as [K1' K2']. unfold dict_keys. rewrite !map_app. cbn [map fst].
      split; intros Hin; apply in_app_or in Hin as [Hin|[Hin|[]]]; try (apply K1'; exact Hin); try (apply K2'; exact Hin);
        apply Hc; rewrite Hin; apply in_map; exact Hc'. }
  rewrite (E1 cs [] [] Hndz) by (intros c _; split; intros []). cbn [cbind app].
  (* second loop *)
  match goal with |- context [cbind (for_each cs ?b _) _] => set (body2 := b) end.
  assert (E2: forall todo done, done ++ todo = cs ->
            @for_each _ _ unit _ todo body2 (map (ent true) done ++ init todo, map (ent false) done ++ init todo)
            = Next (map (ent true) cs, map (ent false) cs)).
  { induction todo as [|c todo IH]; intros done Hd.
    - cbn. rewrite !app_nil_r. rewrite app_nil_r in Hd. subst done. reflexivity.
    - cbn [for_each]. unfold body2 at 1. cbv zeta.
      assert (Kt: forall b, ~ In (ckz c) (dict_keys (map (ent b) done))).
      { intros b Hin. unfold dict_keys in Hin. rewrite map_map in Hin. cbn [ent fst] in Hin.
        assert (Hn2: NoDup (map ckz done ++ ckz c :: map ckz todo)) by (rewrite <- Hd, map_app in Hndz; exact Hndz).
        apply NoDup_remove_2 in Hn2. apply Hn2. apply in_or_app. left. exact Hin. }
      rewrite zprior_keys, for_each_map_arg.
      match goal with |- context [cbind (for_each pr ?b _) _] => set (bodyw := b) end.
      assert (Ew: forall l, incl l pr -> forall xv xf,
                @for_each _ _ (dict Z (list ztrip) * dict Z (list ztrip)) _ l bodyw
                  (map (ent true) done ++ (ckz c, xv) :: init todo, map (ent false) done ++ (ckz c, xf) :: init todo)
                = Next (map (ent true) done ++ (ckz c, xv ++ flat_map (contrib true c) l) :: init todo,
                        map (ent false) done ++ (ckz c, xf ++ flat_map (contrib false c) l) :: init todo)).
      { induction l as [|p l IHl]; intros Hl xv xf; [cbn; rewrite !app_nil_r; reflexivity|].
        assert (Hp: In p pr) by (apply Hl; left; reflexivity).
        assert (Hw: In (fst p) W) by (apply Hworlds; exact Hp).
        cbn [for_each flat_map]. unfold bodyw at 1. cbv zeta.
        rewrite (sat_ver _ c Hw), (sat_fal _ c Hw).
        assert (Step: forall st, (st = Next (map (ent true) done ++ (ckz c, xv ++ contrib true c p) :: init todo,
                                             map (ent false) done ++ (ckz c, xf ++ contrib false c p) :: init todo)
                               \/ st = Continue (map (ent true) done ++ (ckz c, xv ++ contrib true c p) :: init todo,
                                             map (ent false) done ++ (ckz c, xf ++ contrib false c p) :: init todo)) ->
                  match st with Next s' | Continue s' => @for_each _ _ (dict Z (list ztrip) * dict Z (list ztrip)) _ l bodyw s'
                              | Break s' => Next s' | Return r => Return r | Raise => Raise | NoFuel => NoFuel end
                  = Next (map (ent true) done ++ (ckz c, xv ++ contrib true c p ++ flat_map (contrib true c) l) :: init todo,
                          map (ent false) done ++ (ckz c, xf ++ contrib false c p ++ flat_map (contrib false c) l) :: init todo)).
        { intros st [->| ->]; rewrite IHl by (intros x Hx; apply Hl; right; exact Hx); rewrite <- !app_assoc; reflexivity. }
        apply Step. clear Step IHl.
        unfold contrib, classify.
        destruct (ver c (fst p)) eqn:Ev; [|destruct (fal c (fst p)) eqn:Ef]; cbn [negb andb cbind Bool.eqb].
        + (* verified *)
          left. rewrite (Hrank p Hp). cbn [call].
          match goal with |- context [for_each cs ?b _] => set (body3 := b) end.
          rewrite (for_each_steps_c cs body3 (fun c' s => (if sel (ckey c) (fst p) true c' then fst s ++ [ckz c'] else fst s,
                                                            if sel (ckey c) (fst p) false c' then snd s ++ [ckz c'] else snd s))).
          * rewrite others_fold. cbn [cbind app]. rewrite zdict_get_mid by apply Kt. cbn [cbind].
            rewrite zdict_set_mid by apply Kt. rewrite app_nil_r. reflexivity.
          * intros c' [a r] _. unfold body3. unfold sel, classify.
            change (ckz c' =? ckz c)%Z with (Z.of_nat (ckey c') =? Z.of_nat (ckey c))%Z. rewrite of_nat_eqb.
            destruct (ckey c' =? ckey c); cbn [negb andb cbind fst snd]; [right; reflexivity|left].
            rewrite (sat_ver _ c' Hw), (sat_fal _ c' Hw).
            destruct (ver c' (fst p)); [reflexivity|]. destruct (fal c' (fst p)); reflexivity.
        + (* falsified *)
          left. rewrite (Hrank p Hp). cbn [call].
          match goal with |- context [for_each cs ?b _] => set (body3 := b) end.
          rewrite (for_each_steps_c cs body3 (fun c' s => (if sel (ckey c) (fst p) true c' then fst s ++ [ckz c'] else fst s,
                                                            if sel (ckey c) (fst p) false c' then snd s ++ [ckz c'] else snd s))).
          * rewrite others_fold. cbn [cbind app]. rewrite zdict_get_mid by apply Kt. cbn [cbind].
            rewrite zdict_set_mid by apply Kt. rewrite app_nil_r. reflexivity.
          * intros c' [a r] _. unfold body3. unfold sel, classify.
            change (ckz c' =? ckz c)%Z with (Z.of_nat (ckey c') =? Z.of_nat (ckey c))%Z. rewrite of_nat_eqb.
            destruct (ckey c' =? ckey c); cbn [negb andb cbind fst snd]; [right; reflexivity|left].
            rewrite (sat_ver _ c' Hw), (sat_fal _ c' Hw).
            destruct (ver c' (fst p)); [reflexivity|]. destruct (fal c' (fst p)); reflexivity.
        + (* neither: continue *)
          right. rewrite !app_nil_r. reflexivity. }
      unfold init at 1 2. cbn [map]. fold (init todo).
      rewrite (Ew pr (incl_refl pr)). cbn [cbind app].
      specialize (IH (done ++ [c])). rewrite !map_app in IH. cbn [map] in IH. rewrite <- !app_assoc in IH. cbn [app] in IH.
      apply IH. exact Hd. }
  pose proof (E2 cs [] eq_refl) as E3. cbn [map app] in E3.
  match goal with |- cbind ?x _ = _ => replace x with (@Next (dict Z (list ztrip) * dict Z (list ztrip)) unit _ (map (ent true) cs, map (ent false) cs)) by (symmetry; exact E3) end.
  reflexivity.
Qed.
End TieCrev.

(* with the ranking function a CustomPreOCF holding the prior: its rank_world is the GENERATED lookup (gen/SrcOcfCustom.v) *)
Section TieCrevCustom.
Variable n : nat.
Variable pr : prior.
Hypothesis Hkeys : NoDup (map fst pr).
Hypothesis Hworlds : forall p, In p pr -> In (fst p) (worlds n).
Variable cs : list cond.

Definition table_of : table := map (fun p => (fst p, Some (snd p))) pr.
Lemma zt_table : zt table_of = zprior pr.
Proof. unfold zt, table_of, zprior. rewrite map_map. reflexivity. Qed.

Theorem tie_compile_alt_custom : NoDup (map ckey cs) ->
  py_compile_alt n (fun w => py_CustomPreOCF_rank_world n (zprior pr) w false) (zprior pr) cs
  = Return (zcomp (fst (compile_alt cs pr)), zcomp (snd (compile_alt cs pr))).
Proof. intros Hnd. apply tie_compile_alt; [exact Hworlds| |exact Hnd].
  intros p Hp. rewrite <- zt_table.
  assert (Hk: NoDup (map fst table_of)) by (unfold table_of; rewrite map_map; exact Hkeys).
  assert (Ht: forall q, In q table_of -> snd q <> None).
  { intros q Hq. unfold table_of in Hq. apply in_map_iff in Hq as [p' [<- _]]. discriminate. }
  assert (Hq: In (fst p, Some (snd p)) table_of) by (unfold table_of; apply in_map_iff; exists p; split; [reflexivity|exact Hp]).
  destruct (custom_rank n table_of Hk Ht (fst p, Some (snd p)) false Hq) as [r [Er Erun]].
  cbn [fst snd] in *. injection Er as <-. exact Erun. Qed.
End TieCrevCustom.

Lemma src_compilation_acceptance n pr cs : NoDup (map fst pr) -> (forall p, In p pr -> In (fst p) (worlds n)) ->
  NoDup (map ckey cs) ->
  exists comp, py_compile_alt n (fun w => py_CustomPreOCF_rank_world n (zprior pr) w false) (zprior pr) cs = Return (zcomp (fst comp), zcomp (snd comp))
    /\ forall gp gm, csp_holds gp gm comp = forallb (accepts_star cs pr gp gm) cs.
Proof. intros Hk Hw Hnd. exists (compile_alt cs pr). split; [apply tie_compile_alt_custom; assumption|].
  intros gp gm. apply ThmCrev.csp_iff_all_accepted. exact Hnd. Qed.
