From InfOCF Require Import Core SysW Lex.
From Coq Require Import ZArith.
(* M for C14: computations that consult a deadline / a solver that may give up.  An expiry schedule sigma tells, for the
   t-th observation point of a query's computation (Deadline.expired() in the MCS loop, Optimize.check() in the z3
   back-ends), whether it reports expiry / unknown.  A computation is a state-and-abort monad over the observation counter. *)
Definition sched := nat -> bool.
Definition M (A:Type) := sched -> nat -> option (A * nat).        (* None = TimeoutError raised *)
Definition ret {A} (x:A) : M A := fun _ t => Some (x, t).
Definition bind {A B} (m:M A) (f:A -> M B) : M B := fun s t => match m s t with None => None | Some (x, t') => f x s t' end.
Definition observe : M unit := fun s t => if s t then None else Some (tt, S t).
Fixpoint observe_n (k:nat) : M unit := match k with 0 => ret tt | S j => bind observe (fun _ => observe_n j) end.
Notation "x <- m ;; f" := (bind m (fun x => f)) (at level 61, m at next level, right associativity).

(* one enumeration of minimal correction sets: the loop looks at the deadline (or calls check) once per round:
   one round per set found, plus the final round that finds nothing - unless the empty set was found, which ends the loop *)
Definition rounds (family:list bv) : nat :=
  if existsb (fun x => cnt x =? 0) family then length family else S (length family).
Definition mcs_m (family:list bv) : M (list bv) := _ <- observe_n (rounds family) ;; ret family.
Fixpoint forall_m {A} (f:A -> M bool) (l:list A) : M bool :=
  match l with [] => ret true | x::r => b <- f x ;; if b then forall_m f r else ret false end.
Fixpoint exists_m {A} (f:A -> M bool) (l:list A) : M bool :=
  match l with [] => ret false | x::r => b <- f x ;; if b then ret true else exists_m f r end.

Section R.
Variable world : Type.
Variable W : list world.
Variables AB AnB : pred world.
Notation fam := (fam world W).
(* System W recursion with abortable enumerations *)
Fixpoint w_rec_m (ls:list (layer world)) (H:pred world) : M bool :=
  match ls with
  | [] => ret (forallb (fun w' => negb (H w' && AnB w')) W)
  | F::rest =>
     Xi <- mcs_m (minimal (fam H F AB)) ;;
     Xi' <- mcs_m (minimal (fam H F AnB)) ;;
     if negb (forallb (fun x' => existsb (fun x => sub x x') Xi) Xi') then ret false
     else forall_m (fun x => if existsb (beq x) Xi' then w_rec_m rest (fun w => H w && beq (F w) x) else ret true) Xi
  end.
(* lexicographic recursion *)
Fixpoint lex_rec_m (ls:list (layer world)) (Hv Hf:pred world) : M bool :=
  match ls with
  | [] => ret (match sel world W Hv AB with [] => false | _ => match sel world W Hf AnB with [] => true | _ => false end end)
  | F::rest =>
    fv <- mcs_m (fam Hv F AB) ;;
    ff <- mcs_m (fam Hf F AnB) ;;
    match minl (map cnt fv) with None => ret false | Some nv =>
    match minl (map cnt ff) with None => ret true | Some nf =>
      if nv <? nf then ret true else if nf <? nv then ret false else
      exists_m (fun xv => if cnt xv =? nv then
                  forall_m (fun xf => if cnt xf =? nf then lex_rec_m rest (fixp world Hv F xv) (fixp world Hf F xf) else ret true) ff
                else ret false) fv
    end end
  end.
End R.

(* single_inference / _multi_inference_worker: a TimeoutError becomes the flagged row (False, timed out) *)
Definition row_of (r:option (bool * nat)) : bool * bool := match r with None => (false, true) | Some (b, _) => (b, false) end.

(* budget arithmetic of InferenceManager.inference and Deadline.from_duration, in milliseconds *)
Open Scope Z_scope.
Definition pre_budget (total pre:Z) : Z := if (total =? 0) then pre else if (pre =? 0) then total else Z.min total pre.
Definition inf_budget (total inf pretime:Z) : Z :=
  if (total =? 0) then inf else if (inf =? 0) then total - pretime else Z.min (total - pretime) inf.
(* Some end-time, or None = no deadline (timeout 0 is "no limit") *)
Definition deadline_of (now timeout:Z) : option Z := if timeout =? 0 then None else Some (now + Z.max 0 timeout).
Definition expired (d:option Z) (now:Z) : bool := match d with None => false | Some e => e <=? now end.
Close Scope Z_scope.
