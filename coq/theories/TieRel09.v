From InfOCF Require Import Core Tol TolExt Form Model Spec Thm06 ThmOps ThmTop ThmPost ThmPostInt PyLib TieLib TieCons TieAnsP TieAnsZ TieAnsW TieAnsLex.
From Coq Require Import ZArith.
(* C09 on the GENERATED code: on a strongly consistent base the relation "the generated code answers True to (B|A)" satisfies
   System P for p-entailment, System Z, System W and lexicographic inference, and rational monotony for System Z and
   lexicographic inference. *)
Section Rel09.
Variable n : nat.
Variable D : list cond.
Hypothesis Hnd : NoDup (map kzc D).
Hypothesis HD : D <> [].
Variable P : list (list (acond world)).
Hypothesis HP : part_strict n D = Some P.
Notation W := (worlds n).
Lemma ans_inj9 a b : Ans a = Ans b -> a = b.  Proof. congruence. Qed.
Lemma HPc : consistency n false D = Some P.  Proof. exact HP. Qed.

Lemma src_z_iff A B : src_z n D false (mkq B A) true <-> z_spec W P (mkq B A) = true.
Proof. split.
  - intros H. apply ans_inj9. rewrite <- (infer_z_strict n D (mkq B A) P HD HP). apply (src_z_infer n D HD false _ true H).
  - intros H. destruct (src_z_exists n D HD false (mkq B A) P HPc) as [b Hb].
    assert (b = true); [|subst; exact Hb]. apply ans_inj9. rewrite <- (src_z_infer n D HD false _ b Hb), (infer_z_strict n D (mkq B A) P HD HP), H. reflexivity. Qed.
Lemma src_w_iff A B : src_w n D false (mkq B A) true <-> w_spec W P (mkq B A) = true.
Proof. split.
  - intros H. apply ans_inj9. rewrite <- (infer_w_strict n D (mkq B A) P HD HP). apply (src_w_infer n D Hnd HD false _ true H).
  - intros H. destruct (src_w_exists n D Hnd HD false (mkq B A) P HPc) as [b Hb].
    assert (b = true); [|subst; exact Hb]. apply ans_inj9. rewrite <- (src_w_infer n D Hnd HD false _ b Hb), (infer_w_strict n D (mkq B A) P HD HP), H. reflexivity. Qed.
Lemma src_lex_iff A B : src_lex n D false (mkq B A) true <-> lex_spec W P (mkq B A) = true.
Proof. split.
  - intros H. apply ans_inj9. rewrite <- (infer_lex_strict n D (mkq B A) P HD HP). apply (src_lex_infer n D Hnd HD false _ true H).
  - intros H. destruct (src_lex_exists n D Hnd HD false (mkq B A) P HPc) as [b Hb].
    assert (b = true); [|subst; exact Hb]. apply ans_inj9. rewrite <- (src_lex_infer n D Hnd HD false _ b Hb), (infer_lex_strict n D (mkq B A) P HD HP), H. reflexivity. Qed.
Lemma src_p_iff A B : src_p n D false (mkq B A) true <-> infer n SysP false D (mkq B A) = Ans true.
Proof. split.
  - intros H. apply (src_p_infer n D HD false _ true H).
  - intros H. destruct (src_p_exists n D HD false (mkq B A) P HPc) as [b Hb].
    assert (b = true); [|subst; exact Hb]. apply ans_inj9. rewrite <- (src_p_infer n D HD false _ b Hb). exact H. Qed.

Theorem src_z_sysP : sysP_holds W (fun A B => src_z n D false (mkq B A) true).
Proof. apply (sysP_iff W (fun A B => z_spec W P (mkq B A) = true)); [intros A B; symmetry; apply src_z_iff|apply z_sysP]. Qed.
Theorem src_z_RM : RM_holds (fun A B => src_z n D false (mkq B A) true).
Proof. apply (RM_iff (fun A B => z_spec W P (mkq B A) = true)); [intros A B; symmetry; apply src_z_iff|apply z_RM]. Qed.
Theorem src_w_sysP : sysP_holds W (fun A B => src_w n D false (mkq B A) true).
Proof. apply (sysP_iff W (fun A B => w_spec W P (mkq B A) = true)); [intros A B; symmetry; apply src_w_iff|apply w_sysP]. Qed.
Theorem src_lex_sysP : sysP_holds W (fun A B => src_lex n D false (mkq B A) true).
Proof. apply (sysP_iff W (fun A B => lex_spec W P (mkq B A) = true)); [intros A B; symmetry; apply src_lex_iff|apply lex_sysP]. Qed.
Theorem src_lex_RM : RM_holds (fun A B => src_lex n D false (mkq B A) true).
Proof. apply (RM_iff (fun A B => lex_spec W P (mkq B A) = true)); [intros A B; symmetry; apply src_lex_iff|apply lex_RM]. Qed.
Theorem src_p_sysP : sysP_holds W (fun A B => src_p n D false (mkq B A) true).
Proof. apply (sysP_iff W (fun A B => infer n SysP false D (mkq B A) = Ans true)); [intros A B; symmetry; apply src_p_iff|apply (p_entailment_sysP n D P HD HP)]. Qed.
End Rel09.
