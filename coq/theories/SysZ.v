From InfOCF Require Import Core.
Section Z.
Variable world : Type.
Variable W : list world.
Variables AB AnB : pred world.
Notation layer := (layer world).

Fixpoint zrank (ls:list layer) (w:world) : nat :=
  match ls with [] => 0 | F::rest => if cnt (F w) =? 0 then zrank rest w else length ls end.
Lemma zrank_le ls w : zrank ls w <= length ls.
Proof. induction ls as [|F r IH]; simpl; auto. destruct (cnt (F w) =? 0); lia. Qed.

Definition nofal (acc:pred world) (F:layer) : pred world := fun w => acc w && (cnt (F w) =? 0).

Fixpoint z_rec (ls:list layer) (acc:pred world) : bool :=
  match ls with
  | [] => false
  | F::rest =>
    if negb (existsb (fun w => nofal acc F w && AB w) W) then false
    else if existsb (fun w => nofal acc F w && AnB w) W
         then (match rest with [] => false | _ => z_rec rest (nofal acc F) end)
         else true
  end.

Definition zspec ls (acc:pred world) : Prop :=
  exists w, In w (sel world W acc AB) /\ forall w', In w' (sel world W acc AnB) -> zrank ls w < zrank ls w'.

Lemma ex_sel acc phi : existsb (fun w => acc w && phi w) W = true <-> exists w, In w (sel world W acc phi).
Proof. rewrite existsb_exists. split; intros [w H]; exists w.
  - destruct H as [H1 H2]. apply andb_true_iff in H2 as [? ?]. apply sel_in; auto.
  - apply sel_in in H as [? [? ?]]. split; auto. apply andb_true_iff; auto. Qed.
Lemma sel_nofal acc F phi w : In w (sel world W (nofal acc F) phi) <-> In w (sel world W acc phi) /\ cnt (F w) = 0.
Proof. rewrite !sel_in. unfold nofal. rewrite andb_true_iff, Nat.eqb_eq. tauto. Qed.

Theorem z_rec_correct : forall ls acc, ls <> [] -> (exists w', In w' (sel world W acc AnB)) ->
  (z_rec ls acc = true <-> zspec ls acc).
Proof.
  induction ls as [|F rest IH]; intros acc Hne [w0 Hw0]; [congruence|].
  cbn [z_rec]. set (m := length (F::rest)).
  assert (Hz: forall w, zrank (F::rest) w = if cnt (F w) =? 0 then zrank rest w else m) by reflexivity.
  assert (Hlt: forall w, zrank rest w < m) by (intros w; pose proof (zrank_le rest w); unfold m; simpl; lia).
  destruct (existsb (fun w => nofal acc F w && AB w) W) eqn:Ev; simpl.
  2:{ split; [discriminate|]. intros [w [Hw Hall]]. exfalso.
      assert (Hc: cnt (F w) <> 0).
      { intros Hc. assert (existsb (fun w => nofal acc F w && AB w) W = true); [|congruence].
        apply ex_sel. exists w. apply sel_nofal. auto. }
      specialize (Hall w0 Hw0). rewrite !Hz in Hall. apply Nat.eqb_neq in Hc. rewrite Hc in Hall.
      destruct (cnt (F w0) =? 0); [pose proof (Hlt w0)|]; lia. }
  apply ex_sel in Ev as [wv Hwv]. apply sel_nofal in Hwv as [Hwv Hcv].
  destruct (existsb (fun w => nofal acc F w && AnB w) W) eqn:Ef.
  2:{ split; auto. intros _. exists wv. split; auto. intros w' Hw'.
      assert (Hc: cnt (F w') <> 0).
      { intros Hc. assert (existsb (fun w => nofal acc F w && AnB w) W = true); [|congruence].
        apply ex_sel. exists w'. apply sel_nofal. auto. }
      rewrite !Hz. apply Nat.eqb_neq in Hc. rewrite Hc. apply Nat.eqb_eq in Hcv. rewrite Hcv. apply Hlt. }
  apply ex_sel in Ef as [wf Hwf]. pose proof Hwf as Hwf'. apply sel_nofal in Hwf as [Hwf Hcf].
  destruct rest as [|G rest'].
  - split; [discriminate|]. intros [w [Hw Hall]]. specialize (Hall wf Hwf). rewrite (Hz wf) in Hall.
    apply Nat.eqb_eq in Hcf. rewrite Hcf in Hall. simpl in Hall. lia.
  - rewrite IH; [|discriminate|eauto]. unfold zspec. split.
    + intros [w [Hw Hall]]. apply sel_nofal in Hw as [Hw Hc]. exists w. split; auto. intros w' Hw'.
      rewrite !Hz. apply Nat.eqb_eq in Hc. rewrite Hc.
      destruct (cnt (F w') =? 0) eqn:E'; [|apply Hlt].
      apply Hall. apply sel_nofal. split; auto. apply Nat.eqb_eq; auto.
    + intros [w [Hw Hall]].
      assert (Hc: cnt (F w) = 0).
      { destruct (cnt (F w) =? 0) eqn:E; [apply Nat.eqb_eq; auto|]. exfalso.
        specialize (Hall wf Hwf). rewrite !Hz in Hall. rewrite E in Hall. apply Nat.eqb_eq in Hcf. rewrite Hcf in Hall.
        pose proof (Hlt wf). lia. }
      exists w. split; [apply sel_nofal; auto|]. intros w' Hw'. apply sel_nofal in Hw' as [Hw' Hc'].
      specialize (Hall w' Hw'). rewrite !Hz in Hall. apply Nat.eqb_eq in Hc, Hc'. rewrite Hc, Hc' in Hall. exact Hall.
Qed.

(* the min-form of the property statement *)
Lemma lt_opt_minl_iff (l1 l2:list nat) :
  lt_opt (minl l1) (minl l2) = true <-> exists a, In a l1 /\ forall b, In b l2 -> a < b.
Proof. split.
  - destruct (minl l1) as [a|] eqn:E1; [|discriminate]. intros H. exists a. split; [eapply minl_in; eauto|].
    intros b Hb. destruct (minl l2) as [c|] eqn:E2; [|apply minl_none in E2; subst; inversion Hb].
    simpl in H. apply Nat.ltb_lt in H. pose proof (minl_le _ _ _ E2 Hb). lia.
  - intros [a [Ha Hall]]. destruct (minl l1) as [a'|] eqn:E1; [|apply minl_none in E1; subst; inversion Ha].
    pose proof (minl_le _ _ _ E1 Ha). destruct (minl l2) as [c|] eqn:E2; simpl; auto.
    apply Nat.ltb_lt. apply minl_in in E2. specialize (Hall c E2). lia. Qed.

Corollary z_rec_min ls : ls <> [] -> (exists w', In w' (sel world W (top world) AnB)) ->
  z_rec ls (top world) = lt_opt (rk world W (zrank ls) AB) (rk world W (zrank ls) AnB).
Proof. intros Hne Hex. apply eq_true_iff_eq. rewrite z_rec_correct; auto. unfold rk. rewrite lt_opt_minl_iff.
  unfold zspec. split.
  - intros [w [Hw Hall]]. exists (zrank ls w). split; [apply in_map; auto|]. intros b Hb. apply in_map_iff in Hb as [w' [<- Hw']]. auto.
  - intros [a [Ha Hall]]. apply in_map_iff in Ha as [w [<- Hw]]. exists w. split; auto. intros w' Hw'. apply Hall. apply in_map; auto. Qed.
End Z.
Print Assumptions z_rec_min.
