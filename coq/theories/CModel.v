From InfOCF Require Import Core Tol CInf Form Model.
(* M + S for c-inference at formula level (executable parts).  Impacts eta are lists of naturals
   (non-negativity is built in), indexed by the position of the conditional in the base. *)
Section C.
Variable n : nat.
Variable D : list cond.
Notation W := (worlds n).
Notation aD := (map ac D).
Definition d0 : acond world := Build_acond world 0 (fun _ => false) (fun _ => false).

(* S: kappa_eta, c-representations, acceptance of the query *)
Definition ckappa (eta:list nat) (w:world) : nat := kappa world aD eta w.
Definition crep_b (eta:list nat) : bool := forallb (accepts_i world W aD eta) (seq 0 (length D)).
Definition qacc_b (eta:list nat) (q:cond) : bool :=
  lt_opt (rk world W (ckappa eta) (ver q)) (rk world W (ckappa eta) (fal q)).

(* M: compile_constraint (vMin / fMin per conditional), translate/encoding (the CSP), compile_and_encode_query *)
Definition vMin (i:nat) : list bv := minimal (vfam world W aD i).
Definition fMin (i:nat) : list bv := minimal (ffam world W aD i).
Definition csp_b (eta:list nat) : bool := forallb (constraint_i world W aD eta) (seq 0 (length D)).
Definition qvMin (q:cond) : list bv := minimal (fam world W (top world) (F world aD) (ver q)).
Definition qfMin (q:cond) : list bv := minimal (fam world W (top world) (F world aD) (fal q)).
Definition qcon_b (eta:list nat) (q:cond) : bool :=
  match minl (map (fun v => sumsel v eta) (qvMin q)), minl (map (fun v => sumsel v eta) (qfMin q)) with
  | Some mv, Some mf => mf <=? mv        (* GE(mv, mf) *)
  | None, Some _ => true                  (* no verification MCS: no constraint *)
  | Some _, None => false                 (* impossible constraint 1 <= 0 *)
  | None, None => true end.
Definition selffulfilling : bool := forallb (fun c => negb (existsb (fal c) W)) D.
(* CInference._inference: False for a self-fulfilling base, else "the CSP has no solution" *)
Definition c_infer_prop (q:cond) : Prop :=
  selffulfilling = false /\ ~ exists eta, length eta = length D /\ csp_b eta = true /\ qcon_b eta q = true.
Definition c_spec_prop (q:cond) : Prop :=
  forall eta, length eta = length D -> crep_b eta = true -> qacc_b eta q = true.

(* executable helpers for the correspondence check *)
Definition positions (v:bv) : list nat := map fst (filter (fun p => snd p) (combine (seq 0 (length v)) v)).
Definition check_counter (eta:list nat) (q:cond) : bool :=
  (length eta =? length D) && crep_b eta && negb (qacc_b eta q) && csp_b eta && qcon_b eta q.
Fixpoint vectors (m bound:nat) : list (list nat) :=
  match m with 0 => [[]] | S k => flat_map (fun x => map (cons x) (vectors k bound)) (seq 0 (S bound)) end.
Definition search_counter (bound:nat) (q:cond) : option (list nat) :=
  find (fun eta => crep_b eta && negb (qacc_b eta q)) (vectors (length D) bound).
End C.

(* ---------- C17: Pareto-minimality of an impact vector, decided over the finite box below it ---------- *)
Section P.
Variable n : nat.
Variable D : list cond.
Fixpoint vectors_below (eta:list nat) : list (list nat) :=
  match eta with [] => [[]] | e::r => flat_map (fun x => map (cons x) (vectors_below r)) (seq 0 (S e)) end.
Fixpoint eq_nats (a b:list nat) : bool := match a, b with [], [] => true | x::a', y::b' => (x =? y) && eq_nats a' b' | _, _ => false end.
Definition pareto_check (eta:list nat) : bool :=
  (length eta =? length D) && crep_b n D eta && forallb (fun e' => eq_nats e' eta || negb (crep_b n D e')) (vectors_below eta).
(* bounded completeness of a reported front: Pareto-minimal vectors inside the box [0..bound]^|D| that are not reported *)
Definition front_missing (bound:nat) (front:list (list nat)) : list (list nat) :=
  filter (fun e => pareto_check e && negb (existsb (eq_nats e) front)) (vectors (length D) bound).
Definition ranks_of (eta:list nat) : list nat := map (ckappa D eta) (worlds n).
End P.
