From InfOCF Require Import Core Tol TolExt SysZ SysW Lex Kz PEnt Incl Form Model Spec Exec Thm06 ThmOps ThmP ThmTop.
From Coq Require Import Permutation.
(* C08: p <= Z <= W <= lex on the definitions (any world list), lifted to both modes of the model *)
Section I.
Variable Wl : list world.
Variable q : cond.

Lemma layers_uniform P : uniform world (layers P).
Proof. intros F HF w w'. unfold layers in HF. apply in_rev in HF. apply in_map_iff in HF as [L [<- _]].
  unfold layer_of. rewrite !map_length. reflexivity. Qed.

Lemma z_spec_cases P : z_spec Wl P q = true <->
  (existsb (fal q) Wl = false \/ zspec world Wl (ver q) (fal q) (layers P) (top world)).
Proof. rewrite <- z_model_spec. rewrite !orb_true_iff, !negb_true_iff. split.
  - intros [[H|H]|H]; auto.
    + left. rewrite ante_ex in H. apply orb_false_iff in H. tauto.
    + destruct (existsb (fal q) Wl) eqn:E; auto. right. apply z_rec_correct_any; auto. apply exb_top; auto.
  - intros [H|H]; auto. destruct (existsb (fal q) Wl) eqn:E; auto. right. apply z_rec_correct_any; auto. apply exb_top; auto. Qed.

Theorem z_sub_w_spec P : z_spec Wl P q = true -> w_spec Wl P q = true.
Proof. rewrite z_spec_cases. intros [H|H].
  - apply w_spec_triv. rewrite H. apply orb_true_r.
  - apply w_spec_iff. unfold SysW.spec. apply (z_sub_w world Wl (ver q) (fal q)); auto. apply layers_uniform. Qed.

Theorem w_sub_lex_spec P : w_spec Wl P q = true -> lex_spec Wl P q = true.
Proof. intros H. destruct (existsb (fal q) Wl) eqn:E.
  - apply lex_spec_iff. right. apply (w_sub_lex world Wl (ver q) (fal q)); [apply exb_top; auto|]. apply w_spec_iff in H. exact H.
  - apply lex_spec_triv. rewrite E. apply orb_true_r. Qed.

(* p <= Z: the Z-ranking of a tolerance partition of D is a ranking model of D *)
Lemma kz_model P : is_tp world Wl P -> model world Wl (kz world P) (concat P).
Proof. intros HP c Hc. apply in_concat_nth in Hc as [j Hj]. eapply kz_accepts; eauto. Qed.

Theorem p_sub_z_spec k P : is_tp world Wl P -> p_def k Wl P q = true -> z_spec Wl P q = true.
Proof. intros HP H. unfold p_def in H. apply orb_true_iff in H as [H|H]; [apply z_spec_triv; exact H|].
  destruct (existsb (fal q) Wl) eqn:Ef; [|apply z_spec_triv; rewrite Ef; apply orb_true_r].
  apply z_spec_cases. right.
  set (qb := ac (negq k q)) in *.
  assert (Hnone: tol_loop world Wl (S (length (concat P))) (qb :: concat P) = None).
  { destruct (tol_loop world Wl (S (length (concat P))) (concat P ++ [qb])) eqn:E; [cbn in H; discriminate|].
    replace (S (length (concat P))) with (length (qb :: concat P)) by reflexivity.
    eapply loop_none_perm; [apply Permutation_sym; apply Permutation_cons_append|].
    rewrite app_length. cbn [length]. replace (length (concat P) + 1) with (S (length (concat P))) by lia. exact E. }
  assert (Hnt: exists w, In w Wl /\ cfal world (ac q) w = true) by (apply existsb_exists in Ef; exact Ef).
  assert (Hacc: accepts world Wl (kz world P) (ac q)).
  { exact (p_ent_models world Wl (ac q) qb (fun w => eq_refl) (negq_fal k q) (ver_fal_excl q) Hnt (concat P) Hnone
             (kz world P) (kz_model P HP)). }
  destruct Hacc as [w [Hw [Hv Hall]]]. exists w. split; [apply sel_in; unfold top; auto|].
  intros w' Hw'. apply sel_in in Hw' as [Hw' [_ Hf']]. rewrite <- !kz_zrank. apply Hall; auto. Qed.
End I.

Section E.
Variable n : nat.
Notation W := (worlds n).

Lemma ext_spec_mono P q sd1 sd2 : (sd1 (Wf W P) (fin P) q = true -> sd2 (Wf W P) (fin P) q = true) ->
  ext_spec W P q sd1 = true -> ext_spec W P q sd2 = true.
Proof. unfold ext_spec. destruct (negb _ || negb _); auto. destruct (negb _); auto. Qed.

(* the finite layers of the extended partition form a tolerance partition over the feasible worlds *)
Lemma rel_tp_feasible Cinf0 : forall P, is_mtp_rel world W Cinf0 P -> is_tp world (filter (nofals world Cinf0) W) P.
Proof. induction P as [|L P IH]; simpl; auto. intros [HL [Ht [_ Hr]]]. repeat split; auto.
  intros c Hc. specialize (Ht c Hc). apply tolerated_iff in Ht as [w [Hw [Hv Hn]]]. apply tolerated_iff.
  exists w. repeat split; auto.
  - apply filter_In. split; auto. apply nofals_in. intros d Hd. apply Hn. rewrite !in_app_iff. auto.
  - intros d Hd. apply Hn. rewrite app_assoc. apply in_or_app. left. exact Hd. Qed.
Lemma ext_fin_tp D P : part_ext n D = Some P -> is_tp world (Wf W P) (fin P).
Proof. intros H. apply ext_partition in H as [P0 [C0 [-> [Hm _]]]]. unfold Wf, fin, Cinf.
  rewrite removelast_app_one, last_app_one. apply rel_tp_feasible; auto. Qed.

Theorem strict_chain D P q : D <> [] -> part_strict n D = Some P ->
  (infer n SysP false D q = Ans true -> infer n SysZ false D q = Ans true) /\
  (infer n SysZ false D q = Ans true -> infer n SysW false D q = Ans true) /\
  (infer n SysW false D q = Ans true -> infer n SysLex false D q = Ans true).
Proof. intros HD HP. rewrite (infer_p_def_strict n D q P HD HP), (infer_z_strict n D q P HD HP),
    (infer_w_strict n D q P HD HP), (infer_lex_strict n D q P HD HP).
  pose proof HP as HP'. apply loop_sound in HP' as [Hm _]. apply mtp_tp in Hm.
  split; [|split]; intros H; injection H as H'; f_equal.
  - eapply p_sub_z_spec; eauto.
  - apply z_sub_w_spec; auto.
  - apply w_sub_lex_spec; auto. Qed.

Theorem ext_chain D P q : D <> [] -> part_ext n D = Some P ->
  (ext_spec W P q (p_def (fresh D)) = true -> infer n SysZ true D q = Ans true) /\
  (infer n SysZ true D q = Ans true -> infer n SysW true D q = Ans true) /\
  (infer n SysW true D q = Ans true -> infer n SysLex true D q = Ans true).
Proof. intros HD HP. rewrite (infer_z_ext n D q P HD HP), (infer_w_ext n D q P HD HP), (infer_lex_ext n D q P HD HP).
  pose proof (ext_fin_tp D P HP) as Htp.
  split; [|split]; intros H.
  - f_equal. eapply ext_spec_mono; [|exact H]. apply p_sub_z_spec; auto.
  - injection H as H'. f_equal. eapply ext_spec_mono; [|exact H']. apply z_sub_w_spec.
  - injection H as H'. f_equal. eapply ext_spec_mono; [|exact H']. apply w_sub_lex_spec. Qed.
End E.
