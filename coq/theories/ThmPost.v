From InfOCF Require Import Core Tol TolExt SysZ SysW Lex Kz PEnt Pref Pref2 Incl Form Model Spec Exec Thm06 ThmOps ThmP ThmTop ThmIncl.
From Coq Require Import Permutation.
(* C09: the specifications of System Z, System W and lexicographic inference are preferential inference
   relations over strict (partial / modular) orders on worlds, hence satisfy System P (and RM). *)
Definition fA (f:form) : pred world := fun w => eval w f.
Definition mkq (B A:form) : cond := {| ckey := 0; ccons := B; cante := A |}.

Section Post.
Variable Wl : list world.

Definition sysP_holds (I : form -> form -> Prop) : Prop :=
  (forall A, I A A) /\
  (forall A A' B, (forall w, In w Wl -> eval w A = eval w A') -> I A B -> I A' B) /\
  (forall A B C, (forall w, In w Wl -> eval w B = true -> eval w C = true) -> I A B -> I A C) /\
  (forall A B, (forall w, In w Wl -> eval w A = true -> eval w B = true) -> I A B) /\
  (forall A B C, I A B -> I A C -> I A (FAnd B C)) /\
  (forall A B C, I A C -> I B C -> I (FOr A B) C) /\
  (forall A B C, I A B -> I A C -> I (FAnd A B) C) /\
  (forall A B C, I A B -> I (FAnd A B) C -> I A C) /\
  (forall A, I A FBot -> forall w, In w Wl -> eval w A = false).
Definition RM_holds (I : form -> form -> Prop) : Prop :=
  forall A B C, I A C -> ~ I A (FNot B) -> I (FAnd A B) C.

Lemma sysP_iff I J : (forall A B, I A B <-> J A B) -> sysP_holds I -> sysP_holds J.
Proof. intros E [H1 [H2 [H3 [H4 [H5 [H6 [H7 [H8 H9]]]]]]]]. unfold sysP_holds.
  repeat split; intros; repeat match goal with Hx : J _ _ |- _ => apply E in Hx end; try apply E; eauto. Qed.
Lemma RM_iff I J : (forall A B, I A B <-> J A B) -> RM_holds I -> RM_holds J.
Proof. intros E H A B C H1 H2. apply E. apply H; [apply E; auto|]. intros H3. apply H2. apply E. exact H3. Qed.

Definition pinf (lt:world->world->bool) (A B:form) : Prop := Pref.infer world Wl lt (fA A) (fA B).
Theorem sysP_of_order lt : (forall w, lt w w = false) -> (forall a b c, lt a b = true -> lt b c = true -> lt a c = true) ->
  sysP_holds (pinf lt).
Proof. intros Hi Ht. unfold sysP_holds, pinf. repeat split.
  - intros A. apply REF.
  - intros A A' B He. apply LLE. exact He.
  - intros A B C He. apply RW. exact He.
  - intros A B He. apply SCL. exact He.
  - intros A B C. apply (AND world Wl lt Hi Ht (fA A) (fA B) (fA C)).
  - intros A B C. apply (OR world Wl lt (fA A) (fA B) (fA C)).
  - intros A B C. apply (CM world Wl lt Hi Ht (fA A) (fA B) (fA C)).
  - intros A B C. apply (CUT world Wl lt Hi Ht (fA A) (fA B) (fA C)).
  - intros A H. apply (BOTTOM world Wl lt (fA A)). exact H. Qed.
Theorem RM_of_modular lt : (forall w, lt w w = false) -> (forall a b c, lt a b = true -> lt b c = true -> lt a c = true) ->
  (forall a b c, lt a b = true -> lt a c = true \/ lt c b = true) -> RM_holds (pinf lt).
Proof. intros Hi Ht Hm A B C. unfold pinf. apply (RM_modular world Wl lt Hi Ht Hm (fA A) (fA B) (fA C)). Qed.

Variable P : list (list (acond world)).
Definition zlt (w w':world) : bool := kz world P w <? kz world P w'.
Definition wlt : world -> world -> bool := wless world (layers P).
Definition llt : world -> world -> bool := lexless world (layers P).

Lemma fal_split B A w : fal (mkq B A) w = true <-> fA A w = true /\ fA B w = false.
Proof. unfold fal, fA. cbn. rewrite andb_true_iff, negb_true_iff. tauto. Qed.
Lemma ver_split B A w : ver (mkq B A) w = true <-> fA A w = true /\ fA B w = true.
Proof. unfold ver, fA. cbn. rewrite andb_true_iff. tauto. Qed.

Lemma w_is_pref B A : w_spec Wl P (mkq B A) = true <-> pinf wlt A B.
Proof. rewrite w_spec_iff. unfold SysW.spec, pinf, Pref.infer, wlt. split.
  - intros H w' Hw' H1 H2. destruct (H w' Hw' eq_refl) as [w [Hw [_ [Hv Hl]]]]; [apply fal_split; auto|].
    apply ver_split in Hv as [? ?]. exists w. auto.
  - intros H w' Hw' _ Hf. apply fal_split in Hf as [H1 H2]. destruct (H w' Hw' H1 H2) as [w [Hw [? [? ?]]]].
    exists w. repeat split; auto. apply ver_split; auto. Qed.

Lemma lex_is_pref B A : lex_spec Wl P (mkq B A) = true <-> pinf llt A B.
Proof. rewrite lex_spec_iff. unfold lspec, pinf, Pref.infer, llt, lexless. split.
  - intros [E|[_ H]] w' Hw' H1 H2.
    + exfalso. assert (Hin: In w' (sel world Wl (top world) (fal (mkq B A)))) by (apply sel_in; unfold top; repeat split; auto; apply fal_split; auto).
      rewrite E in Hin. inversion Hin.
    + destruct (H w') as [w [Hw Hl]]; [apply sel_in; unfold top; repeat split; auto; apply fal_split; auto|].
      apply sel_in in Hw as [Hw [_ Hv]]. apply ver_split in Hv as [? ?]. exists w. auto.
  - intros H. destruct (sel world Wl (top world) (fal (mkq B A))) as [|w0 l] eqn:E; auto. right.
    assert (Hall: forall w', In w' (sel world Wl (top world) (fal (mkq B A))) ->
              exists w, In w (sel world Wl (top world) (ver (mkq B A))) /\ lexlt (vec world (layers P) w) (vec world (layers P) w') = true).
    { intros w' Hw'. apply sel_in in Hw' as [Hw' [_ Hf]]. apply fal_split in Hf as [H1 H2].
      destruct (H w' Hw' H1 H2) as [w [Hw [? [? ?]]]]. exists w. split; auto. apply sel_in. unfold top. repeat split; auto. apply ver_split; auto. }
    split; [|rewrite <- E; exact Hall]. destruct (Hall w0) as [w [Hw _]]; [rewrite E; now left|]. eauto. Qed.

Lemma z_is_pref B A : z_spec Wl P (mkq B A) = true <-> pinf zlt A B.
Proof. rewrite z_spec_cases. unfold zspec, pinf, Pref.infer, zlt. split.
  - intros [E|[w [Hw Hall]]] w' Hw' H1 H2.
    + exfalso. assert (existsb (fal (mkq B A)) Wl = true) by (apply existsb_exists; exists w'; split; auto; apply fal_split; auto). congruence.
    + apply sel_in in Hw as [Hw [_ Hv]]. apply ver_split in Hv as [? ?]. exists w. repeat split; auto.
      apply Nat.ltb_lt. rewrite !kz_zrank. apply Hall. apply sel_in. unfold top. repeat split; auto. apply fal_split; auto.
  - intros H. destruct (existsb (fal (mkq B A)) Wl) eqn:E; auto. right.
    assert (Hne: sel world Wl (top world) (fal (mkq B A)) <> []).
    { apply exb_top in E as [w Hw]. intros E'. rewrite E' in Hw. inversion Hw. }
    destruct (argmin world (kz world P) _ Hne) as [m [Hm Hmin]].
    pose proof Hm as Hm'. apply sel_in in Hm' as [Hm1 [_ Hm2]]. apply fal_split in Hm2 as [HA HB].
    destruct (H m Hm1 HA HB) as [w [Hw [HAw [HBw Hlt]]]]. apply Nat.ltb_lt in Hlt.
    exists w. split; [apply sel_in; unfold top; repeat split; auto; apply ver_split; auto|].
    intros w' Hw'. specialize (Hmin w' Hw'). rewrite <- !kz_zrank. lia. Qed.

Theorem z_sysP : sysP_holds (fun A B => z_spec Wl P (mkq B A) = true).
Proof. eapply sysP_iff; [intros A B; symmetry; apply z_is_pref|]. apply sysP_of_order; unfold zlt.
  - intros w. apply Nat.ltb_irrefl.
  - intros a b c. rewrite !Nat.ltb_lt. lia. Qed.
Theorem z_RM : RM_holds (fun A B => z_spec Wl P (mkq B A) = true).
Proof. eapply RM_iff; [intros A B; symmetry; apply z_is_pref|]. apply RM_of_modular; unfold zlt.
  - intros w. apply Nat.ltb_irrefl.
  - intros a b c. rewrite !Nat.ltb_lt. lia.
  - intros a b c. rewrite !Nat.ltb_lt. lia. Qed.
Theorem w_sysP : sysP_holds (fun A B => w_spec Wl P (mkq B A) = true).
Proof. eapply sysP_iff; [intros A B; symmetry; apply w_is_pref|]. apply sysP_of_order; unfold wlt.
  - apply wless_irrefl.
  - apply wless_trans. Qed.
Theorem lex_sysP : sysP_holds (fun A B => lex_spec Wl P (mkq B A) = true).
Proof. eapply sysP_iff; [intros A B; symmetry; apply lex_is_pref|]. apply sysP_of_order; unfold llt.
  - apply lexless_irrefl.
  - apply lexless_trans. Qed.
Theorem lex_RM : RM_holds (fun A B => lex_spec Wl P (mkq B A) = true).
Proof. eapply RM_iff; [intros A B; symmetry; apply lex_is_pref|]. apply RM_of_modular; unfold llt.
  - apply lexless_irrefl.
  - apply lexless_trans.
  - apply lexless_modular. Qed.

(* direct inference: a tolerance partition's Z-ranking accepts every conditional in it *)
Theorem direct_z c : is_tp world Wl P -> In (ac c) (concat P) -> z_spec Wl P c = true.
Proof. intros HP Hc. apply z_spec_cases. destruct (existsb (fal c) Wl) eqn:E; auto. right.
  destruct (kz_model Wl P HP (ac c) Hc) as [w [Hw [Hv Hall]]]. exists w. split; [apply sel_in; unfold top; auto|].
  intros w' Hw'. apply sel_in in Hw' as [Hw' [_ Hf]]. rewrite <- !kz_zrank. apply Hall; auto. Qed.
End Post.
