From InfOCF Require Import Core Tol Kz.
From Coq Require Import Permutation.
(* C01: "no tolerance partition for D + (notB|A)"  <->  "every ranking model of D accepts (B|A)" *)
Section PEnt.
Variable world : Type.
Variable W : list world.
Notation acond := (acond world).
Notation tolerated := (tolerated world W).
Notation tol_loop := (tol_loop world W).
Notation tolR := (tolR world W).
Notation tolC := (tolC world W).

Definition accepts (kappa:world->nat) (c:acond) : Prop :=
  exists w, In w W /\ cver world c w = true /\ forall w', In w' W -> cfal world c w' = true -> kappa w < kappa w'.
Definition model (kappa:world->nat) (D:list acond) : Prop := forall c, In c D -> accepts kappa c.

(* when the loop fails it has isolated a non-empty sub-base none of whose members is tolerated by it *)
Lemma fail_core : forall fuel D, length D <= fuel -> tol_loop fuel D = None ->
  exists C, C <> [] /\ (forall c, In c C -> In c D) /\ forall c, In c C -> tolerated C c = false.
Proof. induction fuel as [|n IH]; intros D Hlen H.
  - destruct D; simpl in *; [discriminate|lia].
  - destruct D as [|d0 D0]; [simpl in H; discriminate|]. remember (d0::D0) as D.
    assert (HD: D <> []) by (subst; discriminate). rewrite loop_unfold in H by auto.
    destruct (tolR D) as [|r R] eqn:ER.
    + exists D. repeat split; auto. intros c Hc. destruct (tolerated D c) eqn:E; auto.
      assert (In c (tolR D)) by (apply filter_In; auto). rewrite ER in H0. inversion H0.
    + rewrite <- ER in H. destruct (tol_loop n (tolC D)) as [P|] eqn:EL; [destruct (tolR D); discriminate|].
      destruct (IH (tolC D)) as [C [HC [Hsub Hnt]]]; auto.
      * pose proof (split_len world D (tolerated D)) as Hs. unfold Tol.tolR in ER. rewrite ER in Hs. simpl in Hs. unfold Tol.tolC. lia.
      * exists C. repeat split; auto. intros c Hc. apply Hsub in Hc. apply filter_In in Hc as [? _]; auto.
Qed.

Lemma argmin (kappa:world->nat) (l:list world) : l <> [] -> exists m, In m l /\ forall w, In w l -> kappa m <= kappa w.
Proof. induction l as [|a l IH]; [congruence|]. intros _. destruct l as [|b l'].
  - exists a. split; [now left|]. intros w [<-|[]]. lia.
  - destruct IH as [m [Hm Hmin]]; [discriminate|]. destruct (Nat.le_gt_cases (kappa a) (kappa m)).
    + exists a. split; [now left|]. intros w [<-|Hw]; [lia|]. specialize (Hmin w Hw). lia.
    + exists m. split; [now right|]. intros w [<-|Hw]; [lia|auto]. Qed.

Lemma not_tolerated_falsifies C c w : tolerated C c = false -> In w W -> cver world c w = true ->
  exists d, In d C /\ cfal world d w = true.
Proof. intros Ht Hw Hv. unfold Tol.tolerated in Ht.
  assert (Hn: nofals world C w = false).
  { destruct (nofals world C w) eqn:E; auto. exfalso.
    assert (existsb (fun w => cver world c w && nofals world C w) W = true); [|congruence].
    apply existsb_exists. exists w. split; auto. rewrite Hv, E. reflexivity. }
  unfold nofals in Hn. clear Ht. induction C as [|d C IH]; simpl in Hn; [discriminate|].
  destruct (cfal world d w) eqn:E; simpl in Hn.
  - exists d. split; [now left|auto].
  - destruct (IH Hn) as [d' [? ?]]. exists d'. split; [now right|auto]. Qed.

Variable q qbar : acond.
Hypothesis qbar_ver : forall w, cver world qbar w = cfal world q w.
Hypothesis qbar_fal : forall w, cfal world qbar w = cver world q w.
Hypothesis q_excl : forall w, cver world q w = true -> cfal world q w = false.
Hypothesis q_nontrivial : exists w, In w W /\ cfal world q w = true.

Theorem p_ent_models D : tol_loop (S (length D)) (qbar::D) = None -> forall kappa, model kappa D -> accepts kappa q.
Proof. intros Hfail kappa Hmod.
  destruct (fail_core (S (length D)) (qbar::D) (le_n _) Hfail) as [C [HC [Hsub Hnt]]].
  set (V := filter (fun w => existsb (fun c => cver world c w) C) W).
  assert (HV: forall w, In w V <-> In w W /\ exists c, In c C /\ cver world c w = true).
  { intros w. unfold V. rewrite filter_In, existsb_exists. tauto. }
  destruct V as [|v0 V'] eqn:EV.
  - (* no member of C is verifiable: impossible *)
    exfalso. destruct C as [|c0 C']; [congruence|]. destruct (Hsub c0 (or_introl eq_refl)) as [<-|Hc0].
    + destruct q_nontrivial as [w [Hw Hf]]. assert (In w []); [|auto]. apply HV. split; auto.
      exists qbar. split; [now left|]. rewrite qbar_ver. auto.
    + destruct (Hmod c0 Hc0) as [w [Hw [Hv _]]]. assert (In w []); [|auto]. apply HV. split; auto. exists c0. split; [now left|auto].
  - rewrite <- EV in *. destruct (argmin kappa V) as [m [Hm Hmin]]; [rewrite EV; discriminate|].
    apply HV in Hm as [HmW [c0 [Hc0 Hv0]]].
    destruct (not_tolerated_falsifies C c0 m (Hnt c0 Hc0) HmW Hv0) as [c1 [Hc1 Hf1]].
    assert (Hc1q: c1 = qbar).
    { destruct (Hsub c1 Hc1) as [<-|Hc1D]; auto. exfalso. destruct (Hmod c1 Hc1D) as [w1 [Hw1 [Hv1 Hlt]]].
      specialize (Hlt m HmW Hf1). assert (In w1 V) by (apply HV; split; auto; exists c1; auto). specialize (Hmin w1 H). lia. }
    subst c1. rewrite qbar_fal in Hf1.
    exists m. repeat split; auto. intros w' Hw' Hfq.
    assert (Hvq: cver world qbar w' = true) by (rewrite qbar_ver; auto).
    assert (Hw'V: In w' V) by (apply HV; split; auto; exists qbar; auto).
    destruct (not_tolerated_falsifies C qbar w' (Hnt qbar Hc1) Hw' Hvq) as [c2 [Hc2 Hf2]].
    destruct (Hsub c2 Hc2) as [<-|Hc2D].
    + rewrite qbar_fal in Hf2. rewrite (q_excl w' Hf2) in Hfq. discriminate.
    + destruct (Hmod c2 Hc2D) as [w2 [Hw2 [Hv2 Hlt2]]]. specialize (Hlt2 w' Hw' Hf2).
      assert (In w2 V) by (apply HV; split; auto; exists c2; auto). specialize (Hmin w2 H). lia.
Qed.

Lemma in_concat_nth (P:list (list acond)) c : In c (concat P) -> exists j, In c (nth j P []).
Proof. induction P as [|L P IH]; simpl; [intros []|]. intros H. apply in_app_or in H as [H|H].
  - exists 0. auto. - destruct (IH H) as [j Hj]. exists (S j). auto. Qed.

Theorem p_ent_countermodel D P : tol_loop (S (length D)) (qbar::D) = Some P ->
  exists kappa, model kappa D /\ ~ accepts kappa q.
Proof. intros H. apply loop_sound in H as [Hm Hp]. apply mtp_tp in Hm. exists (kz world P).
  assert (Hall: forall c, In c (qbar::D) -> accepts (kz world P) c).
  { intros c Hc. assert (In c (concat P)) by (eapply Permutation_in; [apply Permutation_sym; exact Hp|exact Hc]).
    apply in_concat_nth in H as [j Hj]. exact (kz_accepts world W P Hm j c Hj). }
  split.
  - intros c Hc. apply Hall. now right.
  - intros [w2 [Hw2 [Hv2 Hlt2]]]. destruct (Hall qbar (or_introl eq_refl)) as [w [Hw [Hv Hlt]]].
    rewrite qbar_ver in Hv. specialize (Hlt2 w Hw Hv). specialize (Hlt w2 Hw2). rewrite qbar_fal in Hlt. specialize (Hlt Hv2). lia.
Qed.

Corollary p_ent_rankings D : tol_loop (S (length D)) (qbar::D) = None <-> forall kappa, model kappa D -> accepts kappa q.
Proof. split; [apply p_ent_models|]. intros H. destruct (tol_loop (S (length D)) (qbar::D)) as [P|] eqn:E; auto.
  destruct (p_ent_countermodel D P E) as [kappa [Hm Hn]]. exfalso. auto. Qed.
End PEnt.
Print Assumptions p_ent_rankings.
