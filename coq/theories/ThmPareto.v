From InfOCF Require Import Core Tol CInf Form Model CModel.
(* C17: the Pareto check is sound: a vector that passes is a c-representation and no c-representation lies strictly below it *)
Definition le_vec (a b:list nat) : Prop := Forall2 le a b.
Lemma eq_nats_eq a b : eq_nats a b = true <-> a = b.
Proof. revert b; induction a as [|x a IH]; destruct b as [|y b]; cbn; split; try discriminate; auto.
  - intros H. apply andb_true_iff in H as [H1 H2]. apply Nat.eqb_eq in H1. apply IH in H2. congruence.
  - intros H. inversion H; subst. rewrite Nat.eqb_refl. apply IH. reflexivity. Qed.
Lemma vectors_below_complete : forall eta e', le_vec e' eta -> In e' (vectors_below eta).
Proof. induction eta as [|e r IH]; intros e' H; inversion H; subst; [now left|]. cbn [vectors_below].
  apply in_flat_map. exists x. split; [apply in_seq; lia|]. apply in_map. apply IH. assumption. Qed.
Theorem pareto_check_sound n D eta : pareto_check n D eta = true ->
  length eta = length D /\ crep_b n D eta = true /\ forall e', le_vec e' eta -> crep_b n D e' = true -> e' = eta.
Proof. unfold pareto_check. intros H. apply andb_true_iff in H as [H H3]. apply andb_true_iff in H as [H1 H2].
  apply Nat.eqb_eq in H1. repeat split; auto. intros e' Hle Hc. rewrite forallb_forall in H3.
  specialize (H3 e' (vectors_below_complete eta e' Hle)). rewrite Hc in H3. cbn in H3. rewrite orb_false_r in H3. apply eq_nats_eq. exact H3. Qed.
