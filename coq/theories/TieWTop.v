From InfOCF Require Import Core Tol TolExt SysW Form Model Spec Exec Thm06 ThmOps ThmTop PyLib TieLib TieSet TieSolver TieCons TieMax TieLayer TieW.
From InfOCFGen Require Import SrcCond SrcCons SrcW.
From Coq Require Import ZArith.
(* TIE, composed for System W: on the model's partition (a layering of the base) and the canonical CNF dictionaries the
   generated SystemW._inference gives the model's `op SysW`, hence - inside the quick checks - `infer` and the definition. *)

Section TieWE2E.
Variable n : nat.
Variable D : list cond.
Hypothesis Hnd : NoDup (map kz D).
Notation nf_of := (nf_of D).
Notation fd_of := (fd_of D).
Notation bb_of := (bb_of D).
Theorem e2e_w weakly q P vq0 fq0 : D <> [] -> consistency n weakly D = Some P ->
  exists lay m b, P = acP (Pc D lay m) /\
    py_SystemW_inference n (S m) (Pk D lay m) nf_of fd_of vq0 fq0 bb_of tt q weakly tt = Return b /\
    infer n SysW weakly D q = Ans (trivial n q || b).
Proof. intros HD HP. destruct (partition_layering n D weakly P HD HP) as [lay [m [EP [Hb Hm]]]].
  exists lay, m. eexists. split; [exact EP|]. split.
  - apply (tie_w_inference n q D Hnd lay m Hb Hm nf_of fd_of (nf_of_keys D) (nf_of_ok D Hnd) (fd_of_ok D Hnd) bb_of (bb_of_ok D Hnd)).
  - unfold infer. destruct D as [|c0 D0] eqn:ED; [congruence|]. rewrite <- ED in *. rewrite HP.
    rewrite EP. destruct weakly; reflexivity. Qed.
End TieWE2E.

(* against the property definitions *)
Section Spec.
Variable n : nat.
Variable D : list cond.
Hypothesis Hnd : NoDup (map kz D).
Lemma ans_inj' a b : Ans a = Ans b -> a = b.  Proof. congruence. Qed.
Corollary src_w_strict_spec q P vq0 fq0 : D <> [] -> part_strict n D = Some P ->
  exists lay m b, P = acP (Pc D lay m) /\
    py_SystemW_inference n (S m) (Pk D lay m) (nf_of D) (fd_of D) vq0 fq0 (bb_of D) tt q false tt = Return b /\
    (trivial n q || b) = Spec.w_spec (worlds n) P q.
Proof. intros HD HP. destruct (e2e_w n D Hnd false q P vq0 fq0 HD HP) as [lay [m [b [E1 [E2 E3]]]]].
  exists lay, m, b. split; [exact E1|]. split; [exact E2|]. apply ans_inj'. rewrite <- E3. apply ThmTop.infer_w_strict; assumption. Qed.
Corollary src_w_ext_spec q P vq0 fq0 : D <> [] -> part_ext n D = Some P ->
  exists lay m b, P = acP (Pc D lay m) /\
    py_SystemW_inference n (S m) (Pk D lay m) (nf_of D) (fd_of D) vq0 fq0 (bb_of D) tt q true tt = Return b /\
    (trivial n q || b) = Spec.ext_spec (worlds n) P q Spec.w_spec.
Proof. intros HD HP. destruct (e2e_w n D Hnd true q P vq0 fq0 HD HP) as [lay [m [b [E1 [E2 E3]]]]].
  exists lay, m, b. split; [exact E1|]. split; [exact E2|]. apply ans_inj'. rewrite <- E3. apply ThmTop.infer_w_ext; assumption. Qed.
End Spec.
