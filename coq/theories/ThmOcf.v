From InfOCF Require Import Core Form Model Ocf.
From Coq Require Import Sorted.
(* C18: the laws of the ranking-function operations, for every table (any signature length, any ranks). *)
Definition ranks_where (t:table) (phi:world -> bool) : list nat :=
  flat_map (fun p => match snd p with Some r => if phi (fst p) then [r] else [] | None => [] end) t.
Definition prank (t:table) (phi:world -> bool) : option nat := minl (ranks_where t phi).

Lemma ranks_where_in t phi r : In r (ranks_where t phi) <-> exists w, In (w, Some r) t /\ phi w = true.
Proof. unfold ranks_where. rewrite in_flat_map. split.
  - intros [[w v] [Hin Hr]]. cbn in Hr. destruct v as [r'|]; [|inversion Hr]. destruct (phi w) eqn:E; [|inversion Hr].
    destruct Hr as [<-|[]]. eauto.
  - intros [w [Hin Hp]]. exists (w, Some r). split; auto. cbn. rewrite Hp. now left. Qed.

(* formula_rank: the least rank of the models, undefined iff there is none *)
Theorem frank_is_prank t f : frank t f = prank t (fun w => eval w f). Proof. reflexivity. Qed.
Theorem prank_some t phi m : prank t phi = Some m <->
  (exists w, In (w, Some m) t /\ phi w = true) /\ (forall w r, In (w, Some r) t -> phi w = true -> m <= r).
Proof. unfold prank. split.
  - intros H. split; [apply ranks_where_in; eapply minl_in; eauto|].
    intros w r Hin Hp. eapply minl_le; eauto. apply ranks_where_in. eauto.
  - intros [Hex Hmin]. apply ranks_where_in in Hex. destruct (minl (ranks_where t phi)) as [m'|] eqn:E.
    + f_equal. pose proof (minl_le _ _ _ E Hex). pose proof (minl_in _ _ E) as Hin. apply ranks_where_in in Hin as [w [Hw Hp]].
      specialize (Hmin w m' Hw Hp). lia.
    + apply minl_none in E. rewrite E in Hex. inversion Hex. Qed.
Theorem prank_none t phi : prank t phi = None <-> forall w r, In (w, Some r) t -> phi w = false.
Proof. unfold prank. rewrite minl_none. split.
  - intros E w r Hin. destruct (phi w) eqn:Ep; auto. exfalso.
    assert (In r (ranks_where t phi)) by (apply ranks_where_in; eauto). rewrite E in H. inversion H.
  - intros H. destruct (ranks_where t phi) as [|r l] eqn:E; auto. exfalso.
    assert (Hin: In r (ranks_where t phi)) by (rewrite E; now left). apply ranks_where_in in Hin as [w [Hw Hp]].
    rewrite (H w r Hw) in Hp. discriminate. Qed.

(* acceptance *)
Theorem accept_iff t c : accept t c = true <->
  exists v, frank t (FAnd (cante c) (ccons c)) = Some v /\
            (frank t (FAnd (cante c) (FNot (ccons c))) = None \/ exists m, frank t (FAnd (cante c) (FNot (ccons c))) = Some m /\ v < m).
Proof. unfold accept. destruct (frank t (FAnd (cante c) (ccons c))) as [v|]; [|split; [discriminate|intros [v [H _]]; discriminate]].
  destruct (frank t (FAnd (cante c) (FNot (ccons c)))) as [m|].
  - rewrite Nat.ltb_lt. split.
    + intros H. exists v. split; auto. right. eauto.
    + intros [v' [Hv [H|[m' [Hm Hlt]]]]]; [discriminate|]. inversion Hv; inversion Hm; subst. exact Hlt.
  - split; auto. intros _. exists v. auto. Qed.

(* conditionalisation: exactly the worlds satisfying the condition, with their ranks *)
Theorem conditionalize_exact t f w r : In (w, r) (conditionalize t f) <-> In (w, r) t /\ eval w f = true.
Proof. unfold conditionalize. rewrite filter_In. reflexivity. Qed.

(* marginalisation *)
Definition omin (a b:option nat) : option nat :=
  match a, b with Some x, Some y => Some (Nat.min x y) | Some x, None => Some x | None, b => b end.
Lemma minl_app l1 l2 : minl (l1 ++ l2) = omin (minl l1) (minl l2).
Proof. induction l1 as [|x l IH]; simpl; [destruct (minl l2); reflexivity|]. rewrite IH.
  destruct (minl l), (minl l2); simpl; auto; f_equal; lia. Qed.
Definition keys_distinct (t:table) := NoDup (map fst t).
Lemma upd_min_keys acc u r x : In x (map fst (upd_min acc u r)) <-> In x (map fst acc) \/ x = u.
Proof. induction acc as [|[y v] acc IH]; simpl; [intuition|]. destruct (beq y u) eqn:E; simpl.
  - apply beq_eq in E. subst. intuition.
  - rewrite IH. intuition. Qed.
Lemma upd_min_distinct acc u r : keys_distinct acc -> keys_distinct (upd_min acc u r).
Proof. unfold keys_distinct. induction acc as [|[y v] acc IH]; simpl; intros H.
  - constructor; [intros []|constructor].
  - inversion H as [|? ? Hn Hd]; subst. destruct (beq y u) eqn:E; simpl.
    + constructor; auto.
    + constructor; auto. rewrite upd_min_keys. intros [Hi| ->]; auto. rewrite beq_refl in E. discriminate. Qed.
Lemma prank_upd acc u r phi : keys_distinct acc ->
  prank (upd_min acc u r) phi = if phi u then omin (prank acc phi) (Some r) else prank acc phi.
Proof. unfold prank, keys_distinct. induction acc as [|[y v] acc IH]; intros Hd.
  - cbn. destruct (phi u); reflexivity.
  - inversion Hd as [|? ? Hn Hd']; subst. cbn [upd_min]. destruct (beq y u) eqn:E.
    + apply beq_eq in E. subst y. cbn [ranks_where flat_map fst snd]. change (flat_map _ acc) with (ranks_where acc phi).
      rewrite !minl_app. destruct (phi u) eqn:Ep.
      * destruct v as [m|]; cbn; destruct (minl (ranks_where acc phi)); cbn; f_equal; lia.
      * destruct v; reflexivity.
    + cbn [ranks_where flat_map fst snd]. change (flat_map _ (upd_min acc u r)) with (ranks_where (upd_min acc u r) phi).
      change (flat_map _ acc) with (ranks_where acc phi). rewrite !minl_app, (IH Hd').
      destruct (phi u); auto.
      destruct (match v with Some r0 => if phi y then [r0] else [] | None => [] end) as [|a l]; cbn; [destruct (minl (ranks_where acc phi)); reflexivity|].
      destruct (minl l), (minl (ranks_where acc phi)); cbn; f_equal; lia. Qed.

Lemma prank_cons w v t phi : prank ((w, v) :: t) phi =
  omin (match v with Some r => if phi w then Some r else None | None => None end) (prank t phi).
Proof. unfold prank. cbn [ranks_where flat_map fst snd]. change (flat_map _ t) with (ranks_where t phi). rewrite minl_app.
  destruct v as [r|]; [destruct (phi w)|]; reflexivity. Qed.
Lemma omin_assoc a b c : omin (omin a b) c = omin a (omin b c).
Proof. destruct a, b, c; cbn; auto. f_equal. lia. Qed.
Lemma omin_none_r a : omin a None = a. Proof. destruct a; reflexivity. Qed.
Lemma marg_fold drop phi : forall t acc, keys_distinct acc ->
  let res := fold_left (fun acc p => match snd p with Some r => upd_min acc (del drop (fst p)) r | None => acc end) t acc in
  keys_distinct res /\ prank res phi = omin (prank acc phi) (prank t (fun w => phi (del drop w))).
Proof. induction t as [|[w v] t IH]; intros acc Hd; cbn [fold_left].
  - split; auto. unfold prank at 3. cbn. rewrite omin_none_r. reflexivity.
  - rewrite prank_cons. destruct v as [r|]; cbn [snd fst].
    + destruct (IH (upd_min acc (del drop w) r) (upd_min_distinct _ _ _ Hd)) as [H1 H2]. split; auto.
      rewrite H2, prank_upd by auto. destruct (phi (del drop w)).
      * rewrite omin_assoc. reflexivity.
      * reflexivity.
    + destruct (IH acc Hd) as [H1 H2]. split; auto. Qed.
(* every property of the remaining atoms keeps its rank; in particular each remaining world gets the least rank of its extensions *)
Theorem marginalize_preserves_ranks drop t phi : prank (marginalize drop t) phi = prank t (fun w => phi (del drop w)).
Proof. unfold marginalize. destruct (marg_fold drop phi t [] (NoDup_nil _)) as [_ H]. cbn zeta in H. rewrite H. reflexivity. Qed.
Theorem marginalize_world_min drop t u : prank (marginalize drop t) (beq u) = prank t (fun w => beq u (del drop w)).
Proof. apply marginalize_preserves_ranks. Qed.
Theorem marginalize_distinct drop t : keys_distinct (marginalize drop t).
Proof. unfold marginalize. destruct (marg_fold drop (fun _ => true) t [] (NoDup_nil _)) as [H _]. exact H. Qed.

(* ranks2tpo / tpo2ranks *)
Lemma insert_u_in x l y : In y (insert_u x l) <-> y = x \/ In y l.
Proof. induction l as [|z l IH]; simpl; [intuition|]. destruct (x <? z) eqn:E1; simpl; [intuition|].
  destruct (x =? z) eqn:E2; simpl.
  - apply Nat.eqb_eq in E2. subst. intuition.
  - rewrite IH. intuition. Qed.
Lemma insert_u_sorted x l : StronglySorted lt l -> StronglySorted lt (insert_u x l).
Proof. induction 1 as [|z l Hs IH Hall]; simpl; [repeat constructor|].
  destruct (x <? z) eqn:E1.
  - apply Nat.ltb_lt in E1. constructor; [constructor; auto|]. constructor; auto.
    rewrite Forall_forall in *. intros y Hy. specialize (Hall y Hy). lia.
  - destruct (x =? z) eqn:E2; [constructor; auto|]. apply Nat.ltb_ge in E1. apply Nat.eqb_neq in E2.
    constructor; auto. rewrite Forall_forall in *. intros y Hy. apply insert_u_in in Hy as [-> |Hy]; [lia|auto]. Qed.
Lemma rank_values_sorted t : StronglySorted lt (rank_values t).
Proof. unfold rank_values. induction (flat_map _ t) as [|x l IH]; simpl; [constructor|]. apply insert_u_sorted; auto. Qed.
Lemma rank_values_in t r : In r (rank_values t) <-> exists w, In (w, Some r) t.
Proof. unfold rank_values.
  assert (H: forall l, In r (fold_right insert_u [] l) <-> In r l).
  { induction l as [|x l IH]; simpl; [tauto|]. rewrite insert_u_in, IH. intuition. }
  rewrite H. change (flat_map _ t) with (ranks_where t (fun _ => true)). rewrite ranks_where_in. split; intros [w Hw]; exists w; tauto. Qed.

(* each layer is one rank class; the layers are listed by strictly increasing rank *)
Lemma nth_map_lt {A B} (f:A->B) l i d d' : i < length l -> nth i (map f l) d' = f (nth i l d).
Proof. revert i; induction l as [|a l IH]; intros [|i] H; cbn in *; try lia; auto. apply IH. lia. Qed.
Theorem ranks2tpo_layers t i w : In w (nth i (ranks2tpo t) []) <-> (i < length (rank_values t) /\ In (w, Some (nth i (rank_values t) 0)) t).
Proof. unfold ranks2tpo. split.
  - intros H. destruct (Nat.lt_ge_cases i (length (rank_values t))) as [Hi|Hi].
    + split; auto. rewrite (nth_map_lt _ _ _ 0) in H by auto.
      apply in_map_iff in H as [[w' v] [<- Hf]]. apply filter_In in Hf as [Hin Hr]. cbn in *.
      destruct v as [r|]; [|discriminate]. apply Nat.eqb_eq in Hr. subst. exact Hin.
    + rewrite nth_overflow in H by (rewrite map_length; auto). inversion H.
  - intros [Hi Hin]. rewrite (nth_map_lt _ _ _ 0) by auto.
    apply in_map_iff. exists (w, Some (nth i (rank_values t) 0)). split; auto. apply filter_In. split; auto. cbn. apply Nat.eqb_refl. Qed.
Theorem ranks2tpo_ascending t : StronglySorted lt (rank_values t) /\ length (ranks2tpo t) = length (rank_values t).
Proof. split; [apply rank_values_sorted|]. unfold ranks2tpo. apply map_length. Qed.

Lemma tpo2ranks_from_in tpo fn : forall k w v, In (w, v) (tpo2ranks_from k tpo fn) <-> exists i, In w (nth i tpo []) /\ v = fn (k + i) /\ i < length tpo.
Proof. induction tpo as [|L tpo IH]; intros k w v; cbn [tpo2ranks_from].
  - split; [intros []|intros [i [_ [_ Hi]]]; inversion Hi].
  - rewrite in_app_iff, IH. split.
    + intros [H|[i [H1 [H2 H3]]]].
      * apply in_map_iff in H as [w' [E Hw]]. inversion E; subst. exists 0. cbn. rewrite Nat.add_0_r. repeat split; auto. lia.
      * exists (S i). cbn. repeat split; auto; [rewrite H2; f_equal; lia|lia].
    + intros [[|i] [H1 [H2 H3]]]; cbn in *.
      * left. apply in_map_iff. exists w. rewrite Nat.add_0_r in H2. subst. auto.
      * right. exists i. repeat split; auto; [rewrite H2; f_equal; lia|lia]. Qed.

(* round trip: world w of rank r = (i-th rank value) receives fn i; numbering the layers by their own ranks gives the ranks back,
   a strictly increasing numbering gives an order-isomorphic ranking *)
Theorem tpo_roundtrip t fn w v : In (w, v) (tpo2ranks (ranks2tpo t) fn) <->
  exists i, i < length (rank_values t) /\ In (w, Some (nth i (rank_values t) 0)) t /\ v = fn i.
Proof. unfold tpo2ranks. rewrite tpo2ranks_from_in. split.
  - intros [i [H1 [H2 H3]]]. apply ranks2tpo_layers in H1 as [Hi Hin]. exists i. auto.
  - intros [i [Hi [Hin Hv]]]. exists i. repeat split; auto; [apply ranks2tpo_layers; auto|]. destruct (ranks2tpo_ascending t) as [_ ->]. exact Hi. Qed.
Corollary tpo_roundtrip_exact t w v : In (w, v) (tpo2ranks (ranks2tpo t) (fun i => nth i (rank_values t) 0)) <-> In (w, Some v) t.
Proof. rewrite tpo_roundtrip. split.
  - intros [i [Hi [Hin ->]]]. exact Hin.
  - intros Hin. assert (Hr: In v (rank_values t)) by (apply rank_values_in; eauto).
    apply In_nth with (d:=0) in Hr as [i [Hi E]]. exists i. rewrite E. auto. Qed.
Lemma sorted_nth_lt l : StronglySorted lt l -> forall i j, i < j -> j < length l -> nth i l 0 < nth j l 0.
Proof. induction 1 as [|x l Hs IH Hall]; intros i j Hij Hj; [inversion Hj|]. destruct j as [|j]; [lia|]. destruct i as [|i]; cbn.
  - rewrite Forall_forall in Hall. apply Hall. apply nth_In. cbn in Hj. lia.
  - apply IH; cbn in Hj; lia. Qed.
Corollary tpo_roundtrip_order t fn : (forall i j, i < j -> fn i < fn j) ->
  forall w1 v1 r1 w2 v2 r2, In (w1, Some r1) t -> In (w2, Some r2) t ->
  keys_distinct t -> In (w1, v1) (tpo2ranks (ranks2tpo t) fn) -> In (w2, v2) (tpo2ranks (ranks2tpo t) fn) -> (r1 < r2 <-> v1 < v2).
Proof. intros Hmono w1 v1 r1 w2 v2 r2 H1 H2 Hd Hv1 Hv2.
  apply tpo_roundtrip in Hv1 as [i [Hi [Hin1 ->]]]. apply tpo_roundtrip in Hv2 as [j [Hj [Hin2 ->]]].
  assert (Huniq: forall w a b, In (w, a) t -> In (w, b) t -> a = b).
  { clear -Hd. unfold keys_distinct in Hd. induction t as [|[x v] t IH]; intros w a b Ha Hb; [inversion Ha|].
    cbn in Hd. inversion Hd as [|? ? Hn Hd']; subst. destruct Ha as [Ea|Ha], Hb as [Eb|Hb].
    - congruence.
    - inversion Ea; subst. exfalso. apply Hn. apply in_map_iff. exists (w, b). auto.
    - inversion Eb; subst. exfalso. apply Hn. apply in_map_iff. exists (w, a). auto.
    - eauto. }
  pose proof (Huniq _ _ _ H1 Hin1) as E1. pose proof (Huniq _ _ _ H2 Hin2) as E2. inversion E1; inversion E2; subst.
  pose proof (rank_values_sorted t) as Hs. split; intros Hlt.
  - destruct (Nat.lt_trichotomy i j) as [H|[H|H]]; auto.
    + subst. lia.
    + pose proof (sorted_nth_lt _ Hs j i H Hi). lia.
  - destruct (Nat.lt_trichotomy i j) as [H|[H|H]].
    + apply sorted_nth_lt; auto.
    + subst. lia.
    + specialize (Hmono j i H). lia. Qed.
