From InfOCF Require Import Core Tol SysZ SysW Lex Kz Form.
(* S: the property statements as executable definitions by world enumeration.  Generic in the world
   list Wl (all assignments, or the feasible ones) and in the ascending list of finite layers P. *)
Section S.
Variable Wl : list world.
Variable P : list (list (acond world)).     (* tolerance partition, lowest layer first *)
Variable q : cond.

Definition desc : list (layer world) := rev (map layer_of P).
(* kz(w) = 0 if w falsifies nothing, else 1 + largest layer index with a falsified conditional *)
Definition kappa_z (w:world) : nat := kz world P w.
Definition rank_of (r:world -> nat) (phi:pred world) : option nat := rk world Wl r phi.
(* C02 *)
Definition z_spec : bool :=
  negb (existsb (ante q) Wl) || lt_opt (rank_of kappa_z (ver q)) (rank_of kappa_z (fal q)).
(* C03: forall w' |= A not B  exists w |= A B  with w <_w w' *)
Definition w_spec : bool :=
  forallb (fun w' => negb (fal q w') || existsb (fun w => ver q w && wless world desc w w') Wl) Wl.
(* C04: least falsification-count vector (highest layer first) over AB strictly below the one over A not B *)
Definition lexvec (w:world) : list nat := vec world desc w.
Fixpoint lexminl (l:list (list nat)) : option (list nat) :=
  match l with [] => None
  | x::r => match lexminl r with None => Some x | Some m => Some (if lexlt m x then m else x) end end.
Definition lex_spec : bool :=
  match lexminl (map lexvec (filter (fal q) Wl)) with
  | None => true
  | Some mf => match lexminl (map lexvec (filter (ver q) Wl)) with
               | None => false | Some mv => lexlt mv mf end end.
End S.

(* C07: the extended reading = vacuity clauses, then the strict definition over feasible worlds and
   finite layers *)
Section E.
Variable Wl : list world.
Variable Pfull : list (list (acond world)).   (* finite layers ++ [infinity layer] *)
Variable q : cond.
Definition Cinf := last Pfull [].
Definition fin := removelast Pfull.
Definition Wf : list world := filter (nofals world Cinf) Wl.
Definition ext_spec (strict_def : list world -> list (list (acond world)) -> cond -> bool) : bool :=
  if negb (existsb (ante q) Wf) || negb (existsb (fal q) Wf) then true
  else if negb (existsb (ver q) Wf) then false
  else strict_def Wf fin q.
End E.
