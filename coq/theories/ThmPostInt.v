From InfOCF Require Import Core Tol SysZ Kz PEnt Form Model Spec Pref Pref2 ThmPost Thm06 ThmIncl ThmTop CInf CModel ThmC ThmCrepEx.
From Coq Require Import Permutation.
(* C09: p-entailment and c-inference satisfy System P, as intersections of the preferential relations of ranking
   functions (all ranking models of D; all c-representations of D). *)
Section Inter.
Variable Wl : list world.

Definition klt (k:world->nat) (a b:world) : bool := k a <? k b.
Lemma klt_irrefl k w : klt k w w = false. Proof. apply Nat.ltb_irrefl. Qed.
Lemma klt_trans k a b c : klt k a b = true -> klt k b c = true -> klt k a c = true.
Proof. unfold klt. rewrite !Nat.ltb_lt. lia. Qed.

(* a non-empty finite set of worlds has a member of least rank *)
Lemma least_world (k:world->nat) (p:world->bool) : forall l : list world, (exists w, In w l /\ p w = true) ->
  exists m, In m l /\ p m = true /\ forall w, In w l -> p w = true -> k m <= k w.
Proof. induction l as [|x l IH]; intros [w [Hw Hp]]; [destruct Hw|].
  destruct (existsb p l) eqn:E.
  - apply existsb_exists in E. destruct (IH E) as [m [Hm [Hpm Hmin]]].
    destruct (p x) eqn:Epx.
    + destruct (Nat.le_gt_cases (k m) (k x)) as [Hle|Hgt].
      * exists m. split; [right; auto|]. split; auto. intros w' [<-|Hw'] Hp'; auto.
      * exists x. split; [left; auto|]. split; auto. intros w' [<-|Hw'] Hp'; [lia|]. specialize (Hmin w' Hw' Hp'). lia.
    + exists m. split; [right; auto|]. split; auto. intros w' [<-|Hw'] Hp'; [congruence|auto].
  - destruct Hw as [<-|Hw]; [|exfalso; assert (existsb p l = true) by (apply existsb_exists; eauto); congruence].
    exists x. split; [left; auto|]. split; auto. intros w' [<-|Hw'] Hp'; [lia|].
    exfalso. assert (existsb p l = true) by (apply existsb_exists; eauto). congruence. Qed.

(* acceptance by kappa (or an unsatisfiable antecedent) is preferential inference in kappa's order *)
Lemma pinf_klt_iff k A B : pinf Wl (klt k) A B <->
  (accepts world Wl k (ac (mkq B A)) \/ forall w, In w Wl -> eval w A = false).
Proof. unfold pinf, Pref.infer, accepts. cbn [cver cfal ac]. split.
  - intros H. destruct (existsb (fal (mkq B A)) Wl) eqn:Ef.
    + apply existsb_exists in Ef. destruct (least_world k (fal (mkq B A)) Wl Ef) as [m [Hm [Hfm Hmin]]].
      apply fal_split in Hfm as Hs. destruct Hs as [HA HB]. destruct (H m Hm HA HB) as [w [Hw [HwA [HwB Hlt]]]].
      left. exists w. split; auto. split; [apply ver_split; auto|]. intros w' Hw' Hf'. specialize (Hmin w' Hw' Hf').
      unfold klt in Hlt. apply Nat.ltb_lt in Hlt. lia.
    + destruct (existsb (fA A) Wl) eqn:Ea.
      * apply existsb_exists in Ea as [w [Hw HA]]. left. exists w. split; auto. split.
        -- apply ver_split. split; auto. destruct (fA B w) eqn:EB; auto. exfalso.
           assert (existsb (fal (mkq B A)) Wl = true) by (apply existsb_exists; exists w; split; auto; apply fal_split; auto). congruence.
        -- intros w' Hw' Hf'. exfalso. assert (existsb (fal (mkq B A)) Wl = true) by (apply existsb_exists; eauto). congruence.
      * right. intros w Hw. destruct (eval w A) eqn:E; auto. exfalso.
        assert (existsb (fA A) Wl = true) by (apply existsb_exists; exists w; split; auto). congruence.
  - intros [[w [Hw [Hv Hall]]]|Hun] w' Hw' HA HB.
    + apply ver_split in Hv as [HwA HwB]. exists w. repeat split; auto. unfold klt. apply Nat.ltb_lt. apply Hall; auto. apply fal_split; auto.
    + unfold fA in HA. rewrite (Hun w' Hw') in HA. discriminate. Qed.

(* intersections of relations satisfying System P satisfy System P (BOTTOM needs one member) *)
Lemma sysP_inter {I:Type} (Good:I->Prop) (R:I->form->form->Prop) :
  (exists i, Good i) -> (forall i, Good i -> sysP_holds Wl (R i)) -> sysP_holds Wl (fun A B => forall i, Good i -> R i A B).
Proof. intros [i0 H0] H. unfold sysP_holds. split; [|split; [|split; [|split; [|split; [|split; [|split; [|split]]]]]]].
  - intros A i Hi. destruct (H i Hi) as [H1 _]. apply H1.
  - intros A A' B He HI i Hi. destruct (H i Hi) as [_ [H2 _]]. eapply H2; eauto.
  - intros A B C He HI i Hi. destruct (H i Hi) as [_ [_ [H3 _]]]. eapply H3; eauto.
  - intros A B He i Hi. destruct (H i Hi) as [_ [_ [_ [H4 _]]]]. eapply H4; eauto.
  - intros A B C H1 H2 i Hi. destruct (H i Hi) as [_ [_ [_ [_ [H5 _]]]]]. apply H5; auto.
  - intros A B C H1 H2 i Hi. destruct (H i Hi) as [_ [_ [_ [_ [_ [H6 _]]]]]]. apply H6; auto.
  - intros A B C H1 H2 i Hi. destruct (H i Hi) as [_ [_ [_ [_ [_ [_ [H7 _]]]]]]]. apply H7; auto.
  - intros A B C H1 H2 i Hi. destruct (H i Hi) as [_ [_ [_ [_ [_ [_ [_ [H8 _]]]]]]]]. eapply H8; eauto.
  - intros A HI. destruct (H i0 H0) as [_ [_ [_ [_ [_ [_ [_ [_ H9]]]]]]]]. apply H9. apply HI. exact H0. Qed.

(* all ranking models of aD *)
Definition p_rel (aD:list (acond world)) (A B:form) : Prop := forall k, model world Wl k aD -> pinf Wl (klt k) A B.
Theorem p_rel_sysP aD : (exists k, model world Wl k aD) -> sysP_holds Wl (p_rel aD).
Proof. intros Hex. unfold p_rel. apply (sysP_inter (fun k => model world Wl k aD) (fun k => pinf Wl (klt k))); auto.
  intros k _. apply sysP_of_order; [apply klt_irrefl|apply klt_trans]. Qed.
Lemma p_rel_iff aD A B : p_rel aD A B <->
  ((forall w, In w Wl -> eval w A = false) \/ forall k, model world Wl k aD -> accepts world Wl k (ac (mkq B A))).
Proof. unfold p_rel. split.
  - intros H. destruct (existsb (fA A) Wl) eqn:Ea.
    + right. intros k Hk. specialize (H k Hk). apply pinf_klt_iff in H. destruct H as [H|H]; auto. exfalso.
      apply existsb_exists in Ea as [w [Hw HA]]. unfold fA in HA. rewrite (H w Hw) in HA. discriminate.
    + left. intros w Hw. destruct (eval w A) eqn:E; auto. exfalso.
      assert (existsb (fA A) Wl = true) by (apply existsb_exists; exists w; split; auto). congruence.
  - intros [H|H] k Hk; apply pinf_klt_iff; auto. Qed.
End Inter.

(* ---- the operator's answers ---- *)
Section Ops.
Variable n : nat.
Notation W := (worlds n).

Lemma model_perm k l l' : Permutation l l' -> model world W k l -> model world W k l'.
Proof. intros Hp H c Hc. apply H. eapply Permutation_in; [apply Permutation_sym; exact Hp|exact Hc]. Qed.

Theorem p_answers_are_all_models D P A B : D <> [] -> part_strict n D = Some P ->
  (Model.infer n SysP false D (mkq B A) = Ans true <-> p_rel W (map ac D) A B).
Proof. intros HD HP. rewrite p_rel_iff. destruct (trivial n (mkq B A)) eqn:Et.
  - rewrite (infer_trivial n SysP false D (mkq B A) P HD HP Et). split; auto. intros _.
    destruct (existsb (ante (mkq B A)) W) eqn:Ea.
    + assert (Ef: existsb (fal (mkq B A)) W = false).
      { unfold trivial, sat in Et. rewrite Ea in Et. cbn [negb orb] in Et. apply negb_true_iff in Et. exact Et. }
      right. intros k Hk. apply existsb_exists in Ea as [w [Hw HA]]. exists w. split; auto. cbn [cver cfal ac]. split.
      * rewrite ante_split in HA. apply orb_true_iff in HA as [HA|HA]; auto. exfalso.
        assert (existsb (fal (mkq B A)) W = true) by (apply existsb_exists; eauto). congruence.
      * intros w' Hw' Hf. exfalso. assert (existsb (fal (mkq B A)) W = true) by (apply existsb_exists; eauto). congruence.
    + left. intros w Hw. destruct (eval w A) eqn:E; auto. exfalso.
      assert (existsb (ante (mkq B A)) W = true) by (apply existsb_exists; exists w; split; auto). congruence.
  - rewrite (infer_p_strict_rankings n D (mkq B A) P HD HP Et). split; [intros H; right; exact H|].
    intros [H|H]; auto. exfalso. unfold trivial, sat in Et. apply orb_false_iff in Et as [Et _]. apply negb_false_iff in Et.
    apply existsb_exists in Et as [w [Hw HA]]. unfold ante in HA. cbn [cante mkq] in HA. rewrite (H w Hw) in HA. discriminate. Qed.

(* the Z-ranking of the tolerance partition is a ranking model: the intersection is not empty *)
Lemma strict_has_model D P : part_strict n D = Some P -> exists k, model world W k (map ac D).
Proof. intros HP. apply strict_partition in HP as [Hm [Hp _]]. exists (kz world P).
  eapply model_perm; [exact Hp|]. apply kz_model. apply mtp_tp. exact Hm. Qed.

Theorem p_entailment_sysP D P : D <> [] -> part_strict n D = Some P ->
  sysP_holds W (fun A B => Model.infer n SysP false D (mkq B A) = Ans true).
Proof. intros HD HP. eapply sysP_iff; [intros A B; symmetry; apply (p_answers_are_all_models D P A B HD HP)|].
  apply p_rel_sysP. eapply strict_has_model; eauto. Qed.
End Ops.

(* ---- c-inference: all c-representations ---- *)
Section CInt.
Variable n : nat.
Variable D : list cond.
Notation W := (worlds n).

Lemma qacc_accepts eta q : qacc_b n D eta q = true <-> accepts world W (ckappa D eta) (ac q).
Proof. unfold qacc_b, rk, accepts. cbn [cver cfal ac]. rewrite lt_opt_minl_iff. split.
  - intros [a [Ha Hall]]. apply in_map_iff in Ha as [w [<- Hw]]. apply sel_in in Hw as [Hw [_ Hv]].
    exists w. split; auto. split; auto. intros w' Hw' Hf. apply Hall. apply in_map. apply sel_in. unfold top. auto.
  - intros [w [Hw [Hv Hall]]]. exists (ckappa D eta w). split; [apply in_map; apply sel_in; unfold top; auto|].
    intros b Hb. apply in_map_iff in Hb as [w' [<- Hw']]. apply sel_in in Hw' as [Hw' [_ Hf]]. apply Hall; auto. Qed.

Definition is_crep (eta:list nat) : Prop := length eta = length D /\ crep_b n D eta = true.
Definition c_rel (A B:form) : Prop := forall eta, is_crep eta -> pinf W (klt (ckappa D eta)) A B.
Theorem c_rel_sysP : (exists eta, is_crep eta) -> sysP_holds W c_rel.
Proof. intros Hex. unfold c_rel. apply (sysP_inter W is_crep (fun eta => pinf W (klt (ckappa D eta)))); auto.
  intros eta _. apply sysP_of_order; [apply klt_irrefl|apply klt_trans]. Qed.
(* skeptical c-inference (C05's definition), with the trivial case "A unsatisfiable" answered True as the manager does *)
Theorem c_rel_iff A B : c_rel A B <-> ((forall w, In w W -> eval w A = false) \/ c_spec_prop n D (mkq B A)).
Proof. unfold c_rel, c_spec_prop, is_crep. split.
  - intros H. destruct (existsb (fA A) W) eqn:Ea.
    + right. intros eta Hl Hc. apply qacc_accepts. specialize (H eta (conj Hl Hc)). apply pinf_klt_iff in H. destruct H as [H|H]; auto. exfalso.
      apply existsb_exists in Ea as [w [Hw HA]]. unfold fA in HA. rewrite (H w Hw) in HA. discriminate.
    + left. intros w Hw. destruct (eval w A) eqn:E; auto. exfalso.
      assert (existsb (fA A) W = true) by (apply existsb_exists; exists w; split; auto). congruence.
  - intros [H|H] eta [Hl Hc]; apply pinf_klt_iff; auto. left. apply qacc_accepts. apply H; auto. Qed.
Theorem c_inference_sysP : (exists eta, is_crep eta) ->
  sysP_holds W (fun A B => (forall w, In w W -> eval w A = false) \/ c_spec_prop n D (mkq B A)).
Proof. intros Hex. eapply sysP_iff; [intros A B; apply c_rel_iff|]. apply c_rel_sysP. exact Hex. Qed.
Theorem c_operator_sysP : selffulfilling n D = false -> (exists eta, is_crep eta) ->
  sysP_holds W (fun A B => (forall w, In w W -> eval w A = false) \/ c_infer_prop n D (mkq B A)).
Proof. intros Hs Hex. eapply sysP_iff; [|apply c_inference_sysP; exact Hex].
  intros A B. cbn beta. rewrite (c_correct n D (mkq B A) Hs). tauto. Qed.
End CInt.

(* ---- existence: a strongly consistent base has a c-representation, so none of the intersections is empty ---- *)
Section Exist.
Variable n : nat.
Notation W := (worlds n).
Theorem strict_has_crep D P : part_strict n D = Some P -> exists eta, is_crep n D eta.
Proof. intros HP. destruct (strict_has_model n D P HP) as [k Hk]. exists (eta_of world W (map ac D) k). split.
  - rewrite eta_len, map_length. reflexivity.
  - unfold crep_b. apply forallb_forall. intros i Hi. apply in_seq in Hi. apply crep_exists; auto. rewrite map_length. lia. Qed.
Theorem strict_csp_satisfiable D P : part_strict n D = Some P -> exists eta, length eta = length D /\ csp_b n D eta = true.
Proof. intros HP. destruct (strict_has_crep D P HP) as [eta [Hl Hc]]. exists eta. split; auto. rewrite csp_iff_crep; auto. Qed.
Theorem c_inference_sysP_strict D P : part_strict n D = Some P -> selffulfilling n D = false ->
  sysP_holds W (fun A B => (forall w, In w W -> eval w A = false) \/ c_infer_prop n D (mkq B A)).
Proof. intros HP Hs. apply c_operator_sysP; auto. eapply strict_has_crep; eauto. Qed.
(* direct inference: every ranking model / c-representation accepts the conditionals of the base *)
Theorem p_direct D c : In c D -> forall k, model world W k (map ac D) -> accepts world W k (ac c).
Proof. intros Hc k Hk. apply Hk. apply in_map. exact Hc. Qed.
Theorem c_direct D c : In c D -> c_spec_prop n D c.
Proof. intros Hc eta Hl Hcr. unfold crep_b in Hcr. rewrite forallb_forall in Hcr. destruct (In_nth D c c Hc) as [i [Hi Hn]].
  assert (Hs: In i (seq 0 (length D))) by (apply in_seq; lia). specialize (Hcr i Hs). unfold accepts_i in Hcr.
  rewrite (nth_indep (map ac D) _ (ac c)) in Hcr by (rewrite map_length; exact Hi). rewrite (map_nth ac) in Hcr. rewrite Hn in Hcr.
  exact Hcr. Qed.
End Exist.
