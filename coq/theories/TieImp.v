From InfOCF Require Import Core Form PyLib TieLib.
From InfOCFGen Require Import SrcImp.
From Coq Require Import ZArith Lia.
(* TIE: RandomMinCRepPreOCF.save_impacts / load_impacts GENERATED from inference/preocf.py (gen/SrcImp.v; the calls of save_meta, which
   only touch the metadata dictionary, are left out).  load_impacts accepts exactly the vectors of the right length without a
   negative entry and then stores the list handed over, entry by entry; save_impacts returns the stored vector: what is saved from
   one object and loaded into another with the same conditionals is the same vector. *)
Definition impacts_ok (d:dict Z cond) (imp:list Z) : bool := (py_len imp =? py_len d)%Z && negb (existsb (fun x => (x <? 0)%Z) imp).
Theorem tie_load_impacts n (d:dict Z cond) imp old :
  py_load_impacts n d imp old = if impacts_ok d imp then Return (tt, imp) else Raise.
Proof. unfold py_load_impacts, impacts_ok. cbn [negb cbind].
  assert (E: forallb (fun _ : Z => true) imp = true) by (induction imp; [reflexivity|assumption]). rewrite E. cbn [negb cbind].
  destruct (py_len imp =? py_len d)%Z; cbn [negb cbind andb]; [|reflexivity].
  destruct (existsb (fun x => (x <? 0)%Z) imp); reflexivity. Qed.
Theorem tie_save_impacts n imp : py_save_impacts n imp = Return imp.
Proof. reflexivity. Qed.
Corollary impacts_round_trip n (d:dict Z cond) imp old : impacts_ok d imp = true ->
  exists saved, py_save_impacts n imp = Return saved /\ py_load_impacts n d saved old = Return (tt, imp).
Proof. intros H. exists imp. split; [reflexivity|]. rewrite tie_load_impacts, H. reflexivity. Qed.
