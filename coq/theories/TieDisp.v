From InfOCF Require Import Core Form PyLib PyStr.
From InfOCFGen Require Import SrcDisp.
From Coq Require Import ZArith String.
Local Open Scope string_scope.
(* TIE: create_inference_instance GENERATED from inference/inference_manager.py (gen/SrcDisp.v): which operator class answers the
   queries of a manager is a function of the two configured names alone - the inference system and, for System W and
   lexicographic inference, whether the partial-MaxSAT back-end is "z3" - and an unknown system name raises. *)
Definition dispatch (sys pm:string) : option opclass :=
  if String.eqb sys "p-entailment" then Some OpPEntailment
  else if String.eqb sys "system-z" then Some OpSystemZ
  else if String.eqb sys "system-w" then Some (if String.eqb pm "z3" then OpSystemWZ3 else OpSystemW)
  else if String.eqb sys "c-inference" then Some OpCInference
  else if String.eqb sys "lex_inf" then Some (if String.eqb pm "z3" then OpLexInfZ3 else OpLexInf)
  else None.
Theorem tie_dispatch n sys pm smt bb : py_create_inference_instance n sys pm smt bb tt = match dispatch sys pm with Some c => Return c | None => Raise end.
Proof. unfold py_create_inference_instance, dispatch. cbv zeta.
  destruct (String.eqb sys "p-entailment"); [reflexivity|]. destruct (String.eqb sys "system-z"); [reflexivity|].
  destruct (String.eqb sys "system-w"); [destruct (String.eqb pm "z3"); reflexivity|]. destruct (String.eqb sys "c-inference"); [reflexivity|].
  destruct (String.eqb sys "lex_inf"); [destruct (String.eqb pm "z3"); reflexivity|]. reflexivity. Qed.
Corollary dispatch_table :
  dispatch "p-entailment" "rc2" = Some OpPEntailment /\ dispatch "system-z" "rc2" = Some OpSystemZ /\
  dispatch "system-w" "rc2" = Some OpSystemW /\ dispatch "system-w" "rc2-g3" = Some OpSystemW /\ dispatch "system-w" "z3" = Some OpSystemWZ3 /\
  dispatch "lex_inf" "rc2" = Some OpLexInf /\ dispatch "lex_inf" "z3" = Some OpLexInfZ3 /\ dispatch "c-inference" "rc2" = Some OpCInference /\
  dispatch "system-p" "rc2" = None.
Proof. repeat split; reflexivity. Qed.
