From InfOCF Require Import Core Form Mcs Cnf.
(* C15: the blocking constraint of Optimizer.exclude_violated.  For the violated conditionals (helper variable h_i, clause set
   nf_i each): clauses (c \/ ~h_i) for every c in nf_i, and the clause (h_1 \/ ... \/ h_k).  With fresh, pairwise distinct
   helper variables, an assignment of the original variables extends to a model of the constraint exactly when it satisfies
   the clause set of at least one of the blocked conditionals - i.e. when it does not falsify all of them again. *)
Definition exclude (sel:list (nat * cnf)) : cnf :=
  flat_map (fun hc => map (fun c => c ++ [(false, fst hc)]) (snd hc)) sel ++ [map (fun hc => (true, fst hc)) sel].
Definition vars_lt (nv0:nat) (f:cnf) : Prop := forall c, In c f -> forall l, In l c -> snd l < nv0.
Definition agree (nv0:nat) (a a':asg) : Prop := forall v, v < nv0 -> nth v a false = nth v a' false.

Lemma csat_agree nv0 a a' c : (forall l, In l c -> snd l < nv0) -> agree nv0 a a' -> csat a c = csat a' c.
Proof. intros Hv Ha. unfold csat. induction c as [|l c IH]; cbn [existsb]; auto.
  rewrite IH by (intros; apply Hv; right; auto). unfold lsat. rewrite (Ha (snd l)) by (apply Hv; left; auto). reflexivity. Qed.
Lemma cnfsat_agree nv0 a a' f : vars_lt nv0 f -> agree nv0 a a' -> cnfsat a f = cnfsat a' f.
Proof. intros Hv Ha. unfold cnfsat. induction f as [|c f IH]; cbn [forallb]; auto.
  rewrite IH by (intros c' Hc'; apply Hv; right; auto). rewrite (csat_agree nv0 a a' c); auto. apply Hv. left; auto. Qed.
Lemma csat_app a c d : csat a (c ++ d) = csat a c || csat a d.
Proof. unfold csat. apply existsb_app. Qed.
Lemma cnfsat_app a f g : cnfsat a (f ++ g) = cnfsat a f && cnfsat a g.
Proof. unfold cnfsat. apply forallb_app. Qed.
Lemma fst_nodup_eq {B} (l:list (nat * B)) h x y : NoDup (map fst l) -> In (h, x) l -> In (h, y) l -> x = y.
Proof. induction l as [|[h' z] l IH]; intros Hnd H1 H2; [destruct H1|]. cbn [map fst] in Hnd. inversion Hnd as [|? ? Hn Hnd']; subst.
  destruct H1 as [E1|H1], H2 as [E2|H2].
  - congruence.
  - injection E1 as -> ->. exfalso. apply Hn. apply (in_map fst) in H2. exact H2.
  - injection E2 as -> ->. exfalso. apply Hn. apply (in_map fst) in H1. exact H1.
  - eapply IH; eauto. Qed.

Section Block.
Variable nv0 : nat.
Variable sel : list (nat * cnf).
Hypothesis fresh_ids : forall hc, In hc sel -> nv0 <= fst hc.
Hypothesis distinct_ids : NoDup (map fst sel).
Hypothesis old_vars : forall hc, In hc sel -> vars_lt nv0 (snd hc).

Theorem exclude_sound a a' : agree nv0 a a' -> cnfsat a' (exclude sel) = true -> exists hc, In hc sel /\ cnfsat a (snd hc) = true.
Proof. intros Hag H. unfold exclude in H. rewrite cnfsat_app in H. apply andb_true_iff in H as [H1 H2].
  cbn [cnfsat forallb] in H2. rewrite andb_true_r in H2. unfold csat in H2. apply existsb_exists in H2 as [l [Hl Hs]].
  apply in_map_iff in Hl as [hc [<- Hhc]]. unfold lsat in Hs. cbn [fst snd] in Hs. apply Bool.eqb_prop in Hs.
  exists hc. split; auto. rewrite (cnfsat_agree nv0 a a' (snd hc)); auto.
  unfold cnfsat. apply forallb_forall. intros c Hc. unfold cnfsat in H1. rewrite forallb_forall in H1.
  assert (Hin: In (c ++ [(false, fst hc)]) (flat_map (fun hc => map (fun c => c ++ [(false, fst hc)]) (snd hc)) sel)).
  { apply in_flat_map. exists hc. split; auto. apply (in_map (fun c => c ++ [(false, fst hc)])). exact Hc. }
  specialize (H1 _ Hin). rewrite csat_app in H1. apply orb_true_iff in H1 as [H1|H1]; auto.
  exfalso. unfold csat in H1. cbn [existsb] in H1. rewrite orb_false_r in H1. unfold lsat in H1. cbn [fst snd] in H1. rewrite Hs in H1. discriminate. Qed.

Definition ext_asg (a:asg) (h0:nat) : asg := map (fun v => if v <? nv0 then nth v a false else v =? h0) (seq 0 (S (Nat.max nv0 h0))).
Lemma ext_nth a h0 v : nth v (ext_asg a h0) false = if v <? nv0 then nth v a false else v =? h0.
Proof. unfold ext_asg. destruct (Nat.lt_ge_cases v (S (Nat.max nv0 h0))) as [Hlt|Hge].
  - set (g := fun v => if v <? nv0 then nth v a false else v =? h0).
    rewrite (nth_indep _ false (g 0)) by (rewrite map_length, seq_length; exact Hlt). rewrite (map_nth g). rewrite seq_nth by exact Hlt. reflexivity.
  - rewrite nth_overflow by (rewrite map_length, seq_length; exact Hge).
    destruct (v <? nv0) eqn:E1; [apply Nat.ltb_lt in E1; lia|]. destruct (v =? h0) eqn:E2; [apply Nat.eqb_eq in E2; lia|reflexivity]. Qed.

Theorem exclude_complete a hc0 : In hc0 sel -> cnfsat a (snd hc0) = true ->
  exists a', agree nv0 a a' /\ cnfsat a' (exclude sel) = true.
Proof. intros Hin Hs. destruct hc0 as [h0 cs0]. cbn [snd] in Hs. exists (ext_asg a h0).
  assert (Hag: agree nv0 a (ext_asg a h0)).
  { intros v Hv. rewrite ext_nth. apply Nat.ltb_lt in Hv. rewrite Hv. reflexivity. }
  split; auto. unfold exclude. rewrite cnfsat_app. apply andb_true_iff. split.
  - unfold cnfsat. apply forallb_forall. intros cl Hcl. apply in_flat_map in Hcl as [[h cs] [Hhc Hcl]]. cbn [fst snd] in Hcl.
    apply in_map_iff in Hcl as [c [<- Hc]]. rewrite csat_app. apply orb_true_iff.
    destruct (Nat.eq_dec h h0) as [->|Hne].
    + left. assert (cs = cs0) by (eapply fst_nodup_eq; eauto). subst cs.
      rewrite <- (csat_agree nv0 a (ext_asg a h0) c); auto.
      * unfold cnfsat in Hs. rewrite forallb_forall in Hs. apply Hs; auto.
      * apply (old_vars (h0, cs0) Hin c Hc).
    + right. unfold csat. cbn [existsb]. rewrite orb_false_r. unfold lsat. cbn [fst snd]. rewrite ext_nth.
      pose proof (fresh_ids (h, cs) Hhc) as Hf. cbn [fst] in Hf.
      destruct (h <? nv0) eqn:E1; [apply Nat.ltb_lt in E1; lia|]. destruct (h =? h0) eqn:E2; [apply Nat.eqb_eq in E2; congruence|reflexivity].
  - cbn [cnfsat forallb]. rewrite andb_true_r. unfold csat. apply existsb_exists. exists (true, h0). split.
    + apply in_map_iff. exists (h0, cs0). split; auto.
    + unfold lsat. cbn [fst snd]. rewrite ext_nth. pose proof (fresh_ids (h0, cs0) Hin) as Hf. cbn [fst] in Hf.
      destruct (h0 <? nv0) eqn:E1; [apply Nat.ltb_lt in E1; lia|]. rewrite Nat.eqb_refl. reflexivity. Qed.

Theorem exclude_semantics a :
  (exists a', agree nv0 a a' /\ cnfsat a' (exclude sel) = true) <-> (exists hc, In hc sel /\ cnfsat a (snd hc) = true).
Proof. split; [intros [a' [H1 H2]]; eapply exclude_sound; eauto|intros [hc [H1 H2]]; eapply exclude_complete; eauto]. Qed.
End Block.

(* in terms of the enumeration: with sel = the groups selected by the blocked set b (with their helper ids), the constraint
   admits exactly the assignments whose violation pattern is not a superset of b: "notblocked" of the loop *)
Fixpoint selected {A} (b:bv) (l:list A) : list A :=
  match b, l with x::b', y::l' => if x then y :: selected b' l' else selected b' l' | _, _ => [] end.
Theorem blocked_iff_superset (g:groups) (b:bv) a : length b = length g ->
  (exists kc, In kc (selected b g) /\ cnfsat a (snd kc) = true) <-> sub b (viol g a) = false.
Proof. revert b. induction g as [|kc g IH]; intros [|x b] Hl; cbn [length] in Hl; try discriminate.
  - cbn. split; [intros [? [[] _]]|discriminate].
  - injection Hl as Hl. cbn [selected viol map sub]. fold (viol g a). destruct x; cbn [implb].
    + destruct (cnfsat a (snd kc)) eqn:E; cbn [negb andb].
      * split; auto. intros _. exists kc. split; [left|]; auto.
      * rewrite <- (IH b Hl). split.
        -- intros [kc' [[<-|H1] H2]]; [congruence|]. exists kc'. auto.
        -- intros [kc' [H1 H2]]. exists kc'. split; [right|]; auto.
    + cbn [andb]. apply IH. exact Hl. Qed.
