From InfOCF Require Import Core Tol TolExt Form Model Thm06 PyLib TieLib TieSet TieSolver TieCons TieInf TieMax TieLayer TieW.
From InfOCFGen Require Import SrcCond SrcCons SrcInf SrcW.
From Coq Require Import ZArith.
(* What the GENERATED code of System W (rc2 back-end) answers, as the manager runs it (the generated consistency test on the base, then
   the generated quick checks of general_inference around the generated operator body on the partition that test
   returned), is the model's `infer`; and on every base the model accepts it does answer. *)

Section Src.
Variable n : nat.
Variable D : list cond.
Hypothesis Hnd : NoDup (map kzc D).
Hypothesis HD : D <> [].
Notation d := (dict_of D).
Notation bb := (Build_pybase (dict_of D)).
Lemma dict_of_values_w : dict_values d = D.
Proof. unfold dict_values, dict_of. rewrite map_map. apply map_id. Qed.

(* the key partition the generated consistency_indices returns is the key image of a layering of the base *)
Lemma indices_layering weakly Pkz st : py_consistency_indices n (S (length D)) bb tt weakly = Return (PVal Pkz, st) ->
  exists P lay m, consistency n weakly D = Some P /\ P = acP (Pc D lay m) /\ (forall c, In c D -> lay c < m) /\ 0 < m /\ Pkz = Pk D lay m.
Proof. intros Hrun. destruct (tie_consistency_indices n D Hnd weakly tt) as [r [st' [Hrun' Hr]]].
  rewrite Hrun in Hrun'. injection Hrun' as <- _.
  destruct (consistency n weakly D) as [P|] eqn:EP; cbn [option_map res_of] in Hr; [|discriminate].
  injection Hr as Hr. destruct (partition_layering n D weakly P HD EP) as [lay [m [EPl [Hb Hm]]]].
  exists P, lay, m. split; [reflexivity|]. split; [exact EPl|]. split; [exact Hb|]. split; [exact Hm|].
  rewrite Hr, EPl. unfold acP, Pk. rewrite !map_map. apply map_ext. intros L. rewrite !map_map. reflexivity. Qed.


Definition src_w (weakly:bool) (q:cond) (b:bool) : Prop := exists Pkz st vq0 fq0,
  py_consistency_indices n (S (length D)) bb tt weakly = Return (PVal Pkz, st) /\
  py_general_inference n (py_SystemW_inference n (S (length Pkz)) Pkz (nf_of D) (fd_of D) vq0 fq0 (bb_of D) tt) weakly q tt tt = Return b.
Theorem src_w_infer weakly q b : src_w weakly q b -> infer n SysW weakly D q = Ans b.
Proof. intros [Pkz [st [vq0 [fq0 [H1 H2]]]]].
  destruct (indices_layering weakly Pkz st H1) as [P [lay [m [EP [EPl [Hb [Hm EPk]]]]]]].
  assert (Elen: length Pkz = m) by (rewrite EPk; apply Pk_length).
  rewrite Elen, EPk in H2.
  pose proof (tie_w_inference n q D Hnd lay m Hb Hm (nf_of D) (fd_of D) (nf_of_keys D) (nf_of_ok D Hnd) (fd_of_ok D Hnd) (bb_of D) (bb_of_ok D Hnd) weakly vq0 fq0 tt tt) as Hw.
  rewrite (tie_general_inference n _ weakly q tt tt _ Hw) in H2. injection H2 as <-.
  unfold infer. destruct D as [|c0 D0] eqn:ED; [congruence|]. rewrite <- ED in *. rewrite EP, EPl.
  destruct weakly; reflexivity. Qed.
Theorem src_w_exists weakly q P : consistency n weakly D = Some P -> exists b, src_w weakly q b.
Proof. intros HP.
  destruct (tie_consistency_indices n D Hnd weakly tt) as [r [st [Hrun Hr]]]. rewrite HP in Hr. cbn [option_map res_of] in Hr. subst r.
  destruct (indices_layering weakly _ st Hrun) as [P' [lay [m [EP [EPl [Hb [Hm EPk]]]]]]].
  eexists. eexists. exists st, [], []. split; [exact Hrun|].
  apply tie_general_inference. rewrite EPk, Pk_length.
  apply (tie_w_inference n q D Hnd lay m Hb Hm (nf_of D) (fd_of D) (nf_of_keys D) (nf_of_ok D Hnd) (fd_of_ok D Hnd) (bb_of D) (bb_of_ok D Hnd)). Qed.
End Src.
