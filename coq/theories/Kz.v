From InfOCF Require Import Core SysZ Tol.
(* The Z-ranking of a tolerance partition accepts every conditional of the base (direct inference for Z;
   p subset Z; counter-model for p-entailment; System Z ranking object models the base). *)
Section Kz.
Variable world : Type.
Variable W : list world.
Notation acond := (acond world).
Notation nofals := (nofals world).
Notation tolerated := (tolerated world W).
Notation is_tp := (is_tp world W).

(* ascending partition P = [L0; L1; ...]; kza i P w = 0 if nothing in P is falsified, else 1 + (i + index of the highest falsified layer) *)
Fixpoint kza (i:nat) (P:list (list acond)) (w:world) : nat :=
  match P with [] => 0
  | L::P' => let r := kza (S i) P' w in if r =? 0 then (if nofals L w then 0 else S i) else r end.
Definition kz P w := kza 0 P w.

Lemma kza_zero i P w : kza i P w = 0 <-> nofals (concat P) w = true.
Proof. revert i; induction P as [|L P IH]; intros i; simpl; [tauto|].
  unfold nofals at 2. rewrite forallb_app. fold (nofals L w) (nofals (concat P) w).
  destruct (kza (S i) P w =? 0) eqn:E.
  - apply Nat.eqb_eq in E. apply (IH (S i)) in E. rewrite E, andb_true_r. destruct (nofals L w); split; auto; discriminate.
  - apply Nat.eqb_neq in E. split; [congruence|]. intros H. apply andb_true_iff in H as [_ H]. apply (IH (S i)) in H. congruence. Qed.
Lemma kza_pos i P w : kza i P w <> 0 -> i < kza i P w.
Proof. revert i; induction P as [|L P IH]; intros i; simpl; [congruence|].
  destruct (kza (S i) P w =? 0) eqn:E.
  - destruct (nofals L w); [congruence|lia].
  - apply Nat.eqb_neq in E. intros _. specialize (IH (S i) E). lia. Qed.
Lemma kza_le i P w : kza i P w <= i + length P.
Proof. revert i; induction P as [|L P IH]; intros i; simpl; [lia|].
  destruct (kza (S i) P w =? 0); [destruct (nofals L w); lia|]. specialize (IH (S i)). lia. Qed.
(* a world falsifying nothing from layer j upward has rank <= j *)
Lemma kza_upper : forall P i j w, nofals (concat (skipn j P)) w = true -> kza i P w <= i + j.
Proof. induction P as [|L P IH]; intros i j w H; simpl; [lia|].
  destruct j as [|j].
  - simpl in H. assert (kza i (L::P) w = 0) by (apply kza_zero; exact H). simpl in H0. lia.
  - simpl in H. specialize (IH (S i) j w H).
    destruct (kza (S i) P w =? 0) eqn:E; [destruct (nofals L w); lia|lia]. Qed.
(* a world falsifying a member of layer j has rank > j *)
Lemma kza_lower : forall P i j c w, In c (nth j P []) -> cfal world c w = true -> i + j < kza i P w.
Proof. induction P as [|L P IH]; intros i j c w Hc Hf; [destruct j; inversion Hc|].
  destruct j as [|j]; simpl in Hc.
  - simpl. assert (nofals L w = false).
    { destruct (nofals L w) eqn:E; auto. rewrite nofals_in in E. rewrite (E c Hc) in Hf. discriminate. }
    rewrite H. destruct (kza (S i) P w =? 0) eqn:E; [lia|]. apply Nat.eqb_neq in E. apply kza_pos in E. lia.
  - simpl. specialize (IH (S i) j c w Hc Hf). assert (kza (S i) P w <> 0) by lia. apply Nat.eqb_neq in H. rewrite H. lia. Qed.

Lemma is_tp_nth : forall P j c, is_tp P -> In c (nth j P []) -> tolerated (concat (skipn j P)) c = true.
Proof. induction P as [|L P IH]; intros j c HP Hc; [destruct j; inversion Hc|].
  destruct HP as [_ [Ht HP]]. destruct j as [|j]; simpl in *; auto. Qed.

Theorem kz_accepts P : is_tp P -> forall j c, In c (nth j P []) ->
  exists w, In w W /\ cver world c w = true /\ forall w', In w' W -> cfal world c w' = true -> kz P w < kz P w'.
Proof. intros HP j c Hc. pose proof (is_tp_nth P j c HP Hc) as Ht. apply tolerated_iff in Ht as [w [Hw [Hv Hn]]].
  exists w. repeat split; auto. intros w' Hw' Hf.
  assert (kz P w <= j) by (apply (kza_upper P 0 j w); apply nofals_in; auto).
  pose proof (kza_lower P 0 j c w' Hc Hf). unfold kz in *. simpl in *. lia. Qed.
End Kz.
Print Assumptions kz_accepts.
